import ThermoVerif.Model.FlowViews
/-
Helper lemmas for C11: the structural invariant of the view caches (`Inv`) and its preservation by
every primitive that touches identities.  Core Lean only.
-/
namespace ThermoVerif.FlowViews

/-- The fields of a stream a cached view depends on. -/
def Same (s t : Stream) : Prop :=
  s.data = t.data ∧ s.tc = t.tc ∧ s.th = t.th ∧ s.viewPhases = t.viewPhases ∧ s.viewPc = t.viewPc

theorem Same.refl (s : Stream) : Same s s := ⟨rfl, rfl, rfl, rfl, rfl⟩
theorem Same.symm {s t : Stream} (h : Same s t) : Same t s :=
  ⟨h.1.symm, h.2.1.symm, h.2.2.1.symm, h.2.2.2.1.symm, h.2.2.2.2.symm⟩
theorem Same.trans {s t u : Stream} (h : Same s t) (g : Same t u) : Same s u :=
  ⟨h.1.trans g.1, h.2.1.trans g.2.1, h.2.2.1.trans g.2.2.1, h.2.2.2.1.trans g.2.2.2.1,
   h.2.2.2.2.trans g.2.2.2.2⟩

/-- A cache entry is *good for* stream `s`: the view wraps exactly the row objects `s` currently holds,
captured `s`'s current chemicals, phases / phase container and thermal-condition object, and is filed
under `'mass'` or under `s`'s current thermal condition. -/
def Good (z : Struct) (s : Stream) (kv : Key × View) : Prop :=
  kv.2.rows = z.datas s.data ∧ kv.2.th = s.th ∧ kv.2.phases = s.viewPhases ∧ kv.2.pc = s.viewPc ∧
  kv.2.tc = s.tc ∧ (kv.1 = .mass ∨ kv.1 = .vol s.tc)

theorem Good.of_same {z : Struct} {s t : Stream} {kv : Key × View} (h : Same s t) (g : Good z s kv) :
    Good z t kv := by
  obtain ⟨h1, h2, h3, h4, h5⟩ := h
  obtain ⟨g1, g2, g3, g4, g5, g6⟩ := g
  refine ⟨by rw [g1, h1], by rw [g2, h3], by rw [g3, h4], by rw [g4, h5], by rw [g5, h2], ?_⟩
  rw [← h2]; exact g6

/-- The invariant behind `view_tracks_rows`. -/
structure Inv (z : Struct) : Prop where
  bcache : ∀ i, i < z.nstreams → (z.streams i).cache < z.ncaches
  bdata : ∀ i, i < z.nstreams → (z.streams i).data < z.ndatas
  /-- streams that hold the same `_data_cache` dict hold the same data, thermal condition, chemicals, phases -/
  coh : ∀ i j, i < z.nstreams → j < z.nstreams → (z.streams i).cache = (z.streams j).cache →
        Same (z.streams i) (z.streams j)
  /-- every cached view is good for every stream that can reach it -/
  tracks : ∀ i, i < z.nstreams → ∀ kv ∈ z.caches (z.streams i).cache, Good z (z.streams i) kv

theorem inv_init : Inv ({} : Struct) :=
  ⟨fun _ h => absurd h (Nat.not_lt_zero _), fun _ h => absurd h (Nat.not_lt_zero _),
   fun _ _ h => absurd h (Nat.not_lt_zero _), fun _ h => absurd h (Nat.not_lt_zero _)⟩

@[simp] theorem upd_same {α : Type} (f : Nat → α) (i : Nat) (x : α) : upd f i x i = x := by simp [upd]
theorem upd_ne {α : Type} (f : Nat → α) {i j : Nat} (x : α) (h : j ≠ i) : upd f i x j = f j := by
  simp [upd, h]

/-- Stream `sid` (an existing one, or the next one to be created) gets a brand-new `_data_cache`; its data
object is either an existing one or brand-new.  Everything reachable from the other streams is untouched. -/
theorem inv_fresh {z z' : Struct} {sid : Nat} (h : Inv z)
    (hn : ∀ j, j < z'.nstreams → j ≠ sid → j < z.nstreams)
    (hst : ∀ j, j ≠ sid → z'.streams j = z.streams j)
    (hc : (z'.streams sid).cache = z.ncaches)
    (hnc : z'.ncaches = z.ncaches + 1)
    (hcs : ∀ c, c < z.ncaches → z'.caches c = z.caches c)
    (hce : z'.caches z.ncaches = [])
    (hd : (z'.streams sid).data < z'.ndatas)
    (hnd : z.ndatas ≤ z'.ndatas)
    (hds : ∀ d, d < z.ndatas → z'.datas d = z.datas d) : Inv z' := by
  refine ⟨?_, ?_, ?_, ?_⟩
  · intro i hi
    by_cases e : i = sid
    · subst e; rw [hc, hnc]; exact Nat.lt_succ_self _
    · rw [hst i e, hnc]; exact Nat.lt_succ_of_lt (h.bcache i (hn i hi e))
  · intro i hi
    by_cases e : i = sid
    · subst e; exact hd
    · rw [hst i e]; exact Nat.lt_of_lt_of_le (h.bdata i (hn i hi e)) hnd
  · intro i j hi hj hij
    by_cases ei : i = sid
    · by_cases ej : j = sid
      · rw [ei, ej]; exact Same.refl _
      · exfalso
        rw [ei, hc, hst j ej] at hij
        have := h.bcache j (hn j hj ej)
        omega
    · by_cases ej : j = sid
      · exfalso
        rw [ej, hc, hst i ei] at hij
        have := h.bcache i (hn i hi ei)
        omega
      · rw [hst i ei, hst j ej] at hij ⊢
        exact h.coh i j (hn i hi ei) (hn j hj ej) hij
  · intro i hi kv hkv
    by_cases e : i = sid
    · subst e; rw [hc, hce] at hkv; cases hkv
    · have hi' := hn i hi e
      rw [hst i e] at hkv ⊢
      rw [hcs _ (h.bcache i hi')] at hkv
      obtain ⟨g1, g2⟩ := h.tracks i hi' kv hkv
      exact ⟨by rw [g1, hds _ (h.bdata i hi')], g2⟩

/-- A view that is good for stream `sid` is added to `sid`'s `_data_cache` (`by_mass` / `by_volume` on a miss). -/
theorem inv_addEntry {z z' : Struct} {sid : Nat} {kv : Key × View} (h : Inv z) (hs : sid < z.nstreams)
    (hg : Good z (z.streams sid) kv)
    (hn : z'.nstreams = z.nstreams) (hst : z'.streams = z.streams)
    (hnc : z'.ncaches = z.ncaches) (hnd : z'.ndatas = z.ndatas) (hds : z'.datas = z.datas)
    (hca : z'.caches = upd z.caches (z.streams sid).cache (kv :: z.caches (z.streams sid).cache)) : Inv z' := by
  refine ⟨?_, ?_, ?_, ?_⟩
  · intro i hi; rw [hst, hnc]; exact h.bcache i (hn ▸ hi)
  · intro i hi; rw [hst, hnd]; exact h.bdata i (hn ▸ hi)
  · intro i j hi hj; rw [hst]; exact h.coh i j (hn ▸ hi) (hn ▸ hj)
  · intro i hi kv' hkv
    have hi' : i < z.nstreams := hn ▸ hi
    rw [hst] at hkv ⊢
    have goodz : ∀ x, Good z (z.streams i) x → Good z' (z.streams i) x := by
      intro x ⟨g1, g2⟩; exact ⟨by rw [g1, hds], g2⟩
    rw [hca] at hkv
    by_cases e : (z.streams i).cache = (z.streams sid).cache
    · rw [e, upd_same] at hkv
      cases hkv with
      | head => exact goodz _ (Good.of_same (h.coh sid i hs hi' e.symm) hg)
      | tail _ hm => exact goodz _ (h.tracks i hi' kv' (e ▸ hm))
    · rw [upd_ne _ _ e] at hkv
      exact goodz _ (h.tracks i hi' kv' hkv)

/-- Stream `sid` takes over `_data_cache`, data, thermal condition (and phase container) of stream `oid`
(the sharing branch of `link_with`). -/
theorem inv_share {z z' : Struct} {sid oid : Nat} (h : Inv z) (ho : oid < z.nstreams)
    (hn : z'.nstreams = z.nstreams)
    (hst : ∀ j, j ≠ sid → z'.streams j = z.streams j)
    (hc : (z'.streams sid).cache = (z.streams oid).cache)
    (hsame : Same (z'.streams sid) (z.streams oid))
    (hnc : z'.ncaches = z.ncaches) (hca : z'.caches = z.caches)
    (hnd : z'.ndatas = z.ndatas) (hds : z'.datas = z.datas) : Inv z' := by
  have good' : ∀ s x, Good z s x → Good z' s x := by
    intro s x ⟨g1, g2⟩; exact ⟨by rw [g1, hds], g2⟩
  refine ⟨?_, ?_, ?_, ?_⟩
  · intro i hi
    by_cases e : i = sid
    · subst e; rw [hc, hnc]; exact h.bcache oid ho
    · rw [hst i e, hnc]; exact h.bcache i (hn ▸ hi)
  · intro i hi
    by_cases e : i = sid
    · subst e; rw [hsame.1, hnd]; exact h.bdata oid ho
    · rw [hst i e, hnd]; exact h.bdata i (hn ▸ hi)
  · intro i j hi hj hij
    have hi' : i < z.nstreams := hn ▸ hi
    have hj' : j < z.nstreams := hn ▸ hj
    by_cases ei : i = sid
    · by_cases ej : j = sid
      · rw [ei, ej]; exact Same.refl _
      · rw [ei, hc, hst j ej] at hij
        rw [ei, hst j ej]
        exact hsame.trans (h.coh oid j ho hj' hij)
    · by_cases ej : j = sid
      · rw [ej, hc, hst i ei] at hij
        rw [ej, hst i ei]
        exact (h.coh i oid hi' ho hij).trans hsame.symm
      · rw [hst i ei, hst j ej] at hij ⊢
        exact h.coh i j hi' hj' hij
  · intro i hi kv hkv
    rw [hca] at hkv
    by_cases e : i = sid
    · subst e
      rw [hc] at hkv
      exact good' _ _ (Good.of_same hsame.symm (h.tracks oid ho kv hkv))
    · rw [hst i e] at hkv ⊢
      exact good' _ _ (h.tracks i (hn ▸ hi) kv hkv)

/-- `_expand_phases` (repaired): the row list of `sid`'s data object is replaced and `sid`'s `_data_cache` is
cleared; no other stream holds that data object. -/
theorem inv_expand {z z' : Struct} {sid : Nat} (h : Inv z) (hs : sid < z.nstreams)
    (hun : ∀ j, j < z.nstreams → j ≠ sid → (z.streams j).data ≠ (z.streams sid).data)
    (hn : z'.nstreams = z.nstreams)
    (hst : ∀ j, j ≠ sid → z'.streams j = z.streams j)
    (hc : (z'.streams sid).cache = (z.streams sid).cache)
    (hd : (z'.streams sid).data = (z.streams sid).data)
    (hnc : z'.ncaches = z.ncaches) (hnd : z'.ndatas = z.ndatas)
    (hca : ∀ c, c ≠ (z.streams sid).cache → z'.caches c = z.caches c)
    (hce : z'.caches (z.streams sid).cache = [])
    (hds : ∀ d, d ≠ (z.streams sid).data → z'.datas d = z.datas d) : Inv z' := by
  have hcne : ∀ j, j < z.nstreams → j ≠ sid → (z.streams j).cache ≠ (z.streams sid).cache := by
    intro j hj e hcj
    exact hun j hj e (h.coh j sid hj hs hcj).1
  refine ⟨?_, ?_, ?_, ?_⟩
  · intro i hi
    by_cases e : i = sid
    · subst e; rw [hc, hnc]; exact h.bcache _ hs
    · rw [hst i e, hnc]; exact h.bcache i (hn ▸ hi)
  · intro i hi
    by_cases e : i = sid
    · subst e; rw [hd, hnd]; exact h.bdata _ hs
    · rw [hst i e, hnd]; exact h.bdata i (hn ▸ hi)
  · intro i j hi hj hij
    have hi' : i < z.nstreams := hn ▸ hi
    have hj' : j < z.nstreams := hn ▸ hj
    by_cases ei : i = sid
    · by_cases ej : j = sid
      · rw [ei, ej]; exact Same.refl _
      · exfalso; rw [ei, hc, hst j ej] at hij; exact hcne j hj' ej hij.symm
    · by_cases ej : j = sid
      · exfalso; rw [ej, hc, hst i ei] at hij; exact hcne i hi' ei hij
      · rw [hst i ei, hst j ej] at hij ⊢
        exact h.coh i j hi' hj' hij
  · intro i hi kv hkv
    have hi' : i < z.nstreams := hn ▸ hi
    by_cases e : i = sid
    · subst e; rw [hc, hce] at hkv; cases hkv
    · rw [hst i e] at hkv ⊢
      rw [hca _ (hcne i hi' e)] at hkv
      obtain ⟨g1, g2⟩ := h.tracks i hi' kv hkv
      exact ⟨by rw [g1, hds _ (hun i hi' e)], g2⟩

theorem lookup_mem {α β : Type} [BEq α] [LawfulBEq α] {k : α} {v : β} :
    ∀ {l : List (α × β)}, l.lookup k = some v → (k, v) ∈ l
  | [], h => by simp [List.lookup] at h
  | (a, b) :: t, h => by
    simp only [List.lookup] at h
    split at h
    · rename_i heq
      have : k = a := by simpa using heq
      cases h; subst this; exact List.mem_cons_self
    · exact List.mem_cons_of_mem _ (lookup_mem h)

/-! ### the primitives of the model preserve `Inv` -/

theorem inv_getView {w : World} {sid : Nat} {key : Key} (h : Inv w.s) (hs : sid < w.s.nstreams)
    (hk : key = .mass ∨ key = .vol (w.stream sid).tc) : Inv (w.getView sid key).1.s := by
  dsimp only [World.getView]
  split
  · exact h
  · refine inv_addEntry (sid := sid) h hs (kv := (key, _)) ?_ rfl rfl rfl rfl rfl rfl
    exact ⟨rfl, rfl, rfl, rfl, rfl, hk⟩

theorem getView_content (w : World) (sid : Nat) (key : Key) : (w.getView sid key).1.c = w.c := by
  dsimp only [World.getView]; split <;> rfl

theorem getView_cfg (w : World) (sid : Nat) (key : Key) :
    (w.getView sid key).1.thermos = w.thermos ∧ (w.getView sid key).1.units = w.units := by
  dsimp only [World.getView]; split <;> exact ⟨rfl, rfl⟩

theorem getView_streams (w : World) (sid : Nat) (key : Key) :
    (w.getView sid key).1.s.streams = w.s.streams ∧ (w.getView sid key).1.s.nstreams = w.s.nstreams ∧
    (w.getView sid key).1.s.datas = w.s.datas := by
  dsimp only [World.getView]; split <;> exact ⟨rfl, rfl, rfl⟩

/-- the view `by_mass` / `by_volume` hands out is good for the stream -/
theorem getView_good {w : World} {sid : Nat} {key : Key} (h : Inv w.s) (hs : sid < w.s.nstreams)
    (hk : key = .mass ∨ key = .vol (w.stream sid).tc) :
    Good w.s (w.stream sid) (key, (w.getView sid key).2) := by
  dsimp only [World.getView]
  split
  · rename_i v hv
    exact h.tracks sid hs (key, v) (lookup_mem hv)
  · exact ⟨rfl, rfl, rfl, rfl, rfl, hk⟩

theorem inv_rebind {w : World} {sid : Nat} (h : Inv w.s) (multi : Bool) (phases : List Char)
    (phSel : Option Char) (th : Nat) (contents : List (List Rat)) :
    Inv (w.rebind sid multi phases phSel th contents).s := by
  refine inv_fresh (sid := sid) h ?_ ?_ ?_ rfl ?_ ?_ ?_ ?_ ?_
  · intro j hj _; exact hj
  · intro j hj; simp [World.rebind, upd, hj]
  · simp [World.rebind]
  · intro c hc; simp [World.rebind, upd, Nat.ne_of_lt hc]
  · simp [World.rebind]
  · simp [World.rebind]
  · simp [World.rebind]
  · intro d hd; simp [World.rebind, upd, Nat.ne_of_lt hd]

theorem rebind_nstreams (w : World) (sid : Nat) (multi : Bool) (phases : List Char)
    (phSel : Option Char) (th : Nat) (contents : List (List Rat)) :
    (w.rebind sid multi phases phSel th contents).s.nstreams = w.s.nstreams := rfl

theorem inv_newStream {w : World} (h : Inv w.s) (multi : Bool) (phases : List Char) (ph : Char) (th : Nat)
    (T P : Rat) (contents : List (List Rat)) :
    Inv (w.newStream multi phases ph th T P contents).1.s := by
  refine inv_fresh (sid := w.s.nstreams) h ?_ ?_ ?_ rfl ?_ ?_ ?_ ?_ ?_
  · intro j hj hne
    have : j < w.s.nstreams + 1 := hj
    omega
  · intro j hj; simp [World.newStream, World.rebind, upd, hj]
  · simp [World.newStream, World.rebind]
  · intro c hc; simp [World.newStream, World.rebind, upd, Nat.ne_of_lt hc]
  · simp [World.newStream, World.rebind]
  · simp [World.newStream, World.rebind]
  · simp [World.newStream, World.rebind]
  · intro d hd; simp [World.newStream, World.rebind, upd, Nat.ne_of_lt hd]

theorem newStream_nstreams (w : World) (multi : Bool) (phases : List Char) (ph : Char) (th : Nat)
    (T P : Rat) (contents : List (List Rat)) :
    (w.newStream multi phases ph th T P contents).1.s.nstreams = w.s.nstreams + 1 := rfl

theorem inv_unlink {w : World} {sid : Nat} (h : Inv w.s) : Inv (w.unlink sid).s := by
  refine inv_fresh (sid := sid) h ?_ ?_ ?_ rfl ?_ ?_ ?_ ?_ ?_
  · intro j hj _; exact hj
  · intro j hj; simp [World.unlink, World.unlinkWith, World.rebind, upd, hj]
  · simp [World.unlink, World.unlinkWith, World.rebind]
  · intro c hc; simp [World.unlink, World.unlinkWith, World.rebind, upd, Nat.ne_of_lt hc]
  · simp [World.unlink, World.unlinkWith, World.rebind]
  · simp [World.unlink, World.unlinkWith, World.rebind]
  · simp [World.unlink, World.unlinkWith, World.rebind]
  · intro d hd; simp [World.unlink, World.unlinkWith, World.rebind, upd, Nat.ne_of_lt hd]

theorem unlink_nstreams (w : World) (sid : Nat) : (w.unlink sid).s.nstreams = w.s.nstreams := rfl

theorem inv_linkShare {w : World} {sid oid : Nat} {phase : Bool} (h : Inv w.s) (ho : oid < w.s.nstreams)
    (hm : (w.s.streams sid).multi = (w.s.streams oid).multi)
    (hth : (w.s.streams sid).th = (w.s.streams oid).th)
    (hphs : (w.s.streams sid).multi = true → (w.s.streams sid).phases = (w.s.streams oid).phases)
    (hph : phase = true ∨ (w.s.streams sid).multi = true) : Inv (w.linkShare sid oid phase).s := by
  refine inv_share (sid := sid) (oid := oid) h ho rfl ?_ ?_ ?_ rfl rfl rfl rfl
  · intro j hj; simp [World.linkShare, upd, hj]
  · simp [World.linkShare]
  · simp only [World.linkShare, upd_same]
    refine ⟨rfl, rfl, hth, ?_, ?_⟩
    · simp only [Stream.viewPhases]
      cases hmo : (w.s.streams oid).multi
      · simp [hm, hmo]
      · simp [hm, hmo]; exact hphs (hm.trans hmo)
    · simp only [Stream.viewPc]
      cases hmo : (w.s.streams oid).multi
      · have hs : (w.s.streams sid).multi = false := hm.trans hmo
        rw [hs] at hph
        cases hph with
        | inl hp => simp [hp, hs]
        | inr hp => cases hp
      · simp [hm, hmo]

theorem inv_linkPlain {w : World} {sid oid : Nat} {flow phase tp : Bool} (h : Inv w.s) (hs : sid < w.s.nstreams)
    (ho : oid < w.s.nstreams) : Inv (w.linkPlain true sid oid flow phase tp).s := by
  refine inv_fresh (sid := sid) h ?_ ?_ ?_ rfl ?_ ?_ ?_ ?_ ?_
  · intro j hj _; exact hj
  · intro j hj; simp [World.linkPlain, World.freshCache, upd, hj]
  · simp [World.linkPlain, World.freshCache]
  · intro c hc; simp [World.linkPlain, World.freshCache, upd, Nat.ne_of_lt hc]
  · simp [World.linkPlain, World.freshCache]
  · simp only [World.linkPlain, World.freshCache, upd_same, if_true]
    split
    · exact h.bdata oid ho
    · exact h.bdata sid hs
  · exact Nat.le_refl _
  · intro d _; rfl

theorem inv_link {w w' : World} {sid oid : Nat} {flow phase tp : Bool} (h : Inv w.s)
    (hs : sid < w.s.nstreams) (ho : oid < w.s.nstreams) (hl : w.link sid oid flow phase tp = .ok w') :
    Inv w'.s ∧ w'.s.nstreams = w.s.nstreams := by
  simp only [World.link, World.linkWith, World.stream] at hl
  by_cases hmulti : (w.s.streams sid).multi = (w.s.streams oid).multi
  · simp only [hmulti, ne_eq, not_true_eq_false, if_false] at hl
    split at hl
    · cases hl
    · rename_i hpre
      split at hl
      · rename_i hshare
        cases hl
        refine ⟨?_, rfl⟩
        simp only [Bool.and_eq_true, Bool.or_eq_true] at hshare
        obtain ⟨⟨htp, hflow⟩, hph⟩ := hshare
        subst hflow
        simp at hpre
        exact inv_linkShare h ho hmulti (Decidable.of_not_not (of_decide_eq_false hpre.1))
          (fun hm => Decidable.of_not_not (of_decide_eq_false (hpre.2 (hmulti ▸ hm)))) (by rw [hmulti]; exact hph)
      · cases hl
        exact ⟨inv_linkPlain h hs ho, rfl⟩
  · simp [hmulti] at hl

theorem not_dataShared {w : World} {sid : Nat} (h : w.dataShared sid = false) :
    ∀ j, j < w.s.nstreams → j ≠ sid → (w.s.streams j).data ≠ (w.s.streams sid).data := by
  intro j hj hne heq
  simp only [World.dataShared, World.stream, List.any_eq_false, List.mem_range] at h
  have := h j hj
  simp [hne, heq] at this

theorem inv_expandPhases {w w' : World} {sid : Nat} {others : List Char} (h : Inv w.s)
    (hs : sid < w.s.nstreams) (he : World.expandPhases true w sid others = .ok w') :
    Inv w'.s ∧ w'.s.nstreams = w.s.nstreams := by
  simp only [World.expandPhases, World.stream] at he
  split at he
  · cases he; exact ⟨h, rfl⟩
  · split at he
    · cases he
    · rename_i hsh
      cases he
      refine ⟨?_, rfl⟩
      have hun := not_dataShared (by simpa using hsh)
      refine inv_expand (sid := sid) h hs hun rfl ?_ ?_ ?_ rfl rfl ?_ ?_ ?_
      · intro j hj; simp [World.clearCache, upd, hj]
      · simp [World.clearCache]
      · simp [World.clearCache]
      · intro c hc; simp [World.clearCache, upd, hc]
      · simp [World.clearCache]
      · intro d hd; simp [World.clearCache, upd, hd]

/-! ### every operation preserves `Inv` -/

theorem inv_setPhase {w w' : World} {sid : Nat} {c : Char} {R : Mat} (h : Inv w.s)
    (he : w.setPhase sid c R = .ok w') : Inv w'.s ∧ w'.s.nstreams = w.s.nstreams := by
  simp only [World.setPhase] at he
  split at he
  · split at he
    · cases he
    · cases he; exact ⟨inv_rebind h _ _ _ _ _, rfl⟩
  · cases he; exact ⟨h, rfl⟩

theorem inv_setPhases {w w' : World} {sid : Nat} {ps : List Char} {R : Mat} (h : Inv w.s)
    (he : w.setPhases sid ps R = .ok w') : Inv w'.s ∧ w'.s.nstreams = w.s.nstreams := by
  simp only [World.setPhases] at he
  split at he
  · cases he
  · exact inv_setPhase h he
  · split at he
    · split at he
      · cases he; exact ⟨h, rfl⟩
      · split at he
        · cases he
        · split at he
          · cases he
          · cases he; exact ⟨inv_rebind h _ _ _ _ _, rfl⟩
    · split at he
      · cases he
      · split at he
        · cases he
        · cases he; exact ⟨inv_rebind h _ _ _ _ _, rfl⟩

theorem inv_resetThermo {w w' : World} {sid k : Nat} {R : Mat} (h : Inv w.s)
    (he : w.resetThermo sid k R = .ok w') : Inv w'.s ∧ w'.s.nstreams = w.s.nstreams := by
  simp only [World.resetThermo] at he
  split at he
  · cases he; exact ⟨h, rfl⟩
  · split at he
    · cases he
    · split at he
      · cases he
      · cases he; exact ⟨inv_rebind h _ _ _ _ _, rfl⟩

theorem inv_copyLike {w w' : World} {sid oid : Nat} {R : Mat} (h : Inv w.s) (hs : sid < w.s.nstreams)
    (he : w.copyLike sid oid R = .ok w') : Inv w'.s ∧ w'.s.nstreams = w.s.nstreams := by
  simp only [World.copyLike, World.copyLikeWith] at he
  split at he
  · cases he; exact ⟨h, rfl⟩
  · split at he
    · -- single ← single
      split at he
      · cases he
      · cases he; exact ⟨h, rfl⟩
    · -- single ← multi
      split at he
      · cases he
      · split at he
        · cases he
        · cases he; exact ⟨h, rfl⟩
      · split at he
        · cases he
        · cases he
          exact ⟨inv_rebind (sid := sid) h true (w.stream oid).phases none (w.stream sid).th R, rfl⟩
    · -- multi ← single
      split at he
      · cases he
      · rename_i w1 hw1
        have h1 : Inv w1.s ∧ w1.s.nstreams = w.s.nstreams := by
          split at hw1
          · cases hw1; exact ⟨h, rfl⟩
          · exact inv_expandPhases h hs hw1
        split at he
        · cases he
        · cases he; exact h1
    · -- multi ← multi
      split at he
      · cases he
      · rename_i w1 hw1
        have h1 : Inv w1.s ∧ w1.s.nstreams = w.s.nstreams := by
          split at hw1
          · cases hw1; exact ⟨h, rfl⟩
          · exact inv_expandPhases h hs hw1
        split at he
        · cases he
        · cases he; exact h1

theorem sync_s {w w' : World} {sid : Nat} {T P : Rat} {ph : Option Char} {R : Mat}
    (he : w.sync sid T P ph R = .ok w') : w'.s = w.s := by
  simp only [World.sync] at he
  split at he
  · cases he
  · cases he; rfl

theorem inv_mixInto {w w' : World} {sid : Nat} {others : List Char} {P : Rat} {R : Mat} (h : Inv w.s)
    (hs : sid < w.s.nstreams) (he : w.mixInto sid others P R = .ok w') :
    Inv w'.s ∧ w'.s.nstreams = w.s.nstreams := by
  simp only [World.mixInto] at he
  split at he
  · cases he
  · split at he
    · cases he
    · rename_i w1 hw1
      have h1 : Inv w1.s ∧ w1.s.nstreams = w.s.nstreams := by
        split at hw1
        · cases hw1; exact ⟨h, rfl⟩
        · exact inv_expandPhases h hs hw1
      split at he
      · cases he
      · cases he; exact h1

theorem inv_getElem {w w' : World} {sid : Nat} {d : Dim} {ph : Option Char} {i : Nat} {V : Mat}
    {vid : Option Nat} {x : Rat} (h : Inv w.s) (hs : sid < w.s.nstreams)
    (he : w.getElem sid d ph i V = .ok (w', vid, x)) : Inv w'.s ∧ w'.s.nstreams = w.s.nstreams := by
  simp only [World.getElem] at he
  split at he
  · cases he
  · split at he
    · cases he
    · split at he
      · split at he
        · cases he
        · cases he; exact ⟨h, rfl⟩
      · simp only [World.massView] at he
        split at he
        · cases he
        · cases he
          exact ⟨inv_getView h hs (Or.inl rfl), (getView_streams w sid _).2.1⟩
      · simp only [World.volView] at he
        split at he
        · cases he
        · cases he
          exact ⟨inv_getView h hs (Or.inr rfl), (getView_streams w sid _).2.1⟩
      · cases he

theorem inv_putElem {w w' : World} {sid : Nat} {d : Dim} {ph : Option Char} {i : Nat} {x : Rat} {V : Mat}
    {vid : Option Nat} (h : Inv w.s) (hs : sid < w.s.nstreams)
    (he : w.putElem sid d ph i x V = .ok (w', vid)) : Inv w'.s ∧ w'.s.nstreams = w.s.nstreams := by
  simp only [World.putElem] at he
  split at he
  · cases he
  · split at he
    · cases he
    · split at he
      · split at he
        · cases he
        · cases he; exact ⟨h, rfl⟩
      · simp only [World.massView] at he
        split at he
        · cases he
        · cases he
          exact ⟨inv_getView h hs (Or.inl rfl), (getView_streams w sid _).2.1⟩
      · simp only [World.volView] at he
        split at he
        · cases he
        · cases he
          exact ⟨inv_getView h hs (Or.inr rfl), (getView_streams w sid _).2.1⟩
      · cases he

theorem inv_putRow {w w' : World} {sid : Nat} {d : Dim} {ph : Option Char} {xs : List Rat} {V : Mat}
    {vid : Option Nat} (h : Inv w.s) (hs : sid < w.s.nstreams)
    (he : w.putRow sid d ph xs V = .ok (w', vid)) : Inv w'.s ∧ w'.s.nstreams = w.s.nstreams := by
  simp only [World.putRow] at he
  split at he
  · cases he
  · split at he
    · cases he
    · split at he
      · split at he
        · cases he
        · cases he; exact ⟨h, rfl⟩
      · simp only [World.massView] at he
        split at he
        · cases he
        · cases he
          exact ⟨inv_getView h hs (Or.inl rfl), (getView_streams w sid _).2.1⟩
      · simp only [World.volView] at he
        split at he
        · cases he
        · cases he
          exact ⟨inv_getView h hs (Or.inr rfl), (getView_streams w sid _).2.1⟩
      · cases he

theorem inv_setF {w w' : World} {sid : Nat} {d : Dim} {x : Rat} {V : Mat}
    (he : w.setF sid d x V = .ok w') : w'.s = w.s := by
  simp only [World.setF] at he
  split at he
  · split at he
    · cases he; rfl
    · split at he
      · cases he
      · cases he; rfl
  · cases he
  · split at he
    · cases he
    · cases he; rfl

theorem exec_inv {w w' : World} {op : Op} {out : Out} (h : Inv w.s) (he : w.exec op = .ok (w', out)) :
    Inv w'.s := by
  unfold World.exec at he
  split at he
  · cases he
  · rename_i hg
    have hsid : ∀ s ∈ op.sids, s < w.s.nstreams := by
      intro s hs
      simp only [List.any_eq_true, not_exists, not_and, decide_eq_true_eq, Nat.not_le] at hg
      exact hg s hs
    cases op with
    | new1 th ph T P flows =>
      simp only at he
      split at he
      · cases he
      · cases he; exact inv_newStream h _ _ _ _ _ _ _
    | newm th phases T P rows =>
      simp only at he
      split at he
      · cases he
      · split at he
        · cases he
        · split at he
          · cases he
          · cases he; exact inv_newStream h _ _ _ _ _ _ _
    | setT s x => cases he; exact h
    | setP s x => cases he; exact h
    | setPhase s c R =>
      simp only [Except.bind, okShape] at he
      split at he
      · cases he
      · rename_i w1 hw1; cases he; exact (inv_setPhase h hw1).1
    | setPhases s ps R =>
      simp only [Except.bind, okShape] at he
      split at he
      · cases he
      · rename_i w1 hw1; cases he; exact (inv_setPhases h hw1).1
    | link s o f p t =>
      simp only [Except.map] at he
      split at he
      · cases he
      · rename_i w1 hw1; cases he
        exact (inv_link h (hsid s (by simp [Op.sids])) (hsid o (by simp [Op.sids])) hw1).1
    | unlink s => cases he; exact inv_unlink h
    | copyLike s o R =>
      simp only [Except.bind, okShape] at he
      split at he
      · cases he
      · rename_i w1 hw1; cases he; exact (inv_copyLike h (hsid s (by simp [Op.sids])) hw1).1
    | thermo s k R =>
      simp only [Except.bind, okShape] at he
      split at he
      · cases he
      · rename_i w1 hw1; cases he; exact (inv_resetThermo h hw1).1
    | sync s T P ph R =>
      simp only [Except.bind, okShape] at he
      split at he
      · cases he
      · rename_i w1 hw1; cases he; rw [sync_s hw1]; exact h
    | mixInto s others P R =>
      simp only [Except.bind, okShape] at he
      split at he
      · cases he
      · rename_i w1 hw1; cases he; exact (inv_mixInto h (hsid s (by simp [Op.sids])) hw1).1
    | readMol s => cases he; exact h
    | readMass s =>
      cases he
      exact inv_getView h (hsid s (by simp [Op.sids])) (Or.inl rfl)
    | readVol s V =>
      cases he
      exact inv_getView h (hsid s (by simp [Op.sids])) (Or.inr rfl)
    | readF s d V =>
      simp only at he
      split at he
      · cases he
      · cases he; exact h
    | writeF s d x V =>
      simp only [Except.map] at he
      split at he
      · cases he
      · rename_i w1 hw1; cases he; rw [inv_setF hw1]; exact h
    | get s d ph i V =>
      simp only [Except.map] at he
      split at he
      · cases he
      · rename_i r hr
        obtain ⟨w1, vid, x⟩ := r
        cases he
        exact (inv_getElem h (hsid s (by simp [Op.sids])) hr).1
    | put s d ph i x V =>
      simp only [Except.map] at he
      split at he
      · cases he
      · rename_i r hr
        obtain ⟨w1, vid⟩ := r
        cases he
        exact (inv_putElem h (hsid s (by simp [Op.sids])) hr).1
    | putRow s d ph xs V =>
      simp only [Except.map] at he
      split at he
      · cases he
      · rename_i r hr
        obtain ⟨w1, vid⟩ := r
        cases he
        exact (inv_putRow h (hsid s (by simp [Op.sids])) hr).1
    | getFlow s u ph i V =>
      simp only [Except.map, World.getFlow] at he
      split at he
      · cases he
      · rename_i r hr
        obtain ⟨w1, vid, x⟩ := r
        cases he
        split at hr
        · cases hr
        · split at hr
          · cases hr
          · rename_i w2 vid2 x2 hg2
            cases hr
            exact (inv_getElem h (hsid s (by simp [Op.sids])) hg2).1
    | setFlow s u ph i x V =>
      simp only [Except.map, World.setFlow] at he
      split at he
      · cases he
      · rename_i r hr
        obtain ⟨w1, vid⟩ := r
        cases he
        split at hr
        · cases hr
        · exact (inv_putElem h (hsid s (by simp [Op.sids])) hr).1
    | getTotal s u V =>
      simp only [Except.map] at he
      split at he
      · cases he
      · cases he; exact h
    | setTotal s u x V =>
      simp only [Except.map, World.setTotal] at he
      split at he
      · cases he
      · rename_i w1 hw1
        cases he
        split at hw1
        · cases hw1
        · rw [inv_setF hw1]; exact h

theorem step_inv {w : World} (op : Op) (h : Inv w.s) : Inv (w.step op).s := by
  unfold World.step
  split
  · rename_i w1 out he; exact exec_inv h he
  · exact h

theorem run_inv {w : World} (ops : List Op) (h : Inv w.s) : Inv (w.run ops).s := by
  induction ops generalizing w with
  | nil => exact h
  | cons op t ih => exact ih (step_inv op h)

end ThermoVerif.FlowViews
