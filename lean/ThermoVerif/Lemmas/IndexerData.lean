import ThermoVerif.Model.Indexer
/-
Read/write lemmas on dense rows for C10 (`set_get`, `set_frame`, `set_group_scalar`).
-/
namespace ThermoVerif.Indexer
open ThermoVerif.Chemicals

theorem getAt_setAt (row : Row) (i j : Nat) (x : Rat) :
    getAt (setAt row i x) j = if j = i ∧ i < row.length then x else getAt row j := by
  unfold getAt setAt
  by_cases hji : j = i
  · subst hji
    by_cases hl : j < row.length
    · simp [hl, List.getD_eq_getElem?_getD]
    · simp [hl, List.getD_eq_getElem?_getD]
  · simp [hji, List.getD_eq_getElem?_getD, Ne.symm hji]

theorem length_setAt (row : Row) (i : Nat) (x : Rat) : (setAt row i x).length = row.length := by
  simp [setAt]

theorem getAt_setAt_ne (row : Row) {i j : Nat} (x : Rat) (h : j ≠ i) :
    getAt (setAt row i x) j = getAt row j := by
  rw [getAt_setAt]; simp [h]

theorem getAt_setAt_eq (row : Row) {i : Nat} (x : Rat) (h : i < row.length) :
    getAt (setAt row i x) i = x := by
  rw [getAt_setAt]; simp [h]

/-! ### `writeZip` -/

theorem length_writeZip : ∀ (is : List Nat) (xs : List Rat) (row : Row),
    (writeZip row is xs).length = row.length
  | [], _, row => by simp [writeZip]
  | _ :: _, [], row => by simp [writeZip]
  | i :: is, x :: xs, row => by
    simp only [writeZip]
    rw [length_writeZip is xs, length_setAt]

theorem writeZip_frame : ∀ (is : List Nat) (xs : List Rat) (row : Row) (j : Nat),
    j ∉ is → getAt (writeZip row is xs) j = getAt row j
  | [], _, row, j, _ => by simp [writeZip]
  | _ :: _, [], row, j, _ => by simp [writeZip]
  | i :: is, x :: xs, row, j, h => by
    simp only [List.mem_cons, not_or] at h
    simp only [writeZip]
    rw [writeZip_frame is xs _ j h.2, getAt_setAt_ne _ _ h.1]

/-- Reading back what `zip(index, data)` wrote: distinct in-range positions, equal lengths. -/
theorem writeZip_read : ∀ (is : List Nat) (xs : List Rat) (row : Row),
    is.Nodup → xs.length = is.length → (∀ i, i ∈ is → i < row.length) →
    is.map (getAt (writeZip row is xs)) = xs
  | [], [], row, _, _, _ => by simp
  | [], _ :: _, row, _, h, _ => by simp at h
  | _ :: _, [], row, _, h, _ => by simp at h
  | i :: is, x :: xs, row, hn, hl, hb => by
    simp only [List.nodup_cons] at hn
    simp only [List.length_cons, Nat.add_right_cancel_iff] at hl
    simp only [writeZip, List.map_cons]
    have hi : i < row.length := hb i List.mem_cons_self
    rw [writeZip_frame is xs _ i hn.1, getAt_setAt_eq _ _ hi]
    have := writeZip_read is xs (setAt row i x) hn.2 hl
      (by intro k hk; rw [length_setAt]; exact hb k (List.mem_cons_of_mem _ hk))
    rw [this]

/-! ### `writeAll` -/

theorem length_writeAll : ∀ (is : List Nat) (row : Row) (x : Rat), (writeAll row is x).length = row.length
  | [], row, x => by simp [writeAll]
  | i :: is, row, x => by
    simp only [writeAll, List.foldl_cons]
    have := length_writeAll is (setAt row i x) x
    simp only [writeAll] at this
    rw [this, length_setAt]

theorem writeAll_frame : ∀ (is : List Nat) (row : Row) (x : Rat) (j : Nat),
    j ∉ is → getAt (writeAll row is x) j = getAt row j
  | [], row, x, j, _ => by simp [writeAll]
  | i :: is, row, x, j, h => by
    simp only [List.mem_cons, not_or] at h
    simp only [writeAll, List.foldl_cons]
    have := writeAll_frame is (setAt row i x) x j h.2
    simp only [writeAll] at this
    rw [this, getAt_setAt_ne _ _ h.1]

theorem writeAll_read : ∀ (is : List Nat) (row : Row) (x : Rat) (j : Nat),
    j ∈ is → (∀ i, i ∈ is → i < row.length) → getAt (writeAll row is x) j = x
  | [], _, _, _, h, _ => by cases h
  | i :: is, row, x, j, h, hb => by
    simp only [writeAll, List.foldl_cons]
    have hrec := writeAll_read is (setAt row i x) x j
    simp only [writeAll] at hrec
    by_cases hj : j ∈ is
    · exact hrec hj (by intro k hk; rw [length_setAt]; exact hb k (List.mem_cons_of_mem _ hk))
    · have hji : j = i := by
        rcases List.mem_cons.mp h with h | h
        · exact h
        · exact absurd h hj
      subst hji
      have := writeAll_frame is (setAt row j x) x j hj
      simp only [writeAll] at this
      rw [this, getAt_setAt_eq _ _ (hb j List.mem_cons_self)]

/-! ### sums -/

theorem sumRat_map_mul (x : Rat) : ∀ (l : List Rat), sumRat (l.map (x * ·)) = x * sumRat l
  | [] => by simp [sumRat]
  | a :: t => by
    simp only [List.map_cons, sumRat]
    rw [sumRat_map_mul x t, Rat.mul_add]

/-! ### nested keys -/

theorem writeZero_frame : ∀ (es : List Ent) (row : Row) (j : Nat),
    j ∉ es.flatMap Ent.positions → getAt (writeZero row es) j = getAt row j ∧
      (writeZero row es).length = row.length
  | [], row, j, _ => by simp [writeZero]
  | .pos i :: t, row, j, h => by
    simp only [List.flatMap_cons, Ent.positions, List.mem_append, List.mem_singleton, not_or] at h
    simp only [writeZero]
    obtain ⟨a, b⟩ := writeZero_frame t (setAt row i 0) j h.2
    exact ⟨by rw [a, getAt_setAt_ne _ _ h.1], by rw [b, length_setAt]⟩
  | .grp is :: t, row, j, h => by
    simp only [List.flatMap_cons, Ent.positions, List.mem_append, not_or] at h
    simp only [writeZero]
    obtain ⟨a, b⟩ := writeZero_frame t (writeAll row is 0) j h.2
    exact ⟨by rw [a, writeAll_frame _ _ _ _ h.1], by rw [b, length_writeAll]⟩

theorem writeZero_length : ∀ (es : List Ent) (row : Row), (writeZero row es).length = row.length
  | [], row => by simp [writeZero]
  | .pos i :: t, row => by simp only [writeZero]; rw [writeZero_length t, length_setAt]
  | .grp is :: t, row => by simp only [writeZero]; rw [writeZero_length t, length_writeAll]

theorem writeNestedScalar_frame (c : Chem) (k : HKey) (x : Rat) :
    ∀ (es : List Ent) (row : Row) (n : Nat) (row' : Row) (j : Nat),
    writeNestedScalar c k x row n es = .ok row' →
    (j ∉ es.flatMap Ent.positions → getAt row' j = getAt row j) ∧ row'.length = row.length
  | [], row, n, row', j, h => by simp [writeNestedScalar] at h; subst h; simp
  | .pos i :: t, row, n, row', j, h => by
    simp only [writeNestedScalar] at h
    obtain ⟨a, b⟩ := writeNestedScalar_frame c k x t _ _ row' j h
    refine ⟨?_, by rw [b, length_setAt]⟩
    intro hj
    simp only [List.flatMap_cons, Ent.positions, List.mem_append, List.mem_singleton, not_or] at hj
    rw [a hj.2, getAt_setAt_ne _ _ hj.1]
  | .grp is :: t, row, n, row', j, h => by
    simp only [writeNestedScalar, bind, Except.bind] at h
    split at h
    · cases h
    · rename_i comp _
      obtain ⟨a, b⟩ := writeNestedScalar_frame c k x t _ _ row' j h
      refine ⟨?_, by rw [b, length_writeZip]⟩
      intro hj
      simp only [List.flatMap_cons, Ent.positions, List.mem_append, not_or] at hj
      rw [a hj.2, writeZip_frame _ _ _ _ hj.1]

theorem writeNestedVec_frame (c : Chem) (k : HKey) (xs : List Rat) :
    ∀ (es : List Ent) (row : Row) (n : Nat) (row' : Row) (j : Nat),
    writeNestedVec c k xs row n es = .ok row' →
    (j ∉ es.flatMap Ent.positions → getAt row' j = getAt row j) ∧ row'.length = row.length
  | [], row, n, row', j, h => by simp [writeNestedVec] at h; subst h; simp
  | .pos i :: t, row, n, row', j, h => by
    simp only [writeNestedVec] at h
    split at h
    · cases h
    · obtain ⟨a, b⟩ := writeNestedVec_frame c k xs t _ _ row' j h
      refine ⟨?_, by rw [b, length_setAt]⟩
      intro hj
      simp only [List.flatMap_cons, Ent.positions, List.mem_append, List.mem_singleton, not_or] at hj
      rw [a hj.2, getAt_setAt_ne _ _ hj.1]
  | .grp is :: t, row, n, row', j, h => by
    simp only [writeNestedVec] at h
    split at h
    · cases h
    · simp only [bind, Except.bind] at h
      split at h
      · cases h
      · obtain ⟨a, b⟩ := writeNestedVec_frame c k xs t _ _ row' j h
        refine ⟨?_, by rw [b, length_writeZip]⟩
        intro hj
        simp only [List.flatMap_cons, Ent.positions, List.mem_append, not_or] at hj
        rw [a hj.2, writeZip_frame _ _ _ _ hj.1]

theorem nestedPrefix_frame (c : Chem) (k : HKey) (xs : List Rat) :
    ∀ (es : List Ent) (row : Row) (n : Nat) (j : Nat),
    (j ∉ es.flatMap Ent.positions → getAt (nestedPrefix c k xs row n es) j = getAt row j) ∧
      (nestedPrefix c k xs row n es).length = row.length
  | [], row, n, j => by simp [nestedPrefix]
  | .pos i :: t, row, n, j => by
    simp only [nestedPrefix]
    split
    · simp
    · obtain ⟨a, b⟩ := nestedPrefix_frame c k xs t (setAt row i _) (n + 1) j
      refine ⟨?_, by rw [b, length_setAt]⟩
      intro hj
      simp only [List.flatMap_cons, Ent.positions, List.mem_append, List.mem_singleton, not_or] at hj
      rw [a hj.2, getAt_setAt_ne _ _ hj.1]
  | .grp is :: t, row, n, j => by
    simp only [nestedPrefix]
    split
    · simp
    · split
      · simp
      · obtain ⟨a, b⟩ := nestedPrefix_frame c k xs t (writeZip row is _) (n + 1) j
        refine ⟨?_, by rw [b, length_writeZip]⟩
        intro hj
        simp only [List.flatMap_cons, Ent.positions, List.mem_append, not_or] at hj
        rw [a hj.2, writeZip_frame _ _ _ _ hj.1]

theorem nestedScalarPrefix_frame (c : Chem) (k : HKey) (x : Rat) :
    ∀ (es : List Ent) (row : Row) (n : Nat) (j : Nat),
    (j ∉ es.flatMap Ent.positions → getAt (nestedScalarPrefix c k x row n es) j = getAt row j) ∧
      (nestedScalarPrefix c k x row n es).length = row.length
  | [], row, n, j => by simp [nestedScalarPrefix]
  | .pos i :: t, row, n, j => by
    simp only [nestedScalarPrefix]
    obtain ⟨a, b⟩ := nestedScalarPrefix_frame c k x t (setAt row i x) (n + 1) j
    refine ⟨?_, by rw [b, length_setAt]⟩
    intro hj
    simp only [List.flatMap_cons, Ent.positions, List.mem_append, List.mem_singleton, not_or] at hj
    rw [a hj.2, getAt_setAt_ne _ _ hj.1]
  | .grp is :: t, row, n, j => by
    simp only [nestedScalarPrefix]
    split
    · simp
    · obtain ⟨a, b⟩ := nestedScalarPrefix_frame c k x t (writeZip row is _) (n + 1) j
      refine ⟨?_, by rw [b, length_writeZip]⟩
      intro hj
      simp only [List.flatMap_cons, Ent.positions, List.mem_append, not_or] at hj
      rw [a hj.2, writeZip_frame _ _ _ _ hj.1]

theorem splitNestedScalar_frame (x : Rat) : ∀ (es : List Ent) (row : Row) (j : Nat),
    (j ∉ es.flatMap Ent.positions → getAt (splitNestedScalar row x es) j = getAt row j) ∧
      (splitNestedScalar row x es).length = row.length
  | [], row, j => by simp [splitNestedScalar]
  | .pos i :: t, row, j => by
    simp only [splitNestedScalar]
    obtain ⟨a, b⟩ := splitNestedScalar_frame x t (setAt row i x) j
    refine ⟨?_, by rw [b, length_setAt]⟩
    intro hj
    simp only [List.flatMap_cons, Ent.positions, List.mem_append, List.mem_singleton, not_or] at hj
    rw [a hj.2, getAt_setAt_ne _ _ hj.1]
  | .grp is :: t, row, j => by
    simp only [splitNestedScalar]
    obtain ⟨a, b⟩ := splitNestedScalar_frame x t (writeAll row is x) j
    refine ⟨?_, by rw [b, length_writeAll]⟩
    intro hj
    simp only [List.flatMap_cons, Ent.positions, List.mem_append, not_or] at hj
    rw [a hj.2, writeAll_frame _ _ _ _ hj.1]

theorem splitNestedVec_frame (xs : List Rat) : ∀ (es : List Ent) (row : Row) (n : Nat) (j : Nat),
    (j ∉ es.flatMap Ent.positions → getAt (splitNestedVec xs row n es).1 j = getAt row j) ∧
      (splitNestedVec xs row n es).1.length = row.length
  | [], row, n, j => by simp [splitNestedVec]
  | .pos i :: t, row, n, j => by
    simp only [splitNestedVec]
    split
    · simp
    · obtain ⟨a, b⟩ := splitNestedVec_frame xs t (setAt row i _) (n + 1) j
      refine ⟨?_, by rw [b, length_setAt]⟩
      intro hj
      simp only [List.flatMap_cons, Ent.positions, List.mem_append, List.mem_singleton, not_or] at hj
      rw [a hj.2, getAt_setAt_ne _ _ hj.1]
  | .grp is :: t, row, n, j => by
    simp only [splitNestedVec]
    split
    · simp
    · obtain ⟨a, b⟩ := splitNestedVec_frame xs t (writeAll row is _) (n + 1) j
      refine ⟨?_, by rw [b, length_writeAll]⟩
      intro hj
      simp only [List.flatMap_cons, Ent.positions, List.mem_append, not_or] at hj
      rw [a hj.2, writeAll_frame _ _ _ _ hj.1]

end ThermoVerif.Indexer
