import ThermoVerif.Lemmas.Phases
/-
C12 — Changing how a stream represents phases never changes what it contains.

Statement (properties.jsonl): converting a stream between single-phase and multi-phase form, adding or
removing phases, collapsing to the phases actually present, or merely asking for an equilibrium solver
object keeps the total flow of every chemical, the temperature and the pressure unchanged, and keeps each
phase's material in that phase (upper- and lower-case liquid/solid labels being interchangeable only when
the exact label is absent).  The per-phase sub-streams of a multi-phase stream are live views: writes
through either side are visible on the other and they share temperature and pressure.  Saving a stream's
data and restoring it later reproduces flows, phases, temperature and pressure exactly.

The model is `ThermoVerif.Phases` (Model/Phases.lean): a store-based model (row objects, thermal-condition
objects, indexer objects, `_streams` dicts, view objects and the streams of a small universe have ids) of the
conversions and of the operations that re-seat or grow the flow data under a stream's views (`unlink`,
`link_with`, `copy_like`, `mix_from`, `_reset_thermo`, `proxy`).

Vocabulary (Lemmas/Phases.lean), all relative to a stream index `k`:
* `World.total w k i`  – total flow of chemical `i`;  `World.rowAt w k q i` – flow of chemical `i` in phase `q`;
* `dest t p`           – where the material of phase `p` belongs in the phase set `t`: `p` itself if `t` has
                         it, otherwise the other-case label if `t` has that, otherwise nowhere;
* `Covers w k t`       – `t` contains every NON-EMPTY phase of stream `k` up to case (the precondition of the property);
* `RowsKept w w' k`    – every phase `q` of the stream afterwards holds exactly the sum of the phases `p` before
                         with `dest _ p = q`;
* `LiveAt w k`         – every view in the `_streams` dict of stream `k` is bound to the stream's current row for
                         its key and to the stream's thermal-condition object;
* `Inv w`              – allocation discipline, different streams have different `_streams` dicts and views, streams
                         sharing an indexer (proxies) are of the same class, and `LiveAt` for every MultiStream;
* `WF w`               – shape discipline (distinct row objects per indexer, one row for a `Stream`, a sorted
                         duplicate-free tuple of ≥ 2 phases for a `MultiStream`, snapshots of that shape);
* `World.obs w k`      – class, phase tuple, the flows of every phase, T, P of stream `k`.
-/
namespace ThermoVerif.Props.C12
open ThermoVerif.Phases

/-! ### conversions keep totals, T, P -/

/-- `convert_totals`: every conversion (`phases=`, `phase=`, `reduce_phases`, `as_stream`, `vle`/`lle`/`sle`
accessor) of stream `k` that does not raise keeps the total flow of every chemical, T and P — whatever the
target set (so in particular for every target that contains every non-empty phase up to case). -/
theorem convert_totals (w w' : World) (op : Op) (k : Nat) (hop : op.isConversion = true)
    (ht : op.target = some k) (h : w.step op = .ok w') :
    (∀ i, i < w.n → w'.total k i = w.total k i) ∧ w'.temp k = w.temp k ∧ w'.pres k = w.pres k := by
  have := conversion_same hop ht h
  exact ⟨this.1, this.2.1, this.2.2.1⟩

/-- totals, T and P of stream `k` survive any history of conversions of it, of any length, raising ones included -/
theorem convert_totals_history (k : Nat) (ops : List Op)
    (hops : ∀ op ∈ ops, op.isConversion = true ∧ op.target = some k) (w : World) :
    (∀ i, i < w.n → (w.run ops).total k i = w.total k i) ∧ (w.run ops).temp k = w.temp k ∧
      (w.run ops).pres k = w.pres k := by
  have : Same w (w.run ops) k := by
    induction ops generalizing w with
    | nil => exact Same.refl w k
    | cons op ops ih =>
      have h1 : Same w (w.apply op) k := by
        unfold World.apply
        split
        · rename_i w' h
          exact conversion_same (hops op (List.mem_cons_self ..)).1 (hops op (List.mem_cons_self ..)).2 h
        · exact Same.refl w k
      exact h1.trans (ih (fun o ho => hops o (List.mem_cons_of_mem _ ho)) (w.apply op))
  exact ⟨this.1, this.2.1, this.2.2.1⟩

/-! ### each phase's material stays in that phase -/

/-- `convert_rows`: if the phase set after a conversion contains every non-empty phase up to case, then
every phase afterwards holds exactly the material of the phases whose destination it is, the destination
of `p` being `p` itself when that label is present and the other-case label ONLY when it is not. -/
theorem convert_rows (w w' : World) (op : Op) (k : Nat) (hop : op.isConversion = true)
    (ht : op.target = some k) (h : w.step op = .ok w') (hcov : Covers w k (w'.phases k)) :
    ∀ q ∈ w'.phases k, ∀ i, i < w.n →
      w'.rowAt k q i
        = ((w.pr k).map (fun x => if dest (w'.phases k) x.1 = some q then w.row x.2 i else 0)).sum := by
  have hb := (step_ok h).2
  have : RowsKept w w' k := by
    cases op with
    | setPhases k' ps => cases ht; exact setPhases_rowsKept hb hcov
    | setPhase k' ls => cases ht; exact setPhase_rowsKept hb hcov
    | reduce k' => cases ht; exact reduce_rowsKept hb hcov
    | asStream k' => cases ht; exact asStream_rowsKept hb hcov
    | vle k' => cases ht; exact vle_rowsKept hb hcov
    | lle k' => cases ht; exact lle_rowsKept hb hcov
    | sle k' => cases ht; exact sle_rowsKept hb hcov
    | _ => simp [Op.isConversion] at hop
  exact this

/-- `reduce_phases` ("collapsing to the phases actually present") never drops a non-empty phase: the phase
set it chooses contains every non-empty phase up to case, so `convert_rows` applies to it unconditionally. -/
theorem reduce_keeps_every_phase (w w' : World) (k : Nat) (h : w.step (.reduce k) = .ok w') :
    Covers w k (w'.phases k) ∧ RowsKept w w' k :=
  ⟨reduce_covers (step_ok h).2, reduce_rowsKept (step_ok h).2 (reduce_covers (step_ok h).2)⟩

/-- the same for `as_stream` whenever it does not refuse (it refuses when two phase groups hold material) -/
theorem asStream_keeps_every_phase (w w' : World) (k : Nat) (h : w.step (.asStream k) = .ok w') :
    Covers w k (w'.phases k) ∧ RowsKept w w' k :=
  ⟨asStream_covers (step_ok h).2, asStream_rowsKept (step_ok h).2 (asStream_covers (step_ok h).2)⟩

/-- case folding happens only when the exact label is absent -/
theorem dest_fold_only_if_absent (t : List Ph) (p q : Ph) (h : dest t p = some q) (hne : q ≠ p) :
    p ∉ t ∧ p.flip = some q := by
  unfold dest at h
  split at h
  · cases h; exact absurd rfl hne
  · rename_i hc
    refine ⟨by simpa using hc, ?_⟩
    split at h
    · split at h
      · cases h; assumption
      · cases h
    · cases h

/-- `phases = ps` (two or more distinct target phases, not the current tuple) succeeds exactly when the
target contains every non-empty phase up to case; to a single phase it always succeeds. -/
theorem setPhases_ok_iff (w : World) (k : Nat) (ps : List Ph) (hlen : 2 ≤ (phaseTuple ps).length)
    (hnew : ¬ ((w.str k).multi = true ∧ phaseTuple ps = w.phases k)) :
    (∃ w', w.setPhases k ps = .ok w') ↔ Covers w k (phaseTuple ps) := by
  constructor
  · rintro ⟨w', h⟩
    rcases setPhases_cases h with ⟨q, hq, _, _⟩ | ⟨q, hq, _, _⟩ | ⟨_, hm, he, _⟩ | ⟨_, _, h⟩
    · rw [hq] at hlen; simp at hlen
    · rw [hq] at hlen; simp at hlen
    · exact absurd ⟨hm, he⟩ hnew
    · exact toMulti_covers h
  · intro hc
    have hall : ((w.sources k).all fun s => !s.2.2 || (dest (phaseTuple ps) s.1).isSome) = true := by
      rw [List.all_eq_true]
      intro s hs
      simp only [World.sources, List.mem_map] at hs
      obtain ⟨x, hx, rfl⟩ := hs
      cases he : w.isEmptyRow x.2 with
      | true => simp
      | false => simp [hc x hx he]
    have hm : ∃ w', w.toMulti k (phaseTuple ps) = .ok w' := by
      unfold World.toMulti
      simp only [hall, if_true]
      split <;> exact ⟨_, rfl⟩
    obtain ⟨w', hw'⟩ := hm
    refine ⟨w', ?_⟩
    unfold World.setPhases
    match hp : phaseTuple ps, hlen with
    | a :: b :: rest, _ =>
      have : ((w.str k).multi && (a :: b :: rest) == w.phases k) = false := by
        rcases Bool.eq_false_or_eq_true (w.str k).multi with hm | hm
        · have : ¬ (a :: b :: rest) = w.phases k := fun e => hnew ⟨hm, hp ▸ e⟩
          simp [hm, this]
        · simp [hm]
      simp only [this]
      rw [← hp]; exact hw'

/-! ### phase views are live -/

/-- `views_live`: after any history of operations over any number of chemicals (any length, raising operations
included) that stays INSIDE THE MODEL (`InModel`: no operation is one the model refuses, see `World.accepts`) —
conversions, view creation, writes, conversions attempted on a view, save/restore, `unlink`, `link_with`,
`copy_like`, `mix_from` with phase growth, `_reset_thermo`, `proxy`, new streams — every cached phase view of
every MultiStream of the universe refers to that stream's current row for its phase and to its thermal condition.
(The hypothesis states the scope: `run` treats a refused operation as a no-op, which says nothing about the code
there; `Lemmas.aliasKey_growth_detaches_view` shows one refused region really breaks liveness.) -/
theorem views_live (n : Nat) (ops : List Op) (_hin : (World.init n).InModel ops) (k : Nat)
    (hk : k < ((World.init n).run ops).nStr) (hm : (((World.init n).run ops).str k).multi = true) :
    LiveAt ((World.init n).run ops) k :=
  (run_inv (inv_init n) ops).live k hk hm

/-- a proxy shows what its original shows (it is the same indexer and thermal condition) -/
theorem proxy_shows_original (w w' : World) (k : Nat) (h : w.step (.proxy k) = .ok w') :
    w'.obs w.nStr = w.obs k ∧ w'.nStr = w.nStr + 1 :=
  proxy_obs (step_ok h).2

/-- a write through a cached view is what the stream reads at that phase -/
theorem write_through_view_visible (w : World) (k : Nat) (hl : LiveAt w k) (hv : ∀ e ∈ w.cacheOf k, e.2 < w.nView)
    (c : Ph × Nat) (hc : c ∈ w.cacheOf k) (i : Nat) (x : Rat) :
    ∃ w', w.step (.wView c.2 i x) = .ok w' ∧ ∃ r, lookupRow (w'.pr k) c.1 = some r ∧ w'.row r i = x := by
  obtain ⟨_, _, h4⟩ := hl c hc
  refine ⟨w.writeRow (w.view c.2).row i x, ?_, (w.view c.2).row, h4, ?_⟩
  · simp [World.step, Op.inBounds, Op.target, Op.reads, World.body, World.writeView, hv c hc]
  · simp [World.writeRow]

/-- a write through the stream at a phase is what the cached view of that phase reads -/
theorem write_through_parent_visible (w : World) (k : Nat) (hk : k < w.nStr) (hm : (w.str k).multi = true)
    (hl : LiveAt w k) (c : Ph × Nat) (hc : c ∈ w.cacheOf k) (i : Nat) (x : Rat) :
    ∃ w', w.step (.wPar k (some c.1) i x) = .ok w' ∧ w'.row (w'.view c.2).row i = x := by
  obtain ⟨_, _, h4⟩ := hl c hc
  refine ⟨w.writeRow (w.view c.2).row i x, ?_, ?_⟩
  · simp [World.step, Op.inBounds, Op.target, Op.reads, World.body, World.writePar, hm, h4, hk]
  · simp [World.writeRow]

/-- T and P are shared: setting them through a cached view or through the stream is the same write -/
theorem view_shares_TP (w : World) (k : Nat) (hk : k < w.nStr) (hl : LiveAt w k)
    (hv : ∀ e ∈ w.cacheOf k, e.2 < w.nView) (c : Ph × Nat) (hc : c ∈ w.cacheOf k) (x : Rat) :
    w.step (.wvT c.2 x) = w.step (.wT k x) ∧ w.step (.wvP c.2 x) = w.step (.wP k x) := by
  obtain ⟨_, h3, _⟩ := hl c hc
  simp [World.step, Op.inBounds, Op.target, Op.reads, World.body, hv c hc, h3, hk]

/-! ### save / restore -/

/-- `save_restore`: `s.set_data(s.get_data())` — also after ARBITRARY intervening operations (any number,
of any kind, on any stream, raising ones included) — never raises and reproduces class, phases, the flows of
every phase, T and P exactly. -/
theorem save_restore (w : World) (hw : WF w) (k : Nat) (hk : k < w.nStr) (ops : List Op) :
    ∃ w', ((w.save k).run ops).restore k w.snaps.length = .ok w' ∧ w'.obs k = w.obs k := by
  have hws : WF (w.save k) := by
    have : (w.save k) = w.apply (.save k) := by
      simp [World.apply, World.step, Op.inBounds, Op.target, Op.reads, World.body, hk]
    rw [this]; exact apply_wf hw _
  have hwf : WF ((w.save k).run ops) := run_wf hws ops
  obtain ⟨hle, l, hl⟩ := run_mono (w.save k) ops
  have hk' : k < ((w.save k).run ops).nStr := Nat.lt_of_lt_of_le hk hle
  have hidx : ((w.save k).run ops).snaps[w.snaps.length]? = some (w.snapshot k) := by
    rw [hl]; simp [World.save]
  obtain ⟨w', h1, h2⟩ := restore_spec hwf hk' hidx
  refine ⟨w', h1, ?_⟩
  rw [h2]
  have hmulti : decide (2 ≤ (w.phases k).length) = (w.str k).multi := by
    rw [phases_length]; exact (hw.kind k hk).symm
  simp only [World.obs]
  rw [Obs.mk.injEq]
  exact ⟨hmulti, rfl, rfl, rfl, rfl⟩

/-- the same for every state reachable from the empty universe: any history, a save, any history, the restore -/
theorem save_restore_reachable (n : Nat) (before between : List Op) (k : Nat)
    (hk : k < ((World.init n).run before).nStr) :
    let w := (World.init n).run before
    ∃ w', ((w.save k).run between).restore k w.snaps.length = .ok w' ∧ w'.obs k = w.obs k :=
  save_restore _ (run_wf (wf_init n) before) k hk between

/-! ### the re-seating operations keep what the stream shows -/

/-- `unlink` gives the stream its own objects and changes nothing it shows -/
theorem unlink_keeps (w w' : World) (k : Nat) (h : w.step (.unlink k) = .ok w') : w'.obs k = w.obs k :=
  unlink_obs (step_ok h).2

/-- `_reset_thermo` to an equal-order package changes nothing the stream shows -/
theorem reset_thermo_keeps (w w' : World) (k t : Nat) (h : w.step (.resetThermo k t) = .ok w') :
    w'.obs k = w.obs k :=
  resetThermo_obs (step_ok h).2

/-! ### non-vacuity -/

/-- a two-phase liquid stream with a view of each phase, a second stream, and a history through every
re-seating operation -/
def demoOps : List Op :=
  [ .newM [.L, .l] 300 101325 [(.L, fun i => if i = 0 then 1 else 0), (.l, fun i => if i = 1 then 2 else 0)],
    .view 0 .l, .view 0 .L,
    .newM [.L, .g, .l] 350 90000 [(.g, fun i => if i = 2 then 5 else 0)],
    .copyLike 0 1, .mixFrom 0 [0, 1], .link 1 0 true true, .unlink 1, .resetThermo 0 1, .proxy 0,
    .setPhases 0 [.L, .g, .l, .s], .view 2 .g ]

/-- `views_live` speaks about non-empty caches after a history with phase growth, link, unlink, reset_thermo
and a proxy: stream 0 is a MultiStream over four phases with two cached views, its proxy (stream 2) has one -/
example : ((World.init 3).run demoOps).nStr = 3 ∧ (((World.init 3).run demoOps).cacheOf 2).length = 1 ∧ (((World.init 3).run demoOps).str 0).multi = true ∧
    (((World.init 3).run demoOps).cacheOf 0).length = 2 ∧ ((World.init 3).run demoOps).phases 0 = [.L, .g, .l, .s] := by
  decide +kernel

/-- `convert_rows` / `convert_totals` apply to a real conversion with case folding -/
example : ∃ w', ((World.init 3).run (demoOps.take 3)).step (.setPhases 0 [.g, .l]) = .ok w' ∧
    Covers ((World.init 3).run (demoOps.take 3)) 0 (w'.phases 0) ∧ w'.phases 0 = [.g, .l] := by
  have hc : Covers ((World.init 3).run (demoOps.take 3)) 0 (phaseTuple [.g, .l]) := by
    intro x hx _
    have : x.1 = .L ∨ x.1 = .l := by
      have : x.1 ∈ ((World.init 3).run (demoOps.take 3)).phases 0 := List.mem_map.2 ⟨x, hx, rfl⟩
      have hp : ((World.init 3).run (demoOps.take 3)).phases 0 = [.L, .l] := by decide
      rw [hp] at this
      simpa using this
    rcases this with h | h <;> rw [h] <;> decide
  have hnew : ¬ ((((World.init 3).run (demoOps.take 3)).str 0).multi = true ∧
      phaseTuple [.g, .l] = ((World.init 3).run (demoOps.take 3)).phases 0) := by decide
  obtain ⟨w', hw'⟩ := (setPhases_ok_iff _ 0 [.g, .l] (by decide) hnew).2 hc
  have hph : w'.phases 0 = [.g, .l] := by
    rcases setPhases_cases hw' with ⟨q, hq, _, _⟩ | ⟨q, hq, _, _⟩ | ⟨_, hm, he, _⟩ | ⟨_, _, h⟩
    · have := congrArg List.length hq; simp [phaseTuple, Ph.all] at this
    · have := congrArg List.length hq; simp [phaseTuple, Ph.all] at this
    · exact absurd ⟨hm, he⟩ hnew
    · exact toMulti_phases h
  refine ⟨w', ?_, hph ▸ hc, hph⟩
  have hb : (Op.setPhases 0 [.g, .l]).inBounds ((World.init 3).run (demoOps.take 3)).nStr = true := by decide
  simp only [World.step, hb, if_true, World.body]
  exact hw'

/-- the hypotheses of `save_restore` hold after any history -/
example : WF ((World.init 4).run (demoOps ++ [.save 0, .vle 0, .proxy 0])) := wf_history 4 _

/-- the scope hypothesis of `views_live` is met by the demo history (and a conversion attempted on a view is inside the model) -/
example : (World.init 3).InModel (demoOps ++ [.hAccessor 0, .hPhases 1 [.L]]) := by
  unfold World.InModel; decide +kernel

end ThermoVerif.Props.C12
