import ThermoVerif.Lemmas.Phases
/-
C12 — Changing how a stream represents phases never changes what it contains.

Statement (properties.jsonl): converting a stream between single-phase and multi-phase form, adding or
removing phases, collapsing to the phases actually present, or merely asking for an equilibrium solver
object keeps the total flow of every chemical, the temperature and the pressure unchanged, and keeps each
phase's material in that phase (upper- and lower-case liquid/solid labels being interchangeable only when
the exact label is absent).  The per-phase sub-streams of a multi-phase stream are live views: writes
through either side are visible on the other and they share temperature and pressure.  Saving a stream's
data and restoring it later reproduces flows, phases, temperature and pressure exactly.

The model is `ThermoVerif.Phases` (Model/Phases.lean), a store-based model (row objects, thermal-condition
objects and view objects have ids) of the code WITH the patches `fixes_proposed/C12-1 … C12-4`.
`legacy_phases_setter_detaches_views` shows on a concrete history that the unpatched
`MultiStream.phases` setter (`World.toMultiLegacy`) breaks the view invariant.

Vocabulary (Lemmas/Phases.lean):
* `World.total w i`   – total flow of chemical `i`;  `World.rowAt w q i` – flow of chemical `i` in phase `q`;
* `dest t p`          – where the material of phase `p` belongs in the phase set `t`: `p` itself if `t` has
                        it, otherwise the other-case label if `t` has that, otherwise nowhere;
* `Covers w t`        – `t` contains every NON-EMPTY phase of `w` up to case (the precondition of the property);
* `RowsKept w w'`     – every phase `q` of `w'` holds exactly the sum of the phases `p` of `w` with `dest _ p = q`;
* `Live w`            – every view in `_streams` is bound to the parent's current row for its key and to the
                        parent's thermal-condition object; a single-phase `Stream` caches no views;
* `WF w`              – allocation/shape discipline (distinct row objects, one row for a `Stream`, a sorted
                        duplicate-free tuple of ≥ 2 phases for a `MultiStream`, snapshots of that shape);
* `World.obs w`       – class, phase tuple, the flows of every phase, T, P.
-/
namespace ThermoVerif.Props.C12
open ThermoVerif.Phases

/-! ### conversions keep totals, T, P -/

/-- `convert_totals`: every conversion (`phases=`, `phase=`, `reduce_phases`, `as_stream`, `vle`/`lle`/`sle`
accessor) that does not raise keeps the total flow of every chemical, T and P — whatever the target set
(so in particular for every target that contains every non-empty phase up to case). -/
theorem convert_totals (w w' : World) (op : Op) (hop : op.isConversion = true)
    (h : w.step op = .ok w') :
    (∀ i, i < w.n → w'.total i = w.total i) ∧ w'.temp = w.temp ∧ w'.pres = w.pres := by
  have : Same w w' := by
    cases op with
    | setPhases ps => exact setPhases_same h
    | setPhase ls => exact setPhase_same h
    | reduce => exact reduce_same h
    | asStream => exact asStream_same h
    | vle => exact accessor_same h
    | lle => exact accessor_same h
    | sle => exact accessor_same h
    | _ => simp [Op.isConversion] at hop
  exact ⟨this.1, this.2.1, this.2.2.1⟩

/-- totals, T and P survive any history made of conversions only, of any length, including raising ones -/
theorem convert_totals_history (ops : List Op) (hops : ∀ op ∈ ops, op.isConversion = true) (w : World) :
    (∀ i, i < w.n → (w.run ops).total i = w.total i) ∧ (w.run ops).temp = w.temp ∧
      (w.run ops).pres = w.pres := by
  have : Same w (w.run ops) := by
    induction ops generalizing w with
    | nil => exact Same.refl w
    | cons op ops ih =>
      have h1 : Same w (w.apply op) := by
        unfold World.apply
        split
        · rename_i w' h
          have := convert_totals w w' op (hops op (List.mem_cons_self ..)) h
          have hn : w'.n = w.n := by
            have hc := hops op (List.mem_cons_self ..)
            cases op with
            | setPhases ps => exact (setPhases_same h).2.2.2
            | setPhase ls => exact (setPhase_same h).2.2.2
            | reduce => exact (reduce_same h).2.2.2
            | asStream => exact (asStream_same h).2.2.2
            | vle => exact (accessor_same h).2.2.2
            | lle => exact (accessor_same h).2.2.2
            | sle => exact (accessor_same h).2.2.2
            | _ => simp [Op.isConversion] at hc
          exact ⟨this.1, this.2.1, this.2.2, hn⟩
        · exact Same.refl w
      exact h1.trans (ih (fun o ho => hops o (List.mem_cons_of_mem _ ho)) (w.apply op))
  exact ⟨this.1, this.2.1, this.2.2.1⟩

/-! ### each phase's material stays in that phase -/

/-- `convert_rows`: if the phase set after a conversion contains every non-empty phase up to case, then
every phase afterwards holds exactly the material of the phases whose destination it is, the destination
of `p` being `p` itself when that label is present and the other-case label ONLY when it is not. -/
theorem convert_rows (w w' : World) (op : Op) (hop : op.isConversion = true)
    (h : w.step op = .ok w') (hcov : Covers w w'.s.phases) :
    ∀ q ∈ w'.s.phases, ∀ i, i < w.n →
      w'.rowAt q i = (w.s.pr.map (fun x => if dest w'.s.phases x.1 = some q then w.row x.2 i else 0)).sum := by
  have : RowsKept w w' := by
    cases op with
    | setPhases ps => exact setPhases_rowsKept h hcov
    | setPhase ls => exact setPhase_rowsKept h hcov
    | reduce => exact reduce_rowsKept h hcov
    | asStream => exact asStream_rowsKept h hcov
    | vle => exact vle_rowsKept h hcov
    | lle => exact lle_rowsKept h hcov
    | sle => exact sle_rowsKept h hcov
    | _ => simp [Op.isConversion] at hop
  exact this

/-- `reduce_phases` ("collapsing to the phases actually present") never drops a non-empty phase: the phase
set it chooses contains every non-empty phase up to case, so `convert_rows` applies to it unconditionally. -/
theorem reduce_keeps_every_phase (w w' : World) (h : w.step .reduce = .ok w') :
    Covers w w'.s.phases ∧ RowsKept w w' :=
  ⟨reduce_covers h, reduce_rowsKept h (reduce_covers h)⟩

/-- the same for `as_stream` whenever it does not refuse (it refuses when two phase groups hold material) -/
theorem asStream_keeps_every_phase (w w' : World) (h : w.step .asStream = .ok w') :
    Covers w w'.s.phases ∧ RowsKept w w' :=
  ⟨asStream_covers h, asStream_rowsKept h (asStream_covers h)⟩

/-- a phase that keeps its exact label keeps exactly its material when no other-case phase folds into it -/
theorem dest_exact (t : List Ph) (p : Ph) (hp : p ∈ t) : dest t p = some p := dest_of_mem hp

/-- case folding happens only when the exact label is absent -/
theorem dest_fold_only_if_absent (t : List Ph) (p q : Ph) (h : dest t p = some q) (hne : q ≠ p) :
    p ∉ t ∧ p.flip = some q := by
  unfold dest at h
  split at h
  · cases h; exact absurd rfl hne
  · rename_i hc
    refine ⟨by simpa using hc, ?_⟩
    split at h
    · split at h
      · cases h; assumption
      · cases h
    · cases h

/-- `phases = ps` (two or more distinct target phases, not the current tuple) succeeds exactly when the
target contains every non-empty phase up to case; to a single phase it always succeeds. -/
theorem setPhases_ok_iff (w : World) (ps : List Ph) (hlen : 2 ≤ (phaseTuple ps).length)
    (hnew : ¬ (w.s.multi = true ∧ phaseTuple ps = w.s.phases)) :
    (∃ w', w.setPhases ps = .ok w') ↔ Covers w (phaseTuple ps) := by
  constructor
  · rintro ⟨w', h⟩
    rcases setPhases_cases h with ⟨q, hq, _, _⟩ | ⟨q, hq, _, _⟩ | ⟨_, hm, he, _⟩ | ⟨_, _, h⟩
    · rw [hq] at hlen; simp at hlen
    · rw [hq] at hlen; simp at hlen
    · exact absurd ⟨hm, he⟩ hnew
    · exact toMulti_covers h
  · intro hc
    have hall : (w.sources.all fun s => !s.2.2 || (dest (phaseTuple ps) s.1).isSome) = true := by
      rw [List.all_eq_true]
      intro s hs
      simp only [World.sources, List.mem_map] at hs
      obtain ⟨x, hx, rfl⟩ := hs
      cases he : w.isEmptyRow x.2 with
      | true => simp
      | false => simp [hc x hx he]
    have hm : ∃ w', w.toMulti (phaseTuple ps) = .ok w' := by
      unfold World.toMulti
      simp only [hall, if_true]
      split <;> exact ⟨_, rfl⟩
    obtain ⟨w', hw'⟩ := hm
    refine ⟨w', ?_⟩
    unfold World.setPhases
    match hp : phaseTuple ps, hlen with
    | a :: b :: rest, _ =>
      have : (w.s.multi && (a :: b :: rest) == w.s.phases) = false := by
        rcases Bool.eq_false_or_eq_true w.s.multi with hm | hm
        · have : ¬ (a :: b :: rest) = w.s.phases := fun e => hnew ⟨hm, hp ▸ e⟩
          simp [hm, this]
        · simp [hm]
      simp only [this]
      rw [← hp]; exact hw'

/-! ### phase views are live -/

/-- `views_live`: after ANY history of operations (any length, raising operations included) every cached
phase view refers to the parent's current row for its phase and to the parent's thermal condition. -/
theorem views_live (ops : List Op) : Live (World.init.run ops) := run_live live_init ops

/-- the same from any state in which the views are live -/
theorem views_live_from (w : World) (hl : Live w) (ops : List Op) : Live (w.run ops) := run_live hl ops

/-- a write through a cached view is what the parent reads at that phase -/
theorem write_through_view_visible (w : World) (hl : Live w) (c : Ph × Nat) (hc : c ∈ w.s.cache)
    (i : Nat) (x : Rat) :
    ∃ w', w.step (.wView c.2 i x) = .ok w' ∧ ∃ r, lookupRow w'.s.pr c.1 = some r ∧ w'.row r i = x := by
  obtain ⟨h1, _, _, h4⟩ := hl.cached c hc
  refine ⟨w.writeRow (w.view c.2).row i x, by simp [World.step, World.writeView, h1], (w.view c.2).row, h4, ?_⟩
  simp [World.writeRow]

/-- a write through the parent at a phase is what the cached view of that phase reads -/
theorem write_through_parent_visible (w : World) (hl : Live w) (c : Ph × Nat) (hc : c ∈ w.s.cache)
    (i : Nat) (x : Rat) :
    ∃ w', w.step (.wPar (some c.1) i x) = .ok w' ∧ w'.row (w'.view c.2).row i = x := by
  obtain ⟨_, _, _, h4⟩ := hl.cached c hc
  have hm : w.s.multi = true := by
    cases hm : w.s.multi with
    | true => rfl
    | false => rw [hl.single hm] at hc; cases hc
  refine ⟨w.writeRow (w.view c.2).row i x, by simp [World.step, World.writePar, hm, h4], ?_⟩
  simp [World.writeRow]

/-- T and P are shared: setting them through a cached view or through the parent is the same write -/
theorem view_shares_TP (w : World) (hl : Live w) (c : Ph × Nat) (hc : c ∈ w.s.cache) (x : Rat) :
    w.step (.wvT c.2 x) = w.step (.wT x) ∧ w.step (.wvP c.2 x) = w.step (.wP x) := by
  obtain ⟨h1, _, h3, _⟩ := hl.cached c hc
  simp [World.step, h1, h3]

/-- `ms = MultiStream(phases=(g,l)); ms['l']` -/
def legacyWorld : World := World.init.run [.newM [.g, .l] 300 101325 [], .view .l]

/-- The unpatched `MultiStream.phases` setter (defect #7): `ms = MultiStream(phases=(g,l)); ms['l'];
ms.phases = (g,l,s)` leaves the cached view of `'l'` bound to the pre-change row. -/
theorem legacy_phases_setter_detaches_views :
    ∃ w w', Live w ∧ w.toMultiLegacy [.g, .l, .s] = .ok w' ∧ ¬ Live w' := by
  have hall : (legacyWorld.sources.all fun s => !s.2.2 || (dest [.g, .l, .s] s.1).isSome) = true := by
    decide
  have hok : ∃ w', legacyWorld.toMultiLegacy [.g, .l, .s] = .ok w' := by
    unfold World.toMultiLegacy
    simp only [hall, if_true]
    exact ⟨_, rfl⟩
  obtain ⟨w', hw'⟩ := hok
  refine ⟨legacyWorld, w', run_live live_init _, hw', ?_⟩
  intro hl
  unfold World.toMultiLegacy at hw'
  simp only [hall, if_true] at hw'
  injection hw' with hw'
  subst hw'
  have := (hl.cached (.l, 0) (by decide)).2.2.2
  revert this
  decide

/-! ### save / restore -/

/-- `save_restore`: `set_data (get_data s)` — also after ARBITRARY intervening operations (any number,
of any kind, raising ones included) — never raises and reproduces class, phases, the flows of every phase,
T and P exactly. -/
theorem save_restore (w : World) (hw : WF w) (ops : List Op) :
    ∃ w', (w.save.run ops).restore w.snaps.length = .ok w' ∧ w'.obs = w.obs := by
  have hwf : WF (w.save.run ops) := run_wf (save_wf hw) ops
  obtain ⟨l, hl⟩ := run_snaps w.save ops
  have hk : (w.save.run ops).snaps[w.snaps.length]? = some w.snapshot := by
    rw [hl]; simp [World.save]
  obtain ⟨w', h1, h2⟩ := restore_spec hwf hk
  refine ⟨w', h1, ?_⟩
  rw [h2]
  have hmulti : decide (2 ≤ w.s.phases.length) = w.s.multi := by
    cases hm : w.s.multi with
    | false =>
      obtain ⟨x, hx⟩ := hw.single hm
      simp [Strm.phases, hx]
    | true =>
      have := (hw.multi hm).2
      simpa [Strm.phases] using this
  simp only [World.obs]
  rw [Obs.mk.injEq]
  exact ⟨hmulti, rfl, rfl, rfl, rfl⟩

/-- the same for every state reachable from the initial one: any history, a save, any history, the restore -/
theorem save_restore_reachable (before between : List Op) :
    let w := World.init.run before
    ∃ w', (w.save.run between).restore w.snaps.length = .ok w' ∧ w'.obs = w.obs :=
  save_restore _ (run_wf wf_init before) between

/-- the invariants hold along every history -/
theorem wf_history (ops : List Op) : WF (World.init.run ops) := run_wf wf_init ops

/-! ### non-vacuity -/

/-- a two-phase liquid stream, a view of each phase, then the phase set is changed -/
def demoOps : List Op :=
  [ .newM [.L, .l] 300 101325 [(.L, fun i => if i = 0 then 1 else 0), (.l, fun i => if i = 1 then 2 else 0)],
    .view .l, .view .L ]

/-- `convert_rows` / `convert_totals` apply to a real conversion with case folding:
(L: water, l: ethanol) → phases (g, l) succeeds, and the target covers both non-empty phases. -/
example : ∃ w', (World.init.run demoOps).step (.setPhases [.g, .l]) = .ok w' ∧
    Covers (World.init.run demoOps) w'.s.phases ∧ w'.s.phases = [.g, .l] ∧ w'.s.cache.length = 2 := by
  have hc : Covers (World.init.run demoOps) (phaseTuple [.g, .l]) := by
    intro x hx _
    have : x.1 = .L ∨ x.1 = .l := by
      have : x.1 ∈ (World.init.run demoOps).s.phases := List.mem_map.2 ⟨x, hx, rfl⟩
      have hp : (World.init.run demoOps).s.phases = [.L, .l] := by decide
      rw [hp] at this
      simpa using this
    rcases this with h | h <;> rw [h] <;> decide
  have hnew : ¬ ((World.init.run demoOps).s.multi = true ∧
      phaseTuple [.g, .l] = (World.init.run demoOps).s.phases) := by decide
  obtain ⟨w', hw'⟩ := (setPhases_ok_iff _ [.g, .l] (by decide) hnew).2 hc
  rcases setPhases_cases hw' with ⟨q, hq, _, _⟩ | ⟨q, hq, _, _⟩ | ⟨_, hm, he, _⟩ | ⟨_, _, h⟩
  · have := congrArg List.length hq; simp [phaseTuple, Ph.all] at this
  · have := congrArg List.length hq; simp [phaseTuple, Ph.all] at this
  · exact absurd ⟨hm, he⟩ hnew
  · have hph := toMulti_phases h
    refine ⟨w', hw', hph ▸ hc, hph, ?_⟩
    unfold World.toMulti at h
    simp only [] at h
    split at h
    · split at h
      · injection h with h
        rw [← h]
        decide
      · rename_i hm; exact absurd (by decide) hm
    · cases h

/-- the hypotheses of `save_restore` hold after any history -/
example : WF (World.init.run (demoOps ++ [.setPhases [.g, .l], .save, .vle])) := wf_history _

/-- `views_live` speaks about a non-empty cache -/
example : (World.init.run demoOps).s.cache.length = 2 := by decide

end ThermoVerif.Props.C12
