import ThermoVerif.Model.EnergyBalance
import ThermoVerif.Lemmas.EnergyBalance
/-
C02 — Stream energy balance: enthalpy is conserved and invertible in temperature.

Part A (any ordered field): the bookkeeping of `Stream.mix_from`, `Stream.separate_out` and the
`H` / `h` / `S` setters as modelled in `ThermoVerif.Model.EnergyBalance`.  The enthalpy function of
the receiver's material, `Hf ph T` (phase state, temperature; composition and pressure fixed by the
operation), and the temperature solver are parameters.  The one hypothesis on the solver is
`SolverSound Hf ε solve`: a temperature it returns has residual `|Hf ph T − target| ≤ ε`
(the driver evaluates this on every recorded call — the hypothesis monitor).  Convergence of the
Aitken / secant iteration inside `flexsolve` is *not* proved: when the solver raises, the model
raises (or takes the documented fallback), and the theorems speak about the runs that return.

Part B (ℝ): `H` is invertible in `T`.  With `dH/dT = Cn > 0` on `[a, b]` the map `T ↦ H(T)` is
strictly increasing (mean-value theorem), so the solution of `H(T) = H*` is unique, and a residual
`ε` moves the temperature by at most `ε / Cn_min`; the same for `S` with `dS/dT = Cn / T`.

The theorems hold for the model with the four proposed repairs applied (fixes_proposed/C02-1..4.md).
-/
set_option linter.unusedSectionVars false

namespace ThermoVerif.Props.C02
open ThermoVerif.EnergyBalance ThermoVerif.Lemmas.EnergyBalance

section Balance
variable {α : Type} [Field α] [LinearOrder α] [IsStrictOrderedRing α]

/-- The solver hypothesis: whatever temperature a solver call returns reproduces the target
within `ε` under the property function `Hf` of the material at hand. -/
def SolverSound (Hf : PhaseState → α → α) (ε : α) (solve : Solver α) : Prop :=
  ∀ (k : Nat) (ph : PhaseState) (x T : α), solve k ph x = some T → |Hf ph T - x| ≤ ε

/-- **recordedSolver_sound.**  The solver the driver runs (the calls recorded from the real run, answered only
when asked for the recorded phase state and, up to `δ`, the recorded target) meets `SolverSound` with
`ε + δ` as soon as every recorded answer is sound against its own recorded target — which is what
the driver's hypothesis monitor evaluates call by call.  So the hypotheses of `set_readback`,
`mix_energy`, `separate_energy`, … are met by a run, not only by a hypothetical solver. -/
theorem recordedSolver_sound {Hf : PhaseState → α → α} {ε δ : α} (near : α → α → Bool)
    (hnear : ∀ t x, near t x = true → |t - x| ≤ δ) (calls : List (RecCall α))
    (hcalls : ∀ c ∈ calls, ∀ T, c.T = some T → |Hf c.ph T - c.target| ≤ ε) :
    SolverSound Hf (ε + δ) (recordedSolver near calls) := by
  intro k ph x T h
  unfold recordedSolver at h
  cases hc : calls[k]? with
  | none => simp [hc] at h
  | some c =>
    simp only [hc] at h
    by_cases hm : (c.ph == ph && near c.target x) = true
    · simp only [hm, ↓reduceIte] at h
      have hm' : c.ph = ph ∧ near c.target x = true := by simpa using hm
      have hmem : c ∈ calls := List.mem_of_getElem? hc
      have h1 := hcalls c hmem T h
      have h2 := hnear _ _ hm'.2
      rw [← hm'.1]
      calc |Hf c.ph T - x| = |(Hf c.ph T - c.target) + (c.target - x)| := by ring_nf
        _ ≤ |Hf c.ph T - c.target| + |c.target - x| := abs_add_le _ _
        _ ≤ ε + δ := add_le_add h1 h2
    · simp [hm] at h

/-- Read-back: when an assignment to a non-empty stream returns, the property function at the
stream's new phase and temperature equals the assigned value up to the solver residual —
also when the phase was flipped by the fallback branch. -/
theorem set_readback {Hf : PhaseState → α → α} {ε : α} {solve : Solver α}
    (hs : SolverSound Hf ε solve) (k : Nat) (st : St α) (x : α) (hne : st.empty = false)
    (hok : (setEnergy solve k st x).out = .ok) :
    |Hf (setEnergy solve k st x).st.ph (setEnergy solve k st x).st.T - x| ≤ ε := by
  unfold setEnergy at hok ⊢
  simp only [hne, Bool.and_false, Bool.false_eq_true, ↓reduceIte] at hok ⊢
  split
  · exact hs _ _ _ _ ‹_›
  · rename_i h1
    simp only [h1] at hok
    split
    · simp_all
    · rename_i p hp
      simp only [hp] at hok
      split
      · simp_all
      · rename_i q hq
        simp only [hq] at hok
        split
        · exact hs _ _ _ _ ‹_›
        · rename_i h2
          simp [h2] at hok

/-- The shortcut `if not x and self.isempty(): return` leaves the stream untouched; it is the only
way an assignment returns without a solver call. -/
theorem set_skip (solve : Solver α) (k : Nat) (st : St α) (x : α) :
    (setEnergy solve k st x).k = k ↔ (x = 0 ∧ st.empty = true) := by
  unfold setEnergy isZero
  constructor
  · intro h
    split at h
    · rename_i hc
      simpa using hc
    · exfalso
      split at h
      · simp at h
      · split at h
        · simp at h
        · split at h
          · simp at h
          · dsimp only at h
            split at h <;> simp at h
  · rintro ⟨rfl, he⟩
    simp [he]

/-- **set_raised_iff.**  The error branch: an assignment raises exactly when it is not the empty-stream
shortcut, the first solve raised and there is no second chance (a `MultiStream`, a phase other than
gas / liquid) or the solve in the flipped phase raised as well.  The setter itself never raises. -/
theorem set_raised_iff (solve : Solver α) (k : Nat) (st : St α) (x : α) :
    (setEnergy solve k st x).out = .raised ↔
      ¬ (x = 0 ∧ st.empty = true) ∧ solve k st.ph x = none ∧
        ((∃ ps, st.ph = .multi ps) ∨
         (∃ p, st.ph = .single p ∧ (p.flip = none ∨ ∃ q, p.flip = some q ∧ solve (k + 1) (.single q) x = none))) := by
  unfold setEnergy isZero
  by_cases hc : (x == 0 && st.empty) = true
  · have hc' : x = 0 ∧ st.empty = true := by simpa using hc
    simp [hc']
  · have hc' : ¬ (x = 0 ∧ st.empty = true) := by simpa using hc
    simp only [hc, Bool.false_eq_true, ↓reduceIte]
    cases h1 : solve k st.ph x with
    | some T => simp
    | none =>
      cases hph : st.ph with
      | multi ps => simp [hc']
      | single p =>
        cases hq : p.flip with
        | none => simp [hc', hq]
        | some q =>
          cases h2 : solve (k + 1) (PhaseState.single q) x with
          | some T => simp [hc', hq, h2]
          | none => simp [hc', hq, h2]

/-- If the solver always returns, no assignment raises (convergence is the only source of errors). -/
theorem set_ok_of_solver_total (solve : Solver α) (htot : ∀ k ph x, solve k ph x ≠ none)
    (k : Nat) (st : St α) (x : α) : (setEnergy solve k st x).out = .ok := by
  cases h : (setEnergy solve k st x).out with
  | ok => rfl
  | raised => exact absurd ((set_raised_iff solve k st x).mp h).2.1 (htot _ _ _)

/-- The setters never touch the pressure. -/
theorem set_keeps_P (solve : Solver α) (k : Nat) (st : St α) (x : α) :
    (setEnergy solve k st x).st.P = st.P := setEnergy_P solve k st x

/-- The fallback only ever exchanges gas and liquid. -/
theorem flip_table : ∀ p q : Phase, p.flip = some q →
    (p = .g ∧ q = .l) ∨ (p = .l ∧ q = .g) ∨ (p = .L ∧ q = .g) := by
  intro p q h
  cases p <;> cases q <;> simp [Phase.flip, Phase.lower] at h ⊢

/-- **mix_energy.**  For every inlet list with at least one non-empty stream, any `Q`, any
`conserve_phases`: when `mix_from` returns, the receiver's enthalpy — the property function at its
final phase state and temperature — equals `Q` plus the heat of all heat / power objects plus the
sum of the enthalpies of the non-empty inlets, up to the setter residual `ε`.
`hcopy` ties the property function to the lone inlet when nothing has to be solved
(N = 1 and no heat): the receiver then holds that inlet's material in that inlet's state. -/
theorem mix_energy {Hf : PhaseState → α → α} {ε : α} {solve : Solver α} (hε : 0 ≤ ε)
    (hs : SolverSound Hf ε solve) (recv : St α) (rp : List Phase) (ins : List (Inlet α)) (Q : α) (cp : Bool)
    (hN : feeds ins ≠ [])
    (hcopy : ∀ f, feeds ins = [f] → Hf (copyLike recv f).ph f.T = f.H)
    (hok : (mixFrom solve recv rp ins Q cp).out = .ok) :
    |Hf (mixFrom solve recv rp ins Q cp).st.ph (mixFrom solve recv rp ins Q cp).st.T
        - (Q + (heats ins).sum + ((feeds ins).map (·.H)).sum)| ≤ ε := by
  unfold mixFrom at hok ⊢
  match hf : feeds ins with
  | [] => exact absurd hf hN
  | [f] =>
    simp only [hf] at hok ⊢
    by_cases hz : isZero (heatSum Q ins) = true
    · simp only [hz, ↓reduceIte] at hok ⊢
      have hq : Q + (heats ins).sum = 0 := by
        rw [← heatSum_eq]; simpa [isZero] using hz
      have : (copyLike recv f).T = f.T := rfl
      rw [this, hcopy f hf, hq]
      simpa using hε
    · simp only [hz, Bool.false_eq_true, ↓reduceIte] at hok ⊢
      have h := set_readback hs 0 (copyLike recv f) (f.H + heatSum Q ins) rfl hok
      have e : Q + (heats ins).sum + (List.map (·.H) [f]).sum = f.H + heatSum Q ins := by
        rw [heatSum_eq]; simp; ring
      rw [e]; exact h
  | f :: g :: fs =>
    simp only [hf] at hok ⊢
    have e : Q + (heats ins).sum + (List.map (·.H) (f :: g :: fs)).sum
        = sumFrom (heatSum Q ins) (List.map (·.H) (f :: g :: fs)) := by
      rw [sumFrom_eq, heatSum_eq]
    rw [e]
    cases cp with
    | true =>
      simp only [↓reduceIte] at hok ⊢
      exact set_readback hs 0 _ _ rfl hok
    | false =>
      simp only [Bool.false_eq_true, ↓reduceIte] at hok ⊢
      split
      · rename_i h1
        exact set_readback hs 0 _ _ rfl h1
      · rename_i h1
        simp only [h1] at hok ⊢
        refine set_readback hs _ _ _ ?_ hok
        simp [setEnergy_empty]

/-- **mix_pressure_min.**  Whatever the outcome (also when the assignment raised), with at least
one non-empty inlet the receiver's pressure is the smallest pressure among the non-empty inlets:
it is a lower bound and it is attained. -/
theorem mix_pressure_min (solve : Solver α) (recv : St α) (rp : List Phase) (ins : List (Inlet α)) (Q : α)
    (cp : Bool) (hN : feeds ins ≠ []) :
    (∀ f ∈ feeds ins, (mixFrom solve recv rp ins Q cp).st.P ≤ f.P) ∧
    (∃ f ∈ feeds ins, (mixFrom solve recv rp ins Q cp).st.P = f.P) := by
  unfold mixFrom
  match hf : feeds ins with
  | [] => exact absurd hf hN
  | [f] =>
    have hP : ∀ (p : α), p = f.P → (∀ f' ∈ [f], p ≤ f'.P) ∧ (∃ f' ∈ [f], p = f'.P) := by
      intro p h
      exact ⟨by simp [h], ⟨f, by simp, h⟩⟩
    simp only []
    split
    · exact hP _ rfl
    · exact hP _ (by simp [setEnergy_P, copyLike])
  | f :: g :: fs =>
    simp only []
    have key : ∀ (p : α), p = minList f.P (List.map (·.P) (g :: fs)) →
        (∀ f' ∈ f :: g :: fs, p ≤ f'.P) ∧ (∃ f' ∈ f :: g :: fs, p = f'.P) := by
      intro p h
      rw [h]
      constructor
      · intro f' hf'
        rcases List.mem_cons.mp hf' with rfl | hf'
        · exact minList_le_head _ _
        · exact minList_le_mem _ _ _ (List.mem_map_of_mem hf')
      · have hm := minList_mem f.P (List.map (·.P) (g :: fs))
        rcases List.mem_cons.mp hm with h0 | h0
        · exact ⟨f, by simp, h0⟩
        · obtain ⟨f', hf', he⟩ := List.mem_map.mp h0
          exact ⟨f', List.mem_cons_of_mem _ hf', he.symm⟩
    cases cp with
    | true =>
      simp only [↓reduceIte]
      exact key _ (by simp [setEnergy_P])
    | false =>
      simp only [Bool.false_eq_true, ↓reduceIte]
      split
      · exact key _ (by simp [setEnergy_P])
      · exact key _ (by simp [setEnergy_P])

/-- `mix_from` with the energy balance on never raises by itself: if the solver always returns, so does it. -/
theorem mix_ok_of_solver_total (solve : Solver α) (htot : ∀ k ph x, solve k ph x ≠ none)
    (recv : St α) (rp : List Phase) (ins : List (Inlet α)) (Q : α) (cp : Bool) :
    (mixFrom solve recv rp ins Q cp).out = .ok := by
  unfold mixFrom
  split
  · rfl
  · dsimp only
    split
    · rfl
    · exact set_ok_of_solver_total solve htot _ _ _
  · dsimp only
    cases cp with
    | true => simp only [↓reduceIte]; exact set_ok_of_solver_total solve htot _ _ _
    | false =>
      simp only [Bool.false_eq_true, ↓reduceIte]
      split
      · rfl
      · rename_i h
        rw [set_ok_of_solver_total solve htot] at h
        exact absurd h (by decide)

/-- With no non-empty inlet the receiver is emptied and nothing is solved; T and P stay. -/
theorem mix_no_feed (solve : Solver α) (recv : St α) (rp : List Phase) (ins : List (Inlet α)) (Q : α)
    (cp : Bool) (hN : feeds ins = []) :
    (mixFrom solve recv rp ins Q cp).st = { recv with empty := true } ∧
    (mixFrom solve recv rp ins Q cp).out = .ok ∧ (mixFrom solve recv rp ins Q cp).k = 0 := by
  unfold mixFrom
  simp [hN]

/-! #### `mix_from` in full: `vle=True`, `energy_balance=False` -/

/-- With the energy balance on and no equilibrium, the full model is `mixFrom` (so every theorem
above speaks about it). -/
theorem mixFromX_eq_mixFrom (solve : Solver α) (vleRun : VleRun α) (recv : St α) (rp : List Phase)
    (ins : List (Inlet α)) (Q : α) (cp : Bool) :
    mixFromX solve vleRun recv rp ins Q cp true false = mixFrom solve recv rp ins Q cp := by
  simp [mixFromX]

/-- The equilibrium hypothesis: an `H, P` flash that returns leaves the stream with the enthalpy it
was asked for, up to `ε` (`Hv` = enthalpy of the receiver's material as the flash left it). -/
def VleSound (Hv : VleRes α → α) (ε : α) (vleRun : VleRun α) : Prop :=
  ∀ (H P : α) (r : VleRes α), vleRun (.HP H P) = some r → |Hv r - H| ≤ ε

/-- **recordedVle_sound.**  The flash the driver runs (the one recorded call, answered only for the recorded
specification) meets `VleSound` with `ε + δ` when the recorded answer reproduces the recorded `H`. -/
theorem recordedVle_sound {Hv : VleRes α → α} {ε δ : α} (near : α → α → Bool)
    (hnear : ∀ t x, near t x = true → |t - x| ≤ δ) (rec : Option (VleSpec α × Option (VleRes α)))
    (hrec : ∀ H P r, rec = some (.HP H P, some r) → |Hv r - H| ≤ ε) :
    VleSound Hv (ε + δ) (recordedVle near rec) := by
  intro H P r h
  unfold recordedVle at h
  match rec, hrec with
  | none, _ => simp at h
  | some (.TP T' P', r'), _ => simp at h
  | some (.HP H' P', r'), hrec =>
    simp only at h
    by_cases hm : (near H' H && P' == P) = true
    · simp only [hm, ↓reduceIte] at h
      have hm' : near H' H = true ∧ (P' == P) = true := by simpa using hm
      have h1 := hrec H' P' r (by rw [h])
      have h2 := hnear _ _ hm'.1
      calc |Hv r - H| = |(Hv r - H') + (H' - H)| := by ring_nf
        _ ≤ |Hv r - H'| + |H' - H| := abs_add_le _ _
        _ ≤ ε + δ := add_le_add h1 h2
    · simp [hm] at h

/-- **mix_vle_energy.**  `mix_from(..., vle=True)` with the energy balance on and two or more
non-empty inlets: the flash is asked for exactly `H = Q + Σ heat + Σ H_in` at `P = min P_in`; when
it returns, the receiver has the flash's temperature, the phases that hold material, and that
enthalpy up to the flash residual. -/
theorem mix_vle_energy {Hv : VleRes α → α} {ε : α} {vleRun : VleRun α} (hv : VleSound Hv ε vleRun)
    (solve : Solver α) (recv : St α) (rp : List Phase) (ins : List (Inlet α)) (Q : α) (cp : Bool)
    {f g : Feed α} {fs : List (Feed α)} (hf : feeds ins = f :: g :: fs)
    (hok : (mixFromX solve vleRun recv rp ins Q cp true true).out = .ok) :
    ∃ r, vleRun (.HP (sumFrom (heatSum Q ins) ((f :: g :: fs).map (·.H))) (minList f.P ((g :: fs).map (·.P)))) = some r ∧
      (mixFromX solve vleRun recv rp ins Q cp true true).st.T = r.T ∧
      (mixFromX solve vleRun recv rp ins Q cp true true).st.ph = reducePhases r.nonEmpty ∧
      (mixFromX solve vleRun recv rp ins Q cp true true).target
        = some (Q + (heats ins).sum + ((feeds ins).map (·.H)).sum) ∧
      |Hv r - (Q + (heats ins).sum + ((feeds ins).map (·.H)).sum)| ≤ ε := by
  have e : Q + (heats ins).sum + ((feeds ins).map (·.H)).sum
      = sumFrom (heatSum Q ins) ((f :: g :: fs).map (·.H)) := by
    rw [hf, sumFrom_eq, heatSum_eq]
  rw [e]
  unfold mixFromX at hok ⊢
  simp only [Bool.not_true, Bool.and_false, Bool.false_eq_true, ↓reduceIte, hf, List.map_cons] at hok ⊢
  split at hok
  · simp at hok
  · rename_i r hr
    rw [hr]
    exact ⟨r, rfl, rfl, rfl, rfl, hv _ _ _ hr⟩

/-- `vleSpecX` (what the driver prints as the flash specification) is the specification of `mix_vle_energy`. -/
theorem vleSpecX_HP (recv : St α) (ins : List (Inlet α)) (Q : α) {f g : Feed α} {fs : List (Feed α)}
    (hf : feeds ins = f :: g :: fs) :
    vleSpecX recv ins Q true true
      = some (.HP (sumFrom (heatSum Q ins) ((f :: g :: fs).map (·.H))) (minList f.P ((g :: fs).map (·.P)))) := by
  simp [vleSpecX, hf]

/-- **mix_vle_T_spec.**  With `vle=True` and the energy balance off the flash is a `T, P` flash at the
receiver's own temperature and the minimum pressure; an answer at that temperature leaves T where it was. -/
theorem mix_vle_T_spec (solve : Solver α) (vleRun : VleRun α) (recv : St α) (rp : List Phase)
    (ins : List (Inlet α)) (Q : α) (cp : Bool) {f g : Feed α} {fs : List (Feed α)}
    (hf : feeds ins = f :: g :: fs)
    (hok : (mixFromX solve vleRun recv rp ins Q cp false true).out = .ok) :
    ∃ r, vleRun (.TP recv.T (minList f.P ((g :: fs).map (·.P)))) = some r ∧
      (mixFromX solve vleRun recv rp ins Q cp false true).st.T = r.T ∧
      (mixFromX solve vleRun recv rp ins Q cp false true).target = none := by
  unfold mixFromX at hok ⊢
  simp only [Bool.false_and, Bool.false_eq_true, ↓reduceIte, hf, List.map_cons] at hok ⊢
  split at hok
  · simp at hok
  · rename_i r hr
    rw [hr]
    exact ⟨r, rfl, rfl, rfl⟩

/-- **mixX_pressure_min.**  Whatever the flags (`energy_balance`, `vle`, `conserve_phases`) and the
outcome: with two or more non-empty inlets the receiver's pressure is the smallest inlet pressure. -/
theorem mixX_pressure_min (solve : Solver α) (vleRun : VleRun α) (recv : St α) (rp : List Phase)
    (ins : List (Inlet α)) (Q : α) (cp eb vle : Bool) {f g : Feed α} {fs : List (Feed α)}
    (hf : feeds ins = f :: g :: fs) :
    (∀ f' ∈ feeds ins, (mixFromX solve vleRun recv rp ins Q cp eb vle).st.P ≤ f'.P) ∧
    (∃ f' ∈ feeds ins, (mixFromX solve vleRun recv rp ins Q cp eb vle).st.P = f'.P) := by
  by_cases hc : (eb && !vle) = true
  · have : mixFromX solve vleRun recv rp ins Q cp eb vle = mixFrom solve recv rp ins Q cp := by
      simp [mixFromX, hc]
    rw [this]
    exact mix_pressure_min solve recv rp ins Q cp (by simp [hf])
  · have key : ∀ (p : α), p = minList f.P (List.map (·.P) (g :: fs)) →
        (∀ f' ∈ f :: g :: fs, p ≤ f'.P) ∧ (∃ f' ∈ f :: g :: fs, p = f'.P) := by
      intro p h
      rw [h]
      constructor
      · intro f' hf'
        rcases List.mem_cons.mp hf' with rfl | hf'
        · exact minList_le_head _ _
        · exact minList_le_mem _ _ _ (List.mem_map_of_mem hf')
      · have hm := minList_mem f.P (List.map (·.P) (g :: fs))
        rcases List.mem_cons.mp hm with h0 | h0
        · exact ⟨f, by simp, h0⟩
        · obtain ⟨f', hf', he⟩ := List.mem_map.mp h0
          exact ⟨f', List.mem_cons_of_mem _ hf', he.symm⟩
    unfold mixFromX
    simp only [hc, Bool.false_eq_true, ↓reduceIte, hf]
    cases vle with
    | false =>
      simp only [Bool.false_eq_true, ↓reduceIte]
      exact key _ rfl
    | true =>
      simp only [↓reduceIte]
      split
      · exact key _ rfl
      · exact key _ rfl

/-- **mix_no_energy_frame.**  `energy_balance=False` without equilibrium: the call returns, nothing is
solved, nothing is assigned and the temperature stays; with at most one non-empty inlet the
pressure stays too. -/
theorem mix_no_energy_frame (solve : Solver α) (vleRun : VleRun α) (recv : St α) (rp : List Phase)
    (ins : List (Inlet α)) (Q : α) (cp : Bool) :
    (mixFromX solve vleRun recv rp ins Q cp false false).out = .ok ∧
    (mixFromX solve vleRun recv rp ins Q cp false false).k = 0 ∧
    (mixFromX solve vleRun recv rp ins Q cp false false).target = none ∧
    (mixFromX solve vleRun recv rp ins Q cp false false).st.T = recv.T ∧
    ((feeds ins).length ≤ 1 → (mixFromX solve vleRun recv rp ins Q cp false false).st.P = recv.P) := by
  unfold mixFromX
  simp only [Bool.false_and, Bool.false_eq_true, ↓reduceIte]
  match hf : feeds ins with
  | [] => simp
  | [f] => simp
  | f :: g :: fs => simp

/-- **separate_energy.**  When `separate_out` of another non-empty stream (not `None`, not the stream
itself) returns and material is left, the enthalpy of what is left is the difference of the two
enthalpies read before, up to the setter residual. -/
theorem separate_energy {Hf : PhaseState → α → α} {ε : α} {solve : Solver α}
    (hs : SolverSound Hf ε solve) (self : St α) (Hself Hother : α)
    (hok : (separateOut solve self Hself Hother false false false false).out = .ok) :
    |Hf (separateOut solve self Hself Hother false false false false).st.ph
        (separateOut solve self Hself Hother false false false false).st.T - (Hself - Hother)| ≤ ε := by
  unfold separateOut at hok ⊢
  simp only [Bool.or_self, Bool.false_eq_true, ↓reduceIte] at hok ⊢
  exact set_readback hs 0 _ _ rfl hok

/-- **separate_noop.**  Separating out `None` or an empty stream changes nothing at all: phase,
temperature, pressure and contents stay, nothing is assigned, the solver is not called — whatever
else the arguments say (in particular also when the empty stream is the stream itself). -/
theorem separate_noop (solve : Solver α) (self : St α) (Hself Hother : α) (otherNone otherEmpty same ea : Bool)
    (h : otherNone = true ∨ otherEmpty = true) :
    (separateOut solve self Hself Hother otherNone otherEmpty same ea).st = self ∧
    (separateOut solve self Hself Hother otherNone otherEmpty same ea).out = .ok ∧
    (separateOut solve self Hself Hother otherNone otherEmpty same ea).k = 0 ∧
    (separateOut solve self Hself Hother otherNone otherEmpty same ea).target = none := by
  unfold separateOut
  rcases h with h | h <;> simp [h]

/-- Separating a non-empty stream from itself empties it and assigns `0 − 0` to the empty stream:
nothing is solved and T, P stay. -/
theorem separate_self (solve : Solver α) (self : St α) (Hself Hother : α) (ea : Bool) :
    (separateOut solve self Hself Hother false false true ea).st = { self with empty := true } ∧
    (separateOut solve self Hself Hother false false true ea).out = .ok ∧
    (separateOut solve self Hself Hother false false true ea).k = 0 := by
  unfold separateOut setEnergy isZero
  simp

end Balance

/-! ### Part B: invertibility in temperature (ℝ) -/

section Invertible
open Set

/-- **H_strictMono.**  If `dH/dT = Cn(T)` and `Cn > 0` on `[a, b]`, then `T ↦ H(T)` is strictly
increasing on `[a, b]`. -/
theorem H_strictMono {H Cn : ℝ → ℝ} {a b : ℝ}
    (hd : ∀ T ∈ Icc a b, HasDerivAt H (Cn T) T) (hpos : ∀ T ∈ Icc a b, 0 < Cn T) :
    StrictMonoOn H (Icc a b) :=
  strictMonoOn_of_hasDerivAt_pos hd hpos

/-- **solution_unique.**  Hence the temperature with a given enthalpy is unique in `[a, b]`. -/
theorem solution_unique {H Cn : ℝ → ℝ} {a b : ℝ}
    (hd : ∀ T ∈ Icc a b, HasDerivAt H (Cn T) T) (hpos : ∀ T ∈ Icc a b, 0 < Cn T)
    {T₁ T₂ : ℝ} (h₁ : T₁ ∈ Icc a b) (h₂ : T₂ ∈ Icc a b) (h : H T₁ = H T₂) : T₁ = T₂ :=
  (H_strictMono hd hpos).injOn h₁ h₂ h

/-- **S_strictMono.**  With `dS/dT = Cn(T) / T`, `Cn > 0` and `0 < a`, entropy is strictly
increasing in temperature on `[a, b]`, so the temperature with a given entropy is unique. -/
theorem S_strictMono {S Cn : ℝ → ℝ} {a b : ℝ} (ha : 0 < a)
    (hd : ∀ T ∈ Icc a b, HasDerivAt S (Cn T / T) T) (hpos : ∀ T ∈ Icc a b, 0 < Cn T) :
    StrictMonoOn S (Icc a b) :=
  strictMonoOn_of_hasDerivAt_pos hd (fun T hT => div_pos (hpos T hT) (lt_of_lt_of_le ha hT.1))

theorem S_solution_unique {S Cn : ℝ → ℝ} {a b : ℝ} (ha : 0 < a)
    (hd : ∀ T ∈ Icc a b, HasDerivAt S (Cn T / T) T) (hpos : ∀ T ∈ Icc a b, 0 < Cn T)
    {T₁ T₂ : ℝ} (h₁ : T₁ ∈ Icc a b) (h₂ : T₂ ∈ Icc a b) (h : S T₁ = S T₂) : T₁ = T₂ :=
  (S_strictMono ha hd hpos).injOn h₁ h₂ h

/-- **setH_idempotent.**  Assigning to a non-empty stream the enthalpy it already has: when the
setter returns in the same phase with a temperature inside `[a, b]`, that temperature differs from
the old one by at most `ε / c`, where `ε` is the solver residual and `c > 0` a lower bound of
`Cn = dH/dT` on `[a, b]`. -/
theorem setH_idempotent {Hf : PhaseState → ℝ → ℝ} {Cn : ℝ → ℝ} {ε a b c : ℝ} {solve : Solver ℝ}
    (hs : SolverSound Hf ε solve) (k : Nat) (st : St ℝ) (hne : st.empty = false) (hc0 : 0 < c)
    (hd : ∀ T ∈ Icc a b, HasDerivAt (Hf st.ph) (Cn T) T) (hc : ∀ T ∈ Icc a b, c ≤ Cn T)
    (hT : st.T ∈ Icc a b)
    (hok : (setEnergy solve k st (Hf st.ph st.T)).out = .ok)
    (hph : (setEnergy solve k st (Hf st.ph st.T)).st.ph = st.ph)
    (hT' : (setEnergy solve k st (Hf st.ph st.T)).st.T ∈ Icc a b) :
    |(setEnergy solve k st (Hf st.ph st.T)).st.T - st.T| ≤ ε / c := by
  have h := set_readback hs k st (Hf st.ph st.T) hne hok
  rw [hph] at h
  exact abs_sub_le_div_of_le_hasDerivAt hc0 hd hc hT hT' h

/-- **setS_idempotent.**  The same for entropy, whose slope is `Cn / T ≥ c / b` on `[a, b]`
(`0 < a`): the temperature moves by at most `ε · b / c`. -/
theorem setS_idempotent {Sf : PhaseState → ℝ → ℝ} {Cn : ℝ → ℝ} {ε a b c : ℝ} {solve : Solver ℝ}
    (hs : SolverSound Sf ε solve) (k : Nat) (st : St ℝ) (hne : st.empty = false) (hc0 : 0 < c) (ha : 0 < a)
    (hd : ∀ T ∈ Icc a b, HasDerivAt (Sf st.ph) (Cn T / T) T) (hc : ∀ T ∈ Icc a b, c ≤ Cn T)
    (hT : st.T ∈ Icc a b)
    (hok : (setEnergy solve k st (Sf st.ph st.T)).out = .ok)
    (hph : (setEnergy solve k st (Sf st.ph st.T)).st.ph = st.ph)
    (hT' : (setEnergy solve k st (Sf st.ph st.T)).st.T ∈ Icc a b) :
    |(setEnergy solve k st (Sf st.ph st.T)).st.T - st.T| ≤ ε * b / c := by
  have h := set_readback hs k st (Sf st.ph st.T) hne hok
  rw [hph] at h
  have hb : 0 < b := lt_of_lt_of_le ha (le_trans hT.1 hT.2)
  have hslope : ∀ T ∈ Icc a b, c / b ≤ Cn T / T := by
    intro T hT
    have hTpos : 0 < T := lt_of_lt_of_le ha hT.1
    rw [div_le_div_iff₀ hb hTpos]
    have h1 : c * T ≤ c * b := mul_le_mul_of_nonneg_left hT.2 hc0.le
    have h2 : c * b ≤ Cn T * b := mul_le_mul_of_nonneg_right (hc T hT) hb.le
    linarith
  have := abs_sub_le_div_of_le_hasDerivAt (div_pos hc0 hb) hd hslope hT hT' h
  rwa [div_div_eq_mul_div] at this

/-- Read-back determines the temperature: two temperatures in `[a, b]` that both reproduce the
assigned enthalpy within `ε` are within `2ε / c` of each other (what "the" solution means for a
solver with tolerance). -/
theorem readback_determines_T {H Cn : ℝ → ℝ} {ε a b c x : ℝ} (hc0 : 0 < c)
    (hd : ∀ T ∈ Icc a b, HasDerivAt H (Cn T) T) (hc : ∀ T ∈ Icc a b, c ≤ Cn T)
    {T₁ T₂ : ℝ} (h₁ : T₁ ∈ Icc a b) (h₂ : T₂ ∈ Icc a b) (r₁ : |H T₁ - x| ≤ ε) (r₂ : |H T₂ - x| ≤ ε) :
    |T₂ - T₁| ≤ 2 * ε / c := by
  apply abs_sub_le_div_of_le_hasDerivAt hc0 hd hc h₁ h₂
  have : H T₂ - H T₁ = (H T₂ - x) - (H T₁ - x) := by ring
  rw [this]
  have := abs_sub (H T₂ - x) (H T₁ - x)
  linarith

/-! ### The balance with the material made explicit

`mix_energy` says: the temperature the receiver ends with reproduces `Q + Σ heat + Σ H_in` under the
property function `Hf` the solver hypothesis is about.  What `Hf` is the enthalpy *of* is left open
there.  Here the inlets carry amounts of material (any additive commutative monoid `M`: per-phase,
per-chemical flows), an inlet's enthalpy is the enthalpy `Hm` of its material in its own state, and
the receiver holds the sum of the inlets' material (the material side, C01).  With `Hm` additive in
the material the balance gains content that does not sit in the hypotheses: mixing streams of one
phase and one temperature without heat leaves that temperature (`mix_isothermal`), and so does
separating out a share that has the stream's phase and temperature (`separate_isothermal`) —
the temperature is *determined* by the balance, through `H_strictMono`. -/

section Material
variable {M : Type} [AddCommMonoid M]

/-- enthalpy is additive in the amount of material (what the ideal mixture models of thermosteam compute) -/
def Additive {β : Type} [AddCommMonoid β] (Hm : M → PhaseState → β → β) : Prop :=
  (∀ ph T, Hm 0 ph T = 0) ∧ ∀ a b ph T, Hm (a + b) ph T = Hm a ph T + Hm b ph T

theorem additive_sum {Hm : M → PhaseState → ℝ → ℝ} (hadd : Additive Hm) (ms : List M) (ph : PhaseState) (T : ℝ) :
    Hm ms.sum ph T = (ms.map (fun m => Hm m ph T)).sum := by
  induction ms with
  | nil => simpa using hadd.1 ph T
  | cons m t ih => simp [hadd.2, ih]

/-- **mix_energy_material.**  `mix_energy` about material: the receiver holds `Σ mat f`, every inlet's
enthalpy is the enthalpy of its own material in its own state; then the enthalpy of the receiver's
material in its final state is `Q + Σ heat + Σ_f Hm (mat f) (state of f)` up to the solver residual.
(`hcopy`: for a lone inlet without heat the copy may give a `MultiStream` receiver more phase
labels than the inlet has; relabelling does not change the enthalpy.) -/
theorem mix_energy_material {Hm : M → PhaseState → ℝ → ℝ} {ε : ℝ} {solve : Solver ℝ} (hε : 0 ≤ ε)
    (mat : Feed ℝ → M) (recv : St ℝ) (rp : List Phase) (ins : List (Inlet ℝ)) (Q : ℝ) (cp : Bool)
    (hH : ∀ f ∈ feeds ins, f.H = Hm (mat f) f.ph f.T)
    (hs : SolverSound (Hm ((feeds ins).map mat).sum) ε solve)
    (hN : feeds ins ≠ [])
    (hcopy : ∀ f, feeds ins = [f] → Hm (mat f) (copyLike recv f).ph f.T = Hm (mat f) f.ph f.T)
    (hok : (mixFrom solve recv rp ins Q cp).out = .ok) :
    |Hm ((feeds ins).map mat).sum (mixFrom solve recv rp ins Q cp).st.ph (mixFrom solve recv rp ins Q cp).st.T
        - (Q + (heats ins).sum + ((feeds ins).map (fun f => Hm (mat f) f.ph f.T)).sum)| ≤ ε := by
  have hmap : (feeds ins).map (fun f => Hm (mat f) f.ph f.T) = (feeds ins).map (·.H) :=
    List.map_congr_left (fun f hf => (hH f hf).symm)
  rw [hmap]
  refine mix_energy hε hs recv rp ins Q cp hN ?_ hok
  intro f hf
  have hmem : f ∈ feeds ins := by rw [hf]; simp
  rw [hf]
  simp only [List.map_cons, List.map_nil, List.sum_cons, List.sum_nil, add_zero]
  rw [hcopy f hf, hH f hmem]

/-- **mix_isothermal.**  Two or more non-empty inlets, all single-phase streams of one phase `p` at one
temperature `T₀`, no net heat: when the call returns in phase `p` with a temperature inside `[a, b]`
(where `dH/dT = Cn ≥ c > 0` for the mixed material), that temperature is `T₀` up to `ε / c`.  Uses
additivity of `Hm` (the enthalpy of the mixed material at `T₀` *is* the sum of the inlet enthalpies)
and the mean-value theorem. -/
theorem mix_isothermal {Hm : M → PhaseState → ℝ → ℝ} (hadd : Additive Hm) {Cn : ℝ → ℝ} {ε a b c T₀ : ℝ}
    {p : Phase} {solve : Solver ℝ} (hε : 0 ≤ ε)
    (mat : Feed ℝ → M) (recv : St ℝ) (rp : List Phase) (ins : List (Inlet ℝ)) (Q : ℝ) (cp : Bool)
    (hQ : Q + (heats ins).sum = 0)
    (hfeeds : ∀ f ∈ feeds ins, f.T = T₀ ∧ f.ph = .single p ∧ f.H = Hm (mat f) (.single p) T₀)
    (hN : 2 ≤ (feeds ins).length)
    (hs : SolverSound (Hm ((feeds ins).map mat).sum) ε solve)
    (hc0 : 0 < c)
    (hd : ∀ T ∈ Set.Icc a b, HasDerivAt (Hm ((feeds ins).map mat).sum (.single p)) (Cn T) T)
    (hc : ∀ T ∈ Set.Icc a b, c ≤ Cn T) (hT₀ : T₀ ∈ Set.Icc a b)
    (hok : (mixFrom solve recv rp ins Q cp).out = .ok)
    (hph : (mixFrom solve recv rp ins Q cp).st.ph = .single p)
    (hT' : (mixFrom solve recv rp ins Q cp).st.T ∈ Set.Icc a b) :
    |(mixFrom solve recv rp ins Q cp).st.T - T₀| ≤ ε / c := by
  have hne : feeds ins ≠ [] := by
    intro h; rw [h] at hN; simp at hN
  have hH : ∀ f ∈ feeds ins, f.H = Hm (mat f) f.ph f.T := by
    intro f hf
    obtain ⟨h1, h2, h3⟩ := hfeeds f hf
    rw [h1, h2, h3]
  have hcopy : ∀ f, feeds ins = [f] → Hm (mat f) (copyLike recv f).ph f.T = Hm (mat f) f.ph f.T := by
    intro f hf; rw [hf] at hN; simp at hN
  have h := mix_energy_material hε mat recv rp ins Q cp hH hs hne hcopy hok
  have hsum : ((feeds ins).map (fun f => Hm (mat f) f.ph f.T)).sum
      = Hm ((feeds ins).map mat).sum (.single p) T₀ := by
    rw [additive_sum hadd, List.map_map]
    congr 1
    apply List.map_congr_left
    intro f hf
    obtain ⟨h1, h2, _⟩ := hfeeds f hf
    simp [h1, h2]
  rw [hsum, hQ, zero_add, hph] at h
  exact abs_sub_le_div_of_le_hasDerivAt hc0 hd hc hT₀ hT' h

/-- **separate_isothermal.**  A stream in phase `p` at `T₀` holding `m_rest + m_other`, from which a
share `m_other` in the same phase at the same temperature is separated out: when the call returns in
phase `p` inside `[a, b]`, the temperature is `T₀` up to `ε / c`.  (A share in *another* phase at the
same temperature does not satisfy the hypothesis `Hother = Hm m_other (.single p) T₀`, and the
temperature then moves: the latent heat leaves with the share.) -/
theorem separate_isothermal {Hm : M → PhaseState → ℝ → ℝ} (hadd : Additive Hm) {Cn : ℝ → ℝ} {ε a b c : ℝ}
    {p : Phase} {solve : Solver ℝ} (mrest mother : M) (self : St ℝ)
    (hs : SolverSound (Hm mrest) ε solve) (hc0 : 0 < c)
    (hd : ∀ T ∈ Set.Icc a b, HasDerivAt (Hm mrest (.single p)) (Cn T) T)
    (hc : ∀ T ∈ Set.Icc a b, c ≤ Cn T) (hT₀ : self.T ∈ Set.Icc a b)
    (hok : (separateOut solve self (Hm (mrest + mother) (.single p) self.T) (Hm mother (.single p) self.T)
              false false false false).out = .ok)
    (hph : (separateOut solve self (Hm (mrest + mother) (.single p) self.T) (Hm mother (.single p) self.T)
              false false false false).st.ph = .single p)
    (hT' : (separateOut solve self (Hm (mrest + mother) (.single p) self.T) (Hm mother (.single p) self.T)
              false false false false).st.T ∈ Set.Icc a b) :
    |(separateOut solve self (Hm (mrest + mother) (.single p) self.T) (Hm mother (.single p) self.T)
              false false false false).st.T - self.T| ≤ ε / c := by
  have h := separate_energy hs self _ _ hok
  have e : Hm (mrest + mother) (.single p) self.T - Hm mother (.single p) self.T = Hm mrest (.single p) self.T := by
    rw [hadd.2]; ring
  rw [e, hph] at h
  exact abs_sub_le_div_of_le_hasDerivAt hc0 hd hc hT₀ hT' h

/-- the hypotheses are satisfiable: amounts in `ℝ`, `Hm m ph T = m · 3 T` is additive and has `dH/dT = 3 m` -/
example : Additive (fun (m : ℝ) (_ : PhaseState) (T : ℝ) => m * (3 * T)) :=
  ⟨by simp, by intro a b ph T; ring⟩
example : ∀ T ∈ Set.Icc (250 : ℝ) 500, HasDerivAt (fun T : ℝ => 2 * (3 * T)) ((fun _ => (2 * 3 : ℝ)) T) T := by
  intro T _
  simpa using ((hasDerivAt_id T).const_mul (3 : ℝ)).const_mul (2 : ℝ)

end Material

/-! The iteration maps: their fixed points are exactly the solutions, so *if* the Aitken iteration
converges (monitored, not proved) it converges to the temperature the read-back theorems speak of. -/

/-- **newton_fixed_point_iff.**  `T` is a fixed point of `iter_T_at_HP` iff `H_model(T) = H`
(any field, `Cn ≠ 0`). -/
theorem newton_fixed_point_iff {α : Type} [Field α] (T H HT Cn : α) (hCn : Cn ≠ 0) :
    iterHP T H HT Cn = T ↔ HT = H := by
  unfold iterHP
  constructor
  · intro h
    have h0 : (H - HT) / Cn = 0 := by linear_combination h
    rcases div_eq_zero_iff.mp h0 with h1 | h1
    · exact (sub_eq_zero.mp h1).symm
    · exact absurd h1 hCn
  · rintro rfl
    simp

/-- The step taken from `T` bounds the residual: `|H − H_model(T)| = Cn · |step|` for `Cn > 0`. -/
theorem newton_step_residual (T H HT Cn : ℝ) (hCn : 0 < Cn) :
    |H - HT| = Cn * |iterHP T H HT Cn - T| := by
  unfold iterHP
  have : T + (H - HT) / Cn - T = (H - HT) / Cn := by ring
  rw [this, abs_div, abs_of_pos hCn]
  field_simp

/-- **entropy_step_fixed_point_iff.**  `T ≠ 0` is a fixed point of `iter_T_at_SP` iff
`S_model(T) = S` (`Cn ≠ 0`). -/
theorem entropy_step_fixed_point_iff (T S ST Cn : ℝ) (hT : T ≠ 0) (hCn : Cn ≠ 0) :
    iterSP Real.exp T S ST Cn = T ↔ ST = S := by
  unfold iterSP
  constructor
  · intro h
    have h1 : Real.exp ((S - ST) / Cn) = 1 := by
      have : T * Real.exp ((S - ST) / Cn) = T * 1 := by simpa using h
      exact mul_left_cancel₀ hT this
    have h0 := (Real.exp_eq_one_iff _).mp h1
    rcases div_eq_zero_iff.mp h0 with h2 | h2
    · exact (sub_eq_zero.mp h2).symm
    · exact absurd h2 hCn
  · rintro rfl
    simp

end Invertible

/-! ### Non-vacuity: the hypotheses are satisfiable and the conclusions are about real runs -/

section Examples

/-- a toy property function (`H = 2 T` in every phase) with its exact solver -/
def Hf₀ : PhaseState → ℚ → ℚ := fun _ T => 2 * T
def solve₀ : Solver ℚ := fun _ _ x => some (x / 2)

example : SolverSound Hf₀ 0 solve₀ := by
  intro k ph x T h
  simp only [solve₀, Option.some.injEq] at h
  subst h
  have : 2 * (x / 2) - x = 0 := by ring
  simp [Hf₀, this]

/-- three entries (two non-empty streams at 30 and 10 with different pressures, a heat object, `None`),
`Q = 4`: the run returns, so `mix_energy` and `mix_pressure_min` speak about it. -/
def ins₀ : List (Inlet ℚ) :=
  [.stream false 30 5 15 (.single .l) [.l] false, .heat 6, .none, .stream true 0 1 7 (.single .g) [.g] false,
   .stream false 10 3 5 (.single .g) [.g] false]
def recv₀ : St ℚ := { ph := .single .l, T := 1, P := 9, empty := true }

example : feeds ins₀ ≠ [] := by simp [ins₀, feeds]
example : (mixFrom solve₀ recv₀ [.l] ins₀ 4 false).out = .ok := by
  simp [mixFrom, ins₀, feeds, heatSum, setEnergy, solve₀, isZero, recv₀, sumFrom]
example : (mixFrom solve₀ recv₀ [.l] ins₀ 4 false).st.T = 25 ∧ (mixFrom solve₀ recv₀ [.l] ins₀ 4 false).st.P = 3 := by
  simp [mixFrom, ins₀, feeds, heatSum, setEnergy, solve₀, isZero, recv₀, sumFrom, minList]
  norm_num

/-- an exact toy flash (`H = 2 T`, everything ends up in both phases): `mix_vle_energy` is about a run that returns -/
def vle₀ : VleRun ℚ := fun spec => match spec with
  | .HP H _ => some ⟨H / 2, [.g, .l]⟩
  | .TP T _ => some ⟨T, [.l]⟩
example : VleSound (fun r : VleRes ℚ => 2 * r.T) 0 vle₀ := by
  intro H P r h
  simp only [vle₀, Option.some.injEq] at h
  subst h
  have : 2 * (H / 2) - H = 0 := by ring
  simp [this]
example : (mixFromX solve₀ vle₀ recv₀ [.l] ins₀ 4 false true true).out = .ok ∧
    (mixFromX solve₀ vle₀ recv₀ [.l] ins₀ 4 false true true).st.ph = .multi [.g, .l] := by
  simp [mixFromX, ins₀, feeds, heatSum, vle₀, reducePhases, canon, allPhases, groupRep]

/-- a solver that fails on liquids: the fallback flips the phase and the read-back theorem still applies -/
def solve₁ : Solver ℚ := fun _ ph x => if ph = .single .l then none else some (x / 2)
example : (setEnergy solve₁ 0 recv₀ 8).out = .ok ∧ (setEnergy solve₁ 0 recv₀ 8).st.ph = .single .g
    ∧ (setEnergy solve₁ 0 recv₀ 8).st.T = 4 := by
  simp [setEnergy, solve₁, recv₀, isZero, Phase.flip, Phase.lower]
  norm_num

/-- the analytic hypotheses are satisfiable: `H(T) = 3 T` has `dH/dT = 3 ≥ 3 > 0` on `[250, 500]` -/
example : ∀ T ∈ Set.Icc (250 : ℝ) 500, HasDerivAt (fun T : ℝ => 3 * T) ((fun _ => (3 : ℝ)) T) T := by
  intro T _
  simpa using (hasDerivAt_id T).const_mul (3 : ℝ)

end Examples

end ThermoVerif.Props.C02
