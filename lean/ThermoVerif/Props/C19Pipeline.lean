import ThermoVerif.Lemmas.NetAsm
/-
C19, acyclic half, for the whole pipeline `Network.from_units`
(`fromUnits` in ThermoVerif/Model/NetSort.lean: feeds, `sort_feeds_big_to_small`, the depth-first walk
of every feed, `simplified_linear_paths`, `join_linear_network` / `_remove_overlap` /
`_insert_linear_network` / `_append_network` / `join_network_at_unit` / `first_unit`, the final `sort`
and the closing step of `add_interaction_units`).
-/
namespace ThermoVerif.Props.C19
open ThermoVerif.NetSort

variable {g : Graph}

/-- **from_units_dag** — the acyclic half of C19 as a theorem about the whole pipeline.
For every well-formed acyclic flowsheet in which every unit is reachable from some feed, and for every
order in which the units are handed to `Network.from_units`, the model of `from_units` returns (no
error branch, no warning) a flat network that contains every given unit exactly once, in an order in
which every unit comes after all units that feed it, and reports no recycle: `Holds g (.net p []) []`. -/
theorem from_units_dag (hwf : g.WF) (hac : ¬ Cyclic g) (order : List Nat) (hperm : order.Perm (List.range g.n))
    (fmass : List Nat)
    (hfed : ∀ u, u < g.n → ∃ f, f ∈ feedsOf g order ∧ FeedReach g order (productsOf g order) f u) :
    ∃ p, fromUnits g order fmass = .ok (.net p [], 0) ∧ (∀ it ∈ p, ∃ u, it = .unit u) ∧
      Holds g (.net p []) [] := by
  have hunits : ∀ u, u ∈ order ↔ u < g.n := fun u => by rw [hperm.mem_iff, List.mem_range]
  have hprod : ∀ s, s ∈ addNew [] (productsOf g order) → ∀ v, g.sinkOf s = some v → v ∉ order := by
    intro s hs
    rcases mem_addNew.mp hs with h | h
    · exact absurd h List.not_mem_nil
    · exact mem_productsOf h
  have hout : ∀ u, u ∈ order → g.outsOf u ≠ [] := fun u hu => hwf.has_out u ((hunits u).mp hu)
  unfold fromUnits sortedFeeds
  simp only
  cases hsorted : (feedOrder ((feedsOf g order).map fun s => fmass.getD s 0)).map
      (fun k => (feedsOf g order).getD k 0) with
  | nil =>
    -- no feed at all: then there is no unit at all
    have hn : g.n = 0 := by
      cases hgn : g.n with
      | zero => rfl
      | succ m =>
        obtain ⟨f, hf, _⟩ := hfed 0 (by omega)
        have := (mem_sortedFeeds (feedsOf g order) fmass f).mpr hf
        rw [hsorted] at this; exact absurd this List.not_mem_nil
    refine ⟨[], rfl, fun it hit => absurd hit List.not_mem_nil, ?_, by simp [Item.flat, flatList],
      by simp [allRecycles, allRecyclesList], ?_, ?_⟩
    · intro u; simp [Item.flat, flatList, hn]
    · intro _
      refine ⟨?_, rfl⟩
      intro a b e
      have := Nat.lt_of_lt_of_le e.lt_outs_length hwf.outs_len
      omega
    · rintro ⟨u, hu⟩
      obtain ⟨v, e⟩ := hu.first_edge
      have := Nat.lt_of_lt_of_le e.lt_outs_length hwf.outs_len
      omega
  | cons feedstock rest =>
    have hmemf : ∀ f, f ∈ feedstock :: rest ↔ f ∈ feedsOf g order := by
      intro f; rw [← hsorted]; exact mem_sortedFeeds _ _ f
    obtain ⟨w0, hw0⟩ := isFeedOf_of_mem hwf ((hmemf feedstock).mp (List.mem_cons_self ..))
    -- the feedstock's network
    obtain ⟨p0, hp0, lin0⟩ := linearNetwork_spec (g := g) (units := order)
      (ends := addNew [] (productsOf g order)) feedstock hout hac
    have hk0 : g.sinkOf feedstock = some w0 := hwf.in_snk w0 feedstock hw0.2.1
    have hne0 : feedstock ∉ addNew [] (productsOf g order) := fun hm => hprod _ hm w0 hk0 hw0.1
    have inv0 : AsmInv g order (addNew [] (productsOf g order))
        { path := p0, ends := addNew (addNew [] (productsOf g order)) (streamsOf g p0) } :=
      ⟨lin0.nodup, fun u hu => (feedReach_entry (lin0.sound u hu)).1, fun s => by simp only [mem_addNew],
        fun u hu s hs hne v hk hv => lin0.closed u hu s hs hne v hk hv⟩
    obtain ⟨st, hst, inv, mono, hfs⟩ := addFeeds_spec hwf hac (fun u hu => (hunits u).mp hu) hprod rest _ inv0
      (fun f hf => isFeedOf_of_mem hwf ((hmemf f).mp (List.mem_cons_of_mem _ hf)))
    simp only [hp0, hst]
    -- every feed's unit is on the path, the path is closed downstream: every unit is on it
    have hfeedunit : ∀ f w, f ∈ feedsOf g order → IsFeedOf g order f w → w ∈ st.path := by
      intro f w hf hw
      rcases List.mem_cons.mp ((hmemf f).mpr hf) with rfl | hr
      · have e1 := hwf.in_snk w _ hw.2.1
        rw [hk0] at e1; injection e1 with e; subst e
        exact mono _ (lin0.first _ hne0 hk0 hw0.1)
      · exact hfs f w hr hw
    have hreach : ∀ f u, f ∈ feedsOf g order → FeedReach g order (addNew [] (productsOf g order)) f u → u ∈ st.path := by
      intro f u hf hr
      obtain ⟨w, hw⟩ := isFeedOf_of_mem hwf hf
      induction hr with
      | start _ h2 _ =>
        have e1 := hwf.in_snk w f hw.2.1
        rw [h2] at e1; injection e1 with e; subst e
        exact hfeedunit f _ hf hw
      | step _ hs h1 h2 h3 ih => exact inv.closed _ ih _ hs h1 _ h2 h3
    have hall : ∀ u, u < g.n → u ∈ st.path := by
      intro u hu
      obtain ⟨f, hf, hr⟩ := hfed u hu
      exact hreach f u hf (feedReach_congr (fun s => by simp [mem_addNew]) hr)
    have hexact : ∀ u, u ∈ st.path ↔ u < g.n := fun u => ⟨fun h => (hunits u).mp (inv.sub u h), hall u⟩
    -- the final sort
    have hflat : ∀ it ∈ st.path.map Item.unit, ∃ u, it = .unit u := by
      intro it hit; obtain ⟨u, _, rfl⟩ := List.mem_map.mp hit; exact ⟨u, rfl⟩
    have hends : ∀ s, s ∈ addNew (addNew [] (productsOf g order)) (productsOf g st.path) → g.sinkOf s = none := by
      intro s hs
      cases hk : g.sinkOf s with
      | none => rfl
      | some v =>
        have hv : v < g.n := hwf.sinksOK s v hk
        rcases mem_addNew.mp hs with h | h
        · exact absurd ((hunits v).mpr hv) (hprod s h v hk)
        · exact absurd (hall v hv) (mem_productsOf h v hk)
    obtain ⟨o, ho, hstop, hholds⟩ := sort_dag_holds hwf.sinksOK hwf.outs_len hends hac (st.path.map Item.unit) hflat
      (by rw [flatList_map_unit]; exact hexact) (by rw [flatList_map_unit]; exact inv.nodup)
    have hrec : o.recycle = [] := (hholds.acyclic hac).2
    have hnd : (flatList o.path).Nodup := by simpa [Item.flat] using hholds.once
    have hitem : sortItem g (addNew (addNew [] (productsOf g order)) (productsOf g st.path))
        (.net (st.path.map Item.unit) []) = .ok (.net o.path o.recycle, 0) := by
      unfold sortItem
      rw [sortList_units hflat]
      simp only [ho, hstop, if_true, Nat.add_zero]
    simp only [hitem, popIfLoop_nodup hnd, hrec]
    refine ⟨o.path, rfl, fun it hit => hflat it ((sort_perm ho).mem_iff.mp hit), ?_⟩
    rw [hrec] at hholds; exact hholds

/-- **from_units_dag'** — the same with purely structural hypotheses: the reachability of every unit
from a feed is a consequence of acyclicity once every unit has an inlet and every stream with a source
is listed among that unit's outlets. -/
theorem from_units_dag' (hwf : g.WF) (hsrc : ∀ s c, g.sourceOf s = some c → s ∈ g.outsOf c)
    (hin : ∀ u, u < g.n → g.insOf u ≠ []) (hac : ¬ Cyclic g)
    (order : List Nat) (hperm : order.Perm (List.range g.n)) (fmass : List Nat) :
    ∃ p, fromUnits g order fmass = .ok (.net p [], 0) ∧ (∀ it ∈ p, ∃ u, it = .unit u) ∧
      Holds g (.net p []) [] := by
  have hunits : ∀ u, u ∈ order ↔ u < g.n := fun u => by rw [hperm.mem_iff, List.mem_range]
  exact from_units_dag hwf hac order hperm fmass fun u hu =>
    dag_all_fed hwf hsrc (fun v hv => hin v ((hunits v).mp hv)) hac (fun v hv => (hunits v).mp hv) ((hunits u).mpr hu)

/-! ## The cyclic half: statement, and what is proved of it -/

/-- **The cyclic half of C19 for an assembly function `asm`** (the real `Network.from_units`): on every
well-formed cyclic flowsheet in which every unit is reachable from a feed, and for every order of the
units, `asm` returns a network for which the property's statement holds with the recycles it reports.
NOT PROVED: `fromUnits` models the assembly only as long as no walk reports a recycle; the recycle
assembly (`join_recycle_network`, `_insert_recycle_network`, `_add_linear_network`,
`reduce_recycles`) is outside the model and its output is judged per run by `validNetwork`
(`validNetwork_sound`). -/
def from_units_cyclic_statement (asm : Graph → List Nat → List Nat → Except Err (Item × Nat)) : Prop :=
  ∀ (g : Graph) (order fmass : List Nat), g.WF → Cyclic g → order.Perm (List.range g.n) →
    (∀ u, u < g.n → Fed g order u) →
    ∃ p w, asm g order fmass = .ok (p, w) ∧ Holds g p (allRecycles p)

/-- **partial (i): a reachable cycle is never missed.**  If, following streams from the feedstock, one
can run into a cycle, the walk reports a recycle (`dfs_cycle_found`) and the modelled, recycle-free
assembly is *not* applied: the model stops with `Err.recycle` instead of returning a network without
a recycle.  (The driver compares this answer with the real code on every cyclic flowsheet.) -/
theorem from_units_cycle_detected (order fmass : List Nat) {feedstock : Nat} {rest : List Nat}
    (hs : sortedFeeds g order fmass = feedstock :: rest)
    (w : WalkHits g order (addNew [] (productsOf g order)) feedstock []) :
    fromUnits g order fmass = .error .recycle := by
  obtain ⟨st, hst⟩ := findPaths_total g order feedstock (addNew [] (productsOf g order))
  have hW := dfs_cycle_found hst w
  have hl : linearNetwork g order feedstock (addNew [] (productsOf g order)) = .error .recycle := by
    unfold linearNetwork
    simp only [hst]
    cases hw : st.withR with
    | nil => exact absurd hw hW
    | cons _ _ => simp
  unfold fromUnits
  simp only [hs, hl]

/-- **partial (ii): the final `sort` keeps what the assembly reported.**  Whatever (nested) network
reaches `Network.sort`: its units are only permuted (`sortItem_flat_perm`), and no recycle of the
top network is dropped. -/
theorem sort_keeps_recycles {ends : List Nat} {path : List Item} {r : List Nat} {o : SortOut}
    (h : sortLevel g ends path r = .ok o) : ∀ s, s ∈ r → s ∈ o.recycle := by
  intro s hs
  obtain ⟨ps, _, _, _, e2, _⟩ := sortLevel_inv h
  rw [e2]; exact bubble_recycle_mono _ _ _ _ hs

theorem sort_keeps_units {ends : List Nat} {it it' : Item} {w : Nat} (h : sortItem g ends it = .ok (it', w))
    (hexact : ∀ u, u ∈ it.flat ↔ u < g.n) : ∀ u, u ∈ it'.flat ↔ u < g.n :=
  fun u => by rw [(sortItem_flat_perm it h).mem_iff]; exact hexact u

/-- **what is missing**: `fromUnits` itself is not a model of the cyclic half — on the one-loop
flowsheet `G3` (well-formed, cyclic, every unit fed) it answers `Err.recycle`. -/
theorem from_units_cyclic_counterexample : ¬ from_units_cyclic_statement fromUnits := by
  intro h
  have e01 : Edge G3 [] 0 1 := ⟨0, by decide, by simp, by decide⟩
  have e10 : Edge G3 [] 1 0 := ⟨1, by decide, by simp, by decide⟩
  have hcyc : Cyclic G3 := ⟨0, Relation.TransGen.tail (Relation.TransGen.single e01) e10⟩
  have hfed : ∀ u, u < G3.n → Fed G3 [0, 1] u := by
    intro u hu
    have h0 : FeedReach G3 [0, 1] (productsOf G3 [0, 1]) 2 0 := .start (by decide) (by decide) (by decide)
    match u, hu with
    | 0, _ => exact ⟨2, by decide, h0⟩
    | 1, _ => exact ⟨2, by decide, .step (u := 0) (v := 1) (s := 0) h0 (by decide) (by decide) (by decide) (by decide)⟩
  obtain ⟨p, w, hp, _⟩ := h G3 [0, 1] [] (wf_of_B (by decide)) hcyc (by decide) hfed
  have : (match fromUnits G3 [0, 1] [] with | .ok _ => false | .error _ => true) = true := by decide
  rw [hp] at this; exact absurd this (by simp)

/-! ### Non-vacuity -/

/-- the structural hypotheses hold on `G1` … -/
example : G1.WF ∧ (∀ s c, G1.sourceOf s = some c → s ∈ G1.outsOf c) ∧ (∀ u, u < G1.n → G1.insOf u ≠ []) ∧
    ¬ Cyclic G1 ∧ [2, 1, 0].Perm (List.range G1.n) := by
  refine ⟨wf_of_B (by decide), ?_, ?_, ?_, by decide⟩
  · intro s c h
    unfold Graph.sourceOf at h
    match s, h with
    | 0, h | 1, h | 2, h | 4, h => simp [G1] at h; subst h; decide
    | 3, h => simp [G1] at h
    | n + 5, h => simp [G1] at h
  · intro u hu
    match u, hu with
    | 0, _ | 1, _ | 2, _ => decide
  · rintro ⟨u, hu⟩; exact acyclic_of_acyclicB (g := G1) (ends := []) (by decide) u hu

/-- … and the pipeline returns `U0 U1 U2` for the order `U2 U1 U0`, with the second feed larger. -/
example : (fromUnits G1 [2, 1, 0] [0, 0, 0, 5, 0]).toOption.map (fun x => (x.1.flat, x.2)) = some ([0, 1, 2], 0) := by
  decide

end ThermoVerif.Props.C19
