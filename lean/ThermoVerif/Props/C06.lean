import ThermoVerif.Model.ReactionEnergy
import ThermoVerif.Lemmas.ReactionEnergy
import Mathlib.Tactic.Ring
import Mathlib.Tactic.Linarith
import Mathlib.Tactic.FieldSimp
import Mathlib.Algebra.Order.Field.Basic
import Mathlib.Algebra.Order.Ring.Abs
import Mathlib.Tactic.IntervalCases
/-
C06 — Heat of reaction and adiabatic reaction close the energy balance.

Over the model of `Model/ReactionEnergy.lean`, for every ordered field `α` (so for ℚ and ℝ), every chemicals
package, every stoichiometry, conversion, basis, phase tagging, every single / parallel / series reaction and
every system of them, every feed:

* `latent_table`, `latent_ok_eq`, `latent_raises`: the reference-phase × reaction-phase table of `Reaction.dH` is
  the difference of the enthalpy levels solid = 0, liquid = Hfus, gas = Hfus + Hvap(298.15 K), by exhaustive cases;
* `dH_formula`: `Reaction.dH = X · Σ ν (Hf + latent)/w`, `w` = 1 (mol) or MW (wt); `dH_defined` / `dH_raises` say when
  the property raises instead;
* `dH_basis_agree`: `dH_wt · MW_reactant = dH_mol` for the reaction converted by `set_reaction_basis`;
* `isothermal_identity` (+ `_dH`, `_stream`, `_untagged`, `_single`): reacting isothermally changes `Hnet = H + Hf·n`
  by `Σ_k dH_k·(reactant seen by reaction k)` plus the difference of the mixture enthalpy `H` net of the latent part
  already counted in `dH` — for any temperature, with `H` a parameter;
* `isothermal_at_reference`: where the mixture enthalpy is the latent one (the reference temperature; in particular
  where it vanishes because every reacting chemical is in its reference phase) the change is exactly
  `Σ_k dH_k·feed_k`;
* `adiabatic_sensible_heat`: after `adiabatic_reaction(stream, Q)` the mixture enthalpy has risen by `Q` minus the heat of
  reaction `Σ_k dH_k·feed_k` (net of its latent part), within the residual ε of the `H` setter — the heat released goes
  into sensible heat; this combines the adiabatic bookkeeping with the tracked change of `Hf`;
* `adiabatic_balance`, `adiabatic_exact`: **definitional** — with the model's `target := (Hnet_before + Q) − Hf(n′)` the
  balance residual *is* the setter residual (one `ring` step).  They record what the model's definition means; that the
  code computes this target (Q counted once for a system, `Hf` taken after the reaction, `Hnet` saved before) is decided
  per run by the correspondence of the `target` / `resid` fields and by the oracle on the real stream, not by proof;
* `clamp_bound`: what the feasibility step may add when it zeroes negligible negatives (≤ Cmax · tol).

Level, stated plainly.  The mixture enthalpy `H` is a *parameter* (free in `isothermal_identity`): what is proved is the
bookkeeping of `Hf` and `dH` through every reaction structure.  "Changes by exactly that heat" is a statement about `H` too:
`isothermal_at_reference` gives it under the hypothesis that `H` at the reaction temperature is linear with the latent heats
of `dH` as coefficients.  Real thermosteam meets that hypothesis at 298.15 K for chemicals in their reference phase (`H ≡ 0`
there; judged by the oracle on every such case) and does NOT meet it for chemicals tagged outside their reference phase
(`H(g, 298.15 K)` is built from `Hvap(Tb)` and heat-capacity integrals, ≈ 0.5 % off `Hvap(298.15 K)` for water and > 10 % for
supercritical gases tagged liquid): there the exact clause is not claimed, the deviation is measured and reported only.
That `rxn(stream)` leaves T, P and phase untouched ("isothermally") is outside the model and decided by the oracle.
-/
set_option linter.unusedSectionVars false
set_option linter.unusedVariables false

namespace ThermoVerif.Props.C06
open ThermoVerif.ReactionEnergy

variable {α : Type} [Field α] [LinearOrder α] [IsStrictOrderedRing α]

/-! ### 1. The latent-heat table -/

/-- Every one of the 3 × 3 (reference phase, reaction phase) entries is the level difference. -/
theorem latent_table (hvap hfus : α) (ref ph : Phase) (hr : Std ref) (hp : Std ph) :
    latent hvap hfus ref ph = .ok (level hvap hfus ph - level hvap hfus ref) :=
  latent_level_of_std hvap hfus ref ph hr hp

/-- Whenever the table answers (including the no-lookup case `ref = ph`), the answer is the level difference. -/
theorem latent_ok_eq (hvap hfus : α) (ref ph : Phase) (v : α) (h : latent hvap hfus ref ph = .ok v) :
    v = level hvap hfus ph - level hvap hfus ref :=
  latent_level_of_ok hvap hfus ref ph v h

/-- It raises exactly for a phase change that involves a phase outside {s, l, g}. -/
theorem latent_raises (hvap hfus : α) (ref ph : Phase) :
    (∃ e, latent hvap hfus ref ph = .error e) ↔ (ref ≠ ph ∧ ¬ (Std ref ∧ Std ph)) := by
  cases ref <;> cases ph <;> simp [latent, Std]

/-- The table is antisymmetric and path-independent (Hess): a consequence of being a level difference. -/
theorem latent_path (hvap hfus : α) (a b c : Phase) (ha : Std a) (hb : Std b) (hc : Std c) (x y z : α)
    (hx : latent hvap hfus a b = .ok x) (hy : latent hvap hfus b c = .ok y) (hz : latent hvap hfus a c = .ok z) :
    z = x + y := by
  rw [latent_ok_eq _ _ _ _ _ hx, latent_ok_eq _ _ _ _ _ hy, latent_ok_eq _ _ _ _ _ hz]; ring

/-! ### 2. `Reaction.dH` -/

/-- **dH_formula.** Whenever `Reaction.dH` returns, it is the conversion times the stoichiometry-weighted sum of the
heats of formation plus the latent heats between reference phase and tagged phase, per unit mass on the weight basis. -/
theorem dH_formula (pkg : Pkg α) (basis : Basis) (phases : List Phase) (r : Rxn α) (d : α)
    (h : dH pkg basis phases r = .ok d) :
    d = r.X * sumN (fun s => get r.nu s * ((get pkg.hf (s % pkg.N) + Lam pkg phases s) / wOf pkg basis s))
                   (nSpecies pkg phases) := by
  unfold dH at h
  cases hl : latVec pkg phases r.nu with
  | error e => rw [hl] at h; cases h
  | ok lat =>
    rw [hl] at h
    simp only [Except.ok.injEq] at h
    subst h
    obtain ⟨_, hi⟩ := collect_ok _ _ _ hl
    unfold dHcore
    congr 1
    apply sumN_congr
    intro s hs
    by_cases h0 : get r.nu s = 0
    · simp [h0]
    · have := latS_ok_eq pkg phases r.nu s _ (hi s hs) h0
      cases basis <;> simp only [coef, wOf, this] <;> ring

/-- `dH` returns when every species it touches is valid … -/
theorem dH_defined (pkg : Pkg α) (basis : Basis) (phases : List Phase) (r : Rxn α)
    (h : ∀ s, s < nSpecies pkg phases → ValidAt pkg phases r.nu s) : ∃ d, dH pkg basis phases r = .ok d := by
  have hv : ∀ s, s < nSpecies pkg phases →
      latS pkg phases r.nu s = .ok ((fun s => match latS pkg phases r.nu s with | .ok v => v | .error _ => 0) s) := by
    intro s hs
    obtain ⟨v, hv⟩ := latS_defined pkg phases r.nu s (h s hs)
    simp [hv]
  have := collect_of_ok _ _ _ hv
  unfold dH latVec
  rw [this]
  exact ⟨_, rfl⟩

/-- … and raises (the code's `RuntimeError`) as soon as one is not. -/
theorem dH_raises (pkg : Pkg α) (basis : Basis) (phases : List Phase) (r : Rxn α) (s : Nat)
    (hs : s < nSpecies pkg phases) (h : ¬ ValidAt pkg phases r.nu s) : ∃ e, dH pkg basis phases r = .error e := by
  cases hd : dH pkg basis phases r with
  | error e => exact ⟨e, rfl⟩
  | ok d =>
    exfalso
    unfold dH at hd
    cases hl : latVec pkg phases r.nu with
    | error e => rw [hl] at hd; cases hd
    | ok lat =>
      obtain ⟨_, hi⟩ := collect_ok _ _ _ hl
      have hok := hi s hs
      apply h
      unfold ValidAt
      by_cases h0 : get r.nu s = 0
      · exact Or.inl h0
      · refine Or.inr ?_
        intro ph hp
        unfold latS at hok
        rw [hp] at hok
        simp only [h0, if_false] at hok
        by_cases heq : refOf pkg (s % pkg.N) = ph
        · exact Or.inl heq
        · refine Or.inr ?_
          by_contra hn
          have := (latent_raises (get pkg.hvap (s % pkg.N)) (get pkg.hfus (s % pkg.N)) (refOf pkg (s % pkg.N)) ph).mpr ⟨heq, hn⟩
          obtain ⟨e, he⟩ := this
          rw [he] at hok
          cases hok

/-- **dH_basis_agree.**  Changing the basis of a reaction (`set_reaction_basis`: `ν ← ν ⊙ MW`, rescaled so that the
reactant coefficient is −1 again, i.e. divided by the reactant's `MW`) turns J per mol of reactant into J per g of
reactant: `dH_wt · MW_reactant = dH_mol`, so the heat released `dH · (reactant fed)` does not depend on the basis. -/
theorem dH_basis_agree (pkg : Pkg α) (S : Nat) (lat : List α) (r : Rxn α) (mwr : α) (hmwr : mwr ≠ 0)
    (hmw : ∀ s, s < S → weight pkg s ≠ 0) :
    dHcore pkg .wt S lat { nu := tab S (fun s => get r.nu s * weight pkg s / mwr), r := r.r, X := r.X } * mwr
      = dHcore pkg .mol S lat r := by
  unfold dHcore
  simp only
  rw [mul_assoc, mul_comm (sumN _ S) mwr, ← sumN_mul_left mwr]
  congr 1
  apply sumN_congr
  intro s hs
  have hw := hmw s hs
  rw [get_tab _ hs]
  simp only [coef, weight] at hw ⊢
  field_simp

/-! ### 3. Isothermal reaction -/

/-- **isothermal_identity** (in the reaction's basis units `m`: kmol/hr or kg/hr).  For every system of single /
parallel / series reactions, every feed, every latent vectors, and *any* mixture-enthalpy values `H0` (before) and
`H1` (after, at the same temperature):
`Hnet(after) − Hnet(before) = Σ_k dH_k·feed_k + (H1 − H0 − latent part)`. -/
theorem isothermal_identity (pkg : Pkg α) (basis : Basis) (S : Nat) (bs : List (Block α)) (m : List α)
    (lat : Rxn α → List α) (H0 H1 : α) :
    (H1 + dotN S (hfB pkg basis S) (applySys S bs m)) - (H0 + dotN S (hfB pkg basis S) m)
      = heatSys (fun r => dHcore pkg basis S (lat r) r) S bs m
        + ((H1 - H0) - heatSys (fun r => lin S (latB pkg basis S (lat r)) r) S bs m) := by
  rw [dotN_applySys]
  have : heatSys (fun r => dHcore pkg basis S (lat r) r) S bs m
       = heatSys (lin S (hfB pkg basis S)) S bs m + heatSys (fun r => lin S (latB pkg basis S (lat r)) r) S bs m := by
    rw [← heatSys_add]
    apply heatSys_congr
    intro r _
    exact dHcore_split pkg basis S (lat r) r
  rw [this]; ring

/-- The same with the per-reaction heats given by the model's `Reaction.dH` itself: the latent part is `dH` minus its
formation part. -/
theorem isothermal_identity_dH (pkg : Pkg α) (basis : Basis) (phases : List Phase) (bs : List (Block α)) (m : List α)
    (d : Rxn α → α) (hd : ∀ r ∈ sysRxns bs, dH pkg basis phases r = .ok (d r)) (H0 H1 : α) :
    let S := nSpecies pkg phases
    (H1 + dotN S (hfB pkg basis S) (applySys S bs m)) - (H0 + dotN S (hfB pkg basis S) m)
      = heatSys d S bs m + ((H1 - H0) - heatSys (fun r => d r - lin S (hfB pkg basis S) r) S bs m) := by
  intro S
  rw [dotN_applySys]
  have : heatSys d S bs m
       = heatSys (lin S (hfB pkg basis S)) S bs m + heatSys (fun r => d r - lin S (hfB pkg basis S) r) S bs m := by
    rw [← heatSys_add]
    apply heatSys_congr
    intro r _
    ring
  rw [this]; ring

/-- An untagged reaction has no latent part: `ΔHnet = Σ_k dH_k·feed_k + (H1 − H0)` at any temperature. -/
theorem isothermal_untagged (pkg : Pkg α) (basis : Basis) (bs : List (Block α)) (m : List α)
    (d : Rxn α → α) (hd : ∀ r ∈ sysRxns bs, dH pkg basis [] r = .ok (d r)) (H0 H1 : α) :
    (H1 + dotN pkg.N (hfB pkg basis pkg.N) (applySys pkg.N bs m)) - (H0 + dotN pkg.N (hfB pkg basis pkg.N) m)
      = heatSys d pkg.N bs m + (H1 - H0) := by
  have hS : nSpecies pkg [] = pkg.N := by simp [nSpecies]
  have h := isothermal_identity_dH pkg basis [] bs m d hd H0 H1
  simp only [hS] at h
  rw [h]
  have hz : heatSys (fun r => d r - lin pkg.N (hfB pkg basis pkg.N) r) pkg.N bs m
          = heatSys (fun _ => (0 : α)) pkg.N bs m := by
    apply heatSys_congr
    intro r hr
    have hr' := hd r hr
    unfold dH at hr'
    cases hl : latVec pkg [] r.nu with
    | error e => rw [hl] at hr'; cases hr'
    | ok lat =>
      rw [hl] at hr'
      simp only [Except.ok.injEq] at hr'
      obtain ⟨_, hi⟩ := collect_ok _ _ _ hl
      rw [← hr', hS, dHcore_split]
      have : lin pkg.N (latB pkg basis pkg.N lat) r = 0 := by
        unfold lin dotN
        have : sumN (fun i => get (latB pkg basis pkg.N lat) i * get r.nu i) pkg.N = sumN (fun _ => (0 : α)) pkg.N := by
          apply sumN_congr
          intro s hs
          have h1 := hi s (by rw [hS]; exact hs)
          unfold latS at h1
          simp only [List.getElem?_nil] at h1
          have h2 : get lat s = 0 := by
            simp only [Except.ok.injEq] at h1
            exact h1.symm
          unfold latB
          rw [get_tab _ hs]
          cases basis <;> simp [coef, h2, get_nil]
        rw [this, sumN_zero]; ring
      rw [this]; ring
  rw [hz, heatSys_zero]; ring

/-- **isothermal_at_reference.**  If at the temperature of the reaction the mixture enthalpy is linear in the flows with
per-species coefficients `h` that, on every species a reaction touches, equal the latent heats counted in its `dH`
(this is the reference temperature 298.15 K; in particular `h = 0` there when every reacting chemical is in its
reference phase), then the change of `Hnet` is *exactly* `Σ_k dH_k·feed_k`. -/
theorem isothermal_at_reference (pkg : Pkg α) (basis : Basis) (S : Nat) (bs : List (Block α)) (m : List α)
    (lat : Rxn α → List α) (h : List α) (H0 H1 : α)
    (hagree : ∀ r ∈ sysRxns bs, ∀ s, s < S → get r.nu s ≠ 0 → get h s = get (latB pkg basis S (lat r)) s)
    (hH0 : H0 = dotN S h m) (hH1 : H1 = dotN S h (applySys S bs m)) :
    (H1 + dotN S (hfB pkg basis S) (applySys S bs m)) - (H0 + dotN S (hfB pkg basis S) m)
      = heatSys (fun r => dHcore pkg basis S (lat r) r) S bs m := by
  rw [isothermal_identity pkg basis S bs m lat H0 H1]
  have : H1 - H0 = heatSys (fun r => lin S (latB pkg basis S (lat r)) r) S bs m := by
    rw [hH0, hH1, dotN_applySys]
    have : heatSys (lin S h) S bs m = heatSys (fun r => lin S (latB pkg basis S (lat r)) r) S bs m := by
      apply heatSys_congr
      intro r hr
      exact lin_congr_support S h _ r (hagree r hr)
    rw [this]; ring
  rw [this]; ring

/-- Special case named in the property: every reacting chemical in its reference phase (no latent heat in `dH`) and a
mixture enthalpy that does not change (it is identically zero at the reference state): `ΔHnet = Σ_k dH_k·feed_k`. -/
theorem isothermal_at_reference_state (pkg : Pkg α) (basis : Basis) (S : Nat) (bs : List (Block α)) (m : List α)
    (H0 H1 : α) (hH : H1 = H0) :
    (H1 + dotN S (hfB pkg basis S) (applySys S bs m)) - (H0 + dotN S (hfB pkg basis S) m)
      = heatSys (fun r => dHcore pkg basis S [] r) S bs m := by
  rw [isothermal_identity pkg basis S bs m (fun _ => []) H0 H1]
  have : heatSys (fun r => lin S (latB pkg basis S []) r) S bs m = heatSys (fun _ => (0 : α)) S bs m := by
    apply heatSys_congr
    intro r _
    unfold lin dotN
    have : sumN (fun i => get (latB pkg basis S []) i * get r.nu i) S = sumN (fun _ => (0 : α)) S := by
      apply sumN_congr
      intro s hs
      unfold latB
      rw [get_tab _ hs]; ring
    rw [this, sumN_zero]; ring
  rw [this, heatSys_zero, hH]; ring

/-- One reaction: `ΔHnet = dH · (reactant fed) + …` — the sentence of the property. -/
theorem isothermal_single (pkg : Pkg α) (basis : Basis) (S : Nat) (r : Rxn α) (m : List α) (lat : List α) (H0 H1 : α) :
    (H1 + dotN S (hfB pkg basis S) (applyOne S r m)) - (H0 + dotN S (hfB pkg basis S) m)
      = dHcore pkg basis S lat r * get m r.r
        + ((H1 - H0) - lin S (latB pkg basis S lat) r * get m r.r) := by
  have := isothermal_identity pkg basis S [.single r] m (fun _ => lat) H0 H1
  simpa [applySys, applyBlock, heatSys, heatBlock] using this

/-! ### 4. Streams: molar flows, the weight basis routed through mass flows, the feasibility step -/

/-- The call raises `InfeasibleRegion` exactly when the negative flows sum below `-tol`. -/
theorem infeasible_iff (tol : α) (pkg : Pkg α) (basis : Basis) (S : Nat) (bs : List (Block α)) (n : List α) :
    (∃ e, reactStream tol pkg basis S bs n = .error e)
      ↔ negSum S (applySys S bs (toBasis pkg basis S n)) < -tol := by
  unfold reactStream feas
  by_cases h : negSum S (applySys S bs (toBasis pkg basis S n)) < -tol <;> simp [h]

/-- **isothermal_identity_stream.**  `rxn(stream)` on molar flows `n` (either basis): whenever the call returns and no
flow had to be clamped, `Hnet(n′) − Hnet(n) = Σ_k dH_k·feed_k + (H1 − H0 − latent part)` with the feeds in basis
units (kmol/hr of reactant on the molar basis, kg/hr on the weight basis). -/
theorem isothermal_identity_stream (tol : α) (pkg : Pkg α) (basis : Basis) (S : Nat) (bs : List (Block α))
    (n n' : List α) (lat : Rxn α → List α) (H0 H1 : α)
    (hr : reactStream tol pkg basis S bs n = .ok n')
    (hpos : ∀ s, s < S → ¬ get (applySys S bs (toBasis pkg basis S n)) s < 0)
    (hw : basis = .wt → ∀ s, s < S → weight pkg s ≠ 0) :
    hnet pkg S H1 n' - hnet pkg S H0 n
      = heatSys (fun r => dHcore pkg basis S (lat r) r) S bs (toBasis pkg basis S n)
        + ((H1 - H0) - heatSys (fun r => lin S (latB pkg basis S (lat r)) r) S bs (toBasis pkg basis S n)) := by
  unfold reactStream feas at hr
  by_cases hneg : negSum S (applySys S bs (toBasis pkg basis S n)) < -tol
  · simp [hneg] at hr
  · simp only [hneg, if_false, Except.ok.injEq] at hr
    subst hr
    unfold hnet
    rw [hfStream_fromBasis, dotN_clamp_of_nonneg _ _ _ hpos, ← hfStream_toBasis pkg basis S n hw]
    exact isothermal_identity pkg basis S bs (toBasis pkg basis S n) lat H0 H1

/-- What the feasibility step can add: zeroing negatives whose sum is ≥ −tol moves a linear functional with
coefficients bounded by `Cmax` by at most `Cmax · tol`. -/
theorem clamp_bound (S : Nat) (c m : List α) (Cmax tol : α) (hC0 : 0 ≤ Cmax) (hc : ∀ s, s < S → |get c s| ≤ Cmax)
    (hneg : ¬ negSum S m < -tol) : |dotN S c (clamp S m) - dotN S c m| ≤ Cmax * tol := by
  have hC : ∀ k, k ≤ S → |sumN (fun i => get c i * get (clamp S m) i) k - sumN (fun i => get c i * get m i) k|
      ≤ Cmax * (-(sumN (fun s => if get m s < 0 then get m s else 0) k)) ∧
      (sumN (fun s => if get m s < 0 then get m s else 0) k) ≤ 0 := by
    intro k
    induction k with
    | zero => intro _; simp [sumN]
    | succ j ih =>
      intro hj
      have hjS : j < S := hj
      obtain ⟨ih1, ih2⟩ := ih (Nat.le_of_lt hjS)
      have hCj := hc j hjS
      simp only [sumN]
      unfold clamp
      rw [get_tab _ hjS]
      by_cases hlt : get m j < 0
      · simp only [hlt, if_true]
        constructor
        · have e : sumN (fun i => get c i * get (tab S fun s => if get m s < 0 then 0 else get m s) i) j + get c j * 0
                  - (sumN (fun i => get c i * get m i) j + get c j * get m j)
                = (sumN (fun i => get c i * get (clamp S m) i) j - sumN (fun i => get c i * get m i) j)
                  + (- (get c j * get m j)) := by unfold clamp; ring
          rw [e]
          have h2 : |-(get c j * get m j)| ≤ Cmax * (-(get m j)) := by
            rw [abs_neg, abs_mul, abs_of_neg hlt]
            exact mul_le_mul_of_nonneg_right hCj (by linarith)
          calc _ ≤ |sumN (fun i => get c i * get (clamp S m) i) j - sumN (fun i => get c i * get m i) j|
                    + |-(get c j * get m j)| := abs_add_le _ _
            _ ≤ Cmax * (-(sumN (fun s => if get m s < 0 then get m s else 0) j)) + Cmax * (-(get m j)) := add_le_add ih1 h2
            _ = _ := by ring
        · linarith
      · simp only [hlt, if_false]
        constructor
        · have e : sumN (fun i => get c i * get (tab S fun s => if get m s < 0 then 0 else get m s) i) j + get c j * get m j
                  - (sumN (fun i => get c i * get m i) j + get c j * get m j)
                = (sumN (fun i => get c i * get (clamp S m) i) j - sumN (fun i => get c i * get m i) j) := by
            unfold clamp; ring
          rw [e]
          calc _ ≤ Cmax * (-(sumN (fun s => if get m s < 0 then get m s else 0) j)) := ih1
            _ = _ := by ring
        · linarith
  obtain ⟨h1, _⟩ := hC S (Nat.le_refl S)
  unfold negSum at hneg
  have hneg := not_lt.mp hneg
  unfold dotN
  calc _ ≤ Cmax * (-(sumN (fun s => if get m s < 0 then get m s else 0) S)) := h1
    _ ≤ Cmax * tol := mul_le_mul_of_nonneg_left (by linarith) hC0

/-! ### 5. Adiabatic reaction -/

/-- **adiabatic_balance.**  `H` (the mixture enthalpy as a function of flows and temperature) and `setH` (the
temperature the `H` setter ends at, for given flows and target) are arbitrary.  If the setter meets its target within
`ε`, then after `adiabatic_reaction(stream, Q)` the total enthalpy including formation is within `ε` of its value
before plus the heat input. -/
theorem adiabatic_balance {τ : Type} (H : List α → τ → α) (setH : List α → α → τ)
    (tol : α) (pkg : Pkg α) (basis : Basis) (S : Nat) (bs : List (Block α)) (T0 : τ) (Q ε : α)
    (n n' : List α) (target : α)
    (h : adiabatic tol pkg basis S bs (H n T0) Q n = .ok (n', target))
    (hset : |H n' (setH n' target) - target| ≤ ε) :
    |hnet pkg S (H n' (setH n' target)) n' - (hnet pkg S (H n T0) n + Q)| ≤ ε := by
  obtain ⟨_, ht⟩ := adiabatic_flows tol pkg basis S bs (H n T0) Q n n' target h
  have : hnet pkg S (H n' (setH n' target)) n' - (hnet pkg S (H n T0) n + Q) = H n' (setH n' target) - target := by
    rw [ht]; unfold hnet; ring
  rw [this]; exact hset

/-- With an exact setter the balance is exact. -/
theorem adiabatic_exact {τ : Type} (H : List α → τ → α) (setH : List α → α → τ)
    (tol : α) (pkg : Pkg α) (basis : Basis) (S : Nat) (bs : List (Block α)) (T0 : τ) (Q : α)
    (n n' : List α) (target : α)
    (h : adiabatic tol pkg basis S bs (H n T0) Q n = .ok (n', target))
    (hset : H n' (setH n' target) = target) :
    hnet pkg S (H n' (setH n' target)) n' = hnet pkg S (H n T0) n + Q := by
  have := adiabatic_balance H setH tol pkg basis S bs T0 Q 0 n n' target h (by simp [hset])
  have h0 := abs_nonpos_iff.mp this
  linarith

/-- **adiabatic_sensible_heat.**  Whenever `adiabatic_reaction` returns without clamping, the mixture enthalpy after it
exceeds the one before by the heat input minus the heat of reaction (net of the latent part already inside `dH`), within
the setter's residual: the reaction heat turns into sensible heat.  (`m` = the feed in basis units.) -/
theorem adiabatic_sensible_heat {τ : Type} (H : List α → τ → α) (setH : List α → α → τ)
    (tol : α) (pkg : Pkg α) (basis : Basis) (S : Nat) (bs : List (Block α)) (T0 : τ) (Q ε : α)
    (n n' : List α) (target : α) (lat : Rxn α → List α)
    (h : adiabatic tol pkg basis S bs (H n T0) Q n = .ok (n', target))
    (hset : |H n' (setH n' target) - target| ≤ ε)
    (hpos : ∀ s, s < S → ¬ get (applySys S bs (toBasis pkg basis S n)) s < 0)
    (hw : basis = .wt → ∀ s, s < S → weight pkg s ≠ 0) :
    |(H n' (setH n' target) - H n T0)
      - (Q - (heatSys (fun r => dHcore pkg basis S (lat r) r) S bs (toBasis pkg basis S n)
              - heatSys (fun r => lin S (latB pkg basis S (lat r)) r) S bs (toBasis pkg basis S n)))| ≤ ε := by
  obtain ⟨hr, ht⟩ := adiabatic_flows tol pkg basis S bs (H n T0) Q n n' target h
  have hid := isothermal_identity_stream tol pkg basis S bs n n' lat (H n T0) (H n T0) hr hpos hw
  unfold hnet at hid ht
  have : (H n' (setH n' target) - H n T0)
      - (Q - (heatSys (fun r => dHcore pkg basis S (lat r) r) S bs (toBasis pkg basis S n)
              - heatSys (fun r => lin S (latB pkg basis S (lat r)) r) S bs (toBasis pkg basis S n)))
      = H n' (setH n' target) - target := by
    rw [ht]; linarith [hid]
  rw [this]; exact hset

/-! ### 6. Non-vacuity: a concrete package over ℚ (CH4, O2, CO2, H2O; methane combustion) -/

section Examples

def pkgEx : Pkg ℚ :=
  { N := 4, hf := [-74534, 0, -393474, -285825], mw := [16, 32, 44, 18],
    hvap := [0, 0, 5265, 43987], hfus := [940, 440, 9020, 6010], ref := [.g, .g, .g, .l] }

/-- CH4 + 2 O2 → CO2 + 2 H2O, reactant CH4, X = 1/2 -/
def rEx : Rxn ℚ := { nu := [-1, -2, 1, 2], r := 0, X := 1 / 2 }

/-- the same, tagged on rows (g, l): CH4,g + 2 O2,g → CO2,g + 2 H2O,g -/
def rExG : Rxn ℚ := { nu := [-1, -2, 1, 2, 0, 0, 0, 0], r := 0, X := 1 / 2 }

/-- … + 2 H2O,l -/
def rExL : Rxn ℚ := { nu := [-1, -2, 1, 0, 0, 0, 0, 2], r := 0, X := 1 / 2 }

-- dH of the untagged reaction, of the gas-water and of the liquid-water tagged reactions (mol), and per gram (wt)

example : (dH pkgEx .mol [] rEx).toOption = some (-445295) := by decide +kernel

example : (dH pkgEx .mol [.g, .l] rExG).toOption = some (-401308) := by decide +kernel

example : (dH pkgEx .mol [.g, .l] rExL).toOption = some (-445295) := by decide +kernel

example : (dH pkgEx .wt [] { nu := [-1, -4, 11 / 4, 9 / 4], r := 0, X := 1 / 2 }).toOption = some (-445295 / 16) := by
  decide +kernel

-- an invalid phase raises

example : (dH pkgEx .mol [.L, .g] { nu := [0, 0, 0, 1, -1, 0, 0, 0], r := 4, X := 1 }).toOption = none := by decide +kernel

-- the hypotheses of `dH_defined` are met by the tagged example

example : ∀ s, s < nSpecies pkgEx [.g, .l] → ValidAt pkgEx [.g, .l] rExG.nu s := by
  intro s hs
  have : s < 8 := hs
  interval_cases s <;> simp [ValidAt, rExG, ReactionEnergy.get, pkgEx, refOf, Std]

-- a feasible feed: 3 CH4, 10 O2, 0 CO2, 1 H2O → 1.5, 7, 1.5, 4; hypotheses of `isothermal_identity_stream` hold

example : (reactStream (1 / 10 ^ 12) pkgEx .mol 4 [.single rEx] [3, 10, 0, 1]).toOption
    = some [3 / 2, 7, 3 / 2, 4] := by decide +kernel

example : ∀ s, s < 4 → ¬ get (applySys 4 [.single rEx] (toBasis pkgEx .mol 4 [3, 10, 0, 1])) s < 0 := by
  decide +kernel

example : ∀ s, s < 4 → weight pkgEx s ≠ 0 := by decide +kernel

-- the identity on that feed with made-up enthalpy values: ΔHnet = dH·n_r + ΔH = −445295·3 + (700 − 500)

example : hnet pkgEx 4 700 [3 / 2, 7, 3 / 2, 4] - hnet pkgEx 4 500 [3, 10, 0, 1] = -445295 * 3 + (700 - 500) := by
  decide +kernel

-- a deficient feed raises

example : (reactStream (1 / 10 ^ 12) pkgEx .mol 4 [.single rEx] [3, 1, 0, 1]).toOption = none := by decide +kernel

-- series after parallel in a system: extents from the running material

example : (reactStream (1 / 10 ^ 12) pkgEx .mol 4 [.par [rEx, rEx], .ser [rEx]] [4, 20, 0, 0]).toOption
    = some [0, 12, 4, 8] := by decide +kernel

-- adiabatic: with the toy enthalpy H(n, T) = T and the exact setter T := target the hypotheses of `adiabatic_exact` hold

example : ∃ n' target, adiabatic (1 / 10 ^ 12) pkgEx .mol 4 [.single rEx] (350 : ℚ) 1000 [3, 10, 0, 1] = .ok (n', target)
    ∧ (fun (_ : List ℚ) (T : ℚ) => T) n' ((fun (_ : List ℚ) (t : ℚ) => t) n' target) = target :=
  ⟨[3 / 2, 7, 3 / 2, 4], 1337235, toOption_some (by decide +kernel), rfl⟩

-- `isothermal_at_reference` with a NON-trivial `h`: gas-tagged water (latent 43987 at species 3 of rows (g, l)); the
-- enthalpy that is linear with those latent coefficients meets every hypothesis, and the conclusion is the exact clause
example :
    let lat : Rxn ℚ → List ℚ := fun _ => [0, 0, 0, 43987, 0, 0, 0, 0]
    let h := latB pkgEx .mol 8 (lat rExG)
    let m : List ℚ := [3, 10, 0, 1, 0, 0, 0, 5]
    get h 3 = 43987 ∧
    (∀ r ∈ sysRxns [.single rExG], ∀ s, s < 8 → get r.nu s ≠ 0 → get h s = get (latB pkgEx .mol 8 (lat r)) s) ∧
    ((dotN 8 h (applySys 8 [.single rExG] m) + dotN 8 (hfB pkgEx .mol 8) (applySys 8 [.single rExG] m))
       - (dotN 8 h m + dotN 8 (hfB pkgEx .mol 8) m) = -401308 * 3) := by
  refine ⟨by decide +kernel, fun _ _ _ _ _ => rfl, by decide +kernel⟩

end Examples

end ThermoVerif.Props.C06
