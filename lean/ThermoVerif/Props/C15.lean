import ThermoVerif.Model.LLESLE
import ThermoVerif.Lemmas.LLESLE
import Mathlib.Tactic.NormNum
import Mathlib.Tactic.SplitIfs
import Mathlib.Logic.Function.Iterate
/-
C15 — liquid-liquid and solid-liquid splits meet their equilibrium and labelling rules.
Theorems over the model `ThermoVerif.LLESLE` for every linearly ordered field `α`
(the driver runs the same definitions on `Float`).

  cache decision   use_cache_sound, call_cache_sound, call_stores_query, history_state,
                   history_cache_sound (all histories, all solvers; one step), cache_chain_drift (n steps: n·tolT),
                   cache_chain_can_drift;
                   for the comparison as first found in the code: use_cache_counterexample,
                   use_cache_composition_counterexample, use_cache_code_partial,
                   use_cache_code_composition_bound
  cached path      cached_path_consistent (same formulae as the solver's closing convention),
                   cached_path_reproduces + bookkeep_two_phase (same composition ⇒ same two phases)
  labelling        top_label, top_label_single
  scaling          lle_scale
  SLE              sle_bounds, sle_only_solute_row, sle_call_moves_only_solute, sle_call_pure,
                   sle_pure_solute_call (hypothesis: only the solute is present), sle_mixture_not_pure,
                   sle_mixture_call_uses_solubility
  solver binding   solver_acts_on_stream (all histories of phase-set changes, retrievals, resets),
                   retrieve_returns_current, phase_change_forgets, repoint_counterexample
  equal activity   equal_activity_at_fixed_point (repaired inner map) + rr_root_sum_one;
                   PARTIAL: the map the code iterates keeps K frozen (inner_code_K_frozen) and has
                   non-equilibrium fixed points (equal_activity_code_counterexample,
                   equal_activity_statement_fails_for_code); the full clause is `equal_activity_statement`.
                   For the iterates the real solvers return (pseudo-equilibrium loop, shgo, differential
                   evolution — parameters of the model) equal activity is residual-monitored by the oracle.
-/
set_option linter.unusedSectionVars false
namespace ThermoVerif.Props.C15
open ThermoVerif.LLESLE
variable {α : Type} [Field α] [LinearOrder α] [IsStrictOrderedRing α]

/-! ## the cache decision -/

/-- **use_cache_sound.**  When the (two-sided) cache test accepts a query, the query asked for
reuse, concerns the same chemicals, its temperature is within `tolT` of the remembered one and every
mole fraction is within `tolZ` of the remembered one: the remembered `K` is never applied to another
temperature or composition. -/
theorem use_cache_sound (tolT tolZ : α) (st : Stored α) (q : Query α)
    (h : useCacheFixed tolT tolZ st q = true) :
    q.useCache = true ∧ st.chems = q.chems ∧ |q.T - st.T| < tolT ∧
      ∀ (i : Nat) a b, st.z[i]? = some a → q.z[i]? = some b → |b - a| < tolZ := by
  unfold useCacheFixed at h
  simp only [Bool.and_eq_true, decide_eq_true_eq, beq_iff_eq] at h
  obtain ⟨⟨⟨h1, h2⟩, h3⟩, h4⟩ := h
  refine ⟨h1, h2, by rwa [absv_eq_abs] at h3, ?_⟩
  intro i a b ha hb
  have := all_zipWith_lt (f := fun x y => absv (x - y)) st.z q.z h4 i a b ha hb
  simp only [absv_eq_abs] at this
  rwa [abs_sub_comm] at this

/-- non-vacuity: a query accepted by the two-sided test -/
example : useCacheFixed (1/1000 : ℚ) (1/100000)
    { chems := [0, 2], T := 300, z := [1/4, 3/4], K := [2, 1/2], phi := 1/2 }
    { useCache := true, chems := [0, 2], T := 300 + 1/2000, z := [1/4, 3/4] } = true := by
  decide +kernel

/-- **use_cache_counterexample.**  The one-sided test the code had (`T - T_last < tol`) accepts a
call at 300 K after a call at 350 K: the remembered coefficients of the higher temperature are reused
(DESIGN.md §8 #19). -/
theorem use_cache_counterexample :
    ∃ (st : Stored ℚ) (q : Query ℚ), useCacheCode (1/1000) (1/100000) st q = true ∧
      ¬ |q.T - st.T| < 1/1000 :=
  ⟨{ chems := [0, 2], T := 350, z := [1/4, 3/4], K := [2, 1/2], phi := 1/2 },
   { useCache := true, chems := [0, 2], T := 300, z := [1/4, 3/4] },
   by decide +kernel, by norm_num⟩

/-- the same for the composition half of the one-sided test: with three chemicals a mole fraction
may have moved by almost twice the tolerance -/
theorem use_cache_composition_counterexample :
    ∃ (st : Stored ℚ) (q : Query ℚ), useCacheCode (1/1000) (1/100000) st q = true ∧
      ∃ (i : Nat) (a b : ℚ), st.z[i]? = some a ∧ q.z[i]? = some b ∧ ¬ |b - a| < 1/100000 :=
  ⟨{ chems := [0, 1, 2], T := 300, z := [1/4, 1/4, 1/2], K := [2, 1/2, 1], phi := 1/2 },
   { useCache := true, chems := [0, 1, 2], T := 300,
     z := [1/4 - 9/1000000, 1/4 - 9/1000000, 1/2 + 18/1000000] },
   by decide +kernel, 2, 1/2, 1/2 + 18/1000000, by simp, by simp, by norm_num⟩

/-- **use_cache_code_partial.**  What the one-sided test does guarantee: if it accepts and the query
is not colder than the remembered call, the temperature is within tolerance; the remembered mole
fractions never exceed the new ones by `tolZ` or more. -/
theorem use_cache_code_partial (tolT tolZ : α) (st : Stored α) (q : Query α)
    (h : useCacheCode tolT tolZ st q = true) :
    q.useCache = true ∧ st.chems = q.chems ∧ (st.T ≤ q.T → 0 ≤ tolT → |q.T - st.T| < tolT) ∧
      ∀ (i : Nat) a b, st.z[i]? = some a → q.z[i]? = some b → a - b < tolZ := by
  unfold useCacheCode at h
  simp only [Bool.and_eq_true, decide_eq_true_eq, beq_iff_eq] at h
  obtain ⟨⟨⟨h1, h2⟩, h3⟩, h4⟩ := h
  refine ⟨h1, h2, ?_, ?_⟩
  · intro hT _
    rw [abs_of_nonneg (sub_nonneg.mpr hT)]; exact h3
  · intro i a b ha hb
    exact all_zipWith_lt (f := fun x y => x - y) st.z q.z h4 i a b ha hb

/-! ## what the one-sided composition test still guarantees -/

/-- **use_cache_code_composition_bound.**  The one-sided composition test is not two-sided
(`use_cache_composition_counterexample`), but because both compositions add up to the same total a
mole fraction accepted by it has moved by less than `tolZ` downwards and by at most `(n - 1)·tolZ`
upwards (`n` chemicals): for two chemicals the one-sided test is as good as the two-sided one. -/
theorem use_cache_code_composition_bound (tolT tolZ : α) (st : Stored α) (q : Query α)
    (h : useCacheCode tolT tolZ st q = true) (hlen : st.z.length = q.z.length)
    (hsum : st.z.sum = q.z.sum) :
    ∀ (i : Nat) a b, st.z[i]? = some a → q.z[i]? = some b →
      a - b < tolZ ∧ b - a + tolZ ≤ st.z.length * tolZ := by
  intro i a b ha hb
  have hd := (use_cache_code_partial tolT tolZ st q h).2.2.2
  refine ⟨hd i a b ha hb, ?_⟩
  have := others_sum_le tolZ st.z q.z hlen hd i a b ha hb
  rw [hsum] at this
  linarith

/-! ## the cached path against the solver's output convention -/

/-- **cached_path_consistent.**  For the same `(K, phi)` the formulae of the cached path
(`y = z K/(phi K + 1 - phi)`, `mol_l = y phi`, `mol_L = mol - mol_l`) give exactly the split that the
solver's closing formula (`mol_L = z/(1 + phi (K - 1)) (1 - phi)`, `mol_l = mol - mol_L`) gives:
both paths put the same phase under the same label. -/
theorem cached_path_consistent (z K : List α) (phi : α) (hphi : phi < 1)
    (hlen : z.length = K.length) (hd : ∀ Ki ∈ K, 1 + phi * (Ki - 1) ≠ 0) :
    cachedSplit z K phi = solveSplit z (solverOut z K phi) := by
  have hl := cached_l_eq z K phi hlen hd
  unfold cachedSplit solveSplit
  rw [if_neg (not_le.mpr hphi)]
  simp only [hl, Prod.mk.injEq, true_and]
  apply vsub_vsub_cancel
  unfold solverOut; simp [hlen]

example : cachedSplit [(1/2 : ℚ), 1/2] [2, 1/2] (1/2) = solveSplit [1/2, 1/2] (solverOut [1/2, 1/2] [2, 1/2] (1/2)) :=
  cached_path_consistent _ _ _ (by norm_num) rfl (by intro k hk; simp at hk; rcases hk with rfl | rfl <;> norm_num)

/-- **cached_path_reproduces.**  If the remembered `K_i = (b_i/B)/(a_i/A)` and `phi = B/(B+A)` were
taken from a split `(mol_l, mol_L) = (a, b)` of the normalised feed `z = a + b` (`A`, `B` the phase
totals, `A + B = 1`), and the Rachford–Rice solver returns that `phi`, then the cached path at the same
composition gives back the same two phases (with the labels exchanged, as the solver path does;
the top-chemical swap then orients them). -/
theorem cached_path_reproduces (a b : List α) (A B : α) (hAB : A + B = 1) (hA : 0 < A) (hB : B ≠ 0)
    (hlen : a.length = b.length) (ha : ∀ v ∈ a, v ≠ 0) (hz : ∀ p ∈ List.zip a b, p.1 + p.2 ≠ 0) :
    cachedSplit (List.zipWith (· + ·) a b) (List.zipWith (fun bi ai => (bi / B) / (ai / A)) b a)
      (B / (B + A)) = (b, a) := by
  have hphi : ¬ (1 ≤ B / (B + A)) := by
    have hBA : B + A = 1 := by rw [add_comm]; exact hAB
    rw [hBA, div_one]; intro h; linarith
  unfold cachedSplit
  rw [if_neg hphi]
  simp only [reproduce_lists A B hAB (ne_of_gt hA) hB a b hlen ha hz, Prod.mk.injEq, true_and]
  exact vsub_add_cancel_left a b hlen

example : cachedSplit (List.zipWith (· + ·) [(1/8 : ℚ), 1/8] [1/4, 1/2])
    (List.zipWith (fun bi ai => (bi / (3/4)) / (ai / (1/4))) [1/4, 1/2] [1/8, 1/8]) ((3/4) / (3/4 + 1/4))
    = ([1/4, 1/2], [1/8, 1/8]) :=
  cached_path_reproduces _ _ _ _ (by norm_num) (by norm_num) (by norm_num) rfl
    (by intro v hv; simp at hv; rcases hv with rfl | rfl <;> norm_num)
    (by intro p hp; simp at hp; rcases hp with rfl | rfl <;> norm_num)

/-! ## top-chemical label -/

/-- **top_label.**  After the swap, whenever both liquids carry mass, the named chemical's mass
fraction in the phase labelled `L` is at least its mass fraction in `l`. -/
theorem top_label (MW l L : List α) (t : Nat) :
    let r := applySwap (topSwap MW (some t) l L) (l, L)
    vsum (vmul r.2 MW) ≠ 0 → vsum (vmul r.1 MW) ≠ 0 → massFrac MW r.1 t ≤ massFrac MW r.2 t := by
  intro r hL hl
  by_cases hsw : topSwap MW (some t) l L = true
  · have hr : r = (L, l) := by simp [r, applySwap, hsw]
    rw [hr] at hL hl ⊢
    simp only at hL hl ⊢
    unfold topSwap at hsw
    simp only [(nz_iff _).mpr hl, (nz_iff _).mpr hL, Bool.and_self, if_true, decide_eq_true_eq] at hsw
    exact le_of_lt hsw
  · have hr : r = (l, L) := by simp [r, applySwap, hsw]
    rw [hr] at hL hl ⊢
    simp only at hL hl ⊢
    unfold topSwap at hsw
    simp only [(nz_iff _).mpr hl, (nz_iff _).mpr hL, Bool.and_self, if_true, decide_eq_true_eq] at hsw
    exact not_lt.mp hsw

/-- **top_label_single.**  With a top chemical named, a result with a single non-empty liquid is
labelled `L`, never `l`. -/
theorem top_label_single (MW l L : List α) (t : Nat) :
    let r := applySwap (topSwap MW (some t) l L) (l, L)
    vsum (vmul r.1 MW) ≠ 0 → vsum (vmul r.2 MW) ≠ 0 := by
  intro r hl hL
  by_cases hsw : topSwap MW (some t) l L = true
  · have hr : r = (L, l) := by simp [r, applySwap, hsw]
    rw [hr] at hL hl
    simp only at hL hl
    unfold topSwap at hsw
    simp only [(nz_iff _).mpr hl, (nz_false_iff _).mpr hL, Bool.and_false, Bool.false_eq_true,
      if_false] at hsw
  · have hr : r = (l, L) := by simp [r, applySwap, hsw]
    rw [hr] at hL hl
    simp only at hL hl
    unfold topSwap at hsw
    simp only [(nz_iff _).mpr hl, (nz_false_iff _).mpr hL, Bool.false_and, Bool.false_eq_true,
      if_false, not_true_eq_false] at hsw

/-- non-vacuity: a split that is exchanged, both phases carrying mass -/
example : topSwap [(18 : ℚ), 114] (some 1) [1/100, 9/10] [9/10, 1/100] = true ∧
    vsum (vmul [(1/100 : ℚ), 9/10] [18, 114]) ≠ 0 ∧ vsum (vmul [(9/10 : ℚ), 1/100] [18, 114]) ≠ 0 := by
  refine ⟨by decide +kernel, by decide +kernel, by decide +kernel⟩

/-! ## the decision inside the whole call, and over histories -/

/-- **call_stores_query.**  Every effective call remembers its own temperature, normalised
composition and chemicals (on the cached path too). -/
theorem call_stores_query (p : Params α) (rr : List α → List α → α → Option α)
    (solve : Option (Stored α) → Query α → List α) (st : Option (Stored α)) (c : CallIn α)
    (h : effective c = true) :
    ∃ s, (call p rr solve st c).1 = some s ∧ s.T = c.T ∧ s.z = normalize c.mol ∧ s.chems = c.chems := by
  unfold effective at h
  unfold call
  simp only [h, Bool.not_true, Bool.false_eq_true, if_false]
  exact ⟨_, rfl, rfl, rfl, rfl⟩

/-- **call_cache_sound.**  If a call takes the cached path, a remembered state exists, concerns the
same chemicals, and the call's temperature and every normalised mole fraction are within the tolerances
of the remembered ones. -/
theorem call_cache_sound (p : Params α) (rr : List α → List α → α → Option α)
    (solve : Option (Stored α) → Query α → List α) (st : Option (Stored α)) (c : CallIn α)
    (h : (call p rr solve st c).2.path = .cache) :
    ∃ s, st = some s ∧ c.useCache = true ∧ s.chems = c.chems ∧ |c.T - s.T| < p.tolT ∧
      ∀ (i : Nat) a b, s.z[i]? = some a → (normalize c.mol)[i]? = some b → |b - a| < p.tolZ := by
  by_cases he : effective c = true
  · unfold effective at he
    unfold call at h
    simp only [he, Bool.not_true, Bool.false_eq_true, if_false] at h
    unfold callCore at h
    cases st with
    | none => simp at h
    | some s =>
      by_cases hh : useCacheFixed p.tolT p.tolZ s
          { useCache := c.useCache, chems := c.chems, T := c.T, z := normalize c.mol } = true
      · exact ⟨s, rfl, use_cache_sound p.tolT p.tolZ s _ hh⟩
      · simp [hh] at h
  · have := (call_not_effective p rr solve st c (by simpa using he)).2
    rw [this] at h; cases h

/-- **history_state.**  After any history of calls starting from a fresh object, the remembered
temperature, composition and chemicals are those of one of the calls of the history (the last effective
one). -/
theorem history_state (p : Params α) (rr : List α → List α → α → Option α)
    (solve : Option (Stored α) → Query α → List α) (P : Stored α → Prop) :
    ∀ (cs : List (CallIn α)) (st : Option (Stored α)), (∀ s, st = some s → P s) →
      ∀ s, runState p rr solve st cs = some s →
        P s ∨ ∃ c0 ∈ cs, effective c0 = true ∧ s.T = c0.T ∧ s.z = normalize c0.mol ∧ s.chems = c0.chems
  | [], st, hP, s, hs => Or.inl (hP s hs)
  | c :: cs, st, hP, s, hs => by
    have hs' : runState p rr solve (call p rr solve st c).1 cs = some s := hs
    have ih := history_state p rr solve
      (fun s => P s ∨ (effective c = true ∧ s.T = c.T ∧ s.z = normalize c.mol ∧ s.chems = c.chems))
      cs (call p rr solve st c).1 ?_ s hs'
    · rcases ih with (h | h) | ⟨c0, hc0, h⟩
      · exact Or.inl h
      · exact Or.inr ⟨c, List.mem_cons_self, h⟩
      · exact Or.inr ⟨c0, List.mem_cons_of_mem _ hc0, h⟩
    · intro s1 hs1
      by_cases he : effective c = true
      · obtain ⟨s2, h2, hT, hz, hc⟩ := call_stores_query p rr solve st c he
        rw [h2] at hs1
        cases hs1
        exact Or.inr ⟨he, hT, hz, hc⟩
      · have := (call_not_effective p rr solve st c (by simpa using he)).1
        rw [this] at hs1
        exact Or.inl (hP s1 hs1)

/-- **history_cache_sound.**  For every history of calls on a fresh object and every solver: if the
next call takes the cached path, then some earlier call of the history (the last effective one) was made
for the same chemicals, at a temperature within `tolT` and at a composition within `tolZ` in every
mole fraction.  This bounds ONE step: that earlier call may itself have been answered from the cache (every
effective call stores its own `T` and `z`, `call_stores_query`), so along a chain of cached calls the `K` of the
first solve is reused while the remembered temperature walks; `cache_chain_drift` gives the bound for the chain
(`n` steps: `n·tolT`) and `cache_chain_can_drift` shows that it can exceed `tolT`. -/
theorem history_cache_sound (p : Params α) (rr : List α → List α → α → Option α)
    (solve : Option (Stored α) → Query α → List α) (cs : List (CallIn α)) (c : CallIn α)
    (h : (call p rr solve (runState p rr solve none cs) c).2.path = .cache) :
    ∃ c0 ∈ cs, effective c0 = true ∧ c0.chems = c.chems ∧ |c.T - c0.T| < p.tolT ∧
      ∀ (i : Nat) a b, (normalize c0.mol)[i]? = some a → (normalize c.mol)[i]? = some b →
        |b - a| < p.tolZ := by
  obtain ⟨s, hs, _, hch, hT, hz⟩ := call_cache_sound p rr solve _ c h
  rcases history_state p rr solve (fun _ => False) cs none (by simp) s hs with hf | ⟨c0, hc0, he, h1, h2, h3⟩
  · exact hf.elim
  · exact ⟨c0, hc0, he, by rw [← h3, hch], by rw [← h1]; exact hT, by rw [← h2]; exact hz⟩

/-- every call of the list takes the cached path when they are made one after the other from `st` -/
def chainCached (p : Params α) (rr : List α → List α → α → Option α)
    (solve : Option (Stored α) → Query α → List α) : Option (Stored α) → List (CallIn α) → Prop
  | _, [] => True
  | st, c :: cs => (call p rr solve st c).2.path = .cache ∧ chainCached p rr solve (call p rr solve st c).1 cs

/-- **cache_chain_drift.**  Along a chain of `n` consecutive cached calls after a remembered state `s0`
(the `K` in use is still the one `s0` held, up to the bookkeeping of the same split), the remembered
temperature has moved by at most `n·tolT` from `s0.T`: the reach of one solve grows linearly with the
length of the chain, it is not bounded by `tolT`. -/
theorem cache_chain_drift (p : Params α) (rr : List α → List α → α → Option α)
    (solve : Option (Stored α) → Query α → List α) :
    ∀ (cs : List (CallIn α)) (s0 : Stored α), chainCached p rr solve (some s0) cs →
      ∀ s, runState p rr solve (some s0) cs = some s → |s.T - s0.T| ≤ cs.length * p.tolT
  | [], s0, _, s, hs => by
    have : s0 = s := by simpa [runState] using hs
    subst this; simp
  | c :: cs, s0, hch, s, hs => by
    obtain ⟨hc, hrest⟩ := hch
    obtain ⟨s', hs', _, _, hT, _⟩ := call_cache_sound p rr solve (some s0) c hc
    cases hs'
    have he : effective c = true := by
      by_contra hne
      have := (call_not_effective p rr solve (some s0) c (by simpa using hne)).2
      rw [this] at hc; cases hc
    obtain ⟨s1, h1, h1T, _, _⟩ := call_stores_query p rr solve (some s0) c he
    rw [h1] at hrest
    have hs1 : runState p rr solve (some s1) cs = some s := by
      have : runState p rr solve (some s0) (c :: cs) = runState p rr solve (call p rr solve (some s0) c).1 cs := rfl
      rw [this, h1] at hs; exact hs
    have ih := cache_chain_drift p rr solve cs s1 hrest s hs1
    rw [h1T] at ih
    have htri : |s.T - s0.T| ≤ |s.T - c.T| + |c.T - s0.T| := by
      have := abs_add_le (s.T - c.T) (c.T - s0.T)
      rwa [sub_add_sub_cancel] at this
    simp only [List.length_cons, Nat.cast_add, Nat.cast_one]
    linarith [le_of_lt hT]

def exP : Params ℚ := { tolT := 1/1000, tolZ := 1/100000, eps := 1/10000000000000000, big := 10000000000000000 }
def exS0 : Stored ℚ := { chems := [0, 2], T := 300, z := [1/4, 3/4], K := [2, 1/2], phi := 1/2 }
def exCs : List (CallIn ℚ) :=
  [{ useCache := true, chems := [0, 2], T := 300 + 9/10000, mol := [1, 3], MW := [18, 114], top := none },
   { useCache := true, chems := [0, 2], T := 300 + 18/10000, mol := [1, 3], MW := [18, 114], top := none }]

/-- **cache_chain_can_drift.**  Two cached calls, each 9/10 of the tolerance warmer than the previous one,
end 18/10 of the tolerance away from the temperature the coefficients were solved at. -/
theorem cache_chain_can_drift :
    chainCached exP (fun _ _ phi => some phi) (fun _ q => q.z.map (· / 4)) (some exS0) exCs ∧
    (runState exP (fun _ _ phi => some phi) (fun _ q => q.z.map (· / 4)) (some exS0) exCs).map (·.T)
      = some (exS0.T + 18/10000) ∧
    ¬ |(exS0.T + 18/10000) - exS0.T| < exP.tolT := by
  refine ⟨⟨by decide +kernel, by decide +kernel, trivial⟩, by decide +kernel, ?_⟩
  simp only [exS0, exP]; norm_num

/-- non-vacuity: a second call 1/2000 K above the first one takes the cached path -/
example :
    (call ({ tolT := 1/1000, tolZ := 1/100000, eps := 1/10000000000000000, big := 10000000000000000 } : Params ℚ)
      (fun _ _ phi => phi) (fun _ q => q.z.map (· / 4))
      (runState { tolT := 1/1000, tolZ := 1/100000, eps := 1/10000000000000000, big := 10000000000000000 }
        (fun _ _ phi => phi) (fun _ q => q.z.map (· / 4)) none
        [{ useCache := true, chems := [0, 2], T := 300, mol := [1, 3], MW := [18, 114], top := some 1 }])
      { useCache := true, chems := [0, 2], T := 300 + 1/2000, mol := [2, 6], MW := [18, 114], top := some 1 }).2.path
      = .cache := by
  decide +kernel

/-! ## scaling the feed -/

/-- **lle_scale.**  Multiplying the feed by `k ≠ 0` leaves the decision, the path, the swap and the
remembered `K`, `phi`, `z` unchanged and multiplies both liquids' flows by `k` — for every solver and
Rachford–Rice routine (they only ever see the normalised feed). -/
theorem lle_scale (p : Params α) (rr : List α → List α → α → Option α)
    (solve : Option (Stored α) → Query α → List α) (st : Option (Stored α)) (c : CallIn α)
    (k : α) (hk : k ≠ 0) :
    let c' : CallIn α := { c with mol := c.mol.map (k * ·) }
    (call p rr solve st c').1 = (call p rr solve st c).1 ∧
    (call p rr solve st c').2.path = (call p rr solve st c).2.path ∧
    (call p rr solve st c').2.swapped = (call p rr solve st c).2.swapped ∧
    (call p rr solve st c').2.l = (call p rr solve st c).2.l.map (k * ·) ∧
    (call p rr solve st c').2.L = (call p rr solve st c).2.L.map (k * ·) := by
  intro c'
  have hcore : ∀ z, callCore p rr solve st c' z = callCore p rr solve st c z := fun z => rfl
  unfold call
  simp only [c', vsum_map_mul, nz_scale k hk, normalize_scale k hk]
  split
  · simp
  · have hc : callCore p rr solve st { c with mol := c.mol.map (k * ·) } (normalize c.mol) =
        callCore p rr solve st c (normalize c.mol) := rfl
    rw [hc]
    refine ⟨rfl, rfl, rfl, ?_, ?_⟩ <;>
    · simp only [vscale, List.map_map]
      apply List.map_congr_left
      intro v _
      simp only [Function.comp]; ring

/-! ## solid-liquid equilibrium -/

/-- **sle_bounds.**  `_update_solubility` writes only the solute entry of the two rows, conserves the
solute, dissolves an amount between `0` and what is present, and for a solubility `0 ≤ x < 1` never
more than the solubility-implied amount `F x/(1 - x)` (`F` the other liquid); in fact exactly the
smaller of the two. -/
theorem sle_bounds (x m : α) (liquid solid : List α) (idx : List Nat) (s : Nat)
    (hm : 0 < m)
    (hF : 0 ≤ vsum (idx.map (fun i => liquid.getD i 0)) - liquid.getD s 0) :
    let F := vsum (idx.map (fun i => liquid.getD i 0)) - liquid.getD s 0
    ∃ d : α, updateSolubility x liquid solid idx s m = (liquid.set s d, solid.set s (m - d)) ∧
      0 ≤ d ∧ d ≤ m ∧ (x < 0 → d = 0) ∧ (0 ≤ x → x < 1 → d = min m (F * x / (1 - x))) := by
  intro F
  have hFm : 0 < F + m := by linarith
  by_cases h1 : x < 0
  · refine ⟨0, ?_, le_refl _, le_of_lt hm, fun _ => rfl, fun h => absurd h1 (not_lt.mpr h)⟩
    simp only [updateSolubility, if_pos h1, sub_zero]
  · by_cases h2 : m / (F + m) ≤ x
    · have h2' : m / (vsum (idx.map (fun i => liquid.getD i 0)) - liquid.getD s 0 + m) ≤ x := h2
      refine ⟨m, ?_, le_of_lt hm, le_refl _, fun h => absurd h h1, ?_⟩
      · simp only [updateSolubility, if_neg h1, if_pos h2', sub_self]
      intro _ hx1
      have h1x : 0 < 1 - x := by linarith
      rw [div_le_iff₀ hFm] at h2
      have : m ≤ F * x / (1 - x) := by
        rw [le_div_iff₀ h1x]; nlinarith
      exact (min_eq_left this).symm
    · have h2' : ¬ m / (vsum (idx.map (fun i => liquid.getD i 0)) - liquid.getD s 0 + m) ≤ x := h2
      have hx : x < m / (F + m) := not_le.mp h2
      have hx0 : 0 ≤ x := not_lt.mp h1
      have hx1 : x < 1 := lt_of_lt_of_le hx (by rw [div_le_one hFm]; linarith)
      have h1x : 0 < 1 - x := by linarith
      rw [lt_div_iff₀ hFm] at hx
      have hd : F * x / (1 - x) < m := by
        rw [div_lt_iff₀ h1x]; nlinarith
      refine ⟨F * x / (1 - x), ?_, ?_, le_of_lt hd, fun h => absurd h h1, ?_⟩
      · simp only [updateSolubility, if_neg h1, if_neg h2', F]
      · exact div_nonneg (mul_nonneg hF hx0) (le_of_lt h1x)
      · intro _ _; exact (min_eq_right (le_of_lt hd)).symm

/-- non-vacuity of `sle_bounds`: 10 mol solvent, 1 mol solute, solubility 1/20 (partly dissolved) -/
example : updateSolubility (1/20 : ℚ) [10, 1] [0, 0] [0, 1] 1 1 = ([10, 10/19], [0, 9/19]) := by
  decide +kernel

/-- **sle_only_solute_row.**  Every entry other than the solute's is untouched, in both phases,
whatever solubility is used. -/
theorem sle_only_solute_row (x m : α) (liquid solid : List α) (idx : List Nat) (s j : Nat) (hj : j ≠ s) :
    (updateSolubility x liquid solid idx s m).1[j]? = liquid[j]? ∧
    (updateSolubility x liquid solid idx s m).2[j]? = solid[j]? := by
  simp only [updateSolubility]
  split_ifs <;> simp [List.getElem?_set_ne hj.symm]

/-- **sle_call_moves_only_solute.**  Whatever branch `SLE.__call__` takes (given solubility, computed
solubility, pure solute), a call that returns leaves every entry other than the solute's as it was. -/
theorem sle_call_moves_only_solute (st st' : SleState) (c : SleIn α) (pure : Bool) (r : List α × List α)
    (h : sleCall st c = .ok (st', pure, r)) (j : Nat) (hj : j ≠ c.solute) :
    r.1[j]? = c.liquid[j]? ∧ r.2[j]? = c.solid[j]? := by
  unfold sleCall at h
  cases hg : c.given with
  | some x =>
    rw [hg] at h
    simp only [Except.ok.injEq, Prod.mk.injEq] at h
    obtain ⟨_, _, rfl⟩ := h
    exact sle_only_solute_row _ _ _ _ _ _ _ hj
  | none =>
    rw [hg] at h
    simp only at h
    split at h
    · simp at h
    · simp only [Except.ok.injEq, Prod.mk.injEq] at h
      obtain ⟨_, _, rfl⟩ := h
      unfold sleRows
      split
      · unfold pureSolute
        split <;> simp [List.getElem?_set_ne hj.symm]
      · exact sle_only_solute_row _ _ _ _ _ _ _ hj

/-- **sle_call_pure.**  When the pure-solute branch runs, the solute is all liquid above the melting
point and all solid at or below it. -/
theorem sle_call_pure (st st' : SleState) (c : SleIn α) (r : List α × List α)
    (h : sleCall st c = .ok (st', true, r)) :
    let m := c.liquid.getD c.solute 0 + c.solid.getD c.solute 0
    (c.Tm < c.T → r = (c.liquid.set c.solute m, c.solid.set c.solute 0)) ∧
    (c.T ≤ c.Tm → r = (c.liquid.set c.solute 0, c.solid.set c.solute m)) := by
  intro m
  unfold sleCall at h
  cases hg : c.given with
  | some x => rw [hg] at h; simp at h
  | none =>
    rw [hg] at h
    simp only at h
    split at h
    · simp at h
    · simp only [Except.ok.injEq, Prod.mk.injEq] at h
      obtain ⟨_, hp, rfl⟩ := h
      rw [hp]
      simp only [sleRows, if_true]
      exact sle_pure_solute c.T c.Tm m c.liquid c.solid c.solute

/-- **sle_mixture_not_pure.**  When the solver is set up for a set of chemicals it was not last set up
for and more than one chemical takes part, the pure-solute mode is OFF, whatever happened on this
stream before: a solute that is not alone is dissolved according to a solubility, never by the
melting-point rule. -/
theorem sle_mixture_not_pure (st : SleState) (nonzero idx : List Nat) (hidx : idx.length ≠ 1)
    (hst : st.nonzero ≠ some nonzero) : (sleSetup st nonzero idx).pure = false := by
  unfold sleSetup
  have h : ¬ (st.nonzero == some nonzero) = true := by simpa using hst
  rw [if_neg h]; simp [hidx]

/-- **sle_mixture_call_uses_solubility.**  A computed-solubility call on a mixture (more than one chemical
takes part) whose set of chemicals differs from the one last set up for returns the rows of
`_update_solubility` at the computed solubility: dissolved = min(present, F·x/(1-x)) by `sle_bounds`. -/
theorem sle_mixture_call_uses_solubility (st : SleState) (c : SleIn α) (hg : c.given = none)
    (hidx : c.idx.length ≠ 1) (hst : st.nonzero ≠ some c.nonzero)
    (hm : c.liquid.getD c.solute 0 + c.solid.getD c.solute 0 ≠ 0) :
    sleCall st c = .ok (sleSetup st c.nonzero c.idx, false,
      updateSolubility c.computed c.liquid c.solid c.idx c.solute
        (c.liquid.getD c.solute 0 + c.solid.getD c.solute 0)) := by
  have hp := sle_mixture_not_pure st c.nonzero c.idx hidx hst
  have hnz : nz (c.liquid.getD c.solute 0 + c.solid.getD c.solute 0) = true := (nz_iff _).mpr hm
  unfold sleCall
  rw [hg]
  simp only [hnz, Bool.not_true, Bool.false_eq_true, if_false, hp, sleRows]

/-- **sle_pure_solute_call.**  The clause as the property states it: when ONLY the solute is present
(`idx` has one entry), no solubility is given and the amount is non-zero, a call on an SLE object that is
fresh, or has last set up another set of chemicals, or already took the pure-solute branch, puts the solute
entirely in the liquid above its melting point and entirely in the solid at or below it. -/
theorem sle_pure_solute_call (st : SleState) (c : SleIn α) (hg : c.given = none) (hidx : c.idx.length = 1)
    (hm : c.liquid.getD c.solute 0 + c.solid.getD c.solute 0 ≠ 0)
    (hst : st.nonzero ≠ some c.nonzero ∨ st.pure = true) :
    let m := c.liquid.getD c.solute 0 + c.solid.getD c.solute 0
    (c.Tm < c.T → sleCall st c =
        .ok (sleSetup st c.nonzero c.idx, true, (c.liquid.set c.solute m, c.solid.set c.solute 0))) ∧
    (c.T ≤ c.Tm → sleCall st c =
        .ok (sleSetup st c.nonzero c.idx, true, (c.liquid.set c.solute 0, c.solid.set c.solute m))) := by
  intro m
  have hp := sleSetup_pure st c.nonzero c.idx hidx hst
  have hnz : nz m = true := (nz_iff m).mpr hm
  have hcall : sleCall st c = .ok (sleSetup st c.nonzero c.idx, true,
      pureSolute c.T c.Tm c.liquid c.solid c.solute m) := by
    unfold sleCall
    rw [hg]
    simp only [m] at hnz
    simp only [hnz, Bool.not_true, Bool.false_eq_true, if_false, hp, sleRows, if_true]
    rfl
  rw [hcall]
  constructor
  · intro h; rw [(sle_pure_solute c.T c.Tm m c.liquid c.solid c.solute).1 h]
  · intro h; rw [(sle_pure_solute c.T c.Tm m c.liquid c.solid c.solute).2 h]

/-- non-vacuity: a fresh object (`st.nonzero = none`), 30 mol of the solute only -/
example : (({} : SleState).nonzero ≠ some [1] ∨ ({} : SleState).pure = true) ∧ ([1] : List Nat).length = 1 ∧
    ([(0 : ℚ), 30].getD 1 0 + [(0 : ℚ), 0].getD 1 0 ≠ 0) := by
  refine ⟨Or.inl (by decide), rfl, by decide +kernel⟩

/-- non-vacuity: a fresh SLE object, only the solute present, below the melting point -/
example : (sleCall ({} : SleState)
    ({ solute := 1, T := 300, Tm := 312, given := none, computed := 0, liquid := [0, 30], solid := [0, 0],
       nonzero := [1], idx := [1], all := [0, 1] } : SleIn ℚ)).toOption.map (fun r => (r.1.pure, r.2.1, r.2.2))
    = some (true, true, ([0, 0], [0, 30])) := by
  decide +kernel

/-! ## equal activities -/

/-- **equal_activity_at_fixed_point.**  At a fixed point `(log K, gamma_y)` of the pseudo-equilibrium
inner map (with its `log K` half updated, `innerFixed`) whose phase fraction solves the Rachford–Rice
equation (`Σ K_i x_i = 1`, see `rr_root_sum_one`), every chemical has the same activity in both liquids:
`x_i γ_i(x) = y_i γ_i(y)`.  `exp`/`log` are abstract; only `exp (log v) = v` on the `K` values is used. -/
theorem equal_activity_at_fixed_point (gamma : List α → List α) (exp log : α → α)
    (z lk gy : List α) (phi : α)
    (hfix : innerFixed gamma exp log z phi (lk, gy) = (lk, gy)) :
    let x := xOf z (lk.map exp) phi
    let y := yOf x (gamma x) gy
    (∀ v ∈ List.zipWith (· / ·) (gamma x) (gamma y), exp (log v) = v) →
    (gamma x).length = x.length → gy.length = x.length → (∀ g ∈ gy, g ≠ 0) →
    vsum (vmul (lk.map exp) x) = 1 →
    vmul x (gamma x) = vmul y (gamma y) := by
  intro x y hexp h1 h2 hg hrr
  have hK : (List.zipWith (· / ·) (gamma x) (gamma y)).map log = lk := (Prod.mk.inj hfix).1
  have hGy : gamma y = gy := (Prod.mk.inj hfix).2
  have hKexp : lk.map exp = List.zipWith (· / ·) (gamma x) gy := by
    rw [← hGy]
    conv_lhs => rw [← hK]
    rw [List.map_map]
    conv_rhs => rw [← List.map_id (List.zipWith (· / ·) (gamma x) (gamma y))]
    apply List.map_congr_left
    intro v hv
    simp only [Function.comp, id]
    exact hexp v hv
  have hy : y = vmul (List.zipWith (· / ·) (gamma x) gy) x := by
    show normalize (vmul (List.zipWith (· / ·) (gamma x) gy) x) = _
    unfold normalize
    rw [← hKexp, hrr]
    simp
  rw [hGy, hy]
  exact (activity_lists x (gamma x) gy h1 h2 hg).symm

/-- non-vacuity: a two-chemical system with a composition-dependent `gamma` and a genuine (non-trivial)
fixed point `x = (1/3, 2/3)`, `y = (2/3, 1/3)`, `K = (2, 1/2)`, `phi = 1/2` (here `exp = log = id`) -/
def gammaEx : List ℚ → List ℚ := fun v =>
  if v = [1/3, 2/3] then [2, 1] else if v = [2/3, 1/3] then [1, 2] else [1, 1]

example : innerFixed gammaEx id id [1/2, 1/2] (1/2) ([2, 1/2], [1, 2]) = ([2, 1/2], [1, 2]) := by
  decide +kernel

example : vsum (vmul ([(2 : ℚ), 1/2].map id) (xOf [1/2, 1/2] ([2, 1/2].map id) (1/2))) = 1 := by
  decide +kernel

example : xOf [(1/2 : ℚ), 1/2] ([2, 1/2].map id) (1/2)
    ≠ yOf (xOf [1/2, 1/2] ([2, 1/2].map id) (1/2)) [2, 1] [1, 2] := by
  decide +kernel

/-- **inner_code_K_frozen.**  The inner loop as it is in the code returns the `log K` half of its
state unchanged (`logKgammay_new[n:] = np.log(K)` is overwritten by the next line), so no number of
iterations moves `K` away from the initial guess. -/
theorem inner_code_K_frozen (gamma : List α → List α) (exp : α → α) (z : List α) (phi : α)
    (s : List α × List α) (n : Nat) :
    ((innerCode gamma exp z phi)^[n] s).1 = s.1 := by
  induction n with
  | zero => rfl
  | succ n ih => rw [Function.iterate_succ_apply']; exact ih

/-- **equal_activity_code_counterexample.**  The map the code iterates has fixed points, with the
Rachford–Rice equation satisfied, at which the activities differ (`2/3` against `1/2`): the full
statement `equal_activity_statement` fails for `innerCode`. -/
theorem equal_activity_code_counterexample :
    ∃ (gamma : List ℚ → List ℚ) (z lk gy : List ℚ) (phi : ℚ),
      innerCode gamma id z phi (lk, gy) = (lk, gy) ∧
      vsum (vmul (lk.map id) (xOf z (lk.map id) phi)) = 1 ∧
      vmul (xOf z (lk.map id) phi) (gamma (xOf z (lk.map id) phi)) ≠
        vmul (yOf (xOf z (lk.map id) phi) (gamma (xOf z (lk.map id) phi)) gy)
          (gamma (yOf (xOf z (lk.map id) phi) (gamma (xOf z (lk.map id) phi)) gy)) :=
  ⟨fun v => if v = [1/3, 2/3] then [2, 1] else [1, 1], [1/2, 1/2], [2, 1/2], [1, 1], 1/2,
   by decide +kernel, by decide +kernel, by decide +kernel⟩

/-- the property clause "every chemical's activity is the same in both liquids" for an iteration map
`F` on `(log K, gamma_y)`: at every fixed point satisfying Rachford–Rice.  Proved for `innerFixed`
(`equal_activity_at_fixed_point`), refuted for `innerCode` (`equal_activity_code_counterexample`);
for the iterates the real code actually returns it is residual-monitored by the oracle. -/
def equal_activity_statement (F : (List ℚ → List ℚ) → List ℚ → ℚ → List ℚ × List ℚ → List ℚ × List ℚ) : Prop :=
  ∀ (gamma : List ℚ → List ℚ) (z lk gy : List ℚ) (phi : ℚ),
    F gamma z phi (lk, gy) = (lk, gy) →
    vsum (vmul lk (xOf z lk phi)) = 1 →
    vmul (xOf z lk phi) (gamma (xOf z lk phi)) =
      vmul (yOf (xOf z lk phi) (gamma (xOf z lk phi)) gy) (gamma (yOf (xOf z lk phi) (gamma (xOf z lk phi)) gy))

theorem equal_activity_statement_fails_for_code :
    ¬ equal_activity_statement (fun gamma z phi s => innerCode gamma id z phi s) := by
  intro h
  have := h (fun v => if v = [1/3, 2/3] then [2, 1] else [1, 1]) [1/2, 1/2] [2, 1/2] [1, 1] (1/2)
    (by decide +kernel) (by decide +kernel)
  revert this
  decide +kernel

/-! ## Rachford–Rice: the hypothesis `Σ K_i x_i = 1` -/

/-- **rr_root_sum_one.**  If the feed is normalised and `phi` solves the Rachford–Rice equation
`Σ z_i (K_i - 1)/(1 + phi (K_i - 1)) = 0` (what `phase_fraction` is asked to return), then
`x = z/(1 + phi (K - 1))` is already normalised and `Σ K_i x_i = 1`: the hypothesis of
`equal_activity_at_fixed_point`. -/
theorem rr_root_sum_one (z K : List α) (phi : α) (hlen : z.length = K.length)
    (hd : ∀ Ki ∈ K, 1 + phi * (Ki - 1) ≠ 0) (hz : vsum z = 1)
    (hrr : vsum (List.zipWith (fun zi Ki => zi * (Ki - 1) / (1 + phi * (Ki - 1))) z K) = 0) :
    vsum (vmul K (xOf z K phi)) = 1 := by
  obtain ⟨h1, h2⟩ := rr_sums phi z K hlen hd
  rw [vsum_eq_sum] at hz hrr
  rw [hrr, mul_zero, add_zero, hz] at h1
  have hx : xOf z K phi = List.zipWith (fun zi Ki => zi / (1 + phi * (Ki - 1))) z K := by
    unfold xOf normalize
    rw [vsum_eq_sum, ← h1]; simp
  rw [hx, vsum_eq_sum, h2, hrr, add_zero, ← h1]

example : vsum (vmul [(2 : ℚ), 1/2] (xOf [1/2, 1/2] [2, 1/2] (1/2))) = 1 :=
  rr_root_sum_one _ _ _ rfl (by intro k hk; simp at hk; rcases hk with rfl | rfl <;> norm_num)
    (by decide +kernel) (by decide +kernel)

/-! ## the solver a stream hands out works on the stream's current material data -/

/-- **retrieve_returns_current.**  Under the invariant, `ms.vle / ms.lle / ms.sle` return a solver
bound to the stream's current indexer, and the invariant is kept. -/
theorem retrieve_returns_current (m : StreamM) (k : Kind) (h : Bound m) :
    (m.retrieve k).2 = m.imol ∧ Bound (m.retrieve k).1 := by
  have hk := cache_retrieve (m.cache k) m.imol (h k)
  cases k <;>
  · refine ⟨hk.1, ?_⟩
    intro k'
    cases k' <;> first
      | exact ⟨hk.2.1, Or.inr hk.2.2⟩
      | exact h .vle
      | exact h .lle
      | exact h .sle

theorem bound_step (m : StreamM) (op : SOp) (h : Bound m) : Bound (m.step op) := by
  cases op with
  | setPhases c => exact bound_setPhases m c h
  | retrieve k => exact (retrieve_returns_current m k h).2
  | resetCache => exact bound_resetCache m

theorem bound_run (ops : List SOp) : ∀ m, Bound m → Bound (m.run ops) := by
  induction ops with
  | nil => intro m h; exact h
  | cons op ops ih => intro m h; exact ih (m.step op) (bound_step m op h)

/-- **solver_acts_on_stream.**  After ANY history of phase-set changes, solver retrievals and cache
resets on a stream, the equilibrium solver the stream hands out (of any kind) is bound to the stream's
current material data: an `lle`/`sle` call after the set of phases was changed writes its split into the
flows the stream shows, never into a discarded indexer. -/
theorem solver_acts_on_stream (ops : List SOp) (k : Kind) :
    ((StreamM.init.run ops).retrieve k).2 = (StreamM.init.run ops).imol :=
  (retrieve_returns_current _ k (bound_run ops _ bound_init)).1

/-- **phase_change_forgets.**  A change of the set of phases leaves every solver unloaded: the next
`lle` / `sle` call starts from a fresh solver (no remembered `K`, `phi`, `T`, `z`; no `_chemical`). -/
theorem phase_change_forgets (m : StreamM) (k : Kind) : ((m.setPhases true).cache k).value = none := by
  cases k <;> rfl

/-- non-vacuity: use a solver, enlarge the phase set, use it again -/
example : (StreamM.init.run [.retrieve .sle, .setPhases true, .retrieve .sle]).sle = ⟨1, some 1⟩ := by
  decide

/-- **repoint_counterexample.**  If the `phases` setter kept the cache objects and only re-pointed
their `args`, a solver loaded before the change would still be bound to the old indexer. -/
theorem repoint_counterexample :
    let m := ((StreamM.init.retrieve .sle).1.setPhasesRepoint true)
    (m.retrieve .sle).2 ≠ m.imol := by
  decide

end ThermoVerif.Props.C15


