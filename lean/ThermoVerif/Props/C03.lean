import ThermoVerif.Lemmas.EqWriteback
import Mathlib.Algebra.Order.Field.Rat
/-
C03 — phase equilibrium never creates, destroys or makes negative any material.

Theorems about the write-back model `ThermoVerif.EqWriteback` (Model/EqWriteback.lean), over any linearly
ordered field `K`, for **every** solver output (the recorded parameters of the steps) and every sequence of
write-back steps.  Steps whose flows the code does not clip carry an explicit hypothesis (`EvOK`, the
bounds in `lle_nonneg_of_bounded`, …); the driver evaluates each of them on every recorded parameter.
-/
namespace ThermoVerif.Props.C03
open ThermoVerif.EqWriteback
set_option linter.unusedSectionVars false

variable {K : Type} [Field K] [LinearOrder K] [IsStrictOrderedRing K]

/-! ## VLE -/

/-- **Conservation, VLE.**  Whatever specification pair was used and whatever the solvers returned: after
`_setup` and any sequence of write-back steps the l+g total of every chemical is what it was, and the
other rows (`L`, `s`) are untouched.  Needs only that no chemical is classified both gas-only and
non-volatile (a chemical has one locked state). -/
theorem vle_conserves (c : Cls K) (hdisj : ∀ i, ¬ (i ∈ c.light ∧ i ∈ c.heavy)) (r : Rows K)
    (evs : List (VEv K)) (r' : Rows K) (reg' : VReg K) (h : vleCall c r evs = .ok (r', reg')) :
    (∀ i < c.n, get r'.g i + get r'.l i = get r.g i + get r.l i) ∧ r'.L = r.L ∧ r'.s = r.s := by
  have inv : VInv c r (r', reg') :=
    foldlM_inv (VInv c r) (fun _ => True) (vleStep c)
      (fun s b s' hs _ hf => vleStep_inv c r s s' b hs hf) evs _ _ (vleSetup_inv c hdisj r) (fun _ _ => trivial) h
  refine ⟨fun i hi => ?_, inv.rowL, inv.rowS⟩
  have h1 := inv.bal i hi
  have h2 := inv.mol i hi
  simp only at h1 h2
  rw [h1, h2]; ring

/-- **Non-negativity, VLE.**  From non-negative l and g rows, every step keeps both rows non-negative:
unconditionally for the clipped solver result (`solve` + `setFlowsReg`), the all-vapour / all-liquid
shortcuts and the correction steps; under `EvOK` for vapour flows the code does not clip. -/
theorem vle_nonneg (c : Cls K) (r : Rows K) (hg : ∀ i < c.n, 0 ≤ get r.g i) (hl : ∀ i < c.n, 0 ≤ get r.l i)
    (evs : List (VEv K)) (hev : ∀ e ∈ evs, EvOK c (vleSetup c r).2 e)
    (r' : Rows K) (reg' : VReg K) (h : vleCall c r evs = .ok (r', reg')) :
    ∀ i < c.n, 0 ≤ get r'.g i ∧ 0 ≤ get r'.l i := by
  have inv : VPos c (vleSetup c r).2 (r', reg') :=
    foldlM_inv (VPos c (vleSetup c r).2) (EvOK c (vleSetup c r).2) (vleStep c)
      (fun s b s' hs hq hf => vleStep_pos c _ s s' b hs hq hf) evs _ _ (vleSetup_pos c r hg hl) hev h
  exact fun i hi => ⟨inv.g i hi, inv.l i hi⟩

/-- Steps whose vapour flows come out of a clip of the code itself. -/
def Clipped : VEv K → Prop
  | .solveRaw _ => False
  | .setFlowsLit _ => False
  | .frac _ => False
  | .lever _ _ => False
  | .bubbleLimited _ _ => False
  | .dewLimited _ _ => False
  | _ => True

/-- **Non-negativity with no hypothesis on the solver** for the paths that only use clipped flows
(T-P, P-H, P-S, T-H, T-S and the solver branches of P-V / T-V): `_solve_v` + `set_flows(self._v)`, the
all-vapour / all-liquid shortcuts and the correction steps, for every raw solver result and every `f`. -/
theorem vle_nonneg_clipped (c : Cls K) (r : Rows K) (hg : ∀ i < c.n, 0 ≤ get r.g i) (hl : ∀ i < c.n, 0 ≤ get r.l i)
    (evs : List (VEv K)) (hev : ∀ e ∈ evs, Clipped e)
    (r' : Rows K) (reg' : VReg K) (h : vleCall c r evs = .ok (r', reg')) :
    ∀ i < c.n, 0 ≤ get r'.g i ∧ 0 ≤ get r'.l i := by
  refine vle_nonneg c r hg hl evs (fun e he => ?_) r' reg' h
  have := hev e he
  cases e <;> trivial

/-- **Gas-only chemicals end up entirely in the gas phase** (and keep their total), for every solver
output and every sequence of write-back steps. -/
theorem light_all_gas (c : Cls K) (r : Rows K) (hg : ∀ i < c.n, 0 ≤ get r.g i) (hl : ∀ i < c.n, 0 ≤ get r.l i)
    (evs : List (VEv K)) (r' : Rows K) (reg' : VReg K) (h : vleCall c r evs = .ok (r', reg'))
    {i : Nat} (hi : i < c.n) (hlight : i ∈ c.light) (hnh : i ∉ c.heavy) (hnv : i ∉ c.vle) :
    get r'.l i = 0 ∧ get r'.g i = get r.g i + get r.l i := by
  have hni : i ∉ (vleSetup c r).2.idx := fun hm => hnv (vleSetup_idx_sub c r i hm)
  obtain ⟨h1, h2⟩ := vle_frame c r evs r' reg' h hi hni
  rw [h1, h2]
  unfold vleSetup
  simp only
  split
  · simp only [get_tab _ _ hi, hlight, hnh, if_true, if_false, true_and]; ring
  · rename_i hz
    have hz' := all_zero_of_not_any c _ hz i hi
    rw [get_tab _ _ hi] at hz'
    have hgi := hg i hi
    have hli := hl i hi
    have e1 : get r.l i = 0 := by linarith
    have e2 : get r.g i = 0 := by linarith
    constructor <;> linarith

/-- **Liquid/solid-only chemicals never appear in the gas phase** after a VLE call (and keep their total). -/
theorem heavy_no_gas (c : Cls K) (r : Rows K) (hg : ∀ i < c.n, 0 ≤ get r.g i) (hl : ∀ i < c.n, 0 ≤ get r.l i)
    (evs : List (VEv K)) (r' : Rows K) (reg' : VReg K) (h : vleCall c r evs = .ok (r', reg'))
    {i : Nat} (hi : i < c.n) (hheavy : i ∈ c.heavy) (hnl : i ∉ c.light) (hnv : i ∉ c.vle) :
    get r'.g i = 0 ∧ get r'.l i = get r.l i + get r.g i := by
  have hni : i ∉ (vleSetup c r).2.idx := fun hm => hnv (vleSetup_idx_sub c r i hm)
  obtain ⟨h1, h2⟩ := vle_frame c r evs r' reg' h hi hni
  rw [h1, h2]
  unfold vleSetup
  simp only
  split
  · simp only [get_tab _ _ hi, hheavy, hnl, if_true, if_false, true_and]
  · rename_i hz
    have hz' := all_zero_of_not_any c _ hz i hi
    rw [get_tab _ _ hi] at hz'
    have hgi := hg i hi
    have hli := hl i hi
    have e1 : get r.l i = 0 := by linarith
    have e2 : get r.g i = 0 := by linarith
    constructor <;> linarith

/-! ## LLE -/

/-- pooled flow of chemical `i`, total pooled flow and normalised composition seen by `LLE.__call__` -/
def lleF (c : Cls K) (r : Rows K) : K := sumOver (lleIndex c (llePool c r).L) (get (llePool c r).L)
def lleZ (c : Cls K) (r : Rows K) (i : Nat) : K := get (llePool c r).L i / lleF c r

/-- **Conservation, LLE.**  For every optimiser output `mol_L`, every cached `K`/`phi`, with or without the
top-chemical swap: the l+L total of every chemical is unchanged (the renormalisation by `F_mol` cancels),
and the `g`, `s` rows are untouched. -/
theorem lle_conserves (c : Cls K) (r : Rows K) (p : Option (LlePath K)) (top : Option Nat) (r' : Rows K)
    (h : lleCall c r p top = .ok r') :
    (∀ i < c.n, get r'.l i + get r'.L i = get r.l i + get r.L i) ∧ r'.g = r.g ∧ r'.s = r.s := by
  have hLp : ∀ i < c.n, get (llePool c r).L i = get r.l i + get r.L i := fun i hi => by
    simp only [llePool, get_tab _ _ hi]
  have hlp : ∀ i < c.n, get (llePool c r).l i = 0 := fun i hi => by
    simp only [llePool, get_tab _ _ hi]
  have hgp : (llePool c r).g = r.g := rfl
  have hsp : (llePool c r).s = r.s := rfl
  unfold lleCall lleWrite at h
  simp only at h
  generalize llePool c r = rp at h hLp hlp hgp hsp
  split at h
  · rename_i hc
    simp only [Bool.and_eq_true, decide_eq_true_eq] at hc
    have hF : sumOver (lleIndex c rp.L) (get rp.L) ≠ 0 := (isNZ_iff _).mp hc.1
    cases p with
    | none => cases h
    | some p =>
      simp only [Except.ok.injEq] at h
      subst h
      refine ⟨fun i hi => ?_, hgp, hsp⟩
      simp only [get_tab _ _ hi]
      by_cases hm : i ∈ lleIndex c rp.L
      · simp only [hm, if_true]
        rw [← add_mul, llePhases_sum, div_mul_cancel₀ _ hF, hLp i hi]
      · simp only [hm, if_false]
        rw [hlp i hi, hLp i hi]; ring
  · cases p with
    | none =>
      simp only [Except.ok.injEq] at h
      subst h
      refine ⟨fun i hi => ?_, hgp, hsp⟩
      rw [hlp i hi, hLp i hi]; ring
    | some p => cases h

/-- **Non-negativity, LLE.**  The code does not clip the optimiser output, so the hypothesis is explicit:
`0 ≤ mol_L ≤ z` on the LLE index (solver path), or `0 ≤ phi` and `0 ≤ phi·K` (cached path; `phase_fraction`
ends in `as_valid_fraction`, see `phase_fraction_clipped`).  The driver monitors it on every call. -/
theorem lle_nonneg_of_bounded (c : Cls K) (r : Rows K) (hl : ∀ i < c.n, 0 ≤ get r.l i) (hL : ∀ i < c.n, 0 ≤ get r.L i)
    (p : Option (LlePath K)) (top : Option Nat)
    (hp : ∀ q, p = some q → PathOK (lleZ c r) (lleIndex c (llePool c r).L) q)
    (hlle : ∀ i ∈ c.lle, i < c.n)
    (r' : Rows K) (h : lleCall c r p top = .ok r') :
    ∀ i < c.n, 0 ≤ get r'.l i ∧ 0 ≤ get r'.L i := by
  have hpool : ∀ i < c.n, 0 ≤ get (llePool c r).L i := by
    intro i hi
    simp only [llePool, get_tab _ _ hi]
    exact add_nonneg (hl i hi) (hL i hi)
  have hlp : ∀ i < c.n, get (llePool c r).l i = 0 := fun i hi => by
    simp only [llePool, get_tab _ _ hi]
  have hidx : ∀ i ∈ lleIndex c (llePool c r).L, i < c.n := fun i hi => hlle i (List.mem_filter.mp hi).1
  have hFnn : 0 ≤ lleF c r := sumOver_nonneg _ _ (fun i hi => hpool i (hidx i hi))
  unfold lleCall lleWrite at h
  simp only at h
  unfold lleZ lleF at hp
  unfold lleF at hFnn
  generalize llePool c r = rp at h hpool hlp hidx hFnn hp
  split at h
  · cases p with
    | none => cases h
    | some q =>
      simp only [Except.ok.injEq] at h
      subst h
      intro i hi
      simp only [get_tab _ _ hi]
      by_cases hm : i ∈ lleIndex c rp.L
      · simp only [hm, if_true]
        have hz : 0 ≤ get rp.L i / sumOver (lleIndex c rp.L) (get rp.L) := div_nonneg (hpool i hi) hFnn
        have := llePhases_nonneg c _ top _ q (hp q rfl) hm hz
        exact ⟨mul_nonneg this.1 hFnn, mul_nonneg this.2 hFnn⟩
      · simp only [hm, if_false]
        exact ⟨le_of_eq (hlp i hi).symm, hpool i hi⟩
  · cases p with
    | none =>
      simp only [Except.ok.injEq] at h
      subst h
      intro i hi
      exact ⟨le_of_eq (hlp i hi).symm, hpool i hi⟩
    | some q => cases h

/-- **Non-negativity of the remembered-coefficients branch for EVERY Rachford–Rice root.**  `phase_fraction` ends in
`as_valid_fraction`; with that clip the cached branch of `LLE.__call__` keeps both liquids non-negative whatever
the closed-form / numerical root was (below 0 when the composition has drifted out of the two-liquid envelope
on one side, above 1 on the other), given only non-negative remembered coefficients. -/
theorem lle_cached_nonneg_for_every_root (c : Cls K) (r : Rows K) (hl : ∀ i < c.n, 0 ≤ get r.l i)
    (hL : ∀ i < c.n, 0 ≤ get r.L i) (raw : K) (Kp : List K) (top : Option Nat)
    (hK : ∀ i ∈ lleIndex c (llePool c r).L, 0 ≤ get Kp i) (hlle : ∀ i ∈ c.lle, i < c.n)
    (r' : Rows K) (h : lleCall c r (some (.cacheRaw raw Kp)) top = .ok r') :
    ∀ i < c.n, 0 ≤ get r'.l i ∧ 0 ≤ get r'.L i :=
  lle_nonneg_of_bounded c r hl hL _ top
    (fun q hq => by cases hq; exact fun i hi => mul_nonneg (asValidFraction_bounds raw).1 (hK i hi)) hlle r' h

/-! ## SLE -/

/-- **Conservation, SLE**: for every solubility `x` the solver returns, the l+s total of the solute is unchanged. -/
theorem sle_conserves (c : Cls K) (r : Rows K) (j : Nat) (idx : Option (List Nat)) (x : K) (hj : j < c.n) :
    get (sleUpdate c r j idx x).l j + get (sleUpdate c r j idx x).s j = get r.l j + get r.s j := by
  unfold sleUpdate
  simp only
  split
  · simp only [get_tab _ _ hj, if_true]; ring
  · split
    · simp only [get_tab _ _ hj, if_true]; ring
    · simp only [get_tab _ _ hj, if_true]; ring

/-- **Only the solute moves** in `_update_solubility`: every other chemical, and the `g` and `L` rows, are untouched. -/
theorem sle_only_solute (c : Cls K) (r : Rows K) (j : Nat) (idx : Option (List Nat)) (x : K)
    {i : Nat} (hi : i < c.n) (hij : i ≠ j) :
    get (sleUpdate c r j idx x).l i = get r.l i ∧ get (sleUpdate c r j idx x).s i = get r.s i
    ∧ (sleUpdate c r j idx x).g = r.g ∧ (sleUpdate c r j idx x).L = r.L := by
  unfold sleUpdate
  simp only
  split
  · simp only [get_tab _ _ hi, hij, if_false, and_self]
  · split
    · simp only [get_tab _ _ hi, hij, if_false, and_self]
    · simp only [get_tab _ _ hi, hij, if_false, and_self]

/-- **Non-negativity, SLE**, for *every* solubility value (negative, above saturation, NaN-free field):
the three-way branch of `_update_solubility` keeps the solute's liquid and solid flows non-negative,
provided the solute is one of the indexed chemicals (so that `F_mol_liquid` is a sum of other liquid flows). -/
theorem sle_nonneg (c : Cls K) (r : Rows K) (hl : ∀ i < c.n, 0 ≤ get r.l i) (hs : ∀ i < c.n, 0 ≤ get r.s i)
    (j : Nat) (idx : Option (List Nat)) (x : K)
    (hidx : ∀ k ∈ idx.getD (List.range c.n), k < c.n) (hj : j ∈ idx.getD (List.range c.n)) :
    ∀ i < c.n, 0 ≤ get (sleUpdate c r j idx x).l i ∧ 0 ≤ get (sleUpdate c r j idx x).s i := by
  have hjn : j < c.n := hidx j hj
  have hm : 0 ≤ get r.l j + get r.s j := add_nonneg (hl j hjn) (hs j hjn)
  have hF : 0 ≤ sumOver (idx.getD (List.range c.n)) (get r.l) - get r.l j := by
    have := single_le_sumOver (idx.getD (List.range c.n)) (get r.l) (fun k hk => hl k (hidx k hk)) hj
    linarith
  intro i hi
  unfold sleUpdate
  simp only
  split
  · simp only [get_tab _ _ hi]
    by_cases hij : i = j
    · subst hij; simp only [if_true]; exact ⟨le_refl _, hm⟩
    · simp only [hij, if_false]; exact ⟨hl i hi, hs i hi⟩
  · rename_i hx0
    split
    · rename_i hx
      simp only [get_tab _ _ hi]
      by_cases hij : i = j
      · subst hij; simp only [if_true]; exact sle_solute_split hF hm hx0 hx
      · simp only [hij, if_false]; exact ⟨hl i hi, hs i hi⟩
    · simp only [get_tab _ _ hi]
      by_cases hij : i = j
      · subst hij; simp only [if_true]; exact ⟨hm, le_refl _⟩
      · simp only [hij, if_false]; exact ⟨hl i hi, hs i hi⟩

/-- The pure-solute setters (all liquid above `Tm`, all solid below, liquid fraction from the enthalpy)
conserve the solute and, for a fraction in `[0,1]`, keep both flows non-negative. -/
theorem sle_setters (c : Cls K) (r : Rows K) (j : Nat) (hj : j < c.n) (Lf : K) :
    get (sleAllLiq c r j).l j + get (sleAllLiq c r j).s j = get r.l j + get r.s j
    ∧ get (sleAllSol c r j).l j + get (sleAllSol c r j).s j = get r.l j + get r.s j
    ∧ get (sleFrac c r j Lf).l j + get (sleFrac c r j Lf).s j = get r.l j + get r.s j
    ∧ (0 ≤ Lf → Lf ≤ 1 → 0 ≤ get r.l j → 0 ≤ get r.s j →
        0 ≤ get (sleFrac c r j Lf).l j ∧ 0 ≤ get (sleFrac c r j Lf).s j) := by
  refine ⟨?_, ?_, ?_, ?_⟩
  · simp only [sleAllLiq, get_tab _ _ hj, if_true]; ring
  · simp only [sleAllSol, get_tab _ _ hj, if_true]; ring
  · simp only [sleFrac, get_tab _ _ hj, if_true]; ring
  · intro h0 h1 hl hs
    simp only [sleFrac, get_tab _ _ hj, if_true]
    have hm : 0 ≤ get r.l j + get r.s j := add_nonneg hl hs
    refine ⟨mul_nonneg h0 hm, ?_⟩
    have e : get r.l j + get r.s j - Lf * (get r.l j + get r.s j) = (1 - Lf) * (get r.l j + get r.s j) := by ring
    rw [e]; exact mul_nonneg (by linarith) hm

/-! ## Stream.vlle -/

/-- The hypothesis on the fixed-point iterate written back by `data[:] = x`: it carries the same
per-chemical totals as the data it replaces (plain fixed-point iteration feeds `f`'s own result back,
so `x` *is* the data; an accelerated iteration would not guarantee it).  Monitored by the driver. -/
def AssignKeeps (c : Cls K) (st : VlleSt K) : VlleEv K → Prop
  | .assign x => ∀ i < c.n, colsum x i = colsum st.rows i
  | _ => True

/-- `colsum · pending scale factor` is invariant under every step of the skeleton. -/
def VlleInv (c : Cls K) (r0 : Rows K) (st : VlleSt K) : Prop :=
  (∀ i < c.n, colsum st.rows i * st.total.getD 1 = colsum r0 i) ∧ st.rows.s = r0.s

theorem vlleStep_inv (c : Cls K) (hdisj : ∀ i, ¬ (i ∈ c.light ∧ i ∈ c.heavy)) (r0 : Rows K)
    (st : VlleSt K) (e : VlleEv K) (st' : VlleSt K)
    (h : VlleInv c r0 st) (hq : AssignKeeps c st e) (hs : vlleStep c st e = .ok st') : VlleInv c r0 st' := by
  obtain ⟨hb, hsr⟩ := h
  cases e with
  | pool =>
    simp only [vlleStep, Except.ok.injEq] at hs; subst hs
    exact ⟨fun i hi => by simp only [colsum_pool c _ hi]; exact hb i hi, hsr⟩
  | swap =>
    simp only [vlleStep, Except.ok.injEq] at hs; subst hs
    exact ⟨fun i hi => by simp only [colsum_swap]; exact hb i hi, hsr⟩
  | normalise =>
    simp only [vlleStep] at hs
    cases ht : st.total with
    | some t => rw [ht] at hs; cases hs
    | none =>
      rw [ht] at hs
      simp only at hs
      split at hs
      · rename_i hnz
        simp only [Except.ok.injEq] at hs; subst hs
        have hne : vlleTotal c st.rows ≠ 0 := (isNZ_iff _).mp hnz
        refine ⟨fun i hi => ?_, hsr⟩
        have := hb i hi
        rw [ht] at this
        simp only [Option.getD_none, mul_one] at this
        simp only [Option.getD_some, colsum_normalise c _ _ hi]
        rw [div_mul_cancel₀ _ hne]; exact this
      · cases hs
  | assign x =>
    simp only [vlleStep, Except.ok.injEq] at hs; subst hs
    refine ⟨fun i hi => ?_, hsr⟩
    have hx := hq i hi
    have : colsum { x with s := st.rows.s } i = colsum x i := rfl
    rw [this, hx]; exact hb i hi
  | finish =>
    simp only [vlleStep] at hs
    cases ht : st.total with
    | none => rw [ht] at hs; cases hs
    | some t =>
      rw [ht] at hs
      simp only [Except.ok.injEq] at hs; subst hs
      refine ⟨fun i hi => ?_, ?_⟩
      · have := hb i hi
        rw [ht] at this
        simp only [Option.getD_some] at this
        simp only [Option.getD_none, mul_one, colsum_finish c _ _ hi]; exact this
      · rw [← hsr]
        unfold vlleFinish
        simp only
        split <;> rfl
  | vle evs =>
    simp only [vlleStep] at hs
    cases hv : vleCall c st.rows evs with
    | error e => rw [hv] at hs; cases hs
    | ok p =>
      obtain ⟨r1, reg1⟩ := p
      rw [hv] at hs
      simp only [Except.ok.injEq] at hs; subst hs
      obtain ⟨h1, h2, h3⟩ := vle_conserves c hdisj st.rows evs r1 reg1 hv
      refine ⟨fun i hi => ?_, h3.trans hsr⟩
      have : colsum r1 i = colsum st.rows i := by
        simp only [colsum]; rw [h1 i hi, h2]
      simp only [this]; exact hb i hi
  | lle p top =>
    simp only [vlleStep] at hs
    cases hv : lleCall c st.rows p top with
    | error e => rw [hv] at hs; cases hs
    | ok r1 =>
      rw [hv] at hs
      simp only [Except.ok.injEq] at hs; subst hs
      obtain ⟨h1, h2, h3⟩ := lle_conserves c st.rows p top r1 hv
      refine ⟨fun i hi => ?_, h3.trans hsr⟩
      have : colsum r1 i = colsum st.rows i := by
        simp only [colsum]; rw [h2, add_assoc, h1 i hi, add_assoc]
      simp only [this]; exact hb i hi

/-- **Conservation up to the pending rescale, vlle.**  For every sequence of skeleton steps (pool,
normalise, any number of `lle / vle / swap / vle / swap` rounds, merge, rescale) and every solver output
inside the nested calls: per-chemical total × pending scale factor is what it was at the start. -/
theorem vlle_conserves_up_to_rescale (c : Cls K) (hdisj : ∀ i, ¬ (i ∈ c.light ∧ i ∈ c.heavy)) (r : Rows K)
    (evs : List (VlleEv K))
    (hassign : ∀ pre e post st1, evs = pre ++ e :: post → vlleRun c r pre = .ok st1 → AssignKeeps c st1 e)
    (st' : VlleSt K) (h : vlleRun c r evs = .ok st') :
    (∀ i < c.n, colsum st'.rows i * st'.total.getD 1 = colsum r i) ∧ st'.rows.s = r.s :=
  foldlM_inv_dep (VlleInv c r) (AssignKeeps c) (vlleStep c)
    (fun s b s' hs hq hf => vlleStep_inv c hdisj r s b s' hs hq hf) evs _ _
    ⟨fun i _ => by simp, rfl⟩ hassign h

/-- **Conservation, vlle**: once the data has been rescaled (every `normalise` matched by a `finish`, as in
the code), the total of every chemical over the three phases is exactly what it was. -/
theorem vlle_conserves (c : Cls K) (hdisj : ∀ i, ¬ (i ∈ c.light ∧ i ∈ c.heavy)) (r : Rows K)
    (evs : List (VlleEv K))
    (hassign : ∀ pre e post st1, evs = pre ++ e :: post → vlleRun c r pre = .ok st1 → AssignKeeps c st1 e)
    (st' : VlleSt K) (h : vlleRun c r evs = .ok st') (hdone : st'.total = none) :
    ∀ i < c.n, colsum st'.rows i = colsum r i := by
  intro i hi
  have := (vlle_conserves_up_to_rescale c hdisj r evs hassign st' h).1 i hi
  rw [hdone] at this
  simpa using this

/-- What non-negativity of a vlle step needs from the recorded parameters, given the state it starts from. -/
def VlleEvOK (c : Cls K) (st : VlleSt K) : VlleEv K → Prop
  | .assign x => RowsNonneg c x
  | .vle evs => ∀ e ∈ evs, EvOK c (vleSetup c st.rows).2 e
  | .lle p _ => ∀ q, p = some q → PathOK (lleZ c st.rows) (lleIndex c (llePool c st.rows).L) q
  | _ => True

theorem vlleStep_nonneg (c : Cls K) (hlle : ∀ i ∈ c.lle, i < c.n)
    (st : VlleSt K) (e : VlleEv K) (st' : VlleSt K)
    (h : RowsNonneg c st.rows ∧ ∀ t, st.total = some t → 0 ≤ t) (hq : VlleEvOK c st e)
    (hs : vlleStep c st e = .ok st') : RowsNonneg c st'.rows ∧ ∀ t, st'.total = some t → 0 ≤ t := by
  obtain ⟨hr, ht⟩ := h
  cases e with
  | pool =>
    simp only [vlleStep, Except.ok.injEq] at hs; subst hs
    refine ⟨fun i hi => ?_, ht⟩
    obtain ⟨a, b, d⟩ := hr i hi
    simp only [vllePool, get_tab _ _ hi]
    exact ⟨a, add_nonneg b d, le_refl _⟩
  | swap =>
    simp only [vlleStep, Except.ok.injEq] at hs; subst hs
    refine ⟨fun i hi => ?_, ht⟩
    obtain ⟨a, b, d⟩ := hr i hi
    exact ⟨a, d, b⟩
  | normalise =>
    simp only [vlleStep] at hs
    cases htot : st.total with
    | some t => rw [htot] at hs; cases hs
    | none =>
      rw [htot] at hs
      simp only at hs
      split at hs
      · simp only [Except.ok.injEq] at hs; subst hs
        have hT := vlleTotal_nonneg c st.rows hr
        refine ⟨fun i hi => ?_, fun t h => by cases h; exact hT⟩
        obtain ⟨a, b, d⟩ := hr i hi
        simp only [vlleNormalise, scaleRows, get_tab _ _ hi]
        exact ⟨div_nonneg a hT, div_nonneg b hT, div_nonneg d hT⟩
      · cases hs
  | assign x =>
    simp only [vlleStep, Except.ok.injEq] at hs; subst hs
    exact ⟨hq, ht⟩
  | finish =>
    simp only [vlleStep] at hs
    cases htot : st.total with
    | none => rw [htot] at hs; cases hs
    | some t =>
      rw [htot] at hs
      simp only [Except.ok.injEq] at hs; subst hs
      have ht0 := ht t htot
      refine ⟨fun i hi => ?_, fun t h => by cases h⟩
      obtain ⟨a, b, d⟩ := hr i hi
      unfold vlleFinish
      simp only
      split
      · simp only [scaleRows, vllePool, get_tab _ _ hi]
        exact ⟨mul_nonneg a ht0, mul_nonneg (add_nonneg b d) ht0, by simp⟩
      · simp only [scaleRows, get_tab _ _ hi]
        exact ⟨mul_nonneg a ht0, mul_nonneg b ht0, mul_nonneg d ht0⟩
  | vle evs =>
    simp only [vlleStep] at hs
    cases hv : vleCall c st.rows evs with
    | error e => rw [hv] at hs; cases hs
    | ok p =>
      obtain ⟨r1, reg1⟩ := p
      rw [hv] at hs
      simp only [Except.ok.injEq] at hs; subst hs
      have hnn := vle_nonneg c st.rows (fun i hi => (hr i hi).1) (fun i hi => (hr i hi).2.1) evs hq r1 reg1 hv
      -- the L row is untouched by a VLE call (no disjointness needed for that part)
      have hL : r1.L = st.rows.L := by
        have inv : (fun s : Rows K × VReg K => s.1.L = st.rows.L) (r1, reg1) :=
          foldlM_inv (fun s : Rows K × VReg K => s.1.L = st.rows.L) (fun _ => True) (vleStep c)
            (fun s b s' hs _ hf => by
              have : s'.1.L = s.1.L := by
                cases b <;> simp only [vleStep] at hf
                case solve raw => cases hf; rfl
                case solveRaw v => cases hf; rfl
                case setFlowsReg =>
                  cases hv : s.2.v with
                  | none => rw [hv] at hf; cases hf
                  | some v => rw [hv] at hf; cases hf; rfl
                case setFlowsLit v => cases hf; rfl
                case allVap => cases hf; rfl
                case allLiq => cases hf; rfl
                case frac V => cases hf; rfl
                case lever x0 y =>
                  cases hl : leverSplit s.2 x0 y with
                  | error e => rw [hl] at hf; cases hf
                  | ok s0 => rw [hl] at hf; cases hf; rfl
                case bubbleLimited V y => cases hf; rfl
                case dewLimited V x => cases hf; rfl
                case condense f =>
                  cases hc : corrFrac f with
                  | none => rw [hc] at hf; cases hf; rfl
                  | some f' => rw [hc] at hf; cases hf; rfl
                case vaporise f =>
                  cases hc : corrFrac f with
                  | none => rw [hc] at hf; cases hf; rfl
                  | some f' => rw [hc] at hf; cases hf; rfl
              exact this.trans hs)
            evs _ _ (by
              unfold vleSetup
              simp only
              split <;> rfl) (fun _ _ => trivial) hv
        exact inv
      refine ⟨fun i hi => ⟨(hnn i hi).1, (hnn i hi).2, ?_⟩, ht⟩
      rw [hL]; exact (hr i hi).2.2
  | lle p top =>
    simp only [vlleStep] at hs
    cases hv : lleCall c st.rows p top with
    | error e => rw [hv] at hs; cases hs
    | ok r1 =>
      rw [hv] at hs
      simp only [Except.ok.injEq] at hs; subst hs
      have hnn := lle_nonneg_of_bounded c st.rows (fun i hi => (hr i hi).2.1) (fun i hi => (hr i hi).2.2)
        p top hq hlle r1 hv
      obtain ⟨_, hg, _⟩ := lle_conserves c st.rows p top r1 hv
      refine ⟨fun i hi => ⟨?_, (hnn i hi).1, (hnn i hi).2⟩, ht⟩
      rw [hg]; exact (hr i hi).1

/-- **Non-negativity, vlle**: every step of the skeleton keeps the three rows non-negative, provided the
nested calls get solver outputs within their (monitored) bounds and the iterate written back is non-negative. -/
theorem vlle_nonneg (c : Cls K) (hlle : ∀ i ∈ c.lle, i < c.n) (r : Rows K) (hr : RowsNonneg c r)
    (evs : List (VlleEv K))
    (hev : ∀ pre e post st1, evs = pre ++ e :: post → vlleRun c r pre = .ok st1 → VlleEvOK c st1 e)
    (st' : VlleSt K) (h : vlleRun c r evs = .ok st') : RowsNonneg c st'.rows :=
  (foldlM_inv_dep (fun st : VlleSt K => RowsNonneg c st.rows ∧ ∀ t, st.total = some t → 0 ≤ t) (VlleEvOK c)
    (vlleStep c) (fun s b s' hs hq hf => vlleStep_nonneg c hlle s b s' hs hq hf) evs _ _
    ⟨hr, fun t h => by cases h⟩ hev h).1

/-! ## The bubble- / dew-limited branches of `set_TV` / `set_PV` -/

/-- **The per-chemical cap makes the old monitored hypothesis true.**  In the bubble-limited branch the code
writes `v = min(y_bubble·F_mol·V, mol)`, in the dew-limited branch `l = min(x_dew·F_mol·(1−V), mol)`, `v = mol − l`.
For *every* `V` and every composition the capped side never exceeds what is there, so the other phase
(`mol − v`, resp. `mol − l`) is non-negative with no hypothesis at all; the capped side itself is non-negative
as soon as `0 ≤ V` (resp. `V ≤ 1`), `0 ≤ F_mol` and the composition is non-negative. -/
theorem limited_cap (reg : VReg K) (V : K) (y x : List K) (i : Nat) (hm : 0 ≤ get reg.mol i) :
    0 ≤ get reg.mol i - bubbleV reg V y i ∧ 0 ≤ get reg.mol i - dewL reg V x i
    ∧ (0 ≤ V → 0 ≤ reg.fmol → 0 ≤ get y i → 0 ≤ bubbleV reg V y i)
    ∧ (V ≤ 1 → 0 ≤ reg.fmol → 0 ≤ get x i → 0 ≤ dewL reg V x i) :=
  ⟨by linarith [bubbleV_le reg V y i], by linarith [dewL_le reg V x i],
   fun hV hF hy => bubbleV_nonneg reg V y i hm hV hF hy, fun hV hF hx => dewL_nonneg reg V x i hm hV hF hx⟩

/-! ## Histories: several calls on one stream through the same cached solver object -/

/-- **A history is a sequence of independent calls.**  Whatever the stream holds before each call (the result
of the previous call edited in any way: material added to the "wrong" phase, chemicals added or removed), the
index `_setup` re-uses from the previous call is the one a fresh VLE object would compute, so call `k` of a
history behaves exactly like a first call on the same flows. -/
theorem vle_history_independent (c : Cls K) (cache : Option VCache) (hc : VCacheOK c cache)
    (hist : List (Rows K × List (VEv K))) :
    vleHistory c cache hist = hist.map fun p => vleCall c p.1 p.2 := by
  induction hist generalizing cache with
  | nil => rfl
  | cons p rest ih =>
    obtain ⟨r, evs⟩ := p
    obtain ⟨h1, h2⟩ := vleCallC_eq c cache hc r evs
    simp only [vleHistory, List.map_cons, h1, ih _ h2]

/-- **Conservation after EVERY call of a history** (not only the first). -/
theorem vle_history_conserves (c : Cls K) (hdisj : ∀ i, ¬ (i ∈ c.light ∧ i ∈ c.heavy))
    (hist : List (Rows K × List (VEv K))) (k : Nat) (r : Rows K) (evs : List (VEv K)) (r' : Rows K) (reg' : VReg K)
    (hk : hist[k]? = some (r, evs)) (hres : (vleHistory c none hist)[k]? = some (.ok (r', reg'))) :
    (∀ i < c.n, get r'.g i + get r'.l i = get r.g i + get r.l i) ∧ r'.L = r.L ∧ r'.s = r.s := by
  rw [vle_history_independent c none trivial, List.getElem?_map, hk] at hres
  simp only [Option.map_some, Option.some.injEq] at hres
  exact vle_conserves c hdisj r evs r' reg' hres

/-- **Placement after EVERY call of a history**: gas-only chemicals are entirely in `g`, liquid/solid-only
chemicals are absent from `g`, after each call that returns — in particular after a call that re-uses the
index of the previous one although material was put into the "wrong" phase in between. -/
theorem vle_history_placement (c : Cls K) (hist : List (Rows K × List (VEv K))) (k : Nat)
    (r : Rows K) (evs : List (VEv K)) (r' : Rows K) (reg' : VReg K)
    (hk : hist[k]? = some (r, evs)) (hres : (vleHistory c none hist)[k]? = some (.ok (r', reg')))
    (hg : ∀ i < c.n, 0 ≤ get r.g i) (hl : ∀ i < c.n, 0 ≤ get r.l i) {i : Nat} (hi : i < c.n) (hnv : i ∉ c.vle) :
    (i ∈ c.light → i ∉ c.heavy → get r'.l i = 0 ∧ get r'.g i = get r.g i + get r.l i)
    ∧ (i ∈ c.heavy → i ∉ c.light → get r'.g i = 0 ∧ get r'.l i = get r.l i + get r.g i) := by
  rw [vle_history_independent c none trivial, List.getElem?_map, hk] at hres
  simp only [Option.map_some, Option.some.injEq] at hres
  exact ⟨fun h1 h2 => light_all_gas c r hg hl evs r' reg' hres hi h1 h2 hnv,
         fun h1 h2 => heavy_no_gas c r hg hl evs r' reg' hres hi h1 h2 hnv⟩

/-- **Non-negativity after EVERY call of a history.** -/
theorem vle_history_nonneg (c : Cls K) (hist : List (Rows K × List (VEv K))) (k : Nat)
    (r : Rows K) (evs : List (VEv K)) (r' : Rows K) (reg' : VReg K)
    (hk : hist[k]? = some (r, evs)) (hres : (vleHistory c none hist)[k]? = some (.ok (r', reg')))
    (hg : ∀ i < c.n, 0 ≤ get r.g i) (hl : ∀ i < c.n, 0 ≤ get r.l i)
    (hev : ∀ e ∈ evs, EvOK c (vleSetup c r).2 e) : ∀ i < c.n, 0 ≤ get r'.g i ∧ 0 ≤ get r'.l i := by
  rw [vle_history_independent c none trivial, List.getElem?_map, hk] at hres
  simp only [Option.map_some, Option.some.injEq] at hres
  exact vle_nonneg c r hg hl evs hev r' reg' hres

/-- what call `k` of a history with reactive flashes would be if it were the first call on a fresh object -/
def HCall.fresh (c : Cls K) : HCall K → Option (Except Err (Rows K × VReg K))
  | .plain r evs => some (vleCall c r evs)
  | .reactive _ _ _ => none

/-- **Ordinary calls do not see what a reactive flash left in the object.**  In a history on one VLE object in
which reactive flashes (excluded from the property) are interleaved, every *ordinary* call behaves exactly
like a first call on a fresh object with the same flows — for every key set the reactive `_setup` stored and
every leftover reaction delta `_dmol_vle`, `_dF_mol`. -/
theorem vle_history_reactive_independent (c : Cls K) (cache : Option VCache) (hc : VCacheOK c cache)
    (hist : List (HCall K)) : vleHistoryR c cache hist = hist.map (HCall.fresh c) := by
  induction hist generalizing cache with
  | nil => rfl
  | cons h rest ih =>
    cases h with
    | plain r evs =>
      obtain ⟨h1, h2⟩ := vleCallC_eq c cache hc r evs
      simp only [vleHistoryR, List.map_cons, HCall.fresh, h1, ih _ h2]
    | reactive nz dmol dF =>
      have hok : VCacheOK c (vleAfterReactive c nz) := rfl
      simp only [vleHistoryR, List.map_cons, HCall.fresh, ih _ hok]

/-- **Conservation and placement for every ordinary call that follows reactive flashes** on the same object. -/
theorem vle_after_reactive_conserves_and_places (c : Cls K) (hdisj : ∀ i, ¬ (i ∈ c.light ∧ i ∈ c.heavy))
    (hist : List (HCall K)) (k : Nat) (r : Rows K) (evs : List (VEv K)) (r' : Rows K) (reg' : VReg K)
    (hk : hist[k]? = some (.plain r evs)) (hres : (vleHistoryR c none hist)[k]? = some (some (.ok (r', reg'))))
    (hg : ∀ i < c.n, 0 ≤ get r.g i) (hl : ∀ i < c.n, 0 ≤ get r.l i) :
    ((∀ i < c.n, get r'.g i + get r'.l i = get r.g i + get r.l i) ∧ r'.L = r.L ∧ r'.s = r.s)
    ∧ (∀ i < c.n, i ∉ c.vle → i ∈ c.light → i ∉ c.heavy → get r'.l i = 0 ∧ get r'.g i = get r.g i + get r.l i)
    ∧ (∀ i < c.n, i ∉ c.vle → i ∈ c.heavy → i ∉ c.light → get r'.g i = 0 ∧ get r'.l i = get r.l i + get r.g i)
    ∧ ((∀ e ∈ evs, EvOK c (vleSetup c r).2 e) → ∀ i < c.n, 0 ≤ get r'.g i ∧ 0 ≤ get r'.l i) := by
  rw [vle_history_reactive_independent c none trivial, List.getElem?_map, hk] at hres
  simp only [Option.map_some, HCall.fresh, Option.some.injEq] at hres
  exact ⟨vle_conserves c hdisj r evs r' reg' hres,
         fun i hi hnv h1 h2 => light_all_gas c r hg hl evs r' reg' hres hi h1 h2 hnv,
         fun i hi hnv h1 h2 => heavy_no_gas c r hg hl evs r' reg' hres hi h1 h2 hnv,
         fun hev => vle_nonneg c r hg hl evs hev r' reg' hres⟩

/-- What an SLE object remembers stays consistent over any history of `_setup` calls (any flows, any solutes,
including calls that raise). -/
theorem sle_history_cache_consistent (c : Cls K) (hist : List (Rows K × Nat)) :
    SCacheOK c (hist.foldl (fun k p => (sleSetupC c k p.1 p.2).1) {}) := by
  have : ∀ (k0 : SCache), SCacheOK c k0 → SCacheOK c (hist.foldl (fun k p => (sleSetupC c k p.1 p.2).1) k0) := by
    induction hist with
    | nil => intro k0 h; exact h
    | cons p rest ih => intro k0 h; exact ih _ (sleSetupC_ok c k0 h p.1 p.2)
  exact this {} (fun nz h => by cases h)

/-- With the re-use path checked like the rebuild path (fixes_proposed/C03-3.md) the same holds for EVERY solute, with no
assumption on it or on the cache: a `_setup` that returns leaves the object in pure-solute mode or the solute in
the index — the hypothesis of `sle_nonneg` is then met by every `_update_solubility` a history can reach. -/
theorem sle_setup_ok_solute_in_index (c : Cls K) (cache : SCache) (r : Rows K) (j : Nat)
    (hok : (sleSetupC c cache r j).2 = .ok ()) :
    (sleSetupC c cache r j).1.pure = true ∨ j ∈ (sleSetupC c cache r j).1.idx := by
  unfold sleSetupC at hok ⊢
  simp only at hok ⊢
  split
  · rename_i hnz
    simp only [hnz, if_true] at hok
    split
    · rename_i hk
      simp only [hk, if_true] at hok
      split
      · left; rfl
      · rename_i hlen1
        simp only [hlen1, if_false] at hok
        split
        · rename_i hm; right; exact hm
        · rename_i hm; simp only [hm, if_false] at hok; cases hok
    · rename_i hk
      simp only [hk, if_false] at hok
      split
      · left; rfl
      · rename_i hlen
        simp only [hlen, if_false] at hok
        split
        · rename_i hm; right; exact hm
        · rename_i hm; simp only [hm, if_false] at hok; cases hok
  · rename_i hnz
    simp only [hnz] at hok
    cases hok

set_option linter.unusedVariables false in
/-- After a `_setup` that returns, for an LLE-capable solute: either the object is in pure-solute mode (the
melting-point setters run; they do not use the index) or the solute is a member of the index
`_update_solubility` will use — whether the index was rebuilt or re-used from an earlier call with other
amounts or another solute.  This is the hypothesis of `sle_nonneg`. -/
theorem sle_setup_solute_in_index (c : Cls K) (cache : SCache) (hc : SCacheOK c cache) (r : Rows K) (j : Nat)
    (hj : j < c.n) (hlle : j ∈ c.lle) (hok : (sleSetupC c cache r j).2 = .ok ()) :
    (sleSetupC c cache r j).1.pure = true ∨ j ∈ (sleSetupC c cache r j).1.idx :=
  sle_setup_ok_solute_in_index c cache r j hok

/-! ## The lever rule as found (defect C03-1) -/

/-! ## Non-vacuity: the hypotheses are met by concrete, non-trivial states (over ℚ) -/
section NonVacuity

/-- water, ethanol (volatile), N2 (gas-only), glucose (liquid-only) -/
def cEx : Cls ℚ :=
  { n := 4, light := [2], heavy := [3], vle := [0, 1], lle := [0, 1, 3], hs := [0], mw := [18, 46, 28, 180] }
def rEx : Rows ℚ := { g := [0, 1, 0, 1/4], l := [2, 1, 1/2, 1], L := [0, 0, 0, 0], s := [0, 0, 0, 0] }

example : ∀ i, ¬ (i ∈ cEx.light ∧ i ∈ cEx.heavy) := by simp [cEx]
example : (∀ i < cEx.n, 0 ≤ get rEx.g i) ∧ (∀ i < cEx.n, 0 ≤ get rEx.l i) := by decide +kernel

/-- a P-H style call: all-liquid probe, all-vapour probe, a solver result above the total (clip active),
write-back, then the correction step with `f = 1/2` -/
def evsEx : List (VEv ℚ) := [.allLiq, .allVap, .solve [3, 1/2, 0, 0], .setFlowsReg, .condense (1/2)]

example : (match vleCall cEx rEx evsEx with
    | .ok (r', _) => (r'.g, r'.l) | .error _ => ([], [])) = ([1, 1/4, 1/2, 0], [1, 7/4, 0, 5/4]) := by
  decide +kernel

example : ∀ e ∈ evsEx, EvOK cEx (vleSetup cEx rEx).2 e := by
  intro e he
  simp only [evsEx, List.mem_cons, List.mem_nil_iff, or_false] at he
  rcases he with rfl | rfl | rfl | rfl | rfl <;> trivial

/-- un-clipped sources with their hypotheses met: a bubble-limited `set_flows`, a single-component style
fraction, a lever-rule step -/
example : EvOK cEx (vleSetup cEx rEx).2 (.setFlowsLit [1, 2, 0, 0])
    ∧ EvOK cEx (vleSetup cEx rEx).2 (.frac (1/3))
    ∧ EvOK cEx (vleSetup cEx rEx).2 (.lever (1/4) [3/4, 1/4, 0, 0]) := by
  refine ⟨?_, ?_, ?_⟩
  · intro i hi hm
    have : i = 0 ∨ i = 1 := by
      have : i ∈ (vleSetup cEx rEx).2.idx := hm
      revert this; revert i; decide +kernel
    rcases this with rfl | rfl <;> decide +kernel
  · exact ⟨by norm_num, by norm_num⟩
  · refine ⟨by decide +kernel, ?_⟩
    intro i hi hm
    have : i = 0 ∨ i = 1 := by
      have : i ∈ (vleSetup cEx rEx).2.idx := hm
      revert this; revert i; decide +kernel
    rcases this with rfl | rfl <;> decide +kernel

example : (match vleCall cEx rEx [.lever (1/4) [3/4, 1/4, 0, 0]] with
    | .ok (r', _) => (r'.g, r'.l) | .error _ => ([], [])) = ([21/16, 7/16, 1/2, 0], [11/16, 25/16, 0, 5/4]) := by
  decide +kernel

/-- LLE: solver path with `0 ≤ mol_L ≤ z`, swapped by the top-chemical rule -/
def rLle : Rows ℚ := { g := [0, 0, 0, 0], l := [3, 1, 0, 0], L := [1, 1, 0, 2], s := [0, 0, 0, 0] }

example : PathOK (lleZ cEx rLle) (lleIndex cEx (llePool cEx rLle).L) (.solve [1/8, 1/8, 0, 1/4]) := by
  intro i hi
  have : i = 0 ∨ i = 1 ∨ i = 3 := by revert hi; revert i; decide +kernel
  rcases this with rfl | rfl | rfl <;> decide +kernel

example : (match lleCall cEx rLle (some (.solve [1/8, 1/8, 0, 1/4])) (some 0) with
    | .ok r' => (r'.l, r'.L) | .error _ => ([], [])) = ([1, 1, 0, 2], [3, 1, 0, 0]) := by
  decide +kernel

example : (match lleCall cEx rLle (some (.cache (1/2) [2, 1, 0, 1/2])) none with
    | .ok r' => (r'.l, r'.L) | .error _ => ([], [])) = ([8/3, 1, 0, 2/3], [4/3, 1, 0, 4/3]) := by
  decide +kernel

example : PathOK (lleZ cEx rLle) (lleIndex cEx (llePool cEx rLle).L) (.cache (1/2) [2, 1, 0, 1/2]) := by
  refine ⟨by norm_num, ?_⟩
  intro i hi
  have : i = 0 ∨ i = 1 ∨ i = 3 := by revert hi; revert i; decide +kernel
  rcases this with rfl | rfl | rfl <;> decide +kernel

/-- SLE: solvent 0 and 1, solute 3; a solubility inside `(0, x_max)` splits the solute -/
def rSle : Rows ℚ := { g := [0, 0, 0, 0], l := [3, 1, 0, 1], L := [0, 0, 0, 0], s := [0, 0, 0, 1] }

example : ((sleUpdate cEx rSle 3 (some [0, 1, 3]) (1/9)).l, (sleUpdate cEx rSle 3 (some [0, 1, 3]) (1/9)).s)
    = ([3, 1, 0, 1/2], [0, 0, 0, 3/2]) := by decide +kernel
example : (∀ k ∈ (some [0, 1, 3] : Option (List Nat)).getD (List.range cEx.n), k < cEx.n)
    ∧ 3 ∈ (some [0, 1, 3] : Option (List Nat)).getD (List.range cEx.n) := by decide +kernel

/-- vlle: pool, normalise, one `lle / vle / swap / vle / swap` round with the iterate written back, rescale -/
def rV : Rows ℚ := { g := [0, 1, 1/2, 0], l := [2, 1, 0, 1], L := [1, 0, 0, 0], s := [0, 0, 0, 0] }
def evsV : List (VlleEv ℚ) :=
  [.pool, .vle [.solve [1, 1, 0, 0], .setFlowsReg], .lle (some (.solve [1/13, 0, 0, 2/13])) none, .normalise,
   .swap, .vle [.allLiq], .swap, .finish]

example : (match vlleRun cEx rV evsV with
    | .ok st => (st.rows.g, st.rows.l, st.rows.L, st.total) | .error _ => ([], [], [], none))
    = ([0, 0, 1/2, 0], [22/13, 1, 0, 5/13], [17/13, 1, 0, 8/13], none) := by
  decide +kernel

/-- a history on one VLE object: a solver call; then N2 (gas-only) put into the liquid and the bubble-limited
branch with the index re-used; then ethanol removed and glucose (liquid-only) put into the gas, dew-limited
branch with the index rebuilt.  After every call N2 is entirely in `g` and glucose entirely in `l`. -/
def histEx : List (Rows ℚ × List (VEv ℚ)) :=
  [(rEx, [.solve [1, 1/2, 0, 0], .setFlowsReg]),
   ({ g := [1, 1/2, 1/2, 0], l := [1, 3/2, 3/4, 5/4], L := [0, 0, 0, 0], s := [0, 0, 0, 0] },
    [.bubbleLimited (1/2) [3/4, 1/4, 0, 0]]),
   ({ g := [1, 0, 1/2, 1], l := [0, 0, 3/4, 5/4], L := [0, 0, 0, 0], s := [0, 0, 0, 0] },
    [.dewLimited (1/2) [1/4, 3/4, 0, 0]])]

example : ((vleHistory cEx none histEx).map fun r =>
      match r with | .ok (r', reg) => (r'.g, r'.l, reg.idx) | .error _ => ([], [], []))
    = [([1, 1/2, 1/2, 0], [1, 3/2, 0, 5/4], [0, 1]),
       ([63/32, 21/32, 5/4, 0], [1/32, 43/32, 0, 5/4], [0, 1]),
       ([23/32, 0, 5/4, 0], [9/32, 0, 0, 9/4], [0])] := by
  decide +kernel

/-- the second `_setup` of that history re-uses the stored index, the third rebuilds it -/
example : (vleSetupC cEx (vleSetupC cEx none rEx).2.1
      { g := [1, 1/2, 1/2, 0], l := [1, 3/2, 3/4, 5/4], L := [0, 0, 0, 0], s := [0, 0, 0, 0] }).2.2 = true
    ∧ (vleSetupC cEx (vleSetupC cEx none rEx).2.1
      { g := [1, 0, 1/2, 1], l := [0, 0, 3/4, 5/4], L := [0, 0, 0, 0], s := [0, 0, 0, 0] }).2.2 = false := by
  decide +kernel

example : EvOK cEx (vleSetup cEx rEx).2 (.bubbleLimited (1/2) [3/4, 1/4, 0, 0])
    ∧ EvOK cEx (vleSetup cEx rEx).2 (.dewLimited (1/2) [1/4, 3/4, 0, 0]) := by
  have hidx : ∀ i, i ∈ (vleSetup cEx rEx).2.idx → i = 0 ∨ i = 1 := by decide +kernel
  refine ⟨⟨by norm_num, by decide +kernel, ?_⟩, ⟨by norm_num, by decide +kernel, ?_⟩⟩ <;>
  · intro i _ hm
    rcases hidx i hm with rfl | rfl <;> decide +kernel

/-- SLE object with history: solvent + solute, then the same chemicals with another solute amount (index re-used) -/
example : (sleSetupC cEx (sleSetupC cEx {} rSle 3).1
      { g := [0, 0, 0, 0], l := [3, 1, 0, 5], L := [0, 0, 0, 0], s := [0, 0, 0, 2] } 3)
    = ({ nz := some [0, 1, 3], idx := [0, 1, 3], pure := false }, .ok ()) := by
  decide +kernel

/-- a reactive flash (key set {0,1,2,3}, a non-zero leftover delta) between two ordinary calls: the ordinary call
after it re-uses the stored index and gives what a fresh object gives -/
example : ((vleHistoryR cEx none
      [.plain rEx [.solve [1, 1/2, 0, 0], .setFlowsReg], .reactive [0, 1, 2, 3] [1/5, -1/5, 0, 0] 0,
       .plain rEx [.solve [1, 1/2, 0, 0], .setFlowsReg]]).map fun r =>
      match r with | some (.ok (r', _)) => some (r'.g, r'.l) | _ => none)
    = [some ([1, 1/2, 1/2, 0], [1, 3/2, 0, 5/4]), none, some ([1, 1/2, 1/2, 0], [1, 3/2, 0, 5/4])] := by
  decide +kernel

/-- cached branch with a root below 0 (composition drifted out of the envelope): the clip sends everything to `L` -/
example : (match lleCall cEx rLle (some (.cacheRaw (-1/10) [2, 1, 0, 1/2])) none with
    | .ok r' => (r'.l, r'.L) | .error _ => ([], [])) = ([0, 0, 0, 0], [4, 2, 0, 2]) := by
  decide +kernel

end NonVacuity

end ThermoVerif.Props.C03
