import ThermoVerif.Lemmas.FlowOps
/-
C01 — Mixing, splitting and separating streams conserves every chemical.

Statement (properties.jsonl): mixing any collection of inlet streams into a receiver gives, for
every chemical, a total flow equal to the sum of the inlets' totals (whatever the inlets' phases,
single- or multi-phase, receiver among the inlets, other property packages listing the shared
chemicals in another order); splitting yields `split*feed` and `feed - split*feed`; separating a
stream back out of a mixture restores the remainder; copying with removal neither duplicates nor
loses material; multiplying a stream by `k` multiplies every flow by `k`.

Both `energy_balance=False` and the library default `energy_balance=True` are covered (`mixE`, `sumNewE`, `split … eb`);
`vle=True` and `conserve_phases=True` are not modelled.

The model is `ThermoVerif.Flow` (Model/Flow.lean); the proofs are in Lemmas/Flow.lean and
Lemmas/FlowOps.lean.  `World.amount w i c` is the flow of chemical `c` (a CAS stand-in) in stream `i`,
summed over its phases, `0` when the stream's package lacks `c`.  An operation of the code that can
raise returns `Except Err World`; the value theorems are stated under "the call returned"
(`= .ok w'`), and the error branch of mixing has its own theorems (`mix_undefined_iff`,
`mix_error_kind`).  The theorems hold for *every* world: any number of streams and inlets, any
phase layout, any package table.  No well-formedness hypothesis is needed for the value theorems
because rows are read pointwise (`Row.get`); the two theorems that need "no chemical listed twice
in a package" say so (`PkgsNodup`, `Nodup`).

The model describes the code with fixes_proposed/C01-1 … C01-14 (and C10-2, C12-1) applied: the six
combinations that were first mirrored as known findings (single-phase feed onto a multi-phase outlet, two
argument forms of `Stream.copy_flow`, three defects of `MultiStream.copy_flow`) are modelled as repaired,
and their theorems are the full ones.  Phase views (`ms[p]`) are operands of separating and mixing.
-/
namespace ThermoVerif.Props.C01
open ThermoVerif.Flow ThermoVerif.FlowOps

/-! ### mixing -/

/-- **Mixing conserves every chemical.**  For any receiver (single- or multi-phase), any list of
inlets of any length — the receiver may be among them, any number of times —, any phases (with phase
expansion and case-variant merging) and any packages (CAS-based remapping): if `mix_from` returns,
the receiver holds, of every chemical, the sum of what the inlets held. -/
theorem mix_total {w w' : World} {r : Nat} {ins : List Nat} (h : mix w r ins = .ok w') (c : Nat) :
    w'.amount r c = rsum (ins.map (fun i => w.amount i c)) :=
  FlowOps.mix_total h c

/-- mixing changes no stream but the receiver (in particular no inlet), and no package -/
theorem mix_frame {w w' : World} {r : Nat} {ins : List Nat} (h : mix w r ins = .ok w') :
    w'.pkgs = w.pkgs ∧ ∀ j, j ≠ r → w'.strms[j]? = w.strms[j]? :=
  FlowOps.mix_frame h

/-- `Stream.sum(streams, thermo=pkg)`: the new stream holds the sum of the given streams -/
theorem sum_total {w w' : World} {pkg : Nat} {ins : List Nat} (h : sumNew w pkg ins = .ok w')
    (hins : ∀ i ∈ ins, i < w.strms.length) (c : Nat) :
    w'.amount w.strms.length c = rsum (ins.map (fun i => w.amount i c)) :=
  FlowOps.sum_total h hins c

/-- **Mixing with the library default `energy_balance=True`.**  Exactly one non-empty inlet is then copied with
`copy_like` (the receiver takes over its phase tuple, or is emptied, expanded and refilled) instead of mixed;
otherwise the same indexer mix runs and the enthalpy bookkeeping leaves the material alone.  Either way the
receiver holds the sum of the inlets.  (`ValidPh`: phase letters are among `s l g S L`.) -/
theorem mixE_total {w w' : World} {r : Nat} {ins : List Nat} {eb : Bool} (h : mixE w r ins eb = .ok w')
    (hv : ∀ s ∈ w.strms, ValidPh s) (c : Nat) :
    w'.amount r c = rsum (ins.map (fun i => w.amount i c)) :=
  FlowOps.mixE_total h hv c

/-- `Stream.sum`, `a + b` with the default energy balance -/
theorem sumE_total {w w' : World} {pkg : Nat} {ins : List Nat} {eb : Bool} (h : sumNewE w pkg ins eb = .ok w')
    (hins : ∀ i ∈ ins, i < w.strms.length) (hv : ∀ s ∈ w.strms, ValidPh s) (c : Nat) :
    w'.amount w.strms.length c = rsum (ins.map (fun i => w.amount i c)) :=
  FlowOps.sumE_total h hins hv c

/-- the g ↔ l relabelling done by the enthalpy setter (taken from the code as a parameter) moves no material -/
theorem flipPhase_amount (w : World) (i : Nat) (p : Char) (j c : Nat) : (flipPhase w i p).amount j c = w.amount j c :=
  FlowOps.flipPhase_amount w i p j c

/-- **The error branch of mixing.**  With valid stream indices, packages that list no chemical twice
and non-negative inlets, `mix_from` raises exactly when some inlet holds a chemical that the
receiver's package lacks. -/
theorem mix_undefined_iff {w : World} {r : Nat} {ins : List Nat} {sr : Strm} (hw : PkgsNodup w)
    (hr : w.strms[r]? = some sr) (hins : ∀ i ∈ ins, i < w.strms.length)
    (hnn : ∀ i ∈ ins, ∀ s, w.strms[i]? = some s → NonNeg s) :
    (∃ e, mix w r ins = .error e) ↔ ∃ i ∈ ins, ∃ c, w.amount i c ≠ 0 ∧ c ∉ w.pkgOf sr :=
  FlowOps.mix_undefined_iff hw hr hins hnn

/-- … and the exception is `UndefinedChemicalAlias`, nothing else -/
theorem mix_error_kind {w : World} {r : Nat} {ins : List Nat} {e : Err} (hr : r < w.strms.length)
    (hins : ∀ i ∈ ins, i < w.strms.length) (h : mix w r ins = .error e) : e = .undefinedChemical :=
  FlowOps.mix_error_kind hr hins h

/-! ### splitting -/

/-- **Splitting yields `split*feed` and `feed - split*feed`.**  Scalar or per-chemical split, single-
or multi-phase feed and outlets, outlets on other packages, the feed itself as one of the outlets:
if `split_to` returns (and the two outlets are different streams) every chemical is divided exactly so — with or
without the energy balance (`eb`: outlets take the feed's phase, a multi-phase feed makes both outlets multi-phase).
`splitAt w f sp c` is the scalar, or the entry of the split vector at the position of `c` in the feed's package. -/
theorem split_values {w w' : World} {f a b : Nat} {sp : Split} {eb : Bool} (h : split w f a b sp eb = .ok w')
    (hab : a ≠ b) (c : Nat) :
    w'.amount a c = w.amount f c * splitAt w f sp c ∧
    w'.amount b c = w.amount f c - w.amount f c * splitAt w f sp c :=
  FlowOps.split_values h hab c

/-- the two outlets together hold exactly the feed -/
theorem split_sum {w w' : World} {f a b : Nat} {sp : Split} {eb : Bool} (h : split w f a b sp eb = .ok w')
    (hab : a ≠ b) (c : Nat) : w'.amount a c + w'.amount b c = w.amount f c :=
  FlowOps.split_sum h hab c

/-! ### separating -/

/-- **Separating subtracts exactly the other stream** (four kind pairings, equal or different phase
tuples, same or other package, a stream out of itself). -/
theorem sep_total {w w' : World} {x y : Nat} (h : sep w x y = .ok w') (c : Nat) :
    w'.amount x c = w.amount x c - w.amount y c :=
  FlowOps.sep_total h c

/-- separating changes no stream but `x` -/
theorem sep_frame {w w' : World} {x y : Nat} (h : sep w x y = .ok w') :
    w'.pkgs = w.pkgs ∧ ∀ j, j ≠ x → w'.strms[j]? = w.strms[j]? :=
  FlowOps.sep_frame h

/-- **Separating a stream back out of a mixture restores the remainder.**  Mix `a` and `b` into any
receiver `r`, then separate `b` out of `r`: what is left in `r` is, chemical by chemical, what `a`
held (`a` may be the receiver itself). -/
theorem separate_restores {w w1 w2 : World} {r a b : Nat} (hb : b ≠ r)
    (hmix : mix w r [a, b] = .ok w1) (hsep : sep w1 r b = .ok w2) (c : Nat) :
    w2.amount r c = w.amount a c :=
  FlowOps.separate_restores hb hmix hsep c

/-! ### phase views as operands (`ms['g']`) -/

/-- **Separating with a phase view as the stream to take out** — `ms.separate_out(ms['g'])`, or a view of any
other stream: `x` goes down by exactly what the view holds (`refAmount`: the row of that phase), so the
other phases of `x` are what remains. -/
theorem sepR_total {w w' : World} {x : Nat} {y : Ref} (h : sepR w x y = .ok w') (hx : x < w.strms.length)
    (c : Nat) : w'.amount x c = w.amount x c - refAmount w y c :=
  FlowOps.sepR_total h hx c

/-- **Mixing with phase views among the inlets** (also views of the receiver itself): the receiver holds
the sum of what the operands held. -/
theorem mixR_total {w w' : World} {r : Nat} {ins : List Ref} {eb : Bool} (h : mixR w r ins eb = .ok w')
    (hr : r < w.strms.length) (hv : ∀ s ∈ w.strms, ValidPh s) (hl : ins.all refValidLetter = true) (c : Nat) :
    w'.amount r c = rsum (ins.map (fun x => refAmount w x c)) :=
  FlowOps.mixR_total h hr hv hl c

/-! ### copy with removal -/

/-- **Copy with removal neither duplicates nor loses material.**  `d.copy_flow(s, IDs, remove=True,
exclude=…)` onto a single-phase `d ≠ s`, any form of `IDs`, same or other package, single- or
multi-phase source: every chemical is either moved entirely (the destination now holds what the source
held, the source holds none) or left alone in both streams. -/
theorem copy_remove_moves {w w' : World} {d s : Nat} {ids : IDs} {ex : Bool} {ss : Strm}
    (h : copySingle w d s ids true ex = .ok w') (hds : d ≠ s)
    (hs : w.strms[s]? = some ss) (hQ : (w.pkgOf ss).Nodup) (c : Nat) :
    (w'.amount d c = w.amount s c ∧ w'.amount s c = 0) ∨
    (w'.amount d c = w.amount d c ∧ w'.amount s c = w.amount s c) :=
  FlowOps.copy_remove_moves h hds hs hQ c

/-- **Which chemicals are moved**: exactly the ones the caller asks for.  `wanted Q ids ex c` is "`c` is named by
`IDs`" (every chemical for `...`), or with `exclude` "`c` is a chemical of the source that is not named". -/
theorem copy_remove_selected {w w' : World} {d s : Nat} {ids : IDs} {ex : Bool} {ss : Strm}
    (h : copySingle w d s ids true ex = .ok w') (hds : d ≠ s)
    (hs : w.strms[s]? = some ss) (hQ : (w.pkgOf ss).Nodup) (c : Nat) :
    if wanted (w.pkgOf ss) ids ex c then w'.amount d c = w.amount s c ∧ w'.amount s c = 0
    else w'.amount d c = w.amount d c ∧ w'.amount s c = w.amount s c :=
  FlowOps.copy_remove_selected h hds hs hQ c

/-- cut and paste (`IDs = ...`): every chemical is moved -/
theorem copy_all_moves {w w' : World} {d s : Nat} (h : copySingle w d s .all true false = .ok w')
    (hds : d ≠ s) (c : Nat) : w'.amount d c = w.amount s c ∧ w'.amount s c = 0 :=
  FlowOps.copy_all_moves h hds c

/-! ### scaling -/

/-- **Multiplying a stream by `k` multiplies every flow by `k`** (`scale`, `*=`). -/
theorem scale_linear {w w' : World} {i : Nat} {k : Rat} (h : scale w i k = .ok w') (c : Nat) :
    w'.amount i c = w.amount i c * k :=
  FlowOps.scale_linear h c

/-- `stream /= k` -/
theorem idiv_linear {w w' : World} {i : Nat} {k : Rat} (h : idiv w i k = .ok w') (c : Nat) :
    w'.amount i c = w.amount i c / k :=
  FlowOps.idiv_linear h c

/-- `new = stream * k`: the product holds `k` times every flow, the operand is untouched -/
theorem mul_linear {w w' : World} {i : Nat} {k : Rat} (h : mulNew w i k = .ok w') (c : Nat) :
    w'.amount w.strms.length c = w.amount i c * k ∧ w'.amount i c = w.amount i c :=
  FlowOps.mul_linear h c

/-- `new = stream / k` -/
theorem div_linear {w w' : World} {i : Nat} {k : Rat} (h : divNew w i k = .ok w') (c : Nat) :
    w'.amount w.strms.length c = w.amount i c / k ∧ w'.amount i c = w.amount i c :=
  FlowOps.div_linear h c

/-! ### holders of shared flow data (phase views, flow proxies, `from_streams` constituents) -/

/-- **Multiplying a stream in place multiplies what every holder of its flow data reads.**  `a` says that
stream `a.i` holds a phase row (`a.q = some q`) or all (`none`) of the data of stream `j`; after `ms *= k` /
`ms.scale(k)` the holder reads `k` times what it read (`holderAmount`: the holder's view re-derived from the owner). -/
theorem scale_holder_linear {w w' : World} {j : Nat} {k : Rat} {a : Alias} {owner cur : Strm}
    (h : scale w j k = .ok w') (haj : a.j = j) (hij : a.i ≠ j)
    (ho : w.strms[j]? = some owner) (hc : w.strms[a.i]? = some cur) (hp : cur.pkg = owner.pkg) (c : Nat) :
    holderAmount w' a c = holderAmount w a c * k :=
  FlowOps.scale_holder_linear h haj hij ho hc hp c

/-- **Multiplying a phase view in place** (`liq = ms['l']; liq *= k`): the row it holds is multiplied by `k`, and the
multi-phase stream owning the row changes by exactly that. -/
theorem scaleRow_total {w w' : World} {j : Nat} {q : Char} {k : Rat} {owner : Strm}
    (h : scaleRow w j q k = .ok w') (ho : w.strms[j]? = some owner) (hq : hasPh owner.ph q = true) (c : Nat) :
    w'.amount j c = w.amount j c + (k - 1) * rowKey (w.pkgOf owner) (rowOf owner.ph q) c ∧
    (∃ owner', w'.strms[j]? = some owner' ∧
      rowKey (w.pkgOf owner) (rowOf owner'.ph q) c = rowKey (w.pkgOf owner) (rowOf owner.ph q) c * k) :=
  FlowOps.scaleRow_total h ho hq c

/-! ### copy onto a multi-phase destination (`MultiStream.copy_flow`) -/

/-- **Cut and paste onto a multi-phase destination** (`phase = ...`, `IDs = ...`, `remove=True`), single- or
multi-phase source, whatever the destination held: every chemical is moved. -/
theorem copy_multi_all_moves {w w' : World} {d s : Nat} {sd ss : Strm}
    (h : copyMulti w d s none .all true false = .ok w') (hds : d ≠ s)
    (hd : w.strms[d]? = some sd) (hs : w.strms[s]? = some ss) (c : Nat) :
    w'.amount d c = w.amount s c ∧ w'.amount s c = 0 :=
  FlowOps.copy_multi_all_moves h hds hd hs c

/-- **Copy with removal onto an empty multi-phase destination conserves every chemical**, for every form
of the phase / IDs / exclude arguments and for single- and multi-phase sources: what left the source is
in the destination. -/
theorem copy_multi_conserves {w w' : World} {d s : Nat} {phase : Option Char} {ids : IDs} {ex : Bool}
    {sd ss : Strm} (h : copyMulti w d s phase ids true ex = .ok w') (hds : d ≠ s)
    (hd : w.strms[d]? = some sd) (hs : w.strms[s]? = some ss) (he : sd.isEmpty = true) (c : Nat) :
    w'.amount d c + w'.amount s c = w.amount s c :=
  FlowOps.copy_multi_conserves h hds hd hs he c

/-- … and with all phases selected (`phase = ...`) every chemical is either moved entirely or stays
entirely in the source (the counterpart of `copy_remove_moves` for multi-phase destinations). -/
theorem copy_multi_remove_moves {w w' : World} {d s : Nat} {ids : IDs} {ex : Bool}
    {sd ss : Strm} (h : copyMulti w d s none ids true ex = .ok w') (hds : d ≠ s)
    (hd : w.strms[d]? = some sd) (hs : w.strms[s]? = some ss) (he : sd.isEmpty = true) (c : Nat) :
    (w'.amount d c = w.amount s c ∧ w'.amount s c = 0) ∨
    (w'.amount d c = 0 ∧ w'.amount s c = w.amount s c) :=
  FlowOps.copy_multi_remove_moves h hds hd hs he c

/-- … and which ones: the chemicals named by `IDs` (with `exclude`: the others). -/
theorem copy_multi_remove_selected {w w' : World} {d s : Nat} {ids : IDs} {ex : Bool}
    {sd ss : Strm} (h : copyMulti w d s none ids true ex = .ok w') (hds : d ≠ s)
    (hd : w.strms[d]? = some sd) (hs : w.strms[s]? = some ss) (he : sd.isEmpty = true) (c : Nat) :
    if (pos (w.pkgOf sd) c).isSome && (idsHas ids c != ex) then w'.amount d c = w.amount s c ∧ w'.amount s c = 0
    else w'.amount d c = 0 ∧ w'.amount s c = w.amount s c :=
  FlowOps.copy_multi_remove_selected h hds hd hs he c

/-- **The destination's own content** when a single-phase stream is copied onto a multi-phase destination without
`exclude`: it is discarded (`data[:] = 0.`, all phases); the destination then holds exactly the selected chemicals
of the source. -/
theorem copy_multi_single_source_overwrites {w w' : World} {d s : Nat} {ids : IDs} {rm : Bool} {sd ss : Strm}
    (h : copyMulti w d s none ids rm false = .ok w') (hds : d ≠ s)
    (hd : w.strms[d]? = some sd) (hs : w.strms[s]? = some ss) (hsingle : ss.multi = false) (c : Nat) :
    w'.amount d c = if (pos (w.pkgOf sd) c).isSome && idsHas ids c then w.amount s c else 0 :=
  FlowOps.copy_multi_single_source_overwrites h hds hd hs hsingle c

/-- destination `(g, l)`, a source `(g, l, s)` with another phase tuple, a single-phase gas stream, a
source with the destination's phase tuple -/
def wCopy : World :=
  { pkgs := [[0, 1, 2]],
    strms := [ { pkg := 0, multi := true, ph := [('g', [0, 0, 0]), ('l', [0, 0, 0])] },
               { pkg := 0, multi := true, ph := [('g', [0, 0, 0]), ('l', [0, 0, 0]), ('s', [0, 5, 0])] },
               { pkg := 0, multi := false, ph := [('g', [1, 2, 3])] },
               { pkg := 0, multi := true, ph := [('g', [4, 0, 0]), ('l', [0, 0, 1/2])] } ] }

/-! ### non-vacuity: a concrete world on which every hypothesis is met with non-trivial numbers -/

/-- three packages listing shared chemicals in different orders; a multi-phase stream, a stream on a
sub-package in the capital-letter liquid phase, a solid/liquid multi-phase stream on a third
package, two single-phase streams -/
def w0 : World :=
  { pkgs := [[0, 1, 2, 3, 4, 5], [5, 0, 2], [3, 1, 0, 4]],
    strms := [ { pkg := 0, multi := true, ph := [('g', [1, 0, 0, 0, 0, 0]), ('l', [0, 1/2, 0, 0, 0, 0])] },
               { pkg := 1, multi := false, ph := [('L', [1, 2, 4])] },
               { pkg := 2, multi := true, ph := [('l', [1, 0, 0, 0]), ('s', [0, 0, 3/2, 0])] },
               { pkg := 0, multi := false, ph := [('l', [0, 0, 0, 0, 0, 0])] },
               { pkg := 0, multi := false, ph := [('g', [8, 8, 0, 0, 0, 3])] },
               { pkg := 0, multi := false, ph := [('l', [1, 1, 1, 1, 1, 1])] },
               { pkg := 2, multi := true, ph := [('g', [0, 0, 0, 0]), ('l', [0, 0, 0, 1])] } ] }

/-- observe a result: the amount of chemical `c` in stream `i`, `none` if the call raised -/
def okAmount (r : Except Err World) (i c : Nat) : Option Rat :=
  match r with
  | .ok w => some (w.amount i c)
  | .error _ => none

def errOf (r : Except Err World) : Option Err :=
  match r with
  | .ok _ => none
  | .error e => some e

-- mixing three inlets of three packages (the receiver among them, a solid phase it lacks): water 1 + 2 + 3/2
example : okAmount (mix w0 0 [1, 2, 0]) 0 0 = some (9/2) := by decide +kernel
example : okAmount (mix w0 0 [1, 2, 0]) 0 5 = some 1 := by decide +kernel
example : PkgsNodup w0 := by
  intro P hP
  simp only [w0, List.mem_cons, List.not_mem_nil, or_false] at hP
  rcases hP with rfl | rfl | rfl <;> decide
-- the error branch: stream 0 holds ethanol (1), which package 1 = [5, 0, 2] lacks
example : errOf (mix w0 1 [0]) = some .undefinedChemical := by decide +kernel
-- splitting the multi-package mixture with a per-chemical split
example : okAmount (split w0 4 3 5 (.vector [1/2, 1/4, 0, 0, 0, 1]) false) 3 1 = some 2 := by decide +kernel
example : okAmount (split w0 4 3 5 (.vector [1/2, 1/4, 0, 0, 0, 1]) false) 5 1 = some 6 := by decide +kernel
-- multi-phase feed onto a multi-phase outlet on another package
example : okAmount (split w0 0 6 3 (.scalar (1/4)) false) 6 0 = some (1/4) := by decide +kernel
example : okAmount (split w0 0 6 3 (.scalar (1/4)) false) 3 1 = some (3/8) := by decide +kernel
-- separating: mix then separate
example : (do let w1 ← mix w0 3 [4, 1]; let w2 ← sep w1 3 1; pure (w2.amount 3 0)) = Except.ok (8 : Rat) := by
  decide +kernel
-- copy with removal of one chemical from the sub-package stream
example : okAmount (copySingle w0 3 1 (.many [0]) true false) 3 0 = some 2 := by decide +kernel
example : okAmount (copySingle w0 3 1 (.many [0]) true false) 1 0 = some 0 := by decide +kernel
example : okAmount (copySingle w0 3 1 (.many [0]) true false) 1 2 = some 4 := by decide +kernel
example : okAmount (scale w0 2 (3/2)) 2 0 = some (9/4) := by decide +kernel

-- one phase separated out of its own multi-phase stream: the gas row (water 1) goes, the liquid row (ethanol 1/2) stays
example : okAmount (sepR w0 0 (.view 0 'g')) 0 0 = some 0 ∧ okAmount (sepR w0 0 (.view 0 'g')) 0 1 = some (1/2) := by
  decide +kernel
-- the receiver's own liquid phase and another stream's solid phase among the inlets
example : okAmount (mixR w0 0 [.view 0 'l', .view 2 's', .strm 0] false) 0 1 = some 1 ∧
          okAmount (mixR w0 0 [.view 0 'l', .view 2 's', .strm 0] false) 0 0 = some (5/2) := by decide +kernel
-- the default energy balance: one non-empty inlet (stream 2, package 2, phases l/s) is copied onto single-phase stream 3
example : okAmount (mixE w0 3 [2, 3] true) 3 0 = some (3/2) ∧ okAmount (mixE w0 3 [2, 3] true) 3 3 = some 1 := by
  decide +kernel
example : ∀ s ∈ w0.strms, ValidPh s := by
  intro s hs
  simp only [w0, List.mem_cons, List.not_mem_nil, or_false] at hs
  rcases hs with rfl | rfl | rfl | rfl | rfl | rfl | rfl <;> intro pr hpr <;> simp at hpr <;>
    (try rcases hpr with rfl | rfl) <;> (try subst hpr) <;> rfl
-- a multi-phase feed split with the energy balance: both outlets become multi-phase
example : okAmount (split w0 0 3 5 (.scalar (1/4)) true) 3 0 = some (1/4) ∧
          okAmount (split w0 0 3 5 (.scalar (1/4)) true) 5 1 = some (3/8) := by decide +kernel
-- stream 0 (g: water 1, l: ethanol 1/2) multiplied by 3 in place: a holder of its liquid row reads 3/2 of ethanol
example : (match scale w0 0 3 with
    | .ok w' => holderAmount w' { i := 3, j := 0, q := some 'l' } 1
    | .error _ => 0) = 3/2 := by decide +kernel
-- a single-phase feed onto a multi-phase outlet (C01-9): the outlet becomes single-phase at the feed's phase
example : okAmount (split w0 4 0 3 (.scalar (1/4)) false) 0 0 = some 2 ∧
          okAmount (split w0 4 0 3 (.scalar (1/4)) false) 3 0 = some 6 := by decide +kernel
-- `exclude=True` with IDs the source does not have copies everything (C01-10); a string ID across packages (C01-11)
example : okAmount (copySingle w0 3 1 (.many [1]) true true) 3 2 = some 4 ∧
          okAmount (copySingle w0 3 1 (.many [1]) true true) 1 2 = some 0 := by decide +kernel
example : okAmount (copySingle w0 3 1 (.one 0) true false) 3 0 = some 2 ∧
          okAmount (copySingle w0 3 1 (.one 0) true false) 1 0 = some 0 := by decide +kernel
-- cut and paste between multi-phase streams with the same phase tuple
example : okAmount (copyMulti wCopy 0 3 none .all true false) 0 0 = some 4 ∧
          okAmount (copyMulti wCopy 0 3 none .all true false) 3 0 = some 0 := by decide +kernel
-- another phase tuple is refused (C01-12), nothing is lost
example : errOf (copyMulti wCopy 0 1 none .all true false) = some .rejected := by decide +kernel
-- `exclude=True` with a phase other than the single-phase source's: everything moves (C01-13)
example : okAmount (copyMulti wCopy 0 2 (some 'l') (.many [1]) true true) 0 1 = some 2 ∧
          okAmount (copyMulti wCopy 0 2 (some 'l') (.many [1]) true true) 2 1 = some 0 := by decide +kernel
-- `IDs = ..., exclude=True, remove=True`: nothing is copied and nothing is removed (C01-14)
example : okAmount (copyMulti wCopy 0 2 none .all true true) 0 0 = some 0 ∧
          okAmount (copyMulti wCopy 0 2 none .all true true) 2 0 = some 1 := by decide +kernel

end ThermoVerif.Props.C01
