import ThermoVerif.Lemmas.Separations
/-
C20 — Separation helper functions close the material balance and meet their targets.

Every theorem is about the executable model `ThermoVerif.Separations` (the same definitions the
driver runs against the real code).  External numerics are universally quantified parameters:
the theorems about `partition` hold for EVERY value `phi` of the Rachford–Rice solver and every
`K`; those about the `lle` / `vle` wrappers hold for every pair of phase rows that sums to the feed
(the hypothesis the harness monitors on every call).

Clause of the property text                     theorem(s) in this file
  outlets sum to inlets                         mixAndSplit_balance, adjust_balance, mixSplitMoisture_balance, partition_balance,
                                                lle_balance, lleFull_balance, vleFull_balance, phaseSplit_balance
  no negative flows unless infeasibility        mixAndSplit_nonneg, adjust_nonneg, partition_nonneg, lle_nonneg;
                                                partition_ok_of_domain, partition_infeasible_only_if_clip, anyClip_false_of_domain
  partition reproduces K                        partition_K, partition_K_ratio (any phi), partition_K_deviation (exact error formula
                                                for any phi: |phi − top share| / ((1−phi)·top share)), partition_K_exact,
                                                achievedK_common_factor; for an EXACT rational root of the code's objective:
                                                rr_root_sums, partition_phase_fraction_consistent, partition_K_of_root
                                                (float roots are never exact: for them the clause rests on partition_K_deviation
                                                 + the oracle's phi-vs-top-share check); rrShortcut_one / _zero
  forced chemicals, shortcuts                   partition_forced_top/_bottom, partition_unlisted_top, partition_phi_zero/_one
  moisture adjustment reaches the target        moisture_reached, adjust_infeasible_iff, moisture_feasible_iff
  phase split sends each phase to its outlet    phaseSplit_rows, phaseSplit_error_iff
  splits × mixed = first stream                 splits_roundtrip, splits_range
  balance solver                                balance_solves, balance_total, balance_solves_invertible, balance_factors_unique
  composition balance                           composition_balance, composition_fixed_point; composition_noconv_example
  code as found / side facts                    partitionAsIs_counterexample, partitionAsIs_eq_of_empty_bottom, adjustAsIs_counterexample,
                                                partitionAliased_* (3), rr_nonpos_of_K_le_one, rr_nonneg_of_K_ge_one,
                                                shortcut_conventions_disagree, phaseFraction2N_root, binaryPhaseFraction_range,
                                                phaseFraction_range, mixAndSplit_split
  NOT decided by a theorem                      independence from old outlet / holder contents (the repaired model ignores them by
                                                definition: rfl lemmas in Lemmas/), vle wrapper balance without the conserving-
                                                equilibrium hypothesis: correspondence (pre-filled outlets, reused holders,
                                                load= / hyp= monitors) + oracle
Helper lemmas (loop_ok, composition_step_residual, vle_balance, …) live in Lemmas/Separations.lean.
-/
namespace ThermoVerif.Props.C20
open ThermoVerif.Separations

/-! ## mix_and_split -/

/-- `top + bottom = Σ inlets`, per chemical. -/
theorem mixAndSplit_balance (n : Nat) (ins : List Vec) (split : Vec) (i : Nat) :
    (mixAndSplit n ins split).1.at i + (mixAndSplit n ins split).2.at i = (total n ins).at i := by
  simp only [mixAndSplit]
  by_cases h : i < n
  · simp only [at_tab h]; ring
  · have h' := Nat.le_of_not_lt h
    simp only [at_tab_ge h', total]; ring

/-- the top outlet receives `split · mixed`. -/
theorem mixAndSplit_split (n : Nat) (ins : List Vec) (split : Vec) (i : Nat) (h : i < n) :
    (mixAndSplit n ins split).1.at i = (total n ins).at i * split.at i := by
  simp only [mixAndSplit, at_tab h]

/-- non-negative inlets and splits in `[0,1]` give non-negative outlets. -/
theorem mixAndSplit_nonneg (n : Nat) (ins : List Vec) (split : Vec)
    (hin : ∀ s ∈ ins, ∀ i, 0 ≤ s.at i) (hs : ∀ i, 0 ≤ split.at i ∧ split.at i ≤ 1) (i : Nat) :
    0 ≤ (mixAndSplit n ins split).1.at i ∧ 0 ≤ (mixAndSplit n ins split).2.at i := by
  have hm := total_nonneg n ins hin i
  simp only [mixAndSplit]
  by_cases h : i < n
  · simp only [at_tab h]
    obtain ⟨h0, h1⟩ := hs i
    constructor
    · exact mul_nonneg hm h0
    · nlinarith
  · simp [at_tab_ge (Nat.le_of_not_lt h)]

example : mixAndSplit 2 [[20, 5], [15, 5]] [4/5, 4/5] = ([28, 8], [7, 2]) := by decide +kernel

/-! ## adjust_moisture_content -/

/-- **balance** — whatever branch is taken (molar or mass bookkeeping, feasible or corrected),
retentate + permeate is unchanged for every chemical. -/
theorem adjust_balance (a : AdjIn) (hfix : a.asIs = false) (R' P' : Vec) (c : Bool)
    (h : adjustMoisture a = .ok (R', P', c)) (i : Nat) (hi : i < a.n) :
    R'.at i + P'.at i = a.R.at i + a.P.at i := by
  unfold adjustMoisture at h
  by_cases h1 : a.mc = 1
  · simp [h1] at h
  by_cases h2 : (if a.byMol then a.mwc else a.MW.at a.k) = 0
  · simp [h1, h2] at h
  have hs := raw_sum a h2
  simp only [h1, h2, if_false] at h
  by_cases h3 : a.raw.2 < 0
  · by_cases h4 : a.strict.getD true = true
    · simp [h3, h4] at h
    · simp only [h3, h4, hfix, if_true, if_false, Bool.false_eq_true, Except.ok.injEq, Prod.mk.injEq] at h
      obtain ⟨rfl, rfl, _⟩ := h
      rw [at_setAt hi, at_setAt hi]
      by_cases hik : i = a.k
      · subst hik; simp only [if_true]; linarith
      · simp [hik]
  · simp only [h3, if_false, Except.ok.injEq, Prod.mk.injEq] at h
    obtain ⟨rfl, rfl, _⟩ := h
    rw [at_setAt hi, at_setAt hi]
    by_cases hik : i = a.k
    · subst hik; simp only [if_true]; linarith
    · simp [hik]

/-- infeasibility is reported exactly when the permeate would go negative and the call is strict
(`strict=None` means strict). -/
theorem adjust_infeasible_iff (a : AdjIn) (h1 : a.mc ≠ 1) (h2 : (if a.byMol then a.mwc else a.MW.at a.k) ≠ 0) :
    adjustMoisture a = .error .infeasible ↔ (a.raw.2 < 0 ∧ a.strict.getD true = true) := by
  unfold adjustMoisture
  simp only [h1, h2, if_false]
  by_cases h3 : a.raw.2 < 0
  · by_cases h4 : a.strict.getD true = true
    · simp [h3, h4]
    · simp [h3, h4]
  · simp [h3]

/-- **non-negativity** — a call that returns (does not report infeasibility) leaves no negative flow. -/
theorem adjust_nonneg (a : AdjIn) (ok : AdjOK a) (hfix : a.asIs = false) (R' P' : Vec) (c : Bool)
    (h : adjustMoisture a = .ok (R', P', c)) (i : Nat) : 0 ≤ R'.at i ∧ 0 ≤ P'.at i := by
  have hs := raw_sum a (adj_mw_ne a ok)
  have hr := raw_fst_nonneg a ok
  have hRk := ok.R_nonneg a.k
  have hPk := ok.P_nonneg a.k
  unfold adjustMoisture at h
  have h1 : a.mc ≠ 1 := ne_of_lt ok.mc_range.2
  simp only [h1, adj_mw_ne a ok, if_false] at h
  by_cases hi : i < a.n
  · by_cases h3 : a.raw.2 < 0
    · by_cases h4 : a.strict.getD true = true
      · simp [h3, h4] at h
      · simp only [h3, h4, hfix, if_true, if_false, Bool.false_eq_true, Except.ok.injEq, Prod.mk.injEq] at h
        obtain ⟨rfl, rfl, _⟩ := h
        rw [at_setAt hi, at_setAt hi]
        by_cases hik : i = a.k
        · simp only [hik, if_true]; constructor <;> linarith
        · simp only [hik, if_false]; exact ⟨ok.R_nonneg i, ok.P_nonneg i⟩
    · simp only [h3, if_false, Except.ok.injEq, Prod.mk.injEq] at h
      obtain ⟨rfl, rfl, _⟩ := h
      rw [at_setAt hi, at_setAt hi]
      by_cases hik : i = a.k
      · simp only [hik, if_true]; exact ⟨hr, le_of_not_gt h3⟩
      · simp only [hik, if_false]; exact ⟨ok.R_nonneg i, ok.P_nonneg i⟩
  · have hge := Nat.le_of_not_lt hi
    by_cases h3 : a.raw.2 < 0
    · by_cases h4 : a.strict.getD true = true
      · simp [h3, h4] at h
      · simp only [h3, h4, if_true] at h
        obtain ⟨rfl, rfl, _⟩ := h
        simp [setAt, at_tab_ge hge]
    · simp only [h3, if_false, Except.ok.injEq, Prod.mk.injEq] at h
      obtain ⟨rfl, rfl, _⟩ := h
      simp [setAt, at_tab_ge hge]

/-- **target** — when the call returns without the non-strict correction and the retentate has dry
matter, the mass fraction of the moisture chemical in the retentate is exactly `mc`. -/
theorem moisture_reached (a : AdjIn) (ok : AdjOK a) (R' P' : Vec)
    (h : adjustMoisture a = .ok (R', P', false)) (hdry : 0 < dry a) :
    massFrac a.n a.MW R' a.k = a.mc := by
  unfold adjustMoisture at h
  have h1 : a.mc ≠ 1 := ne_of_lt ok.mc_range.2
  simp only [h1, adj_mw_ne a ok, if_false] at h
  by_cases h3 : a.raw.2 < 0
  · by_cases h4 : a.strict.getD true = true
    · simp [h3, h4] at h
    · simp [h3, h4] at h
  · simp only [h3, if_false, Except.ok.injEq, Prod.mk.injEq] at h
    obtain ⟨rfl, rfl, _⟩ := h
    unfold massFrac
    have hsum : sumL ((List.range a.n).map (fun i => a.MW.at i * (setAt a.n a.R a.k a.raw.1).at i)) =
        dry a + a.MW.at a.k * a.raw.1 := by
      have hc : (List.range a.n).map (fun i => a.MW.at i * (setAt a.n a.R a.k a.raw.1).at i) =
          (List.range a.n).map (fun i => if i = a.k then a.MW.at a.k * a.raw.1 else a.MW.at i * a.R.at i) := by
        apply List.map_congr_left
        intro i hi
        rw [at_setAt (List.mem_range.mp hi)]
        by_cases hik : i = a.k
        · simp [hik]
        · simp [hik]
      rw [hc, sumL_range_update a.n a.k ok.k_lt (fun i => a.MW.at i * a.R.at i)]
      unfold dry AdjIn.Fmass
      ring
    rw [hsum, at_setAt ok.k_lt, if_pos rfl, raw_fst a ok]
    have hmw := ne_of_gt ok.MW_pos
    have h1m : (1 - a.mc) ≠ 0 := by linarith [ok.mc_range.2]
    have hd := ne_of_gt hdry
    have hden : dry a + a.MW.at a.k * (dry a * a.mc / (1 - a.mc) / a.MW.at a.k) = dry a / (1 - a.mc) := by
      field_simp
      ring
    rw [hden]
    field_simp

/-- the code as found: non-strict call without enough water.  Retentate 1 + permeate 2 kmol of
water become 3 + … no: `retentate -= permeate` with a negative permeate ADDS the deficit. -/
def adjWitness (asIs : Bool) : AdjIn :=
  { n := 2, R := [1, 20], P := [2, 1/2], MW := [18, 92], k := 0, byMol := true, mwc := 18, mc := 1/2,
    strict := some false, asIs := asIs }

/-- as found, the witness ends with 201.44… kmol of water from 3 (balance broken) -/
theorem adjustAsIs_counterexample :
    ∃ R' P' c, adjustMoisture (adjWitness true) = .ok (R', P', c) ∧ R'.at 0 + P'.at 0 ≠ (adjWitness true).R.at 0 + (adjWitness true).P.at 0 := by
  refine ⟨[1813/9, 20], [0, 1/2], true, by unfold adjustMoisture; decide +kernel, by decide +kernel⟩

example : adjustMoisture (adjWitness false) = .ok ([3, 20], [0, 1/2], true) := by unfold adjustMoisture; decide +kernel
/-- non-vacuity of `AdjOK` and of `moisture_reached` -/
example : AdjOK { n := 2, R := [0, 4], P := [50, 1/8], MW := [18, 92], k := 0, byMol := true, mwc := 18, mc := 1/2,
                  strict := none } :=
  ⟨by decide, fun i => by
      match i with
      | 0 => decide +kernel
      | 1 => decide +kernel
      | (j+2) => simp [Vec.at],
    fun i => by
      match i with
      | 0 => decide +kernel
      | 1 => decide +kernel
      | (j+2) => simp [Vec.at],
    fun i => by
      match i with
      | 0 => decide +kernel
      | 1 => decide +kernel
      | (j+2) => simp [Vec.at],
    by decide +kernel, fun _ => by decide +kernel, by decide +kernel⟩

/-- `mix_and_split_with_moisture_content` closes the balance over its inlets -/
theorem mixSplitMoisture_balance (n : Nat) (ins : List Vec) (split MW : Vec) (k : Nat) (byMol : Bool) (mwc mc : Rat)
    (strict : Option Bool) (R' P' : Vec) (c : Bool)
    (h : mixSplitMoisture n ins split MW k byMol mwc mc strict = .ok (R', P', c)) (i : Nat) (hi : i < n) :
    R'.at i + P'.at i = (total n ins).at i := by
  have := adjust_balance _ rfl R' P' c h i hi
  rw [this]
  exact mixAndSplit_balance n ins split i

/-! ## phase_fraction / partition -/

/-- **balance** — for every solver output `phi`, every `K`, forced lists, old outlet contents
(also for the code as found): `top + bottom = feed`. -/
theorem partition_balance (p : PartIn) (stale : Nat → Rat) (o : PartOut) (h : p.run stale = .ok o)
    (i : Nat) (hi : i < p.n) : o.top.at i + o.bottom.at i = p.feed.at i := by
  unfold PartIn.run at h
  by_cases hF : p.F = 0
  · simp [hF] at h
  simp only [hF, if_false] at h
  split at h
  · simp at h
  · simp only [Except.ok.injEq] at h
    subst h
    simp only [at_tab hi]
    ring

/-- **non-negativity** — with a non-negative feed, a call that returns leaves no negative flow in
either outlet: for every `phi`, every `K` (any sign), strict or not, any forced lists. -/
theorem partition_nonneg (p : PartIn) (hfeed : ∀ i, 0 ≤ p.feed.at i) (o : PartOut) (h : partition p = .ok o) (i : Nat) :
    0 ≤ o.top.at i ∧ 0 ≤ o.bottom.at i := by
  by_cases hi : i < p.n
  · have hb := bottom_at p _ o h i hi
    have hbal := partition_balance p _ o h i hi
    have hr := bottomCell_range p hfeed i
    rw [← hb] at hr
    constructor <;> linarith [hr.1, hr.2]
  · have hge := Nat.le_of_not_lt hi
    unfold partition PartIn.run at h
    by_cases hF : p.F = 0
    · simp [hF] at h
    simp only [hF, if_false] at h
    split at h
    · simp at h
    · simp only [Except.ok.injEq] at h
      subst h
      simp [at_tab_ge hge]

/-- the code as found is right exactly when it should be: with an empty bottom outlet it computes what the repaired
`partition` computes (so the repair changes nothing for first calls; the difference is confined to stale outlets) -/
theorem partitionAsIs_eq_of_empty_bottom (p : PartIn) (h : ∀ i, p.bot0.at i = 0) : partitionAsIs p = partition p := by
  unfold partitionAsIs partition
  have : p.bot0.at = fun _ => (0 : Rat) := funext h
  rw [this]

/-- the code as found (DESIGN.md §8 #22): `phi ≥ 1` with 50 kmol of water left in the bottom outlet;
the balance closes, but the top outlet gets −30 kmol of water and nothing is reported. -/
def staleWitness : PartIn :=
  { n := 3, feed := [20, 20, 1], bot0 := [50, 3, 7], ids := [0, 1], K := [2, 3], topc := [], botc := [],
    phi := 1, strict := false }

theorem partitionAsIs_counterexample :
    (∀ i, 0 ≤ staleWitness.feed.at i) ∧
    ∃ o, partitionAsIs staleWitness = .ok o ∧ o.top.at 0 < 0 := by
  constructor
  · intro i
    match i with
    | 0 => decide +kernel
    | 1 => decide +kernel
    | 2 => decide +kernel
    | (j+3) => simp [Vec.at, staleWitness]
  · exact ⟨{ phi := 1, top := [-30, 17, -6], bottom := [50, 3, 7], clipped := false, warned := false },
      by unfold partitionAsIs PartIn.run; decide +kernel, by decide +kernel⟩

example : partition staleWitness =
    .ok { phi := 1, top := [20, 20, 1], bottom := [0, 0, 0], clipped := false, warned := false } := by
  unfold partition PartIn.run; decide +kernel

/-- `phi ≤ 0`: the whole equilibrium feed goes to the bottom -/
theorem partition_phi_zero (p : PartIn) (o : PartOut) (stale : Nat → Rat) (h : p.run stale = .ok o) (hphi : p.phi ≤ 0)
    (i : Nat) (hi : i < p.n) (hid : i ∈ p.ids) : o.bottom.at i = p.feed.at i ∧ o.top.at i = 0 ∧ o.phi = 0 := by
  have hb := bottom_at p _ o h i hi
  have hbal := partition_balance p _ o h i hi
  have hbr : p.branch = (some (p.ids.map p.feed.at), 0) := by simp [PartIn.branch, hphi]
  have h1 : o.bottom.at i = p.feed.at i := by
    rw [hb, hbr]
    simp [PartIn.bottomCell, lookupId_map_of_mem hid]
  refine ⟨h1, by linarith, ?_⟩
  unfold PartIn.run at h
  by_cases hF : p.F = 0
  · simp [hF] at h
  simp only [hF, if_false] at h
  split at h
  · simp at h
  · simp only [Except.ok.injEq] at h
    subst h
    simp [hbr]

/-- `phi ≥ 1` (repaired code): the whole equilibrium feed goes to the top, also when the bottom
outlet held material before the call -/
theorem partition_phi_one (p : PartIn) (o : PartOut) (h : partition p = .ok o) (hphi : 1 ≤ p.phi)
    (i : Nat) (hi : i < p.n) (_hid : i ∈ p.ids) (hb : i ∉ p.botc) : o.bottom.at i = 0 ∧ o.top.at i = p.feed.at i := by
  have hb' := bottom_at p _ o h i hi
  have hbal := partition_balance p _ o h i hi
  have h0 : ¬ p.phi ≤ 0 := by linarith
  have h1 : ¬ p.phi < 1 := by linarith
  have hbr : p.branch = (none, 1) := by simp [PartIn.branch, h0, h1]
  have hz : o.bottom.at i = 0 := by
    rw [hb', hbr]
    by_cases ht : i ∈ p.topc <;> simp [PartIn.bottomCell, hb, ht]
  exact ⟨hz, by linarith⟩

/-- **K reproduction, flow form** — two phases (`0 < phi < 1`), nothing clipped, distinct `IDs`:
for the equilibrium chemical `i` with coefficient `k > 0`
`top_i · (1 − phi) = phi · k · bottom_i`, i.e. `top_i / bottom_i = K_i · phi/(1−phi)`:
the given coefficient times a factor common to all chemicals — for EVERY `phi` the solver returns. -/
theorem partition_K (p : PartIn) (o : PartOut) (stale : Nat → Rat) (h : p.run stale = .ok o)
    (h0 : 0 < p.phi) (h1 : p.phi < 1) (hclip : p.anyClip = false) (hnd : p.ids.Nodup)
    (i : Nat) (k : Rat) (hi : i < p.n) (hmem : (i, k) ∈ p.ids.zip p.K) (hk : 0 < k) :
    o.top.at i * (1 - p.phi) = p.phi * k * o.bottom.at i := by
  have hb := bottom_at p _ o h i hi
  have hbal := partition_balance p _ o h i hi
  have hF : p.F ≠ 0 := by
    intro hF
    simp [PartIn.run, hF] at h
  have hbr : p.branch.1 = some (p.eqBottom.map (·.1)) := by
    simp [PartIn.branch, not_le.mpr h0, h1]
  have hden : 0 < p.phi * k + (1 - p.phi) := by nlinarith
  have hcell : o.bottom.at i = p.feed.at i * (1 - p.phi) / (p.phi * k + (1 - p.phi)) := by
    rw [hb, hbr]
    unfold PartIn.bottomCell PartIn.eqBottom
    simp only [Option.bind_some]
    rw [lookupId_zipWith_of_mem hnd hmem]
    simp only
    have hnc : ((clip1 (p.rawBottom (p.feed.at i) k) (p.feed.at i)).2.1 ||
        (clip1 (p.rawBottom (p.feed.at i) k) (p.feed.at i)).2.2) = false := by
      unfold PartIn.anyClip PartIn.eqBottom at hclip
      rw [List.any_eq_false] at hclip
      have hm : clip1 (p.rawBottom (p.feed.at i) k) (p.feed.at i) ∈
          List.zipWith (fun i k => clip1 (p.rawBottom (p.feed.at i) k) (p.feed.at i)) p.ids p.K := by
        rw [← List.map_uncurry_zip_eq_zipWith]
        exact List.mem_map.mpr ⟨(i, k), hmem, rfl⟩
      have := hclip _ hm
      simpa using this
    rw [clip1_id _ _ hnc, rawBottom_eq p hF _ _ (ne_of_gt hden)]
  have htop : o.top.at i = p.feed.at i - o.bottom.at i := by linarith
  rw [htop, hcell]
  field_simp
  ring

/-- **K reproduction, ratio form** — for two equilibrium chemicals the achieved ratios
`top/(K·bottom)` coincide ("up to the common factor"): cross-multiplied to avoid division. -/
theorem partition_K_ratio (p : PartIn) (o : PartOut) (stale : Nat → Rat) (h : p.run stale = .ok o)
    (h0 : 0 < p.phi) (h1 : p.phi < 1) (hclip : p.anyClip = false) (hnd : p.ids.Nodup)
    (i j : Nat) (ki kj : Rat) (hi : i < p.n) (hj : j < p.n)
    (hmi : (i, ki) ∈ p.ids.zip p.K) (hmj : (j, kj) ∈ p.ids.zip p.K) (hki : 0 < ki) (hkj : 0 < kj) :
    o.top.at i * (kj * o.bottom.at j) = o.top.at j * (ki * o.bottom.at i) := by
  have e1 := partition_K p o stale h h0 h1 hclip hnd i ki hi hmi hki
  have e2 := partition_K p o stale h h0 h1 hclip hnd j kj hj hmj hkj
  have h1m : (1 - p.phi) ≠ 0 := by linarith
  have hphi : p.phi ≠ 0 := ne_of_gt h0
  have : (o.top.at i * (kj * o.bottom.at j)) * (p.phi * (1 - p.phi)) =
      (o.top.at j * (ki * o.bottom.at i)) * (p.phi * (1 - p.phi)) := by
    calc (o.top.at i * (kj * o.bottom.at j)) * (p.phi * (1 - p.phi))
        = (o.top.at i * (1 - p.phi)) * (p.phi * kj * o.bottom.at j) := by ring
      _ = (p.phi * ki * o.bottom.at i) * (o.top.at j * (1 - p.phi)) := by rw [e1, e2]
      _ = (o.top.at j * (ki * o.bottom.at i)) * (p.phi * (1 - p.phi)) := by ring
  exact mul_right_cancel₀ (mul_ne_zero hphi h1m) this

/-- **K reproduction, mole-fraction form** — if moreover `phi` is consistent with the outlets
(total top : total bottom = phi : 1 − phi, which is what a converged Rachford–Rice solution with
forced chemicals gives), then `y_i / x_i = K_i` exactly. -/
theorem partition_K_exact (p : PartIn) (o : PartOut) (stale : Nat → Rat) (h : p.run stale = .ok o)
    (h0 : 0 < p.phi) (h1 : p.phi < 1) (hclip : p.anyClip = false) (hnd : p.ids.Nodup)
    (i : Nat) (k : Rat) (hi : i < p.n) (hmem : (i, k) ∈ p.ids.zip p.K) (hk : 0 < k)
    (Ftop Fbot : Rat) (hFt : Ftop ≠ 0) (hFb : Fbot ≠ 0) (hphi : Ftop * (1 - p.phi) = p.phi * Fbot) :
    o.top.at i / Ftop = k * (o.bottom.at i / Fbot) := by
  have e1 := partition_K p o stale h h0 h1 hclip hnd i k hi hmem hk
  have h1m : (1 - p.phi) ≠ 0 := by linarith
  have hp : p.phi ≠ 0 := ne_of_gt h0
  rw [div_eq_iff hFt]
  have : o.top.at i * ((1 - p.phi) * Fbot) = k * (o.bottom.at i / Fbot) * Ftop * ((1 - p.phi) * Fbot) := by
    calc o.top.at i * ((1 - p.phi) * Fbot) = (o.top.at i * (1 - p.phi)) * Fbot := by ring
      _ = p.phi * k * o.bottom.at i * Fbot := by rw [e1]
      _ = k * o.bottom.at i * (p.phi * Fbot) := by ring
      _ = k * o.bottom.at i * (Ftop * (1 - p.phi)) := by rw [hphi]
      _ = k * (o.bottom.at i / Fbot) * Ftop * ((1 - p.phi) * Fbot) := by field_simp
  exact mul_right_cancel₀ (mul_ne_zero h1m hFb) this

/-- `separations.phase_fraction` returns a fraction -/
theorem phaseFraction_range (p : PartIn) (r : Rat) (h : phaseFraction p = .ok r) : 0 ≤ r ∧ r ≤ 1 := by
  unfold phaseFraction at h
  by_cases hF : p.F = 0
  · simp [hF] at h
  simp only [hF, if_false] at h
  by_cases h0 : p.phi ≤ 0
  · simp only [h0, if_true, Except.ok.injEq] at h; subst h; constructor <;> norm_num
  · by_cases h1 : p.phi < 1
    · simp only [h0, h1, if_true, if_false] at h
      split at h
      · simp at h
      · simp only [Except.ok.injEq] at h; subst h; exact ⟨le_of_lt (not_le.mp h0), le_of_lt h1⟩
    · simp only [h0, h1, if_false, Except.ok.injEq] at h; subst h; constructor <;> norm_num

/-- non-vacuity: a two-phase partition with a forced chemical -/
def partWitness : PartIn :=
  { n := 3, feed := [20, 20, 1/10], bot0 := [50, 3, 7], ids := [0, 1], K := [1/2, 2], topc := [2], botc := [],
    phi := 1/2, strict := false }

example : partition partWitness =
    .ok { phi := 1/2, top := [20/3, 40/3, 1/10], bottom := [40/3, 20/3, 0], clipped := false, warned := false } := by
  unfold partition PartIn.run; decide +kernel
example : partWitness.anyClip = false ∧ partWitness.ids.Nodup ∧ ((0, (1/2 : Rat)) ∈ partWitness.ids.zip partWitness.K) := by
  decide +kernel

/-- forced-top chemical (not an equilibrium chemical, not also forced to the bottom): all of it leaves at the top -/
theorem partition_forced_top (p : PartIn) (o : PartOut) (stale : Nat → Rat) (h : p.run stale = .ok o)
    (i : Nat) (hi : i < p.n) (ht : i ∈ p.topc) (hid : i ∉ p.ids) (hb : i ∉ p.botc) :
    o.bottom.at i = 0 ∧ o.top.at i = p.feed.at i := by
  have hb' := bottom_at p _ o h i hi
  have hbal := partition_balance p _ o h i hi
  have hz : o.bottom.at i = 0 := by
    rw [hb']
    unfold PartIn.bottomCell
    cases hv : p.branch.1 with
    | none => simp [hb, ht]
    | some vals => simp [lookupId_none_of_not_mem hid, hb, ht]
  exact ⟨hz, by linarith⟩

/-- forced-bottom chemical: all of it leaves at the bottom -/
theorem partition_forced_bottom (p : PartIn) (o : PartOut) (stale : Nat → Rat) (h : p.run stale = .ok o)
    (i : Nat) (hi : i < p.n) (hb : i ∈ p.botc) (hid : i ∉ p.ids) :
    o.bottom.at i = p.feed.at i ∧ o.top.at i = 0 := by
  have hb' := bottom_at p _ o h i hi
  have hbal := partition_balance p _ o h i hi
  have hz : o.bottom.at i = p.feed.at i := by
    rw [hb']
    unfold PartIn.bottomCell
    cases hv : p.branch.1 with
    | none => simp [hb]
    | some vals => simp [lookupId_none_of_not_mem hid, hb]
  exact ⟨hz, by linarith⟩

/-- a chemical that is not listed anywhere "ends up in the top phase" (docstring), whatever the bottom held before -/
theorem partition_unlisted_top (p : PartIn) (o : PartOut) (h : partition p = .ok o)
    (i : Nat) (hi : i < p.n) (ht : i ∉ p.topc) (hid : i ∉ p.ids) (hb : i ∉ p.botc) :
    o.bottom.at i = 0 ∧ o.top.at i = p.feed.at i := by
  have hb' := bottom_at p _ o h i hi
  have hbal := partition_balance p _ o h i hi
  have hz : o.bottom.at i = 0 := by
    rw [hb']
    unfold PartIn.bottomCell
    cases hv : p.branch.1 with
    | none => simp [hb, ht]
    | some vals => simp [lookupId_none_of_not_mem hid, hb, ht]
  exact ⟨hz, by linarith⟩

/-- **achieved coefficients** — what `partition_coefficients(IDs, top, bottom)` computes from the outlets of a
two-phase, un-clipped `partition` is `K_i` times a factor that is the same for every equilibrium chemical:
`φ/(1−φ) · (Σ_IDs bottom)/(Σ_IDs top)` (equal to 1 when nothing is forced and `φ` is the Rachford–Rice root). -/
theorem achievedK_common_factor (p : PartIn) (o : PartOut) (stale : Nat → Rat) (h : p.run stale = .ok o)
    (h0 : 0 < p.phi) (h1 : p.phi < 1) (hclip : p.anyClip = false) (hnd : p.ids.Nodup)
    (i : Nat) (k : Rat) (hi : i < p.n) (hmem : (i, k) ∈ p.ids.zip p.K) (hk : 0 < k)
    (hb : o.bottom.at i ≠ 0) (hT : sumOver p.ids o.top.at ≠ 0) (hB : sumOver p.ids o.bottom.at ≠ 0) :
    achievedK p.ids o.top o.bottom i =
      k * (p.phi / (1 - p.phi) * (sumOver p.ids o.bottom.at / sumOver p.ids o.top.at)) := by
  have e1 := partition_K p o stale h h0 h1 hclip hnd i k hi hmem hk
  have h1m : (1 - p.phi) ≠ 0 := by linarith
  have ht : o.top.at i = p.phi * k * o.bottom.at i / (1 - p.phi) := by
    rw [eq_div_iff h1m]; exact e1
  unfold achievedK
  rw [ht]
  field_simp

/-! ## Rachford–Rice sign lemmas (DESIGN.md §8 #25) -/

/-- all `K ≤ 1`: the Rachford–Rice sum is `≤ 0` on the whole interval — there is no interior root,
and at `φ = 0` it says `Σ K z ≤ Σ z`: no top phase forms.  The consistent answer is `φ = 0`
(what `solve_phase_fraction_Rashford_Rice` returns), not 1 (the 2-component shortcut). -/
theorem rr_nonpos_of_K_le_one (zs ks : List Rat) (phi : Rat) (hz : ∀ z ∈ zs, 0 ≤ z)
    (hk : ∀ k ∈ ks, 0 < k ∧ k ≤ 1) (_h0 : 0 ≤ phi) (h1 : phi ≤ 1) : rr zs ks phi ≤ 0 := by
  unfold rr
  induction zs generalizing ks with
  | nil => simp
  | cons z zt ih =>
    cases ks with
    | nil => simp
    | cons k kt =>
      simp only [List.zipWith_cons_cons, sumL_cons]
      have hz0 := hz z (by simp)
      obtain ⟨hk0, hk1⟩ := hk k (by simp)
      have hrest := ih kt (fun z hz' => hz z (by simp [hz'])) (fun k hk' => hk k (by simp [hk']))
      have hden : 0 < 1 + phi * (k - 1) := by nlinarith
      have : z * (k - 1) / (1 + phi * (k - 1)) ≤ 0 :=
        div_nonpos_of_nonpos_of_nonneg (by nlinarith) (le_of_lt hden)
      linarith

/-- all `K ≥ 1`: the sum is `≥ 0` on the whole interval; the consistent answer is `φ = 1`. -/
theorem rr_nonneg_of_K_ge_one (zs ks : List Rat) (phi : Rat) (hz : ∀ z ∈ zs, 0 ≤ z)
    (hk : ∀ k ∈ ks, 1 ≤ k) (h0 : 0 ≤ phi) (_h1 : phi ≤ 1) : 0 ≤ rr zs ks phi := by
  unfold rr
  induction zs generalizing ks with
  | nil => simp
  | cons z zt ih =>
    cases ks with
    | nil => simp
    | cons k kt =>
      simp only [List.zipWith_cons_cons, sumL_cons]
      have hz0 := hz z (by simp)
      have hk1 := hk k (by simp)
      have hrest := ih kt (fun z hz' => hz z (by simp [hz'])) (fun k hk' => hk k (by simp [hk']))
      have hden : 0 < 1 + phi * (k - 1) := by nlinarith
      have : 0 ≤ z * (k - 1) / (1 + phi * (k - 1)) := div_nonneg (by nlinarith) (le_of_lt hden)
      linarith

/-- the two paths of `binary_phase_fraction.phase_fraction` (as found) use opposite conventions on the
same coefficients: with both `K ≤ 1` and nothing forced, the 2-component path answers 1 while the
early exit of the N-component solver answers 0. -/
theorem shortcut_conventions_disagree (z1 z2 k1 k2 s : Rat) (h1 : k1 ≤ 1) (h2 : k2 ≤ 1) :
    binaryPhaseFraction [z1, z2] [k1, k2] 0 0 s = .ok 1 ∧ rrShortcut [k1, k2] 0 0 = some 0 := by
  have hm : maxL [k1, k2] ≤ 1 + tol9 := by
    have : (0 : Rat) ≤ tol9 := by decide +kernel
    simp only [maxL]
    by_cases h : k2 < k1 <;> simp only [h, if_true, if_false] <;> linarith
  constructor
  · simp [binaryPhaseFraction, pfPath, hm]
  · simp [rrShortcut, hm]

/-- the closed form used for two components is the Rachford–Rice root (for normalised `z`) -/
theorem phaseFraction2N_root (z1 z2 k1 k2 : Rat) (hz : z1 + z2 = 1) (hk1 : k1 ≠ 1) (hk2 : k2 ≠ 1)
    (hd1 : 1 + phaseFraction2N z1 z2 k1 k2 * (k1 - 1) ≠ 0) (hd2 : 1 + phaseFraction2N z1 z2 k1 k2 * (k2 - 1) ≠ 0) :
    rr [z1, z2] [k1, k2] (phaseFraction2N z1 z2 k1 k2) = 0 := by
  have ha : k1 - 1 ≠ 0 := sub_ne_zero.mpr hk1
  have hb : k2 - 1 ≠ 0 := sub_ne_zero.mpr hk2
  have hden : k1 * k2 * z1 + k1 * k2 * z2 - k1 * z2 - (k1 * z1 + k2 * z2) - k2 * z1 + (z1 + z2) = (k1 - 1) * (k2 - 1) := by
    have : z2 = 1 - z1 := by linarith
    subst this; ring
  have hphi : phaseFraction2N z1 z2 k1 k2 = -(z1 * (k1 - 1) + z2 * (k2 - 1)) / ((k1 - 1) * (k2 - 1)) := by
    unfold phaseFraction2N
    rw [hden]
    congr 1
    have : z2 = 1 - z1 := by linarith
    subst this; ring
  set φ := phaseFraction2N z1 z2 k1 k2 with hφ
  have key : z1 * (k1 - 1) * (1 + φ * (k2 - 1)) + z2 * (k2 - 1) * (1 + φ * (k1 - 1)) = 0 := by
    rw [hphi]
    field_simp
    have : z2 = 1 - z1 := by linarith
    subst this; ring
  simp only [rr, List.zipWith_cons_cons, List.zipWith_nil_right, sumL_cons, sumL_nil, add_zero]
  rw [div_add_div _ _ hd1 hd2, div_eq_zero_iff]
  left
  linarith [key]

/-- whatever path is taken, `phase_fraction` answers with a fraction -/
theorem binaryPhaseFraction_range (zs ks : List Rat) (za zb s r : Rat)
    (h : binaryPhaseFraction zs ks za zb s = .ok r) : 0 ≤ r ∧ r ≤ 1 := by
  unfold binaryPhaseFraction at h
  split at h
  · simp only [Except.ok.injEq] at h; subst h; exact asValidFraction_range _
  · simp only [Except.ok.injEq] at h; subst h; constructor <;> norm_num
  · simp only [Except.ok.injEq] at h; subst h; constructor <;> norm_num
  · simp only [Except.ok.injEq] at h; subst h; exact asValidFraction_range _
  · exact absurd h (by simp)

/-! ## lle / vle wrappers -/

/-- **efficiency_conserves / balance** — whatever the equilibrium call left in the two liquid rows,
as long as they sum to the feed, `top + bottom = feed` for every efficiency, every choice of the
top phase, every density. -/
theorem lle_balance (n : Nat) (feed rowL rowl : Vec) (tc : Bool) (rho_l rho_L : Option Rat) (e : Rat)
    (hrows : ∀ i, rowL.at i + rowl.at i = feed.at i) (i : Nat) (hi : i < n) :
    (lleWrap n feed rowL rowl tc rho_l rho_L e).1.at i + (lleWrap n feed rowL rowl tc rho_l rho_L e).2.at i = feed.at i := by
  unfold lleWrap
  have := hrows i
  by_cases hc : lleTopIsSmallL tc rho_l rho_L = true <;> simp only [hc, if_true, if_false, Bool.false_eq_true] <;>
    simp only [effMix_at _ _ _ _ _ hi] <;> split <;> first | linarith | (rw [← this]; ring)

theorem lle_nonneg (n : Nat) (feed rowL rowl : Vec) (tc : Bool) (rho_l rho_L : Option Rat) (e : Rat)
    (hL : ∀ i, 0 ≤ rowL.at i) (hl : ∀ i, 0 ≤ rowl.at i) (hf : ∀ i, 0 ≤ feed.at i) (he : 0 ≤ e) (i : Nat) :
    0 ≤ (lleWrap n feed rowL rowl tc rho_l rho_L e).1.at i ∧ 0 ≤ (lleWrap n feed rowL rowl tc rho_l rho_L e).2.at i := by
  have key : ∀ eq : Vec, (∀ i, 0 ≤ eq.at i) → 0 ≤ (effMix n feed eq e).at i := by
    intro eq heq
    by_cases hi : i < n
    · rw [effMix_at _ _ _ _ _ hi]
      split
      · have h1 : 0 ≤ (1 - e) / 2 := by linarith
        have := mul_nonneg (heq i) he
        have := mul_nonneg h1 (hf i)
        linarith
      · exact heq i
    · unfold effMix
      split <;> simp [at_tab_ge (Nat.le_of_not_lt hi)]
  unfold lleWrap
  by_cases hc : lleTopIsSmallL tc rho_l rho_L = true
  · simp only [hc, if_true]; exact ⟨key _ hl, key _ hL⟩
  · simp only [hc, if_false, Bool.false_eq_true]; exact ⟨key _ hL, key _ hl⟩

example : lleWrap 2 [2, 2] [1, 0] [1, 2] false (some 1) (some 2) (1/2) = ([1, 3/2], [1, 1/2]) := by decide +kernel

/-! ### the reused `multi_stream=` holder -/

/-- an equilibrium routine that conserves every chemical of what it is given (property C03) -/
def Conserves (n : Nat) (eqm : Vec × Vec → Vec × Vec) : Prop :=
  ∀ (r : Vec × Vec) (i : Nat), i < n → (eqm r).1.at i + (eqm r).2.at i = r.1.at i + r.2.at i

/-- **balance of a whole call with a reused holder** — for every conserving equilibrium routine, every previous
holder content, efficiency, top-phase choice: `top + bottom = feed` -/
theorem lleFull_balance (n : Nat) (h : Vec × Vec) (feed : Vec) (eqm : Vec × Vec → Vec × Vec) (hc : Conserves n eqm)
    (tc : Bool) (rho_l rho_L : Option Rat) (e : Rat) (i : Nat) (hi : i < n) :
    (lleFull n h feed eqm tc rho_l rho_L e).1.at i + (lleFull n h feed eqm tc rho_l rho_L e).2.at i = feed.at i := by
  have h1 := hc (holderLoad n h feed) i hi
  have h2 := holderLoad_total n h feed i hi
  have hrow : (eqm (holderLoad n h feed)).1.at i + (eqm (holderLoad n h feed)).2.at i = feed.at i := by linarith
  unfold lleFull lleWrap
  by_cases hcz : lleTopIsSmallL tc rho_l rho_L = true <;> simp only [hcz, if_true, if_false, Bool.false_eq_true] <;>
    simp only [effMix_at _ _ _ _ _ hi] <;> split <;> first | linarith | (rw [← hrow]; ring)

theorem vleFull_balance (n : Nat) (h : Vec × Vec) (feed : Vec) (eqm : Vec × Vec → Vec × Vec) (hc : Conserves n eqm)
    (i : Nat) (hi : i < n) : (vleFull n h feed eqm).1.at i + (vleFull n h feed eqm).2.at i = feed.at i := by
  have h1 := hc (holderLoad n h feed) i hi
  have h2 := holderLoad_total n h feed i hi
  simp only [vleFull, vleWrap, at_tab hi]
  linarith

/-- non-vacuity: the identity "equilibrium" conserves, and a stale holder changes nothing -/
example : Conserves 2 id := fun _ _ _ => rfl
example : lleFull 2 ([5, 5], [1, 2]) [2, 2] id false (some 1) (some 2) (1/2) = lleFull 2 ([], []) [2, 2] id false (some 1) (some 2) (1/2) := rfl

/-! ## phase_split -/

theorem phaseSplit_error_iff (n : Nat) (phases : List String) (rows : List Vec) (nout : Nat) :
    phaseSplit n phases rows nout = .error .runtime ↔ nout ≠ phases.length := by
  unfold phaseSplit
  by_cases h : nout = phases.length <;> simp [h]

/-- **phase rows** — outlet `j` gets the label and the row of phase `j` -/
theorem phaseSplit_rows (n : Nat) (phases : List String) (rows : List Vec) (nout : Nat) (outs : List (String × Vec))
    (h : phaseSplit n phases rows nout = .ok outs) (hlen : rows.length = phases.length) :
    outs.length = nout ∧ ∀ j (hj : j < outs.length) (hp : j < phases.length) (hr : j < rows.length),
      outs[j] = (phases[j], tab n rows[j].at) := by
  unfold phaseSplit at h
  by_cases hn : nout = phases.length
  · simp only [hn, ne_eq, not_true_eq_false, if_false, Except.ok.injEq] at h
    subst h
    constructor
    · simp [hlen, hn]
    · intro j hj hp hr
      simp
  · simp [hn] at h

/-- **balance** — the outlets together hold what the phases of the feed held -/
theorem phaseSplit_balance (n : Nat) (phases : List String) (rows : List Vec) (nout : Nat) (outs : List (String × Vec))
    (h : phaseSplit n phases rows nout = .ok outs) (hlen : rows.length = phases.length) (i : Nat) (hi : i < n) :
    sumL (outs.map (·.2.at i)) = sumL (rows.map (·.at i)) := by
  unfold phaseSplit at h
  by_cases hn : nout = phases.length
  · simp only [hn, ne_eq, not_true_eq_false, if_false, Except.ok.injEq] at h
    subst h
    have : (phases.zip (rows.map fun r => tab n r.at)).map (·.2.at i) = rows.map (·.at i) := by
      have hf : (fun x : String × Vec => x.2.at i) = (fun v : Vec => v.at i) ∘ Prod.snd := rfl
      rw [hf, ← List.map_map, List.map_snd_zip (by simp [hlen]), List.map_map]
      apply List.map_congr_left
      intro r _
      simp [at_tab hi]
    rw [this]
  · simp [hn] at h

example : phaseSplit 2 ["g", "l"] [[1, 2], [3, 4]] 2 = .ok [("g", [1, 2]), ("l", [3, 4])] := by
  unfold phaseSplit; decide +kernel

/-! ## chemical_splits -/

/-- **round trip** — `split · mixed = first stream` wherever the mixed stream has the chemical (or the first has none) -/
theorem splits_roundtrip (n : Nat) (a : Vec) (b mixed : Option Vec) (i : Nat) (hi : i < n)
    (m : Rat) (hm : m = match mixed with | some mv => mv.at i | none => a.at i + (b.getD []).at i)
    (hsupp : m ≠ 0 ∨ a.at i = 0) : (chemicalSplits n a b mixed).at i * m = a.at i := by
  unfold chemicalSplits
  simp only [at_tab hi]
  by_cases ha : a.at i = 0
  · simp [ha]
  · have hm0 : m ≠ 0 := by
      rcases hsupp with h | h
      · exact h
      · exact absurd h ha
    simp only [ha, if_false]
    cases mixed with
    | some mv => simp only at hm ⊢; rw [← hm]; field_simp
    | none => simp only at hm ⊢; rw [← hm]; field_simp

theorem splits_range (n : Nat) (a : Vec) (b : Vec) (i : Nat) (ha : 0 ≤ a.at i) (hb : 0 ≤ b.at i) :
    0 ≤ (chemicalSplits n a (some b) none).at i ∧ (chemicalSplits n a (some b) none).at i ≤ 1 := by
  unfold chemicalSplits
  rw [at_tab_eq]
  split
  · by_cases h0 : a.at i = 0
    · simp [h0]
    · have hpos : 0 < a.at i := lt_of_le_of_ne ha (Ne.symm h0)
      simp only [h0, if_false, Option.getD_some]
      have hs : 0 < a.at i + b.at i := by linarith
      exact ⟨div_nonneg ha (le_of_lt hs), (div_le_one hs).mpr (by linarith)⟩
  · constructor <;> norm_num

example : chemicalSplits 2 [1, 0] (some [3, 0]) none = [1/4, 0] := by decide +kernel

/-! ## material_balance (`balance='flow'`) -/

/-- **balance_solves** — when the call returns, inlets − outlets vanish on every chosen chemical -/
theorem balance_solves (m : BalIn) (vin' : List Vec) (h : materialBalance m = .ok vin')
    (c : Nat) (hc : c ∈ m.idx) (hcn : c < m.n) : m.residual vin' c = 0 := by
  unfold materialBalance at h
  split at h
  · simp at h
  · split at h
    · rename_i x hx
      simp only [Except.ok.injEq] at h
      subst h
      obtain ⟨hAx, _⟩ := solveChecked_sound _ _ _ hx
      unfold matVec BalIn.A BalIn.b at hAx
      rw [List.map_map] at hAx
      have := List.map_inj_left.mp hAx c hc
      simp only [Function.comp] at this
      unfold BalIn.residual
      rw [sumL_scaleInlets m.n c hcn, this]
      ring
    · simp at h

/-- **uniqueness of the factors** — if the inlet-composition matrix has a left inverse `B`, two exact solutions of
`A x = b` coincide: the scale factors (hence the new inlets) are determined by the data, whatever solver is used. -/
theorem balance_factors_unique (A B : List (List Rat)) (b x x' : List Rat)
    (hinv : ∀ y : List Rat, y.length = b.length → matVec B (matVec A y) = y)
    (hx : matVec A x = b) (hx' : matVec A x' = b) (hl : x.length = b.length) (hl' : x'.length = b.length) : x = x' := by
  rw [← hinv x hl, ← hinv x' hl', hx, hx']

/-- Totality half of `balance_solves`: a left-invertible square system is solved (the model returns a result).
Proved below (`balance_total`) from soundness and completeness of the elimination
(`solveRec_sound`, `solveRec_complete` in Lemmas/Separations.lean). -/
def balance_total_statement : Prop :=
  ∀ (m : BalIn) (B : List (List Rat)), m.vin.length = m.idx.length →
    (∀ y : List Rat, y.length = m.idx.length → matVec B (matVec m.A y) = y) →
    ∃ v, materialBalance m = .ok v

/-- **totality** — with as many variable inlets as chosen chemicals and a left-invertible inlet-composition matrix,
`material_balance` returns (Gaussian elimination with the first-non-zero pivot rule finds a pivot in every column) -/
theorem balance_total : balance_total_statement := by
  intro m B hlen hinv
  have hb : m.b.length = m.idx.length := by simp [BalIn.b]
  have hrows : ∀ a ∈ m.A, a.length = m.b.length := by
    intro a ha
    obtain ⟨c, _, rfl⟩ := List.mem_map.mp ha
    simp [hb, hlen]
  obtain ⟨x, hx⟩ := solveChecked_total (B := B) (balIn_A_length m) hrows (by rw [hb]; exact hinv)
  exact ⟨scaleInlets m.n x m.vin, by simp [materialBalance, hlen, hx]⟩

/-- **the material-balance clause as one theorem** — for a left-invertible inlet-composition matrix the solver
returns, and the scaled variable inlets make inlets − outlets vanish on every chosen chemical -/
theorem balance_solves_invertible (m : BalIn) (B : List (List Rat)) (hlen : m.vin.length = m.idx.length)
    (hidx : ∀ c ∈ m.idx, c < m.n)
    (hinv : ∀ y : List Rat, y.length = m.idx.length → matVec B (matVec m.A y) = y) :
    ∃ v, materialBalance m = .ok v ∧ ∀ c ∈ m.idx, m.residual v c = 0 := by
  have hb : m.b.length = m.idx.length := by simp [BalIn.b]
  have hrows : ∀ a ∈ m.A, a.length = m.b.length := by
    intro a ha
    obtain ⟨c, _, rfl⟩ := List.mem_map.mp ha
    simp [hb, hlen]
  obtain ⟨x, hx⟩ := solveChecked_total (B := B) (balIn_A_length m) hrows (by rw [hb]; exact hinv)
  have hok : materialBalance m = .ok (scaleInlets m.n x m.vin) := by simp [materialBalance, hlen, hx]
  exact ⟨_, hok, fun c hc => balance_solves m _ hok c hc (hidx c hc)⟩

/-- non-vacuity: the identity matrix is its own left inverse -/
example : ∀ y : List Rat, y.length = 2 → matVec [[1, 0], [0, 1]] (matVec [[1, 0], [0, 1]] y) = y := by
  intro y hy
  match y, hy with
  | [a, b], _ => simp [matVec, dot]

example : materialBalance { n := 2, idx := [0, 1], vin := [[1, 0], [0, 1]], cin := [[100, 0]], cout := [[200, 2], [0, 100]] }
    = .ok [[100, 0], [0, 102]] := by unfold materialBalance; decide +kernel

/-! ## material_balance (`balance='composition'`) -/

/-- **composition balance** — when `material_balance(balance='composition')` returns and the last solution was not
shifted, then for every chosen chemical the inlets deviate from the outlet composition `f_c` times the total inlet
flow by exactly `f_c` times the change of the total variable-inlet flow in the last iteration, and that last
iteration changed the factors by at most the tolerance (sum of squared relative changes `≤ 1e-6`). -/
theorem composition_balance (m : CompIn) (o : CompOut) (h : compositionBalance m = .ok o) (hsh : o.shifted = false)
    (c : Nat) (hc : c ∈ m.idx) (hcn : c < m.n) :
    sumL (o.vin.map (·.at c)) + m.g c - m.f c * (m.S o.x + m.G) = m.f c * (m.S o.xPrev - m.S o.x)
      ∧ relChange2 o.x o.xPrev ≤ m.tol := by
  unfold compositionBalance at h
  split at h
  · simp at h
  · split at h
    · simp at h
    · rename_i x xp sh it hl
      simp only [Except.ok.injEq] at h
      subst h
      simp only at hsh ⊢
      obtain ⟨hstep, htol⟩ := loop_ok m _ _ _ _ _ _ _ hl
      refine ⟨?_, htol⟩
      unfold CompIn.step at hstep
      cases hsol : solveChecked m.A (m.rhs xp) with
      | none => simp [hsol] at hstep
      | some y =>
        simp only [hsol, Option.map_some, Option.some.injEq] at hstep
        have h2 : (shiftNeg y).2 = false := by rw [hstep]; exact hsh
        have h1 : (shiftNeg y).1 = x := by rw [hstep]
        rw [shiftNeg_false y h2] at h1
        subst h1
        exact composition_step_residual m xp y hsol c hc hcn

/-- at an exact fixed point the chosen chemicals enter in exactly the outlet composition -/
theorem composition_fixed_point (m : CompIn) (o : CompOut) (h : compositionBalance m = .ok o) (hsh : o.shifted = false)
    (hfix : o.xPrev = o.x) (c : Nat) (hc : c ∈ m.idx) (hcn : c < m.n) :
    sumL (o.vin.map (·.at c)) + m.g c = m.f c * (m.S o.x + m.G) := by
  have := (composition_balance m o h hsh c hc hcn).1
  rw [hfix] at this
  linarith

/-- the code as found has no iteration cap; on this invertible system (the inlets carry chemicals that are not chosen,
so the rank-one iteration is not a contraction) the model is still iterating after 80 steps — the real loop runs on
until the floats overflow (fixes_proposed/C20-5.md) -/
theorem composition_noconv_example :
    compositionBalance { n := 4, idx := [0, 1], vin := [[4, 1/2, 0, 1/4], [1, 5, 1/2, 0]], cin := [[100, 0, 3, 0]],
                         cout := [[200, 2, 0, 5], [0, 100, 0, 0]], fuel := 80, tol := 1/1000000 } = .error .noConv := by
  unfold compositionBalance; decide +kernel

example : (match compositionBalance { n := 2, idx := [0, 1], vin := [[1, 0], [0, 1]], cin := [[100, 0]],
                                      cout := [[200, 2], [0, 100]], fuel := 80, tol := 1/1000000 } with
           | .ok o => (o.iterations, o.shifted) | .error _ => (0, true)) = (3, false) := by
  unfold compositionBalance; decide +kernel

/-! ## aliasing: the feed object is one of the outlets -/

/-- `top is feed` is harmless when no chemical is forced to the bottom -/
theorem partitionAliased_top_ok (p : PartIn) (hb : p.botc = []) : partitionAliased p .top = partition p := by
  unfold partitionAliased
  cases hpo : partition p with
  | error e => rfl
  | ok o =>
    simp only
    unfold partition PartIn.run at hpo
    by_cases hF : p.F = 0
    · simp [hF] at hpo
    simp only [hF, if_false] at hpo
    split at hpo
    · simp at hpo
    · simp only [Except.ok.injEq] at hpo
      subst hpo
      simp [hb]

/-- `top is feed` with a forced-bottom chemical (as found): that chemical leaves at the top with the flow `−feed` -/
theorem partitionAliased_top_counterexample :
    ∃ o, partitionAliased { n := 3, feed := [20, 20, 1], bot0 := [], ids := [0, 1], K := [1/2, 2], topc := [], botc := [2],
                            phi := 1/2, strict := false } .top = .ok o ∧ o.top.at 2 = -1 := by
  refine ⟨{ phi := 1/2, top := [20/3, 40/3, -1], bottom := [40/3, 20/3, 1], clipped := false, warned := false }, ?_, by decide +kernel⟩
  unfold partitionAliased partition PartIn.run; decide +kernel

/-- `bottom is feed` (as found): the feed is destroyed, the top comes out empty — the balance does not close -/
theorem partitionAliased_bottom_counterexample :
    ∃ o, partitionAliased { n := 3, feed := [20, 20, 1], bot0 := [], ids := [0, 1], K := [1/2, 2], topc := [2], botc := [],
                            phi := 1/2, strict := false } .bottom = .ok o ∧ o.top.at 0 + o.bottom.at 0 ≠ 20 := by
  refine ⟨{ phi := 1/2, top := [0, 0, 0], bottom := [40/3, 20/3, 0], clipped := false, warned := false }, ?_, by decide +kernel⟩
  unfold partitionAliased partition PartIn.run; decide +kernel

/-! ## phase-fraction consistency (the value the solver returns) -/

/-- **a root of the code's objective is a consistent phase fraction** — if `phase_fraction_objective_function`
vanishes at `φ ∈ (0,1)` for normalised fractions (`Σ z + za + zb = 1`), then the bottom-phase fractions
`x_i = z_i/(1 + φ(K_i − 1))` together with the forced-bottom share sum to 1, and so do the top-phase fractions
`K_i x_i` with the forced-top share: both phases are properly normalised. -/
theorem rr_root_sums (zs ks : List Rat) (hl : zs.length = ks.length) (za zb phi : Rat) (h0 : 0 < phi) (h1 : phi < 1)
    (hza : 0 ≤ za) (hzb : 0 ≤ zb) (hd : ∀ k ∈ ks, 1 + phi * (k - 1) ≠ 0) (hsum : sumL zs + za + zb = 1)
    (hroot : rrObjective zs ks za zb phi = 0) :
    sumL (List.zipWith (fun z k => z / (1 + phi * (k - 1))) zs ks) + zb / (1 - phi) = 1 ∧
    sumL (List.zipWith (fun z k => z * k / (1 + phi * (k - 1))) zs ks) + za / phi = 1 := by
  obtain ⟨t1, t2⟩ := rr_terms phi zs ks hl hd
  have ha : (if za > 0 then za / phi else 0) = za / phi := by
    by_cases h : za > 0
    · simp [h]
    · have : za = 0 := le_antisymm (le_of_not_gt h) hza
      simp [this]
  have hb : (if zb > 0 then zb / (1 - phi) else 0) = zb / (1 - phi) := by
    by_cases h : zb > 0
    · simp [h]
    · have : zb = 0 := le_antisymm (le_of_not_gt h) hzb
      simp [this]
  unfold rrObjective at hroot
  rw [ha, hb, t1] at hroot
  have hp : phi ≠ 0 := ne_of_gt h0
  have hq : (1 - phi) ≠ 0 := by linarith
  have ea : phi * (za / phi) = za := by field_simp
  have eb : (1 - phi) * (zb / (1 - phi)) = zb := by field_simp
  set X := sumL (List.zipWith (fun z k => z / (1 + phi * (k - 1))) zs ks)
  set Y := sumL (List.zipWith (fun z k => z * k / (1 + phi * (k - 1))) zs ks)
  set a := za / phi
  set b := zb / (1 - phi)
  have hX : X + b = 1 := by
    have h3 : phi * (X - Y - a + b) = 0 := by rw [hroot]; ring
    nlinarith [t2, h3, hsum, ea, eb]
  exact ⟨hX, by linarith⟩

/-- the un-clipped two-phase bottom flow of an equilibrium chemical -/
theorem partition_bottom_cell (p : PartIn) (o : PartOut) (stale : Nat → Rat) (h : p.run stale = .ok o)
    (h0 : 0 < p.phi) (h1 : p.phi < 1) (hclip : p.anyClip = false) (hnd : p.ids.Nodup)
    (i : Nat) (k : Rat) (hi : i < p.n) (hmem : (i, k) ∈ p.ids.zip p.K) (hk : 0 < k) :
    o.bottom.at i = p.feed.at i * (1 - p.phi) / (p.phi * k + (1 - p.phi)) := by
  have e := partition_K p o stale h h0 h1 hclip hnd i k hi hmem hk
  have hbal := partition_balance p _ o h i hi
  have hden : 0 < p.phi * k + (1 - p.phi) := by nlinarith
  rw [eq_div_iff (ne_of_gt hden)]
  have ht : o.top.at i = p.feed.at i - o.bottom.at i := by linarith
  rw [ht] at e
  nlinarith [e]

/-- **phase-fraction consistency** — two phases, nothing clipped, `K > 0`: if the value the solver returned is a
root of the code's own objective (`phase_fraction_objective_function` with the forced fractions), then the outlet
totals over the partitioned material are exactly `(1 − φ)·F` at the bottom and `φ·F` at the top.  With
`partition_K_exact` this gives `y_i / x_i = K_i` exactly (the "common factor" is 1). -/
theorem partition_phase_fraction_consistent (p : PartIn) (o : PartOut) (stale : Nat → Rat) (h : p.run stale = .ok o)
    (h0 : 0 < p.phi) (h1 : p.phi < 1) (hclip : p.anyClip = false) (hnd : p.ids.Nodup)
    (hlen : p.ids.length = p.K.length) (hK : ∀ k ∈ p.K, 0 < k) (hn : ∀ i ∈ p.ids, i < p.n)
    (hF : 0 < p.F) (hFa : 0 ≤ p.Fa) (hFb : 0 ≤ p.Fb)
    (hroot : rrObjective (p.ids.map (fun i => p.feed.at i / p.F)) p.K (p.Fa / p.F) (p.Fb / p.F) p.phi = 0) :
    sumOver p.ids o.bottom.at + p.Fb = (1 - p.phi) * p.F ∧ sumOver p.ids o.top.at + p.Fa = p.phi * p.F := by
  have hF0 : p.F ≠ 0 := ne_of_gt hF
  have hdpos : ∀ k ∈ p.K, 0 < p.phi * k + (1 - p.phi) := fun k hk => by
    have := hK k hk
    nlinarith
  have hd : ∀ k ∈ p.K, 1 + p.phi * (k - 1) ≠ 0 := fun k hk => by
    have : 1 + p.phi * (k - 1) = p.phi * k + (1 - p.phi) := by ring
    rw [this]; exact ne_of_gt (hdpos k hk)
  have hsumz : sumL (p.ids.map (fun i => p.feed.at i / p.F)) = sumOver p.ids p.feed.at / p.F := by
    have : (fun i => p.feed.at i / p.F) = (fun i => p.feed.at i * (1 / p.F)) := by
      funext i; rw [mul_one_div]
    rw [this, sumL_map_mul_right, mul_one_div]
    rfl
  have hsum : sumL (p.ids.map (fun i => p.feed.at i / p.F)) + p.Fa / p.F + p.Fb / p.F = 1 := by
    rw [hsumz]
    have hFdef : p.F = sumOver p.ids p.feed.at + (p.Fa + p.Fb) := rfl
    field_simp
    linarith
  obtain ⟨hX, _⟩ := rr_root_sums _ p.K (by simp [hlen]) (p.Fa / p.F) (p.Fb / p.F) p.phi h0 h1
    (div_nonneg hFa (le_of_lt hF)) (div_nonneg hFb (le_of_lt hF)) hd hsum hroot
  have hbs := bottoms_sum p.phi p.F hF0 o.bottom.at p.feed.at p.ids p.K hlen
    (fun k hk => ne_of_gt (hdpos k hk))
    (fun ik hik => partition_bottom_cell p o stale h h0 h1 hclip hnd ik.1 ik.2 (hn ik.1 (List.of_mem_zip hik).1) hik
      (hK ik.2 (List.of_mem_zip hik).2))
  have h1m : (1 - p.phi) ≠ 0 := by linarith
  have hbot : sumOver p.ids o.bottom.at + p.Fb = (1 - p.phi) * p.F := by
    unfold sumOver
    rw [hbs]
    have : sumL (List.zipWith (fun z k => z / (1 + p.phi * (k - 1))) (p.ids.map (fun i => p.feed.at i / p.F)) p.K)
        = 1 - p.Fb / p.F / (1 - p.phi) := by linarith
    rw [this]
    field_simp
    ring
  refine ⟨hbot, ?_⟩
  have htop : sumOver p.ids o.top.at = sumOver p.ids p.feed.at - sumOver p.ids o.bottom.at := by
    unfold sumOver
    rw [← sumL_map_sub]
    congr 1
    apply List.map_congr_left
    intro i hi
    have := partition_balance p _ o h i (hn i hi)
    linarith
  have hFdef : p.F = sumOver p.ids p.feed.at + (p.Fa + p.Fb) := rfl
  rw [htop]
  linarith

/-- the single-phase early exits of `solve_phase_fraction_Rashford_Rice` fire only when nothing is forced into the
phase that would be empty: "everything to the top" (`1`) needs `zb = 0`, "everything to the bottom" (`0`) needs `za = 0` -/
theorem rrShortcut_one (ks : List Rat) (za zb : Rat) (h : rrShortcut ks za zb = some 1) : zb = 0 := by
  unfold rrShortcut at h
  split at h
  · simp at h
  · split at h
    · rename_i hc
      simp only [Bool.and_eq_true, beq_iff_eq] at hc
      exact hc.2
    · simp at h

theorem rrShortcut_zero (ks : List Rat) (za zb : Rat) (h : rrShortcut ks za zb = some 0) : za = 0 := by
  unfold rrShortcut at h
  split at h
  · rename_i hc
    simp only [Bool.and_eq_true, beq_iff_eq] at hc
    exact hc.2
  · split at h
    · simp at h
    · simp at h

/-- non-vacuity of the root hypothesis: `φ = 1/2` is a root for `z = (1/2, 1/2)`, `K = (1/2, 2)` -/
example : rrObjective [1/2, 1/2] [1/2, 2] 0 0 (1/2) = 0 := by decide +kernel
example : rrSolve [1/4, 1/4] [2, 3] 0 (1/2) 0 (9999999999999999/10000000000000000) (2/5) = 2/5 := by decide +kernel

/-! ## the property's domain: nothing is clipped, nothing is reported, K is reproduced exactly -/

/-- inside the property's domain (non-negative feed, `K > 0`, `0 < φ < 1`, something to partition) the equilibrium
split `mol (1−φ)/(φK + 1 − φ)` lies in `[0, mol]`: nothing is clipped -/
theorem anyClip_false_of_domain (p : PartIn) (hfeed : ∀ i, 0 ≤ p.feed.at i) (hK : ∀ k ∈ p.K, 0 < k)
    (h0 : 0 < p.phi) (h1 : p.phi < 1) (hF : p.F ≠ 0) : p.anyClip = false := by
  unfold PartIn.anyClip PartIn.eqBottom
  rw [List.any_eq_false]
  intro e he
  rw [← List.map_uncurry_zip_eq_zipWith] at he
  obtain ⟨⟨i, k⟩, hik, rfl⟩ := List.mem_map.mp he
  have hk := hK k (List.of_mem_zip hik).2
  have hm := hfeed i
  have hden : 0 < p.phi * k + (1 - p.phi) := by nlinarith
  simp only [Function.uncurry]
  rw [rawBottom_eq p hF _ _ (ne_of_gt hden)]
  have hb0 : 0 ≤ p.feed.at i * (1 - p.phi) / (p.phi * k + (1 - p.phi)) :=
    div_nonneg (mul_nonneg hm (by linarith)) (le_of_lt hden)
  have hb1 : p.feed.at i * (1 - p.phi) / (p.phi * k + (1 - p.phi)) ≤ p.feed.at i := by
    rw [div_le_iff₀ hden]
    nlinarith [mul_nonneg hm (mul_nonneg (le_of_lt h0) (le_of_lt hk))]
  unfold clip1
  simp [not_lt.mpr hb0, not_lt.mpr hb1]

/-- **infeasibility is never reported spuriously** — `InfeasibleRegion` means some un-clipped equilibrium flow left `[0, feed]` -/
theorem partition_infeasible_only_if_clip (p : PartIn) (stale : Nat → Rat) (h : p.run stale = .error .infeasible) :
    p.anyClip = true := by
  unfold PartIn.run at h
  by_cases hF : p.F = 0
  · simp [hF] at h
  simp only [hF, if_false] at h
  split at h
  · rename_i hc
    simp only [Bool.and_eq_true] at hc
    exact reported_le_any _ hc.2.2
  · simp at h

/-- **in the property's domain `partition` returns** (strict or not): no `InfeasibleRegion`, no division by zero -/
theorem partition_ok_of_domain (p : PartIn) (hfeed : ∀ i, 0 ≤ p.feed.at i) (hK : ∀ k ∈ p.K, 0 < k) (hF : p.F ≠ 0)
    (stale : Nat → Rat) : ∃ o, p.run stale = .ok o := by
  cases hr : p.run stale with
  | ok o => exact ⟨o, rfl⟩
  | error e =>
    exfalso
    unfold PartIn.run at hr
    simp only [hF, if_false] at hr
    split at hr
    · rename_i hc
      simp only [Bool.and_eq_true, decide_eq_true_eq] at hc
      have := anyClip_false_of_domain p hfeed hK hc.2.1.1 hc.2.1.2 hF
      have h2 := reported_le_any _ hc.2.2
      unfold PartIn.anyClip at this
      rw [this] at h2
      exact absurd h2 (by simp)
    · simp at hr

/-- **K reproduction without side hypotheses** — in the property's domain, if the value the solver returned is a root of
the code's objective, then with mole fractions over the two phases (equilibrium + forced chemicals)
`y_i / x_i = K_i`: the "common factor" is 1. -/
theorem partition_K_of_root (p : PartIn) (o : PartOut) (stale : Nat → Rat) (h : p.run stale = .ok o)
    (hfeed : ∀ i, 0 ≤ p.feed.at i) (hK : ∀ k ∈ p.K, 0 < k) (h0 : 0 < p.phi) (h1 : p.phi < 1) (hnd : p.ids.Nodup)
    (hlen : p.ids.length = p.K.length) (hn : ∀ i ∈ p.ids, i < p.n) (hF : 0 < p.F) (hFa : 0 ≤ p.Fa) (hFb : 0 ≤ p.Fb)
    (hroot : rrObjective (p.ids.map (fun i => p.feed.at i / p.F)) p.K (p.Fa / p.F) (p.Fb / p.F) p.phi = 0)
    (i : Nat) (k : Rat) (hmem : (i, k) ∈ p.ids.zip p.K) :
    o.top.at i / (sumOver p.ids o.top.at + p.Fa) = k * (o.bottom.at i / (sumOver p.ids o.bottom.at + p.Fb)) := by
  have hclip := anyClip_false_of_domain p hfeed hK h0 h1 (ne_of_gt hF)
  obtain ⟨hb, ht⟩ := partition_phase_fraction_consistent p o stale h h0 h1 hclip hnd hlen hK hn hF hFa hFb hroot
  have hi := hn i (List.of_mem_zip hmem).1
  have hk := hK k (List.of_mem_zip hmem).2
  rw [hb, ht]
  have h1m : 0 < 1 - p.phi := by linarith
  exact partition_K_exact p o stale h h0 h1 hclip hnd i k hi hmem hk _ _
    (ne_of_gt (mul_pos h0 hF)) (ne_of_gt (mul_pos h1m hF)) (by ring)

/-- "sufficient water" is exactly the feasibility test: the permeate stays non-negative iff the moisture chemical
available in retentate + permeate covers `dry · mc/(1−mc)` -/
theorem moisture_feasible_iff (a : AdjIn) (ok : AdjOK a) :
    0 ≤ a.raw.2 ↔ dry a * a.mc / (1 - a.mc) ≤ a.MW.at a.k * (a.R.at a.k + a.P.at a.k) := by
  have hs := raw_sum a (adj_mw_ne a ok)
  have hf := raw_fst a ok
  have hmw := ok.MW_pos
  have h2 : a.raw.2 = a.R.at a.k + a.P.at a.k - dry a * a.mc / (1 - a.mc) / a.MW.at a.k := by linarith
  rw [h2, sub_nonneg, div_le_iff₀ hmw, mul_comm (a.MW.at a.k)]

/-- **K reproduction for an approximate root (exact error formula)** — for EVERY `φ ∈ (0,1)` the solver returns
(no root hypothesis), with the mole fractions taken over the two phases (totals `T` at the top, `B` at the bottom):
`y_i = K_i · x_i · (1 + (φ − σ)/((1 − φ) σ))` where `σ = T/(T + B)` is the share of the material actually found at
the top.  So the relative error of the achieved coefficient is exactly `|φ − σ| / ((1 − φ) σ)`, the same for every
chemical; it vanishes iff the returned phase fraction equals the top share (which is what the oracle checks to 1e-5,
and what `partition_phase_fraction_consistent` proves for an exact root). -/
theorem partition_K_deviation (p : PartIn) (o : PartOut) (stale : Nat → Rat) (h : p.run stale = .ok o)
    (h0 : 0 < p.phi) (h1 : p.phi < 1) (hclip : p.anyClip = false) (hnd : p.ids.Nodup)
    (i : Nat) (k : Rat) (hi : i < p.n) (hmem : (i, k) ∈ p.ids.zip p.K) (hk : 0 < k)
    (T B : Rat) (hT : 0 < T) (hB : 0 < B) :
    o.top.at i / T = k * (o.bottom.at i / B) * (1 + (p.phi - T / (T + B)) / ((1 - p.phi) * (T / (T + B)))) := by
  have e1 := partition_K p o stale h h0 h1 hclip hnd i k hi hmem hk
  have h1m : (1 - p.phi) ≠ 0 := by linarith
  have hTB : T + B ≠ 0 := by linarith
  have ht : o.top.at i = p.phi * k * o.bottom.at i / (1 - p.phi) := by
    rw [eq_div_iff h1m]; exact e1
  rw [ht]
  field_simp
  ring

end ThermoVerif.Props.C20
