import ThermoVerif.Lemmas.FlowViews
/-
C11 — molar, mass and volumetric views and unit conversions of a stream always agree.
The property-level theorems over the model `ThermoVerif.FlowViews` (lean/ThermoVerif/Model/FlowViews.lean).  Definitions
(`VValid`, `VLine`, `RunOk`, `PutOk`, `Attached`, `conv`, …), helper lemmas and the proofs live in
lean/ThermoVerif/Lemmas/FlowViews.lean; every theorem below restates one of them so that the audited obligations are
exactly the property statements.
-/
namespace ThermoVerif.Props.C11
open ThermoVerif.FlowViews

/-- **view_tracks_rows.**  After *any* history of operations (reads and writes through the views, T / P / phase /
phases changes, `link_with` in all flag combinations, `unlink`, `copy_like` incl. `_expand_phases`, property-package
resets, in-place mixing / scaling / reactions, unit-of-measure calls), every view object held by the `_data_cache` of any stream wraps exactly the row
objects the stream's molar indexer currently holds, refers to the stream's current thermal-condition object and
phase container / phases, captured the stream's current chemicals, and is filed under `'mass'` or under the
thermal-condition object it refers to — so the view a stream finds under its *current* thermal-condition object refers to
that object.  Streams are stream objects: originals, `proxy()`s (same indexer object), `flow_proxy()`s, and the phase
views `ms[phase]` (so the statement covers the mass / volumetric views *of* phase views). -/
theorem view_tracks_rows (w : World) (ops : List Op) (h : Inv w.s) (sid : Nat)
    (hs : sid < (w.run ops).s.nstreams) (key : Key) (v : View)
    (hv : (key, v) ∈ (w.run ops).s.caches ((w.run ops).stream sid).cache) :
    v.rows = (w.run ops).rowsOf sid ∧
    v.th = ((w.run ops).stream sid).th ∧ v.pc = ((w.run ops).stream sid).viewPc ∧
    v.phases = ((w.run ops).stream sid).viewPhases ∧
    (key = .mass ∨ key = .vol v.tc) ∧
    (key = .vol ((w.run ops).stream sid).tc → v.tc = ((w.run ops).stream sid).tc) :=
  ThermoVerif.FlowViews.view_tracks_rows (w := w) (ops := ops) (h := h) (sid := sid) (hs := hs) (key := key) (v := v) (hv := hv)

/-- the invariant holds initially, whatever tables the adapter configured -/
theorem inv_start (thermos : List (List Rat)) (units : List UnitDef) :
    Inv ({ thermos := thermos, units := units } : World).s :=
  ThermoVerif.FlowViews.inv_start (thermos := thermos) (units := units)

/-- **mass_is_mol_MW.**  Reading `imass.data` gives, row by row and chemical by chemical, the molar flow the
stream currently holds times the molecular weight of the stream's current chemicals. -/
theorem mass_is_mol_MW {w : World} {sid : Nat} (h : Inv w.s) (hs : sid < w.s.nstreams) :
    (w.readMass sid).2.2 = (w.readMol sid).map (fun r => mulVec r (w.MW (w.stream sid).th)) :=
  ThermoVerif.FlowViews.mass_is_mol_MW (w := w) (sid := sid) (h := h) (hs := hs)

/-- **F_mass is the sum of the mass view.** -/
theorem Fmass_is_sum_of_mass_view {w : World} {sid : Nat} (h : Inv w.s) (hs : sid < w.s.nstreams) :
    w.Fmass sid = sumLL (w.readMass sid).2.2 :=
  ThermoVerif.FlowViews.Fmass_is_sum_of_mass_view (w := w) (sid := sid) (h := h) (hs := hs)

/-- **vol_is_mol_V.**  Reading `ivol.data` gives, row by row and chemical by chemical, the molar flow the stream
currently holds times the molar volume of that chemical at the stream's *current* phase (of that row), temperature and
pressure — whatever the history that led to the state. -/
theorem vol_is_mol_V {Vf : VFun} {w : World} {sid : Nat} {V : Mat} (h : Inv w.s) (hs : sid < w.s.nstreams)
    (hv : VValid Vf w.c) (hl : VLine Vf w sid V) :
    (w.readVol sid V).2.2 = (w.readMol sid).zipIdx.map (fun (r, k) => r.zipIdx.map (fun (x, i) =>
      x * Vf (w.stream sid).th (streamPhase w sid k) (w.c.tcs (w.stream sid).tc).1 (w.c.tcs (w.stream sid).tc).2 i)) :=
  ThermoVerif.FlowViews.vol_is_mol_V (Vf := Vf) (w := w) (sid := sid) (V := V) (h := h) (hs := hs) (hv := hv) (hl := hl)

/-- **F_vol is the sum of the volumetric view** (F_vol is evaluated from the chemicals, the view through its cache). -/
theorem Fvol_is_sum_of_vol_view {Vf : VFun} {w : World} {sid : Nat} {V : Mat} (h : Inv w.s)
    (hs : sid < w.s.nstreams) (hv : VValid Vf w.c) (hl : VLine Vf w sid V) :
    w.Fvol sid V = sumLL (w.readVol sid V).2.2 :=
  ThermoVerif.FlowViews.Fvol_is_sum_of_vol_view (Vf := Vf) (w := w) (sid := sid) (V := V) (h := h) (hs := hs) (hv := hv) (hl := hl)

/-- **vcache_valid_along_histories.**  Along every history whose molar-volume parameters come from one function of
(chemicals, phase, T, P), every molar volume held in any view's cache is that function's value at the key it is stored
under; together with `view_tracks_rows` this is what makes `vol_is_mol_V` hold in every reachable state. -/
theorem vcache_valid_along_histories {Vf : VFun} (ops : List Op) {w : World} (h : Inv w.s) (hv : VValid Vf w.c)
    (hok : RunOk Vf w ops) : VValid Vf (w.run ops).c ∧ Inv (w.run ops).s :=
  ThermoVerif.FlowViews.vcache_valid_along_histories (Vf := Vf) (ops := ops) (w := w) (h := h) (hv := hv) (hok := hok)

/-- **mass_is_mol_MW_after_any_history.**  From the configured start, after any history whatsoever, the mass view of
any stream reads molar flow × molecular weight. -/
theorem mass_is_mol_MW_after_any_history (thermos : List (List Rat)) (units : List UnitDef) (ops : List Op)
    (sid : Nat) (hs : sid < (({ thermos := thermos, units := units } : World).run ops).s.nstreams) :
    let w := ({ thermos := thermos, units := units } : World).run ops
    (w.readMass sid).2.2 = (w.readMol sid).map (fun r => mulVec r (w.MW (w.stream sid).th)) :=
  ThermoVerif.FlowViews.mass_is_mol_MW_after_any_history (thermos := thermos) (units := units) (ops := ops) (sid := sid) (hs := hs)

/-- **vol_is_mol_V_after_any_history.**  From the configured start, after any history whose molar-volume parameters
come from one function `Vf`, the volumetric view of any stream reads molar flow × `Vf` at the stream's current
chemicals, phase, T and P. -/
theorem vol_is_mol_V_after_any_history {Vf : VFun} (thermos : List (List Rat)) (units : List UnitDef)
    (ops : List Op) (hok : RunOk Vf ({ thermos := thermos, units := units } : World) ops) (sid : Nat) (V : Mat)
    (hs : sid < (({ thermos := thermos, units := units } : World).run ops).s.nstreams)
    (hl : VLine Vf (({ thermos := thermos, units := units } : World).run ops) sid V) :
    let w := ({ thermos := thermos, units := units } : World).run ops
    (w.readVol sid V).2.2 = (w.readMol sid).zipIdx.map (fun (r, k) => r.zipIdx.map (fun (x, i) =>
      x * Vf (w.stream sid).th (streamPhase w sid k) (w.c.tcs (w.stream sid).tc).1 (w.c.tcs (w.stream sid).tc).2 i)) :=
  ThermoVerif.FlowViews.vol_is_mol_V_after_any_history (Vf := Vf) (thermos := thermos) (units := units) (ops := ops) (hok := hok) (sid := sid) (V := V) (hs := hs) (hl := hl)

/-- **set_total_keeps_composition.**  The setters of `F_mol`, `F_mass`, `F_vol` (and `set_total_flow` in any unit, which
goes through them) multiply every molar flow of every phase by one and the same factor, and afterwards the total reads
back as the value that was set. -/
theorem set_total_keeps_composition {w w' : World} {sid : Nat} {d : Dim} {x : Rat} {V : Mat}
    (hF : w.F sid d V ≠ 0) (he : w.setF sid d x V = .ok w') :
    w'.readMol sid = (w.readMol sid).map (fun r => r.map (· * (x / w.F sid d V))) ∧
    w'.F sid d V = x ∧ w'.s = w.s :=
  ThermoVerif.FlowViews.set_total_keeps_composition (w := w) (w' := w') (sid := sid) (d := d) (x := x) (V := V) (hF := hF) (he := he)

/-- the same in terms of fractions: every molar fraction `mol_ki / F_mol` is unchanged (for a non-zero new total) -/
theorem set_total_keeps_fractions {w w' : World} {sid : Nat} {d : Dim} {x : Rat} {V : Mat}
    (hF : w.F sid d V ≠ 0) (hx : x ≠ 0) (he : w.setF sid d x V = .ok w') (k i : Nat) :
    ((w'.readMol sid).getD k []).getD i 0 / w'.Fmol sid = ((w.readMol sid).getD k []).getD i 0 / w.Fmol sid :=
  ThermoVerif.FlowViews.set_total_keeps_fractions (w := w) (w' := w') (sid := sid) (d := d) (x := x) (V := V) (hF := hF) (hx := hx) (he := he) (k := k) (i := i)

/-- **factor_consistent.**  With non-zero table factors, the conversion `u → u'` that the model performs
(`f(u')/f(u)`, see `set_get_other_unit`) is reflexive, transitive and invertible; the driver checks on the dumped table
that pint's direct factor `u → u'` is this quotient (`cfg-conv`). -/
theorem factor_consistent (a b c : UnitDef) (ha : a.factor ≠ 0) (hb : b.factor ≠ 0) :
    conv a a = 1 ∧ conv a b * conv b c = conv a c ∧ conv a b * conv b a = 1 :=
  ThermoVerif.FlowViews.factor_consistent (a := a) (b := b) (c := c) (ha := ha) (hb := hb)

/-- what the driver's `cfg-units` monitor establishes -/
theorem unitsNonzero_spec {l : List UnitDef} (h : unitsNonzero l = true) {u : String} {d : UnitDef}
    (hf : findUnit l u = some d) (hd : d.dim ≠ .other) : d.factor ≠ 0 :=
  ThermoVerif.FlowViews.unitsNonzero_spec (l := l) (h := h) (u := u) (d := d) (hf := hf) (hd := hd)

/-- **dimension_guard.**  A unit whose dimension is none of molar, mass or volumetric flow is rejected by all four
entry points, and the state is left as it was. -/
theorem dimension_guard {w : World} {u : String} {d : UnitDef} (hf : findUnit w.units u = some d)
    (hd : d.dim = .other) (sid : Nat) (ph : Option Char) (i : Nat) (x : Rat) (V : Mat) :
    w.getFlow sid u ph i V = .error .dimension ∧ w.setFlow sid u ph i x V = .error .dimension ∧
    w.getTotal sid u V = .error .dimension ∧ w.setTotal sid u x V = .error .dimension ∧
    w.step (.getFlow sid u ph i V) = w ∧ w.step (.setFlow sid u ph i x V) = w ∧
    w.step (.getTotal sid u V) = w ∧ w.step (.setTotal sid u x V) = w :=
  ThermoVerif.FlowViews.dimension_guard (w := w) (u := u) (d := d) (hf := hf) (hd := hd) (sid := sid) (ph := ph) (i := i) (x := x) (V := V)

/-- **dimension_guard_dimensionality.**  The same guard stated on what the code compares: a unit whose pint
dimensionality is none of those of kmol/hr, kg/hr and m^3/hr is rejected. -/
theorem dimension_guard_dimensionality {w : World} {u : String} {d : UnitDef} (hf : findUnit w.units u = some d)
    (h1 : d.dimv ≠ molDim) (h2 : d.dimv ≠ massDim) (h3 : d.dimv ≠ volDim)
    (sid : Nat) (ph : Option Char) (i : Nat) (x : Rat) (V : Mat) :
    w.getFlow sid u ph i V = .error .dimension ∧ w.setFlow sid u ph i x V = .error .dimension ∧
    w.getTotal sid u V = .error .dimension ∧ w.setTotal sid u x V = .error .dimension :=
  ThermoVerif.FlowViews.dimension_guard_dimensionality (w := w) (u := u) (d := d) (hf := hf) (h1 := h1) (h2 := h2) (h3 := h3) (sid := sid) (ph := ph) (i := i) (x := x) (V := V)

/-- **set_get_total.**  `set_total_flow(x, u)` followed by `get_total_flow(u')` in a unit of the same dimension returns
`x · f(u')/f(u)`; in particular `x` itself for `u' = u`. -/
theorem set_get_total {w w' : World} {sid : Nat} {u u' : String} {x : Rat} {V : Mat} {a b : UnitDef}
    (ha : findUnit w.units u = some a) (hb : findUnit w.units u' = some b) (hdim : a.dim = b.dim)
    (hao : a.dim ≠ .other) (hfa : a.factor ≠ 0) (hF : w.F sid a.dim V ≠ 0)
    (he : w.setTotal sid u x V = .ok w') :
    w'.getTotal sid u' V = .ok (x * conv a b) ∧ (u' = u → w'.getTotal sid u' V = .ok x) :=
  ThermoVerif.FlowViews.set_get_total (w := w) (w' := w') (sid := sid) (u := u) (u' := u') (x := x) (V := V) (a := a) (b := b) (ha := ha) (hb := hb) (hdim := hdim) (hao := hao) (hfa := hfa) (hF := hF) (he := he)

/-- **view_dimension_guard.**  A unit whose dimension is not the dimension of the view / property it is applied to — a
mass unit on `imol`, a molar unit on `F_vol`, … or a non-flow unit — is rejected by `get_data`, `set_data`,
`get_property`, `set_property` and the `units=` conversion, whatever was converted before (the model has no memo to be
poisoned), and the state is left as it was. -/
theorem view_dimension_guard {w : World} {u : String} {e : UnitDef} {d : Dim}
    (hf : findUnit w.units u = some e) (hd : e.dim ≠ d ∨ d = .other)
    (sid : Nat) (ph : Option Char) (i : Nat) (x : Rat) (V : Mat) :
    w.viewUnit d u = .error .dimension ∧
    w.getData sid d u ph i V = .error .dimension ∧ w.setData sid d u ph i x V = .error .dimension ∧
    w.getProp sid d u V = .error .dimension ∧ w.setProp sid d u x V = .error .dimension ∧
    w.step (.getData sid d u ph i V) = w ∧ w.step (.setData sid d u ph i x V) = w ∧
    w.step (.getProp sid d u V) = w ∧ w.step (.setProp sid d u x V) = w :=
  ThermoVerif.FlowViews.view_dimension_guard (w := w) (u := u) (e := e) (d := d) (hf := hf) (hd := hd) (sid := sid) (ph := ph) (i := i) (x := x) (V := V)

/-- **view_unit_agrees_with_flow_unit.**  For a unit of the view's own dimension the factor `get_data` / `get_property` use
is the one `get_flow` / `get_total_flow` use: the two families of entry points convert identically. -/
theorem view_unit_agrees_with_flow_unit {w : World} {u : String} {e : UnitDef} (hf : findUnit w.units u = some e)
    (ho : e.dim ≠ .other) (sid : Nat) (ph : Option Char) (i : Nat) (x : Rat) (V : Mat) :
    w.getData sid e.dim u ph i V = w.getFlow sid u ph i V ∧
    w.setData sid e.dim u ph i x V = w.setFlow sid u ph i x V ∧
    w.getProp sid e.dim u V = w.getTotal sid u V ∧ w.setProp sid e.dim u x V = w.setTotal sid u x V :=
  ThermoVerif.FlowViews.view_unit_agrees_with_flow_unit (w := w) (u := u) (e := e) (hf := hf) (ho := ho) (sid := sid) (ph := ph) (i := i) (x := x) (V := V)

/-- `indexer[key] = y` followed by `indexer[key]` through the same view (molar, mass or volumetric) gives `y` back -/
theorem put_get_elem {Vf : VFun} {w w1 : World} {sid : Nat} {d : Dim} {ph : Option Char} {i : Nat} {y : Rat}
    {V V' : Mat} {vid : Option Nat} (h : Inv w.s) (hs : sid < w.s.nstreams) (hv : VValid Vf w.c)
    (hl : d = .vol → VLine Vf w sid V) (hok : PutOk Vf w sid d ph i)
    (hput : w.putElem sid d ph i y V = .ok (w1, vid)) :
    ∃ w2, w1.getElem sid d ph i V' = .ok (w2, vid, y) ∧ w2.units = w.units :=
  ThermoVerif.FlowViews.put_get_elem (Vf := Vf) (w := w) (w1 := w1) (sid := sid) (d := d) (ph := ph) (i := i) (y := y) (V := V) (V' := V') (vid := vid) (h := h) (hs := hs) (hv := hv) (hl := hl) (hok := hok) (hput := hput)

/-- **set_get_other_unit.**  `set_flow(x, u, key)` followed by `get_flow(u', key)` in a unit of the same dimension
returns `x · f(u')/f(u)` — through the molar data, the mass view or the volumetric view alike, whatever state the
views' caches were in. -/
theorem set_get_other_unit {Vf : VFun} {w w1 : World} {sid : Nat} {u u' : String} {ph : Option Char} {i : Nat}
    {x : Rat} {V V' : Mat} {vid : Option Nat} {a b : UnitDef}
    (h : Inv w.s) (hs : sid < w.s.nstreams) (hv : VValid Vf w.c)
    (ha : findUnit w.units u = some a) (hb : findUnit w.units u' = some b) (hdim : a.dim = b.dim)
    (hao : a.dim ≠ .other) (hfa : a.factor ≠ 0)
    (hl : a.dim = .vol → VLine Vf w sid V) (hok : PutOk Vf w sid a.dim ph i)
    (hset : w.setFlow sid u ph i x V = .ok (w1, vid)) :
    ∃ w2, w1.getFlow sid u' ph i V' = .ok (w2, vid, x * conv a b) :=
  ThermoVerif.FlowViews.set_get_other_unit (Vf := Vf) (w := w) (w1 := w1) (sid := sid) (u := u) (u' := u') (ph := ph) (i := i) (x := x) (V := V) (V' := V') (vid := vid) (a := a) (b := b) (h := h) (hs := hs) (hv := hv) (ha := ha) (hb := hb) (hdim := hdim) (hao := hao) (hfa := hfa) (hl := hl) (hok := hok) (hset := hset)

/-- **set_get_same_unit.**  `set_flow(x, u, key)` followed by `get_flow(u, key)` returns `x`. -/
theorem set_get_same_unit {Vf : VFun} {w w1 : World} {sid : Nat} {u : String} {ph : Option Char} {i : Nat}
    {x : Rat} {V V' : Mat} {vid : Option Nat} {a : UnitDef}
    (h : Inv w.s) (hs : sid < w.s.nstreams) (hv : VValid Vf w.c)
    (ha : findUnit w.units u = some a) (hao : a.dim ≠ .other) (hfa : a.factor ≠ 0)
    (hl : a.dim = .vol → VLine Vf w sid V) (hok : PutOk Vf w sid a.dim ph i)
    (hset : w.setFlow sid u ph i x V = .ok (w1, vid)) :
    ∃ w2, w1.getFlow sid u ph i V' = .ok (w2, vid, x) :=
  ThermoVerif.FlowViews.set_get_same_unit (Vf := Vf) (w := w) (w1 := w1) (sid := sid) (u := u) (ph := ph) (i := i) (x := x) (V := V) (V' := V') (vid := vid) (a := a) (h := h) (hs := hs) (hv := hv) (ha := ha) (hao := hao) (hfa := hfa) (hl := hl) (hok := hok) (hset := hset)

/-- **put_row_mass_spec.**  `s.mass = values` / `s.imass[phase] = values` (an ndarray or another stream's mass view):
the addressed molar row becomes `values_i / MW_i` with the *receiver's* molecular weights; nothing else is rebound. -/
theorem put_row_mass_spec {w w' : World} {sid : Nat} {ph : Option Char} {xs : List Rat} {V : Mat}
    {vid : Option Nat} (h : Inv w.s) (hs : sid < w.s.nstreams)
    (he : w.putRow sid .mass ph xs V = .ok (w', vid)) :
    ∃ k r, w.rowPos sid ph = .ok k ∧ (w.rowsOf sid)[k]? = some r ∧
      w'.c.rows r = divVec xs (w.MW (w.stream sid).th) ∧ xs.length = (w.MW (w.stream sid).th).length ∧
      w'.rowsOf sid = w.rowsOf sid ∧ w'.stream sid = w.stream sid ∧ w'.thermos = w.thermos :=
  ThermoVerif.FlowViews.put_row_mass_spec (w := w) (w' := w') (sid := sid) (ph := ph) (xs := xs) (V := V) (vid := vid) (h := h) (hs := hs) (he := he)

/-- **put_row_vol_spec.**  `s.vol = values`, `s.ivol.data.copy_like(other.vol)`, `s.ivol[phase] = values`: the addressed
molar row becomes `values_i / (1000·V_i)` with the molar volumes at the **receiver's** chemicals, phase, T and P —
whatever stream the values came from and whatever the views' caches held. -/
theorem put_row_vol_spec {Vf : VFun} {w w' : World} {sid : Nat} {ph : Option Char} {xs : List Rat} {V : Mat}
    {vid : Option Nat} (h : Inv w.s) (hs : sid < w.s.nstreams) (hv : VValid Vf w.c) (hl : VLine Vf w sid V)
    (he : w.putRow sid .vol ph xs V = .ok (w', vid)) :
    ∃ k r, w.rowPos sid ph = .ok k ∧ (w.rowsOf sid)[k]? = some r ∧
      w'.c.rows r = xs.zipIdx.map (fun (x, i) => x / Vf (w.stream sid).th (streamPhase w sid k)
        (w.c.tcs (w.stream sid).tc).1 (w.c.tcs (w.stream sid).tc).2 i) :=
  ThermoVerif.FlowViews.put_row_vol_spec (Vf := Vf) (w := w) (w' := w') (sid := sid) (ph := ph) (xs := xs) (V := V) (vid := vid) (h := h) (hs := hs) (hv := hv) (hl := hl) (he := he)

/-- **put_row_mass_reads_back.**  After a whole-row assignment through the mass view, the mass view reads back exactly the
assigned values (non-zero molecular weights). -/
theorem put_row_mass_reads_back {w w' : World} {sid : Nat} {ph : Option Char} {xs : List Rat} {V : Mat}
    {vid : Option Nat} (h : Inv w.s) (hs : sid < w.s.nstreams)
    (hmw : ∀ m ∈ w.MW (w.stream sid).th, m ≠ 0)
    (he : w.putRow sid .mass ph xs V = .ok (w', vid)) :
    ∃ k, w.rowPos sid ph = .ok k ∧ (w'.readMass sid).2.2[k]? = some xs :=
  ThermoVerif.FlowViews.put_row_mass_reads_back (w := w) (w' := w') (sid := sid) (ph := ph) (xs := xs) (V := V) (vid := vid) (h := h) (hs := hs) (hmw := hmw) (he := he)

/-- **agg_mass_spec.**  `stream.mass` is, per chemical, the molar flow summed over the phases times the molecular weight
(multi-phase: computed as `mol * MW`; single-phase: read through the cached mass view, which `mass_is_mol_MW` ties to the
current rows). -/
theorem agg_mass_spec {w w' : World} {sid : Nat} {V : Mat} {vid : Option Nat} {r : List Rat} (h : Inv w.s)
    (hs : sid < w.s.nstreams) (he : w.readAgg sid .mass V = .ok (w', vid, r)) :
    r = if (w.stream sid).multi then mulVec (colSum (w.readMol sid)) (w.MW (w.stream sid).th)
        else colSum ((w.readMol sid).map (fun x => mulVec x (w.MW (w.stream sid).th))) :=
  ThermoVerif.FlowViews.agg_mass_spec (w := w) (w' := w') (sid := sid) (V := V) (vid := vid) (r := r) (h := h) (hs := hs) (he := he)

/-- **agg_vol_spec.**  `stream.vol` is, per chemical, the sum over the phases of molar flow × molar volume at that
phase and the stream's current T and P. -/
theorem agg_vol_spec {Vf : VFun} {w w' : World} {sid : Nat} {V : Mat} {vid : Option Nat} {r : List Rat} (h : Inv w.s)
    (hs : sid < w.s.nstreams) (hv : VValid Vf w.c) (hl : VLine Vf w sid V)
    (he : w.readAgg sid .vol V = .ok (w', vid, r)) :
    r = colSum ((w.readMol sid).zipIdx.map (fun (x, k) => x.zipIdx.map (fun (y, i) =>
      y * Vf (w.stream sid).th (streamPhase w sid k) (w.c.tcs (w.stream sid).tc).1 (w.c.tcs (w.stream sid).tc).2 i))) :=
  ThermoVerif.FlowViews.agg_vol_spec (Vf := Vf) (w := w) (w' := w') (sid := sid) (V := V) (vid := vid) (r := r) (h := h) (hs := hs) (hv := hv) (hl := hl) (he := he)

/-- **proxy_spec.**  `proxy()` creates a stream object that holds the very same indexer object (hence the same data,
`_data_cache`, phase container) and the same thermal-condition object; `flow_proxy()` one that holds the same data object
through an indexer of its own with a brand-new `_data_cache`. -/
theorem proxy_spec (w : World) (sid : Nat) :
    ((w.proxy sid).1.s.streams (w.proxy sid).2).ix = (w.s.streams sid).ix ∧
    ((w.proxy sid).1.stream (w.proxy sid).2).tc = (w.stream sid).tc ∧
    (w.proxy sid).1.rowsOf (w.proxy sid).2 = w.rowsOf sid ∧
    ((w.proxy sid).1.stream (w.proxy sid).2).cache = (w.stream sid).cache :=
  ThermoVerif.FlowViews.proxy_spec (w := w) (sid := sid)

theorem flowProxy_spec (w : World) (sid : Nat) :
    (w.flowProxy sid).1.rowsOf (w.flowProxy sid).2 = w.rowsOf sid ∧
    ((w.flowProxy sid).1.stream (w.flowProxy sid).2).cache = w.s.ncaches ∧
    (w.flowProxy sid).1.s.caches w.s.ncaches = [] :=
  ThermoVerif.FlowViews.flowProxy_spec (w := w) (sid := sid)

/-- **holders_of_one_indexer_agree.**  In every reachable state, two stream objects that hold the same indexer object (a
stream and its `proxy()`, after any operations on either) read the same molar data, and their mass views read the same
values: both are `mol × MW` of the one indexer. -/
theorem holders_of_one_indexer_agree {w : World} {p q : Nat} (h : Inv w.s) (hp : p < w.s.nstreams)
    (hq : q < w.s.nstreams) (hix : (w.s.streams p).ix = (w.s.streams q).ix) :
    w.readMol p = w.readMol q ∧ (w.readMass p).2.2 = (w.readMass q).2.2 ∧
    (w.stream p).cache = (w.stream q).cache :=
  ThermoVerif.FlowViews.holders_of_one_indexer_agree (w := w) (p := p) (q := q) (h := h) (hp := hp) (hq := hq) (hix := hix)

/-- **phaseView_attached.**  The first `ms[c]` hands out an attached view. -/
theorem phaseView_attached {w w' : World} {sid v : Nat} {c : Char} (h : Inv w.s) (hs : sid < w.s.nstreams)
    (hnew : (w.views sid).lookup c = none) (he : w.phaseView sid c = .ok (w', v)) : Attached w' sid c v :=
  ThermoVerif.FlowViews.phaseView_attached (w := w) (w' := w') (sid := sid) (v := v) (c := c) (h := h) (hs := hs) (hnew := hnew) (he := he)

/-- **write_through_view_reaches_parent.**  A whole-row assignment through the mass accessor of an attached phase view
(`ms[c].mass = values`) sets the row of that phase *in the parent* to `values_i / MW_i`; conversely the view reads the
parent's row (they hold the same row object). -/
theorem write_through_view_reaches_parent {w w' : World} {p v : Nat} {c : Char} {xs : List Rat} {V : Mat}
    {vid : Option Nat} (h : Inv w.s) (hv : v < w.s.nstreams) (ha : Attached w p c v)
    (he : w.putRow v .mass none xs V = .ok (w', vid)) :
    ∃ r, w.rowFor p c = some r ∧ w'.c.rows r = divVec xs (w.MW (w.stream p).th) ∧
      w.readMol v = [w.c.rows r] ∧ w'.readMol v = [w'.c.rows r] :=
  ThermoVerif.FlowViews.write_through_view_reaches_parent (w := w) (w' := w') (p := p) (v := v) (c := c) (xs := xs) (V := V) (vid := vid) (h := h) (hv := hv) (ha := ha) (he := he)

/-- **unlink_clear_in_place_counterexample** (fixes_proposed/C11-2).  With `unlink` as found (`_data_cache.clear()`),
`s1.link_with(s0); s1.unlink(); s1.imass` leaves in `s0`'s `_data_cache` a mass view that wraps `s1`'s rows: the
invariant of `view_tracks_rows` fails.  With the repaired `unlink` the same history leaves `s0`'s cache empty. -/
theorem unlink_clear_in_place_counterexample :
    ¬ Inv (((twoStreams.linkShare 1 0 true).unlinkOld 1).massView 1).1.s ∧
    Inv (((twoStreams.linkShare 1 0 true).unlink 1).massView 1).1.s :=
  ThermoVerif.FlowViews.unlink_clear_in_place_counterexample

/-- the same for the non-sharing branch of `link_with` as found -/
theorem relink_clear_in_place_counterexample :
    ¬ Inv ((((twoStreams.newStream false [] 'l' 0 300 101325 [[4]]).1.linkShare 1 0 true).linkPlain false 1 2 true false
          false).massView 1).1.s :=
  ThermoVerif.FlowViews.relink_clear_in_place_counterexample

/-- **expand_keeps_cache_counterexample** (fixes_proposed/C11-3).  After `_expand_phases` as found, the cached mass
view still wraps the two old rows while the stream holds three. -/
theorem expand_keeps_cache_counterexample : ¬ Inv (expanded false).s ∧ Inv (expanded true).s :=
  ThermoVerif.FlowViews.expand_keeps_cache_counterexample

/-- **vol_cache_keyed_on_TP_only_counterexample** (fixes_proposed/C11-1).  With the cache test as found (T and P only)
the view keeps using the liquid volume 2 after the phase changed to gas, where the fresh gas volume is 50; keyed on the
phase too it uses 50. -/
theorem vol_cache_keyed_on_TP_only_counterexample :
    nowGas.usedVOld (nowGas.volView 0).2 0 0 50 = 2 ∧ nowGas.usedV (nowGas.volView 0).2 0 0 50 = 50 ∧
    (nowGas.readVol 0 [[50]]).2.2 = [[50]] ∧ nowGas.Fvol 0 [[50]] = 50 :=
  ThermoVerif.FlowViews.vol_cache_keyed_on_TP_only_counterexample
/-! ## non-vacuity: the hypotheses are met by concrete, non-trivial states -/

/-- `view_tracks_rows` is not vacuous: at the end of `demoLinkOps` both streams hold a cached mass view, and (by the
theorem) each wraps its own stream's rows — the situation in which the code as found mixes them up. -/
example :
    (demoStart.run demoLinkOps).s.nstreams = 2 ∧
    ((demoStart.run demoLinkOps).s.caches ((demoStart.run demoLinkOps).stream 0).cache).length = 1 ∧
    ((demoStart.run demoLinkOps).s.caches ((demoStart.run demoLinkOps).stream 1).cache).length = 1 ∧
    (demoStart.run demoLinkOps).rowsOf 0 ≠ (demoStart.run demoLinkOps).rowsOf 1 ∧
    ((demoStart.run demoLinkOps).readMass 0).2.2 = [[18, 92]] := by
  decide +kernel

example : ∀ key v, (key, v) ∈ (demoStart.run demoLinkOps).s.caches ((demoStart.run demoLinkOps).stream 0).cache →
    v.rows = (demoStart.run demoLinkOps).rowsOf 0 :=
  fun key v hv => (view_tracks_rows demoStart demoLinkOps (inv_start _ _) 0 (by decide +kernel) key v hv).1

/-- `vol_is_mol_V`, `Fvol_is_sum_of_vol_view` and `vcache_valid_along_histories` are not vacuous: after `demoVolOps` (a
cached liquid volume, then a phase and a temperature change) all hypotheses hold and the view reads gas volumes. -/
example :
    ((demoStart.run demoVolOps).readVol 0 [[50, 60]]).2.2 = [[50, 120]] := by
  have hI := vcache_valid_along_histories (Vf := demoVf) (w := demoStart) demoVolOps inv_init
    (fun _ e he => by cases he) demoVol_ok
  have hl : VLine demoVf (demoStart.run demoVolOps) 0 [[50, 60]] :=
    demoVLine (ph := 'g') (by decide +kernel) (by decide +kernel) (fun i => by simp [vAt, demoVf])
  rw [vol_is_mol_V hI.2 (by decide +kernel) hI.1 hl]
  decide +kernel

example : ∃ w1 vid w2, (demoStart.run demoLinkOps).setFlow 0 "lb/hr" none 1 20 [] = Except.ok (w1, vid) ∧
    World.getFlow w1 0 "kg/hr" none 1 [] = Except.ok (w2, vid, 20 * (1 / (11 / 5))) := by
  have hI := vcache_valid_along_histories (Vf := demoVf) (w := demoStart) demoLinkOps inv_init
    (fun _ e he => by cases he) demoLink_ok
  have hu : (demoStart.run demoLinkOps).units = demoUnits := by decide +kernel
  cases hset : (demoStart.run demoLinkOps).setFlow 0 "lb/hr" none 1 20 [] with
  | error e =>
    have : ((demoStart.run demoLinkOps).setFlow 0 "lb/hr" none 1 20 []).toBool = true := by decide +kernel
    rw [hset] at this; cases this
  | ok p =>
    obtain ⟨w1, vid⟩ := p
    have hok : PutOk demoVf (demoStart.run demoLinkOps) 0 .mass none 1 := by
      refine ⟨?_, fun _ => by decide +kernel, fun h => by cases h⟩
      intro k r hk hr
      have hk0 : k = 0 := by
        have : (demoStart.run demoLinkOps).rowPos 0 none = .ok 0 := by decide +kernel
        rw [this] at hk; cases hk; rfl
      subst hk0
      have : (demoStart.run demoLinkOps).rowsOf 0 = [0] := by decide +kernel
      rw [this] at hr
      cases hr
      decide +kernel
    obtain ⟨w2, hget⟩ := set_get_other_unit (Vf := demoVf) (V' := []) (u := "lb/hr") (u' := "kg/hr")
      (a := ⟨"lb/hr", massDim, 11/5⟩) (b := ⟨"kg/hr", massDim, 1⟩) hI.2 (by decide +kernel) hI.1
      (by rw [hu]; decide +kernel) (by rw [hu]; decide +kernel) rfl (by decide) (by decide +kernel)
      (fun h => by cases h) hok hset
    exact ⟨w1, vid, w2, rfl, hget⟩

/-- `set_total_keeps_composition` / `set_get_total` are not vacuous (F_mass = 110 ≠ 0 in the final state). -/
example : (demoStart.run demoLinkOps).F 0 .mass [] = 110 ∧
    ((demoStart.run demoLinkOps).setTotal 0 "lb/hr" 22 []).toBool = true := by
  decide +kernel

/-- `dimension_guard` is not vacuous: `"K"` is in the table with dimension `other`. -/
example : (demoStart.run demoLinkOps).getTotal 0 "K" [] = .error .dimension :=
  (dimension_guard (w := demoStart.run demoLinkOps) (u := "K") (d := ⟨"K", [0, 0, 0, 0, 1, 0, 0, 0], 0⟩)
    (by decide +kernel) rfl 0 none 0 0 []).2.2.1

end ThermoVerif.Props.C11
