import ThermoVerif.Model.Flash
import ThermoVerif.Lemmas.Flash
import Mathlib.Analysis.SpecialFunctions.Exp
/-
C04 — a vapour–liquid flash honours its specifications and the equilibrium conditions.

The theorems are about the model `ThermoVerif.Flash` (lean/ThermoVerif/Model/Flash.lean), which the
correspondence run ties to thermosteam/equilibrium/vle.py and binary_phase_fraction.py.  They hold
over every linearly ordered field (so over ℚ and ℝ); `exit_residual` is over ℝ because the exit
test of the iteration is on `ln K`.

Parameters (universally quantified here, recorded from the real run by the harness):
`Psat`, `γ`, `φ`, `pcf` (the property package) and the numerical Rachford–Rice solve for N > 2.

Partial, monitored on generated inputs rather than proved: that `flexsolve.aitken` /
`IQ_interpolation` converge, and the clause "a specified vapour fraction is met within the solver's
stated resolution" (bracketed on the real code by the oracle).
-/
namespace ThermoVerif.Props.C04
open ThermoVerif.Flash
set_option linter.unusedSectionVars false

variable {α : Type} [Field α] [LinearOrder α] [IsStrictOrderedRing α]

/-! ## 1. The specified T / P are the ones on the stream -/

/-- Every pair that specifies `T`: if the call returns, the stream's `T` is the specified one —
for every `N` case, every branch, every value of the parameters. -/
theorem spec_written_T (c : Call α) (T P : α) (h : dispatch c = .ok (T, P)) (hT : c.pair.hasT = true) :
    T = c.a := by
  obtain ⟨pair, ncase, two, T0, P0, a, b, psat, tsat, sol⟩ := c
  cases pair <;> cases ncase <;> cases two <;> simp_all [dispatch, Pair.hasT]

/-- Every pair whose first specification is `P` (PV, PH, PS, Px, Py). -/
theorem spec_written_P (c : Call α) (T P : α) (h : dispatch c = .ok (T, P)) (hP : c.pair.hasP = true)
    (hT : c.pair.hasT = false) : P = c.a := by
  obtain ⟨pair, ncase, two, T0, P0, a, b, psat, tsat, sol⟩ := c
  cases pair <;> cases ncase <;> cases two <;> simp_all [dispatch, Pair.hasT, Pair.hasP]

/-- `vle(T=…, P=…)`: both are written, whatever `_setup` found (including `NoEquilibrium`). -/
theorem spec_written_TP (c : Call α) (hp : c.pair = .TP) : dispatch c = .ok (c.a, c.b) := by
  obtain ⟨pair, ncase, two, T0, P0, a, b, psat, tsat, sol⟩ := c
  subst hp
  cases ncase <;> rfl

/-- The single-chemical `T, V` branch: `T` is the specification and `P` the saturation pressure. -/
theorem spec_written_TV_one (c : Call α) (hp : c.pair = .TV) (hn : c.ncase = .one) :
    dispatch c = .ok (c.a, c.psat) := by
  obtain ⟨pair, ncase, two, T0, P0, a, b, psat, tsat, sol⟩ := c
  subst hp; subst hn; rfl

/-- non-vacuity: calls that return -/
def exTV : Call ℚ where
  pair := .TV
  ncase := .one
  twoPhase := true
  T0 := 300
  P0 := 101325
  a := 350
  b := 2/5
  psat := 95203
  tsat := 0
  sol := 0

def exPH : Call ℚ := { exTV with pair := .PH, ncase := .many, a := 50000, b := 7, sol := 341 }
def exTH : Call ℚ := { exTV with pair := .TH, b := 1 }
def exPx : Call ℚ := { exTV with pair := .Px, ncase := .many, a := 50000, b := 0, sol := 339 }

example : dispatch exTV = .ok (350, 95203) := rfl
example : dispatch exPH = .ok (341, 50000) := rfl

/-- The code as found does NOT have the property: the single-chemical `T, V` branch
(`_set_TV_chemical` writes `Psat(T)` into `T`) … -/
theorem asFound_TV_one_counterexample :
    ∃ (c : Call ℚ) (T P : ℚ), c.pair.hasT = true ∧ dispatchAsFound c = .ok (T, P) ∧ T ≠ c.a :=
  ⟨exTV, 95203, 101325, rfl, rfl, by norm_num [exTV]⟩

/-- … the single-chemical `T, H` / `T, S` branches (T is never written) … -/
theorem asFound_TH_one_counterexample :
    ∃ (c : Call ℚ) (T P : ℚ), c.pair.hasT = true ∧ dispatchAsFound c = .ok (T, P) ∧ T ≠ c.a :=
  ⟨exTH, 300, 95203, rfl, rfl, by norm_num [exTH, exTV]⟩

/-- … and the composition-specified pairs (`set_Tx`, `set_Ty` never write `T`; `set_Px`, `set_Py`
never write `P`). -/
theorem asFound_Px_counterexample :
    ∃ (c : Call ℚ) (T P : ℚ), c.pair.hasP = true ∧ c.pair.hasT = false ∧ dispatchAsFound c = .ok (T, P) ∧ P ≠ c.a :=
  ⟨exPx, 339, 101325, rfl, rfl, rfl, by norm_num [exPx, exTV]⟩

/-- Outside those branches the code as found agrees with the repaired table. -/
theorem asFound_eq_dispatch (c : Call α)
    (h : ¬ (c.ncase = .one ∧ (c.pair = .TV ∨ c.pair = .TH ∨ c.pair = .TS)))
    (hxy : c.pair ≠ .Tx ∧ c.pair ≠ .Ty ∧ c.pair ≠ .Px ∧ c.pair ≠ .Py) :
    dispatchAsFound c = dispatch c := by
  obtain ⟨pair, ncase, two, T0, P0, a, b, psat, tsat, sol⟩ := c
  cases pair <;> cases ncase <;> simp_all [dispatchAsFound]

/-! ## 2. Single-component setters and the H/S correction -/

/-- The lever rule of the single-chemical H (or S) setters reproduces the specified value when the
property is linear in the split. -/
theorem lever_reproduces (H Hbub Hdew : α) (h : Hdew ≠ Hbub) :
    (1 - leverV H Hbub Hdew) * Hbub + leverV H Hbub Hdew * Hdew = H := by
  unfold leverV
  have : Hdew - Hbub ≠ 0 := sub_ne_zero.mpr h
  field_simp
  ring

/-- … and the vapour fraction is strictly inside (0, 1) exactly for H strictly between. -/
theorem lever_in_unit (H Hbub Hdew : α) (h : Hbub < Hdew) (h1 : Hbub < H) (h2 : H < Hdew) :
    0 < leverV H Hbub Hdew ∧ leverV H Hbub Hdew < 1 := by
  unfold leverV
  have hd : 0 < Hdew - Hbub := sub_pos.mpr h
  constructor
  · exact div_pos (sub_pos.mpr h1) hd
  · rw [div_lt_one hd]; linarith

/-- `_set_TV_chemical` / `_set_PV_chemical`: the split conserves the chemical and has vapour
fraction `V`. -/
theorem chemSplit_spec (mol V : α) :
    (chemSplit mol V).1 + (chemSplit mol V).2 = mol ∧ (chemSplit mol V).2 = V * mol := by
  simp [chemSplit]

/-- `_set_thermal_condition_chemical` keeps the chemical's total and puts it in one phase outside
the `±tol` band around the saturation pressure. -/
theorem chemTP_conserves (T P Tc psat tol mol l0 g0 : α) (h0 : l0 + g0 = mol) :
    (chemTP T P Tc psat tol mol l0 g0).1 + (chemTP T P Tc psat tol mol l0 g0).2 = mol := by
  unfold chemTP
  split
  · simp
  · split
    · simp
    · split <;> simp [h0]

theorem chemTP_phase (T P Tc psat tol mol l0 g0 : α) (hT : T < Tc) (htol : 0 ≤ tol) :
    (P < psat - tol → chemTP T P Tc psat tol mol l0 g0 = (0, mol)) ∧
    (psat + tol < P → chemTP T P Tc psat tol mol l0 g0 = (mol, 0)) := by
  unfold chemTP
  constructor
  · intro h; simp [not_le.mpr hT, h]
  · intro h
    have : ¬ P < psat - tol := by linarith
    simp [not_le.mpr hT, this, h]

/-- The last step of `set_PH` / `set_PS`: moving the fraction `f` closes the balance whenever `f`
is not clipped (and the property is linear in the moved fraction). -/
theorem moveFraction_reproduces (H Hcur Hmove : α) (hm : Hmove ≠ 0)
    (h0 : 0 ≤ (H - Hcur) / Hmove) (h1 : (H - Hcur) / Hmove ≤ 1) :
    Hcur + moveFraction H Hcur Hmove * Hmove = H := by
  unfold moveFraction
  simp only [not_lt.mpr h0, not_lt.mpr h1, if_false]
  field_simp
  ring

example : (1 - leverV (7 : ℚ) 2 12) * 2 + leverV (7 : ℚ) 2 12 * 12 = 7 := lever_reproduces _ _ _ (by norm_num)

/-! ## 3. Rachford–Rice -/

/-- `compute_phase_fraction_2N` solves the two-component Rachford–Rice equation. -/
theorem rr_2N_root (z1 z2 K1 K2 : α)
    (h1 : 1 + rr2N z1 z2 K1 K2 * (K1 - 1) ≠ 0) (h2 : 1 + rr2N z1 z2 K1 K2 * (K2 - 1) ≠ 0)
    (hden : (z1 + z2) * (K1 - 1) * (K2 - 1) ≠ 0) :
    rrTerm z1 K1 (rr2N z1 z2 K1 K2) + rrTerm z2 K2 (rr2N z1 z2 K1 K2) = 0 := by
  -- the closed form is  V = −(z1 a + z2 b) / ((z1 + z2) a b),  a = K1 − 1, b = K2 − 1
  have hV : rr2N z1 z2 K1 K2 = -(z1 * (K1 - 1) + z2 * (K2 - 1)) / ((z1 + z2) * (K1 - 1) * (K2 - 1)) := by
    unfold rr2N
    ring
  generalize rr2N z1 z2 K1 K2 = V at *
  unfold rrTerm
  rw [div_add_div _ _ h1 h2, div_eq_zero_iff]
  left
  -- numerator: z1 a (1 + V b) + z2 b (1 + V a) = (z1 a + z2 b) + V (z1 + z2) a b
  have : z1 * (K1 - 1) * (1 + V * (K2 - 1)) + (1 + V * (K1 - 1)) * (z2 * (K2 - 1))
      = (z1 * (K1 - 1) + z2 * (K2 - 1)) + V * ((z1 + z2) * (K1 - 1) * (K2 - 1)) := by ring
  rw [this, hV, div_mul_cancel₀ _ hden]
  ring

/-- the same on vectors of length 2 -/
theorem rr_2N_root_vec (z K : Fin 2 → α)
    (h1 : 1 + rr2Nv z K * (K 0 - 1) ≠ 0) (h2 : 1 + rr2Nv z K * (K 1 - 1) ≠ 0)
    (hden : (z 0 + z 1) * (K 0 - 1) * (K 1 - 1) ≠ 0) : rr z K (rr2Nv z K) = 0 := by
  have e : rr2Nv z K = rr2N (z 0) (z 1) (K 0) (K 1) := by simp [rr2Nv]
  rw [e] at h1 h2 ⊢
  have := rr_2N_root (z 0) (z 1) (K 0) (K 1) h1 h2 hden
  simpa [rr, sumF, Fin.succ] using this

example : rrTerm (1/2 : ℚ) 2 (rr2N (1/2) (1/2) 2 (1/2)) + rrTerm (1/2 : ℚ) (1/2) (rr2N (1/2) (1/2) 2 (1/2)) = 0 := by
  norm_num [rrTerm, rr2N]

/-- The Rachford–Rice objective is strictly decreasing in `V` on [0, 1] for positive `K` not all
equal to 1 (on the chemicals that are present). -/
theorem rr_strictAnti {n : Nat} (z K : Fin n → α) (hz : ∀ i, 0 ≤ z i) (hK : ∀ i, 0 < K i)
    (hne : ∃ i, 0 < z i ∧ K i ≠ 1) : StrictAntiOn (rr z K) (Set.Icc 0 1) := by
  intro V hV W hW hVW
  obtain ⟨i0, hz0, hK0⟩ := hne
  simp only [rr, sumF_eq_sum]
  apply Finset.sum_lt_sum
  · intro i _
    exact rrTerm_anti (hz i) (hK i) hV.1 hVW hW.2
  · exact ⟨i0, Finset.mem_univ _, rrTerm_strictAnti hz0 (hK i0) hK0 hV.1 hVW hW.2⟩

/-- hence the root is unique … -/
theorem rr_root_unique {n : Nat} (z K : Fin n → α) (hz : ∀ i, 0 ≤ z i) (hK : ∀ i, 0 < K i)
    (hne : ∃ i, 0 < z i ∧ K i ≠ 1) {V W : α} (hV : V ∈ Set.Icc (0 : α) 1) (hW : W ∈ Set.Icc (0 : α) 1)
    (h : rr z K V = rr z K W) : V = W :=
  (rr_strictAnti z K hz hK hne).injOn hV hW h

/-- … at or above the bubble point (`rr 0 ≤ 0`) no vapour fraction in (0, 1] solves the equation: all liquid … -/
theorem rr_all_liquid {n : Nat} (z K : Fin n → α) (hz : ∀ i, 0 ≤ z i) (hK : ∀ i, 0 < K i)
    (hne : ∃ i, 0 < z i ∧ K i ≠ 1) (h0 : rr z K 0 ≤ 0) {V : α} (hV0 : 0 < V) (hV1 : V ≤ 1) :
    rr z K V < 0 :=
  lt_of_lt_of_le (rr_strictAnti z K hz hK hne ⟨le_rfl, zero_le_one⟩ ⟨hV0.le, hV1⟩ hV0) h0

/-- … at or below the dew point (`rr 1 ≥ 0`) none in [0, 1) does: all vapour … -/
theorem rr_all_vapour {n : Nat} (z K : Fin n → α) (hz : ∀ i, 0 ≤ z i) (hK : ∀ i, 0 < K i)
    (hne : ∃ i, 0 < z i ∧ K i ≠ 1) (h1 : 0 ≤ rr z K 1) {V : α} (hV0 : 0 ≤ V) (hV1 : V < 1) :
    0 < rr z K V :=
  lt_of_le_of_lt h1 (rr_strictAnti z K hz hK hne ⟨hV0, hV1.le⟩ ⟨zero_le_one, le_rfl⟩ hV1)

/-- … and a root strictly inside (0, 1) forces `rr 0 > 0 > rr 1`: strictly between dew and bubble. -/
theorem rr_two_phase {n : Nat} (z K : Fin n → α) (hz : ∀ i, 0 ≤ z i) (hK : ∀ i, 0 < K i)
    (hne : ∃ i, 0 < z i ∧ K i ≠ 1) {V : α} (hV0 : 0 < V) (hV1 : V < 1) (h : rr z K V = 0) :
    0 < rr z K 0 ∧ rr z K 1 < 0 := by
  have a := rr_strictAnti z K hz hK hne ⟨le_rfl, zero_le_one⟩ ⟨hV0.le, hV1.le⟩ hV0
  have b := rr_strictAnti z K hz hK hne ⟨hV0.le, hV1.le⟩ ⟨zero_le_one, le_rfl⟩ hV1
  rw [h] at a b
  exact ⟨a, b⟩

example : StrictAntiOn (rr (fun _ : Fin 2 => (1/2 : ℚ)) (fun i => if i = 0 then 2 else 1/2)) (Set.Icc 0 1) :=
  rr_strictAnti _ _ (fun _ => by norm_num) (fun i => by split <;> norm_num) ⟨0, by norm_num, by norm_num⟩

/-- The sign tests `solve_phase_fraction_Rashford_Rice` runs before its numerical solve (no
non-partitioning material; `y0`, `y1` are the code's objective `−rr` at 0 and 1) are sound: when
they decide `0` the mixture is below its bubble point (`rr 0 < 0`, so all liquid by
`rr_all_liquid`), when they decide `1` it is above its dew point. -/
theorem rrPrecheck_sign_sound {n : Nat} (z K : Fin n → α) (hz : ∀ i, 0 ≤ z i) (hK : ∀ i, 0 < K i)
    (hne : ∃ i, 0 < z i ∧ K i ≠ 1) (Kmax Kmin onePlus oneMinus v : α)
    (hA : ¬ Kmax ≤ onePlus) (hB : ¬ oneMinus ≤ Kmin)
    (h : rrPrecheck Kmax Kmin 0 0 (-(rr z K 0)) (-(rr z K 1)) onePlus oneMinus = .value v) :
    (v = 0 ∧ rr z K 0 < 0) ∨ (v = 1 ∧ 0 < rr z K 1) := by
  have anti : rr z K 1 < rr z K 0 :=
    rr_strictAnti z K hz hK hne ⟨le_rfl, zero_le_one⟩ ⟨zero_le_one, le_rfl⟩ zero_lt_one
  unfold rrPrecheck at h
  simp only [hA, hB, false_and, if_false] at h
  split at h
  · rename_i c; exfalso; linarith [c.1]
  · split at h
    · rename_i c
      injection h with h; subst h
      left; exact ⟨rfl, by linarith [c.2]⟩
    · split at h
      · rename_i c
        injection h with h; subst h
        right; exact ⟨rfl, by linarith [c.2]⟩
      · split at h
        · rename_i c; exfalso; linarith [c.1]
        · cases h

/-- With non-partitioning light (`zl ≥ 0`) and heavy (`zh ≥ 0`) material the objective the code
solves is still strictly decreasing on (0, 1), so the root `solve_phase_fraction_Rashford_Rice`
looks for is unique. -/
theorem rrFull_strictAnti {n : Nat} (z K : Fin n → α) (zl zh : α) (hz : ∀ i, 0 ≤ z i) (hK : ∀ i, 0 < K i)
    (hne : ∃ i, 0 < z i ∧ K i ≠ 1) (hl : 0 ≤ zl) (hh : 0 ≤ zh) :
    StrictAntiOn (rrFull z K zl zh) (Set.Ioo 0 1) := by
  intro V hV W hW hVW
  have h := rr_strictAnti z K hz hK hne ⟨hV.1.le, hV.2.le⟩ ⟨hW.1.le, hW.2.le⟩ hVW
  have hlight : (if 0 < zl then zl / W else 0) ≤ (if 0 < zl then zl / V else 0) := by
    split
    · exact div_le_div_of_nonneg_left hl hV.1 hVW.le
    · exact le_rfl
  have hheavy : (if 0 < zh then zh / (1 - V) else 0) ≤ (if 0 < zh then zh / (1 - W) else 0) := by
    split
    · exact div_le_div_of_nonneg_left hh (by linarith [hW.2]) (by linarith)
    · exact le_rfl
  unfold rrFull
  linarith

/-! ### The phase boundary for Raoult K-values (`K_i = Psat_i / P`) -/

/-- `P ≥ P_bubble = Σ z_i Psat_i`  ⇔  `rr 0 ≤ 0` -/
theorem bubble_iff {n : Nat} (z Psat : Fin n → α) (P : α) (hP : 0 < P) (hz1 : sumF n z = 1) :
    sumF n (fun i => z i * Psat i) ≤ P ↔ rr z (fun i => Psat i / P) 0 ≤ 0 := by
  have e : rr z (fun i => Psat i / P) 0 = sumF n (fun i => z i * Psat i) / P - 1 := by
    simp only [rr, rrTerm, sumF_eq_sum] at hz1 ⊢
    have t : ∀ i, z i * (Psat i / P - 1) / (1 + 0 * (Psat i / P - 1)) = (z i * Psat i) * P⁻¹ - z i := by
      intro i
      rw [zero_mul, add_zero, div_one]
      ring
    rw [Finset.sum_congr rfl (fun i _ => t i), Finset.sum_sub_distrib, ← Finset.sum_mul, hz1, div_eq_mul_inv]
  rw [e, sub_nonpos, div_le_one hP]

/-- `P ≤ P_dew = 1 / Σ (z_i / Psat_i)`  ⇔  `rr 1 ≥ 0` -/
theorem dew_iff {n : Nat} (z Psat : Fin n → α) (P : α) (hP : 0 < P) (hPs : ∀ i, 0 < Psat i)
    (hz1 : sumF n z = 1) :
    P * sumF n (fun i => z i / Psat i) ≤ 1 ↔ 0 ≤ rr z (fun i => Psat i / P) 1 := by
  have e : rr z (fun i => Psat i / P) 1 = 1 - P * sumF n (fun i => z i / Psat i) := by
    simp only [rr, rrTerm, sumF_eq_sum] at hz1 ⊢
    have t : ∀ i, z i * (Psat i / P - 1) / (1 + 1 * (Psat i / P - 1)) = z i - P * (z i / Psat i) := by
      intro i
      have h1 := (hPs i).ne'
      have h2 := hP.ne'
      have h3 : (1 : α) + 1 * (Psat i / P - 1) = Psat i / P := by ring
      rw [h3]
      field_simp
    rw [Finset.sum_congr rfl (fun i _ => t i), Finset.sum_sub_distrib, ← Finset.mul_sum, hz1]
  rw [e, sub_nonneg]

/-- Phase-boundary clause for the ideal package: with `tpBranch` deciding on the Raoult bubble and
dew pressures (no light/heavy material), "all liquid" is returned exactly where no two-phase or
all-vapour solution exists, and "all vapour" likewise. -/
theorem tpBranch_sound {n : Nat} (z Psat : Fin n → α) (P : α) (hP : 0 < P) (hPs : ∀ i, 0 < Psat i)
    (hz : ∀ i, 0 ≤ z i) (hz1 : sumF n z = 1) (hne : ∃ i, 0 < z i ∧ Psat i ≠ P)
    (Pdew Pbub : α) (hb : Pbub = sumF n (fun i => z i * Psat i))
    (hd : Pdew * sumF n (fun i => z i / Psat i) = 1) :
    (tpBranch P Pdew Pbub false false = .allLiq → ∀ V, 0 < V → V ≤ 1 → rr z (fun i => Psat i / P) V < 0) ∧
    (tpBranch P Pdew Pbub false false = .allGas → ∀ V, 0 ≤ V → V < 1 → 0 < rr z (fun i => Psat i / P) V) := by
  have hK : ∀ i, 0 < Psat i / P := fun i => div_pos (hPs i) hP
  have hne' : ∃ i, 0 < z i ∧ Psat i / P ≠ 1 := by
    obtain ⟨i, h1, h2⟩ := hne
    exact ⟨i, h1, fun h => h2 ((div_eq_one_iff_eq hP.ne').mp h)⟩
  have hS : 0 < sumF n (fun i => z i / Psat i) := by
    rcases lt_trichotomy 0 (sumF n (fun i => z i / Psat i)) with h | h | h
    · exact h
    · rw [← h] at hd; simp at hd
    · exfalso
      rw [sumF_eq_sum] at h
      have : 0 ≤ ∑ i, z i / Psat i := Finset.sum_nonneg (fun i _ => div_nonneg (hz i) (hPs i).le)
      linarith
  constructor
  · intro h V hV0 hV1
    have hb' : Pbub ≤ P := by
      unfold tpBranch at h
      split at h
      · cases h
      · split at h
        · rename_i h2; exact h2.1
        · cases h
    exact rr_all_liquid z _ hz hK hne' ((bubble_iff z Psat P hP hz1).mp (hb ▸ hb')) hV0 hV1
  · intro h V hV0 hV1
    have hd' : P ≤ Pdew := by
      unfold tpBranch at h
      split at h
      · rename_i h1; exact h1.1
      · split at h <;> cases h
    have : P * sumF n (fun i => z i / Psat i) ≤ 1 := by
      rw [← hd]; exact mul_le_mul_of_nonneg_right hd' hS.le
    exact rr_all_vapour z _ hz hK hne' ((dew_iff z Psat P hP hPs hz1).mp this) hV0 hV1

/-! ## 4. The fixed point of the iteration -/

/-- A fixed point of `xVlogK_iter` satisfies iso-fugacity, chemical by chemical:
`x_i γ_i pcf_i Psat_i = y_i φ_i P` with `y_i = K_i x_i`, where `γ`, `φ` are the property package's
values at the fixed point's own (normalised) compositions.  `hclip`: the `1e-16` floor on `K` is
not active. -/
theorem fixed_point_isofugacity {n : Nat} (twoN : Bool) (eps : α) (z pcf Psat : Fin n → α) (P : α)
    (γf φf : (Fin n → α) → (Fin n → α)) (solveV : (Fin n → α) → α → α) (s : St n α)
    (hP : P ≠ 0)
    (hfix : iterMap twoN eps z (fun i => pcf i * Psat i / P) γf φf solveV s = s)
    (hφ : ∀ i, φf (xyNorm eps s.x s.K).2 i ≠ 0)
    (hclip : ∀ i, ¬ (pcf i * Psat i / P * γf (xyNorm eps s.x s.K).1 i / φf (xyNorm eps s.x s.K).2 i < eps)) :
    ∀ i, s.x i * γf (xyNorm eps s.x s.K).1 i * pcf i * Psat i
          = (s.K i * s.x i) * φf (xyNorm eps s.x s.K).2 i * P := by
  intro i
  have hK : s.K i = pcf i * Psat i / P * γf (xyNorm eps s.x s.K).1 i / φf (xyNorm eps s.x s.K).2 i := by
    have := congrFun (congrArg St.K hfix) i
    simp only [iterMap, iterStep, newK, newK1, if_neg (hclip i)] at this
    exact this.symm
  rw [hK]
  have := hφ i
  field_simp

/-- … and the material balance of every chemical: `V y_i + (1 − V) x_i = z_i`. -/
theorem fixed_point_balance {n : Nat} (twoN : Bool) (eps : α) (z c : Fin n → α)
    (γf φf : (Fin n → α) → (Fin n → α)) (solveV : (Fin n → α) → α → α) (s : St n α)
    (hfix : iterMap twoN eps z c γf φf solveV s = s)
    (hden : ∀ i, 1 + s.V * (s.K i - 1) ≠ 0) :
    ∀ i, s.V * (s.K i * s.x i) + (1 - s.V) * s.x i = z i := by
  intro i
  have hK := congrArg St.K hfix
  have hV := congrArg St.V hfix
  have hx := congrFun (congrArg St.x hfix) i
  simp only [iterMap, iterStep] at hK hV hx
  rw [hK] at hV hx
  rw [hV] at hx
  simp only [xOfV] at hx
  have := hden i
  rw [← hx]
  field_simp
  ring

/-- non-vacuity: an ideal binary (`K = (2, 1/2)`, `z = (1/2, 1/2)`) has the fixed point `V = 1/2`,
`x = (1/3, 2/3)`. -/
example :
    let s : St 2 ℚ := { x := fun i => if i = 0 then 1/3 else 2/3, V := 1/2, K := fun i => if i = 0 then 2 else 1/2 }
    (iterMap true (0 : ℚ) (fun _ => 1/2) (fun i => if i = 0 then 2 else 1/2) (fun _ _ => 1) (fun _ _ => 1)
      (fun _ g => g) s).V = s.V := by
  simp [iterMap, iterStep, rr2Nv, rr2N, newK, newK1]
  norm_num

/-! ## 5. Exit through the `K_tol` test bounds the fugacity mismatch -/

/-- For one chemical: the iteration evaluated `γ`, `φ` at the normalised compositions
`x̂`, `ŷ = x̂ K_in / S` (`S = Σ x̂ K_in`), produced `K_out = c γ / φ` (`c = pcf·Psat/P`) and the exit
test `|ln K_in − ln K_out| < tol` held.  Then the liquid fugacity `x̂ γ c` and the vapour fugacity
`ŷ φ` (both divided by `P`) agree up to the common factor `S` within `2·tol` relative. -/
theorem exit_residual_one (tol c γ φ xh Kin S lnKin lnKout : ℝ) (htol : 0 < tol) (htol2 : tol ≤ 1 / 2)
    (hx : 0 < xh) (hφ : 0 < φ) (hS : 0 < S)
    (hKin : Kin = Real.exp lnKin) (hKout : c * γ / φ = Real.exp lnKout)
    (hexit : |lnKin - lnKout| < tol) :
    |xh * γ * c - S * (xh * Kin / S * φ)| ≤ 2 * tol * (S * (xh * Kin / S * φ)) := by
  have hKin0 : 0 < Kin := hKin ▸ Real.exp_pos _
  have hg : S * (xh * Kin / S * φ) = xh * Kin * φ := by field_simp
  have hl : xh * γ * c = xh * φ * Real.exp lnKout := by
    rw [← hKout]; field_simp
  rw [hg, hl, hKin]
  set d := lnKout - lnKin with hd
  have hexp : Real.exp lnKout = Real.exp lnKin * Real.exp d := by
    rw [← Real.exp_add]; congr 1; ring
  have hdabs : |d| < tol := by rw [hd, abs_sub_comm]; exact hexit
  have hbase : 0 < xh * Real.exp lnKin * φ := mul_pos (mul_pos hx (Real.exp_pos _)) hφ
  -- |e^d − 1| ≤ 2 tol
  have hdl := (abs_lt.mp hdabs).1
  have hdu := (abs_lt.mp hdabs).2
  have hlow : 1 - tol ≤ Real.exp d := by
    have := Real.add_one_le_exp d
    linarith
  have hup : Real.exp d ≤ 1 + 2 * tol := by
    have h1 : Real.exp d ≤ Real.exp tol := Real.exp_le_exp.mpr hdu.le
    have h2 : Real.exp tol < 1 / (1 - tol) :=
      Real.exp_bound_div_one_sub_of_interval' htol (by linarith)
    have h3 : 1 / (1 - tol) ≤ 1 + 2 * tol := by
      rw [div_le_iff₀ (by linarith)]
      nlinarith
    linarith
  have key : |Real.exp d - 1| ≤ 2 * tol := by
    rw [abs_le]; constructor <;> linarith
  have : xh * φ * (Real.exp lnKin * Real.exp d) - xh * Real.exp lnKin * φ
      = (xh * Real.exp lnKin * φ) * (Real.exp d - 1) := by ring
  rw [hexp, this, abs_mul, abs_of_pos hbase]
  calc xh * Real.exp lnKin * φ * |Real.exp d - 1| ≤ xh * Real.exp lnKin * φ * (2 * tol) :=
        mul_le_mul_of_nonneg_left key hbase.le
    _ = 2 * tol * (xh * Real.exp lnKin * φ) := by ring

/-- The vector form, tied to the model's `exitTest` (the `flexsolve.aitken` test on
`|in − out|` of the `ln K` block). -/
theorem exit_residual {n : Nat} (tol : ℝ) (c γ φ xh lnKin lnKout : Fin n → ℝ) (S : ℝ)
    (htol : 0 < tol) (htol2 : tol ≤ 1 / 2) (hx : ∀ i, 0 < xh i) (hφ : ∀ i, 0 < φ i) (hS : 0 < S)
    (hKout : ∀ i, c i * γ i / φ i = Real.exp (lnKout i))
    (hexit : exitTest (fun i => |lnKin i - lnKout i|) tol = true) :
    ∀ i, |xh i * γ i * c i - S * (xh i * Real.exp (lnKin i) / S * φ i)|
          ≤ 2 * tol * (S * (xh i * Real.exp (lnKin i) / S * φ i)) := by
  intro i
  exact exit_residual_one tol (c i) (γ i) (φ i) (xh i) _ S (lnKin i) (lnKout i) htol htol2 (hx i) (hφ i) hS rfl
    (hKout i) ((exitTest_iff _ _).mp hexit i)

/-- non-vacuity: the hypotheses are satisfiable (`K = 1` unchanged by the step). -/
example : |(1/2 : ℝ) * 1 * 1 - 1 * ((1/2) * Real.exp 0 / 1 * 1)|
    ≤ 2 * (1e-6) * (1 * ((1/2) * Real.exp 0 / 1 * 1)) :=
  exit_residual_one 1e-6 1 1 1 (1/2) _ 1 0 0 (by norm_num) (by norm_num) (by norm_num)
    (by norm_num) (by norm_num) rfl (by simp) (by norm_num)

/-! ## 6. Scaling the feed scales the products -/

theorem setupF_scale {n : Nat} (k : α) (mol : Fin n → α) (Fl Fh : α) :
    setupF (fun i => k * mol i) (k * Fl) (k * Fh) = k * setupF mol Fl Fh := by
  simp only [setupF, sumF_mul_left]; ring

/-- degree 0: the composition the iteration works on does not see the scale -/
theorem setupZ_scale {n : Nat} (k : α) (hk : k ≠ 0) (mol : Fin n → α) (Fl Fh : α) :
    setupZ (fun i => k * mol i) (k * Fl) (k * Fh) = setupZ mol Fl Fh := by
  funext i
  simp only [setupZ, setupF_scale]
  rw [mul_div_mul_left _ _ hk]

theorem writeBack1_scale (k : α) (hk : 0 < k) (F V xh K mol : α) :
    writeBack1 (k * F) V xh K (k * mol) = k * writeBack1 F V xh K mol := by
  unfold writeBack1
  have e : k * F * V * xh * K = k * (F * V * xh * K) := by ring
  simp only [e, mul_lt_mul_iff_right₀ hk]
  have z : ∀ t : α, k * t < 0 ↔ t < 0 := fun t => by
    constructor
    · intro h; by_contra h'; exact absurd h (not_lt.mpr (mul_nonneg hk.le (not_lt.mp h')))
    · intro h; exact mul_neg_of_pos_of_neg hk h
  split <;> simp only [z] <;> split <;> simp

/-- degree 1: the write-back (`v = F·V·x̂·K` clipped into `[0, mol]`) -/
theorem writeBack_scale {n : Nat} (k : α) (hk : 0 < k) (F V : α) (xh K mol : Fin n → α) :
    writeBack (k * F) V xh K (fun i => k * mol i) = fun i => k * writeBack F V xh K mol i := by
  funext i
  exact writeBack1_scale k hk F V (xh i) (K i) (mol i)

theorem chemSplit_scale (k mol V : α) :
    chemSplit (k * mol) V = (k * (chemSplit mol V).1, k * (chemSplit mol V).2) := by
  simp only [chemSplit, Prod.mk.injEq]; constructor <;> ring

/-- The whole model flash: set-up, any number of iterations of the fixed-point map (with any
property package and Rachford–Rice solver), normalisation and write-back. -/
def flashModel {n : Nat} (twoN : Bool) (eps : α) (c : Fin n → α) (γf φf : (Fin n → α) → (Fin n → α))
    (solveV : (Fin n → α) → α → α) (s0 : St n α) (iters : Nat) (mol : Fin n → α) (Fl Fh : α) : Fin n → α :=
  let z := setupZ mol Fl Fh
  let s := (iterMap twoN eps z c γf φf solveV)^[iters] s0
  writeBack (setupF mol Fl Fh) s.V (xyNorm eps s.x s.K).1 s.K mol

/-- Multiplying every feed flow (volatile, light, heavy) by `k > 0` multiplies every product flow
by `k`: every model step is homogeneous (degree 0 up to the write-back, degree 1 there). -/
theorem scale_equivariant {n : Nat} (twoN : Bool) (eps : α) (c : Fin n → α) (γf φf : (Fin n → α) → (Fin n → α))
    (solveV : (Fin n → α) → α → α) (s0 : St n α) (iters : Nat) (mol : Fin n → α) (Fl Fh k : α) (hk : 0 < k) :
    flashModel twoN eps c γf φf solveV s0 iters (fun i => k * mol i) (k * Fl) (k * Fh)
      = fun i => k * flashModel twoN eps c γf φf solveV s0 iters mol Fl Fh i := by
  unfold flashModel
  simp only [setupZ_scale k hk.ne', setupF_scale]
  exact writeBack_scale k hk _ _ _ _ _

example : writeBack1 (3 * 10 : ℚ) (1/2) (1/3) 2 (3 * 5) = 3 * writeBack1 10 (1/2) (1/3) 2 5 :=
  writeBack1_scale 3 (by norm_num) _ _ _ _ _

/-! ## 7. The ideal package: the fixed point IS the Raoult Rachford–Rice solution -/

/-- With `γ = φ = pcf = 1` a fixed point has `K_i = Psat_i / P`, its `V` solves the Raoult
Rachford–Rice equation (hypothesis `hsolve` on the numerical solver, monitored per step by the
driver), it is the ONLY solution in [0, 1], and `x`, `y = K x` are the Rachford–Rice compositions. -/
theorem ideal_flash_is_RR {n : Nat} (eps : α) (z Psat : Fin n → α) (P : α)
    (solveV : (Fin n → α) → α → α) (s : St n α)
    (hz : ∀ i, 0 ≤ z i) (hPs : ∀ i, 0 < Psat i) (hP : 0 < P) (hne : ∃ i, 0 < z i ∧ Psat i ≠ P)
    (hclip : ∀ i, ¬ (Psat i / P < eps))
    (hfix : iterMap false eps z (fun i => 1 * Psat i / P) (fun _ _ => 1) (fun _ _ => 1) solveV s = s)
    (hsolve : ∀ K g, rr z K (solveV K g) = 0 ∧ solveV K g ∈ Set.Icc (0 : α) 1) :
    (∀ i, s.K i = Psat i / P) ∧ rr z (fun i => Psat i / P) s.V = 0 ∧
    (∀ V' ∈ Set.Icc (0 : α) 1, rr z (fun i => Psat i / P) V' = 0 → V' = s.V) ∧
    (∀ i, s.x i = z i / (1 + s.V * (Psat i / P - 1))) := by
  have hKfun : s.K = fun i => Psat i / P := by
    have := congrArg St.K hfix
    simp only [iterMap, iterStep] at this
    rw [← this]
    funext i
    simp only [newK, newK1, one_mul, mul_one, div_one]
    rw [if_neg (hclip i)]
  have hV := congrArg St.V hfix
  have hx := congrArg St.x hfix
  simp only [iterMap, iterStep, Bool.false_eq_true, if_false] at hV hx
  have hK' : (newK eps (fun i => 1 * Psat i / P) (fun _ : Fin n => (1 : α)) (fun _ => 1)) = fun i => Psat i / P := by
    funext i
    simp only [newK, newK1, one_mul, mul_one, div_one]
    rw [if_neg (hclip i)]
  rw [hK'] at hV hx
  have hroot := hsolve (fun i => Psat i / P) (if s.V < 0 then 0 else if 1 < s.V then 1 else s.V)
  rw [hV] at hroot hx
  have hK : ∀ i, 0 < Psat i / P := fun i => div_pos (hPs i) hP
  have hne' : ∃ i, 0 < z i ∧ Psat i / P ≠ 1 := by
    obtain ⟨i, h1, h2⟩ := hne
    exact ⟨i, h1, fun h => h2 ((div_eq_one_iff_eq hP.ne').mp h)⟩
  refine ⟨fun i => congrFun hKfun i, hroot.1, ?_, ?_⟩
  · intro V' hV' h0
    exact rr_root_unique z _ hz hK hne' hV' hroot.2 (h0.trans hroot.1.symm)
  · intro i
    have := congrFun hx i
    simp only [xOfV] at this
    exact this.symm

end ThermoVerif.Props.C04
