import ThermoVerif.Model.Flash
import ThermoVerif.Lemmas.Flash
import Mathlib.Analysis.SpecialFunctions.Exp
import Mathlib.Tactic.FinCases
import Mathlib.Tactic.NormNum
/-
C04 — a vapour–liquid flash honours its specifications and the equilibrium conditions.

The theorems are about the model `ThermoVerif.Flash` (lean/ThermoVerif/Model/Flash.lean), which the
correspondence run ties to thermosteam/equilibrium/vle.py and binary_phase_fraction.py.  They hold
over every linearly ordered field (so over ℚ and ℝ); `exit_residual` is over ℝ because the exit
test of the iteration is on `ln K`.

Parameters (universally quantified here, recorded from the real run by the harness):
`Psat`, `γ`, `φ`, `pcf` (the property package) and the numerical Rachford–Rice solve for N > 2.

Partial, monitored on generated inputs rather than proved: that `flexsolve.aitken` /
`IQ_interpolation` converge, and the clause "a specified vapour fraction is met within the solver's
stated resolution" (bracketed on the real code by the oracle).
-/
namespace ThermoVerif.Props.C04
open ThermoVerif.Flash
set_option linter.unusedSectionVars false

variable {α : Type} [Field α] [LinearOrder α] [IsStrictOrderedRing α]

/-! ## 1. The specified T / P are the ones on the stream -/

/-- Every pair that specifies `T`: if the call returns, the stream's `T` is the specified one —
for every `N` case, every branch, every value of the parameters. -/
theorem spec_written_T (c : Call α) (T P : α) (h : dispatch c = .ok (T, P)) (hT : c.pair.hasT = true) :
    T = c.a := by
  obtain ⟨pair, ncase, two, T0, P0, a, b, psat, tsat, sol⟩ := c
  cases pair <;> cases ncase <;> cases two <;> simp_all [dispatch, Pair.hasT]

/-- Every pair whose first specification is `P` (PV, PH, PS, Px, Py). -/
theorem spec_written_P (c : Call α) (T P : α) (h : dispatch c = .ok (T, P)) (hP : c.pair.hasP = true)
    (hT : c.pair.hasT = false) : P = c.a := by
  obtain ⟨pair, ncase, two, T0, P0, a, b, psat, tsat, sol⟩ := c
  cases pair <;> cases ncase <;> cases two <;> simp_all [dispatch, Pair.hasT, Pair.hasP]

/-- `vle(T=…, P=…)`: both are written, whatever `_setup` found (including `NoEquilibrium`). -/
theorem spec_written_TP (c : Call α) (hp : c.pair = .TP) : dispatch c = .ok (c.a, c.b) := by
  obtain ⟨pair, ncase, two, T0, P0, a, b, psat, tsat, sol⟩ := c
  subst hp
  cases ncase <;> rfl

/-- The single-chemical `T, V` branch: `T` is the specification and `P` the saturation pressure. -/
theorem spec_written_TV_one (c : Call α) (hp : c.pair = .TV) (hn : c.ncase = .one) :
    dispatch c = .ok (c.a, c.psat) := by
  obtain ⟨pair, ncase, two, T0, P0, a, b, psat, tsat, sol⟩ := c
  subst hp; subst hn; rfl

example : dispatch exTV = .ok (350, 95203) := rfl
example : dispatch exPH = .ok (341, 50000) := rfl

/-! ## 2. Single-component setters and the H/S correction -/

/-- The lever rule of the single-chemical H (or S) setters (`_set_PH_chemical`, `_set_TH_chemical`, …; the driver's
`lever` line runs `leverV` and `chemSplit` against the real split): if the stream property is LINEAR in the vaporised
fraction — `Hof v = (1 − v)·H_bubble + v·H_dew`, true of thermosteam's ideal-mixing H and S for ONE chemical — the split
it writes reproduces the specified value. -/
theorem lever_reproduces (Hof : α → α) (H Hbub Hdew : α)
    (hlin : ∀ v, Hof v = (1 - v) * Hbub + v * Hdew) (h : Hdew ≠ Hbub) :
    Hof (leverV H Hbub Hdew) = H := by
  rw [hlin]
  unfold leverV
  have : Hdew - Hbub ≠ 0 := sub_ne_zero.mpr h
  field_simp
  ring

/-- … and the vapour fraction is strictly inside (0, 1) exactly for H strictly between. -/
theorem lever_in_unit (H Hbub Hdew : α) (h : Hbub < Hdew) (h1 : Hbub < H) (h2 : H < Hdew) :
    0 < leverV H Hbub Hdew ∧ leverV H Hbub Hdew < 1 := by
  unfold leverV
  have hd : 0 < Hdew - Hbub := sub_pos.mpr h
  constructor
  · exact div_pos (sub_pos.mpr h1) hd
  · rw [div_lt_one hd]; linarith

/-- `_set_thermal_condition_chemical` keeps the chemical's total and puts it in one phase outside
the `±tol` band around the saturation pressure. -/
theorem chemTP_conserves (T P Tc psat tol mol l0 g0 : α) (h0 : l0 + g0 = mol) :
    (chemTP T P Tc psat tol mol l0 g0).1 + (chemTP T P Tc psat tol mol l0 g0).2 = mol := by
  unfold chemTP
  split
  · simp
  · split
    · simp
    · split <;> simp [h0]

theorem chemTP_phase (T P Tc psat tol mol l0 g0 : α) (hT : T < Tc) (htol : 0 ≤ tol) :
    (P < psat - tol → chemTP T P Tc psat tol mol l0 g0 = (0, mol)) ∧
    (psat + tol < P → chemTP T P Tc psat tol mol l0 g0 = (mol, 0)) := by
  unfold chemTP
  constructor
  · intro h; simp [not_le.mpr hT, h]
  · intro h
    have : ¬ P < psat - tol := by linarith
    simp [not_le.mpr hT, this, h]

example : (fun v : ℚ => (1 - v) * 2 + v * 12) (leverV 7 2 12) = 7 :=
  lever_reproduces _ 7 2 12 (fun _ => rfl) (by norm_num)

/-! ## 3. Rachford–Rice -/

/-- `compute_phase_fraction_2N` solves the two-component Rachford–Rice equation. -/
theorem rr_2N_root (z1 z2 K1 K2 : α)
    (h1 : 1 + rr2N z1 z2 K1 K2 * (K1 - 1) ≠ 0) (h2 : 1 + rr2N z1 z2 K1 K2 * (K2 - 1) ≠ 0)
    (hden : (z1 + z2) * (K1 - 1) * (K2 - 1) ≠ 0) :
    rrTerm z1 K1 (rr2N z1 z2 K1 K2) + rrTerm z2 K2 (rr2N z1 z2 K1 K2) = 0 := by
  -- the closed form is  V = −(z1 a + z2 b) / ((z1 + z2) a b),  a = K1 − 1, b = K2 − 1
  have hV : rr2N z1 z2 K1 K2 = -(z1 * (K1 - 1) + z2 * (K2 - 1)) / ((z1 + z2) * (K1 - 1) * (K2 - 1)) := by
    unfold rr2N
    ring
  generalize rr2N z1 z2 K1 K2 = V at *
  unfold rrTerm
  rw [div_add_div _ _ h1 h2, div_eq_zero_iff]
  left
  -- numerator: z1 a (1 + V b) + z2 b (1 + V a) = (z1 a + z2 b) + V (z1 + z2) a b
  have : z1 * (K1 - 1) * (1 + V * (K2 - 1)) + (1 + V * (K1 - 1)) * (z2 * (K2 - 1))
      = (z1 * (K1 - 1) + z2 * (K2 - 1)) + V * ((z1 + z2) * (K1 - 1) * (K2 - 1)) := by ring
  rw [this, hV, div_mul_cancel₀ _ hden]
  ring

/-- the same on vectors of length 2 -/
theorem rr_2N_root_vec (z K : Fin 2 → α)
    (h1 : 1 + rr2Nv z K * (K 0 - 1) ≠ 0) (h2 : 1 + rr2Nv z K * (K 1 - 1) ≠ 0)
    (hden : (z 0 + z 1) * (K 0 - 1) * (K 1 - 1) ≠ 0) : rr z K (rr2Nv z K) = 0 := by
  have e : rr2Nv z K = rr2N (z 0) (z 1) (K 0) (K 1) := by simp [rr2Nv]
  rw [e] at h1 h2 ⊢
  have := rr_2N_root (z 0) (z 1) (K 0) (K 1) h1 h2 hden
  simpa [rr, sumF, Fin.succ] using this

example : rrTerm (1/2 : ℚ) 2 (rr2N (1/2) (1/2) 2 (1/2)) + rrTerm (1/2 : ℚ) (1/2) (rr2N (1/2) (1/2) 2 (1/2)) = 0 := by
  norm_num [rrTerm, rr2N]

/-- The Rachford–Rice objective is strictly decreasing in `V` on [0, 1] for positive `K` not all
equal to 1 (on the chemicals that are present). -/
theorem rr_strictAnti {n : Nat} (z K : Fin n → α) (hz : ∀ i, 0 ≤ z i) (hK : ∀ i, 0 < K i)
    (hne : ∃ i, 0 < z i ∧ K i ≠ 1) : StrictAntiOn (rr z K) (Set.Icc 0 1) := by
  intro V hV W hW hVW
  obtain ⟨i0, hz0, hK0⟩ := hne
  simp only [rr, sumF_eq_sum]
  apply Finset.sum_lt_sum
  · intro i _
    exact rrTerm_anti (hz i) (hK i) hV.1 hVW hW.2
  · exact ⟨i0, Finset.mem_univ _, rrTerm_strictAnti hz0 (hK i0) hK0 hV.1 hVW hW.2⟩

/-- hence the root is unique … -/
theorem rr_root_unique {n : Nat} (z K : Fin n → α) (hz : ∀ i, 0 ≤ z i) (hK : ∀ i, 0 < K i)
    (hne : ∃ i, 0 < z i ∧ K i ≠ 1) {V W : α} (hV : V ∈ Set.Icc (0 : α) 1) (hW : W ∈ Set.Icc (0 : α) 1)
    (h : rr z K V = rr z K W) : V = W :=
  (rr_strictAnti z K hz hK hne).injOn hV hW h

/-- … at or above the bubble point (`rr 0 ≤ 0`) no vapour fraction in (0, 1] solves the equation: all liquid … -/
theorem rr_all_liquid {n : Nat} (z K : Fin n → α) (hz : ∀ i, 0 ≤ z i) (hK : ∀ i, 0 < K i)
    (hne : ∃ i, 0 < z i ∧ K i ≠ 1) (h0 : rr z K 0 ≤ 0) {V : α} (hV0 : 0 < V) (hV1 : V ≤ 1) :
    rr z K V < 0 :=
  lt_of_lt_of_le (rr_strictAnti z K hz hK hne ⟨le_rfl, zero_le_one⟩ ⟨hV0.le, hV1⟩ hV0) h0

/-- … at or below the dew point (`rr 1 ≥ 0`) none in [0, 1) does: all vapour … -/
theorem rr_all_vapour {n : Nat} (z K : Fin n → α) (hz : ∀ i, 0 ≤ z i) (hK : ∀ i, 0 < K i)
    (hne : ∃ i, 0 < z i ∧ K i ≠ 1) (h1 : 0 ≤ rr z K 1) {V : α} (hV0 : 0 ≤ V) (hV1 : V < 1) :
    0 < rr z K V :=
  lt_of_le_of_lt h1 (rr_strictAnti z K hz hK hne ⟨hV0, hV1.le⟩ ⟨zero_le_one, le_rfl⟩ hV1)

/-- … and a root strictly inside (0, 1) forces `rr 0 > 0 > rr 1`: strictly between dew and bubble. -/
theorem rr_two_phase {n : Nat} (z K : Fin n → α) (hz : ∀ i, 0 ≤ z i) (hK : ∀ i, 0 < K i)
    (hne : ∃ i, 0 < z i ∧ K i ≠ 1) {V : α} (hV0 : 0 < V) (hV1 : V < 1) (h : rr z K V = 0) :
    0 < rr z K 0 ∧ rr z K 1 < 0 := by
  have a := rr_strictAnti z K hz hK hne ⟨le_rfl, zero_le_one⟩ ⟨hV0.le, hV1.le⟩ hV0
  have b := rr_strictAnti z K hz hK hne ⟨hV0.le, hV1.le⟩ ⟨zero_le_one, le_rfl⟩ hV1
  rw [h] at a b
  exact ⟨a, b⟩

example : StrictAntiOn (rr (fun _ : Fin 2 => (1/2 : ℚ)) (fun i => if i = 0 then 2 else 1/2)) (Set.Icc 0 1) :=
  rr_strictAnti _ _ (fun _ => by norm_num) (fun i => by split <;> norm_num) ⟨0, by norm_num, by norm_num⟩

/-- The sign tests `solve_phase_fraction_Rashford_Rice` runs before its numerical solve (no
non-partitioning material; `y0`, `y1` are the code's objective `−rr` at 0 and 1) are sound: when
they decide `0` the mixture is below its bubble point (`rr 0 < 0`, so all liquid by
`rr_all_liquid`), when they decide `1` it is above its dew point. -/
theorem rrPrecheck_sign_sound {n : Nat} (z K : Fin n → α) (hz : ∀ i, 0 ≤ z i) (hK : ∀ i, 0 < K i)
    (hne : ∃ i, 0 < z i ∧ K i ≠ 1) (Kmax Kmin onePlus oneMinus v : α)
    (hA : ¬ Kmax ≤ onePlus) (hB : ¬ oneMinus ≤ Kmin)
    (h : rrPrecheck Kmax Kmin 0 0 (-(rr z K 0)) (-(rr z K 1)) onePlus oneMinus = .value v) :
    (v = 0 ∧ rr z K 0 < 0) ∨ (v = 1 ∧ 0 < rr z K 1) := by
  have anti : rr z K 1 < rr z K 0 :=
    rr_strictAnti z K hz hK hne ⟨le_rfl, zero_le_one⟩ ⟨zero_le_one, le_rfl⟩ zero_lt_one
  unfold rrPrecheck at h
  simp only [hA, hB, false_and, if_false] at h
  split at h
  · rename_i c; exfalso; linarith [c.1]
  · split at h
    · rename_i c
      injection h with h; subst h
      left; exact ⟨rfl, by linarith [c.2]⟩
    · split at h
      · rename_i c
        injection h with h; subst h
        right; exact ⟨rfl, by linarith [c.2]⟩
      · split at h
        · rename_i c; exfalso; linarith [c.1]
        · cases h

/-- With non-partitioning light (`zl ≥ 0`) and heavy (`zh ≥ 0`) material the objective the code
solves is still strictly decreasing on (0, 1), so the root `solve_phase_fraction_Rashford_Rice`
looks for is unique. -/
theorem rrFull_strictAnti {n : Nat} (z K : Fin n → α) (zl zh : α) (hz : ∀ i, 0 ≤ z i) (hK : ∀ i, 0 < K i)
    (hne : ∃ i, 0 < z i ∧ K i ≠ 1) (hl : 0 ≤ zl) (hh : 0 ≤ zh) :
    StrictAntiOn (rrFull z K zl zh) (Set.Ioo 0 1) := by
  intro V hV W hW hVW
  have h := rr_strictAnti z K hz hK hne ⟨hV.1.le, hV.2.le⟩ ⟨hW.1.le, hW.2.le⟩ hVW
  have hlight : (if 0 < zl then zl / W else 0) ≤ (if 0 < zl then zl / V else 0) := by
    split
    · exact div_le_div_of_nonneg_left hl hV.1 hVW.le
    · exact le_rfl
  have hheavy : (if 0 < zh then zh / (1 - V) else 0) ≤ (if 0 < zh then zh / (1 - W) else 0) := by
    split
    · exact div_le_div_of_nonneg_left hh (by linarith [hW.2]) (by linarith)
    · exact le_rfl
  unfold rrFull
  linarith

/-! ### The phase boundary for Raoult K-values (`K_i = Psat_i / P`) -/

/-- `P ≥ P_bubble = Σ z_i Psat_i`  ⇔  `rr 0 ≤ 0` -/
theorem bubble_iff {n : Nat} (z Psat : Fin n → α) (P : α) (hP : 0 < P) (hz1 : sumF n z = 1) :
    sumF n (fun i => z i * Psat i) ≤ P ↔ rr z (fun i => Psat i / P) 0 ≤ 0 := by
  have e : rr z (fun i => Psat i / P) 0 = sumF n (fun i => z i * Psat i) / P - 1 := by
    simp only [rr, rrTerm, sumF_eq_sum] at hz1 ⊢
    have t : ∀ i, z i * (Psat i / P - 1) / (1 + 0 * (Psat i / P - 1)) = (z i * Psat i) * P⁻¹ - z i := by
      intro i
      rw [zero_mul, add_zero, div_one]
      ring
    rw [Finset.sum_congr rfl (fun i _ => t i), Finset.sum_sub_distrib, ← Finset.sum_mul, hz1, div_eq_mul_inv]
  rw [e, sub_nonpos, div_le_one hP]

/-- `P ≤ P_dew = 1 / Σ (z_i / Psat_i)`  ⇔  `rr 1 ≥ 0` -/
theorem dew_iff {n : Nat} (z Psat : Fin n → α) (P : α) (hP : 0 < P) (hPs : ∀ i, 0 < Psat i)
    (hz1 : sumF n z = 1) :
    P * sumF n (fun i => z i / Psat i) ≤ 1 ↔ 0 ≤ rr z (fun i => Psat i / P) 1 := by
  have e : rr z (fun i => Psat i / P) 1 = 1 - P * sumF n (fun i => z i / Psat i) := by
    simp only [rr, rrTerm, sumF_eq_sum] at hz1 ⊢
    have t : ∀ i, z i * (Psat i / P - 1) / (1 + 1 * (Psat i / P - 1)) = z i - P * (z i / Psat i) := by
      intro i
      have h1 := (hPs i).ne'
      have h2 := hP.ne'
      have h3 : (1 : α) + 1 * (Psat i / P - 1) = Psat i / P := by ring
      rw [h3]
      field_simp
    rw [Finset.sum_congr rfl (fun i _ => t i), Finset.sum_sub_distrib, ← Finset.mul_sum, hz1]
  rw [e, sub_nonneg]

/-- Phase-boundary clause for the ideal package: with `tpBranch` deciding on the Raoult bubble and
dew pressures (no light/heavy material), "all liquid" is returned exactly where no two-phase or
all-vapour solution exists, and "all vapour" likewise. -/
theorem tpBranch_sound {n : Nat} (z Psat : Fin n → α) (P : α) (hP : 0 < P) (hPs : ∀ i, 0 < Psat i)
    (hz : ∀ i, 0 ≤ z i) (hz1 : sumF n z = 1) (hne : ∃ i, 0 < z i ∧ Psat i ≠ P)
    (Pdew Pbub : α) (hb : Pbub = sumF n (fun i => z i * Psat i))
    (hd : Pdew * sumF n (fun i => z i / Psat i) = 1) :
    (tpBranch P Pdew Pbub false false = .allLiq → ∀ V, 0 < V → V ≤ 1 → rr z (fun i => Psat i / P) V < 0) ∧
    (tpBranch P Pdew Pbub false false = .allGas → ∀ V, 0 ≤ V → V < 1 → 0 < rr z (fun i => Psat i / P) V) := by
  have hK : ∀ i, 0 < Psat i / P := fun i => div_pos (hPs i) hP
  have hne' : ∃ i, 0 < z i ∧ Psat i / P ≠ 1 := by
    obtain ⟨i, h1, h2⟩ := hne
    exact ⟨i, h1, fun h => h2 ((div_eq_one_iff_eq hP.ne').mp h)⟩
  have hS : 0 < sumF n (fun i => z i / Psat i) := by
    rcases lt_trichotomy 0 (sumF n (fun i => z i / Psat i)) with h | h | h
    · exact h
    · rw [← h] at hd; simp at hd
    · exfalso
      rw [sumF_eq_sum] at h
      have : 0 ≤ ∑ i, z i / Psat i := Finset.sum_nonneg (fun i _ => div_nonneg (hz i) (hPs i).le)
      linarith
  constructor
  · intro h V hV0 hV1
    have hb' : Pbub ≤ P := by
      unfold tpBranch at h
      split at h
      · cases h
      · split at h
        · rename_i h2; exact h2.1
        · cases h
    exact rr_all_liquid z _ hz hK hne' ((bubble_iff z Psat P hP hz1).mp (hb ▸ hb')) hV0 hV1
  · intro h V hV0 hV1
    have hd' : P ≤ Pdew := by
      unfold tpBranch at h
      split at h
      · rename_i h1; exact h1.1
      · split at h <;> cases h
    have : P * sumF n (fun i => z i / Psat i) ≤ 1 := by
      rw [← hd]; exact mul_le_mul_of_nonneg_right hd' hS.le
    exact rr_all_vapour z _ hz hK hne' ((dew_iff z Psat P hP hPs hz1).mp this) hV0 hV1

/-! ## 4. The fixed point of the iteration -/

/-- A fixed point of `xVlogK_iter` satisfies iso-fugacity, chemical by chemical:
`x_i γ_i pcf_i Psat_i = y_i φ_i P` with `y_i = K_i x_i`, where `γ`, `φ` are the property package's
values at the fixed point's own (normalised) compositions.  `hclip`: the `1e-16` floor on `K` is
not active. -/
theorem fixed_point_isofugacity {n : Nat} (twoN : Bool) (eps : α) (z pcf Psat : Fin n → α) (P : α)
    (γf φf : (Fin n → α) → (Fin n → α)) (solveV : (Fin n → α) → α → α) (s : St n α)
    (hP : P ≠ 0)
    (hfix : iterMap twoN eps z (fun i => pcf i * Psat i / P) γf φf solveV s = s)
    (hφ : ∀ i, φf (xyNorm eps s.x s.K).2 i ≠ 0)
    (hclip : ∀ i, ¬ (pcf i * Psat i / P * γf (xyNorm eps s.x s.K).1 i / φf (xyNorm eps s.x s.K).2 i < eps)) :
    ∀ i, s.x i * γf (xyNorm eps s.x s.K).1 i * pcf i * Psat i
          = (s.K i * s.x i) * φf (xyNorm eps s.x s.K).2 i * P := by
  intro i
  have hK : s.K i = pcf i * Psat i / P * γf (xyNorm eps s.x s.K).1 i / φf (xyNorm eps s.x s.K).2 i := by
    have := congrFun (congrArg St.K hfix) i
    simp only [iterMap, iterStep, newK, newK1, if_neg (hclip i)] at this
    exact this.symm
  rw [hK]
  have := hφ i
  field_simp

/-- … and the material balance of every chemical: `V y_i + (1 − V) x_i = z_i`. -/
theorem fixed_point_balance {n : Nat} (twoN : Bool) (eps : α) (z c : Fin n → α)
    (γf φf : (Fin n → α) → (Fin n → α)) (solveV : (Fin n → α) → α → α) (s : St n α)
    (hfix : iterMap twoN eps z c γf φf solveV s = s)
    (hden : ∀ i, 1 + s.V * (s.K i - 1) ≠ 0) :
    ∀ i, s.V * (s.K i * s.x i) + (1 - s.V) * s.x i = z i := by
  intro i
  have hK := congrArg St.K hfix
  have hV := congrArg St.V hfix
  have hx := congrFun (congrArg St.x hfix) i
  simp only [iterMap, iterStep] at hK hV hx
  rw [hK] at hV hx
  rw [hV] at hx
  simp only [xOfV] at hx
  have := hden i
  rw [← hx]
  field_simp
  ring

/-- non-vacuity: an ideal binary (`K = (2, 1/2)`, `z = (1/2, 1/2)`) has the fixed point `V = 1/2`,
`x = (1/3, 2/3)`. -/
example :
    let s : St 2 ℚ := { x := fun i => if i = 0 then 1/3 else 2/3, V := 1/2, K := fun i => if i = 0 then 2 else 1/2 }
    (iterMap true (0 : ℚ) (fun _ => 1/2) (fun i => if i = 0 then 2 else 1/2) (fun _ _ => 1) (fun _ _ => 1)
      (fun _ g => g) s).V = s.V := by
  simp [iterMap, iterStep, rr2Nv, rr2N, newK, newK1]
  norm_num

/-! ## 5. Exit through the `K_tol` test bounds the fugacity mismatch -/

/-- The vector form, tied to the model's `exitTest` (the `flexsolve.aitken` test on
`|in − out|` of the `ln K` block). -/
theorem exit_residual {n : Nat} (tol : ℝ) (c γ φ xh lnKin lnKout : Fin n → ℝ) (S : ℝ)
    (htol : 0 < tol) (htol2 : tol ≤ 1 / 2) (hx : ∀ i, 0 < xh i) (hφ : ∀ i, 0 < φ i) (hS : 0 < S)
    (hKout : ∀ i, c i * γ i / φ i = Real.exp (lnKout i))
    (hexit : exitTest (fun i => |lnKin i - lnKout i|) tol = true) :
    ∀ i, |xh i * γ i * c i - S * (xh i * Real.exp (lnKin i) / S * φ i)|
          ≤ 2 * tol * (S * (xh i * Real.exp (lnKin i) / S * φ i)) := by
  intro i
  exact exit_residual_one tol (c i) (γ i) (φ i) (xh i) _ S (lnKin i) (lnKout i) htol htol2 (hx i) (hφ i) hS rfl
    (hKout i) ((exitTest_iff _ _).mp hexit i)

/-- non-vacuity: the hypotheses are satisfiable (`K = 1` unchanged by the step). -/
example : |(1/2 : ℝ) * 1 * 1 - 1 * ((1/2) * Real.exp 0 / 1 * 1)|
    ≤ 2 * (1e-6) * (1 * ((1/2) * Real.exp 0 / 1 * 1)) :=
  exit_residual_one 1e-6 1 1 1 (1/2) _ 1 0 0 (by norm_num) (by norm_num) (by norm_num)
    (by norm_num) (by norm_num) rfl (by simp) (by norm_num)

/-! ## 6. Scaling the feed scales the products -/

/-- degree 0: the composition the iteration works on does not see the scale -/
theorem setupZ_scale {n : Nat} (k : α) (hk : k ≠ 0) (mol : Fin n → α) (Fl Fh : α) :
    setupZ (fun i => k * mol i) (k * Fl) (k * Fh) = setupZ mol Fl Fh := by
  funext i
  simp only [setupZ, setupF_scale]
  rw [mul_div_mul_left _ _ hk]

/-- degree 1: the write-back (`v = F·V·x̂·K` clipped into `[0, mol]`) -/
theorem writeBack_scale {n : Nat} (k : α) (hk : 0 < k) (F V : α) (xh K mol : Fin n → α) :
    writeBack (k * F) V xh K (fun i => k * mol i) = fun i => k * writeBack F V xh K mol i := by
  funext i
  exact writeBack1_scale k hk F V (xh i) (K i) (mol i)

/-- The whole model flash: set-up, any number of iterations of the fixed-point map (with any
property package and Rachford–Rice solver), normalisation and write-back. -/
def flashModel {n : Nat} (twoN : Bool) (eps : α) (c : Fin n → α) (γf φf : (Fin n → α) → (Fin n → α))
    (solveV : (Fin n → α) → α → α) (s0 : St n α) (iters : Nat) (mol : Fin n → α) (Fl Fh : α) : Fin n → α :=
  let z := setupZ mol Fl Fh
  let s := (iterMap twoN eps z c γf φf solveV)^[iters] s0
  writeBack (setupF mol Fl Fh) s.V (xyNorm eps s.x s.K).1 s.K mol

/-- Multiplying every feed flow (volatile, light, heavy) by `k > 0` multiplies every product flow
by `k`: every model step is homogeneous (degree 0 up to the write-back, degree 1 there). -/
theorem scale_equivariant {n : Nat} (twoN : Bool) (eps : α) (c : Fin n → α) (γf φf : (Fin n → α) → (Fin n → α))
    (solveV : (Fin n → α) → α → α) (s0 : St n α) (iters : Nat) (mol : Fin n → α) (Fl Fh k : α) (hk : 0 < k) :
    flashModel twoN eps c γf φf solveV s0 iters (fun i => k * mol i) (k * Fl) (k * Fh)
      = fun i => k * flashModel twoN eps c γf φf solveV s0 iters mol Fl Fh i := by
  unfold flashModel
  simp only [setupZ_scale k hk.ne', setupF_scale]
  exact writeBack_scale k hk _ _ _ _ _

example : writeBack1 (3 * 10 : ℚ) (1/2) (1/3) 2 (3 * 5) = 3 * writeBack1 10 (1/2) (1/3) 2 5 :=
  writeBack1_scale 3 (by norm_num) _ _ _ _ _

/-! ## 7. The ideal package: the fixed point IS the Raoult Rachford–Rice solution -/

/-- With `γ = φ = pcf = 1` a fixed point has `K_i = Psat_i / P`, its `V` solves the Raoult
Rachford–Rice equation (hypothesis `hsolve`: the numerical solver returns a root in [0, 1] FOR THESE
K-values — i.e. the mixture is between its dew and bubble points; monitored per step by the driver), it is the ONLY solution in [0, 1], and `x`, `y = K x` are the Rachford–Rice compositions. -/
theorem ideal_flash_is_RR {n : Nat} (eps : α) (z Psat : Fin n → α) (P : α)
    (solveV : (Fin n → α) → α → α) (s : St n α)
    (hz : ∀ i, 0 ≤ z i) (hPs : ∀ i, 0 < Psat i) (hP : 0 < P) (hne : ∃ i, 0 < z i ∧ Psat i ≠ P)
    (hclip : ∀ i, ¬ (Psat i / P < eps))
    (hfix : iterMap false eps z (fun i => 1 * Psat i / P) (fun _ _ => 1) (fun _ _ => 1) solveV s = s)
    (hsolve : ∀ g, rr z (fun i => Psat i / P) (solveV (fun i => Psat i / P) g) = 0 ∧
        solveV (fun i => Psat i / P) g ∈ Set.Icc (0 : α) 1) :
    (∀ i, s.K i = Psat i / P) ∧ rr z (fun i => Psat i / P) s.V = 0 ∧
    (∀ V' ∈ Set.Icc (0 : α) 1, rr z (fun i => Psat i / P) V' = 0 → V' = s.V) ∧
    (∀ i, s.x i = z i / (1 + s.V * (Psat i / P - 1))) := by
  have hKfun : s.K = fun i => Psat i / P := by
    have := congrArg St.K hfix
    simp only [iterMap, iterStep] at this
    rw [← this]
    funext i
    simp only [newK, newK1, one_mul, mul_one, div_one]
    rw [if_neg (hclip i)]
  have hV := congrArg St.V hfix
  have hx := congrArg St.x hfix
  simp only [iterMap, iterStep, Bool.false_eq_true, if_false] at hV hx
  have hK' : (newK eps (fun i => 1 * Psat i / P) (fun _ : Fin n => (1 : α)) (fun _ => 1)) = fun i => Psat i / P := by
    funext i
    simp only [newK, newK1, one_mul, mul_one, div_one]
    rw [if_neg (hclip i)]
  rw [hK'] at hV hx
  have hroot := hsolve (if s.V < 0 then 0 else if 1 < s.V then 1 else s.V)
  rw [hV] at hroot hx
  have hK : ∀ i, 0 < Psat i / P := fun i => div_pos (hPs i) hP
  have hne' : ∃ i, 0 < z i ∧ Psat i / P ≠ 1 := by
    obtain ⟨i, h1, h2⟩ := hne
    exact ⟨i, h1, fun h => h2 ((div_eq_one_iff_eq hP.ne').mp h)⟩
  refine ⟨fun i => congrFun hKfun i, hroot.1, ?_, ?_⟩
  · intro V' hV' h0
    exact rr_root_unique z _ hz hK hne' hV' hroot.2 (h0.trans hroot.1.symm)
  · intro i
    have := congrFun hx i
    simp only [xOfV] at this
    exact this.symm

/-! ### Non-vacuity: one concrete two-phase ideal binary meets ALL hypotheses of the fixed-point theorems

`z = (1/2, 1/2)`, `Psat = (2, 1/2)`, `P = 1`, solver = the two-component closed form.  The state
`x = (1/3, 2/3)`, `V = 1/2`, `K = (2, 1/2)` is an exact fixed point of the iteration. -/

-- (`exZ`, `exPsat`, `exS` and the helper `exS_fixed : iterMap … exS = exS` live in Lemmas/Flash.lean)

example :
    (∀ i, exS.K i = exPsat i / 1) ∧ rr exZ (fun i => exPsat i / 1) exS.V = 0 ∧
    (∀ V' ∈ Set.Icc (0 : ℚ) 1, rr exZ (fun i => exPsat i / 1) V' = 0 → V' = exS.V) ∧
    (∀ i, exS.x i = exZ i / (1 + exS.V * (exPsat i / 1 - 1))) :=
  ideal_flash_is_RR 0 exZ exPsat 1 (fun K _ => rr2Nv exZ K) exS
    (fun _ => by norm_num [exZ]) (fun i => by fin_cases i <;> simp [exPsat])
    one_pos ⟨0, by norm_num [exZ], by simp [exPsat]⟩
    (fun i => by fin_cases i <;> simp [exPsat])
    exS_fixed
    (fun _ => by
      have hV : rr2Nv exZ (fun i => exPsat i / 1) = 1/2 := by
        simp [rr2Nv, rr2N, exZ, exPsat]; norm_num
      rw [hV]
      refine ⟨?_, by norm_num, by norm_num⟩
      simp [rr, sumF, rrTerm, exZ, exPsat]; norm_num)

/-- … and of `fixed_point_isofugacity` (γ = φ = pcf = 1): an exact fixed point, not only a fixed `V`. -/
example : ∀ i, exS.x i * (1 : ℚ) * 1 * exPsat i = (exS.K i * exS.x i) * 1 * 1 :=
  fixed_point_isofugacity false 0 exZ (fun _ => 1) exPsat 1 (fun _ _ => 1) (fun _ _ => 1) (fun K _ => rr2Nv exZ K) exS
    one_ne_zero exS_fixed (fun _ => one_ne_zero) (fun i => by fin_cases i <;> simp [exPsat])

/-- non-vacuity of `rr_two_phase`, `rrPrecheck_sign_sound`, `tpBranch_sound`, `scale_equivariant` -/
example : 0 < rr exZ exPsat 0 ∧ rr exZ exPsat 1 < 0 :=
  rr_two_phase exZ exPsat (fun _ => by norm_num [exZ]) (fun i => by fin_cases i <;> simp [exPsat])
    ⟨0, by norm_num [exZ], by simp [exPsat]⟩ (V := 1/2) (by norm_num) (by norm_num)
    (by simp [rr, sumF, rrTerm, exZ, exPsat]; norm_num)

def exK2 : Fin 2 → ℚ := fun i => if i = 0 then 6/5 else 1/2

example : ((0 : ℚ) = 0 ∧ rr exZ exK2 0 < 0) ∨ ((0 : ℚ) = 1 ∧ 0 < rr exZ exK2 1) :=
  rrPrecheck_sign_sound exZ exK2 (fun _ => by norm_num [exZ]) (fun i => by fin_cases i <;> simp [exK2])
    ⟨0, by norm_num [exZ], by norm_num [exK2]⟩ (6/5) (1/2) 1 1 0 (by norm_num) (by norm_num)
    (by
      have h0 : rr exZ exK2 0 = -(3/20) := by simp [rr, sumF, rrTerm, exZ, exK2]; norm_num
      have h1 : rr exZ exK2 1 = -(5/12) := by simp [rr, sumF, rrTerm, exZ, exK2]; norm_num
      rw [h0, h1]
      norm_num [rrPrecheck])

example : rr exZ (fun i => exPsat i / 2) (1/2) < 0 :=
  (tpBranch_sound exZ exPsat 2 (by norm_num) (fun i => by fin_cases i <;> simp [exPsat]) (fun _ => by norm_num [exZ])
    (by simp [sumF, exZ]; norm_num) ⟨1, by norm_num [exZ], by norm_num [exPsat]⟩ (4/5) (5/4)
    (by simp [sumF, exZ, exPsat]; norm_num) (by simp [sumF, exZ, exPsat]; norm_num)).1
    (by simp [tpBranch]; norm_num) (1/2) (by norm_num) (by norm_num)

example : flashModel false 0 (fun i => exPsat i) (fun _ _ => 1) (fun _ _ => 1) (fun K _ => rr2Nv exZ K) exS 3
      (fun i => 3 * exZ i) (3 * 0) (3 * 0)
    = fun i => 3 * flashModel false 0 (fun i => exPsat i) (fun _ _ => 1) (fun _ _ => 1) (fun K _ => rr2Nv exZ K) exS 3 exZ 0 0 i :=
  scale_equivariant false 0 _ _ _ _ exS 3 exZ 0 0 3 (by norm_num)

end ThermoVerif.Props.C04
