import ThermoVerif.Lemmas.Unifac
import ThermoVerif.Lemmas.UnifacGD
import Mathlib.Analysis.Calculus.FDeriv.Mul
import Mathlib.Analysis.Calculus.FDeriv.Add
import Mathlib.Analysis.Calculus.FDeriv.Pi
import Mathlib.Analysis.Calculus.Deriv.Mul
import Mathlib.Analysis.Calculus.Deriv.Comp
import Mathlib.Tactic.IntervalCases
/-
C16 — activity-coefficient models are normalised, consistent and side-effect free.

Theorems about the executable model `ThermoVerif.Unifac` (Model/Unifac.lean) instantiated at `ℝ`
(`instTranscReal`: `exp`, `log`, `rpow` are Mathlib's), and, where no analysis is involved
(`no_groups_one`, `args_pure`, `f_form_eq_object_form`), at every scalar type, so in particular at the
`Float` instance the driver runs.  Facts that merely unfold the model's definitions (`ideal_one`,
`ideal_call_pure`, `result_size`) and the example data live in Lemmas/Unifac.lean: the clauses "ideal models
return one" and "argument untouched / result fresh" are carried on the real code by the correspondence
lines and the oracle, not by proof.

Group tables are parameters.  The theorems that need the structure of the tables are stated for
`build nC nG index cg Qs Rs` (the model of `GroupActivityCoefficients.__new__`) under `WF`
(non-negative counts and Q, positive q_i and r_i); the driver checks on every real object that
its arrays are those tables and meet `WF` (`wf=1`).

Gibbs–Duhem for the concrete UNIFAC / modified-UNIFAC expressions IS decided by proof:
`gibbs_duhem_concrete` discharges `gibbs_duhem_concrete_statement` (the model's `ln γ` is the gradient of the
degree-one homogeneous, differentiable excess function `Gex`, for arbitrary group tables), and
`gibbs_duhem_unifac_all` gives `Σ n_i d(ln γ_i)[v] = 0` on the positive orthant with no hypothesis left
(Lemmas/UnifacGD.lean).  The finite-difference probe on the real code remains as a search oracle.
-/
namespace ThermoVerif.Props.C16
open ThermoVerif.Unifac Transc
open scoped BigOperators
open Filter Topology

/-! ### pure_limit -/

/-- **pure_limit (kernels).**  With the tables `__new__` builds, for either model, any interaction
parameters and any temperature, the kernels evaluated at `x = e_i` give `γ_i = 1`: the
combinatorial term vanishes and the residual term equals its pure-component reference. -/
theorem pure_limit_kernel (kind : Kind) {nC nG : Nat} {cg : Nat → Nat → ℝ} {Qs Rs : Nat → ℝ}
    (index : Nat → Nat) (wf : WF nC nG cg Qs Rs) (inter : Nat → Nat → Nat → ℝ) (T : ℝ)
    {i : Nat} (hi : i < nC) :
    vget (gammaSub kind (build nC nG index cg Qs Rs) inter T (e i)).1 i = 1 := by
  rw [vget_gammaSub _ _ _ _ _ (show i < (build nC nG index cg Qs Rs).nC from hi)]
  exact gammaSubS_vertex index wf kind inter T hi

/-- **pure_limit (wrapper).**  `gamma_UNIFAC` (repaired) / `gamma_modified_UNIFAC` called with a
composition that is 1 on the `i`-th chemical with groups and 0 on the other chemicals with groups
(whatever it holds for members without groups… which for a point of the simplex is 0) return
exactly 1 at that chemical's position. -/
theorem pure_limit (kind : Kind) {nC nG : Nat} {cg : Nat → Nat → ℝ} {Qs Rs : Nat → ℝ}
    (index : Nat → Nat) (wf : WF nC nG cg Qs Rs) (inter : Nat → Nat → Nat → ℝ) (T : ℝ)
    (hnC : 1 < nC) (hinj : ∀ a b, a < nC → b < nC → index a = index b → a = b)
    (x : Array ℝ) {i : Nat} (hi : i < nC) (hsize : index i < x.size)
    (hx : ∀ a, a < nC → vget x (index a) = if a = i then 1 else 0) :
    vget (gammaF kind (build nC nG index cg Qs Rs) inter x T).gamma (index i) = 1 := by
  rw [vget_gammaF _ _ _ _ _ hsize]
  exact gammaFS_vertex kind index wf inter T hnC hinj x hi hx

/-- **pure_limit, as a limit.**  (Stated for the kernels; the wrapper hands them `xsub / xsum`, which tends to
`e_i` when the whole composition tends to the vertex, so the wrapper statement is this one composed with a
continuous map — not restated.)  `γ_i → 1` as the composition handed to the kernels tends to the
vertex `e_i` (from any direction: the approaching compositions need not be normalised or
non-negative).  Together with `pure_limit_kernel` (the value at the vertex) this is the clause
"the coefficient of a chemical tends to one as its mole fraction tends to one". -/
theorem pure_limit_tendsto (kind : Kind) {nC nG : Nat} {cg : Nat → Nat → ℝ} {Qs Rs : Nat → ℝ}
    (index : Nat → Nat) (wf : WF nC nG cg Qs Rs) (inter : Nat → Nat → Nat → ℝ) (T : ℝ)
    {i : Nat} (hi : i < nC) :
    Tendsto (fun xs : ℕ → ℝ => vget (gammaSub kind (build nC nG index cg Qs Rs) inter T xs).1 i)
      (𝓝 (e i)) (𝓝 1) := by
  have : (fun xs : ℕ → ℝ => vget (gammaSub kind (build nC nG index cg Qs Rs) inter T xs).1 i)
      = fun xs => gammaSubS kind (build nC nG index cg Qs Rs) inter T xs i := by
    funext xs
    exact vget_gammaSub _ _ _ _ _ (show i < (build nC nG index cg Qs Rs).nC from hi)
  rw [this]
  exact gammaSubS_tendsto index wf kind inter T hi

/-! ### perm_equivariant -/

/-- **perm_equivariant (kernels).**  Relabelling the chemicals by `σ` and the subgroups by `τ`
(tables, interaction parameters and composition alike) relabels the coefficients. -/
theorem perm_equivariant_kernel (kind : Kind) {tb tb' : Tables ℝ} {σ τ : Equiv.Perm ℕ}
    (R : PermRel tb tb' σ τ) {inter inter' : Nat → Nat → Nat → ℝ} (T : ℝ)
    (hinter : ∀ k m p, k < tb.nG → m < tb.nG → inter' k m p = inter (τ k) (τ m) p)
    {xs xs' : Nat → ℝ} (hx : ∀ a, a < tb.nC → xs' a = xs (σ a)) {i : Nat} (hi : i < tb.nC) :
    vget (gammaSub kind tb' inter' T xs').1 i = vget (gammaSub kind tb inter T xs).1 (σ i) := by
  rw [vget_gammaSub _ _ _ _ _ (show i < tb'.nC by rw [R.nC]; exact hi),
    vget_gammaSub _ _ _ _ _ ((R.hσ i).mpr hi)]
  exact gammaSubS_perm R kind T hinter hx hi

/-- **perm_equivariant (wrapper).**  `π` relabels the positions of the whole chemical tuple
(members without groups included), `σ` the induced relabelling of the members with groups, `τ`
the subgroup columns.  The coefficient found at position `j` of the relabelled call is the one
found at position `π j` of the original call. -/
theorem perm_equivariant (kind : Kind) {tb tb' : Tables ℝ} {σ τ : Equiv.Perm ℕ}
    (R : PermRel tb tb' σ τ) {inter inter' : Nat → Nat → Nat → ℝ} (T : ℝ)
    (hinter : ∀ k m p, k < tb.nG → m < tb.nG → inter' k m p = inter (τ k) (τ m) p)
    (π : Equiv.Perm ℕ) (hidx : ∀ a, a < tb.nC → tb.index (σ a) = π (tb'.index a))
    (hinj : ∀ a b, a < tb.nC → b < tb.nC → tb.index a = tb.index b → a = b)
    (x x' : Array ℝ) (hxx : ∀ j, vget x' j = vget x (π j))
    {j : Nat} (hj : j < x'.size) (hπj : π j < x.size) :
    vget (gammaF kind tb' inter' x' T).gamma j = vget (gammaF kind tb inter x T).gamma (π j) := by
  rw [vget_gammaF _ _ _ _ _ hj, vget_gammaF _ _ _ _ _ hπj]
  exact gammaFS_perm R kind T hinter π hidx hinj x x' hxx j

/-- The tables `__new__` builds from relabelled group data stand in the relation `perm_equivariant`
assumes (so the theorem applies to the model object of the permuted tuple). -/
theorem perm_tables_built {nC nG : Nat} (index index' : Nat → Nat) (cg : Nat → Nat → ℝ) (Qs Rs : Nat → ℝ)
    (σ τ : Equiv.Perm ℕ) (hσ : ∀ i, σ i < nC ↔ i < nC) (hτ : ∀ k, τ k < nG ↔ k < nG) :
    PermRel (build nC nG index cg Qs Rs)
      (build nC nG index' (fun i k => cg (σ i) (τ k)) (fun k => Qs (τ k)) (fun k => Rs (τ k))) σ τ :=
  build_permRel index index' cg Qs Rs σ τ hσ hτ

/-! ### no_groups_one (every scalar type, `Float` included) -/

section anyScalar
variable {α : Type} [Zero α] [One α] [Add α] [Sub α] [Mul α] [Div α] [Neg α] [Transc α]

/-- **no_groups_one.**  A position of the chemical tuple that no chemical-with-groups occupies gets
exactly one, in every branch of the wrapper. -/
theorem no_groups_one (kind : Kind) (tb : Tables α) (inter : Nat → Nat → Nat → α) (x : Array α) (T : α)
    {j : Nat} (hj : j < x.size) (h : ∀ a, a < tb.nC → tb.index a ≠ j) :
    vget (gammaF kind tb inter x T).gamma j = 1 := by
  rw [vget_gammaF _ _ _ _ _ hj]
  exact gammaFS_nogroup kind tb inter x T j h

/-! ### args_pure, f_form_eq_object_form (store-based) -/

/-- **args_pure (one call).**  (Content: a frame property of the store model.  That the model's wrapper has
no step that writes a caller array is a modelling decision mirroring the repaired code; on the real code the
clause "never modifies the composition array" is decided by the protocol field `x=<array after the call>`,
`fresh=`, and the oracle (`x-modified`, `result-aliases-*`, `result-shared-between-calls`, `args-modified`).)
`Gamma(x, T)`: every array that existed before the call, the
caller's `x` included, has the same contents afterwards; the result is a new array (its id is not
the id of any earlier array); and its contents are a function of the *contents* of the argument,
the tables and `T` alone, not of `_group_psis` or anything else in the store. -/
theorem args_pure (w : World α) (kind : Kind) (tb : Tables α) (inter : Nat → Nat → Nat → α)
    (arg : Arg α) (T : α) (hok : w.argOk arg) :
    (∀ id, id < w.heap.size → (w.call kind tb inter arg T).1.read id = w.read id)
    ∧ w.heap.size ≤ (w.call kind tb inter arg T).2
    ∧ (w.call kind tb inter arg T).1.read (w.call kind tb inter arg T).2
        = (gammaF kind tb inter (w.argContents arg) T).gamma := by
  obtain ⟨h1, h2, _, _, h5⟩ := call_spec w kind tb inter arg T hok
  exact ⟨h1, h2, h5⟩

/-- **args_pure (histories).**  After any sequence of calls on one model object, every array that
existed at the start is unchanged, and the k-th result is what a single call in the initial store
would have returned: no call sees a trace of the earlier ones. -/
theorem args_pure_history (kind : Kind) (tb : Tables α) (inter : Nat → Nat → Nat → α)
    (cs : List (Arg α × α)) (w : World α) (hok : ∀ c, c ∈ cs → w.argOk c.1) :
    (∀ id, id < w.heap.size → (w.runCalls kind tb inter cs).1.read id = w.read id)
    ∧ (w.runCalls kind tb inter cs).2
        = cs.map fun c => (gammaF kind tb inter (w.argContents c.1) c.2).gamma :=
  runCalls_spec kind tb inter cs w hok

/-- **args_pure (histories with the caller's own writes).**  A history interleaves evaluations `Gamma(x, T)` of
one model object with the caller overwriting its own arrays in place (`x[:] = …`, what a flash solver does with
a reused composition buffer).  Every result is what the kernels give for the contents the argument has AT THE
TIME OF THAT CALL (no memo of an earlier evaluation of the same array object survives a write), and at the end
each of the caller's arrays holds exactly what the caller last wrote into it. -/
theorem args_pure_steps (kind : Kind) (tb : Tables α) (inter : Nat → Nat → Nat → α) (N : Nat) (steps : List (Step α))
    (w : World α) (hN : N ≤ w.heap.size) (hok : ∀ s, s ∈ steps → s.ok N) :
    (w.runSteps kind tb inter steps).2 = stepsPure kind tb inter w.read steps
    ∧ ∀ id, id < N → (w.runSteps kind tb inter steps).1.read id = stepsHeap w.read steps id :=
  runSteps_spec kind tb inter N steps w w.read hN (fun _ _ => rfl) hok

/-- non-vacuity of `args_pure_steps`: evaluate, overwrite the array, evaluate again. -/
example : ∀ s, s ∈ [Step.call (.nd 0) (300:ℝ), Step.set 0 #[1/2, 1/2], Step.call (.nd 0) 300] → s.ok 1 := by
  intro s hs
  simp only [List.mem_cons, List.not_mem_nil, or_false] at hs
  rcases hs with rfl | rfl | rfl <;> simp [Step.ok]

/-- **f_form_eq_object_form.**  (The first half holds by definition of `World.call` on a float64 ndarray —
`__call__` IS `self.f(np.asarray(x, float), T, *self.args)`; the content is the second half and
`f_form_eq_object_form_any_dtype`: a copy made by `np.asarray` gives the same values.  On the real code the
clause is decided by evaluating both forms on every input, oracle signature `f-form`.)
`Gamma(x, T)` and `Gamma.f(x, T, *Gamma.args)` are the same step on
a float ndarray, and on any other sequence `Gamma(x, T)` returns the values `f` returns for an
array with those contents. -/
theorem f_form_eq_object_form (w : World α) (kind : Kind) (tb : Tables α) (inter : Nat → Nat → Nat → α) (T : α) :
    (∀ id, w.call kind tb inter (.nd id) T = w.fForm kind tb inter id T)
    ∧ (∀ (v : Array α) (id : Nat), id < w.heap.size → w.read id = v →
        (w.call kind tb inter (.seq v) T).1.read (w.call kind tb inter (.seq v) T).2
          = (w.fForm kind tb inter id T).1.read (w.fForm kind tb inter id T).2) := by
  refine ⟨fun _ => rfl, fun v id hid hv => ?_⟩
  have h1 := (call_spec w kind tb inter (.seq v) T trivial).2.2.2.2
  have h2 := (call_spec w kind tb inter (.nd id) T hid).2.2.2.2
  simp only [World.argContents] at h1 h2
  rw [h1, show w.fForm kind tb inter id T = w.call kind tb inter (.nd id) T from rfl, h2, hv]

/-- **f_form_eq_object_form, any dtype.**  For an ndarray that is not float64 (an integer-typed vertex
`np.array([1, 0, 0])`, a float32 array) `Gamma(x, T)` converts a copy and `Gamma.f(x, T, *args)` reads the
array itself; both return the float coefficients of the array's *values* (the result buffer is
`np.ones(x.size)`, it does not inherit `x.dtype`), and neither writes the caller's array. -/
theorem f_form_eq_object_form_any_dtype (w : World α) (kind : Kind) (tb : Tables α) (inter : Nat → Nat → Nat → α)
    (T : α) (id : Nat) (hid : id < w.heap.size) :
    (w.call kind tb inter (.ndOther id) T).1.read (w.call kind tb inter (.ndOther id) T).2
        = (w.fForm kind tb inter id T).1.read (w.fForm kind tb inter id T).2
    ∧ (w.fForm kind tb inter id T).1.read (w.fForm kind tb inter id T).2 = (gammaF kind tb inter (w.read id) T).gamma
    ∧ (w.call kind tb inter (.ndOther id) T).1.read id = w.read id
    ∧ (w.fForm kind tb inter id T).1.read id = w.read id := by
  have h1 := call_spec w kind tb inter (.ndOther id) T hid
  have h2 := call_spec w kind tb inter (.nd id) T hid
  simp only [World.argContents] at h1 h2
  refine ⟨?_, h2.2.2.2.2, h1.1 id hid, h2.1 id hid⟩
  rw [h1.2.2.2.2]; exact h2.2.2.2.2.symm

end anyScalar

/-! ### Gibbs–Duhem -/

/-- Euler's theorem for a differentiable function that is positively homogeneous of degree one:
`G y = Σ y_i ∂_i G(y)`. -/
theorem euler_homogeneous {n : ℕ} (G : (Fin n → ℝ) → ℝ) (g : Fin n → ℝ) (y : Fin n → ℝ)
    (hG : HasFDerivAt G (∑ i, g i • ContinuousLinearMap.proj (R := ℝ) (φ := fun _ : Fin n => ℝ) i) y)
    (hom : ∀ t : ℝ, 0 < t → G (t • y) = t * G y) : G y = ∑ i, y i * g i := by
  have hline : HasDerivAt (fun t : ℝ => t • y) y 1 := by
    simpa using (hasDerivAt_id (1:ℝ)).smul_const y
  have hG1 : HasFDerivAt G (∑ i, g i • ContinuousLinearMap.proj (R := ℝ) (φ := fun _ : Fin n => ℝ) i)
      ((1:ℝ) • y) := by simpa using hG
  have h1 := hG1.comp_hasDerivAt (1:ℝ) hline
  have h2 : HasDerivAt (fun t : ℝ => t * G y) (G y) 1 := by
    simpa using (hasDerivAt_id (1:ℝ)).mul_const (G y)
  have hev : (G ∘ fun t : ℝ => t • y) =ᶠ[𝓝 (1:ℝ)] fun t => t * G y := by
    filter_upwards [lt_mem_nhds (show (0:ℝ) < 1 by norm_num)] with t ht
    exact hom t ht
  have h3 := h2.congr_of_eventuallyEq hev
  have := h1.unique h3
  rw [← this]
  simp [_root_.sum_apply, mul_comm]

/-- **gibbs_duhem_euler.**  If on an open set `S` the functions `ln γ_i` are the partial derivatives
of a differentiable `G` (the excess Gibbs energy `n G^E / RT` as a function of mole numbers) that
is positively homogeneous of degree one, then at every point `x ∈ S` where the `ln γ_i` are
differentiable, and along every direction `v` (in particular along the simplex),
`Σ x_i d(ln γ_i)[v] = 0`. -/
theorem gibbs_duhem_euler {n : ℕ} (S : Set (Fin n → ℝ)) (hS : IsOpen S)
    (G : (Fin n → ℝ) → ℝ) (lnγ : Fin n → (Fin n → ℝ) → ℝ)
    (hG : ∀ y ∈ S, HasFDerivAt G
      (∑ i, lnγ i y • ContinuousLinearMap.proj (R := ℝ) (φ := fun _ : Fin n => ℝ) i) y)
    (hom : ∀ y ∈ S, ∀ t : ℝ, 0 < t → G (t • y) = t * G y)
    (x : Fin n → ℝ) (hx : x ∈ S)
    (dlnγ : Fin n → ((Fin n → ℝ) →L[ℝ] ℝ)) (hγ : ∀ i, HasFDerivAt (lnγ i) (dlnγ i) x)
    (v : Fin n → ℝ) : ∑ i, x i * dlnγ i v = 0 := by
  have heuler : ∀ y ∈ S, G y = ∑ i, y i * lnγ i y :=
    fun y hy => euler_homogeneous G (fun i => lnγ i y) y (hG y hy) (hom y hy)
  have hF : HasFDerivAt (fun y : Fin n → ℝ => ∑ i, y i * lnγ i y)
      (∑ i, (x i • dlnγ i + lnγ i x • ContinuousLinearMap.proj (R := ℝ) (φ := fun _ : Fin n => ℝ) i)) x := by
    apply HasFDerivAt.fun_sum
    intro i _
    exact (hasFDerivAt_apply (𝕜 := ℝ) i x).mul (hγ i)
  have hev : (fun y : Fin n → ℝ => ∑ i, y i * lnγ i y) =ᶠ[𝓝 x] G := by
    filter_upwards [hS.mem_nhds hx] with y hy
    exact (heuler y hy).symm
  have huniq := (hF.congr_of_eventuallyEq hev.symm).unique (hG x hx)
  have := congrArg (fun L : (Fin n → ℝ) →L[ℝ] ℝ => L v) huniq
  simp only [_root_.sum_apply, _root_.add_apply, _root_.smul_apply,
    ContinuousLinearMap.proj_apply, smul_eq_mul, Finset.sum_add_distrib] at this
  linarith

/-- The statement that the model's `ln γ_i` (as functions of mole numbers, i.e. `gammaSubS`
composed with normalisation) are the partial derivatives of one degree-one homogeneous function.
Proved below (`gibbs_duhem_concrete`); with `gibbs_duhem_euler` it gives Gibbs–Duhem for the
concrete models (`gibbs_duhem_unifac`, `gibbs_duhem_unifac_all`). -/
def gibbs_duhem_concrete_statement : Prop :=
  ∀ (kind : Kind) (nC nG : Nat) (index : Nat → Nat) (cg : Nat → Nat → ℝ) (Qs Rs : Nat → ℝ)
    (_ : WF nC nG cg Qs Rs) (inter : Nat → Nat → Nat → ℝ) (T : ℝ),
    ∃ G : (Fin nC → ℝ) → ℝ,
      (∀ y : Fin nC → ℝ, (∀ i, 0 < y i) → ∀ t : ℝ, 0 < t → G (t • y) = t * G y) ∧
      (∀ y : Fin nC → ℝ, (∀ i, 0 < y i) →
        HasFDerivAt G (∑ i : Fin nC,
          Real.log (gammaSubS kind (build nC nG index cg Qs Rs) inter T
            (fun a => if h : a < nC then y ⟨a, h⟩ / ∑ b, y b else 0) i)
            • ContinuousLinearMap.proj (R := ℝ) (φ := fun _ : Fin nC => ℝ) i) y)

/-! ### non-vacuity: concrete data meeting every hypothesis -/

/-- `pure_limit` applies: water-like chemical 0 pure, modified UNIFAC, some interaction
parameters, 300 K. -/
example : vget (gammaF .modified (build 2 2 id cgEx QsEx RsEx) (fun k m _ => (k : ℝ) - m) #[1, 0] 300).gamma 0 = 1 :=
  pure_limit .modified id wfEx _ _ (by norm_num) (fun a b _ _ h => h) #[1, 0] (i := 0) (by norm_num) (by simp)
    (by intro a ha; interval_cases a <;> simp [vget])

example : vget (gammaF .unifac (build 2 2 id cgEx QsEx RsEx) (fun k m _ => (k : ℝ) - m) #[0, 1] 300).gamma 1 = 1 :=
  pure_limit .unifac id wfEx _ _ (by norm_num) (fun a b _ _ h => h) #[0, 1] (i := 1) (by norm_num) (by simp)
    (by intro a ha; interval_cases a <;> simp [vget])

/-- `perm_equivariant` applies: swapping the two chemicals (and the two subgroup columns). -/
example (a b T : ℝ) (inter : Nat → Nat → Nat → ℝ) :
    vget (gammaF .modified
        (build 2 2 id (fun i k => cgEx (Equiv.swap 0 1 i) (Equiv.swap 0 1 k)) (fun k => QsEx (Equiv.swap 0 1 k))
          (fun k => RsEx (Equiv.swap 0 1 k)))
        (fun k m p => inter (Equiv.swap 0 1 k) (Equiv.swap 0 1 m) p) #[b, a] T).gamma 0
      = vget (gammaF .modified (build 2 2 id cgEx QsEx RsEx) inter #[a, b] T).gamma 1 := by
  have R := perm_tables_built (nC := 2) (nG := 2) id id cgEx QsEx RsEx (Equiv.swap 0 1) (Equiv.swap 0 1)
    swap01_range swap01_range
  have := perm_equivariant .modified R (inter := inter)
    (inter' := fun k m p => inter (Equiv.swap 0 1 k) (Equiv.swap 0 1 m) p) T (fun _ _ _ _ _ => rfl)
    (Equiv.swap 0 1) (fun _ _ => rfl) (fun a b _ _ h => h) #[a, b] #[b, a]
    (by
      intro j
      rcases j with _ | _ | j
      · simp [vget]
      · simp [vget]
      · rw [Equiv.swap_apply_of_ne_of_ne (by omega) (by omega)]; simp [vget])
    (j := 0) (by simp) (by simp)
  simpa using this

/-- `args_pure` applies: a store holding the caller's array `[1/4, 3/4]`. -/
example : ({ heap := #[#[1/4, 3/4]] } : World ℝ).argOk (.nd 0) := by simp [World.argOk]

/-- `gibbs_duhem_euler` applies: the one-parameter Margules model of a binary,
`G = A n₀ n₁ / (n₀ + n₁)`, `ln γ₀ = A (n₁/(n₀+n₁))²`, `ln γ₁ = A (n₀/(n₀+n₁))²`, on the open
set `n₀ + n₁ > 0`; hypotheses checked for the homogeneity clause. -/
example (A : ℝ) (y : Fin 2 → ℝ) (hy : 0 < y 0 + y 1) (t : ℝ) (ht : 0 < t) :
    (fun y : Fin 2 → ℝ => A * y 0 * y 1 / (y 0 + y 1)) (t • y)
      = t * (fun y : Fin 2 → ℝ => A * y 0 * y 1 / (y 0 + y 1)) y := by
  simp only [Pi.smul_apply, smul_eq_mul]
  field_simp

/-- … and a fully checked instance: an ideal solution with constant `ln γ_i = c_i`
(`G = Σ c_i n_i` is linear, hence differentiable and homogeneous). -/
example (c : Fin 3 → ℝ) (x v : Fin 3 → ℝ) : ∑ i, x i * (0 : (Fin 3 → ℝ) →L[ℝ] ℝ) v = 0 :=
  gibbs_duhem_euler (n := 3) Set.univ isOpen_univ
    (fun y => (∑ i, c i • ContinuousLinearMap.proj (R := ℝ) (φ := fun _ : Fin 3 => ℝ) i) y) (fun i _ => c i)
    (fun y _ => (∑ i, c i • ContinuousLinearMap.proj (R := ℝ) (φ := fun _ : Fin 3 => ℝ) i).hasFDerivAt)
    (fun y _ t _ => by simp [_root_.sum_apply, Finset.mul_sum])
    x trivial (fun _ => 0) (fun i => hasFDerivAt_const (c i) x) v

/-! ### Gibbs–Duhem for the concrete models (the former `…_statement`, now discharged) -/

/-- **Gibbs–Duhem for the concrete models, gradient form.**  For original and modified UNIFAC on the
tables `__new__` builds (any interaction parameters, any `T`), the function `Gex` (combinatorial part
`Σ n_i c_i + N (ln N − ln Σ n_j v_j) + 5 Σ n_j q_j (ln Σ n_j r_j − ln Σ n_j q_j)`, residual part
`Σ_k Q_k W_k (ln T − ln S_k) − Σ_i n_i Σ_k ν_k^(i) ln Γ_k^(i)`) is positively homogeneous of degree one and
differentiable on the open positive orthant, and its partial derivatives are exactly the model's
`ln γ_i` evaluated at `x = n / Σ n`. -/
theorem gibbs_duhem_concrete : gibbs_duhem_concrete_statement := by
  intro kind nC nG index cg Qs Rs wf inter T
  rcases Nat.eq_zero_or_pos nC with h0 | hn
  · subst h0
    refine ⟨fun _ => 0, fun _ _ _ _ => by simp, fun y _ => ?_⟩
    simpa using (hasFDerivAt_const (0:ℝ) y)
  · refine ⟨Gex kind nC nG index cg Qs Rs inter T, fun y hy t ht => Gex_hom wf hn y hy t ht, fun y hy => ?_⟩
    have h := hasFDerivAt_Gex (kind := kind) (index := index) (inter := inter) (T := T) wf hn y hy
    have e : lin (gradGex kind nC nG index cg Qs Rs inter T y)
        = ∑ i : Fin nC, Real.log (gammaSubS kind (build nC nG index cg Qs Rs) inter T
            (fun a => if h : a < nC then y ⟨a, h⟩ / ∑ b, y b else 0) i)
            • ContinuousLinearMap.proj (R := ℝ) (φ := fun _ : Fin nC => ℝ) i := by
      unfold lin
      apply Finset.sum_congr rfl
      intro i _
      rw [gradGex_eq_log_gamma wf hn y hy i]
      rfl
    rw [← e]; exact h

/-- **Gibbs–Duhem for the concrete models.**  At every point `n` of the positive orthant where the model's
`ln γ_i(n/Σn)` are differentiable, and along every direction `v`: `Σ n_i d(ln γ_i)[v] = 0`
(`gibbs_duhem_euler` applied to `Gex`). -/
theorem gibbs_duhem_unifac (kind : Kind) {nC nG : Nat} (index : Nat → Nat) {cg : Nat → Nat → ℝ} {Qs Rs : Nat → ℝ}
    (wf : WF nC nG cg Qs Rs) (hn : 0 < nC) (inter : Nat → Nat → Nat → ℝ) (T : ℝ)
    (x : Fin nC → ℝ) (hx : ∀ i, 0 < x i)
    (dlnγ : Fin nC → ((Fin nC → ℝ) →L[ℝ] ℝ))
    (hγ : ∀ i : Fin nC, HasFDerivAt
      (fun y => Real.log (gammaSubS kind (build nC nG index cg Qs Rs) inter T (fracs y) i)) (dlnγ i) x)
    (v : Fin nC → ℝ) : ∑ i, x i * dlnγ i v = 0 := by
  have hopen : IsOpen {y : Fin nC → ℝ | ∀ i, 0 < y i} := by
    have : {y : Fin nC → ℝ | ∀ i, 0 < y i} = ⋂ i, {y | 0 < y i} := by ext y; simp
    rw [this]
    exact isOpen_iInter_of_finite (fun i => isOpen_lt continuous_const (continuous_apply i))
  refine gibbs_duhem_euler {y : Fin nC → ℝ | ∀ i, 0 < y i} hopen (Gex kind nC nG index cg Qs Rs inter T)
    (fun i y => Real.log (gammaSubS kind (build nC nG index cg Qs Rs) inter T (fracs y) i))
    (fun y hy => ?_) (fun y hy t ht => Gex_hom wf hn y hy t ht) x hx dlnγ hγ v
  have h := hasFDerivAt_Gex (kind := kind) (index := index) (inter := inter) (T := T) wf hn y hy
  have e : lin (gradGex kind nC nG index cg Qs Rs inter T y)
      = ∑ i : Fin nC, Real.log (gammaSubS kind (build nC nG index cg Qs Rs) inter T (fracs y) i)
          • ContinuousLinearMap.proj (R := ℝ) (φ := fun _ : Fin nC => ℝ) i := by
    unfold lin
    apply Finset.sum_congr rfl
    intro i _
    rw [gradGex_eq_log_gamma wf hn y hy i]
  rw [← e]; exact h

/-- **Integral (Euler) form:** `Gex(n) = Σ n_i ln γ_i(n/Σn)` on the positive orthant — the excess function is
recovered from the model's own coefficients. -/
theorem excess_eq_sum_n_ln_gamma (kind : Kind) {nC nG : Nat} (index : Nat → Nat) {cg : Nat → Nat → ℝ} {Qs Rs : Nat → ℝ}
    (wf : WF nC nG cg Qs Rs) (hn : 0 < nC) (inter : Nat → Nat → Nat → ℝ) (T : ℝ)
    (y : Fin nC → ℝ) (hy : ∀ i, 0 < y i) :
    Gex kind nC nG index cg Qs Rs inter T y
      = ∑ i : Fin nC, y i * Real.log (gammaSubS kind (build nC nG index cg Qs Rs) inter T (fracs y) i) := by
  have h := hasFDerivAt_Gex (kind := kind) (index := index) (inter := inter) (T := T) wf hn y hy
  have := euler_homogeneous (Gex kind nC nG index cg Qs Rs inter T) (gradGex kind nC nG index cg Qs Rs inter T y) y h
    (fun t ht => Gex_hom wf hn y hy t ht)
  rw [this]
  apply Finset.sum_congr rfl; intro i _
  rw [gradGex_eq_log_gamma wf hn y hy i]

/-- **Gibbs–Duhem for the concrete models, no hypothesis left.**  The model's `ln γ_i(n/Σn)` are
differentiable on the positive orthant, and `Σ n_i d(ln γ_i)[v] = 0` there for every direction `v`, for
original and modified UNIFAC, any group tables meeting `WF`, any interaction parameters, any `T`. -/
theorem gibbs_duhem_unifac_all (kind : Kind) {nC nG : Nat} (index : Nat → Nat) {cg : Nat → Nat → ℝ} {Qs Rs : Nat → ℝ}
    (wf : WF nC nG cg Qs Rs) (hn : 0 < nC) (inter : Nat → Nat → Nat → ℝ) (T : ℝ)
    (x : Fin nC → ℝ) (hx : ∀ i, 0 < x i) (v : Fin nC → ℝ) :
    (∀ i : Fin nC, DifferentiableAt ℝ
      (fun y => Real.log (gammaSubS kind (build nC nG index cg Qs Rs) inter T (fracs y) i)) x)
    ∧ ∑ i : Fin nC, x i * fderiv ℝ
        (fun y => Real.log (gammaSubS kind (build nC nG index cg Qs Rs) inter T (fracs y) i)) x v = 0 := by
  have hd := fun i : Fin nC => differentiableAt_log_gamma (kind := kind) (index := index) (inter := inter) (T := T) wf hn x hx i
  exact ⟨hd, gibbs_duhem_unifac kind index wf hn inter T x hx _ (fun i => (hd i).hasFDerivAt) v⟩

/-- non-vacuity: the example tables of `wfEx`, an interior point. -/
example (inter : Nat → Nat → Nat → ℝ) (T : ℝ) (v : Fin 2 → ℝ) :
    ∑ i : Fin 2, (![1/4, 3/4] : Fin 2 → ℝ) i * fderiv ℝ
        (fun y => Real.log (gammaSubS .modified (build 2 2 id cgEx QsEx RsEx) inter T (fracs y) i)) ![1/4, 3/4] v = 0 :=
  (gibbs_duhem_unifac_all .modified id wfEx (by norm_num) inter T ![1/4, 3/4]
    (by intro i; fin_cases i <;> norm_num) v).2

/-- **Gibbs–Duhem for the wrappers** (`gamma_UNIFAC` repaired / `gamma_modified_UNIFAC`), over the WHOLE
chemical tuple: `z` is the composition of all `n` members (those without groups included, any values there),
the members with groups sit at the positions `index a` with positive amounts.  The wrapper's `ln γ_j(z)` are
differentiable at `z` and `Σ_j z_j d(ln γ_j)[v] = 0` for every direction `v`: members without groups contribute
`ln γ = 0`, the others see the kernels at the renormalised sub-composition. -/
theorem gibbs_duhem_wrapper (kind : Kind) {n nC nG : Nat} {index : Nat → Nat} {cg : Nat → Nat → ℝ} {Qs Rs : Nat → ℝ}
    (wf : WF nC nG cg Qs Rs) (hnC : 1 < nC) (hidx : ∀ a, a < nC → index a < n)
    (hinj : ∀ a b, a < nC → b < nC → index a = index b → a = b)
    (inter : Nat → Nat → Nat → ℝ) (T : ℝ)
    (z : Fin n → ℝ) (hz : ∀ a : Fin nC, 0 < gatherL n index hidx z a) (v : Fin n → ℝ) :
    (∀ j : Fin n, DifferentiableAt ℝ
      (fun z' => lnGammaW kind (build nC nG index cg Qs Rs) inter T n z' j) z)
    ∧ ∑ j : Fin n, z j * fderiv ℝ
        (fun z' => lnGammaW kind (build nC nG index cg Qs Rs) inter T n z' j) z v = 0 := by
  have hn : 0 < nC := by omega
  set P := gatherL n index hidx with hP
  set y := P z with hy
  let L : Fin nC → (Fin nC → ℝ) → ℝ := fun a y' =>
    Real.log (gammaSubS kind (build nC nG index cg Qs Rs) inter T (fracs y') a)
  let idx' : Fin nC → Fin n := fun a => ⟨index a, hidx a a.2⟩
  have hinj' : Function.Injective idx' := by
    intro a b h
    exact Fin.ext (hinj a b a.2 b.2 (by simpa [idx'] using congrArg Fin.val h))
  -- near z the members with groups keep positive amounts
  have hopen : IsOpen {z' : Fin n → ℝ | ∀ a : Fin nC, 0 < P z' a} := by
    have : {z' : Fin n → ℝ | ∀ a : Fin nC, 0 < P z' a} = ⋂ a, {z' | 0 < P z' a} := by ext z'; simp
    rw [this]
    exact isOpen_iInter_of_finite (fun a => isOpen_lt continuous_const ((continuous_apply a).comp P.continuous))
  have hLd : ∀ a, DifferentiableAt ℝ (L a) y :=
    fun a => differentiableAt_log_gamma (kind := kind) (index := index) (inter := inter) (T := T) wf hn y hz a
  have hgrp : ∀ a : Fin nC, HasFDerivAt
      (fun z' => lnGammaW kind (build nC nG index cg Qs Rs) inter T n z' (idx' a))
      ((fderiv ℝ (L a) y).comp P) z := by
    intro a
    have hev : (fun z' => lnGammaW kind (build nC nG index cg Qs Rs) inter T n z' (idx' a))
        =ᶠ[𝓝 z] (L a ∘ P) := by
      filter_upwards [hopen.mem_nhds (show z ∈ {z' : Fin n → ℝ | ∀ a : Fin nC, 0 < P z' a} from hz)] with z' hz'
      exact lnGammaW_group hnC hidx hinj z' hz' a
    exact ((hLd a).hasFDerivAt.comp z P.hasFDerivAt).congr_of_eventuallyEq hev
  have hnog : ∀ j : Fin n, (∀ a : Fin nC, idx' a ≠ j) →
      (fun z' => lnGammaW kind (build nC nG index cg Qs Rs) inter T n z' j) = fun _ => 0 := by
    intro j hj
    funext z'
    apply lnGammaW_nogroup
    intro a ha h
    exact hj ⟨a, ha⟩ (Fin.ext h)
  refine ⟨fun j => ?_, ?_⟩
  · by_cases hj : ∃ a : Fin nC, idx' a = j
    · obtain ⟨a, rfl⟩ := hj; exact (hgrp a).differentiableAt
    · rw [hnog j (fun a h => hj ⟨a, h⟩)]; exact differentiableAt_const _
  · have hzero : ∀ j ∈ (Finset.univ : Finset (Fin n)), j ∉ Finset.univ.image idx' →
        z j * fderiv ℝ (fun z' => lnGammaW kind (build nC nG index cg Qs Rs) inter T n z' j) z v = 0 := by
      intro j _ hj
      have : ∀ a : Fin nC, idx' a ≠ j := fun a h => hj (Finset.mem_image.mpr ⟨a, Finset.mem_univ a, h⟩)
      rw [hnog j this]; simp
    rw [← Finset.sum_subset (Finset.subset_univ (Finset.univ.image idx')) hzero,
      Finset.sum_image (fun a _ b _ h => hinj' h)]
    have hterm : ∀ a : Fin nC,
        z (idx' a) * fderiv ℝ (fun z' => lnGammaW kind (build nC nG index cg Qs Rs) inter T n z' (idx' a)) z v
          = y a * fderiv ℝ (L a) y (P v) := by
      intro a
      rw [(hgrp a).fderiv]
      have : y a = z (idx' a) := by simp [hy, hP, gatherL, idx']
      rw [this]; rfl
    rw [Finset.sum_congr rfl (fun a _ => hterm a)]
    exact (gibbs_duhem_unifac_all kind index wf hn inter T y hz (P v)).2

/-- non-vacuity: three chemicals, the middle one without groups (`index = (0, 2)`), `z = (1/4, 1/2, 1/4)`. -/
example (inter : Nat → Nat → Nat → ℝ) (T : ℝ) (v : Fin 3 → ℝ) :
    ∑ j : Fin 3, (![1/4, 1/2, 1/4] : Fin 3 → ℝ) j * fderiv ℝ
        (fun z' => lnGammaW .unifac (build 2 2 (fun a => 2 * a) cgEx QsEx RsEx) inter T 3 z' j) ![1/4, 1/2, 1/4] v = 0 :=
  (gibbs_duhem_wrapper .unifac (n := 3) (index := fun a => 2 * a) wfEx (by norm_num) (by intro a ha; omega)
    (by intro a b _ _ h; omega) inter T ![1/4, 1/2, 1/4]
    (by intro a; fin_cases a <;> simp [gatherL_apply, ext] <;> norm_num) v).2

end ThermoVerif.Props.C16
