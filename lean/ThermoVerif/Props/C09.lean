import ThermoVerif.Lemmas.SparseStore
/-
Property C09 — "Sparse flow arrays behave exactly like the dense NumPy arrays they represent".

Theorems about the model of `thermosteam/base/sparse.py` (`Model/Sparse*.lean`) against the
reference semantics of NumPy (`Model/Dense.lean`):

  * `WF` (keys distinct ∧ each key < size ∧ each stored value ≠ 0) is preserved by every kernel;
  * `dense_hom_*`: the dense image of the result is what NumPy computes on the dense images;
  * `err_iff_*`: the model rejects exactly when NumPy rejects (shape mismatch);
  * the deviations that are mirrored from the code are pinned by `*_counterexample` theorems and the
    full statements are kept as `def …_statement : Prop`.
-/
namespace ThermoVerif.Props.C09
open ThermoVerif.Sparse ThermoVerif.Dense

/-- the element function of the add/sub kernels: `x + y` or `x - y` -/
def addFn (sub : Bool) : Rat → Rat → Rat := fun x y => x + SV.sgn sub * y

theorem addFn_false : addFn false = Arith.fn .add := by
  funext x y; simp [addFn, Arith.fn, SV.sgn]

theorem addFn_true : addFn true = Arith.fn .sub := by
  funext x y; simp only [addFn, Arith.fn, SV.sgn, ↓reduceIte]; ring

theorem sgn_ne_zero (sub : Bool) : SV.sgn sub ≠ 0 := by
  cases sub <;> simp [SV.sgn]

/-! ## `_add_sparse`, `_sub_sparse`, `_iadd_sparse`, `_isub_sparse` -/

theorem addSparse_ok (sub : Bool) (a b c : SV) (ha : a.WF) (hb : b.WF)
    (h : SV.addSparse sub a b = .ok c) :
    c.WF ∧ np1 (addFn sub) a.toDense b.toDense = .ok c.toDense := by
  unfold SV.addSparse at h
  rw [SV.toDense_eq a, SV.toDense_eq b, np1_vecOf]
  split at h
  · rename_i h1
    simp only [Except.ok.injEq] at h
    subst h
    rw [if_pos h1]
    refine ⟨?_, ?_⟩
    · rw [SV.wf_def]; dsimp only
      apply Dct.wf_mergeWith _ ha
      intro p hp; rw [h1]; exact (hb.2 p hp).1
    · simp only [Except.ok.injEq]
      symm
      apply SV.toDense_of_get _ _ _ rfl
      intro i _
      rw [SV.get_def]; dsimp only
      rw [Dct.get_mergeWith _ _ _ hb.1]
      by_cases hh : b.dct.has i = true
      · simp only [hh, ↓reduceIte, addFn, SV.get_def]
      · have hz : b.dct.get i = 0 := Dct.get_eq_zero_of_not_has _ _ (by simpa using hh)
        simp only [hh, Bool.false_eq_true, ↓reduceIte, addFn, SV.get_def, hz, mul_zero, add_zero]
  · rename_i h1
    rw [if_neg h1]
    split at h
    · rename_i h2
      rw [if_pos h2.1]
      split at h
      · rename_i h0
        simp only [Except.ok.injEq] at h
        subst h
        refine ⟨Dct.wf_tabulate _ _, ?_⟩
        simp only [Except.ok.injEq]
        symm
        apply SV.toDense_of_get _ _ _ rfl
        intro i hi
        rw [SV.get_def]; dsimp only
        rw [Dct.get_tabulate]
        simp only [show i < b.size from hi, ↓reduceIte, addFn]
      · rename_i h0
        have hz : a.get 0 = 0 := Dct.get_eq_zero_of_not_has _ _ (by simpa [SV.has0_def] using h0)
        simp only [Except.ok.injEq] at h
        subst h
        refine ⟨Dct.wf_mapVals hb _ (fun x hx => mul_ne_zero (sgn_ne_zero sub) hx), ?_⟩
        simp only [Except.ok.injEq]
        symm
        apply SV.toDense_of_get _ _ _ rfl
        intro i _
        rw [SV.get_def]; dsimp only
        rw [Dct.get_mapVals _ (by simp)]
        simp [addFn, hz, SV.get_def]
    · rename_i h2
      split at h
      · rename_i h3
        have ha1 : ¬ a.size = 1 := by
          intro hc; apply h2; exact ⟨hc, by omega⟩
        rw [if_neg ha1, if_pos h3]
        split at h
        · rename_i h0
          simp only [Except.ok.injEq] at h
          subst h
          refine ⟨Dct.wf_tabulate _ _, ?_⟩
          simp only [Except.ok.injEq]
          symm
          apply SV.toDense_of_get _ _ _ rfl
          intro i hi
          rw [SV.get_def]; dsimp only
          rw [Dct.get_tabulate]
          simp only [show i < a.size from hi, ↓reduceIte, addFn]
        · rename_i h0
          have hz : b.get 0 = 0 := Dct.get_eq_zero_of_not_has _ _ (by simpa [SV.has0_def] using h0)
          simp only [Except.ok.injEq] at h
          subst h
          refine ⟨ha, ?_⟩
          simp only [Except.ok.injEq]
          symm
          apply SV.toDense_of_get _ _ _ rfl
          intro i _
          simp [addFn, hz]
      · cases h

/-- when the sparse kernels accept a pair of sizes -/
def ShapeOK (n m : Nat) : Prop := n = m ∨ (n = 1 ∧ m ≠ 0) ∨ m = 1

instance (n m : Nat) : Decidable (ShapeOK n m) := by unfold ShapeOK; infer_instance

theorem np1_error_iff (f : Rat → Rat → Rat) (a b : Vec) :
    (∃ e, np1 f a b = .error e) ↔ ¬ (a.length = b.length ∨ a.length = 1 ∨ b.length = 1) := by
  unfold np1
  by_cases h1 : a.length = b.length
  · simp [h1]
  · by_cases h2 : a.length = 1
    · rw [if_neg h1, if_pos h2]; simp [h2]
    · by_cases h3 : b.length = 1
      · rw [if_neg h1, if_neg h2, if_pos h3]; simp [h3]
      · rw [if_neg h1, if_neg h2, if_neg h3]; simp [h1, h2, h3]

/-- the kernel rejects exactly the size pairs outside `ShapeOK`, with the error `shape` -/
theorem addSparse_error_iff (sub : Bool) (a b : SV) (e : Err) :
    SV.addSparse sub a b = .error e ↔ (e = .shape ∧ ¬ ShapeOK a.size b.size) := by
  unfold SV.addSparse ShapeOK
  by_cases h1 : a.size = b.size
  · simp [h1]
  · by_cases h2 : a.size = 1 ∧ b.size ≠ 0
    · rw [if_neg h1, if_pos h2]
      split <;> simp [h2]
    · by_cases h3 : b.size = 1
      · rw [if_neg h1, if_neg h2, if_pos h3]
        split <;> simp [h3]
      · rw [if_neg h1, if_neg h2, if_neg h3]
        constructor
        · intro h; injection h with h; exact ⟨h.symm, by tauto⟩
        · rintro ⟨rfl, _⟩; rfl

/-- `err_iff` for `_add_sparse`/`_sub_sparse`: for a non-empty operand the kernel raises exactly when
NumPy cannot broadcast the two dense images -/
theorem err_iff_addSparse (sub : Bool) (a b : SV) (hb : b.size ≠ 0) :
    (∃ e, SV.addSparse sub a b = .error e) ↔ (∃ e, np1 (addFn sub) a.toDense b.toDense = .error e) := by
  rw [np1_error_iff, SV.toDense_length, SV.toDense_length]
  constructor
  · rintro ⟨e, he⟩
    have := ((addSparse_error_iff sub a b e).mp he).2
    unfold ShapeOK at this
    intro hc; apply this
    rcases hc with h | h | h
    · exact Or.inl h
    · exact Or.inr (Or.inl ⟨h, hb⟩)
    · exact Or.inr (Or.inr h)
  · intro h
    refine ⟨.shape, (addSparse_error_iff sub a b .shape).mpr ⟨rfl, ?_⟩⟩
    unfold ShapeOK
    intro hc; apply h
    rcases hc with h | h | h
    · exact Or.inl h
    · exact Or.inr (Or.inl h.1)
    · exact Or.inr (Or.inr h)

/-! ## dense-array operand: `_add_array`, `_sub_array` and in-place twins -/

theorem np1_vecOf_list (f : Rat → Rat → Rat) (n : Nat) (g : Nat → Rat) (l : Vec) :
    np1 f (vecOf n g) l =
      if n = l.length then .ok (vecOf n (fun i => f (g i) (l.getD i 0)))
      else if n = 1 then .ok (vecOf l.length (fun i => f (g 0) (l.getD i 0)))
      else if l.length = 1 then .ok (vecOf n (fun i => f (g i) (l.getD 0 0)))
      else .error .shape := by
  have := np1_vecOf f n l.length g (fun i => l.getD i 0)
  rwa [← vec_eq_vecOf] at this

theorem np1i_vecOf_list (f : Rat → Rat → Rat) (n : Nat) (g : Nat → Rat) (l : Vec) :
    np1i f (vecOf n g) l =
      if n = l.length then .ok (vecOf n (fun i => f (g i) (l.getD i 0)))
      else if l.length = 1 then .ok (vecOf n (fun i => f (g i) (l.getD 0 0)))
      else .error .shape := by
  have := np1i_vecOf f n l.length g (fun i => l.getD i 0)
  rwa [← vec_eq_vecOf] at this

theorem addArray_ok (sub : Bool) (a c : SV) (l : Vec) (ha : a.WF)
    (h : SV.addArray sub a l = .ok c) :
    c.WF ∧ np1 (addFn sub) a.toDense l = .ok c.toDense := by
  unfold SV.addArray at h
  rw [SV.toDense_eq a, np1_vecOf_list]
  split at h
  · rename_i h1
    simp only [Except.ok.injEq] at h
    subst h
    rw [if_pos h1]
    refine ⟨?_, ?_⟩
    · rw [SV.wf_def]; dsimp only
      apply Dct.wf_mergeWith _ ha
      intro p hp; rw [h1]; exact ((Dct.wf_ofList l).2 p hp).1
    · simp only [Except.ok.injEq]
      symm
      apply SV.toDense_of_get _ _ _ rfl
      intro i _
      rw [SV.get_def]; dsimp only
      rw [Dct.get_mergeWith _ _ _ (Dct.wf_ofList l).1, Dct.get_ofList]
      by_cases hh : (Dct.ofList l).has i = true
      · simp only [hh, ↓reduceIte, addFn, SV.get_def]
      · have hz : l.getD i 0 = 0 := by
          by_contra hne; exact hh ((Dct.has_ofList l i).mpr hne)
        simp only [hh, Bool.false_eq_true, ↓reduceIte, addFn, SV.get_def, hz, mul_zero, add_zero]
  · rename_i h1
    rw [if_neg h1]
    split at h
    · rename_i h2
      rw [if_pos h2.1]
      split at h
      · rename_i h0
        simp only [Except.ok.injEq] at h
        subst h
        refine ⟨Dct.wf_tabulate _ _, ?_⟩
        simp only [Except.ok.injEq]
        symm
        apply SV.toDense_of_get _ _ _ rfl
        intro i hi
        rw [SV.get_def]; dsimp only
        rw [Dct.get_tabulate]
        simp only [show i < l.length from hi, ↓reduceIte, addFn]
      · rename_i h0
        have hz : a.get 0 = 0 := Dct.get_eq_zero_of_not_has _ _ (by simpa [SV.has0_def] using h0)
        simp only [Except.ok.injEq] at h
        subst h
        refine ⟨Dct.wf_mapVals (Dct.wf_ofList l) _ (fun x hx => mul_ne_zero (sgn_ne_zero sub) hx), ?_⟩
        simp only [Except.ok.injEq]
        symm
        apply SV.toDense_of_get _ _ _ rfl
        intro i _
        rw [SV.get_def]; dsimp only
        rw [Dct.get_mapVals _ (by simp), Dct.get_ofList]
        simp [addFn, hz]
    · cases h

theorem addArray_error_iff (sub : Bool) (a : SV) (l : Vec) (e : Err) :
    SV.addArray sub a l = .error e ↔ (e = .shape ∧ ¬ (a.size = l.length ∨ (a.size = 1 ∧ l.length ≠ 0))) := by
  unfold SV.addArray
  by_cases h1 : a.size = l.length
  · simp [h1]
  · by_cases h2 : a.size = 1 ∧ l.length ≠ 0
    · rw [if_neg h1, if_pos h2]
      split <;> simp [h2]
    · rw [if_neg h1, if_neg h2]
      constructor
      · intro h; injection h with h; exact ⟨h.symm, by tauto⟩
      · rintro ⟨rfl, _⟩; rfl

/-! ## `_mul_sparse`, `_mul_array` and in-place twins -/

theorem mulSparse_ok (a b c : SV) (ha : a.WF) (hb : b.WF) (h : SV.mulSparse a b = .ok c) :
    c.WF ∧ np1 (· * ·) a.toDense b.toDense = .ok c.toDense := by
  unfold SV.mulSparse at h
  rw [SV.toDense_eq a, SV.toDense_eq b, np1_vecOf]
  split at h
  · rename_i h1
    simp only [Except.ok.injEq] at h
    subst h
    rw [if_pos h1]
    refine ⟨?_, ?_⟩
    · rw [SV.wf_def]; dsimp only
      exact Dct.wf_interWith _ _ ha (fun x y hx hy => mul_ne_zero hx hy)
    · simp only [Except.ok.injEq]
      symm
      apply SV.toDense_of_get _ _ _ rfl
      intro i _
      rw [SV.get_def]; dsimp only
      rw [Dct.get_interWith]
      by_cases hh : a.dct.has i = true ∧ b.get i ≠ 0
      · rw [if_pos hh]; rfl
      · rw [if_neg hh]
        by_cases h1 : a.dct.has i = true
        · have : b.get i = 0 := by by_contra hne; exact hh ⟨h1, hne⟩
          simp [this]
        · have : a.get i = 0 := Dct.get_eq_zero_of_not_has _ _ (by simpa using h1)
          simp [this]
  · rename_i h1
    rw [if_neg h1]
    split at h
    · rename_i h2
      rw [if_pos h2.1]
      split at h
      · rename_i h0
        have hnz : a.get 0 ≠ 0 := (SV.has0_iff ha).mp h0
        simp only [Except.ok.injEq] at h
        subst h
        refine ⟨Dct.wf_mapVals hb _ (fun x hx => mul_ne_zero hnz hx), ?_⟩
        simp only [Except.ok.injEq]
        symm
        apply SV.toDense_of_get _ _ _ rfl
        intro i _
        rw [SV.get_def]; dsimp only
        rw [Dct.get_mapVals _ (by simp)]; rfl
      · rename_i h0
        have hz : a.get 0 = 0 := Dct.get_eq_zero_of_not_has _ _ (by simpa [SV.has0_def] using h0)
        simp only [Except.ok.injEq] at h
        subst h
        refine ⟨Dct.wf_nil _, ?_⟩
        simp only [Except.ok.injEq]
        symm
        apply SV.toDense_of_get _ _ _ rfl
        intro i _
        rw [SV.get_def]; dsimp only
        simp [Dct.get_nil, hz]
    · rename_i h2
      split at h
      · rename_i h3
        have ha1 : ¬ a.size = 1 := by
          intro hc; apply h2; exact ⟨hc, by omega⟩
        rw [if_neg ha1, if_pos h3]
        split at h
        · rename_i h0
          have hnz : b.get 0 ≠ 0 := (SV.has0_iff hb).mp h0
          simp only [Except.ok.injEq] at h
          subst h
          refine ⟨Dct.wf_mapVals ha _ (fun x hx => mul_ne_zero hx hnz), ?_⟩
          simp only [Except.ok.injEq]
          symm
          apply SV.toDense_of_get _ _ _ rfl
          intro i _
          rw [SV.get_def]; dsimp only
          rw [Dct.get_mapVals _ (by simp)]; rfl
        · rename_i h0
          have hz : b.get 0 = 0 := Dct.get_eq_zero_of_not_has _ _ (by simpa [SV.has0_def] using h0)
          simp only [Except.ok.injEq] at h
          subst h
          refine ⟨Dct.wf_nil _, ?_⟩
          simp only [Except.ok.injEq]
          symm
          apply SV.toDense_of_get _ _ _ rfl
          intro i _
          rw [SV.get_def]; dsimp only
          simp [Dct.get_nil, hz]
      · cases h

theorem mulArray_ok (a c : SV) (l : Vec) (ha : a.WF) (h : SV.mulArray a l = .ok c) :
    c.WF ∧ np1 (· * ·) a.toDense l = .ok c.toDense := by
  unfold SV.mulArray at h
  rw [SV.toDense_eq a, np1_vecOf_list]
  split at h
  · rename_i h1
    simp only [Except.ok.injEq] at h
    subst h
    rw [if_pos h1]
    refine ⟨?_, ?_⟩
    · rw [SV.wf_def]; dsimp only
      exact Dct.wf_interWith _ _ ha (fun x y hx hy => mul_ne_zero hx hy)
    · simp only [Except.ok.injEq]
      symm
      apply SV.toDense_of_get _ _ _ rfl
      intro i _
      rw [SV.get_def]; dsimp only
      rw [Dct.get_interWith]
      by_cases hh : a.dct.has i = true ∧ l.getD i 0 ≠ 0
      · rw [if_pos hh]; rfl
      · rw [if_neg hh]
        by_cases h1 : a.dct.has i = true
        · have : l.getD i 0 = 0 := by by_contra hne; exact hh ⟨h1, hne⟩
          rw [this, mul_zero]
        · have : a.get i = 0 := Dct.get_eq_zero_of_not_has _ _ (by simpa using h1)
          simp [this]
  · rename_i h1
    rw [if_neg h1]
    split at h
    · rename_i h2
      rw [if_pos h2.1]
      split at h
      · rename_i h0
        have hnz : a.get 0 ≠ 0 := (SV.has0_iff ha).mp h0
        simp only [Except.ok.injEq] at h
        subst h
        refine ⟨Dct.wf_mapVals (Dct.wf_ofList l) _ (fun x hx => mul_ne_zero hnz hx), ?_⟩
        simp only [Except.ok.injEq]
        symm
        apply SV.toDense_of_get _ _ _ rfl
        intro i _
        rw [SV.get_def]; dsimp only
        rw [Dct.get_mapVals _ (by simp), Dct.get_ofList]
      · rename_i h0
        have hz : a.get 0 = 0 := Dct.get_eq_zero_of_not_has _ _ (by simpa [SV.has0_def] using h0)
        simp only [Except.ok.injEq] at h
        subst h
        refine ⟨Dct.wf_nil _, ?_⟩
        simp only [Except.ok.injEq]
        symm
        apply SV.toDense_of_get _ _ _ rfl
        intro i _
        rw [SV.get_def]; dsimp only
        simp [Dct.get_nil, hz]
    · cases h

/-! ## `_truediv_sparse`, `_itruediv_sparse`, `_truediv_array`, `_itruediv_array`

Lean's `x / 0 = 0` coincides with the code's convention for `0 / 0` (pinned by
`tests/test_sparse.py`: `sv / sv == [1, 1, 0, 1]`); a non-zero numerator over a zero divisor never
reaches these statements because the kernel raises `zeroDiv` (see `zeroDiv_iff_*`). -/

theorem get_of_isEmpty (d : Dct) (h : d.isEmpty = true) (i : Nat) : Dct.get d i = 0 := by
  cases d with
  | nil => rfl
  | cons p r => simp at h

theorem divSparse_ok (ip : Bool) (a b c : SV) (ha : a.WF) (hb : b.WF) (h : SV.divSparse ip a b = .ok c) :
    c.WF ∧ np1 (· / ·) a.toDense b.toDense = .ok c.toDense := by
  unfold SV.divSparse at h
  rw [SV.toDense_eq a, SV.toDense_eq b, np1_vecOf]
  split at h
  · rename_i h1
    split at h
    · cases h
    · simp only [Except.ok.injEq] at h
      subst h
      rw [if_pos h1]
      refine ⟨?_, ?_⟩
      · rw [SV.wf_def]; dsimp only
        exact Dct.wf_interWith _ _ ha (fun x y hx hy => div_ne_zero hx hy)
      · simp only [Except.ok.injEq]
        symm
        apply SV.toDense_of_get _ _ _ rfl
        intro i _
        rw [SV.get_def]; dsimp only
        rw [Dct.get_interWith]
        by_cases hh : a.dct.has i = true ∧ b.get i ≠ 0
        · rw [if_pos hh]; rfl
        · rw [if_neg hh]
          by_cases h1 : a.dct.has i = true
          · have : b.get i = 0 := by by_contra hne; exact hh ⟨h1, hne⟩
            rw [this, div_zero]
          · have : a.get i = 0 := Dct.get_eq_zero_of_not_has _ _ (by simpa using h1)
            rw [this, zero_div]
  · rename_i h1
    rw [if_neg h1]
    split at h
    · rename_i h2
      rw [if_pos h2.1]
      split at h
      · rename_i h0
        have hnz : a.get 0 ≠ 0 := (SV.has0_iff ha).mp h0
        split at h
        · cases h
        · simp only [Except.ok.injEq] at h
          subst h
          refine ⟨Dct.wf_mapVals hb _ (fun x hx => div_ne_zero hnz hx), ?_⟩
          simp only [Except.ok.injEq]
          symm
          apply SV.toDense_of_get _ _ _ rfl
          intro i _
          rw [SV.get_def]; dsimp only
          rw [Dct.get_mapVals _ (by simp)]; rfl
      · rename_i h0
        have hz : a.get 0 = 0 := Dct.get_eq_zero_of_not_has _ _ (by simpa [SV.has0_def] using h0)
        simp only [Except.ok.injEq] at h
        subst h
        refine ⟨Dct.wf_nil _, ?_⟩
        simp only [Except.ok.injEq]
        symm
        apply SV.toDense_of_get _ _ _ rfl
        intro i _
        rw [SV.get_def]; dsimp only
        simp [Dct.get_nil, hz]
    · rename_i h2
      split at h
      · rename_i h3
        have ha1 : ¬ a.size = 1 := by
          intro hc; apply h2; exact ⟨hc, by omega⟩
        rw [if_neg ha1, if_pos h3]
        split at h
        · rename_i h0
          have hnz : b.get 0 ≠ 0 := (SV.has0_iff hb).mp h0
          simp only [Except.ok.injEq] at h
          subst h
          refine ⟨Dct.wf_mapVals ha _ (fun x hx => div_ne_zero hx hnz), ?_⟩
          simp only [Except.ok.injEq]
          symm
          apply SV.toDense_of_get _ _ _ rfl
          intro i _
          rw [SV.get_def]; dsimp only
          rw [Dct.get_mapVals _ (by simp)]; rfl
        · rename_i h0
          split at h
          · cases h
          · rename_i he
            simp only [Except.ok.injEq] at h
            subst h
            refine ⟨ha, ?_⟩
            simp only [Except.ok.injEq]
            symm
            apply SV.toDense_of_get _ _ _ rfl
            intro i _
            have : a.get i = 0 := get_of_isEmpty _ (by simpa using he) i
            rw [this, zero_div]
      · cases h

theorem divArray_ok (a c : SV) (l : Vec) (ha : a.WF) (h : SV.divArray a l = .ok c) :
    c.WF ∧ np1 (· / ·) a.toDense l = .ok c.toDense := by
  unfold SV.divArray at h
  rw [SV.toDense_eq a, np1_vecOf_list]
  split at h
  · rename_i h1
    split at h
    · cases h
    · rename_i hany
      simp only [Except.ok.injEq] at h
      subst h
      rw [if_pos h1]
      have hnz : ∀ p ∈ a.dct, l.getD p.1 0 ≠ 0 := by
        intro p hp hz
        apply hany
        rw [List.any_eq_true]
        exact ⟨p, hp, by simpa using hz⟩
      refine ⟨?_, ?_⟩
      · rw [SV.wf_def]; dsimp only
        refine ⟨?_, ?_⟩
        · have : (a.dct.map (fun p => (p.1, p.2 / l.getD p.1 0))).map Prod.fst = a.dct.map Prod.fst := by
            simp [List.map_map, Function.comp_def]
          rw [this]; exact ha.1
        · intro q hq
          obtain ⟨p, hp, e⟩ := List.mem_map.mp hq
          subst e
          exact ⟨(ha.2 p hp).1, div_ne_zero (ha.2 p hp).2 (hnz p hp)⟩
      · simp only [Except.ok.injEq]
        symm
        apply SV.toDense_of_get _ _ _ rfl
        intro i _
        rw [SV.get_def]; dsimp only
        -- the stored entries are divided, the others stay 0 = 0 / x
        by_cases hh : a.dct.has i = true
        · have hm := Dct.mem_of_has _ _ hh
          have hm' : (i, a.dct.get i / l.getD i 0) ∈ a.dct.map (fun p => (p.1, p.2 / l.getD p.1 0)) :=
            List.mem_map.mpr ⟨_, hm, rfl⟩
          have hnd : ((a.dct.map (fun p => (p.1, p.2 / l.getD p.1 0))).map Prod.fst).Nodup := by
            have : (a.dct.map (fun p => (p.1, p.2 / l.getD p.1 0))).map Prod.fst = a.dct.map Prod.fst := by
              simp [List.map_map, Function.comp_def]
            rw [this]; exact ha.1
          exact Dct.get_mem _ hnd _ hm'
        · have hz : a.get i = 0 := Dct.get_eq_zero_of_not_has _ _ (by simpa using hh)
          rw [hz, zero_div]
          apply Dct.get_eq_zero_of_not_has
          by_contra hc
          rw [Bool.not_eq_false] at hc
          have := (Dct.has_iff_mem_keys _ i).mp hc
          have hk : (a.dct.map (fun p => (p.1, p.2 / l.getD p.1 0))).map Prod.fst = a.dct.map Prod.fst := by
            simp [List.map_map, Function.comp_def]
          rw [hk] at this
          exact hh ((Dct.has_iff_mem_keys _ i).mpr this)
  · rename_i h1
    rw [if_neg h1]
    split at h
    · rename_i h2
      rw [if_pos h2.1]
      split at h
      · rename_i h0
        split at h
        · cases h
        · simp only [Except.ok.injEq] at h
          subst h
          refine ⟨Dct.wf_tabulate _ _, ?_⟩
          simp only [Except.ok.injEq]
          symm
          apply SV.toDense_of_get _ _ _ rfl
          intro i hi
          rw [SV.get_def]; dsimp only
          rw [Dct.get_tabulate]
          simp only [show i < l.length from hi, ↓reduceIte]
      · rename_i h0
        have hz : a.get 0 = 0 := Dct.get_eq_zero_of_not_has _ _ (by simpa [SV.has0_def] using h0)
        simp only [Except.ok.injEq] at h
        subst h
        refine ⟨Dct.wf_nil _, ?_⟩
        simp only [Except.ok.injEq]
        symm
        apply SV.toDense_of_get _ _ _ rfl
        intro i _
        rw [SV.get_def]; dsimp only
        simp [Dct.get_nil, hz]
    · cases h

/-! ## scalar operand, `__neg__`, `__abs__`, `__rtruediv__` -/

theorem addScalar_ok (a : SV) (x : Rat) (ha : a.WF) :
    (a.addScalar x).WF ∧ (a.addScalar x).toDense = np1s (· + ·) a.toDense x := by
  unfold SV.addScalar
  rw [SV.toDense_eq a, np1s, map_vecOf]
  split
  · rename_i hx
    exact ⟨ha, by rw [SV.toDense_eq]; exact vecOf_congr (fun i _ => by simp [hx])⟩
  · refine ⟨Dct.wf_tabulate _ _, ?_⟩
    apply SV.toDense_of_get _ _ _ rfl
    intro i hi
    rw [SV.get_def]; dsimp only
    rw [Dct.get_tabulate]; simp only [show i < a.size from hi, ↓reduceIte]

theorem mulScalar_ok (a : SV) (x : Rat) (ha : a.WF) :
    (a.mulScalar x).WF ∧ (a.mulScalar x).toDense = np1s (· * ·) a.toDense x := by
  unfold SV.mulScalar
  rw [SV.toDense_eq a, np1s, map_vecOf]
  split
  · rename_i hx
    refine ⟨Dct.wf_nil _, ?_⟩
    apply SV.toDense_of_get _ _ _ rfl
    intro i _
    rw [SV.get_def]; dsimp only
    simp [Dct.get_nil, hx]
  · rename_i hx
    refine ⟨Dct.wf_mapVals ha _ (fun y hy => mul_ne_zero hy hx), ?_⟩
    apply SV.toDense_of_get _ _ _ rfl
    intro i _
    rw [SV.get_def]; dsimp only
    rw [Dct.get_mapVals _ (by simp)]; rfl

theorem divScalar_ok (a c : SV) (x : Rat) (ha : a.WF) (h : a.divScalar x = .ok c) :
    c.WF ∧ c.toDense = np1s (· / ·) a.toDense x := by
  unfold SV.divScalar at h
  rw [SV.toDense_eq a, np1s, map_vecOf]
  split at h
  · rename_i hx
    split at h
    · rename_i he
      simp only [Except.ok.injEq] at h
      subst h
      refine ⟨ha, ?_⟩
      rw [SV.toDense_eq]
      exact vecOf_congr (fun i _ => by rw [hx, div_zero]; exact get_of_isEmpty _ he i)
    · cases h
  · rename_i hx
    simp only [Except.ok.injEq] at h
    subst h
    refine ⟨Dct.wf_mapVals ha _ (fun y hy => div_ne_zero hy hx), ?_⟩
    apply SV.toDense_of_get _ _ _ rfl
    intro i _
    rw [SV.get_def]; dsimp only
    rw [Dct.get_mapVals _ (by simp)]; rfl

/-- `zeroDiv_iff` for the scalar kernel: ZeroDivisionError exactly when the divisor is zero and
something non-zero is stored -/
theorem zeroDiv_iff_divScalar (a : SV) (x : Rat) (ha : a.WF) :
    a.divScalar x = .error .zeroDiv ↔ (x = 0 ∧ ∃ i, i < a.size ∧ a.get i ≠ 0) := by
  unfold SV.divScalar
  constructor
  · intro h
    split at h
    · rename_i hx
      split at h
      · cases h
      · rename_i he
        refine ⟨hx, ?_⟩
        match hd : a.dct with
        | [] => simp [hd] at he
        | p :: r =>
          have hp : p ∈ a.dct := by rw [hd]; exact List.mem_cons_self
          refine ⟨p.1, (ha.2 p hp).1, ?_⟩
          rw [SV.get_def, Dct.get_mem _ ha.1 p hp]; exact (ha.2 p hp).2
    · cases h
  · rintro ⟨hx, i, _, hne⟩
    rw [if_pos hx]
    have : a.dct.isEmpty = false := by
      by_contra hc
      exact hne (get_of_isEmpty _ (by simpa using hc) i)
    rw [this]; rfl

theorem neg_ok (a : SV) (ha : a.WF) : a.neg.WF ∧ a.neg.toDense = a.toDense.map (fun x => -x) := by
  unfold SV.neg
  rw [SV.toDense_eq a, map_vecOf]
  refine ⟨Dct.wf_mapVals ha _ (fun y hy => neg_ne_zero.mpr hy), ?_⟩
  apply SV.toDense_of_get _ _ _ rfl
  intro i _
  rw [SV.get_def]; dsimp only
  rw [Dct.get_mapVals _ (by simp)]; rfl

theorem rat_abs_ne_zero (x : Rat) (h : x ≠ 0) : Rat.abs x ≠ 0 := by
  unfold Rat.abs
  split
  · exact h
  · exact neg_ne_zero.mpr h

theorem rat_abs_zero : Rat.abs 0 = 0 := by
  unfold Rat.abs; simp

theorem abs_ok (a : SV) (ha : a.WF) : a.abs.WF ∧ a.abs.toDense = a.toDense.map Rat.abs := by
  unfold SV.abs
  rw [SV.toDense_eq a, map_vecOf]
  refine ⟨Dct.wf_mapVals ha _ rat_abs_ne_zero, ?_⟩
  apply SV.toDense_of_get _ _ _ rfl
  intro i _
  rw [SV.get_def]; dsimp only
  rw [Dct.get_mapVals _ rat_abs_zero]; rfl

/-! ## comparisons: the result is a SparseLogicalVector -/

theorem ofPred_mem (n : Nat) (p : Nat → Bool) (i : Nat) :
    (SLV.ofPred n p).mem i = (decide (i < n) && p i) := by
  unfold SLV.ofPred SLV.mem
  rw [Bool.eq_iff_iff]
  simp [List.mem_filter, List.mem_range]

theorem ofPred_toDense (n : Nat) (p : Nat → Bool) : (SLV.ofPred n p).toDense = vecOf n (fun i => b2r (p i)) := by
  unfold SLV.toDense
  show vecOf n _ = _
  apply vecOf_congr
  intro i hi
  rw [ofPred_mem]; simp [hi]

theorem cmp_fn (op : Cmp) (x y : Rat) : op.toBin.fn x y = b2r (op.eval x y) := by
  cases op <;> rfl

theorem cmpScalar_ok (op : Cmp) (a : SV) (x : Rat) :
    SLVWF (a.cmpScalar op x) ∧ (a.cmpScalar op x).toDense = np1s op.toBin.fn a.toDense x := by
  unfold SV.cmpScalar
  refine ⟨ofPred_wf _ _, ?_⟩
  rw [ofPred_toDense, SV.toDense_eq, np1s, map_vecOf]
  exact vecOf_congr (fun i _ => (cmp_fn op _ _).symm)

theorem cmpSparse_ok (op : Cmp) (a b : SV) (r : SLV) (h : a.cmpSparse op b = .ok r) :
    SLVWF r ∧ np1 op.toBin.fn a.toDense b.toDense = .ok r.toDense := by
  unfold SV.cmpSparse at h
  rw [SV.toDense_eq a, SV.toDense_eq b, np1_vecOf]
  split at h
  · rename_i h1
    simp only [Except.ok.injEq] at h; subst h
    rw [if_pos h1, ofPred_toDense]
    exact ⟨ofPred_wf _ _, by simp only [Except.ok.injEq]; exact vecOf_congr (fun i _ => cmp_fn op _ _)⟩
  · rename_i h1
    rw [if_neg h1]
    split at h
    · rename_i h3
      have ha1 : ¬ a.size = 1 := by omega
      simp only [Except.ok.injEq] at h; subst h
      rw [if_neg ha1, if_pos h3, ofPred_toDense]
      exact ⟨ofPred_wf _ _, by simp only [Except.ok.injEq]; exact vecOf_congr (fun i _ => cmp_fn op _ _)⟩
    · rename_i h3
      split at h
      · rename_i h2
        simp only [Except.ok.injEq] at h; subst h
        rw [if_pos h2.1, ofPred_toDense]
        exact ⟨ofPred_wf _ _, by simp only [Except.ok.injEq]; exact vecOf_congr (fun i _ => cmp_fn op _ _)⟩
      · cases h

theorem cmpSparse_error_iff (op : Cmp) (a b : SV) (e : Err) :
    a.cmpSparse op b = .error e ↔ (e = .shape ∧ ¬ ShapeOK a.size b.size) := by
  unfold SV.cmpSparse ShapeOK
  by_cases h1 : a.size = b.size
  · simp [h1]
  · by_cases h3 : b.size = 1
    · rw [if_neg h1, if_pos h3]; simp [h3]
    · by_cases h2 : a.size = 1 ∧ b.size ≠ 0
      · rw [if_neg h1, if_neg h3, if_pos h2]; simp [h2]
      · rw [if_neg h1, if_neg h3, if_neg h2]
        constructor
        · intro h; injection h with h; exact ⟨h.symm, by tauto⟩
        · rintro ⟨rfl, _⟩; rfl

theorem cmpArray_ok (op : Cmp) (a : SV) (l : Vec) (r : SLV) (h : a.cmpArray op l = .ok r) :
    SLVWF r ∧ np1 op.toBin.fn a.toDense l = .ok r.toDense := by
  unfold SV.cmpArray at h
  rw [SV.toDense_eq a, np1_vecOf_list]
  split at h
  · rename_i h1
    simp only [Except.ok.injEq] at h; subst h
    rw [if_pos h1, ofPred_toDense]
    exact ⟨ofPred_wf _ _, by simp only [Except.ok.injEq]; exact vecOf_congr (fun i _ => cmp_fn op _ _)⟩
  · rename_i h1
    rw [if_neg h1]
    split at h
    · rename_i h2
      simp only [Except.ok.injEq] at h; subst h
      rw [if_pos h2.1, ofPred_toDense]
      exact ⟨ofPred_wf _ _, by simp only [Except.ok.injEq]; exact vecOf_congr (fun i _ => cmp_fn op _ _)⟩
    · rename_i h2
      split at h
      · rename_i h3
        have ha1 : ¬ a.size = 1 := by
          intro hc; apply h2; exact ⟨hc, by omega⟩
        simp only [Except.ok.injEq] at h; subst h
        rw [if_neg ha1, if_pos h3.1, ofPred_toDense]
        exact ⟨ofPred_wf _ _, by simp only [Except.ok.injEq]; exact vecOf_congr (fun i _ => cmp_fn op _ _)⟩
      · cases h

/-! ## error branches of the remaining arithmetic kernels -/

theorem mulSparse_error_iff (a b : SV) (e : Err) :
    SV.mulSparse a b = .error e ↔ (e = .shape ∧ ¬ ShapeOK a.size b.size) := by
  unfold SV.mulSparse ShapeOK
  by_cases h1 : a.size = b.size
  · simp [h1]
  · by_cases h2 : a.size = 1 ∧ b.size ≠ 0
    · rw [if_neg h1, if_pos h2]
      split <;> simp [h2]
    · by_cases h3 : b.size = 1
      · rw [if_neg h1, if_neg h2, if_pos h3]
        split <;> simp [h3]
      · rw [if_neg h1, if_neg h2, if_neg h3]
        constructor
        · intro h; injection h with h; exact ⟨h.symm, by tauto⟩
        · rintro ⟨rfl, _⟩; rfl

/-- the division kernel raises `shape` exactly outside `ShapeOK`; its only other error is `zeroDiv` -/
theorem divSparse_error (ip : Bool) (a b : SV) (e : Err) (h : SV.divSparse ip a b = .error e) :
    (e = .shape ∧ ¬ ShapeOK a.size b.size) ∨ (e = .zeroDiv ∧ ShapeOK a.size b.size) := by
  unfold SV.divSparse at h
  unfold ShapeOK
  split at h
  · rename_i h1
    split at h
    · injection h with h; exact Or.inr ⟨h.symm, Or.inl h1⟩
    · cases h
  · rename_i h1
    split at h
    · rename_i h2
      split at h
      · split at h
        · injection h with h; exact Or.inr ⟨h.symm, Or.inr (Or.inl h2)⟩
        · cases h
      · cases h
    · rename_i h2
      split at h
      · rename_i h3
        split at h
        · cases h
        · split at h
          · injection h with h; exact Or.inr ⟨h.symm, Or.inr (Or.inr h3)⟩
          · cases h
      · rename_i h3
        injection h with h
        exact Or.inl ⟨h.symm, by tauto⟩

/-- `zeroDiv_iff`, equal sizes: ZeroDivisionError exactly when some non-zero numerator meets a zero
divisor (this is the repaired kernel of fixes_proposed/C09-2; the shipped code tests
`len(dct) > len(other_dct)` instead and lets `[1,0,0] / [0,1,1]` through as `[0,0,0]`) -/
theorem zeroDiv_iff_divSparse_eq (ip : Bool) (a b : SV) (ha : a.WF) (hb : b.WF) (hs : a.size = b.size) :
    SV.divSparse ip a b = .error .zeroDiv ↔ ∃ i, i < a.size ∧ a.get i ≠ 0 ∧ b.get i = 0 := by
  unfold SV.divSparse
  rw [if_pos hs]
  constructor
  · intro h
    split at h
    · rename_i hany
      rw [List.any_eq_true] at hany
      obtain ⟨p, hp, hnot⟩ := hany
      refine ⟨p.1, (ha.2 p hp).1, ?_, ?_⟩
      · rw [SV.get_def, Dct.get_mem _ ha.1 p hp]; exact (ha.2 p hp).2
      · exact Dct.get_eq_zero_of_not_has _ _ (by simpa using hnot)
    · cases h
  · rintro ⟨i, _, hai, hbi⟩
    have hh : a.dct.has i = true := (SV.has_iff ha i).mpr hai
    have hm := Dct.mem_of_has _ _ hh
    have hnb : b.dct.has i = false := by
      by_contra hc
      rw [Bool.not_eq_false] at hc
      exact (SV.has_iff hb i).mp hc hbi
    have : (a.dct.any fun p => !b.dct.has p.1) = true := by
      rw [List.any_eq_true]; exact ⟨_, hm, by simp [hnb]⟩
    rw [if_pos this]

/-! ## in-place semantics: NumPy keeps the shape of the target

`np1i` is NumPy's `a op= b`.  Where NumPy accepts the operation (`b` has the size of `a` or size 1) the
in-place kernels agree with it; for a length-1 target and a longer operand the kernels *grow* the
target (`self.size = other_size`) while NumPy raises — the known finding `inplace-len1-target-grows`. -/

theorem np1i_eq_np1 (f : Rat → Rat → Rat) (a b : Vec) (h : a.length = b.length ∨ b.length = 1) :
    np1i f a b = np1 f a b := by
  unfold np1i np1
  by_cases h1 : a.length = b.length
  · simp [h1]
  · have h3 : b.length = 1 := h.resolve_left h1
    have h2 : ¬ a.length = 1 := by omega
    simp [h1, h2, h3]

/-- the guard under which NumPy accepts `a op= b` -/
def InplaceOK (n m : Nat) : Prop := n = m ∨ m = 1

/-- size of the result of the add/sub kernel: the target's, unless a length-1 target met a longer operand -/
theorem addSparse_size (sub : Bool) (a b c : SV) (h : SV.addSparse sub a b = .ok c) :
    c.size = if a.size = 1 ∧ b.size ≠ 0 ∧ a.size ≠ b.size then b.size else a.size := by
  unfold SV.addSparse at h
  split at h
  · rename_i h1
    simp only [Except.ok.injEq] at h; subst h
    have : ¬ (a.size = 1 ∧ b.size ≠ 0 ∧ a.size ≠ b.size) := by intro hc; exact hc.2.2 h1
    rw [if_neg this]
  · rename_i h1
    split at h
    · rename_i h2
      have : a.size = 1 ∧ b.size ≠ 0 ∧ a.size ≠ b.size := ⟨h2.1, h2.2, h1⟩
      rw [if_pos this]
      split at h <;> (simp only [Except.ok.injEq] at h; subst h; rfl)
    · rename_i h2
      have : ¬ (a.size = 1 ∧ b.size ≠ 0 ∧ a.size ≠ b.size) := by intro hc; exact h2 ⟨hc.1, hc.2.1⟩
      rw [if_neg this]
      split at h
      · split at h <;> (simp only [Except.ok.injEq] at h; subst h; rfl)
      · cases h

/-- `dense_hom` for `_iadd_sparse` / `_isub_sparse` under the guard that NumPy accepts the in-place
operation: same dense image as NumPy's `a op= b`, invariant kept, size kept -/
theorem dense_hom_iadd_sparse (sub : Bool) (a b c : SV) (ha : a.WF) (hb : b.WF)
    (hok : InplaceOK a.size b.size) (h : SV.addSparse sub a b = .ok c) :
    c.WF ∧ np1i (addFn sub) a.toDense b.toDense = .ok c.toDense ∧ c.size = a.size := by
  obtain ⟨h1, h2⟩ := addSparse_ok sub a b c ha hb h
  refine ⟨h1, ?_, ?_⟩
  · rw [np1i_eq_np1 _ _ _ (by simpa [SV.toDense_length, InplaceOK] using hok)]; exact h2
  · rw [addSparse_size sub a b c h]
    have : ¬ (a.size = 1 ∧ b.size ≠ 0 ∧ a.size ≠ b.size) := by
      rintro ⟨h1, _, h3⟩
      rcases hok with h | h
      · exact h3 h
      · exact h3 (by omega)
    rw [if_neg this]

/-- the full in-place statement (what NumPy does): an accepted in-place operation never changes the size -/
def inplace_keeps_size_statement : Prop :=
  ∀ (sub : Bool) (a b c : SV), a.WF → b.WF → SV.addSparse sub a b = .ok c → c.size = a.size

/-- known finding `inplace-len1-target-grows`: `[2.] += [1., 2., 3.]` is accepted and the target grows
to size 3, NumPy raises (non-broadcastable output operand) -/
theorem inplace_keeps_size_counterexample : ¬ inplace_keeps_size_statement := by
  intro h
  have := h false ⟨1, [(0, 2)], false⟩ ⟨3, [(0, 1), (1, 2), (2, 3)], false⟩
    ⟨3, Dct.tabulate 3 (fun i => Dct.get [(0, 2)] 0 + SV.sgn false * Dct.get [(0, 1), (1, 2), (2, 3)] i), false⟩
    (by decide) (by decide) (by rfl)
  simp at this

theorem inplace_len1_grows_numpy_rejects :
    np1i (addFn false) (SV.toDense ⟨1, [(0, 2)], false⟩) (SV.toDense ⟨3, [(0, 1), (1, 2), (2, 3)], false⟩)
      = .error .shape := by
  decide

end ThermoVerif.Props.C09
