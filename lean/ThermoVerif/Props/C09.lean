import ThermoVerif.Lemmas.C09KernelAux
-- Only statements of the property live in this file.  Helper lemmas and the auxiliary vocabulary they need are in
-- Lemmas/C09KernelAux.lean (same namespace); clauses without a theorem are listed at the end of Props/C09.lean.
/-
Property C09 — "Sparse flow arrays behave exactly like the dense NumPy arrays they represent".

Theorems about the model of `thermosteam/base/sparse.py` (`Model/Sparse*.lean`) against the
reference semantics of NumPy (`Model/Dense.lean`):

  * `WF` (keys distinct ∧ each key < size ∧ each stored value ≠ 0) is preserved by every kernel;
  * `dense_hom_*`: the dense image of the result is what NumPy computes on the dense images;
  * `err_iff_*`: the model rejects exactly when NumPy rejects (shape mismatch);
  * the deviations that are mirrored from the code are pinned by `*_counterexample` theorems and the
    full statements are kept as `def …_statement : Prop`.
-/
namespace ThermoVerif.Props.C09
open ThermoVerif.Sparse ThermoVerif.Dense

/-! ## `_add_sparse`, `_sub_sparse`, `_iadd_sparse`, `_isub_sparse` -/

theorem addSparse_ok (sub : Bool) (a b c : SV) (ha : a.WF) (hb : b.WF)
    (h : SV.addSparse sub a b = .ok c) :
    c.WF ∧ np1 (addFn sub) a.toDense b.toDense = .ok c.toDense := by
  unfold SV.addSparse at h
  rw [SV.toDense_eq a, SV.toDense_eq b, np1_vecOf]
  split at h
  · rename_i h1
    simp only [Except.ok.injEq] at h
    subst h
    rw [if_pos h1]
    refine ⟨?_, ?_⟩
    · rw [SV.wf_def]; dsimp only
      apply Dct.wf_mergeWith _ ha
      intro p hp; rw [h1]; exact (hb.2 p hp).1
    · simp only [Except.ok.injEq]
      symm
      apply SV.toDense_of_get _ _ _ rfl
      intro i _
      rw [SV.get_def]; dsimp only
      rw [Dct.get_mergeWith _ _ _ hb.1]
      by_cases hh : b.dct.has i = true
      · simp only [hh, ↓reduceIte, addFn, SV.get_def]
      · have hz : b.dct.get i = 0 := Dct.get_eq_zero_of_not_has _ _ (by simpa using hh)
        simp only [hh, Bool.false_eq_true, ↓reduceIte, addFn, SV.get_def, hz, mul_zero, add_zero]
  · rename_i h1
    rw [if_neg h1]
    split at h
    · rename_i h2
      rw [if_pos h2.1]
      split at h
      · rename_i h0
        simp only [Except.ok.injEq] at h
        subst h
        refine ⟨Dct.wf_tabulate _ _, ?_⟩
        simp only [Except.ok.injEq]
        symm
        apply SV.toDense_of_get _ _ _ rfl
        intro i hi
        rw [SV.get_def]; dsimp only
        rw [Dct.get_tabulate]
        simp only [show i < b.size from hi, ↓reduceIte, addFn]
      · rename_i h0
        have hz : a.get 0 = 0 := Dct.get_eq_zero_of_not_has _ _ (by simpa [SV.has0_def] using h0)
        simp only [Except.ok.injEq] at h
        subst h
        refine ⟨Dct.wf_mapVals hb _ (fun x hx => mul_ne_zero (sgn_ne_zero sub) hx), ?_⟩
        simp only [Except.ok.injEq]
        symm
        apply SV.toDense_of_get _ _ _ rfl
        intro i _
        rw [SV.get_def]; dsimp only
        rw [Dct.get_mapVals _ (by simp)]
        simp [addFn, hz, SV.get_def]
    · rename_i h2
      split at h
      · rename_i h3
        have ha1 : ¬ a.size = 1 := by
          intro hc; apply h2; exact ⟨hc, by omega⟩
        rw [if_neg ha1, if_pos h3]
        split at h
        · rename_i h0
          simp only [Except.ok.injEq] at h
          subst h
          refine ⟨Dct.wf_tabulate _ _, ?_⟩
          simp only [Except.ok.injEq]
          symm
          apply SV.toDense_of_get _ _ _ rfl
          intro i hi
          rw [SV.get_def]; dsimp only
          rw [Dct.get_tabulate]
          simp only [show i < a.size from hi, ↓reduceIte, addFn]
        · rename_i h0
          have hz : b.get 0 = 0 := Dct.get_eq_zero_of_not_has _ _ (by simpa [SV.has0_def] using h0)
          simp only [Except.ok.injEq] at h
          subst h
          refine ⟨ha, ?_⟩
          simp only [Except.ok.injEq]
          symm
          apply SV.toDense_of_get _ _ _ rfl
          intro i _
          simp [addFn, hz]
      · cases h

/-- when the sparse kernels accept a pair of sizes -/
def ShapeOK (n m : Nat) : Prop := n = m ∨ (n = 1 ∧ m ≠ 0) ∨ m = 1

instance (n m : Nat) : Decidable (ShapeOK n m) := by unfold ShapeOK; infer_instance

theorem np1_error_iff (f : Rat → Rat → Rat) (a b : Vec) :
    (∃ e, np1 f a b = .error e) ↔ ¬ (a.length = b.length ∨ a.length = 1 ∨ b.length = 1) := by
  unfold np1
  by_cases h1 : a.length = b.length
  · simp [h1]
  · by_cases h2 : a.length = 1
    · rw [if_neg h1, if_pos h2]; simp [h2]
    · by_cases h3 : b.length = 1
      · rw [if_neg h1, if_neg h2, if_pos h3]; simp [h3]
      · rw [if_neg h1, if_neg h2, if_neg h3]; simp [h1, h2, h3]

/-- the kernel rejects exactly the size pairs outside `ShapeOK`, with the error `shape` -/
theorem addSparse_error_iff (sub : Bool) (a b : SV) (e : Err) :
    SV.addSparse sub a b = .error e ↔ (e = .shape ∧ ¬ ShapeOK a.size b.size) := by
  unfold SV.addSparse ShapeOK
  by_cases h1 : a.size = b.size
  · simp [h1]
  · by_cases h2 : a.size = 1 ∧ b.size ≠ 0
    · rw [if_neg h1, if_pos h2]
      split <;> simp [h2]
    · by_cases h3 : b.size = 1
      · rw [if_neg h1, if_neg h2, if_pos h3]
        split <;> simp [h3]
      · rw [if_neg h1, if_neg h2, if_neg h3]
        constructor
        · intro h; injection h with h; exact ⟨h.symm, by tauto⟩
        · rintro ⟨rfl, _⟩; rfl

/-- `err_iff` for `_add_sparse`/`_sub_sparse`: for a non-empty operand the kernel raises exactly when
NumPy cannot broadcast the two dense images -/
theorem err_iff_addSparse (sub : Bool) (a b : SV) (hb : b.size ≠ 0) :
    (∃ e, SV.addSparse sub a b = .error e) ↔ (∃ e, np1 (addFn sub) a.toDense b.toDense = .error e) := by
  rw [np1_error_iff, SV.toDense_length, SV.toDense_length]
  constructor
  · rintro ⟨e, he⟩
    have := ((addSparse_error_iff sub a b e).mp he).2
    unfold ShapeOK at this
    intro hc; apply this
    rcases hc with h | h | h
    · exact Or.inl h
    · exact Or.inr (Or.inl ⟨h, hb⟩)
    · exact Or.inr (Or.inr h)
  · intro h
    refine ⟨.shape, (addSparse_error_iff sub a b .shape).mpr ⟨rfl, ?_⟩⟩
    unfold ShapeOK
    intro hc; apply h
    rcases hc with h | h | h
    · exact Or.inl h
    · exact Or.inr (Or.inl h.1)
    · exact Or.inr (Or.inr h)

/-! ## dense-array operand: `_add_array`, `_sub_array` and in-place twins -/

theorem addArray_ok (sub : Bool) (a c : SV) (l : Vec) (ha : a.WF)
    (h : SV.addArray sub a l = .ok c) :
    c.WF ∧ np1 (addFn sub) a.toDense l = .ok c.toDense := by
  unfold SV.addArray at h
  rw [SV.toDense_eq a, np1_vecOf_list]
  split at h
  · rename_i h1
    simp only [Except.ok.injEq] at h
    subst h
    rw [if_pos h1]
    refine ⟨?_, ?_⟩
    · rw [SV.wf_def]; dsimp only
      apply Dct.wf_mergeWith _ ha
      intro p hp; rw [h1]; exact ((Dct.wf_ofList l).2 p hp).1
    · simp only [Except.ok.injEq]
      symm
      apply SV.toDense_of_get _ _ _ rfl
      intro i _
      rw [SV.get_def]; dsimp only
      rw [Dct.get_mergeWith _ _ _ (Dct.wf_ofList l).1, Dct.get_ofList]
      by_cases hh : (Dct.ofList l).has i = true
      · simp only [hh, ↓reduceIte, addFn, SV.get_def]
      · have hz : l.getD i 0 = 0 := by
          by_contra hne; exact hh ((Dct.has_ofList l i).mpr hne)
        simp only [hh, Bool.false_eq_true, ↓reduceIte, addFn, SV.get_def, hz, mul_zero, add_zero]
  · rename_i h1
    rw [if_neg h1]
    split at h
    · rename_i h2
      rw [if_pos h2.1]
      split at h
      · rename_i h0
        simp only [Except.ok.injEq] at h
        subst h
        refine ⟨Dct.wf_tabulate _ _, ?_⟩
        simp only [Except.ok.injEq]
        symm
        apply SV.toDense_of_get _ _ _ rfl
        intro i hi
        rw [SV.get_def]; dsimp only
        rw [Dct.get_tabulate]
        simp only [show i < l.length from hi, ↓reduceIte, addFn]
      · rename_i h0
        have hz : a.get 0 = 0 := Dct.get_eq_zero_of_not_has _ _ (by simpa [SV.has0_def] using h0)
        simp only [Except.ok.injEq] at h
        subst h
        refine ⟨Dct.wf_mapVals (Dct.wf_ofList l) _ (fun x hx => mul_ne_zero (sgn_ne_zero sub) hx), ?_⟩
        simp only [Except.ok.injEq]
        symm
        apply SV.toDense_of_get _ _ _ rfl
        intro i _
        rw [SV.get_def]; dsimp only
        rw [Dct.get_mapVals _ (by simp), Dct.get_ofList]
        simp [addFn, hz]
    · cases h

theorem addArray_error_iff (sub : Bool) (a : SV) (l : Vec) (e : Err) :
    SV.addArray sub a l = .error e ↔ (e = .shape ∧ ¬ (a.size = l.length ∨ (a.size = 1 ∧ l.length ≠ 0))) := by
  unfold SV.addArray
  by_cases h1 : a.size = l.length
  · simp [h1]
  · by_cases h2 : a.size = 1 ∧ l.length ≠ 0
    · rw [if_neg h1, if_pos h2]
      split <;> simp [h2]
    · rw [if_neg h1, if_neg h2]
      constructor
      · intro h; injection h with h; exact ⟨h.symm, by tauto⟩
      · rintro ⟨rfl, _⟩; rfl

/-! ## `_mul_sparse`, `_mul_array` and in-place twins -/

theorem mulSparse_ok (a b c : SV) (ha : a.WF) (hb : b.WF) (h : SV.mulSparse a b = .ok c) :
    c.WF ∧ np1 (· * ·) a.toDense b.toDense = .ok c.toDense := by
  unfold SV.mulSparse at h
  rw [SV.toDense_eq a, SV.toDense_eq b, np1_vecOf]
  split at h
  · rename_i h1
    simp only [Except.ok.injEq] at h
    subst h
    rw [if_pos h1]
    refine ⟨?_, ?_⟩
    · rw [SV.wf_def]; dsimp only
      exact Dct.wf_interWith _ _ ha (fun x y hx hy => mul_ne_zero hx hy)
    · simp only [Except.ok.injEq]
      symm
      apply SV.toDense_of_get _ _ _ rfl
      intro i _
      rw [SV.get_def]; dsimp only
      rw [Dct.get_interWith]
      by_cases hh : a.dct.has i = true ∧ b.get i ≠ 0
      · rw [if_pos hh]; rfl
      · rw [if_neg hh]
        by_cases h1 : a.dct.has i = true
        · have : b.get i = 0 := by by_contra hne; exact hh ⟨h1, hne⟩
          simp [this]
        · have : a.get i = 0 := Dct.get_eq_zero_of_not_has _ _ (by simpa using h1)
          simp [this]
  · rename_i h1
    rw [if_neg h1]
    split at h
    · rename_i h2
      rw [if_pos h2.1]
      split at h
      · rename_i h0
        have hnz : a.get 0 ≠ 0 := (SV.has0_iff ha).mp h0
        simp only [Except.ok.injEq] at h
        subst h
        refine ⟨Dct.wf_mapVals hb _ (fun x hx => mul_ne_zero hnz hx), ?_⟩
        simp only [Except.ok.injEq]
        symm
        apply SV.toDense_of_get _ _ _ rfl
        intro i _
        rw [SV.get_def]; dsimp only
        rw [Dct.get_mapVals _ (by simp)]; rfl
      · rename_i h0
        have hz : a.get 0 = 0 := Dct.get_eq_zero_of_not_has _ _ (by simpa [SV.has0_def] using h0)
        simp only [Except.ok.injEq] at h
        subst h
        refine ⟨Dct.wf_nil _, ?_⟩
        simp only [Except.ok.injEq]
        symm
        apply SV.toDense_of_get _ _ _ rfl
        intro i _
        rw [SV.get_def]; dsimp only
        simp [Dct.get_nil, hz]
    · rename_i h2
      split at h
      · rename_i h3
        have ha1 : ¬ a.size = 1 := by
          intro hc; apply h2; exact ⟨hc, by omega⟩
        rw [if_neg ha1, if_pos h3]
        split at h
        · rename_i h0
          have hnz : b.get 0 ≠ 0 := (SV.has0_iff hb).mp h0
          simp only [Except.ok.injEq] at h
          subst h
          refine ⟨Dct.wf_mapVals ha _ (fun x hx => mul_ne_zero hx hnz), ?_⟩
          simp only [Except.ok.injEq]
          symm
          apply SV.toDense_of_get _ _ _ rfl
          intro i _
          rw [SV.get_def]; dsimp only
          rw [Dct.get_mapVals _ (by simp)]; rfl
        · rename_i h0
          have hz : b.get 0 = 0 := Dct.get_eq_zero_of_not_has _ _ (by simpa [SV.has0_def] using h0)
          simp only [Except.ok.injEq] at h
          subst h
          refine ⟨Dct.wf_nil _, ?_⟩
          simp only [Except.ok.injEq]
          symm
          apply SV.toDense_of_get _ _ _ rfl
          intro i _
          rw [SV.get_def]; dsimp only
          simp [Dct.get_nil, hz]
      · cases h

theorem mulArray_ok (a c : SV) (l : Vec) (ha : a.WF) (h : SV.mulArray a l = .ok c) :
    c.WF ∧ np1 (· * ·) a.toDense l = .ok c.toDense := by
  unfold SV.mulArray at h
  rw [SV.toDense_eq a, np1_vecOf_list]
  split at h
  · rename_i h1
    simp only [Except.ok.injEq] at h
    subst h
    rw [if_pos h1]
    refine ⟨?_, ?_⟩
    · rw [SV.wf_def]; dsimp only
      exact Dct.wf_interWith _ _ ha (fun x y hx hy => mul_ne_zero hx hy)
    · simp only [Except.ok.injEq]
      symm
      apply SV.toDense_of_get _ _ _ rfl
      intro i _
      rw [SV.get_def]; dsimp only
      rw [Dct.get_interWith]
      by_cases hh : a.dct.has i = true ∧ l.getD i 0 ≠ 0
      · rw [if_pos hh]; rfl
      · rw [if_neg hh]
        by_cases h1 : a.dct.has i = true
        · have : l.getD i 0 = 0 := by by_contra hne; exact hh ⟨h1, hne⟩
          rw [this, mul_zero]
        · have : a.get i = 0 := Dct.get_eq_zero_of_not_has _ _ (by simpa using h1)
          simp [this]
  · rename_i h1
    rw [if_neg h1]
    split at h
    · rename_i h2
      rw [if_pos h2.1]
      split at h
      · rename_i h0
        have hnz : a.get 0 ≠ 0 := (SV.has0_iff ha).mp h0
        simp only [Except.ok.injEq] at h
        subst h
        refine ⟨Dct.wf_mapVals (Dct.wf_ofList l) _ (fun x hx => mul_ne_zero hnz hx), ?_⟩
        simp only [Except.ok.injEq]
        symm
        apply SV.toDense_of_get _ _ _ rfl
        intro i _
        rw [SV.get_def]; dsimp only
        rw [Dct.get_mapVals _ (by simp), Dct.get_ofList]
      · rename_i h0
        have hz : a.get 0 = 0 := Dct.get_eq_zero_of_not_has _ _ (by simpa [SV.has0_def] using h0)
        simp only [Except.ok.injEq] at h
        subst h
        refine ⟨Dct.wf_nil _, ?_⟩
        simp only [Except.ok.injEq]
        symm
        apply SV.toDense_of_get _ _ _ rfl
        intro i _
        rw [SV.get_def]; dsimp only
        simp [Dct.get_nil, hz]
    · cases h

/-! ## `_truediv_sparse`, `_itruediv_sparse`, `_truediv_array`, `_itruediv_array`

Lean's `x / 0 = 0` coincides with the code's convention for `0 / 0` (pinned by
`tests/test_sparse.py`: `sv / sv == [1, 1, 0, 1]`); a non-zero numerator over a zero divisor never
reaches these statements because the kernel raises `zeroDiv` (see `zeroDiv_iff_*`). -/

theorem divSparse_ok (ip : Bool) (a b c : SV) (ha : a.WF) (hb : b.WF) (h : SV.divSparse ip a b = .ok c) :
    c.WF ∧ np1 (· / ·) a.toDense b.toDense = .ok c.toDense := by
  unfold SV.divSparse at h
  rw [SV.toDense_eq a, SV.toDense_eq b, np1_vecOf]
  split at h
  · rename_i h1
    split at h
    · cases h
    · simp only [Except.ok.injEq] at h
      subst h
      rw [if_pos h1]
      refine ⟨?_, ?_⟩
      · rw [SV.wf_def]; dsimp only
        exact Dct.wf_interWith _ _ ha (fun x y hx hy => div_ne_zero hx hy)
      · simp only [Except.ok.injEq]
        symm
        apply SV.toDense_of_get _ _ _ rfl
        intro i _
        rw [SV.get_def]; dsimp only
        rw [Dct.get_interWith]
        by_cases hh : a.dct.has i = true ∧ b.get i ≠ 0
        · rw [if_pos hh]; rfl
        · rw [if_neg hh]
          by_cases h1 : a.dct.has i = true
          · have : b.get i = 0 := by by_contra hne; exact hh ⟨h1, hne⟩
            rw [this, div_zero]
          · have : a.get i = 0 := Dct.get_eq_zero_of_not_has _ _ (by simpa using h1)
            rw [this, zero_div]
  · rename_i h1
    rw [if_neg h1]
    split at h
    · rename_i h2
      rw [if_pos h2.1]
      split at h
      · rename_i h0
        have hnz : a.get 0 ≠ 0 := (SV.has0_iff ha).mp h0
        split at h
        · cases h
        · simp only [Except.ok.injEq] at h
          subst h
          refine ⟨Dct.wf_mapVals hb _ (fun x hx => div_ne_zero hnz hx), ?_⟩
          simp only [Except.ok.injEq]
          symm
          apply SV.toDense_of_get _ _ _ rfl
          intro i _
          rw [SV.get_def]; dsimp only
          rw [Dct.get_mapVals _ (by simp)]; rfl
      · rename_i h0
        have hz : a.get 0 = 0 := Dct.get_eq_zero_of_not_has _ _ (by simpa [SV.has0_def] using h0)
        simp only [Except.ok.injEq] at h
        subst h
        refine ⟨Dct.wf_nil _, ?_⟩
        simp only [Except.ok.injEq]
        symm
        apply SV.toDense_of_get _ _ _ rfl
        intro i _
        rw [SV.get_def]; dsimp only
        simp [Dct.get_nil, hz]
    · rename_i h2
      split at h
      · rename_i h3
        have ha1 : ¬ a.size = 1 := by
          intro hc; apply h2; exact ⟨hc, by omega⟩
        rw [if_neg ha1, if_pos h3]
        split at h
        · rename_i h0
          have hnz : b.get 0 ≠ 0 := (SV.has0_iff hb).mp h0
          simp only [Except.ok.injEq] at h
          subst h
          refine ⟨Dct.wf_mapVals ha _ (fun x hx => div_ne_zero hx hnz), ?_⟩
          simp only [Except.ok.injEq]
          symm
          apply SV.toDense_of_get _ _ _ rfl
          intro i _
          rw [SV.get_def]; dsimp only
          rw [Dct.get_mapVals _ (by simp)]; rfl
        · rename_i h0
          split at h
          · cases h
          · rename_i he
            simp only [Except.ok.injEq] at h
            subst h
            refine ⟨ha, ?_⟩
            simp only [Except.ok.injEq]
            symm
            apply SV.toDense_of_get _ _ _ rfl
            intro i _
            have : a.get i = 0 := get_of_isEmpty _ (by simpa using he) i
            rw [this, zero_div]
      · cases h

theorem divArray_ok (a c : SV) (l : Vec) (ha : a.WF) (h : SV.divArray a l = .ok c) :
    c.WF ∧ np1 (· / ·) a.toDense l = .ok c.toDense := by
  unfold SV.divArray at h
  rw [SV.toDense_eq a, np1_vecOf_list]
  split at h
  · rename_i h1
    split at h
    · cases h
    · rename_i hany
      simp only [Except.ok.injEq] at h
      subst h
      rw [if_pos h1]
      have hnz : ∀ p ∈ a.dct, l.getD p.1 0 ≠ 0 := by
        intro p hp hz
        apply hany
        rw [List.any_eq_true]
        exact ⟨p, hp, by simpa using hz⟩
      refine ⟨?_, ?_⟩
      · rw [SV.wf_def]; dsimp only
        refine ⟨?_, ?_⟩
        · have : (a.dct.map (fun p => (p.1, p.2 / l.getD p.1 0))).map Prod.fst = a.dct.map Prod.fst := by
            simp [List.map_map, Function.comp_def]
          rw [this]; exact ha.1
        · intro q hq
          obtain ⟨p, hp, e⟩ := List.mem_map.mp hq
          subst e
          exact ⟨(ha.2 p hp).1, div_ne_zero (ha.2 p hp).2 (hnz p hp)⟩
      · simp only [Except.ok.injEq]
        symm
        apply SV.toDense_of_get _ _ _ rfl
        intro i _
        rw [SV.get_def]; dsimp only
        -- the stored entries are divided, the others stay 0 = 0 / x
        by_cases hh : a.dct.has i = true
        · have hm := Dct.mem_of_has _ _ hh
          have hm' : (i, a.dct.get i / l.getD i 0) ∈ a.dct.map (fun p => (p.1, p.2 / l.getD p.1 0)) :=
            List.mem_map.mpr ⟨_, hm, rfl⟩
          have hnd : ((a.dct.map (fun p => (p.1, p.2 / l.getD p.1 0))).map Prod.fst).Nodup := by
            have : (a.dct.map (fun p => (p.1, p.2 / l.getD p.1 0))).map Prod.fst = a.dct.map Prod.fst := by
              simp [List.map_map, Function.comp_def]
            rw [this]; exact ha.1
          exact Dct.get_mem _ hnd _ hm'
        · have hz : a.get i = 0 := Dct.get_eq_zero_of_not_has _ _ (by simpa using hh)
          rw [hz, zero_div]
          apply Dct.get_eq_zero_of_not_has
          by_contra hc
          rw [Bool.not_eq_false] at hc
          have := (Dct.has_iff_mem_keys _ i).mp hc
          have hk : (a.dct.map (fun p => (p.1, p.2 / l.getD p.1 0))).map Prod.fst = a.dct.map Prod.fst := by
            simp [List.map_map, Function.comp_def]
          rw [hk] at this
          exact hh ((Dct.has_iff_mem_keys _ i).mpr this)
  · rename_i h1
    rw [if_neg h1]
    split at h
    · rename_i h2
      rw [if_pos h2.1]
      split at h
      · rename_i h0
        split at h
        · cases h
        · simp only [Except.ok.injEq] at h
          subst h
          refine ⟨Dct.wf_tabulate _ _, ?_⟩
          simp only [Except.ok.injEq]
          symm
          apply SV.toDense_of_get _ _ _ rfl
          intro i hi
          rw [SV.get_def]; dsimp only
          rw [Dct.get_tabulate]
          simp only [show i < l.length from hi, ↓reduceIte]
      · rename_i h0
        have hz : a.get 0 = 0 := Dct.get_eq_zero_of_not_has _ _ (by simpa [SV.has0_def] using h0)
        simp only [Except.ok.injEq] at h
        subst h
        refine ⟨Dct.wf_nil _, ?_⟩
        simp only [Except.ok.injEq]
        symm
        apply SV.toDense_of_get _ _ _ rfl
        intro i _
        rw [SV.get_def]; dsimp only
        simp [Dct.get_nil, hz]
    · cases h

/-! ## scalar operand, `__neg__`, `__abs__`, `__rtruediv__` -/

theorem addScalar_ok (a : SV) (x : Rat) (ha : a.WF) :
    (a.addScalar x).WF ∧ (a.addScalar x).toDense = np1s (· + ·) a.toDense x := by
  unfold SV.addScalar
  rw [SV.toDense_eq a, np1s, map_vecOf]
  split
  · rename_i hx
    exact ⟨ha, by rw [SV.toDense_eq]; exact vecOf_congr (fun i _ => by simp [hx])⟩
  · refine ⟨Dct.wf_tabulate _ _, ?_⟩
    apply SV.toDense_of_get _ _ _ rfl
    intro i hi
    rw [SV.get_def]; dsimp only
    rw [Dct.get_tabulate]; simp only [show i < a.size from hi, ↓reduceIte]

theorem mulScalar_ok (a : SV) (x : Rat) (ha : a.WF) :
    (a.mulScalar x).WF ∧ (a.mulScalar x).toDense = np1s (· * ·) a.toDense x := by
  unfold SV.mulScalar
  rw [SV.toDense_eq a, np1s, map_vecOf]
  split
  · rename_i hx
    refine ⟨Dct.wf_nil _, ?_⟩
    apply SV.toDense_of_get _ _ _ rfl
    intro i _
    rw [SV.get_def]; dsimp only
    simp [Dct.get_nil, hx]
  · rename_i hx
    refine ⟨Dct.wf_mapVals ha _ (fun y hy => mul_ne_zero hy hx), ?_⟩
    apply SV.toDense_of_get _ _ _ rfl
    intro i _
    rw [SV.get_def]; dsimp only
    rw [Dct.get_mapVals _ (by simp)]; rfl

theorem divScalar_ok (a c : SV) (x : Rat) (ha : a.WF) (h : a.divScalar x = .ok c) :
    c.WF ∧ c.toDense = np1s (· / ·) a.toDense x := by
  unfold SV.divScalar at h
  rw [SV.toDense_eq a, np1s, map_vecOf]
  split at h
  · rename_i hx
    split at h
    · rename_i he
      simp only [Except.ok.injEq] at h
      subst h
      refine ⟨ha, ?_⟩
      rw [SV.toDense_eq]
      exact vecOf_congr (fun i _ => by rw [hx, div_zero]; exact get_of_isEmpty _ he i)
    · cases h
  · rename_i hx
    simp only [Except.ok.injEq] at h
    subst h
    refine ⟨Dct.wf_mapVals ha _ (fun y hy => div_ne_zero hy hx), ?_⟩
    apply SV.toDense_of_get _ _ _ rfl
    intro i _
    rw [SV.get_def]; dsimp only
    rw [Dct.get_mapVals _ (by simp)]; rfl

/-- `zeroDiv_iff` for the scalar kernel: ZeroDivisionError exactly when the divisor is zero and
something non-zero is stored -/
theorem zeroDiv_iff_divScalar (a : SV) (x : Rat) (ha : a.WF) :
    a.divScalar x = .error .zeroDiv ↔ (x = 0 ∧ ∃ i, i < a.size ∧ a.get i ≠ 0) := by
  unfold SV.divScalar
  constructor
  · intro h
    split at h
    · rename_i hx
      split at h
      · cases h
      · rename_i he
        refine ⟨hx, ?_⟩
        match hd : a.dct with
        | [] => simp [hd] at he
        | p :: r =>
          have hp : p ∈ a.dct := by rw [hd]; exact List.mem_cons_self
          refine ⟨p.1, (ha.2 p hp).1, ?_⟩
          rw [SV.get_def, Dct.get_mem _ ha.1 p hp]; exact (ha.2 p hp).2
    · cases h
  · rintro ⟨hx, i, _, hne⟩
    rw [if_pos hx]
    have : a.dct.isEmpty = false := by
      by_contra hc
      exact hne (get_of_isEmpty _ (by simpa using hc) i)
    rw [this]; rfl

theorem neg_ok (a : SV) (ha : a.WF) : a.neg.WF ∧ a.neg.toDense = a.toDense.map (fun x => -x) := by
  unfold SV.neg
  rw [SV.toDense_eq a, map_vecOf]
  refine ⟨Dct.wf_mapVals ha _ (fun y hy => neg_ne_zero.mpr hy), ?_⟩
  apply SV.toDense_of_get _ _ _ rfl
  intro i _
  rw [SV.get_def]; dsimp only
  rw [Dct.get_mapVals _ (by simp)]; rfl

theorem abs_ok (a : SV) (ha : a.WF) : a.abs.WF ∧ a.abs.toDense = a.toDense.map Rat.abs := by
  unfold SV.abs
  rw [SV.toDense_eq a, map_vecOf]
  refine ⟨Dct.wf_mapVals ha _ rat_abs_ne_zero, ?_⟩
  apply SV.toDense_of_get _ _ _ rfl
  intro i _
  rw [SV.get_def]; dsimp only
  rw [Dct.get_mapVals _ rat_abs_zero]; rfl

/-! ## comparisons: the result is a SparseLogicalVector -/

theorem cmpScalar_ok (op : Cmp) (a : SV) (x : Rat) :
    SLVWF (a.cmpScalar op x) ∧ (a.cmpScalar op x).toDense = np1s op.toBin.fn a.toDense x := by
  unfold SV.cmpScalar
  refine ⟨ofPred_wf _ _, ?_⟩
  rw [ofPred_toDense, SV.toDense_eq, np1s, map_vecOf]
  exact vecOf_congr (fun i _ => (cmp_fn op _ _).symm)

theorem cmpSparse_ok (op : Cmp) (a b : SV) (r : SLV) (h : a.cmpSparse op b = .ok r) :
    SLVWF r ∧ np1 op.toBin.fn a.toDense b.toDense = .ok r.toDense := by
  unfold SV.cmpSparse at h
  rw [SV.toDense_eq a, SV.toDense_eq b, np1_vecOf]
  split at h
  · rename_i h1
    simp only [Except.ok.injEq] at h; subst h
    rw [if_pos h1, ofPred_toDense]
    exact ⟨ofPred_wf _ _, by simp only [Except.ok.injEq]; exact vecOf_congr (fun i _ => cmp_fn op _ _)⟩
  · rename_i h1
    rw [if_neg h1]
    split at h
    · rename_i h3
      have ha1 : ¬ a.size = 1 := by omega
      simp only [Except.ok.injEq] at h; subst h
      rw [if_neg ha1, if_pos h3, ofPred_toDense]
      exact ⟨ofPred_wf _ _, by simp only [Except.ok.injEq]; exact vecOf_congr (fun i _ => cmp_fn op _ _)⟩
    · rename_i h3
      split at h
      · rename_i h2
        simp only [Except.ok.injEq] at h; subst h
        rw [if_pos h2.1, ofPred_toDense]
        exact ⟨ofPred_wf _ _, by simp only [Except.ok.injEq]; exact vecOf_congr (fun i _ => cmp_fn op _ _)⟩
      · cases h

theorem cmpSparse_error_iff (op : Cmp) (a b : SV) (e : Err) :
    a.cmpSparse op b = .error e ↔ (e = .shape ∧ ¬ ShapeOK a.size b.size) := by
  unfold SV.cmpSparse ShapeOK
  by_cases h1 : a.size = b.size
  · simp [h1]
  · by_cases h3 : b.size = 1
    · rw [if_neg h1, if_pos h3]; simp [h3]
    · by_cases h2 : a.size = 1 ∧ b.size ≠ 0
      · rw [if_neg h1, if_neg h3, if_pos h2]; simp [h2]
      · rw [if_neg h1, if_neg h3, if_neg h2]
        constructor
        · intro h; injection h with h; exact ⟨h.symm, by tauto⟩
        · rintro ⟨rfl, _⟩; rfl

theorem cmpArray_ok (op : Cmp) (a : SV) (l : Vec) (r : SLV) (h : a.cmpArray op l = .ok r) :
    SLVWF r ∧ np1 op.toBin.fn a.toDense l = .ok r.toDense := by
  unfold SV.cmpArray at h
  rw [SV.toDense_eq a, np1_vecOf_list]
  split at h
  · rename_i h1
    simp only [Except.ok.injEq] at h; subst h
    rw [if_pos h1, ofPred_toDense]
    exact ⟨ofPred_wf _ _, by simp only [Except.ok.injEq]; exact vecOf_congr (fun i _ => cmp_fn op _ _)⟩
  · rename_i h1
    rw [if_neg h1]
    split at h
    · rename_i h2
      simp only [Except.ok.injEq] at h; subst h
      rw [if_pos h2.1, ofPred_toDense]
      exact ⟨ofPred_wf _ _, by simp only [Except.ok.injEq]; exact vecOf_congr (fun i _ => cmp_fn op _ _)⟩
    · rename_i h2
      split at h
      · rename_i h3
        have ha1 : ¬ a.size = 1 := by
          intro hc; apply h2; exact ⟨hc, by omega⟩
        simp only [Except.ok.injEq] at h; subst h
        rw [if_neg ha1, if_pos h3.1, ofPred_toDense]
        exact ⟨ofPred_wf _ _, by simp only [Except.ok.injEq]; exact vecOf_congr (fun i _ => cmp_fn op _ _)⟩
      · cases h

/-! ## error branches of the remaining arithmetic kernels -/

theorem mulSparse_error_iff (a b : SV) (e : Err) :
    SV.mulSparse a b = .error e ↔ (e = .shape ∧ ¬ ShapeOK a.size b.size) := by
  unfold SV.mulSparse ShapeOK
  by_cases h1 : a.size = b.size
  · simp [h1]
  · by_cases h2 : a.size = 1 ∧ b.size ≠ 0
    · rw [if_neg h1, if_pos h2]
      split <;> simp [h2]
    · by_cases h3 : b.size = 1
      · rw [if_neg h1, if_neg h2, if_pos h3]
        split <;> simp [h3]
      · rw [if_neg h1, if_neg h2, if_neg h3]
        constructor
        · intro h; injection h with h; exact ⟨h.symm, by tauto⟩
        · rintro ⟨rfl, _⟩; rfl

/-- the division kernel raises `shape` exactly outside `ShapeOK`; its only other error is `zeroDiv` -/
theorem divSparse_error (ip : Bool) (a b : SV) (e : Err) (h : SV.divSparse ip a b = .error e) :
    (e = .shape ∧ ¬ ShapeOK a.size b.size) ∨ (e = .zeroDiv ∧ ShapeOK a.size b.size) := by
  unfold SV.divSparse at h
  unfold ShapeOK
  split at h
  · rename_i h1
    split at h
    · injection h with h; exact Or.inr ⟨h.symm, Or.inl h1⟩
    · cases h
  · rename_i h1
    split at h
    · rename_i h2
      split at h
      · split at h
        · injection h with h; exact Or.inr ⟨h.symm, Or.inr (Or.inl h2)⟩
        · cases h
      · cases h
    · rename_i h2
      split at h
      · rename_i h3
        split at h
        · cases h
        · split at h
          · injection h with h; exact Or.inr ⟨h.symm, Or.inr (Or.inr h3)⟩
          · cases h
      · rename_i h3
        injection h with h
        exact Or.inl ⟨h.symm, by tauto⟩

/-- `zeroDiv_iff`, equal sizes: ZeroDivisionError exactly when some non-zero numerator meets a zero
divisor (this is the repaired kernel of fixes_proposed/C09-2; the shipped code tests
`len(dct) > len(other_dct)` instead and lets `[1,0,0] / [0,1,1]` through as `[0,0,0]`) -/
theorem zeroDiv_iff_divSparse_eq (ip : Bool) (a b : SV) (ha : a.WF) (hb : b.WF) (hs : a.size = b.size) :
    SV.divSparse ip a b = .error .zeroDiv ↔ ∃ i, i < a.size ∧ a.get i ≠ 0 ∧ b.get i = 0 := by
  unfold SV.divSparse
  rw [if_pos hs]
  constructor
  · intro h
    split at h
    · rename_i hany
      rw [List.any_eq_true] at hany
      obtain ⟨p, hp, hnot⟩ := hany
      refine ⟨p.1, (ha.2 p hp).1, ?_, ?_⟩
      · rw [SV.get_def, Dct.get_mem _ ha.1 p hp]; exact (ha.2 p hp).2
      · exact Dct.get_eq_zero_of_not_has _ _ (by simpa using hnot)
    · cases h
  · rintro ⟨i, _, hai, hbi⟩
    have hh : a.dct.has i = true := (SV.has_iff ha i).mpr hai
    have hm := Dct.mem_of_has _ _ hh
    have hnb : b.dct.has i = false := by
      by_contra hc
      rw [Bool.not_eq_false] at hc
      exact (SV.has_iff hb i).mp hc hbi
    have : (a.dct.any fun p => !b.dct.has p.1) = true := by
      rw [List.any_eq_true]; exact ⟨_, hm, by simp [hnb]⟩
    rw [if_pos this]

/-! ## in-place semantics: NumPy keeps the shape of the target

`np1i` is NumPy's `a op= b`.  Where NumPy accepts the operation (`b` has the size of `a` or size 1) the
in-place kernels agree with it; for a length-1 target and a longer operand the kernels *grow* the
target (`self.size = other_size`) while NumPy raises — the known finding `inplace-len1-target-grows`. -/

/-- the guard under which NumPy accepts `a op= b` -/
def InplaceOK (n m : Nat) : Prop := n = m ∨ m = 1

/-- `dense_hom` for `_iadd_sparse` / `_isub_sparse` under the guard that NumPy accepts the in-place
operation: same dense image as NumPy's `a op= b`, invariant kept, size kept -/
theorem dense_hom_iadd_sparse (sub : Bool) (a b c : SV) (ha : a.WF) (hb : b.WF)
    (hok : InplaceOK a.size b.size) (h : SV.addSparse sub a b = .ok c) :
    c.WF ∧ np1i (addFn sub) a.toDense b.toDense = .ok c.toDense ∧ c.size = a.size := by
  obtain ⟨h1, h2⟩ := addSparse_ok sub a b c ha hb h
  refine ⟨h1, ?_, ?_⟩
  · rw [np1i_eq_np1 _ _ _ (by simpa [SV.toDense_length, InplaceOK] using hok)]; exact h2
  · rw [addSparse_size sub a b c h]
    have : ¬ (a.size = 1 ∧ b.size ≠ 0 ∧ a.size ≠ b.size) := by
      rintro ⟨h1, _, h3⟩
      rcases hok with h | h
      · exact h3 h
      · exact h3 (by omega)
    rw [if_neg this]

/-- the full in-place statement (what NumPy does): an accepted in-place operation never changes the size -/
def inplace_keeps_size_statement : Prop :=
  ∀ (sub : Bool) (a b c : SV), a.WF → b.WF → SV.addSparse sub a b = .ok c → c.size = a.size

/-- known finding `inplace-len1-target-grows`: `[2.] += [1., 2., 3.]` is accepted and the target grows
to size 3, NumPy raises (non-broadcastable output operand) -/
theorem inplace_keeps_size_counterexample : ¬ inplace_keeps_size_statement := by
  intro h
  have := h false ⟨1, [(0, 2)], false⟩ ⟨3, [(0, 1), (1, 2), (2, 3)], false⟩
    ⟨3, Dct.tabulate 3 (fun i => Dct.get [(0, 2)] 0 + SV.sgn false * Dct.get [(0, 1), (1, 2), (2, 3)] i), false⟩
    (by decide) (by decide) (by rfl)
  simp at this

theorem inplace_len1_grows_numpy_rejects :
    np1i (addFn false) (SV.toDense ⟨1, [(0, 2)], false⟩) (SV.toDense ⟨3, [(0, 1), (1, 2), (2, 3)], false⟩)
      = .error .shape := by
  decide

/-! ## the operators as a family: `dense_hom_<operand kind>` and `err_iff`

`Arith.fn op` is the element function of `+ − × ÷`.  For `÷` NumPy's result is finite exactly when no
divisor is zero (`np1div`); there the kernels agree with it, otherwise they raise `zeroDiv` or store
`0` for `0/0` (the documented deviation required by `tests/test_sparse.py`). -/

/-- **dense_hom, sparse operand** (`a op b`, `a op= b` where NumPy accepts it): the dense image of the
result is NumPy's result on the dense images, and the result is well formed -/
theorem dense_hom_arith_sparse (op : Arith) (ip : Bool) (a b c : SV) (ha : a.WF) (hb : b.WF)
    (h : SV.arithSparse op ip a b = .ok c) :
    c.WF ∧ np1 op.fn a.toDense b.toDense = .ok c.toDense := by
  cases op <;> simp only [SV.arithSparse] at h
  · rw [← addFn_false]; exact addSparse_ok false a b c ha hb h
  · rw [← addFn_true]; exact addSparse_ok true a b c ha hb h
  · exact mulSparse_ok a b c ha hb h
  · exact divSparse_ok ip a b c ha hb h

/-- **dense_hom, dense 1-d operand** (list or ndarray) -/
theorem dense_hom_arith_array (op : Arith) (a c : SV) (l : Vec) (ha : a.WF)
    (h : SV.arithArray op a l = .ok c) :
    c.WF ∧ np1 op.fn a.toDense l = .ok c.toDense := by
  cases op <;> simp only [SV.arithArray] at h
  · rw [← addFn_false]; exact addArray_ok false a c l ha h
  · rw [← addFn_true]; exact addArray_ok true a c l ha h
  · exact mulArray_ok a c l ha h
  · exact divArray_ok a c l ha h

/-- **dense_hom, scalar operand** -/
theorem dense_hom_arith_scalar (op : Arith) (a c : SV) (x : Rat) (ha : a.WF)
    (h : SV.arithScalar op a x = .ok c) :
    c.WF ∧ c.toDense = np1s op.fn a.toDense x := by
  cases op <;> simp only [SV.arithScalar, Except.ok.injEq] at h
  · subst h; exact addScalar_ok a x ha
  · subst h
    refine ⟨(addScalar_ok a (-x) ha).1, ?_⟩
    rw [(addScalar_ok a (-x) ha).2]
    unfold np1s
    apply List.map_congr_left
    intro y _
    simp only [Arith.fn]; ring
  · subst h; exact mulScalar_ok a x ha
  · exact divScalar_ok a c x ha h

/-- **dense_hom for true division under the guard that NumPy's result is finite** -/
theorem dense_hom_truediv_sparse (ip : Bool) (a b c : SV) (ha : a.WF) (hb : b.WF)
    (hfin : b.toDense.any (· == 0) = false) (h : SV.divSparse ip a b = .ok c) :
    c.WF ∧ np1div a.toDense b.toDense = .ok c.toDense := by
  rw [np1div_eq_np1 _ _ hfin]
  exact divSparse_ok ip a b c ha hb h

theorem dense_hom_truediv_array (a c : SV) (l : Vec) (ha : a.WF)
    (hfin : l.any (· == 0) = false) (h : SV.divArray a l = .ok c) :
    c.WF ∧ np1div a.toDense l = .ok c.toDense := by
  rw [np1div_eq_np1 _ _ hfin]
  exact divArray_ok a c l ha h

/-- **err_iff, sparse operand**: shape errors are raised exactly outside `ShapeOK`; the only other
error of the family is `zeroDiv`, raised by `÷` alone -/
theorem err_iff_arith_sparse (op : Arith) (ip : Bool) (a b : SV) :
    SV.arithSparse op ip a b = .error .shape ↔ ¬ ShapeOK a.size b.size := by
  cases op <;> simp only [SV.arithSparse]
  · rw [addSparse_error_iff]; simp
  · rw [addSparse_error_iff]; simp
  · rw [mulSparse_error_iff]; simp
  · constructor
    · intro h
      rcases divSparse_error ip a b .shape h with h' | h'
      · exact h'.2
      · exact absurd h'.1 (by decide)
    · intro hn
      unfold SV.divSparse ShapeOK at *
      have h1 : ¬ a.size = b.size := fun e => hn (Or.inl e)
      have h2 : ¬ (a.size = 1 ∧ b.size ≠ 0) := fun e => hn (Or.inr (Or.inl e))
      have h3 : ¬ b.size = 1 := fun e => hn (Or.inr (Or.inr e))
      rw [if_neg h1, if_neg h2, if_neg h3]

/-- for a non-empty operand `ShapeOK` is NumPy's broadcasting rule for two 1-d arrays -/
theorem shapeOK_iff_numpy (f : Rat → Rat → Rat) (a b : Vec) (hb : b.length ≠ 0) :
    ShapeOK a.length b.length ↔ ∃ r, np1 f a b = .ok r := by
  unfold ShapeOK np1
  by_cases h1 : a.length = b.length
  · simp [h1]
  · by_cases h2 : a.length = 1
    · rw [if_neg h1, if_pos h2]
      exact ⟨fun _ => ⟨_, rfl⟩, fun _ => Or.inr (Or.inl ⟨h2, hb⟩)⟩
    · by_cases h3 : b.length = 1
      · rw [if_neg h1, if_neg h2, if_pos h3]
        exact ⟨fun _ => ⟨_, rfl⟩, fun _ => Or.inr (Or.inr h3)⟩
      · rw [if_neg h1, if_neg h2, if_neg h3]
        constructor
        · rintro (h | h | h)
          · exact absurd h h1
          · exact absurd h.1 h2
          · exact absurd h h3
        · rintro ⟨r, hr⟩; cases hr

/-- **err_iff** in NumPy's terms: for a non-empty operand the kernel raises a shape error exactly when
NumPy cannot broadcast the dense images -/
theorem err_iff_arith_sparse_numpy (op : Arith) (ip : Bool) (a b : SV) (hb : b.size ≠ 0) :
    SV.arithSparse op ip a b = .error .shape ↔ ¬ ∃ r, np1 op.fn a.toDense b.toDense = .ok r := by
  rw [err_iff_arith_sparse, ← shapeOK_iff_numpy op.fn a.toDense b.toDense (by simpa [SV.toDense_length] using hb)]
  simp [SV.toDense_length]

/-- the deviation at the empty operand, mirrored from `size == 1 and other_size`: NumPy broadcasts a
length-1 array against an empty one (result empty), the kernels raise -/
theorem len1_vs_empty_counterexample :
    SV.arithSparse .add false ⟨1, [(0, 2)], false⟩ ⟨0, [], false⟩ = .error .shape ∧
    np1 (Arith.fn .add) (SV.toDense ⟨1, [(0, 2)], false⟩) (SV.toDense ⟨0, [], false⟩) = .ok [] := by
  constructor <;> decide

/-- **in-place, sparse operand**: under the guard that NumPy accepts `a op= b` the in-place kernel
computes NumPy's result and keeps the size of the target -/
theorem dense_hom_inplace_sparse (op : Arith) (a b c : SV) (ha : a.WF) (hb : b.WF)
    (hok : InplaceOK a.size b.size) (h : SV.arithSparse op true a b = .ok c) :
    c.WF ∧ np1i op.fn a.toDense b.toDense = .ok c.toDense := by
  obtain ⟨h1, h2⟩ := dense_hom_arith_sparse op true a b c ha hb h
  refine ⟨h1, ?_⟩
  rw [np1i_eq_np1 _ _ _ (by simpa [SV.toDense_length, InplaceOK] using hok)]; exact h2

theorem dense_hom_inplace_array (op : Arith) (a c : SV) (l : Vec) (ha : a.WF)
    (hok : InplaceOK a.size l.length) (h : SV.arithArray op a l = .ok c) :
    c.WF ∧ np1i op.fn a.toDense l = .ok c.toDense := by
  obtain ⟨h1, h2⟩ := dense_hom_arith_array op a c l ha h
  refine ⟨h1, ?_⟩
  rw [np1i_eq_np1 _ _ _ (by simpa [SV.toDense_length, InplaceOK] using hok)]; exact h2

/-- **comparisons, all operand kinds**: the logical vector returned has NumPy's dense image -/
theorem dense_hom_cmp_sparse (op : Cmp) (a b : SV) (r : SLV) (h : a.cmpSparse op b = .ok r) :
    SLVWF r ∧ np1 op.toBin.fn a.toDense b.toDense = .ok r.toDense := cmpSparse_ok op a b r h

theorem dense_hom_cmp_array (op : Cmp) (a : SV) (l : Vec) (r : SLV) (h : a.cmpArray op l = .ok r) :
    SLVWF r ∧ np1 op.toBin.fn a.toDense l = .ok r.toDense := cmpArray_ok op a l r h

theorem dense_hom_cmp_scalar (op : Cmp) (a : SV) (x : Rat) :
    SLVWF (a.cmpScalar op x) ∧ (a.cmpScalar op x).toDense = np1s op.toBin.fn a.toDense x := cmpScalar_ok op a x

/-! ## SparseLogicalVector: `&`, `|`, `^`, `+` (or), `*` (and), `~` against NumPy on boolean arrays -/

/-- **dense_hom for the logical kernels with a sparse operand** (`a & b`, `a | b`, `a ^ b`, `a + b`,
`a * b` and their in-place forms where NumPy accepts them): NumPy's boolean operator on the dense
images -/
theorem dense_hom_logical_sparse (op : LOp) (hop : op ≠ .truediv) (a b c : SLV) (ha : SLVWF a) (hb : SLVWF b)
    (h : SLV.iopSparse op a b = .ok c) :
    SLVWF c ∧ np1 (lopBin op).fnBool a.toDense b.toDense = .ok c.toDense := by
  refine ⟨slv_iopSparse_wf op ha h, ?_⟩
  rw [slv_toDense_eq a, slv_toDense_eq b, np1_vecOf]
  have hf : ∀ x y, (lopBin op).fnBool (b2r x) (b2r y) = b2r (lfn op x y) := lfn_b2r op hop
  unfold SLV.iopSparse at h
  split at h
  · rename_i h1
    rw [if_pos h1]
    cases op <;> simp only [Except.ok.injEq] at h <;> first | exact absurd rfl hop | skip
    all_goals
      subst h
      simp only [Except.ok.injEq]
      symm
      rw [ofPred_toDense]
      exact vecOf_congr (fun i _ => (hf _ _).symm)
  · rename_i h1
    rw [if_neg h1]
    split at h
    · rename_i h2
      rw [if_pos h2.1]
      cases op <;> simp only [Except.ok.injEq] at h <;> first | exact absurd rfl hop | skip
      all_goals
        subst h
        simp only [Except.ok.injEq]
        symm
        by_cases h0 : a.has0 = true
        · have hm0 : a.mem 0 = true := h0
          simp only [h0, ↓reduceIte]
          rw [ofPred_toDense]
          exact vecOf_congr (fun i _ => by rw [hf, hm0]; simp [lfn])
        · have hm0 : a.mem 0 = false := by simpa [SLV.has0] using h0
          simp only [h0, Bool.false_eq_true, ↓reduceIte]
          first
            | (rw [ofPred_toDense]; exact vecOf_congr (fun i _ => by rw [hf, hm0]; simp [lfn]))
            | (rw [slv_nil_toDense]; exact vecOf_congr (fun i _ => by rw [hf, hm0]; simp [lfn, b2r]))
    · rename_i h2
      split at h
      · rename_i h3
        have ha1 : ¬ a.size = 1 := by
          intro hc; apply h2; exact ⟨hc, by omega⟩
        rw [if_neg ha1, if_pos h3]
        cases op <;> simp only [Except.ok.injEq] at h <;> first | exact absurd rfl hop | skip
        all_goals
          subst h
          simp only [Except.ok.injEq]
          symm
          by_cases h0 : b.has0 = true
          · have hm0 : b.mem 0 = true := h0
            simp only [h0, ↓reduceIte]
            first
              | (rw [ofPred_toDense]; exact vecOf_congr (fun i _ => by rw [hf, hm0]; simp [lfn]))
              | (rw [slv_toDense_eq]; exact vecOf_congr (fun i _ => by rw [hf, hm0]; simp [lfn]))
          · have hm0 : b.mem 0 = false := by simpa [SLV.has0] using h0
            simp only [h0, Bool.false_eq_true, ↓reduceIte]
            first
              | (rw [slv_nil_toDense]; exact vecOf_congr (fun i _ => by rw [hf, hm0]; simp [lfn, b2r]))
              | (rw [slv_toDense_eq]; exact vecOf_congr (fun i _ => by rw [hf, hm0]; simp [lfn]))
      · cases h

/-- `~a` is NumPy's `~` on the boolean image -/
theorem dense_hom_invert (a : SLV) : SLVWF a.invert ∧ a.invert.toDense = a.toDense.map (fun x => b2r (x == 0)) := by
  refine ⟨slv_invert_wf a, ?_⟩
  unfold SLV.invert
  rw [ofPred_toDense, slv_toDense_eq, map_vecOf]
  apply vecOf_congr
  intro i _
  cases a.mem i <;> decide

/-! ## reductions of a SparseVector: `sum`, `any`, `all`, `mean` against NumPy -/

/-- **dense_hom for `sum`** -/
theorem dense_hom_sum (a : SV) (ha : a.WF) : redVec .sum a.toDense = .ok a.sum := by
  simp only [redVec, SV.sum]
  rw [vsum_eq_sum, foldl_add_eq, zero_add, SV.toDense_eq]
  exact congrArg Except.ok (dct_sum_eq a.size a.dct ha).symm

/-- **dense_hom for `any`**: some entry is stored iff some element of the dense image is non-zero -/
theorem dense_hom_any (a : SV) (ha : a.WF) : redVec .any a.toDense = .ok (b2r a.any) := by
  simp only [redVec, SV.any]
  congr 2
  rw [SV.toDense_eq]
  unfold vecOf
  rw [Bool.eq_iff_iff]
  simp only [List.any_map, List.any_eq_true, List.mem_range, Function.comp, bne_iff_ne, Bool.not_eq_true',
    List.isEmpty_eq_false_iff]
  constructor
  · rintro ⟨i, _, hne⟩
    intro he
    rw [SV.get_def, he] at hne
    exact hne (Dct.get_nil i)
  · intro hne
    match hd : a.dct with
    | [] => exact absurd hd hne
    | p :: r =>
      have hp : p ∈ a.dct := by rw [hd]; exact List.mem_cons_self
      refine ⟨p.1, (ha.2 p hp).1, ?_⟩
      rw [SV.get_def, Dct.get_mem _ ha.1 p hp]; exact (ha.2 p hp).2

/-- **dense_hom for `all`** (`len(dct) == size`, which is right because of the invariant) -/
theorem dense_hom_all (a : SV) (ha : a.WF) : redVec .all a.toDense = .ok (b2r a.all) := by
  simp only [redVec, SV.all]
  congr 2
  rw [SV.toDense_eq]
  unfold vecOf
  rw [Bool.eq_iff_iff]
  simp only [List.all_map, List.all_eq_true, List.mem_range, Function.comp, bne_iff_ne, beq_iff_eq]
  rw [length_eq_size_iff a ha]

/-- **dense_hom for `mean`** (non-empty vector) -/
theorem dense_hom_mean (a : SV) (ha : a.WF) (hn : a.size ≠ 0) : redVec .mean a.toDense = .ok a.mean := by
  have hs := dense_hom_sum a ha
  simp only [redVec, Except.ok.injEq] at hs
  simp only [redVec, SV.toDense_length, hn, ↓reduceIte, Except.ok.injEq]
  unfold SV.mean
  rw [hs]
  split
  · rename_i he
    have : a.sum = 0 := by
      unfold SV.sum
      have : a.dct = [] := by simpa using he
      rw [this]; rfl
    rw [this, zero_div]
  · rfl

/-! ## element / fancy / boolean get and set against NumPy indexing -/

/-- `a[i]` for an index inside the size -/
theorem dense_hom_getitem_int (a : SV) (i : Nat) (hi : i < a.size) :
    npGet1 a.toDense i = .ok (a.get i) ∧ a.getItem (.int i) = .scalar (a.get i) := by
  refine ⟨?_, rfl⟩
  unfold npGet1
  rw [SV.toDense_length, if_pos hi, toDense_getD a i hi]

/-- `a[[i, j, …]]` for indices inside the size (boolean masks are turned into index lists first) -/
theorem dense_hom_getitem_fancy (a : SV) (l : List Nat) (hl : ∀ i ∈ l, i < a.size) :
    npFancy1 a.toDense l = .ok (l.map a.get) ∧ a.getItem (.fancy l) = .dense (l.map a.get) := by
  refine ⟨?_, rfl⟩
  unfold npFancy1
  induction l with
  | nil => rfl
  | cons i l ih =>
    rw [List.mapM_cons, (dense_hom_getitem_int a i (hl i List.mem_cons_self)).1,
      ih (fun j hj => hl j (List.mem_cons_of_mem _ hj))]
    rfl

/-- **dense_hom for `a[i] = x`** (index inside the size, target writable) -/
theorem dense_hom_setitem_int (a c : SV) (i : Nat) (x : Rat) (ha : a.WF) (hi : i < a.size)
    (h : a.setItem (.int i) (.scalar x) = .ok c) :
    c.WF ∧ c.toDense = setAt a.toDense i x ∧ a.readOnly = false := by
  unfold SV.setItem at h
  split at h
  · cases h
  · rename_i hro
    simp only [Except.ok.injEq] at h
    subst h
    exact ⟨Dct.wf_setNZ ha _ _ hi, toDense_setNZ a i x, by simpa using hro⟩

/-- **dense_hom for `a[[i, j, …]] = [x, y, …]`** (equal lengths, indices inside the size): NumPy's
element-wise assignment, in order -/
theorem dense_hom_setitem_fancy (a c : SV) (idx : List Nat) (vals : Vec) (ha : a.WF)
    (hidx : ∀ i ∈ idx, i < a.size) (hlen : vals.length = idx.length)
    (h : a.setItem (.fancy idx) (.seq vals) = .ok c) :
    c.WF ∧ npSetMany a.toDense idx vals false = .ok c.toDense := by
  refine ⟨sv_setItem_wf ha (.fancy idx) (.seq vals) false hidx (by intro h; cases h) (by intro b hb; cases hb) h, ?_⟩
  unfold SV.setItem at h
  split at h
  · cases h
  · simp only [SV.setMany, SV.Val.dense, Except.map, Except.ok.injEq] at h
    subst h
    unfold npSetMany
    have hno : (idx.any fun i => decide (a.toDense.length ≤ i)) = false := by
      rw [List.any_eq_false]
      intro i hi
      have := hidx i hi
      simp [SV.toDense_length]; omega
    simp only [hno, Bool.false_eq_true, ↓reduceIte, hlen, Except.ok.injEq]
    exact (toDense_foldl_setNZ a (List.zip idx vals)).symm

/-- **dense_hom for `a[[i, j, …]] = x`** (one value for all selected positions) -/
theorem dense_hom_setitem_fancy_scalar (a c : SV) (idx : List Nat) (x : Rat) (ha : a.WF)
    (hidx : ∀ i ∈ idx, i < a.size) (h : a.setItem (.fancy idx) (.scalar x) = .ok c) :
    c.WF ∧ npSetMany a.toDense idx [x] true = .ok c.toDense := by
  refine ⟨sv_setItem_wf ha (.fancy idx) (.scalar x) false hidx (by intro h; cases h) (by intro b hb; cases hb) h, ?_⟩
  unfold SV.setItem at h
  split at h
  · cases h
  · simp only [SV.setMany, Except.map, Except.ok.injEq] at h
    subst h
    unfold npSetMany
    have hno : (idx.any fun i => decide (a.toDense.length ≤ i)) = false := by
      rw [List.any_eq_false]
      intro i hi
      have := hidx i hi
      simp [SV.toDense_length]; omega
    simp only [hno, Bool.false_eq_true, ↓reduceIte, Except.ok.injEq, List.getD_cons_zero]
    have := toDense_foldl_setNZ a (idx.map (fun i => (i, x)))
    rw [List.foldl_map, List.foldl_map] at this
    exact this.symm

/-- **read-only `err_iff` for `__setitem__`**: the assignment is refused with `readOnly` exactly when
the flag is set (whatever the index and the value) -/
theorem err_iff_setitem_readonly (a : SV) (idx : Idx) (v : SV.Val) (same : Bool) :
    a.setItem idx v same = .error .readOnly ↔ a.readOnly = true := by
  constructor
  · intro h
    by_contra hn
    unfold SV.setItem at h
    rw [if_neg hn] at h
    split at h
    · split at h <;> cases h
    · cases hm : SV.setMany a.dct _ v <;> rw [hm] at h <;> first | (cases h; done) | skip
      rename_i e
      unfold SV.setMany at hm
      split at hm <;> cases hm
      cases h
    · cases hm : SV.setMany a.dct _ v <;> rw [hm] at h <;> first | (cases h; done) | skip
      rename_i e
      unfold SV.setMany at hm
      split at hm <;> cases hm
      cases h
    · split at h
      · split at h
        · cases h
        · split at h <;> cases h
      · cases hm : SV.setMany a.dct _ v <;> rw [hm] at h <;> first | (cases h; done) | skip
        rename_i e
        unfold SV.setMany at hm
        split at hm <;> cases hm
        cases h
  · intro h
    unfold SV.setItem
    rw [if_pos h]

/-! ## `max` / `min`: the extremum of the stored values, corrected by the implicit zeros -/

/-- **dense_hom for `max`** (non-empty vector): `max(dct.values())`, replaced by 0 when it is negative
and some position is not stored, is the maximum of the dense image -/
theorem dense_hom_max (a : SV) (ha : a.WF) (hn : a.size ≠ 0) : ∃ m, a.max = .ok m ∧ redVec .max a.toDense = .ok m := by
  simp only [redVec, SV.max]
  -- a zero is present in the dense image iff not every position is stored
  have hzero : a.dct.length < a.size ↔ ∃ i, i < a.size ∧ a.get i = 0 := by
    have hle : a.dct.length ≤ a.size := by
      have := nodup_subset_length_le (a.dct.map Prod.fst) (List.range a.size) ha.1 (by
        intro x hx
        obtain ⟨p, hp, e⟩ := List.mem_map.mp hx
        subst e; exact List.mem_range.mpr (ha.2 p hp).1)
      simpa using this
    constructor
    · intro hlt
      by_contra hc
      have : a.dct.length = a.size := (length_eq_size_iff a ha).mpr (fun i hi hz => hc ⟨i, hi, hz⟩)
      omega
    · rintro ⟨i, hi, hz⟩
      have hne : a.dct.length ≠ a.size := fun e => (length_eq_size_iff a ha).mp e i hi hz
      omega
  cases hv : vmax a.dct.vals with
  | none =>
    -- nothing stored: the dense image is all zeros
    have hnil : a.dct.vals = [] := (vmax_none_iff _).mp hv
    have hall : ∀ i, i < a.size → a.get i = 0 := by
      intro i _
      by_contra hne
      have : a.get i ∈ a.dct.vals := (mem_vals_iff a ha _).mpr ⟨i, by assumption, rfl, hne⟩
      rw [hnil] at this; cases this
    refine ⟨0, by simp [hn], ?_⟩
    have : vmax a.toDense = some 0 := by
      apply vmax_eq_of
      · exact (mem_toDense_iff a 0).mpr ⟨0, by omega, hall 0 (by omega)⟩
      · intro x hx
        obtain ⟨i, hi, e⟩ := (mem_toDense_iff a x).mp hx
        rw [← e, hall i hi]
    rw [this]
  | some m =>
    obtain ⟨hm1, hm2⟩ := vmax_some _ m hv
    obtain ⟨i0, hi0, hgi0, hmne⟩ := (mem_vals_iff a ha m).mp hm1
    by_cases hc : m < 0 ∧ a.dct.length < a.size
    · -- all stored values are negative and a zero is present
      refine ⟨0, by simp [hc], ?_⟩
      obtain ⟨j, hj, hzj⟩ := hzero.mp hc.2
      have : vmax a.toDense = some 0 := by
        apply vmax_eq_of
        · exact (mem_toDense_iff a 0).mpr ⟨j, hj, hzj⟩
        · intro x hx
          obtain ⟨i, hi, e⟩ := (mem_toDense_iff a x).mp hx
          by_cases hxz : x = 0
          · rw [hxz]
          · exact le_of_lt (lt_of_le_of_lt (hm2 x ((mem_vals_iff a ha x).mpr ⟨i, hi, e, hxz⟩)) hc.1)
      rw [this]
    · refine ⟨m, by simp [hc], ?_⟩
      have : vmax a.toDense = some m := by
        apply vmax_eq_of
        · exact (mem_toDense_iff a m).mpr ⟨i0, hi0, hgi0⟩
        · intro x hx
          obtain ⟨i, hi, e⟩ := (mem_toDense_iff a x).mp hx
          by_cases hxz : x = 0
          · -- a zero is present: then `m ≥ 0` by the guard
            rw [hxz]
            have hlt : a.dct.length < a.size := hzero.mpr ⟨i, hi, by rw [e, hxz]⟩
            by_contra hneg
            exact hc ⟨not_le.mp hneg, hlt⟩
          · exact hm2 x ((mem_vals_iff a ha x).mpr ⟨i, hi, e, hxz⟩)
      rw [this]

/-- **dense_hom for `min`** (non-empty vector): `min(dct.values())`, replaced by 0 when it is positive
and some position is not stored, is the minimum of the dense image -/
theorem dense_hom_min (a : SV) (ha : a.WF) (hn : a.size ≠ 0) : ∃ m, a.min = .ok m ∧ redVec .min a.toDense = .ok m := by
  simp only [redVec, SV.min]
  -- a zero is present in the dense image iff not every position is stored
  have hzero : a.dct.length < a.size ↔ ∃ i, i < a.size ∧ a.get i = 0 := by
    have hle : a.dct.length ≤ a.size := by
      have := nodup_subset_length_le (a.dct.map Prod.fst) (List.range a.size) ha.1 (by
        intro x hx
        obtain ⟨p, hp, e⟩ := List.mem_map.mp hx
        subst e; exact List.mem_range.mpr (ha.2 p hp).1)
      simpa using this
    constructor
    · intro hlt
      by_contra hc
      have : a.dct.length = a.size := (length_eq_size_iff a ha).mpr (fun i hi hz => hc ⟨i, hi, hz⟩)
      omega
    · rintro ⟨i, hi, hz⟩
      have hne : a.dct.length ≠ a.size := fun e => (length_eq_size_iff a ha).mp e i hi hz
      omega
  cases hv : vmin a.dct.vals with
  | none =>
    -- nothing stored: the dense image is all zeros
    have hnil : a.dct.vals = [] := (vmin_none_iff _).mp hv
    have hall : ∀ i, i < a.size → a.get i = 0 := by
      intro i _
      by_contra hne
      have : a.get i ∈ a.dct.vals := (mem_vals_iff a ha _).mpr ⟨i, by assumption, rfl, hne⟩
      rw [hnil] at this; cases this
    refine ⟨0, by simp [hn], ?_⟩
    have : vmin a.toDense = some 0 := by
      apply vmin_eq_of
      · exact (mem_toDense_iff a 0).mpr ⟨0, by omega, hall 0 (by omega)⟩
      · intro x hx
        obtain ⟨i, hi, e⟩ := (mem_toDense_iff a x).mp hx
        rw [← e, hall i hi]
    rw [this]
  | some m =>
    obtain ⟨hm1, hm2⟩ := vmin_some _ m hv
    obtain ⟨i0, hi0, hgi0, hmne⟩ := (mem_vals_iff a ha m).mp hm1
    by_cases hc : m > 0 ∧ a.dct.length < a.size
    · -- all stored values are positive and a zero is present
      refine ⟨0, by simp [hc], ?_⟩
      obtain ⟨j, hj, hzj⟩ := hzero.mp hc.2
      have : vmin a.toDense = some 0 := by
        apply vmin_eq_of
        · exact (mem_toDense_iff a 0).mpr ⟨j, hj, hzj⟩
        · intro x hx
          obtain ⟨i, hi, e⟩ := (mem_toDense_iff a x).mp hx
          by_cases hxz : x = 0
          · rw [hxz]
          · exact le_of_lt (lt_of_lt_of_le hc.1 (hm2 x ((mem_vals_iff a ha x).mpr ⟨i, hi, e, hxz⟩)))
      rw [this]
    · refine ⟨m, by simp [hc], ?_⟩
      have : vmin a.toDense = some m := by
        apply vmin_eq_of
        · exact (mem_toDense_iff a m).mpr ⟨i0, hi0, hgi0⟩
        · intro x hx
          obtain ⟨i, hi, e⟩ := (mem_toDense_iff a x).mp hx
          by_cases hxz : x = 0
          · -- a zero is present: then `m ≥ 0` by the guard
            rw [hxz]
            have hlt : a.dct.length < a.size := hzero.mpr ⟨i, hi, by rw [e, hxz]⟩
            by_contra hneg
            exact hc ⟨not_le.mp hneg, hlt⟩
          · exact hm2 x ((mem_vals_iff a ha x).mpr ⟨i, hi, e, hxz⟩)
      rw [this]

/-! ## `mix_from`: the receiver becomes the element-wise sum of the inlets -/

/-- **dense_hom for `mix_from`** (point-wise): every element of the receiver is the sum of the
corresponding elements of the inlets; an inlet that *is* the receiver counts with its old value
(`rep` = how often the receiver occurs among the inlets) -/
theorem dense_hom_mixfrom (a : SV) (others : List SV) (rep : Nat) (ho : ∀ o ∈ others, o.WF) (i : Nat) :
    (a.mixFrom others rep).get i = (rep : Rat) * a.get i + (others.map (fun o => o.get i)).sum := by
  unfold SV.mixFrom
  rw [SV.get_def]; dsimp only
  have hstart : Dct.get (if rep = 0 then [] else a.dct.mapVals (· * (rep : Rat))) i = (rep : Rat) * a.get i := by
    split
    · rename_i hr; simp [hr, Dct.get_nil]
    · rw [Dct.get_mapVals _ (by simp), SV.get_def]; ring
  generalize (if rep = 0 then ([] : Dct) else a.dct.mapVals (· * (rep : Rat))) = start at hstart
  rw [← hstart]
  clear hstart
  induction others generalizing start with
  | nil => simp
  | cons o rest ih =>
    simp only [List.foldl_cons, List.map_cons, List.sum_cons]
    rw [ih (fun o' ho' => ho o' (List.mem_cons_of_mem _ ho')), get_mergeWith_add _ _ (ho o List.mem_cons_self).1, SV.get_def]
    ring

/-! ## Non-vacuity: concrete, non-trivial instances that meet every hypothesis of the theorems above -/

namespace Ex
def a : SV := ⟨3, [(0, 2), (2, 5)], false⟩
def b : SV := ⟨3, [(0, -2), (1, 7)], false⟩
def d : SV := ⟨3, [(0, 2), (1, 4), (2, 1 / 2)], false⟩
def short : SV := ⟨2, [(0, 1)], false⟩
end Ex

/-- `a + b` with an exact cancellation at position 0: `dense_hom_arith_sparse` applies and gives NumPy's `[0, 7, 5]` -/
example : (⟨3, [(1, 7), (2, 5)], false⟩ : SV).WF ∧
    np1 (Arith.fn .add) Ex.a.toDense Ex.b.toDense = .ok (⟨3, [(1, 7), (2, 5)], false⟩ : SV).toDense :=
  dense_hom_arith_sparse .add false Ex.a Ex.b _ (by decide +kernel) (by decide +kernel) (by decide +kernel)

/-- `a * b`: only the common key survives -/
example : (⟨3, [(0, -4)], false⟩ : SV).WF ∧
    np1 (Arith.fn .mul) Ex.a.toDense Ex.b.toDense = .ok (⟨3, [(0, -4)], false⟩ : SV).toDense :=
  dense_hom_arith_sparse .mul false Ex.a Ex.b _ (by decide +kernel) (by decide +kernel) (by decide +kernel)

/-- `a / d` with a divisor without zeros -/
example : (⟨3, [(0, 1), (2, 10)], false⟩ : SV).WF ∧
    np1 (Arith.fn .truediv) Ex.a.toDense Ex.d.toDense = .ok (⟨3, [(0, 1), (2, 10)], false⟩ : SV).toDense :=
  dense_hom_arith_sparse .truediv false Ex.a Ex.d _ (by decide +kernel) (by decide +kernel) (by decide +kernel)

/-- both sides of `err_iff_arith_sparse` are inhabited: lengths 3 and 2 are rejected, lengths 3 and 3 are not;
and a non-zero value over a missing entry raises -/
example : SV.arithSparse .add false Ex.a Ex.short = .error .shape ∧ ¬ ShapeOK Ex.a.size Ex.short.size ∧
    ShapeOK Ex.a.size Ex.b.size ∧ SV.arithSparse .truediv false Ex.a Ex.b = .error .zeroDiv := by
  refine ⟨by decide +kernel, by decide +kernel, by decide +kernel, by decide +kernel⟩

/-- reductions and comparison on the same vector -/
example : redVec .sum Ex.a.toDense = .ok 7 ∧ Ex.a.sum = 7 ∧ redVec .max Ex.a.toDense = .ok 5 ∧
    Ex.a.cmpSparse .gt Ex.b = .ok ⟨3, [0, 2]⟩ := by
  refine ⟨by decide +kernel, by decide +kernel, by decide +kernel, by decide +kernel⟩

/-- `a[[0, 2]] = [0, 9]`: the assigned zero removes the entry (`dense_hom_setitem_fancy` applies) -/
example : (⟨3, [(2, 9)], false⟩ : SV).WF ∧ npSetMany Ex.a.toDense [0, 2] [0, 9] false = .ok (⟨3, [(2, 9)], false⟩ : SV).toDense :=
  dense_hom_setitem_fancy Ex.a _ [0, 2] [0, 9] (by decide +kernel) (by decide +kernel) (by decide +kernel) (by decide +kernel)

/-! ## Clauses of the property that have NO theorem (decided by correspondence + oracle only)

* slice and boolean-mask get / set on a vector (only integer and index-list forms are proved: `dense_hom_getitem_*`,
  `dense_hom_setitem_*`); every get / set of a logical vector;
* reflected operators (`x op vector`): only the invariant (`rbinVec_wf`);
* `sum / max / min / mean` of a logical vector; `keepdims` on vectors;
* operators between a float and a logical vector (`coerce`): invariant only;
* error-iff for 2-d operands and 2-d indices; `sa op= sa` on shared rows (`dense_hom_isa_self_statement`);
* 2-d get beyond row / element / column / row-selection / `[rows], col`, 2-d set beyond one element with a scalar
  (`dense_hom_sa_get_rest_statement`, `dense_hom_sa_set_rest_statement`);
* construction, copy and conversion methods (`to_flat_array`, `from_flat_array`, `tolist`, `astype`, `nonzero_*`,
  `negative_*`, `from_dict`, `from_rows`, …): compared with NumPy by the oracle at every `toarray`;
* everything at the float level (underflow, overflow, rounding), negative positions, empty and repeated selections:
  the Python-only stream of `harness/props/c09.py`.
Only `step_bin_agrees_with_npSide` ties the driver's `step` to the NumPy side by proof (vector ∘ vector, `+ − ×`); for all
other operations the kernel theorems are linked to the executed `step` by the run-time comparison of the four answers. -/

end ThermoVerif.Props.C09
