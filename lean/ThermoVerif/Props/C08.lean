import ThermoVerif.Lemmas.BubbleDew
/-
C08 — Bubble and dew points satisfy their equations and bracket the two-phase region.

The theorems are about the definitions in `ThermoVerif/Model/BubbleDew.lean` (the same definitions the driver runs
in `Float`), instantiated at an arbitrary linearly ordered field.  The model is that of the code after repair
f3c7130 (`Variant.fixed`: all four solve methods normalise `z` on entry); the code before it (`Variant.asFound`)
is kept next to it and `scale_counterexample` shows that it is not scale invariant in `solve_Ty`, `solve_Tx`,
`solve_Px`.  Definitional unfoldings (`solve_multi`, `solve_single`) and helper lemmas are in Lemmas/BubbleDew.lean.

WHAT IS PROVED, AND WHAT IS NOT
  * NOT proved: "a computed bubble/dew point makes the modified-Raoult fractions sum to one".  The value a call
    returns is a PARAMETER of the model (`Input.ret`, what the flexsolve root finder handed back); no theorem says
    that it is a root.  That clause is decided by correspondence + oracle only: the residual is recomputed at every
    returned point from chemical.Psat and fresh γ/φ/pcf objects, by the Python oracle and by the driver.
  * Proved for every input: what the returned fractions are and that they are normalised (`residual_defines`,
    `fractions_normalised`); that the residual FUNCTION and the fractions are unchanged by `z ↦ k·z` and by
    reordering the chemicals at every candidate point (`scale_invariant`, `perm_equivariant` — the returned value
    itself is held fixed there, it is the solver's), and, with uniqueness, that ANY two roots found for `z` and
    `k·z`, resp. for two orderings, coincide (`scale_invariant_root`, `perm_invariant_root`: this is the part
    with content for the returned value); the single-component shortcut and its agreement with the general
    equation (`single_component`, `single_component_consistent`, `single_component_root_iff`); harmonic ≤
    arithmetic ordering (`dew_le_bubble_P`, `dew_le_bubble_P_roots`, `bubble_le_dew_T`); uniqueness of roots and
    the T→P→T inverse (`TP_inverse_*`); soundness of the driver's monitors (`monitor_sound`); the instance cache
    (`cache_same_iff`).
  * PARTIAL: every ordering / uniqueness theorem takes K-values that depend on temperature only and are strictly
    increasing (ideal K-values, or any composition-independent γ·pcf·Psat/φ) — i.e. they cover the ideal package.
    For activity-coefficient packages (γ at the bubble point evaluated at z, at the dew point at x) the statement
    is kept as `bubble_le_dew_T_nonideal_statement`; only its composition-independent case is proved
    (`…_partial`), the rest is decided by correspondence + oracle on the real code (uniq flag, recomputed ordering).
-/
namespace ThermoVerif.Props.C08
open ThermoVerif.BubbleDew

set_option linter.unusedSectionVars false
variable {α : Type} [Field α] [LinearOrder α] [IsStrictOrderedRing α]

/-! ## 1. the returned fractions -/

/-- (The first two conjuncts restate the model's definitions — the reported residual is `1 − Σ` of the vector, so it
vanishes iff the vector sums to one; the content is the last conjunct: at a root the fractions the code returns,
`fn.normalize` of the vector, ARE the modified-Raoult vector, for both variants and all four methods.)
`residual_defines`: with `N ≥ 2` the returned fractions are `normalize` of the Raoult
vector, the reported residual is `1 − Σ` of that vector, it vanishes iff the vector sums to
one, and at a root the returned fractions ARE the Raoult vector. -/
theorem residual_defines (v : Variant) (m : Method) (i : Input α) (n : Nat)
    (h : countPos (i.comps.map (·.z)) = n + 2) (hmin : i.minimum ≤ 1) :
    ∃ o, solve v m i = .ok o ∧
      o.fracs = fnNormalize i.minimum (vec m (pairs v m i.comps i.P)) ∧
      (o.residual = 0 ↔ (vec m (pairs v m i.comps i.P)).sum = 1) ∧
      (o.residual = 0 → o.fracs = vec m (pairs v m i.comps i.P)) := by
  refine ⟨_, solve_multi v m i n h, rfl, ?_, ?_⟩
  · simp only [residual]
    constructor
    · intro h0; exact (sub_eq_zero.mp h0).symm
    · intro h1; rw [h1]; simp
  · intro h0
    have h1 : (vec m (pairs v m i.comps i.P)).sum = 1 := by
      simp only [residual] at h0; exact (sub_eq_zero.mp h0).symm
    simp only [fnNormalize, h1]
    rw [if_neg (not_lt.mpr hmin)]
    simp

/-- `fractions_normalised`: whatever the method, the variant and the recorded parameters, a
successful call returns fractions that sum to one. -/
theorem fractions_normalised (v : Variant) (m : Method) (i : Input α) (o : Output α)
    (hmin : 0 < i.minimum) (h : solve v m i = .ok o) : o.fracs.sum = 1 := by
  have hne : i.comps ≠ [] := by
    intro h0; simp [solve, h0, countPos] at h
  match hcp : countPos (i.comps.map (·.z)) with
  | 0 => simp [solve, hcp] at h
  | 1 =>
    simp only [solve, hcp] at h
    injection h with h; subst h
    exact fnNormalize_sum _ _ hmin (by simpa using hne)
  | n + 2 =>
    rw [solve_multi v m i n hcp] at h
    injection h with h; subst h
    apply fnNormalize_sum _ _ hmin
    cases m <;> cases v <;>
      simp [vec, Method.isBubble, bubbleVec, dewVec, pairs, entryZ, normalizeZ, hne]

/-! ## 2a. uniqueness of the root in T (used by the invariance theorems below and by section 6) -/

/-- The bubble residual is strictly decreasing in T, so the bubble temperature at a given
pressure is unique: two temperatures with the same residual coincide. -/
theorem TP_inverse_bubble_T (sys : List (α × (α → α))) (h : Regular sys)
    (hs : 0 < (sys.map (·.1)).sum) (T₁ T₂ : α)
    (he : residual .bubbleT (atT sys T₁) = residual .bubbleT (atT sys T₂)) : T₁ = T₂ := by
  simp only [residual, vec, Method.isBubble] at he
  have he' : bubbleSum (atT sys T₁) = bubbleSum (atT sys T₂) := by
    have := sub_right_injective he; exact this
  rcases lt_trichotomy T₁ T₂ with hlt | heq | hgt
  · have := bubbleSum_lt (strictlyBelow_atT sys h hlt) (regular_admissible sys h T₁)
      (by rw [weightSum_atT]; exact hs)
    exact absurd he' this.ne
  · exact heq
  · have := bubbleSum_lt (strictlyBelow_atT sys h hgt) (regular_admissible sys h T₂)
      (by rw [weightSum_atT]; exact hs)
    exact absurd he'.symm this.ne

/-- Same for the dew temperature. -/
theorem TP_inverse_dew_T (sys : List (α × (α → α))) (h : Regular sys)
    (hs : 0 < (sys.map (·.1)).sum) (T₁ T₂ : α)
    (he : residual .dewT (atT sys T₁) = residual .dewT (atT sys T₂)) : T₁ = T₂ := by
  simp only [residual, vec, Method.isBubble] at he
  have he' : dewSum (atT sys T₁) = dewSum (atT sys T₂) := by
    have := sub_right_injective he; exact this
  rcases lt_trichotomy T₁ T₂ with hlt | heq | hgt
  · have := dewSum_lt (strictlyBelow_atT sys h hlt) (regular_admissible sys h T₁)
      (by rw [weightSum_atT]; exact hs)
    exact absurd he'.symm this.ne
  · exact heq
  · have := dewSum_lt (strictlyBelow_atT sys h hgt) (regular_admissible sys h T₂)
      (by rw [weightSum_atT]; exact hs)
    exact absurd he' this.ne

/-! ## 2. scale invariance (repaired code) and its failure (code before f3c7130) -/

/-- `z ↦ k·z` on the input of a call. -/
def scaleInput (k : α) (i : Input α) : Input α :=
  { i with comps := i.comps.map (fun c => { c with z := k * c.z }) }

/-- (Pointwise statement: `scaleInput` keeps the candidate point `ret` and the recorded parameters, so this says that
the residual function and the fractions of `k·z` are those of `z` at EVERY candidate point — hence the two calls have
the same set of roots; that two roots actually returned coincide is `scale_invariant_root`.)
`scale_invariant`: the repaired code returns the same value, fractions and residual for
`k·z` as for `z` (`k > 0`; both totals above `fn.normalize`'s 1e-16 guard). -/
theorem scale_invariant (m : Method) (i : Input α) (k : α) (hk : 0 < k)
    (hg : i.minimum ≤ (i.comps.map (·.z)).sum) (hgk : i.minimum ≤ k * (i.comps.map (·.z)).sum) :
    solve .fixed m (scaleInput k i) = solve .fixed m i := by
  have hz : (scaleInput k i).comps.map (·.z) = (i.comps.map (·.z)).map (k * ·) := by
    simp [scaleInput, List.map_map, Function.comp]
  have hK : (scaleInput k i).comps.map (·.K i.P) = i.comps.map (·.K i.P) := by
    simp [scaleInput, List.map_map, Function.comp, Comp.K]
  have hp : pairs .fixed m (scaleInput k i).comps i.P = pairs .fixed m i.comps i.P := by
    unfold pairs
    rw [hz, hK]
    rw [entryZ_fixed, entryZ_fixed, normalizeZ_scale k hk.ne']
  have hfn : fnNormalize i.minimum ((i.comps.map (·.z)).map (k * ·)) =
      fnNormalize i.minimum (i.comps.map (·.z)) := by
    unfold fnNormalize
    rw [sum_map_mul_left', if_neg (not_lt.mpr hgk), if_neg (not_lt.mpr hg), List.map_map]
    apply List.map_congr_left
    intro a _
    simp only [Function.comp]
    rw [mul_div_mul_left _ _ hk.ne']
  unfold solve
  simp only [hz, countPos_scale k hk]
  have e : (scaleInput k i).P = i.P ∧ (scaleInput k i).ret = i.ret ∧ (scaleInput k i).sat = i.sat ∧
      (scaleInput k i).spec = i.spec ∧ (scaleInput k i).critSpec = i.critSpec ∧
      (scaleInput k i).critRet = i.critRet ∧ (scaleInput k i).minimum = i.minimum := by
    simp [scaleInput]
  obtain ⟨e1, e2, e3, e4, e5, e6, e7⟩ := e
  rw [e1, e2, e3, e4, e5, e6, e7, hp, hfn]

/-- `scale_invariant_root`: for K-values that are positive and strictly increasing in T, ANY bubble (dew)
temperature found for `k·z` equals ANY bubble (dew) temperature found for `z` — the two returned values are not
assumed equal, they are proved equal. -/
theorem scale_invariant_root (sys : List (α × (α → α))) (h : Regular sys)
    (hs : 0 < (sys.map (·.1)).sum) (k : α) (hk : 0 < k) (T₁ T₂ : α) :
    (residual .bubbleT (atT (normSys (scaleSys k sys)) T₁) = 0 →
      residual .bubbleT (atT (normSys sys) T₂) = 0 → T₁ = T₂) ∧
    (residual .dewT (atT (normSys (scaleSys k sys)) T₁) = 0 →
      residual .dewT (atT (normSys sys) T₂) = 0 → T₁ = T₂) := by
  rw [normSys_scale k hk.ne']
  have hr := regular_normSys sys h hs
  have hw : 0 < ((normSys sys).map (·.1)).sum := by rw [weights_normSys sys hs.ne']; exact one_pos
  exact ⟨fun h1 h2 => TP_inverse_bubble_T (normSys sys) hr hw T₁ T₂ (h1.trans h2.symm),
         fun h1 h2 => TP_inverse_dew_T (normSys sys) hr hw T₁ T₂ (h1.trans h2.symm)⟩

/-- Water/ethanol-like witness over ℚ: two components, `K = (3/2, 1/2)`, `z = (1/2, 1/2)`. -/
def witness (z : ℚ) : Input ℚ :=
  { comps := [{ z := z, psat := 3, gamma := 1, phi := 1, pcf := 1 },
              { z := z, psat := 1, gamma := 1, phi := 1, pcf := 1 }],
    P := 2, spec := 2, ret := 350, sat := 0, critSpec := 100, critRet := 600, minimum := 1 / 10 ^ 16 }

def residualOf (r : Except Err (Output ℚ)) : Option ℚ :=
  match r with
  | .ok o => some o.residual
  | .error _ => none

/-- `scale_counterexample`: in the code as found `solve_Ty` (and likewise `solve_Tx`,
`solve_Px`) is NOT scale invariant: `z = (1/2, 1/2)` is a bubble point (residual 0) but
the same temperature is rejected for `2·z = (1, 1)` (residual −1), i.e. the code returns a
different temperature for `2·z`; `solve_Py` is invariant; the repaired variant is invariant
in all four. -/
theorem scale_counterexample :
    residualOf (solve .asFound .bubbleT (witness (1 / 2))) = some 0 ∧
    residualOf (solve .asFound .bubbleT (witness 1)) = some (-1) ∧
    residualOf (solve .asFound .dewT (witness (1 / 2))) ≠ residualOf (solve .asFound .dewT (witness 1)) ∧
    residualOf (solve .asFound .dewP (witness (1 / 2))) ≠ residualOf (solve .asFound .dewP (witness 1)) ∧
    residualOf (solve .asFound .bubbleP (witness (1 / 2))) = residualOf (solve .asFound .bubbleP (witness 1)) ∧
    residualOf (solve .fixed .bubbleT (witness 1)) = some 0 := by
  refine ⟨?_, ?_, ?_, ?_, ?_, ?_⟩ <;>
    norm_num [residualOf, solve, witness, countPos, pairs, entryZ, normalizeZ, residual, vec,
      Method.isBubble, bubbleVec, dewVec, Comp.K]

/-! ## 3. permutation equivariance -/

/-- the fraction the repaired code attaches to component `c`, as a function of `c` and of
three symmetric quantities of the whole call -/
def fracFun (m : Method) (P zsum s : α) (c : Comp α) : α :=
  (if m.isBubble then c.z / zsum * c.K P else c.z / zsum / c.K P) / s

/-- (Pointwise, like `scale_invariant`: the candidate point is held fixed; equality of the returned roots is
`perm_invariant_root`.)
`perm_equivariant`: listing the chemicals in another order changes neither the residual
(hence not the point) nor the fraction attached to each chemical: there is one function `g`
of the component alone such that every ordering `comps'` of the same components returns
`comps'.map g`. -/
theorem perm_equivariant (m : Method) (i : Input α) (n : Nat)
    (h : countPos (i.comps.map (·.z)) = n + 2) :
    ∃ (g : Comp α → α) (r : α), ∀ comps', i.comps.Perm comps' →
      solve .fixed m { i with comps := comps' } =
        .ok { value := i.ret, fracs := comps'.map g, residual := r, single := false } := by
  -- symmetric quantities
  let zsum := (i.comps.map (·.z)).sum
  let term : Comp α → α := fun c => if m.isBubble then c.z / zsum * c.K i.P else c.z / zsum / c.K i.P
  let s := (i.comps.map term).sum
  by_cases hs : s < i.minimum
  · -- `fn.normalize`'s guard branch: uniform fractions
    refine ⟨fun _ => 1 / (i.comps.length : α), 1 - s, ?_⟩
    intro comps' hp
    have hz : (comps'.map (·.z)).sum = zsum := (perm_sum (hp.map _)).symm
    have hc : countPos (comps'.map (·.z)) = n + 2 := by
      rw [← h]; unfold countPos
      exact ((hp.map _).filter _).length_eq.symm
    have hv : vec m (pairs .fixed m comps' i.P) = comps'.map term := by
      rw [vec_fixed_eq_map, hz]
    have hsum : (comps'.map term).sum = s := (perm_sum (hp.map _)).symm
    rw [solve_multi .fixed m { i with comps := comps' } n hc]
    simp only [residual, hv, hsum, fnNormalize, if_pos hs, List.length_map, hp.length_eq]
    congr 2
    simp [List.map_const']
  · refine ⟨fun c => term c / s, 1 - s, ?_⟩
    intro comps' hp
    have hz : (comps'.map (·.z)).sum = zsum := (perm_sum (hp.map _)).symm
    have hc : countPos (comps'.map (·.z)) = n + 2 := by
      rw [← h]; unfold countPos
      exact ((hp.map _).filter _).length_eq.symm
    have hv : vec m (pairs .fixed m comps' i.P) = comps'.map term := by
      rw [vec_fixed_eq_map, hz]
    have hsum : (comps'.map term).sum = s := (perm_sum (hp.map _)).symm
    rw [solve_multi .fixed m { i with comps := comps' } n hc]
    simp only [residual, hv, hsum, fnNormalize, if_neg hs, List.map_map]
    rfl

/-- `perm_invariant_root`: for K-values positive and strictly increasing in T, the bubble (dew) temperature found
with the chemicals listed in one order equals the one found with any other order. -/
theorem perm_invariant_root (sys sys' : List (α × (α → α))) (hp : sys.Perm sys') (h : Regular sys)
    (hs : 0 < (sys.map (·.1)).sum) (T₁ T₂ : α) :
    (residual .bubbleT (atT (normSys sys') T₁) = 0 →
      residual .bubbleT (atT (normSys sys) T₂) = 0 → T₁ = T₂) ∧
    (residual .dewT (atT (normSys sys') T₁) = 0 →
      residual .dewT (atT (normSys sys) T₂) = 0 → T₁ = T₂) := by
  have hr := regular_normSys sys h hs
  have hw : 0 < ((normSys sys).map (·.1)).sum := by rw [weights_normSys sys hs.ne']; exact one_pos
  have eb : ∀ T, residual .bubbleT (atT (normSys sys') T) = residual .bubbleT (atT (normSys sys) T) := by
    intro T
    simp only [residual, vec, Method.isBubble, if_true]
    show 1 - bubbleSum (atT (normSys sys') T) = 1 - bubbleSum (atT (normSys sys) T)
    rw [bubbleSum_perm (atT_normSys_perm hp T)]
  have ed : ∀ T, residual .dewT (atT (normSys sys') T) = residual .dewT (atT (normSys sys) T) := by
    intro T
    simp only [residual, vec, Method.isBubble, Bool.false_eq_true, if_false]
    show 1 - dewSum (atT (normSys sys') T) = 1 - dewSum (atT (normSys sys) T)
    rw [dewSum_perm (atT_normSys_perm hp T)]
  exact ⟨fun h1 h2 => TP_inverse_bubble_T (normSys sys) hr hw T₁ T₂ (((eb T₁).symm.trans h1).trans h2.symm),
         fun h1 h2 => TP_inverse_dew_T (normSys sys) hr hw T₁ T₂ (((ed T₁).symm.trans h1).trans h2.symm)⟩

/-! ## 4. single component -/

/-- `single_component_consistent`: the shortcut agrees with the general equation.  If only
`c` is present (all other amounts are 0), the general residual is `1 − K_c` (bubble) resp.
`1 − 1/K_c` (dew), so the point is a root iff `K_c = 1`, i.e. for the ideal `K = Psat/P`
iff `Psat_c(T) = P` — the saturation point the shortcut returns. -/
theorem single_component_consistent (m : Method) (pre post : List (Comp α)) (c : Comp α) (P : α)
    (hz : c.z ≠ 0) (hpre : ∀ d ∈ pre, d.z = 0) (hpost : ∀ d ∈ post, d.z = 0) :
    residual m (pairs .fixed m (pre ++ c :: post) P) =
      1 - (if m.isBubble then c.K P else 1 / c.K P) := by
  have hsum : ((pre ++ c :: post).map (·.z)).sum = c.z := by
    simp [sum_zero_of_all_zero pre (·.z) hpre, sum_zero_of_all_zero post (·.z) hpost]
  unfold residual
  rw [vec_fixed_eq_map, hsum]
  congr 1
  simp only [List.map_append, List.map_cons, List.sum_append, List.sum_cons]
  rw [sum_zero_of_all_zero pre, sum_zero_of_all_zero post]
  · cases hb : m.isBubble <;> simp [div_self hz]
  · intro d hd; rw [hpost d hd]; cases m.isBubble <;> simp
  · intro d hd; rw [hpre d hd]; cases m.isBubble <;> simp

theorem single_component_root_iff (pre post : List (Comp α)) (c : Comp α) (P : α)
    (hz : c.z ≠ 0) (hpre : ∀ d ∈ pre, d.z = 0) (hpost : ∀ d ∈ post, d.z = 0)
    (hP : P ≠ 0) (hid : c.gamma = 1 ∧ c.pcf = 1 ∧ c.phi = 1) :
    residual .bubbleT (pairs .fixed .bubbleT (pre ++ c :: post) P) = 0 ↔ c.psat = P := by
  rw [single_component_consistent .bubbleT pre post c P hz hpre hpost]
  obtain ⟨h1, h2, h3⟩ := hid
  simp only [Method.isBubble, Comp.K, h1, h2, h3, if_true, one_mul]
  rw [sub_eq_zero]
  constructor
  · intro h; field_simp at h; exact h.symm
  · intro h; rw [h]; field_simp

/-- `single_component`: with exactly one chemical present (all other amounts 0) and below its critical point,
every method returns that chemical's `Tsat(P)` / `Psat(T)` (the recorded `sat`), flags the shortcut, and the
residual it reports is that of the GENERAL equation at that point, `1 − K_c` resp. `1 − 1/K_c` — so the shortcut
is a root of the general equation exactly when `K_c = 1` (for ideal parameters: `Psat_c(T) = P`,
`single_component_root_iff`). -/
theorem single_component (m : Method) (i : Input α) (pre post : List (Comp α)) (c : Comp α)
    (hc : i.comps = pre ++ c :: post) (hz : 0 < c.z)
    (hpre : ∀ d ∈ pre, d.z = 0) (hpost : ∀ d ∈ post, d.z = 0) (hsub : ¬ i.critSpec < i.spec) :
    ∃ o, solve .fixed m i = .ok o ∧ o.value = i.sat ∧ o.single = true ∧
      o.residual = 1 - (if m.isBubble then c.K i.P else 1 / c.K i.P) := by
  have h1 : countPos (i.comps.map (·.z)) = 1 := by rw [hc]; exact countPos_single pre post c hz hpre hpost
  refine ⟨_, solve_single .fixed m i h1, ?_, rfl, ?_⟩
  · simp [hsub]
  · simp only [hsub, if_false]
    rw [hc]
    exact single_component_consistent m pre post c i.P hz.ne' hpre hpost

/-! ## 5. bubble and dew points bracket the two-phase region -/

/-- `dew_le_bubble_P` (closed forms `_Px_ideal`, `_Py_ideal`): for non-negative fractions
summing to one and positive `κ_i`, `1/Σ(z_i/κ_i) ≤ Σ z_i κ_i` — the weighted harmonic mean
is at most the weighted arithmetic mean. -/
theorem dew_le_bubble_P (zk : List (α × α)) (h : Admissible zk) (hs : weightSum zk = 1) :
    idealDewP zk ≤ idealBubbleP zk := by
  have hcs := weightSum_sq_le zk h
  rw [hs] at hcs
  have hb := bubbleSum_nonneg h
  have hd := dewSum_nonneg h
  have hdpos : 0 < dewSum zk := by
    rcases lt_or_eq_of_le hd with h1 | h1
    · exact h1
    · rw [← h1] at hcs; norm_num at hcs
  unfold idealDewP idealBubbleP
  rw [div_le_iff₀ hdpos]
  simpa using hcs

/-- `P_dew ≤ P_bubble` at a given temperature, for any pressures solving the two equations. -/
theorem dew_le_bubble_P_roots (zk : List (α × α)) (h : Admissible zk) (hs : weightSum zk = 1)
    (Pb Pd : α) (hPb : 0 < Pb) (hb : residual .bubbleP (atP zk Pb) = 0)
    (hd : residual .dewP (atP zk Pd) = 0) : Pd ≤ Pb := by
  simp only [residual, vec, Method.isBubble] at hb hd
  have hb' : bubbleSum zk / Pb = 1 := by
    have := (sub_eq_zero.mp hb).symm
    simpa [bubbleSum, bubbleSum_atP] using (bubbleSum_atP zk Pb) ▸ this
  have hd' : dewSum zk * Pd = 1 := by
    have := (sub_eq_zero.mp hd).symm
    simpa [dewSum, dewSum_atP] using (dewSum_atP zk Pd) ▸ this
  have hcs := weightSum_sq_le zk h
  rw [hs] at hcs
  have hbP : bubbleSum zk = Pb := by field_simp at hb'; exact hb'
  have hdn := dewSum_nonneg h
  have hdpos : 0 < dewSum zk := by
    rcases lt_or_eq_of_le hdn with h1 | h1
    · exact h1
    · rw [← h1] at hd'; norm_num at hd'
  have : Pd = 1 / dewSum zk := by field_simp; linarith
  rw [this, div_le_iff₀ hdpos, ← hbP]
  simpa using hcs

/-- `bubble_le_dew_T`: for K-values that are positive and strictly increasing in `T`
(ideal K-values with each `Psat_i` increasing), fractions summing to one, a bubble
temperature (`Σ z_i K_i(T_b) = 1`) never exceeds a dew temperature (`Σ z_i/K_i(T_d) = 1`). -/
theorem bubble_le_dew_T (sys : List (α × (α → α))) (h : Regular sys)
    (hs : (sys.map (·.1)).sum = 1) (Tb Td : α)
    (hb : residual .bubbleT (atT sys Tb) = 0) (hd : residual .dewT (atT sys Td) = 0) :
    Tb ≤ Td := by
  simp only [residual, vec, Method.isBubble] at hb hd
  have hb' : bubbleSum (atT sys Tb) = 1 := (sub_eq_zero.mp hb).symm
  have hd' : dewSum (atT sys Td) = 1 := (sub_eq_zero.mp hd).symm
  by_contra hlt
  have hlt : Td < Tb := not_le.mp hlt
  -- harmonic ≤ arithmetic at T_b: the dew sum at T_b is at least 1
  have hcs := weightSum_sq_le (atT sys Tb) (regular_admissible sys h Tb)
  rw [weightSum_atT, hs, hb'] at hcs
  -- but the dew sum is strictly decreasing in T
  have := dewSum_lt (strictlyBelow_atT sys h hlt) (regular_admissible sys h Td)
    (by rw [weightSum_atT, hs]; exact one_pos)
  rw [hd'] at this
  have hcs' : (1 : α) ≤ dewSum (atT sys Tb) := by simpa using hcs
  exact absurd this (not_lt.mpr hcs')

/-- Full statement for activity-coefficient packages, where `γ_i` at the bubble point is
evaluated at `z` and at the dew point at the liquid composition `x`: the two K-families
differ.  Not provable without a thermodynamic-stability hypothesis on γ (it fails for the
one-liquid-phase equations of liquid–liquid immiscible pairs, which the oracle excludes);
kept as the statement that the oracle checks on the real code. -/
def bubble_le_dew_T_nonideal_statement : Prop :=
  ∀ (sysB sysD : List (α × (α → α))), Regular sysB → Regular sysD →
    sysB.map (·.1) = sysD.map (·.1) → (sysB.map (·.1)).sum = 1 →
    ∀ Tb Td, residual .bubbleT (atT sysB Tb) = 0 → residual .dewT (atT sysD Td) = 0 → Tb ≤ Td

/-- `…_partial`: the statement holds whenever the two K-families coincide (composition-independent γ). -/
theorem bubble_le_dew_T_nonideal_partial (sys : List (α × (α → α))) (h : Regular sys)
    (hs : (sys.map (·.1)).sum = 1) (Tb Td : α)
    (hb : residual .bubbleT (atT sys Tb) = 0) (hd : residual .dewT (atT sys Td) = 0) : Tb ≤ Td :=
  bubble_le_dew_T sys h hs Tb Td hb hd

/-! ## 6. T ↔ P inverse relation -/

/-- T → P → T for the bubble point with P-independent `κ_i(T)` (`K_i = κ_i(T)/P`): the
pressure `P₁ = Σ z_i κ_i(T₀)` (`_Py_ideal`) is a root at `T₀`, and every temperature that
solves the bubble equation at `P₁` is `T₀`. -/
theorem TP_inverse_bubble (sys : List (α × (α → α))) (h : Regular sys)
    (hs : (sys.map (·.1)).sum = 1) (T₀ T₂ : α) :
    let P₁ := idealBubbleP (atT sys T₀)
    residual .bubbleP (atP (atT sys T₀) P₁) = 0 ∧
    (residual .bubbleT (atP (atT sys T₂) P₁) = 0 → T₂ = T₀) := by
  intro P₁
  have hadm := regular_admissible sys h T₀
  have hP₁ : 0 < P₁ := by
    have hcs := weightSum_sq_le (atT sys T₀) hadm
    rw [weightSum_atT, hs] at hcs
    have hb := bubbleSum_nonneg hadm
    rcases lt_or_eq_of_le hb with h1 | h1
    · exact h1
    · rw [← h1] at hcs; norm_num at hcs
  have root : residual .bubbleP (atP (atT sys T₀) P₁) = 0 := by
    simp only [residual, vec, Method.isBubble, if_true]
    have := bubbleSum_atP (atT sys T₀) P₁
    simp only [bubbleSum] at this
    rw [this]
    show 1 - bubbleSum (atT sys T₀) / P₁ = 0
    have : bubbleSum (atT sys T₀) = P₁ := rfl
    rw [this, div_self hP₁.ne']; simp
  refine ⟨root, ?_⟩
  intro h2
  -- both T₂ and T₀ are roots of the same strictly monotone equation at P₁
  have e2 : bubbleSum (atT sys T₂) / P₁ = 1 := by
    simp only [residual, vec, Method.isBubble, if_true] at h2
    have := bubbleSum_atP (atT sys T₂) P₁
    simp only [bubbleSum] at this
    rw [this] at h2
    exact (sub_eq_zero.mp h2).symm
  have e2' : bubbleSum (atT sys T₂) = bubbleSum (atT sys T₀) := by
    field_simp at e2; exact e2
  apply TP_inverse_bubble_T sys h (by rw [hs]; exact one_pos)
  simp only [residual, vec, Method.isBubble, if_true]
  show 1 - bubbleSum (atT sys T₂) = 1 - bubbleSum (atT sys T₀)
  rw [e2']

/-- T → P → T for the dew point: `P₁ = 1/Σ z_i/κ_i(T₀)` (`_Px_ideal`) is a root at `T₀`, and
every temperature that solves the dew equation at `P₁` is `T₀`. -/
theorem TP_inverse_dew (sys : List (α × (α → α))) (h : Regular sys)
    (hs : (sys.map (·.1)).sum = 1) (T₀ T₂ : α) :
    let P₁ := idealDewP (atT sys T₀)
    residual .dewP (atP (atT sys T₀) P₁) = 0 ∧
    (residual .dewT (atP (atT sys T₂) P₁) = 0 → T₂ = T₀) := by
  intro P₁
  have hadm := regular_admissible sys h T₀
  have hd0 : 0 < dewSum (atT sys T₀) := by
    have hcs := weightSum_sq_le (atT sys T₀) hadm
    rw [weightSum_atT, hs] at hcs
    have hd := dewSum_nonneg hadm
    rcases lt_or_eq_of_le hd with h1 | h1
    · exact h1
    · rw [← h1] at hcs; norm_num at hcs
  have hP₁ : P₁ = 1 / dewSum (atT sys T₀) := rfl
  have root : residual .dewP (atP (atT sys T₀) P₁) = 0 := by
    simp only [residual, vec, Method.isBubble, Bool.false_eq_true, ↓reduceIte]
    have := dewSum_atP (atT sys T₀) P₁
    simp only [dewSum] at this
    rw [this]
    show 1 - dewSum (atT sys T₀) * P₁ = 0
    rw [hP₁]; field_simp; simp
  refine ⟨root, ?_⟩
  intro h2
  have e2 : dewSum (atT sys T₂) * P₁ = 1 := by
    simp only [residual, vec, Method.isBubble, Bool.false_eq_true, ↓reduceIte] at h2
    have := dewSum_atP (atT sys T₂) P₁
    simp only [dewSum] at this
    rw [this] at h2
    exact (sub_eq_zero.mp h2).symm
  have e2' : dewSum (atT sys T₂) = dewSum (atT sys T₀) := by
    rw [hP₁] at e2; field_simp at e2; exact e2
  apply TP_inverse_dew_T sys h (by rw [hs]; exact one_pos)
  simp only [residual, vec, Method.isBubble, Bool.false_eq_true, ↓reduceIte]
  show 1 - dewSum (atT sys T₂) = 1 - dewSum (atT sys T₀)
  rw [e2']

/-- P → T → P: at a fixed temperature the bubble and dew equations have at most one
positive pressure root each. -/
theorem TP_inverse_P (zk : List (α × α)) (m : Method) (P₁ P₂ : α) (h1 : 0 < P₁) (h2 : 0 < P₂)
    (r1 : residual m (atP zk P₁) = 0) (r2 : residual m (atP zk P₂) = 0) : P₁ = P₂ := by
  simp only [residual, vec] at r1 r2
  cases hb : m.isBubble
  · simp only [hb, Bool.false_eq_true, ↓reduceIte] at r1 r2
    have e1 := (sub_eq_zero.mp r1).symm
    have e2 := (sub_eq_zero.mp r2).symm
    have d1 := dewSum_atP zk P₁
    have d2 := dewSum_atP zk P₂
    simp only [dewSum] at d1 d2
    rw [d1] at e1; rw [d2] at e2
    change dewSum zk * P₁ = 1 at e1
    change dewSum zk * P₂ = 1 at e2
    have hd : dewSum zk ≠ 0 := by
      intro h0; rw [h0] at e1; simp at e1
    have : dewSum zk * P₁ = dewSum zk * P₂ := by rw [e1, e2]
    exact mul_left_cancel₀ hd this
  · simp only [hb, ↓reduceIte] at r1 r2
    have e1 := (sub_eq_zero.mp r1).symm
    have e2 := (sub_eq_zero.mp r2).symm
    have d1 := bubbleSum_atP zk P₁
    have d2 := bubbleSum_atP zk P₂
    simp only [bubbleSum] at d1 d2
    rw [d1] at e1; rw [d2] at e2
    change bubbleSum zk / P₁ = 1 at e1
    change bubbleSum zk / P₂ = 1 at e2
    have : bubbleSum zk = P₁ := by field_simp at e1; exact e1
    have : bubbleSum zk = P₂ := by field_simp at e2; exact e2
    linarith

/-- `monitor_sound`: the driver's hypothesis monitors can only fail when the hypothesis fails:
for a `Regular` system the recorded K-values at any two temperatures pass `monoBetween` and
`allPos`.  (So `hyp=0` on a protocol line refutes `Regular` for the recorded data.) -/
theorem monitor_sound (sys : List (α × (α → α))) (h : Regular sys) (T₁ T₂ : α) :
    monoBetween T₁ T₂ (sys.map (fun p => p.2 T₁)) (sys.map (fun p => p.2 T₂)) = true ∧
    allPos (sys.map (fun p => p.2 T₁)) = true := by
  constructor
  · unfold monoBetween
    simp only [List.length_map, beq_self_eq_true, Bool.true_and, List.all_eq_true]
    intro q hq
    rw [List.zip_map'] at hq
    simp only [List.mem_map] at hq
    obtain ⟨p, hp, rfl⟩ := hq
    have hm := (h p hp).2.2
    by_cases h12 : T₁ < T₂
    · simp only [h12, if_true, decide_eq_true_eq]; exact hm h12
    · by_cases h21 : T₂ < T₁
      · simp only [h12, h21, if_false, if_true, decide_eq_true_eq]; exact hm h21
      · simp only [h12, h21, if_false]
  · unfold allPos
    simp only [List.all_eq_true, List.mem_map, decide_eq_true_eq]
    rintro q ⟨p, hp, rfl⟩
    exact (h p hp).2.1 T₁

/-! ## 7. the instance cache -/

/-- `cache_same_iff`: over any history of constructor calls starting from an empty cache, two
calls receive the same instance if and only if they passed the same key — the ORDERED
chemical tuple and the three coefficient classes.  In particular a permuted chemical list or
another package never receives an instance built for a different one. -/
theorem cache_same_iff (ks : List Key) (a b : Nat) (ha : a < ks.length) (hb : b < ks.length)
    (ha' : a < (({} : Cache).run ks).2.length) (hb' : b < (({} : Cache).run ks).2.length) :
    (({} : Cache).run ks).2[a] = (({} : Cache).run ks).2[b] ↔ ks[a] = ks[b] := by
  have hg : CacheGood ({} : Cache) := by simp [CacheGood]
  obtain ⟨⟨g, _⟩, _, _, m⟩ := run_spec ks {} hg
  exact (g _ (m a ha ha') _ (m b hb hb')).symm

/-! ## non-vacuity -/

/-- `Admissible` and `Σ z = 1` (hypotheses of `dew_le_bubble_P`, `dew_le_bubble_P_roots`) are met
by concrete data. -/
example : Admissible ([(1 / 2, 3), (1 / 2, 1)] : List (ℚ × ℚ)) ∧
    weightSum ([(1 / 2, 3), (1 / 2, 1)] : List (ℚ × ℚ)) = 1 := by
  constructor
  · intro p hp; simp at hp; rcases hp with rfl | rfl <;> norm_num
  · norm_num [weightSum]

/-- the ordering is strict on this data: `P_dew = 3/2 < 2 = P_bubble`. -/
example : idealDewP ([(1 / 2, 3), (1 / 2, 1)] : List (ℚ × ℚ)) = 3 / 2 ∧
    idealBubbleP ([(1 / 2, 3), (1 / 2, 1)] : List (ℚ × ℚ)) = 2 := by
  norm_num [idealDewP, idealBubbleP, dewSum, dewVec, bubbleSum, bubbleVec]

/-- the multi-component branch is reached (`N = 2`) and the hypotheses of `scale_invariant`,
`residual_defines`, `perm_equivariant` hold for the witness. -/
example : countPos ((witness (1 / 2)).comps.map (·.z)) = 0 + 2 ∧
    (witness (1 / 2)).minimum ≤ ((witness (1 / 2)).comps.map (·.z)).sum ∧
    (witness (1 / 2)).minimum ≤ 1 ∧ 0 < (witness (1 / 2)).minimum := by
  norm_num [witness, countPos]

example : Regular ([(1 / 2, kfun 3), (1 / 2, kfun 1)] : List (ℚ × (ℚ → ℚ))) := by
  intro p hp
  simp at hp
  rcases hp with rfl | rfl
  · exact ⟨by norm_num, kfun_pos 3 (by norm_num), kfun_strictMono 3 (by norm_num)⟩
  · exact ⟨by norm_num, kfun_pos 1 (by norm_num), kfun_strictMono 1 (by norm_num)⟩

/-- a history with a repeated key and a permuted chemical list: ids `[0, 1, 0, 2]`. -/
example : (({} : Cache).run [⟨[0, 1], 1, 0, 0⟩, ⟨[1, 0], 1, 0, 0⟩, ⟨[0, 1], 1, 0, 0⟩, ⟨[0, 1], 0, 0, 0⟩]).2
    = [0, 1, 0, 2] := by decide

/-- the hypotheses of `scale_invariant_root` / `perm_invariant_root` are met by the system above, and those of
`single_component` by a two-chemical call with one chemical absent. -/
example : 0 < (([(1 / 2, kfun 3), (1 / 2, kfun 1)] : List (ℚ × (ℚ → ℚ))).map (·.1)).sum := by norm_num

example : ∃ (i : Input ℚ) (c : Comp ℚ), i.comps = [{ z := 0, psat := 1, gamma := 1, phi := 1, pcf := 1 }] ++ c :: []
    ∧ 0 < c.z ∧ ¬ i.critSpec < i.spec :=
  ⟨{ comps := [{ z := 0, psat := 1, gamma := 1, phi := 1, pcf := 1 }, { z := 2, psat := 3, gamma := 1, phi := 1, pcf := 1 }],
     P := 3, spec := 3, ret := 0, sat := 350, critSpec := 100, critRet := 600, minimum := 1 / 10 ^ 16 },
   { z := 2, psat := 3, gamma := 1, phi := 1, pcf := 1 }, rfl, by norm_num, by norm_num⟩

end ThermoVerif.Props.C08
