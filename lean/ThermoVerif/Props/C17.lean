import ThermoVerif.Lemmas.ReactionAlgebra
/-
C17 — reaction arithmetic agrees with applying the reactions and spares its operands.
Theorems over the model `ThermoVerif/Model/ReactionAlgebra.lean`, for every field `α`
(with a decidable linear order, used only by `backwards` to find the products).
-/
set_option linter.unusedSectionVars false

namespace ThermoVerif.Props.C17
open ThermoVerif.ReactionAlgebra

variable {α : Type} [Field α] [LinearOrder α]

/-! ## Agreement with applying the reactions -/

/-- **add_is_parallel.**  For reactions `a`, `b` with the same reactant (same basis label, same phases),
both normalised on it, and `X_a + X_b ≠ 0`: applying `a + b` to any feed gives the same products as
applying `a` and `b` in parallel. -/
theorem add_is_parallel (mw : List α) (a b c : RVal α) (n : List α)
    (hbasis : b.basis = a.basis) (hph : a.ph = b.ph) (hr : a.ridx = b.ridx)
    (hla : a.v.length = n.length) (hlb : b.v.length = n.length)
    (ha : a.v.getD a.ridx 0 = -1) (hb : b.v.getD b.ridx 0 = -1)
    (hx : a.x + b.x ≠ 0)
    (h : a.addSub mw false (some b) = .ok c) :
    react c.v c.ridx c.x n = parallel [(a.v, a.ridx, a.x), (b.v, b.ridx, b.x)] n := by
  cases hre : b.hasReaction
  · -- nothing to add: `c` is (a copy of) `a`, and `b` converts nothing
    rw [addSub_noReaction mw false a b hre] at h
    cases h
    have hbx := hasReaction_false_x b b.ridx hb hre
    apply List.ext_getElem
    · simp [react, parallel, hla, hlb]
    · intro i h1 h2
      simp only [react, parallel, hbx, List.foldl_cons, List.foldl_nil, List.getElem_zipWith]
      ring
  · rw [addSub_ok mw false a b hre hbasis hph hr ha hb (by simpa [sgn] using hx)] at h
    cases h
    apply List.ext_getElem
    · simp [react, parallel, comb, hla, hlb]
    · intro i h1 h2
      simp only [react, parallel, comb, sgn, List.foldl_cons, List.foldl_nil, List.getElem_zipWith,
        List.getElem_map, Bool.false_eq_true, if_false, hr]
      field_simp
      ring

/-- **sub_cancels.**  `(a + b) - b` *is* `a` again (same stoichiometry, reactant, conversion, basis,
phases), hence acts like `a` on every feed. -/
theorem sub_cancels (mw : List α) (a b c d : RVal α)
    (hbasis : b.basis = a.basis) (hph : a.ph = b.ph) (hr : a.ridx = b.ridx)
    (hl : a.v.length = b.v.length)
    (ha : a.v.getD a.ridx 0 = -1) (hb : b.v.getD b.ridx 0 = -1)
    (hxa : a.x ≠ 0) (hx : a.x + b.x ≠ 0)
    (hc : a.addSub mw false (some b) = .ok c) (hd : c.addSub mw true (some b) = .ok d) :
    d = a := by
  cases hre : b.hasReaction
  · rw [addSub_noReaction mw false a b hre] at hc
    cases hc
    rw [addSub_noReaction mw true a b hre] at hd
    cases hd; rfl
  · rw [addSub_ok mw false a b hre hbasis hph hr ha hb (by simpa [sgn] using hx)] at hc
    have hcn := comb_map_normalised false a.v b.v a.x b.x b.ridx (hr ▸ ha) hb (by simpa [sgn] using hx)
    have hx' : sgn true (sgn false a.x b.x) b.x ≠ 0 := by simpa [sgn] using hxa
    have hce : c = { a with v := (comb false a.v a.x b.v b.x).map (· / sgn false a.x b.x),
                            x := sgn false a.x b.x } := (Except.ok.inj hc).symm
    subst hce
    have key := addSub_ok mw true
      ⟨(comb false a.v a.x b.v b.x).map (· / sgn false a.x b.x), a.ridx, sgn false a.x b.x, a.basis, a.ph⟩
      b hre hbasis hph hr (by rw [← hr] at hcn; exact hcn) hb hx'
    rw [key] at hd
    cases hd
    have e : a.x + b.x - b.x = a.x := by ring
    apply RVal.ext <;> simp only [sgn, Bool.false_eq_true, if_false, if_true, e]
    · apply List.ext_getElem
      · simp [comb, hl]
      · intro i h1 h2
        simp only [comb, List.getElem_map, List.getElem_zipWith, Bool.false_eq_true, if_false, if_true]
        field_simp
        ring

theorem sub_cancels_acts (mw : List α) (a b c d : RVal α) (n : List α)
    (hbasis : b.basis = a.basis) (hph : a.ph = b.ph) (hr : a.ridx = b.ridx)
    (hl : a.v.length = b.v.length) (hn : a.v.length = n.length)
    (ha : a.v.getD a.ridx 0 = -1) (hb : b.v.getD b.ridx 0 = -1)
    (hx : a.x + b.x ≠ 0)
    (hc : a.addSub mw false (some b) = .ok c) (hd : c.addSub mw true (some b) = .ok d) :
    react d.v d.ridx d.x n = react a.v a.ridx a.x n := by
  by_cases hxa : a.x = 0
  · -- `a` converts nothing; `(a+b)-b` is then the empty reaction with conversion 0: both sides leave the feed alone
    cases hre : b.hasReaction
    · rw [addSub_noReaction mw false a b hre] at hc
      have := Except.ok.inj hc; subst this
      rw [addSub_noReaction mw true a b hre] at hd
      have := Except.ok.inj hd; subst this; rfl
    · rw [addSub_ok mw false a b hre hbasis hph hr ha hb (by simpa [sgn] using hx)] at hc
      have hce := (Except.ok.inj hc).symm
      obtain ⟨b', hb', _, _, v, hv, hdd⟩ := addSub_some_inv mw true c b d hre hd
      have hcb : b.basis = c.basis := by rw [hce]; exact hbasis
      rw [copyB_same mw c b hcb] at hb'
      have := Except.ok.inj hb'; subst this
      have hvl := combineV_length _ _ _ _ _ _ _ hv
      have hcl : c.v.length = a.v.length := by rw [hce]; simp [comb, hl]
      have hdx : d.x = 0 := by rw [hdd, hce]; simp [sgn, hxa]
      have hdl : n.length ≤ d.v.length := by rw [hdd]; simp only []; rw [hvl, hcl, ← hl, ← hn]; simp
      rw [hdx, hxa, react_zero_x _ _ _ hdl, react_zero_x _ _ _ (by rw [hn])]
  · rw [sub_cancels mw a b c d hbasis hph hr hl ha hb hxa hx hc hd]

/-- **smul_scales_X.**  `k * a` is `a` with its conversion multiplied by `k`; on every feed the change it
produces is `k` times the change `a` produces. -/
theorem smul_scales_X (a : RVal α) (k : α) (n : List α) (hl : a.v.length = n.length) :
    a.smul k = { a with x := a.x * k } ∧
    react (a.smul k).v (a.smul k).ridx (a.smul k).x n =
      List.zipWith (fun ni ri => ni + k * (ri - ni)) n (react a.v a.ridx a.x n) := by
  refine ⟨rfl, ?_⟩
  apply List.ext_getElem
  · simp [react, RVal.smul, hl]
  · intro i h1 h2
    simp only [react, RVal.smul, List.getElem_zipWith]
    ring

/-- **Re-basing does not change what a reaction does to a stream.**  `copy('wt')` / `copy('mol')` of a
normalised reaction (molecular weights nonzero) acts on molar flows exactly like the original; this is what
lets `a + b` with operands of different bases (where `b` is first re-based to `a`'s basis) be compared with
applying `a` and `b` to the same stream. -/
theorem rebase_agrees_on_streams (mw : List α) (a c : RVal α) (b : BArg) (n : List α)
    (hmw : ∀ m ∈ mwFlat mw a.ph, m ≠ 0) (hl : a.v.length = n.length)
    (hlm : (mwFlat mw a.ph).length = n.length)
    (ha : a.v.getD a.ridx 0 = -1) (h : a.copyB mw b = .ok c) :
    applyStream (mwFlat mw c.ph) c.basis (react c.v c.ridx c.x) n =
      applyStream (mwFlat mw a.ph) a.basis (react a.v a.ridx a.x) n := by
  have hr := lt_of_getD_neg_one a.v a.ridx ha
  have hrn : a.ridx < n.length := hl ▸ hr
  have hrm : a.ridx < (mwFlat mw a.ph).length := hlm ▸ hrn
  have har : a.v[a.ridx] = -1 := by rw [← getD_of_lt a.v a.ridx hr]; exact ha
  have hmr : (mwFlat mw a.ph)[a.ridx] ≠ 0 := hmw _ (List.getElem_mem hrm)
  have hnr : n.getD a.ridx 0 = n[a.ridx] := getD_of_lt n a.ridx hrn
  unfold RVal.copyB at h
  split at h
  · cases h; rfl
  · simp at h
  · -- to 'mol'
    split at h
    · cases h; rfl
    · rename_i hb
      have hbw : a.basis = .wt := by cases hab : a.basis <;> simp_all
      simp only [rebaseV, rescale_def] at h
      split at h; · simp at h
      rename_i v' hv
      split at hv; · simp at hv
      have hv' := Except.ok.inj hv
      have := Except.ok.inj h; subst this
      subst hv'
      simp only [applyStream, hbw]
      have hq : (List.zipWith (· / ·) a.v (mwFlat mw a.ph)).getD a.ridx 0 = a.v[a.ridx] / (mwFlat mw a.ph)[a.ridx] := by
        rw [getD_of_lt _ _ (by simp [hr, hrm])]; simp
      have hnm : (List.zipWith (· * ·) n (mwFlat mw a.ph)).getD a.ridx 0 = n[a.ridx] * (mwFlat mw a.ph)[a.ridx] := by
        rw [getD_of_lt _ _ (by simp [hrn, hrm])]; simp
      apply List.ext_getElem
      · simp [react, hl, hlm]
      · intro i h1 h2
        have him : i < (mwFlat mw a.ph).length := by simp [react, hl, hlm] at h1; omega
        have hmi : (mwFlat mw a.ph)[i] ≠ 0 := hmw _ (List.getElem_mem him)
        simp only [react, List.getElem_zipWith, List.getElem_map, hq, hnm, hnr, har]
        field_simp
  · -- to 'wt'
    split at h
    · cases h; rfl
    · rename_i hb
      have hbm : a.basis = .mol := by cases hab : a.basis <;> simp_all
      simp only [rebaseV, rescale_def] at h
      split at h; · simp at h
      rename_i v' hv
      split at hv; · simp at hv
      have hv' := Except.ok.inj hv
      have := Except.ok.inj h; subst this
      subst hv'
      simp only [applyStream, hbm]
      have hq : (List.zipWith (· * ·) a.v (mwFlat mw a.ph)).getD a.ridx 0 = a.v[a.ridx] * (mwFlat mw a.ph)[a.ridx] := by
        rw [getD_of_lt _ _ (by simp [hr, hrm])]; simp
      have hnm : (List.zipWith (· * ·) n (mwFlat mw a.ph)).getD a.ridx 0 = n[a.ridx] * (mwFlat mw a.ph)[a.ridx] := by
        rw [getD_of_lt _ _ (by simp [hrn, hrm])]; simp
      apply List.ext_getElem
      · simp [react, hl, hlm]
      · intro i h1 h2
        have him : i < (mwFlat mw a.ph).length := by simp [react, hl, hlm] at h1; omega
        have hmi : (mwFlat mw a.ph)[i] ≠ 0 := hmw _ (List.getElem_mem him)
        simp only [react, List.getElem_zipWith, List.getElem_map, hq, hnm, hnr, har]
        field_simp

/-- **add_is_parallel_on_streams** (operands on any bases; this is also the case of a `Reaction` combined with a
`ReactionItem` of a set kept on the other basis).  `b` is first re-based to `a`'s basis; the sum, applied to the
molar flows of a stream, changes them by what `a` changes plus what `b` — on its own basis — changes. -/
theorem add_is_parallel_on_streams (mw : List α) (a b c : RVal α) (n : List α)
    (hph : a.ph = b.ph) (hla : a.v.length = n.length) (hlb : b.v.length = n.length)
    (hmw : ∀ m ∈ mwFlat mw a.ph, m ≠ 0) (hlm : (mwFlat mw a.ph).length = n.length)
    (ha : a.v.getD a.ridx 0 = -1) (hb : b.v.getD b.ridx 0 = -1) (hx : a.x + b.x ≠ 0)
    (h : a.addSub mw false (some b) = .ok c) :
    applyStream (mwFlat mw c.ph) c.basis (react c.v c.ridx c.x) n =
      List.zipWith (· + ·) (applyStream (mwFlat mw a.ph) a.basis (react a.v a.ridx a.x) n)
        (List.zipWith (· - ·) (applyStream (mwFlat mw b.ph) b.basis (react b.v b.ridx b.x) n) n) := by
  obtain ⟨hf1, hf2, hf3⟩ := addSub_fields mw false a (some b) c h
  have hlbm : b.v.length = (mwFlat mw b.ph).length := by rw [← hph, hlm, hlb]
  cases hre : b.hasReaction
  · -- nothing is added: `b` converts nothing
    rw [addSub_noReaction mw false a b hre] at h
    have := Except.ok.inj h; subst this
    have hbx := hasReaction_false_x b b.ridx hb hre
    have hid : applyStream (mwFlat mw b.ph) b.basis (react b.v b.ridx b.x) n = n := by
      rw [hbx, ← hph]
      cases b.basis
      · simp only [applyStream]
        apply List.ext_getElem (by simp [react, hlb])
        intro i h1 h2; simp [react]
      · simp only [applyStream]
        apply List.ext_getElem (by simp [react, hlb, hlm])
        intro i h1 h2
        have him : i < (mwFlat mw a.ph).length := by rw [hlm]; exact h2
        have hmi : (mwFlat mw a.ph)[i] ≠ 0 := hmw _ (List.getElem_mem him)
        simp only [react, List.getElem_zipWith]
        field_simp
        ring
    rw [hid]
    apply List.ext_getElem
    · cases a.basis <;> simp [applyStream, react, hla, hlm]
    · intro i h1 h2; simp
  · obtain ⟨b', hb', hph', hr', v, hv, hc⟩ := addSub_some_inv mw false a b c hre h
    obtain ⟨g1, g2, g3, g4, g5, g6⟩ := copyB_ofBasis mw b b' a.basis hb hlbm hb'
    -- the same sum written with the re-based operand
    have hre' : b'.hasReaction = true := by
      have hz : allZero b'.v = false := allZero_false_of_getD_ne b'.v b'.ridx (by rw [g6]; simp)
      have hbx : b.x ≠ 0 := by intro e; simp [RVal.hasReaction, e] at hre
      simp [RVal.hasReaction, hz, g1, hbx]
    have h' : a.addSub mw false (some b') = .ok c := by
      unfold RVal.addSub
      simp only [hre', Bool.not_true, Bool.false_eq_true, if_false,
        compat_same mw a b' g4 hph' hr', hv, hc]
    have hlb' : b'.v.length = n.length := by rw [g5, hlb]
    have hpar : ∀ m : List α, m.length = n.length →
        react c.v c.ridx c.x m = parallel [(a.v, a.ridx, a.x), (b'.v, b'.ridx, b'.x)] m := fun m hm =>
      add_is_parallel mw a b' c m g4 hph' hr' (by rw [hla, hm]) (by rw [hlb', hm]) ha g6 (by rw [g1]; exact hx) h'
    have hagree := rebase_agrees_on_streams mw b b' (BArg.ofBasis a.basis) n
      (by rw [← hph]; exact hmw) hlb (by rw [← hph]; exact hlm) hb hb'
    rw [← hagree, hf2, hf3, g4, g3, ← hph]
    rw [← applyStream_parallel_two (mwFlat mw a.ph) a.basis a b' n hmw hlm hla hlb']
    cases a.basis
    · simp only [applyStream]; exact hpar n rfl
    · simp only [applyStream]; rw [hpar _ (by simp [hlm])]

/-! ## Operands are spared, results are fresh -/

/-- **operands_unchanged.**  Every operation that is not an in-place form (`+ - * / neg copy backwards`,
the constructors, building a set, taking an item, `reduce`) leaves every existing array, X array and
object exactly as it was: the old store is a prefix of the new one. -/
theorem operands_unchanged (s s' : Store α) (op : Op α) (k : Nat) (hop : op.inPlace = false)
    (h : s.step op = .ok (s', k)) : s.Extends s' := by
  cases hp : s.pureOp op with
  | some r =>
    obtain ⟨a, _, hs, _⟩ := step_pure_ok s s' op k r hp h
    rw [hs]; exact newRxn_extends s _ a
  | none =>
    cases op <;> simp [Op.inPlace] at hop <;> simp [Store.pureOp] at hp
    case mkSet ms =>
      simp only [Store.step, Store.pureOp, Store.mkSetOp] at h
      split at h
      · simp at h
      · split at h; · simp at h
        split at h; · simp at h
        split at h; · simp at h
        simp only [Except.ok.injEq, Prod.mk.injEq] at h
        rw [← h.1]
        exact ⟨List.prefix_append _ _, List.prefix_append _ _, List.prefix_append _ _, rfl, rfl⟩
    case item sid i =>
      simp only [Store.step, Store.pureOp, Store.itemOp] at h
      split at h
      · simp at h
      · split at h
        · simp only [Except.ok.injEq, Prod.mk.injEq] at h
          rw [← h.1]
          exact ⟨List.prefix_refl _, List.prefix_refl _, List.prefix_append _ _, rfl, rfl⟩
        · simp at h
    case reduce sid order =>
      simp only [Store.step, Store.pureOp, Store.reduceOp] at h
      split at h
      · simp at h
      · split at h; · simp at h
        split at h; · simp at h
        split at h; · simp at h
        simp only [Except.ok.injEq, Prod.mk.injEq] at h
        rw [← h.1]
        exact ⟨List.prefix_append _ _, List.prefix_append _ _, List.prefix_append _ _, rfl, rfl⟩
    case setCopy sid b =>
      simp only [Store.step, Store.pureOp, Store.setCopyOp] at h
      split at h
      · simp at h
      · split at h; · simp at h
        split at h; · simp at h
        simp only [Except.ok.injEq, Prod.mk.injEq] at h
        rw [← h.1]
        exact ⟨List.prefix_append _ _, List.prefix_append _ _, List.prefix_append _ _, rfl, rfl⟩
    case slice sid i j =>
      simp only [Store.step, Store.pureOp, Store.sliceOp] at h
      split at h
      · simp at h
      · simp only [Except.ok.injEq, Prod.mk.injEq] at h
        rw [← h.1]
        exact ⟨List.prefix_refl _, List.prefix_refl _, List.prefix_append _ _, rfl, rfl⟩

/-- In a well-formed store, a store extension shows every old reaction (and every member of every old set)
with the value it had: stoichiometry contents, reactant, conversion, basis, phases. -/
theorem operands_keep_value (s s' : Store α) (hwf : s.WF) (e : s.Extends s') :
    (∀ id r, s.rxn? id = .ok r → s'.rxn? id = .ok r ∧ s'.val r = s.val r) ∧
    (∀ id t, s.set? id = .ok t → s'.set? id = .ok t ∧ s'.setVals t = s.setVals t) := by
  have hobj : ∀ (id : Nat) (o : Obj α), s.objs[id]? = some o → s'.objs[id]? = some o := by
    intro id o h
    obtain ⟨t, ht⟩ := e.objs
    rw [← ht, List.getElem?_append_left (List.getElem?_eq_some_iff.mp h).1, h]
  have harr : ∀ id, id < s.arrs.length → s'.arr id = s.arr id := fun id h =>
    getD_prefix _ _ _ e.arrs id h
  have hx : ∀ xa, xa < s.xarrs.length → s'.xarrs.getD xa [] = s.xarrs.getD xa [] := fun xa h =>
    getD_prefix _ _ _ e.xarrs xa h
  constructor
  · intro id r h
    have hw := rxn_wf_of_ok hwf h
    refine ⟨rxn?_of_getElem? (hobj id _ (rxn?_ok h)), ?_⟩
    simp only [Store.val, harr r.nu hw.1]
    congr 1
    cases hrx : r.x with
    | own x => rfl
    | shared xa i =>
      have := hw.2; rw [hrx] at this
      show (s'.xarrs.getD xa []).getD i 0 = (s.xarrs.getD xa []).getD i 0
      rw [hx xa this.1]
  · intro id t h
    obtain ⟨h1, h2, _, _⟩ := set_wf_of_ok hwf h
    refine ⟨by simp [Store.set?, hobj id _ (set?_ok h)], ?_⟩
    simp only [Store.setVals]
    apply List.map_congr_left
    intro i hi
    rw [List.mem_range] at hi
    have : t.rows.getD i 0 < s.arrs.length := by
      rw [getD_of_lt' _ _ _ hi]; exact h1 _ (List.getElem_mem hi)
    rw [harr _ this, hx t.xa h2]

/-- **operands_unchanged**, in terms of values: after a non-in-place operation every reaction and every set
that existed reads exactly as before. -/
theorem operands_unchanged_values (s s' : Store α) (op : Op α) (k : Nat) (hwf : s.WF)
    (hop : op.inPlace = false) (h : s.step op = .ok (s', k)) :
    (∀ id r, s.rxn? id = .ok r → s'.rxn? id = .ok r ∧ s'.val r = s.val r) ∧
    (∀ id t, s.set? id = .ok t → s'.set? id = .ok t ∧ s'.setVals t = s.setVals t) :=
  operands_keep_value s s' hwf (operands_unchanged s s' op k hop h)

/-- Every store reached from an empty package store by any list of operations is well-formed, so the
theorems that assume `WF` hold along every history. -/
theorem reachable_wf (nchem : Nat) (mw : List α) (ops : List (Op α)) :
    (Store.run ({ nchem := nchem, mw := mw } : Store α) ops).WF :=
  run_wf ops _ (by intro o ho; simp at ho)

/-- the same from a store that also knows alternative property packages -/
theorem reachable_wf_alts (nchem : Nat) (mw : List α) (alts : List (Pkg α)) (ops : List (Op α)) :
    (Store.run ({ nchem := nchem, mw := mw, alts := alts } : Store α) ops).WF :=
  run_wf ops _ (by intro o ho; simp at ho)

/-- **fresh_result.**  The result of an arithmetic operation, `copy`, `backwards`, `reduce`, `set.copy` or of building a
set from reactions is a new
object (its id is the next free one), and every stoichiometry array and X array it holds was allocated
by this operation. -/
theorem fresh_result (s s' : Store α) (op : Op α) (k : Nat) (hop : makesFresh s op)
    (h : s.step op = .ok (s', k)) :
    k = s.objs.length ∧ ∃ o, s'.objs = s.objs ++ [o] ∧
      (∀ id ∈ o.arrIds, s.arrs.length ≤ id) ∧ (∀ id ∈ o.xIds, s.xarrs.length ≤ id) := by
  rcases hop with hp | ⟨sid, order, rfl⟩ | ⟨sid, b, rfl⟩ | ⟨ser, ms, rfl⟩
  · obtain ⟨r, hr⟩ := Option.isSome_iff_exists.mp hp
    obtain ⟨a, _, hs, hk⟩ := step_pure_ok s s' op k r hr h
    refine ⟨hk, _, by rw [hs]; rfl, ?_, ?_⟩ <;> simp [Obj.arrIds, Obj.xIds]
  · simp only [Store.step, Store.pureOp, Store.reduceOp] at h
    split at h; · simp at h
    split at h; · simp at h
    split at h; · simp at h
    split at h; · simp at h
    simp only [Except.ok.injEq, Prod.mk.injEq] at h
    refine ⟨h.2.symm, _, by rw [← h.1], ?_, ?_⟩
    · intro id hid; simp [Obj.arrIds] at hid; obtain ⟨j, _, rfl⟩ := hid; omega
    · intro id hid; simp [Obj.xIds] at hid; omega
  · simp only [Store.step, Store.pureOp, Store.setCopyOp] at h
    split at h; · simp at h
    split at h; · simp at h
    split at h; · simp at h
    simp only [Except.ok.injEq, Prod.mk.injEq] at h
    refine ⟨h.2.symm, _, by rw [← h.1], ?_, ?_⟩
    · intro id hid; simp [Obj.arrIds] at hid; obtain ⟨j, _, rfl⟩ := hid; omega
    · intro id hid; simp [Obj.xIds] at hid; omega

  · simp only [Store.step, Store.pureOp, Store.mkSetOp] at h
    split at h; · simp at h
    split at h; · simp at h
    split at h; · simp at h
    split at h; · simp at h
    simp only [Except.ok.injEq, Prod.mk.injEq] at h
    refine ⟨h.2.symm, _, by rw [← h.1], ?_, ?_⟩
    · intro id hid; simp [Obj.arrIds] at hid; obtain ⟨j, _, rfl⟩ := hid; omega
    · intro id hid; simp [Obj.xIds] at hid; omega

/-- consequently the result shares no array with any object that existed (in a well-formed store) -/
theorem fresh_result_disjoint (s s' : Store α) (op : Op α) (k : Nat) (hwf : s.WF) (hop : makesFresh s op)
    (h : s.step op = .ok (s', k)) :
    ∃ o, s'.objs[k]? = some o ∧ ∀ old ∈ s.objs,
      (∀ id ∈ o.arrIds, id ∉ old.arrIds) ∧ (∀ id ∈ o.xIds, id ∉ old.xIds) := by
  obtain ⟨hk, o, ho, h1, h2⟩ := fresh_result s s' op k hop h
  refine ⟨o, by rw [ho, hk]; simp, fun old hold => ⟨fun id hid hc => ?_, fun id hid hc => ?_⟩⟩
  · have := wf_arrIds (hwf old hold) id hc; have := h1 id hid; omega
  · have := wf_xIds (hwf old hold) id hc; have := h2 id hid; omega

/-! ## In-place forms equal the binary forms -/

/-- **inplace_eq_binary** (`+=` / `+`).  In a well-formed store `a += b` leaves in `a` exactly the reaction that
`a + b` returns (same stoichiometry, reactant, conversion, basis, phases), and fails exactly when it does. -/
theorem inplace_eq_binary_add (s : Store α) (hwf : s.WF) (a : Nat) (b : Option Nat) :
    outcome s (.iadd a b) = outcome s (.add a b) := iaddSub_eq_binary s hwf false a b

/-- **inplace_eq_binary** (`-=` / `-`). -/
theorem inplace_eq_binary_sub (s : Store α) (hwf : s.WF) (a : Nat) (b : Option Nat) :
    outcome s (.isub a b) = outcome s (.sub a b) := iaddSub_eq_binary s hwf true a b

/-- **inplace_eq_binary** (`*=` / `*`). -/
theorem inplace_eq_binary_mul (s : Store α) (hwf : s.WF) (a : Nat) (k : α) :
    outcome s (.imul a k) = outcome s (.mul a k) := by
  rw [outcome_pure s (.mul a k) _ rfl]
  simp only [outcome, Store.step, Store.pureOp, Store.imulOp]
  cases hra : s.rxn? a with
  | error e => simp [valOf_error hra, bind, Except.bind]
  | ok ra =>
    simp only [valOf_of_rxn? hra, bind, Except.bind, pure, Except.pure]
    rw [writeX_valOf s a ra _ (lt_of_rxn? hra) (rxn_wf_of_ok hwf hra).2]
    simp [RVal.smul, Store.val]

/-- **inplace_eq_binary** (`/=` / `/`). -/
theorem inplace_eq_binary_div (s : Store α) (hwf : s.WF) (a : Nat) (k : α) :
    outcome s (.idiv a k) = outcome s (.div a k) := by
  rw [outcome_pure s (.div a k) _ rfl]
  simp only [outcome, Store.step, Store.pureOp, Store.idivOp]
  cases hra : s.rxn? a with
  | error e => simp [valOf_error hra, bind, Except.bind]
  | ok ra =>
    simp only [valOf_of_rxn? hra, bind, Except.bind]
    cases hr : (s.val ra).sdiv k with
    | error e => rfl
    | ok r =>
      simp only []
      rw [writeX_valOf s a ra _ (lt_of_rxn? hra) (rxn_wf_of_ok hwf hra).2]
      unfold RVal.sdiv at hr
      split at hr
      · simp at hr
      · simp at hr; subst hr; simp [RVal.smul, Store.val]

/-! ## A reaction item and its set share the conversion -/

/-- `set[i]` is an object that refers to the set's own row array and to cell `i` of the set's X window
(cell `xoff + i` of the underlying array when the set is a slice `parent[a:b]`) -/
theorem item_refers_to_set (s s1 : Store α) (sid i k : Nat) (t : RSet) (ht : s.set? sid = .ok t)
    (h : s.step (.item sid i) = .ok (s1, k)) :
    ∃ r, s1.rxn? k = .ok r ∧ r.x = .shared t.xa (t.xoff + i) ∧ r.nu = t.rows.getD i 0 ∧ s1.set? sid = .ok t := by
  simp only [Store.step, Store.pureOp, Store.itemOp, ht] at h
  split at h
  · simp only [Except.ok.injEq, Prod.mk.injEq] at h
    obtain ⟨rfl, rfl⟩ := h
    refine ⟨{ nu := t.rows.getD i 0, ridx := t.ridxs.getD i 0, x := .shared t.xa (t.xoff + i), basis := t.basis, ph := t.ph, pkg := t.pkg },
      rxn?_of_getElem? (by simp), rfl, rfl, ?_⟩
    have := set?_ok ht
    have hlt := (List.getElem?_eq_some_iff.mp this).1
    simp [Store.set?, List.getElem?_append_left hlt, this]
  · simp at h

/-- **item_set_shared** (item → set).  Writing the conversion of an item writes cell `i` of the set's X
array — the very cell the set reads — and leaves every set object as it was. -/
theorem item_write_seen_by_set (s : Store α) (hwf : s.WF) (k : Nat) (r : Rxn α) (xa i : Nat)
    (hr : s.rxn? k = .ok r) (hx : r.x = .shared xa i) (x : α) :
    ∃ s2, s.step (.setX k x) = .ok (s2, k) ∧ cell s2 xa i = x ∧
      ∀ sid t, s.set? sid = .ok t → s2.set? sid = .ok t := by
  refine ⟨s.writeX k r x, by simp [Store.step, Store.pureOp, Store.setXOp, hr], ?_, ?_⟩
  · have hw := (rxn_wf_of_ok hwf hr).2
    rw [hx] at hw
    obtain ⟨h1, h2⟩ := hw
    have h2' : i < (s.xarrs[xa]).length := by simpa [List.getD, h1] using h2
    simp [cell, Store.writeX, hx, List.getD, h1, h2']
  · intro sid t ht
    have h1 := set?_ok ht
    have h2 := rxn?_ok hr
    have hne : k ≠ sid := by
      intro e; subst e; rw [h1] at h2; simp at h2
    simp [Store.set?, Store.writeX, hx, List.getElem?_set_ne hne, h1]

/-- **item_set_shared** (set → item).  Writing `set.X[i]` is read by every item of that set with index `i`. -/
theorem set_write_seen_by_item (s : Store α) (hwf : s.WF) (sid i : Nat) (t : RSet)
    (ht : s.set? sid = .ok t) (hi : i < t.rows.length) (x : α) :
    ∃ s2, s.step (.setSetX sid i x) = .ok (s2, sid) ∧ cell s2 t.xa (t.xoff + i) = x ∧
      ∀ k r, s.rxn? k = .ok r → r.x = .shared t.xa (t.xoff + i) → (s2.valOf k).map (·.x) = .ok x := by
  obtain ⟨_, h2, h3, _⟩ := set_wf_of_ok hwf ht
  have h3' : t.xoff + i < (s.xarrs[t.xa]).length := by
    have : (s.xarrs.getD t.xa []).length = (s.xarrs[t.xa]).length := by simp [List.getD, h2]
    omega
  have hc : cell { s with xarrs := s.xarrs.set t.xa ((s.xarrs.getD t.xa []).set (t.xoff + i) x) } t.xa (t.xoff + i) = x := by
    simp [cell, List.getD, h2, h3']
  refine ⟨_, by simp [Store.step, Store.pureOp, Store.setSetXOp, ht, hi], hc, ?_⟩
  intro k r hr hx
  have : Store.rxn? { s with xarrs := s.xarrs.set t.xa ((s.xarrs.getD t.xa []).set (t.xoff + i) x) } k = .ok r := by
    simpa [Store.rxn?] using hr
  rw [valOf_of_rxn? this]
  simp only [Except.map, Store.val, Store.getX, hx]
  exact congrArg _ hc

/-- the same cell is read by every *set* whose X window covers it: the set itself, the set it was sliced from,
and any other slice of that set -/
theorem set_write_seen_by_sets (s : Store α) (hwf : s.WF) (sid i : Nat) (t : RSet)
    (ht : s.set? sid = .ok t) (hi : i < t.rows.length) (x : α) :
    ∃ s2, s.step (.setSetX sid i x) = .ok (s2, sid) ∧
      ∀ sid' t' j, s.set? sid' = .ok t' → t'.xa = t.xa → t'.xoff + j = t.xoff + i → j < t'.rows.length →
        s2.set? sid' = .ok t' ∧ ((s2.setVals t').map (·.x)).getD j 0 = x := by
  obtain ⟨s2, hstep, hcell, _⟩ := set_write_seen_by_item s hwf sid i t ht hi x
  refine ⟨s2, hstep, ?_⟩
  intro sid' t' j ht' hxa hoff hj
  have hs2 : s2 = { s with xarrs := s.xarrs.set t.xa ((s.xarrs.getD t.xa []).set (t.xoff + i) x) } := by
    have := hstep
    simp only [Store.step, Store.pureOp, Store.setSetXOp, ht, hi, if_true, Except.ok.injEq, Prod.mk.injEq] at this
    exact this.1.symm
  refine ⟨by rw [hs2]; simpa [Store.set?] using ht', ?_⟩
  have hlen : j < ((s2.setVals t').map (·.x)).length := by simp [Store.setVals, hj]
  rw [getD_of_lt _ _ hlen]
  simp only [Store.setVals, List.getElem_map, List.getElem_range, hxa, hoff]
  exact hcell

/-- **item_set_shared** (whole-array assignment).  `set.X = xs` writes the cells of the set's own X window in
place — the set keeps its array (`set?` is unchanged) — so every item created before, by `set[i]` or by iterating
the set, reads the new value of its cell. -/
theorem set_assign_seen_by_items (s : Store α) (hwf : s.WF) (sid : Nat) (t : RSet) (xs : List α)
    (ht : s.set? sid = .ok t) (hlen : xs.length = t.rows.length) :
    ∃ s2, s.step (.setSetXAll sid xs) = .ok (s2, sid) ∧ s2.set? sid = .ok t ∧ s2.arrs = s.arrs ∧
      (∀ i, i < t.rows.length → cell s2 t.xa (t.xoff + i) = xs.getD i 0) ∧
      ∀ k r i, s.rxn? k = .ok r → r.x = .shared t.xa (t.xoff + i) → i < t.rows.length →
        (s2.valOf k).map (·.x) = .ok (xs.getD i 0) := by
  obtain ⟨_, h2, h3, _⟩ := set_wf_of_ok hwf ht
  have hcell : ∀ i, i < t.rows.length →
      cell { s with xarrs := s.xarrs.set t.xa (writeWindow (s.xarrs.getD t.xa []) t.xoff xs) } t.xa (t.xoff + i)
        = xs.getD i 0 := by
    intro i hi
    have hlt : t.xoff + i < (s.xarrs.getD t.xa []).length := by omega
    simp only [cell]
    have : (s.xarrs.set t.xa (writeWindow (s.xarrs.getD t.xa []) t.xoff xs)).getD t.xa []
        = writeWindow (s.xarrs.getD t.xa []) t.xoff xs := by simp [List.getD, h2]
    rw [this, writeWindow_getD _ _ _ _ hlt]
    simp [hlen, hi]
  refine ⟨{ s with xarrs := s.xarrs.set t.xa (writeWindow (s.xarrs.getD t.xa []) t.xoff xs) },
    by simp [Store.step, Store.pureOp, Store.setSetXAllOp, ht, hlen], by simpa [Store.set?] using ht, rfl,
    hcell, ?_⟩
  intro k r i hr hx hi
  have : Store.rxn? { s with xarrs := s.xarrs.set t.xa (writeWindow (s.xarrs.getD t.xa []) t.xoff xs) } k = .ok r := by
    simpa [Store.rxn?] using hr
  rw [valOf_of_rxn? this]
  simp only [Except.map, Store.val, Store.getX, hx]
  exact congrArg _ (hcell i hi)

/-- the setter form of `product_yield` / `reactant_demand` is the `X` setter with a computed conversion: whatever
holds of `a.X = x` (an item writes its set's cell, `item_write_seen_by_set`; frame `inplace_frame`) holds of it -/
theorem setYield_is_setX (s s' : Store α) (a c k : Nat) (y : α) (b : BArg)
    (h : s.step (.setYield a c y b) = .ok (s', k)) : ∃ x, s.step (.setX a x) = .ok (s', k) := by
  simp only [Store.step, Store.pureOp, Store.setYieldOp] at h
  split at h; · simp at h
  rename_i ra hra
  split at h; · simp at h
  rename_i x hx
  exact ⟨x, by simpa [Store.step, Store.pureOp, Store.setXOp, hra] using h⟩

/-- **item_iadd_keeps_set_row** (repair C17-7).  `item += b` / `item -= b` leave the item object itself as it was: it
still refers to the array of the set's row and to the set's X cell; the sum is written INTO that array and that cell
(`inplace_frame`), so the set, its slices and every other item of the row read the same reaction as the item
(`inplace_eq_binary_add/_sub` say which). -/
theorem item_iadd_keeps_set_row (s s' : Store α) (sub : Bool) (a k : Nat) (b : Option Nat) (r : Rxn α) (xa i : Nat)
    (hr : s.rxn? a = .ok r) (hx : r.x = .shared xa i)
    (h : s.step (if sub then .isub a b else .iadd a b) = .ok (s', k)) :
    s'.rxn? a = .ok r := by
  have h' : s.iaddSubOp sub a b = .ok (s', k) := by cases sub <;> simpa [Store.step, Store.pureOp] using h
  have hlt : a < s.objs.length := (List.getElem?_eq_some_iff.mp (rxn?_ok hr)).1
  unfold Store.iaddSubOp at h'
  rw [hr] at h'
  simp only [] at h'
  split at h'
  · simp at h'
  · simp at h'; rw [← h'.1]; exact hr
  · split at h'
    · simp at h'; rw [← h'.1]; exact hr
    · split at h'; · simp at h'
      simp at h'; rw [← h'.1]
      apply rxn?_of_getElem?
      simp [Store.assign, Store.writeX, hx, hlt]

/-! ## What the in-place forms leave alone -/

/-- `+= -= *= /=` and the `X` setter on `a`.  Stoichiometry arrays: for a plain reaction no existing array is
modified (`+=`/`-=` bind a new one to `a`); for a `ReactionItem` (repair C17-7) `+=`/`-=` overwrite exactly the array
the item refers to — the row of its set — and no other.  Every other object keeps its fields, and the only X-array
cell that can change is the one `a` refers to when `a` is a reaction item. -/
theorem inplace_frame (s s' : Store α) (op : Op α) (a k : Nat)
    (hop : (∃ b, op = .iadd a b) ∨ (∃ b, op = .isub a b) ∨ (∃ c, op = .imul a c) ∨ (∃ c, op = .idiv a c)
            ∨ (∃ c, op = .setX a c))
    (h : s.step op = .ok (s', k)) :
    k = a ∧
    (∀ r, s.rxn? a = .ok r →
      (∀ x0, r.x = .own x0 → s.arrs <+: s'.arrs) ∧
      (∀ aid, aid ≠ r.nu → aid < s.arrs.length → s'.arrs[aid]? = s.arrs[aid]?)) ∧
    (∀ id, id ≠ a → s'.objs[id]? = s.objs[id]?) ∧
    (∀ r, s.rxn? a = .ok r → ∀ xa i, r.x ≠ .shared xa i → cell s' xa i = cell s xa i) := by
  -- a store whose arrays extend the old ones satisfies the array clause
  have af : ∀ (s2 : Store α), s.arrs <+: s2.arrs → ∀ r : Rxn α, s.rxn? a = .ok r →
      (∀ x0, r.x = .own x0 → s.arrs <+: s2.arrs) ∧
      (∀ aid, aid ≠ r.nu → aid < s.arrs.length → s2.arrs[aid]? = s.arrs[aid]?) := by
    intro s2 hp r _
    refine ⟨fun _ _ => hp, fun aid _ hlt => ?_⟩
    obtain ⟨t, ht⟩ := hp
    rw [← ht, List.getElem?_append_left hlt]
  have hw : ∀ (r : Rxn α) (x : α), s.arrs <+: (s.writeX a r x).arrs ∧
      (∀ id, id ≠ a → (s.writeX a r x).objs[id]? = s.objs[id]?) ∧
      (∀ xa i, r.x ≠ .shared xa i → cell (s.writeX a r x) xa i = cell s xa i) := by
    intro r x
    cases hx : r.x with
    | own x0 =>
      refine ⟨by simp [Store.writeX, hx], fun id hid => by simp [Store.writeX, hx, List.getElem?_set_ne (Ne.symm hid)],
        fun xa i _ => by simp [cell, Store.writeX, hx]⟩
    | shared xa0 i0 =>
      refine ⟨by simp [Store.writeX, hx], fun id hid => by simp [Store.writeX, hx, List.getElem?_set_ne (Ne.symm hid)], ?_⟩
      intro xa i hne
      simp only [cell, Store.writeX, hx]
      by_cases hxa : xa = xa0
      · subst hxa
        have hi : i ≠ i0 := fun e => hne (by rw [e])
        by_cases hl : xa < s.xarrs.length
        · simp [List.getD, hl, List.getElem?_set_ne (Ne.symm hi)]
        · simp [List.getD, Nat.not_lt.mp hl]
      · simp [List.getD, List.getElem?_set_ne (Ne.symm hxa)]
  have hrebind : ∀ (r : Rxn α) (v : List α) (x : α), s.arrs <+: (s.rebind a r v x).arrs ∧
      (∀ id, id ≠ a → (s.rebind a r v x).objs[id]? = s.objs[id]?) ∧
      (∀ xa i, r.x ≠ .shared xa i → cell (s.rebind a r v x) xa i = cell s xa i) := by
    intro r v x
    cases hx : r.x with
    | own x0 =>
      refine ⟨by simp [Store.rebind, Store.writeX, hx], fun id hid => by simp [Store.rebind, Store.writeX, hx, List.getElem?_set_ne (Ne.symm hid)],
        fun xa i _ => by simp [cell, Store.rebind, Store.writeX, hx]⟩
    | shared xa0 i0 =>
      refine ⟨by simp [Store.rebind, Store.writeX, hx], fun id hid => by simp [Store.rebind, Store.writeX, hx, List.getElem?_set_ne (Ne.symm hid)], ?_⟩
      intro xa i hne
      simp only [cell, Store.rebind, Store.writeX, hx]
      by_cases hxa : xa = xa0
      · subst hxa
        have hi : i ≠ i0 := fun e => hne (by rw [e])
        by_cases hl : xa < s.xarrs.length
        · simp [List.getD, hl, List.getElem?_set_ne (Ne.symm hi)]
        · simp [List.getD, Nat.not_lt.mp hl]
      · simp [List.getD, List.getElem?_set_ne (Ne.symm hxa)]
  have hsame : s.arrs <+: s.arrs ∧ (∀ id, id ≠ a → s.objs[id]? = s.objs[id]?) ∧
      (∀ r, s.rxn? a = .ok r → ∀ xa i, r.x ≠ .shared xa i → cell s xa i = cell s xa i) :=
    ⟨List.prefix_refl _, fun _ _ => rfl, fun _ _ _ _ _ => rfl⟩
  have hiaddsub : ∀ sub b, s.iaddSubOp sub a b = .ok (s', k) → k = a ∧
      (∀ r, s.rxn? a = .ok r →
        (∀ x0, r.x = .own x0 → s.arrs <+: s'.arrs) ∧
        (∀ aid, aid ≠ r.nu → aid < s.arrs.length → s'.arrs[aid]? = s.arrs[aid]?)) ∧
      (∀ id, id ≠ a → s'.objs[id]? = s.objs[id]?) ∧
      (∀ r, s.rxn? a = .ok r → ∀ xa i, r.x ≠ .shared xa i → cell s' xa i = cell s xa i) := by
    intro sub b h
    unfold Store.iaddSubOp at h
    split at h; · simp at h
    rename_i ra hra
    split at h
    · simp at h
    · simp at h; obtain ⟨rfl, rfl⟩ := h; exact ⟨rfl, af s (List.prefix_refl _), hsame.2⟩
    · split at h
      · simp at h; obtain ⟨rfl, rfl⟩ := h; exact ⟨rfl, af s (List.prefix_refl _), hsame.2⟩
      · split at h; · simp at h
        rename_i r hr
        simp at h; obtain ⟨rfl, rfl⟩ := h
        cases hx : ra.x with
        | own x0 =>
          have hass : s.assign a ra r.v r.x = s.rebind a ra r.v r.x := by simp [Store.assign, hx]
          rw [hass]
          obtain ⟨h1, h2, h3⟩ := hrebind ra r.v r.x
          exact ⟨rfl, af _ h1, h2, fun r' hr' => by rw [hra] at hr'; cases hr'; exact h3⟩
        | shared xa0 i0 =>
          have hass : s.assign a ra r.v r.x = Store.writeX { s with arrs := s.arrs.set ra.nu r.v } a ra r.x := by
            simp [Store.assign, hx]
          rw [hass]
          refine ⟨rfl, fun r' hr' => ?_, fun id hid => by simp [Store.writeX, hx, List.getElem?_set_ne (Ne.symm hid)], ?_⟩
          · rw [hra] at hr'; cases hr'
            refine ⟨fun x0 h0 => absurd (hx.symm.trans h0) (by simp), fun aid hne _ => ?_⟩
            simp [Store.writeX, hx, List.getElem?_set_ne (Ne.symm hne)]
          · intro r' hr' xa i hne
            rw [hra] at hr'; cases hr'
            simp only [cell, Store.writeX, hx]
            by_cases hxa : xa = xa0
            · subst hxa
              have hi : i ≠ i0 := fun e => hne (by rw [hx, e])
              by_cases hl : xa < s.xarrs.length
              · simp [List.getD, hl, List.getElem?_set_ne (Ne.symm hi)]
              · simp [List.getD, Nat.not_lt.mp hl]
            · simp [List.getD, List.getElem?_set_ne (Ne.symm hxa)]
  rcases hop with ⟨b, rfl⟩ | ⟨b, rfl⟩ | ⟨c, rfl⟩ | ⟨c, rfl⟩ | ⟨c, rfl⟩
  · exact hiaddsub false b (by simpa [Store.step, Store.pureOp] using h)
  · exact hiaddsub true b (by simpa [Store.step, Store.pureOp] using h)
  · simp only [Store.step, Store.pureOp, Store.imulOp] at h
    split at h; · simp at h
    rename_i ra hra
    simp at h; obtain ⟨rfl, rfl⟩ := h
    obtain ⟨h1, h2, h3⟩ := hw ra _
    exact ⟨rfl, af _ h1, h2, fun r hr => by rw [hra] at hr; cases hr; exact h3⟩
  · simp only [Store.step, Store.pureOp, Store.idivOp] at h
    split at h; · simp at h
    rename_i ra hra
    split at h; · simp at h
    simp at h; obtain ⟨rfl, rfl⟩ := h
    obtain ⟨h1, h2, h3⟩ := hw ra _
    exact ⟨rfl, af _ h1, h2, fun r hr => by rw [hra] at hr; cases hr; exact h3⟩
  · simp only [Store.step, Store.pureOp, Store.setXOp] at h
    split at h; · simp at h
    rename_i ra hra
    simp at h; obtain ⟨rfl, rfl⟩ := h
    obtain ⟨h1, h2, h3⟩ := hw ra _
    exact ⟨rfl, af _ h1, h2, fun r hr => by rw [hra] at hr; cases hr; exact h3⟩

/-! ## Normalisation is an invariant of everything the operations return -/

/-- **results_normalised.**  If every reaction in the store is normalised on its reactant (`ν[r] = -1`) or
empty, so is the value returned by the constructor, `copy`, `+`, `-`, `*`, `/`, `neg` and `backwards`.
This discharges the normalisation hypotheses of `add_is_parallel` / `sub_cancels` for all values that
arise from operations. -/
theorem results_normalised (s : Store α) (op : Op α) (a : RVal α)
    (hin : ∀ id r, s.rxn? id = .ok r → (s.val r).Normal) (h : s.pureOp op = some (.ok a)) : a.Normal := by
  cases op <;> simp only [Store.pureOp, Option.some.injEq, reduceCtorEq] at h
  case new ph basis c x v =>
    simp only [bind, Except.bind] at h
    split at h; · simp at h
    rename_i v' hv
    simp [pure, Except.pure] at h; subst h
    exact Or.inl (rescale_normal _ _ _ hv)
  case empty basis c x =>
    cases h
    right; simp [allZero]
  case copy a0 b =>
    simp only [bind, Except.bind] at h
    split at h; · simp at h
    rename_i v0 hv0
    exact (copyB_normal _ v0 a b (valOf_normal s hin a0 v0 hv0) h).1
  case add a0 b =>
    simp only [bind, Except.bind] at h
    split at h; · simp at h
    rename_i v0 hv0
    split at h; · simp at h
    exact addSub_normal _ false v0 _ a (valOf_normal s hin a0 v0 hv0) h
  case sub a0 b =>
    simp only [bind, Except.bind] at h
    split at h; · simp at h
    rename_i v0 hv0
    split at h; · simp at h
    exact addSub_normal _ true v0 _ a (valOf_normal s hin a0 v0 hv0) h
  case mul a0 k =>
    simp only [bind, Except.bind] at h
    split at h; · simp at h
    rename_i v0 hv0
    simp [pure, Except.pure] at h; subst h
    exact valOf_normal s hin a0 v0 hv0
  case div a0 k =>
    simp only [bind, Except.bind] at h
    split at h; · simp at h
    rename_i v0 hv0
    unfold RVal.sdiv at h
    split at h; · simp at h
    simp at h; subst h
    exact valOf_normal s hin a0 v0 hv0
  case neg a0 =>
    simp only [bind, Except.bind] at h
    split at h; · simp at h
    rename_i v0 hv0
    simp [pure, Except.pure] at h; subst h
    exact valOf_normal s hin a0 v0 hv0
  case backwards a0 r x =>
    simp only [bind, Except.bind] at h
    split at h; · simp at h
    exact backwards_normal _ _ a r x h

/-- The `basis` setter is the one operation that modifies an existing stoichiometry array: exactly the array
of its own object, nothing else (a set built from that reaction holds copies of the member arrays — repair
8900795 — and so keeps its numbers). -/
theorem setBasis_frame (s s' : Store α) (a k : Nat) (b : BArg) (h : s.step (.setBasis a b) = .ok (s', k)) :
    k = a ∧ s'.xarrs = s.xarrs ∧ (∀ id, id ≠ a → s'.objs[id]? = s.objs[id]?) ∧
    ∃ r, s.rxn? a = .ok r ∧ s'.arrs.length = s.arrs.length ∧ ∀ aid, aid ≠ r.nu → s'.arrs[aid]? = s.arrs[aid]? := by
  simp only [Store.step, Store.pureOp, Store.setBasisOp] at h
  split at h
  · simp at h
  · simp at h
  · rename_i ra hra
    split at h; · simp at h
    split at h; · simp at h
    simp only [Except.ok.injEq, Prod.mk.injEq] at h
    obtain ⟨rfl, rfl⟩ := h
    refine ⟨rfl, rfl, fun id hid => by simp [List.getElem?_set_ne (Ne.symm hid)], ra, rxn?_of_getElem? hra, by simp,
      fun aid haid => by simp [List.getElem?_set_ne (Ne.symm haid)]⟩

/-! ## The agreement clauses at the level of store operations -/

/-- `c = a + b` executed on objects of the store: calling `c` on a feed gives what `a` and `b` give in
parallel (equal basis label, phases and reactant; both normalised; `X_a + X_b ≠ 0`). -/
theorem add_step_is_parallel (s s' : Store α) (a b k : Nat) (ra rb : Rxn α) (n : List α)
    (hra : s.rxn? a = .ok ra) (hrb : s.rxn? b = .ok rb) (hpk : s.pkgOf a = s.pkgOf b)
    (hbasis : rb.basis = ra.basis) (hph : ra.ph = rb.ph) (hr : ra.ridx = rb.ridx)
    (hla : (s.val ra).v.length = n.length) (hlb : (s.val rb).v.length = n.length)
    (ha : (s.val ra).v.getD ra.ridx 0 = -1) (hb : (s.val rb).v.getD rb.ridx 0 = -1)
    (hx : (s.val ra).x + (s.val rb).x ≠ 0)
    (h : s.step (.add a (some b)) = .ok (s', k)) :
    s'.applyArr k n = .ok (parallel [((s.val ra).v, ra.ridx, (s.val ra).x), ((s.val rb).v, rb.ridx, (s.val rb).x)] n) := by
  obtain ⟨c, hc, hs, hk⟩ := step_pure_ok s s' _ k _ rfl h
  simp only [valOf_of_rxn? hra, optValFor_same hrb hpk, bind, Except.bind, pure, Except.pure] at hc
  have hv : s'.valOf k = .ok c := by rw [hs, hk]; exact newRxn_valOf s _ c
  rw [applyArr_of_valOf s' k c n hv]
  congr 1
  exact add_is_parallel _ (s.val ra) (s.val rb) c n hbasis hph hr hla hlb ha hb hx hc

/-- `c = a + b` on objects of the store whose bases may differ — in particular a `Reaction` `a` and a
`ReactionItem` `b` of a set kept on the other basis (`b`'s conversion is then the set's X cell): calling `c` on a
stream changes the molar flows by what `a` and `b`, each on its own basis, change. -/
theorem add_step_is_parallel_on_streams (s s' : Store α) (a b k : Nat) (ra rb : Rxn α) (n : List α)
    (hra : s.rxn? a = .ok ra) (hrb : s.rxn? b = .ok rb) (hpk : s.pkgOf a = s.pkgOf b) (hph : ra.ph = rb.ph)
    (hla : (s.val ra).v.length = n.length) (hlb : (s.val rb).v.length = n.length)
    (hmw : ∀ m ∈ mwFlat (s.mwOf (s.pkgOf a)) ra.ph, m ≠ 0)
    (hlm : (mwFlat (s.mwOf (s.pkgOf a)) ra.ph).length = n.length)
    (ha : (s.val ra).v.getD ra.ridx 0 = -1) (hb : (s.val rb).v.getD rb.ridx 0 = -1)
    (hx : (s.val ra).x + (s.val rb).x ≠ 0)
    (h : s.step (.add a (some b)) = .ok (s', k)) :
    ∃ out outa outb, s'.applyStr k n = .ok out ∧ s.applyStr a n = .ok outa ∧ s.applyStr b n = .ok outb ∧
      out = List.zipWith (· + ·) outa (List.zipWith (· - ·) outb n) := by
  obtain ⟨c, hc, hs, hk⟩ := step_pure_ok s s' _ k _ rfl h
  simp only [valOf_of_rxn? hra, optValFor_same hrb hpk, bind, Except.bind, pure, Except.pure] at hc
  have hv : s'.valOf k = .ok c := by rw [hs, hk]; exact newRxn_valOf s _ c
  have hpk' : s'.pkgOf k = s.pkgOf a := by
    rw [hs, hk]; simp only [Store.newRxn, Store.pkgOf, List.getElem?_concat_length]; rfl
  have hmw' : s'.mwOf (s'.pkgOf k) = s.mwOf (s.pkgOf a) := by
    rw [hpk', hs]; rfl
  refine ⟨_, _, _, applyStr_of_valOf s' k c n hv, applyStr_of_valOf s a _ n (valOf_of_rxn? hra),
    applyStr_of_valOf s b _ n (valOf_of_rxn? hrb), ?_⟩
  rw [hmw', ← hpk]
  exact add_is_parallel_on_streams _ (s.val ra) (s.val rb) c n hph hla hlb hmw hlm ha hb hx hc

/-! ## `ParallelReaction.reduce` -/

/-- **reduce_acts_like_set.**  Merging the members of a parallel set that share a reactant (`reduce`, in
whatever order the reactant keys are visited, provided each key is visited once and none is missed) gives a
set that acts on every feed exactly like the original set.  Members are normalised on their reactants and
have the length of the feed; the theorem holds whenever `reduce` returns (it raises when a running conversion
sum inside a group vanishes). -/
theorem reduce_acts_like_set (mw : List α) (ms vs : List (RVal α)) (order : List Nat) (n : List α)
    (basis : Basis) (ph : Nat)
    (hall : ∀ a ∈ ms, a.v.getD a.ridx 0 = -1 ∧ a.v.length = n.length ∧ a.basis = basis ∧ a.ph = ph)
    (hnd : order.Nodup) (hcov : ∀ a ∈ ms, a.ridx ∈ order)
    (h : reduceVals mw ms order = .ok vs) :
    parallel (triples vs) n = parallel (triples ms) n := by
  obtain ⟨hvl, hvs⟩ := reduceVals_dAt mw ms n basis ph hall order vs h
  obtain ⟨hl1, hg1⟩ := parallel_getD vs n hvl
  obtain ⟨hl2, hg2⟩ := parallel_getD ms n (fun a ha => (hall a ha).2.1)
  apply ext_getD _ _ (by rw [hl1, hl2])
  intro i
  rw [hg1 i, hg2 i, hvs i, sum_partition _ order hnd ms hcov]
  rfl

/-- the same at store level: the object returned by `set.reduce()` applied to a feed gives what the set gives -/
theorem reduce_step_acts (s s' : Store α) (hwf : s.WF) (sid k : Nat) (order : List Nat) (t : RSet) (n : List α)
    (ht : s.set? sid = .ok t)
    (hall : ∀ a ∈ s.setVals t, a.v.getD a.ridx 0 = -1 ∧ a.v.length = n.length)
    (h : s.step (.reduce sid order) = .ok (s', k)) :
    s'.applyArr k n = s.applyArr sid n := by
  simp only [Store.step, Store.pureOp, Store.reduceOp, ht] at h
  split at h; · simp at h
  rename_i hser
  split at h; · simp at h
  rename_i hguard
  split at h; · simp at h
  rename_i vs hvs
  simp only [Except.ok.injEq, Prod.mk.injEq] at h
  obtain ⟨rfl, rfl⟩ := h
  simp only [Bool.not_eq_true', Bool.not_eq_false, Bool.and_eq_true, List.all_eq_true, decide_eq_true_eq] at hguard
  obtain ⟨⟨_, hcov⟩, hnd⟩ := hguard
  obtain ⟨_, _, _, hrl⟩ := set_wf_of_ok hwf ht
  have hsid := set?_ok ht
  have hser' : t.series = false := by simpa using hser
  simp only [Store.applyArr, List.getElem?_concat_length, hsid, setAct, hser', Bool.false_eq_true, if_false]
  congr 1
  have hms : ∀ a ∈ s.setVals t, a.v.getD a.ridx 0 = -1 ∧ a.v.length = n.length ∧ a.basis = t.basis ∧ a.ph = t.ph := by
    intro a ha
    obtain ⟨h1, h2⟩ := hall a ha
    simp only [Store.setVals, List.mem_map] at ha
    obtain ⟨i, _, rfl⟩ := ha
    exact ⟨h1, h2, rfl, rfl⟩
  have hcov' : ∀ a ∈ s.setVals t, a.ridx ∈ order := by
    intro a ha
    simp only [Store.setVals, List.mem_map, List.mem_range] at ha
    obtain ⟨i, hi, rfl⟩ := ha
    have hir : i < t.ridxs.length := hrl ▸ hi
    exact hcov _ (by simp only; rw [getD_of_lt' _ _ _ hir]; exact List.getElem_mem hir)
  have key := reduce_acts_like_set _ (s.setVals t) vs order n t.basis t.ph hms hnd hcov' hvs
  simp only [triples] at key
  rw [← key]
  congr 1
  simp only [Store.setVals, List.map_map, List.length_map, List.length_range]
  apply List.ext_getElem
  · simp
  · intro j h1 h2
    have hj : j < vs.length := by simpa using h2
    simp [Store.arr, List.getD, hj, List.getElem?_append_right]

/-! ## Copies and slices of reaction sets, series sets -/

/-- **setCopy_acts_like_original** (`_partial`: the copy keeps the basis).  `set.copy()` — or `copy(basis)` with the
set's own basis — returns a set that does to every array and every stream what the original does (parallel or
series alike).  (That it is a new object with its own row arrays and X array is `fresh_result`; that the original
is untouched is `operands_unchanged`.) -/
theorem setCopy_acts_like_original (s s' : Store α) (sid k : Nat) (b : BArg) (t : RSet) (n : List α)
    (ht : s.set? sid = .ok t) (hb : copyTarget t.basis b = .ok none)
    (h : s.step (.setCopy sid b) = .ok (s', k)) :
    s'.applyArr k n = s.applyArr sid n ∧ s'.applyStr k n = s.applyStr sid n := by
  simp only [Store.step, Store.pureOp, Store.setCopyOp, ht, hb] at h
  simp only [Except.ok.injEq, Prod.mk.injEq] at h
  obtain ⟨hs, hk⟩ := h
  have hsid := set?_ok ht
  have hobj : s'.objs[k]? = some (Obj.set ⟨(List.range (s.setVals t).length).map (· + s.arrs.length), s.xarrs.length,
      (s.setVals t).map (·.ridx), t.basis, t.ph, 0, t.series, t.pkg⟩) := by
    rw [← hs, ← hk]; simp
  have key := fresh_set_triples s (s.setVals t)
    ⟨(List.range (s.setVals t).length).map (· + s.arrs.length), s.xarrs.length,
      (s.setVals t).map (·.ridx), t.basis, t.ph, 0, t.series, t.pkg⟩ s' rfl rfl rfl rfl (by rw [← hs]) (by rw [← hs])
  have hmw : s'.mwOf t.pkg = s.mwOf t.pkg := by rw [← hs]; simp [Store.mwOf]
  constructor
  · simp only [Store.applyArr, hobj, hsid, key]
  · simp only [Store.applyStr, hobj, hsid, key, hmw]

/-- one row of `set.copy(basis)` with another basis is exactly what `Reaction.copy(basis)` gives for that member
(normalised on its reactant, molecular weight of the reactant nonzero); by `rebase_agrees_on_streams` it therefore
acts on every stream like the member -/
theorem setCopy_rebased_member (mw : List α) (a : RVal α) (tgt : Basis) (v' : List α)
    (ha : a.v.getD a.ridx 0 = -1) (hne : a.basis ≠ tgt) (hl : a.v.length = (mwFlat mw a.ph).length)
    (hm : (mwFlat mw a.ph).getD a.ridx 0 ≠ 0)
    (h : rescaleRow (match tgt with
                      | .wt => List.zipWith (· * ·) a.v (mwFlat mw a.ph)
                      | .mol => List.zipWith (· / ·) a.v (mwFlat mw a.ph)) a.ridx = .ok v') :
    a.copyB mw (BArg.ofBasis tgt) = .ok { a with v := v', basis := tgt } := by
  cases tgt with
  | mol =>
    have hw : (List.zipWith (· / ·) a.v (mwFlat mw a.ph)).getD a.ridx 0 ≠ 0 := by
      rw [zipWith_getD _ (by simp) _ _ hl, ha]
      exact div_ne_zero (by simp) hm
    have hz := allZero_false_of_getD_ne _ _ hw
    simp only [rescaleRow, hz, Bool.false_eq_true, if_false, neg_eq_zero, hw] at h
    have := Except.ok.inj h; subst this
    simp only [RVal.copyB, BArg.ofBasis, hne, if_false, rebaseV, rescale_def, neg_eq_zero, hw]
  | wt =>
    have hw : (List.zipWith (· * ·) a.v (mwFlat mw a.ph)).getD a.ridx 0 ≠ 0 := by
      rw [zipWith_getD _ (by simp) _ _ hl, ha]; simpa using hm
    have hz := allZero_false_of_getD_ne _ _ hw
    simp only [rescaleRow, hz, Bool.false_eq_true, if_false, neg_eq_zero, hw] at h
    have := Except.ok.inj h; subst this
    simp only [RVal.copyB, BArg.ofBasis, hne, if_false, rebaseV, rescale_def, neg_eq_zero, hw]

/-- The full clause for `copy(basis)` with another basis, kept as a statement: the re-based copy acts on every
stream like the original set.  Proved member by member (`setCopy_rebased_member` + `rebase_agrees_on_streams`); the
composition over the members of a parallel/series set under the mass-flow conversion is not proved. -/
def setCopy_rebased_acts_statement (α : Type) [Field α] [LinearOrder α] : Prop :=
  ∀ (s s' : Store α) (sid k : Nat) (b : BArg) (t : RSet) (n : List α),
    s.WF → s.set? sid = .ok t →
    (∀ a ∈ s.setVals t, a.v.getD a.ridx 0 = -1 ∧ a.v.length = n.length) →
    (∀ m ∈ mwFlat (s.mwOf t.pkg) t.ph, m ≠ 0) → (mwFlat (s.mwOf t.pkg) t.ph).length = n.length →
    s.step (.setCopy sid b) = .ok (s', k) → s'.applyStr k n = s.applyStr sid n

/-- `set[i:j]` is a new object over the same row arrays and the same X array: cell `m` of the slice is cell
`i + m` of the set it was cut from (so by `set_write_seen_by_sets` / `item_write_seen_by_set` a conversion written
through either, or through an item of either, is read by the other). -/
theorem slice_refers_to_parent (s s' : Store α) (sid i j k : Nat) (t : RSet) (ht : s.set? sid = .ok t)
    (hi : i ≤ t.rows.length) (h : s.step (.slice sid i j) = .ok (s', k)) :
    k = s.objs.length ∧ s'.arrs = s.arrs ∧ s'.xarrs = s.xarrs ∧ s'.set? sid = .ok t ∧
    ∃ t', s'.set? k = .ok t' ∧ t'.xa = t.xa ∧ t'.rows = (t.rows.take j).drop i ∧ t'.series = t.series ∧
      ∀ m, t'.xoff + m = t.xoff + (i + m) := by
  simp only [Store.step, Store.pureOp, Store.sliceOp, ht] at h
  simp only [Except.ok.injEq, Prod.mk.injEq] at h
  obtain ⟨hs, hk⟩ := h
  have hsid := set?_ok ht
  have hlt := (List.getElem?_eq_some_iff.mp hsid).1
  refine ⟨hk.symm, by rw [← hs], by rw [← hs], ?_, ?_⟩
  · rw [← hs]; simp [Store.set?, List.getElem?_append_left hlt, hsid]
  · refine ⟨⟨(t.rows.take j).drop i, t.xa, (t.ridxs.take j).drop i, t.basis, t.ph, t.xoff + min i t.rows.length,
      t.series, t.pkg⟩, ?_, rfl, rfl, rfl, fun m => ?_⟩
    · rw [← hs, ← hk]; simp [Store.set?]
    · simp only [Nat.min_eq_left hi]; omega

/-! ## `reset_chemicals`: re-indexing a reaction onto another property package -/

/-- **reset_preserves_action** (value level).  `σ` sends a flattened index of the old package to the new one,
`τ` back; they are partial inverses of each other (true of two packages without repeated chemicals).  If
`reset_chemicals` succeeds, then for a stream over the NEW package: re-indexing its flows onto the old package,
reacting with the old reaction and re-indexing back (what calling the reaction did before) gives exactly what the
re-indexed reaction gives directly (what it does afterwards). -/
theorem reset_preserves_action (σ τ : Nat → Option Nat) (hinv : ∀ j k, σ j = some k ↔ τ k = some j)
    (a r' : RVal α) (lenB : Nat) (nB m : List α)
    (hτlt : ∀ k j, τ k = some j → j < a.v.length) (hnB : nB.length = lenB)
    (h : a.reindex σ τ lenB = .ok r')
    (hv : applyVia σ τ a.v.length (react a.v a.ridx a.x) nB = .ok m) :
    m = react r'.v r'.ridx r'.x nB := by
  unfold RVal.reindex at h
  split at h; · exact absurd h (by simp)
  split at h; · exact absurd h (by simp)
  rename_i kr hkr
  have := Except.ok.inj h; subst this
  unfold applyVia at hv
  split at hv; · exact absurd hv (by simp)
  rename_i hmiss
  split at hv; · exact absurd hv (by simp)
  have := Except.ok.inj hv; subst this
  have hmiss' : missing τ nB = false := by simpa using hmiss
  have hr_lt : a.ridx < a.v.length := hτlt kr a.ridx ((hinv _ _).mp hkr)
  have hlA : a.v.length = (gatherV σ a.v.length nB).length := by rw [gatherV_length]
  apply ext_getD
  · simp [gatherV_length, react, hnB]
  · intro t
    simp only []
    rw [react_getD _ _ _ _ (by simp [gatherV_length, hnB]) t, gatherV_getD, gatherV_getD]
    by_cases ht : t < nB.length
    · simp only [ht, if_true, hnB ▸ ht]
      cases hτ : τ t with
      | none =>
        simp only []
        have hz : nB.getD t 0 = 0 := by
          by_contra hne
          obtain ⟨j, hj⟩ := missing_false τ nB hmiss' t hne
          rw [hτ] at hj; exact absurd hj (by simp)
        rw [hz]; ring
      | some j =>
        simp only []
        have hσj : σ j = some t := (hinv j t).mpr hτ
        have hj : j < a.v.length := hτlt t j hτ
        rw [react_getD _ _ _ _ hlA j, gatherV_getD, gatherV_getD]
        simp only [hj, hr_lt, if_true, hσj, hkr]
    · have ht' : nB.length ≤ t := Nat.not_lt.mp ht
      simp only [ht, if_false, hnB ▸ ht]
      rw [getD_of_ge nB t ht']; ring

/-- `reset_chemicals` there and back restores the reaction -/
theorem reindex_roundtrip (σ τ : Nat → Option Nat) (hinv : ∀ j k, σ j = some k ↔ τ k = some j)
    (a r' : RVal α) (lenB : Nat) (hσlt : ∀ j k, σ j = some k → k < lenB)
    (h : a.reindex σ τ lenB = .ok r') :
    r'.reindex τ σ a.v.length = .ok a := by
  unfold RVal.reindex at h
  split at h; · exact absurd h (by simp)
  rename_i hmiss
  split at h; · exact absurd h (by simp)
  rename_i kr hkr
  have := Except.ok.inj h; subst this
  have hmiss' : missing σ a.v = false := by simpa using hmiss
  have hback : τ kr = some a.ridx := (hinv _ _).mp hkr
  have hnomiss : missing τ (gatherV τ lenB a.v) = false := by
    simp only [missing, List.any_eq_false, List.mem_range, Bool.and_eq_true, decide_eq_true_eq,
      Option.isNone_iff_eq_none, not_and, gatherV_length]
    intro t ht hne hτ
    rw [gatherV_getD] at hne
    simp [ht, hτ] at hne
  unfold RVal.reindex
  simp only [hnomiss, Bool.false_eq_true, if_false, hback]
  congr 1
  apply RVal.ext <;> simp only []
  apply ext_getD
  · simp [gatherV_length]
  · intro j
    rw [gatherV_getD]
    by_cases hj : j < a.v.length
    · simp only [hj, if_true]
      cases hσ : σ j with
      | none =>
        simp only []
        by_contra hne
        obtain ⟨k, hk⟩ := missing_false σ a.v hmiss' j (Ne.symm hne)
        rw [hσ] at hk; exact absurd hk (by simp)
      | some k =>
        simp only []
        rw [gatherV_getD]
        simp [hσlt j k hσ, (hinv j k).mp hσ]
    · simp only [hj, if_false]
      exact (getD_of_ge a.v j (Nat.not_lt.mp hj)).symm

/-- `reset_chemicals` at store level: it is an in-place operation on its own object only — no existing array is
modified (a new one is bound), X arrays and all other objects are untouched, and the object keeps its conversion,
basis and phases while its package becomes `p`. -/
theorem reset_frame (s s' : Store α) (a p k : Nat) (h : s.step (.reset a p) = .ok (s', k)) :
    k = a ∧ s.arrs <+: s'.arrs ∧ s'.xarrs = s.xarrs ∧ (∀ id, id ≠ a → s'.objs[id]? = s.objs[id]?) ∧
    ∃ ra ra', s.rxn? a = .ok ra ∧ s'.rxn? a = .ok ra' ∧ ra'.x = ra.x ∧ ra'.basis = ra.basis ∧ ra'.ph = ra.ph ∧
      ra'.pkg = p := by
  simp only [Store.step, Store.pureOp, Store.resetOp] at h
  split at h
  · rename_i ra hra
    have halt := (List.getElem?_eq_some_iff.mp hra).1
    split at h; · simp at h
    split at h
    · rename_i hp
      simp only [Except.ok.injEq, Prod.mk.injEq] at h
      obtain ⟨rfl, rfl⟩ := h
      exact ⟨rfl, List.prefix_refl _, rfl, fun _ _ => rfl, ra, ra, rxn?_of_getElem? hra, rxn?_of_getElem? hra,
        rfl, rfl, rfl, hp⟩
    · split at h; · simp at h
      split at h; · simp at h
      rename_i r hr
      simp only [Except.ok.injEq, Prod.mk.injEq] at h
      obtain ⟨rfl, rfl⟩ := h
      refine ⟨rfl, List.prefix_append _ _, rfl, fun id hid => by simp [List.getElem?_set_ne (Ne.symm hid)],
        ra, { ra with nu := s.arrs.length, ridx := r.ridx, pkg := p }, rxn?_of_getElem? hra,
        rxn?_of_getElem? (by simp [halt]), rfl, rfl, rfl, rfl⟩
  · simp at h

/-- **reset_step_preserves_action** (`_partial`: molar basis, stream over the new package; the two index maps
between the packages are assumed to be partial inverses of each other, which holds for packages without repeated
chemicals — see the sample check below).  What calling the reaction on a stream of package `p` gave before
`reset_chemicals(p)` (through re-indexing the flows there and back) is what it gives afterwards (directly). -/
theorem reset_step_preserves_action (s s' : Store α) (a p k : Nat) (ra : Rxn α) (n m : List α)
    (hra : s.rxn? a = .ok ra) (hne : ra.pkg ≠ p) (hmol : ra.basis = .mol)
    (hinv : ∀ j t, flatMap (s.idsOf ra.pkg) (s.idsOf p) j = some t ↔ flatMap (s.idsOf p) (s.idsOf ra.pkg) t = some j)
    (hτlt : ∀ t j, flatMap (s.idsOf p) (s.idsOf ra.pkg) t = some j → j < (s.val ra).v.length)
    (hlen : (s.val ra).v.length = nrows ra.ph * (s.idsOf ra.pkg).length)
    (hn : n.length = nrows ra.ph * (s.idsOf p).length)
    (h : s.step (.reset a p) = .ok (s', k))
    (hbefore : s.applyStrPkg a p n = .ok m) :
    s'.applyStrPkg a p n = .ok m := by
  have hobj := rxn?_ok hra
  have halt := (List.getElem?_eq_some_iff.mp hobj).1
  have hmol' : (s.val ra).basis = .mol := hmol
  have happ : ∀ (mwf : List α) (f : List α → List α), applyStream mwf Basis.mol f = f := fun _ _ => by
    funext n; rfl
  simp only [Store.applyStrPkg, hobj, hne, if_false, hmol', happ] at hbefore
  simp only [Store.step, Store.pureOp, Store.resetOp, hobj] at h
  split at h; · simp at h
  rename_i x0 hx0
  simp only [hne, if_false] at h
  split at h; · simp at h
  split at h; · simp at h
  rename_i r' hr'
  simp only [Except.ok.injEq, Prod.mk.injEq] at h
  obtain ⟨rfl, rfl⟩ := h
  rw [← hlen] at hbefore
  have key := reset_preserves_action _ _ hinv (s.val ra) r' _ n m hτlt hn hr' hbefore
  have hfields : r'.x = (s.val ra).x ∧ r'.basis = .mol ∧ r'.ph = ra.ph := by
    unfold RVal.reindex at hr'
    split at hr'; · exact absurd hr' (by simp)
    split at hr'; · exact absurd hr' (by simp)
    have := Except.ok.inj hr'; subst this
    exact ⟨rfl, hmol, rfl⟩
  simp only [Store.applyStrPkg, List.getElem?_set_self halt, if_true, Store.val, Store.arr, Store.getX, hx0,
    hmol, happ]
  rw [key]
  congr 1
  have : (s.arrs ++ [r'.v]).getD s.arrs.length [] = r'.v := by simp [List.getD]
  rw [this, hfields.1]
  simp [Store.val, Store.getX, hx0]

/-- The full clause, kept as a statement: for every basis and for streams of EITHER package, calling the
reaction gives the same before and after `reset_chemicals`, with the inverse property of the index maps derived
from the packages having no repeated chemical.  Proved above: the value-level core for both directions
(`reset_preserves_action`, and through `reindex_roundtrip` the direction "stream of the old package"), and the
store-level molar case for the new package.  Not proved: the `wt` case (needs equal molecular weights of a
chemical in both packages) and the derivation of the inverse property from `List.Nodup`. -/
def reset_preserves_action_statement (α : Type) [Field α] [LinearOrder α] : Prop :=
  ∀ (s s' : Store α) (a p q k : Nat) (ra : Rxn α) (n m : List α),
    s.WF → s.rxn? a = .ok ra → (s.idsOf ra.pkg).Nodup → (s.idsOf p).Nodup → (q = p ∨ q = ra.pkg) →
    s.step (.reset a p) = .ok (s', k) → s.applyStrPkg a q n = .ok m → s'.applyStrPkg a q n = .ok m

/-! ## Non-vacuity: concrete rational instances meet the hypotheses (evaluated by the kernel; these are
tests of satisfiability on samples, not part of the proofs above) -/

section Examples

/-- Glucose + O2 → Ethanol + CO2 and Glucose + O2 → Water + CO2 over (Water, Ethanol, Glucose, CO2, O2) -/
def exA : RVal ℚ := ⟨[0, 1, -1, 1, -1], 2, 1/2, .mol, 0⟩
def exB : RVal ℚ := ⟨[1, 0, -1, 1, -1], 2, 1/4, .mol, 0⟩
def exFeed : List ℚ := [1, 2, 4, 8, 16]

def okVal (r : Except Err (RVal ℚ)) (f : RVal ℚ → Bool) : Bool :=
  match r with | .ok c => f c | .error _ => false

/-- the hypotheses of `add_is_parallel` hold for `exA`, `exB`, `exFeed`, the sum exists, and it is a third
reaction (0.667 Ethanol + 0.333 Water, X = 3/4) that changes the feed -/
example :
    (decide (exB.basis = exA.basis) && decide (exA.ph = exB.ph) && decide (exA.ridx = exB.ridx)
      && decide (exA.v.length = exFeed.length) && decide (exB.v.length = exFeed.length)
      && decide (exA.v.getD exA.ridx 0 = -1) && decide (exB.v.getD exB.ridx 0 = -1)
      && decide (exA.x + exB.x ≠ 0) && exB.hasReaction
      && okVal (exA.addSub [] false (some exB)) (fun c =>
          decide (c.v = [1/3, 2/3, -1, 1, -1]) && decide (c.x = 3/4)
          && decide (react c.v c.ridx c.x exFeed = [2, 4, 1, 11, 13]))) = true := by decide +kernel

/-- `(a + b) - b` exists for these operands (hypotheses of `sub_cancels`: `X_a ≠ 0`, `X_a + X_b ≠ 0`) -/
example :
    okVal (exA.addSub [] false (some exB)) (fun c =>
      decide (c.v ≠ exA.v) && okVal (c.addSub [] true (some exB)) (fun d => decide (d.v = exA.v) && decide (d.x = exA.x)))
      = true := by decide +kernel

/-- a reachable store with two reactions, the set built from them, an item of the set, the sum, and an
in-place sum on the item -/
def exStore : Store ℚ := Store.run { nchem := 5, mw := [18, 46, 180, 44, 32] }
  [.new 0 .mol 2 (1/2) [0, 2, -2, 2, -2], .new 0 .mol 2 (1/4) [1, 0, -1, 1, -1], .mkSet false [0, 1], .item 2 1,
   .add 0 (some 1), .iadd 3 (some 0), .copy 0 .wt]

example : exStore.WF := reachable_wf 5 _ _

/-- the store really contains what the theorems talk about: 6 objects; object 3 is an item reading cell 1 of
X array 0, still referring to the set's row array (id 3) after `+=`; object 4 is the sum with its own array; `makesFresh` and
`inPlace = false` operations succeed on it -/
example :
    (decide (exStore.objs.length = 6)
      && (match exStore.objs[3]? with
          | some (Obj.rxn r) => (match r.x with | .shared xa i => xa == 0 && i == 1 | .own _ => false) && decide (3 ≤ r.nu)
          | _ => false)
      && decide (cell exStore 0 1 = 3/4)
      && (match exStore.step (.sub 4 (some 1)) with | .ok (_, k) => k == 6 | .error _ => false)
      && (match exStore.step (.reduce 2 [2]) with | .ok (_, k) => k == 6 | .error _ => false)
      && (match exStore.step (.backwards 1 (some 0) none) with | .ok (_, k) => k == 6 | .error _ => false)
      && (match exStore.step (.setX 3 (1/8)) with | .ok (_, k) => k == 3 | .error _ => false)) = true := by decide +kernel

/-- sets, slices, copies, series sets and another package: a reachable store in which object 2 is a series set
of two reactions, 3 its slice `[1:2]`, 4 an item of the slice (reading cell 1 of X array 0), 5 a `wt` copy of the
set (own arrays: ids 4, 5, X array 1; the set itself holds copies 2, 3 of its members' arrays 0, 1); reaction 0 is then re-indexed onto package 1 = (chemicals 2, 0, 4, 9) -/
def exStore2 : Store ℚ := Store.run { nchem := 5, mw := [18, 46, 180, 44, 32], alts := [⟨[2, 0, 4, 9], [180, 18, 32, 28]⟩] }
  [.new 0 .mol 2 (1/2) [1, 0, -1, 0, -1], .new 0 .mol 2 (1/4) [1, 0, -1, 1, -1], .mkSet true [0, 1], .slice 2 1 2,
   .item 3 0, .setCopy 2 .wt, .setX 4 (1/8)]

example : exStore2.WF := reachable_wf_alts 5 _ _ _

example :
    (decide (exStore2.objs.length = 6)
      && (match exStore2.objs[3]? with
          | some (Obj.set t) => t.series && t.xa == 0 && t.xoff == 1 && decide (t.rows = [3])
          | _ => false)
      && (match exStore2.objs[4]? with
          | some (Obj.rxn r) => (match r.x with | .shared xa i => xa == 0 && i == 1 | .own _ => false)
          | _ => false)
      && (match exStore2.objs[5]? with
          | some (Obj.set t) => t.xa == 1 && decide (t.rows = [4, 5]) && decide (t.basis = .wt)
          | _ => false)
      -- the item write is read by the set and by its slice, not by the copy
      && decide (cell exStore2 0 1 = 1/8) && decide (cell exStore2 1 1 = 1/4)
      -- `reset_chemicals` to package 1: same products on a stream of package 1 before (through re-indexing) and after
      && (match exStore2.step (.reset 0 1) with
          | .ok (s', _) =>
            (match exStore2.applyStrPkg 0 1 [8, 1, 4, 0], s'.applyStrPkg 0 1 [8, 1, 4, 0] with
             | .ok m, .ok m' => decide (m = m') && decide (m = [4, 5, 0, 0])
             | _, _ => false)
          | .error _ => false)
      -- `set.X = [1/16, 1/32]` on the series set: its slice and the slice's item (cell 1) read 1/32
      && (match exStore2.step (.setSetXAll 2 [1/16, 1/32]) with
          | .ok (s', k) => k == 2 && decide (cell s' 0 0 = 1/16) && decide (cell s' 0 1 = 1/32)
              && (match s'.valOf 4 with | .ok v => decide (v.x = 1/32) | .error _ => false)
          | .error _ => false)
      -- reaction 1 produces chemical 3, which package 1 lacks
      && (match exStore2.step (.reset 1 1) with | .error .undefinedChemical => true | _ => false)) = true := by
  decide +kernel

/-- do a fresh `set[i]` and an existing object act differently on a feed? -/
def itemsDisagree (s : Store ℚ) (sid i k : Nat) (n : List ℚ) : Bool :=
  match s.step (.item sid i) with
  | .ok (s', k') =>
    (match s'.applyArr k' n, s.applyArr k n with
     | .ok u, .ok w => decide (u ≠ w)
     | _, _ => false)
  | .error _ => false

/-- the store `exStore` as the code BEFORE repair C17-7 would have produced it: the same history with the as-found
in-place sum (`Store.iaddSubOpAsFound`) at the step `item 3 += reaction 0` -/
def exStoreAsFound : Store ℚ :=
  let s0 : Store ℚ := Store.run { nchem := 5, mw := [18, 46, 180, 44, 32] }
    [.new 0 .mol 2 (1/2) [0, 2, -2, 2, -2], .new 0 .mol 2 (1/4) [1, 0, -1, 1, -1], .mkSet false [0, 1], .item 2 1,
     .add 0 (some 1)]
  match s0.iaddSubOpAsFound false 3 (some 0) with
  | .ok (s1, _) => s1
  | .error _ => s0

/-- **The repaired behaviour on the sample, and the counterexample for the code as found.**  After
`item += reaction` (object 3 = `set 2 [1]` in `exStore`) a fresh `set[1]` acts exactly like the changed item: the
in-place sum wrote the set's row (repair C17-7, `Store.assign`).  With the as-found operation (new array bound to the
item, conversion written to the set's cell) the two disagree: the set's row was stale — the defect
`iadd:set-row-stale` that C17-7 repairs. -/
theorem iadd_item_keeps_set_row_sample :
    exStore.WF ∧ itemsDisagree exStore 2 1 3 exFeed = false ∧ itemsDisagree exStoreAsFound 2 1 3 exFeed = true :=
  ⟨reachable_wf 5 _ _, by decide +kernel, by decide +kernel⟩

end Examples

end ThermoVerif.Props.C17
