import ThermoVerif.Lemmas.C09StoreAux
-- Only statements of the property live in this file.  Helper lemmas and the auxiliary vocabulary they need are in
-- Lemmas/C09StoreAux.lean (same namespace); clauses without a theorem are listed at the end of Props/C09.lean.
/-
Property C09, object layer: the representation invariant is preserved by every operation of the
protocol and therefore by every history; in-place operations change only their target.
-/
namespace ThermoVerif.Props.C09
open ThermoVerif.Sparse ThermoVerif.Dense

/-! ### general facts about `mapM` in `Except` / `Option` -/

/-! ### the invariant of vector objects and of the store -/

/-! ### the arithmetic and comparison kernels keep the invariant -/

theorem arithSparse_wf (op : Arith) (ip : Bool) (a b c : SV) (ha : a.WF) (hb : b.WF)
    (h : SV.arithSparse op ip a b = .ok c) : c.WF := by
  cases op <;> simp only [SV.arithSparse] at h
  · exact (addSparse_ok false a b c ha hb h).1
  · exact (addSparse_ok true a b c ha hb h).1
  · exact (mulSparse_ok a b c ha hb h).1
  · exact (divSparse_ok ip a b c ha hb h).1

theorem arithArray_wf (op : Arith) (a c : SV) (l : Vec) (ha : a.WF) (h : SV.arithArray op a l = .ok c) : c.WF := by
  cases op <;> simp only [SV.arithArray] at h
  · exact (addArray_ok false a c l ha h).1
  · exact (addArray_ok true a c l ha h).1
  · exact (mulArray_ok a c l ha h).1
  · exact (divArray_ok a c l ha h).1

theorem arithScalar_wf (op : Arith) (a c : SV) (x : Rat) (ha : a.WF) (h : SV.arithScalar op a x = .ok c) : c.WF := by
  cases op <;> simp only [SV.arithScalar, Except.ok.injEq] at h
  · subst h; exact (addScalar_ok a x ha).1
  · subst h; exact (addScalar_ok a (-x) ha).1
  · subst h; exact (mulScalar_ok a x ha).1
  · exact (divScalar_ok a c x ha h).1

theorem sv_opSparse_wf (op : BinOp) (a b : SV) (r : VecObj) (ha : a.WF) (hb : b.WF)
    (h : SV.opSparse op a b = .ok r) : VecWF r := by
  unfold SV.opSparse at h
  split at h
  · rename_i ar _
    cases hk : SV.arithSparse ar false a b with
    | error e => rw [hk] at h; cases h
    | ok v =>
      rw [hk] at h
      simp only [Except.map, Except.ok.injEq] at h; subst h
      exact sv_copy_wf (arithSparse_wf ar false a b v ha hb hk)
  · rename_i _ c _ _
    cases hk : SV.cmpSparse c a b with
    | error e => rw [hk] at h; cases h
    | ok v =>
      rw [hk] at h
      simp only [Except.map, Except.ok.injEq] at h; subst h
      exact (cmpSparse_ok c a b v hk).1
  · cases h

theorem sv_opScalar_wf (op : BinOp) (a : SV) (x : Rat) (r : VecObj) (ha : a.WF)
    (h : SV.opScalar op a x = .ok r) : VecWF r := by
  unfold SV.opScalar at h
  split at h
  · rename_i ar _
    cases hk : SV.arithScalar ar a x with
    | error e => rw [hk] at h; cases h
    | ok v =>
      rw [hk] at h
      simp only [Except.map, Except.ok.injEq] at h; subst h
      exact sv_copy_wf (arithScalar_wf ar a v x ha hk)
  · rename_i _ c _ _
    simp only [Except.ok.injEq] at h; subst h
    exact (cmpScalar_ok c a x).1
  · cases h

theorem sv_opArray_wf (op : BinOp) (a : SV) (l : Vec) (r : VecObj) (ha : a.WF)
    (h : SV.opArray op a l = .ok r) : VecWF r := by
  unfold SV.opArray at h
  split at h
  · rename_i ar _
    cases hk : SV.arithArray ar a l with
    | error e => rw [hk] at h; cases h
    | ok v =>
      rw [hk] at h
      simp only [Except.map, Except.ok.injEq] at h; subst h
      exact sv_copy_wf (arithArray_wf ar a v l ha hk)
  · rename_i _ c _ _
    cases hk : SV.cmpArray c a l with
    | error e => rw [hk] at h; cases h
    | ok v =>
      rw [hk] at h
      simp only [Except.map, Except.ok.injEq] at h; subst h
      exact (cmpArray_ok c a l v hk).1
  · cases h

theorem except_map_ok {ε α β : Type} {x : Except ε α} {f : α → β} {r : β} (h : x.map f = .ok r) :
    ∃ v, x = .ok v ∧ r = f v := by
  cases x with
  | error e => cases h
  | ok v => simp only [Except.map, Except.ok.injEq] at h; exact ⟨v, rfl, h.symm⟩

theorem except_bind_ok {ε α β : Type} {x : Except ε α} {f : α → Except ε β} {r : β} (h : x.bind f = .ok r) :
    ∃ v, x = .ok v ∧ f v = .ok r := by
  cases x with
  | error e => cases h
  | ok v => exact ⟨v, rfl, h⟩

/-! ### class dispatch of the kernels -/

theorem vec_opSparse_wf (op : BinOp) (x y r : VecObj) (hx : VecWF x) (hy : VecWF y)
    (h : x.opSparse op y = .ok r) : VecWF r := by
  unfold VecObj.opSparse at h
  split at h
  · rename_i a b
    split at h
    · obtain ⟨v, hv, e⟩ := except_map_ok h; subst e; exact slv_cmpSparse_wf _ hv
    · obtain ⟨v, hv, e⟩ := except_map_ok h; subst e; exact slv_iopSparse_wf _ (slv_copy_wf hx) hv
    · exact sv_opSparse_wf op _ _ r (slv_toSV_wf hx) (slv_toSV_wf hy) h
  · exact sv_opSparse_wf op _ _ r (vec_toSV_wf hx) (vec_toSV_wf hy) h

theorem vec_opScalar_wf (op : BinOp) (x r : VecObj) (q : Rat) (b : Bool) (hx : VecWF x)
    (h : x.opScalar op q b = .ok r) : VecWF r := by
  unfold VecObj.opScalar at h
  split at h
  · exact sv_opScalar_wf op _ q r hx h
  · rename_i a
    split at h
    · simp only [Except.ok.injEq] at h; subst h; exact slv_cmpScalar_wf _ _ _
    · split at h
      · obtain ⟨v, hv, e⟩ := except_map_ok h; subst e; exact slv_iopScalar_wf _ _ (slv_copy_wf hx) hv
      · exact sv_opScalar_wf op _ q r (slv_toSV_wf hx) h
    · exact sv_opScalar_wf op _ q r (slv_toSV_wf hx) h

theorem vec_opArray_wf (op : BinOp) (x r : VecObj) (l : Vec) (b : Bool) (hx : VecWF x)
    (h : x.opArray op l b = .ok r) : VecWF r := by
  unfold VecObj.opArray at h
  split at h
  · exact sv_opArray_wf op _ l r hx h
  · rename_i a
    split at h
    · obtain ⟨v, hv, e⟩ := except_map_ok h; subst e; exact slv_cmpArray_wf _ _ hv
    · split at h
      · obtain ⟨v, hv, e⟩ := except_map_ok h; subst e; exact slv_iopArray_wf _ _ (slv_copy_wf hx) hv
      · exact sv_opArray_wf op _ l r (slv_toSV_wf hx) h
    · split at h
      · exact sv_opScalar_wf op _ _ r (slv_toSV_wf hx) h
      · exact sv_opArray_wf op _ l r (slv_toSV_wf hx) h

theorem vec_iopSparse_wf (op : BinOp) (x y r : VecObj) (hx : VecWF x) (hy : VecWF y)
    (h : x.iopSparse op y = .ok r) : VecWF r := by
  unfold VecObj.iopSparse at h
  split at h
  · split at h
    · obtain ⟨v, hv, e⟩ := except_map_ok h; subst e
      exact arithSparse_wf _ true _ _ v hx (vec_toSV_wf hy) hv
    · cases h
  · split at h
    · obtain ⟨v, hv, e⟩ := except_map_ok h; subst e
      exact slv_iopSparse_wf _ hx hv
    · cases h

theorem vec_iopScalar_wf (op : BinOp) (x r : VecObj) (q : Rat) (hx : VecWF x)
    (h : x.iopScalar op q = .ok r) : VecWF r := by
  unfold VecObj.iopScalar at h
  split at h
  · split at h
    · obtain ⟨v, hv, e⟩ := except_map_ok h; subst e
      exact arithScalar_wf _ _ v q hx hv
    · cases h
  · split at h
    · obtain ⟨v, hv, e⟩ := except_map_ok h; subst e
      exact slv_iopScalar_wf _ _ hx hv
    · cases h

theorem vec_iopArray_wf (op : BinOp) (x r : VecObj) (l : Vec) (hx : VecWF x)
    (h : x.iopArray op l = .ok r) : VecWF r := by
  unfold VecObj.iopArray at h
  split at h
  · split at h
    · obtain ⟨v, hv, e⟩ := except_map_ok h; subst e
      exact arithArray_wf _ _ v l hx hv
    · cases h
  · split at h
    · obtain ⟨v, hv, e⟩ := except_map_ok h; subst e
      exact slv_iopArray_wf _ _ hx hv
    · cases h

/-- same class after an in-place kernel: a float vector stays float, a logical one logical -/
theorem vec_iop_isBool (op : BinOp) (x y r : VecObj) (h : x.iopSparse op y = .ok r) : r.isBool = x.isBool := by
  unfold VecObj.iopSparse at h
  split at h
  · split at h
    · obtain ⟨v, _, e⟩ := except_map_ok h; subst e; rfl
    · cases h
  · split at h
    · obtain ⟨v, _, e⟩ := except_map_ok h; subst e; rfl
    · cases h

theorem binVecCore_wf (s : Store) (hs : StoreWF s) (op : BinOp) (me : VecObj) (b : Operand) (r : VRes)
    (hself' : VecWF me) (h : binVecCore s op me b = .ok r) : VResWF r := by
  unfold binVecCore at h
  split at h
  · cases h
  · split at h
    · rename_i j
      split at h
      · rename_i v hj
        obtain ⟨w, hw, e⟩ := except_map_ok h; subst e
        exact vec_opSparse_wf op _ _ w hself' (show VecWF (VecObj.sv v) from hs j _ hj) hw
      · rename_i v hj
        obtain ⟨w, hw, e⟩ := except_map_ok h; subst e
        exact vec_opSparse_wf op _ _ w hself' (show VecWF (VecObj.slv v) from hs j _ hj) hw
      · rename_i rows hj
        split at h
        · rename_i rs hrs
          obtain ⟨l, hl, e⟩ := except_map_ok h; subst e
          intro v hv
          obtain ⟨x, hx, hfx⟩ := except_mapM_mem _ _ _ hl v hv
          exact vec_opSparse_wf op _ _ v (coerce_wf _ _ _ _ hself') (coerce_wf _ _ _ _ (rowsVec_wf hs hrs x hx)) hfx
        · cases h
      · cases h
    · rename_i l
      split at h
      · obtain ⟨w, hw, e⟩ := except_map_ok h; subst e
        exact vec_opScalar_wf op _ w _ _ hself' hw
      · obtain ⟨w, hw, e⟩ := except_map_ok h; subst e
        exact vec_opArray_wf op _ w _ _ hself' hw
      · obtain ⟨l', hl, e⟩ := except_map_ok h; subst e
        intro v hv
        obtain ⟨x, _, hfx⟩ := except_mapM_mem _ _ _ hl v hv
        exact vec_opArray_wf op _ v _ _ hself' hfx
      · cases h

theorem binVec_wf (s : Store) (hs : StoreWF s) (op : BinOp) (self : VecObj) (b : Operand) (r : VRes)
    (hself : VecWF self) (h : binVec s op self b = .ok r) : VResWF r :=
  binVecCore_wf s hs op _ b r (subOverride_wf self op hself) h

theorem ibinVec_wf (s : Store) (hs : StoreWF s) (op : BinOp) (self : VecObj) (b : Operand) (r : VecObj)
    (hself : VecWF self) (h : ibinVec s op self b = .ok r) : VecWF r := by
  unfold ibinVec at h
  split at h
  · cases h
  · split at h
    · cases h
    · split at h
      · cases h
      · split at h
        · rename_i j
          split at h
          · rename_i v hj; exact vec_iopSparse_wf op _ _ r hself (show VecWF (VecObj.sv v) from hs j _ hj) h
          · rename_i v hj; exact vec_iopSparse_wf op _ _ r hself (show VecWF (VecObj.slv v) from hs j _ hj) h
          · rename_i rr hj
            split at h
            · rename_i v hv; exact vec_iopSparse_wf op _ _ r hself (getVec_wf hs hv) h
            · cases h
          · cases h
          · cases h
        · rename_i l
          split at h
          · exact vec_iopScalar_wf op _ r _ hself h
          · exact vec_iopArray_wf op _ r _ hself h
          · cases h

/-! ### the store: allocation and update keep the invariant -/

/-! ### the precondition that excludes the known "size is not strict" deviations -/

/-- An operation is *safe* when it does not use one of the pinned liberties of the code: an index at
or beyond the size, a value longer than the target of `x[:] = …`, inlets larger than the receiver, a
declared size smaller than the data.  (Everything else — including shape mismatches, read-only
targets, division by zero, length-1 broadcasting in place — is inside the theorem.) -/
def OpSafe (s : Store) : Op → Prop
  | .newSV l size => ∀ n, size = some n → l.data.length ≤ n
  | .newDict items size => ∀ p ∈ items, p.1 < size
  | .set a idx val =>
    (∀ v, s.getVec a = some v → ∀ i, idx = .one i →
      idxInRange v.size i ∧ (i.isOpen = true → ∀ x, setVal s val = some x → x.len ≤ v.size)) ∧
    (∀ rows, s[a]? = some (.sa rows) → ∀ rid ∈ rows, ∀ r, s.getVec rid = some r →
      (∀ m n, idx = .two m n → idxInRange r.size n) ∧ (∀ v, saVal s val = some v → v.maxLen ≤ r.size))
  | .mixFrom a others =>
    ∀ v, s.getVec a = some v → ∀ o ∈ others, ∀ w, s.asSV o = some w → w.size ≤ v.size
  | .copyLike a b => ∀ v w, s.getVec a = some v → s.getSV b = some w → w.size ≤ v.size
  | _ => True

theorem okRes_wf {s s' : Store} {r : Res} (hs : StoreWF s) (x : Except Err VRes) (hx : ∀ v, x = .ok v → VResWF v)
    (h : okRes s x = .ok (s', r)) : StoreWF s' := by
  unfold okRes at h
  obtain ⟨v, hv, e⟩ := except_map_ok h
  simp only [Prod.mk.injEq] at e
  rw [e.1]
  exact allocRes_wf hs v (hx v hv)

theorem rbinVec_wf (s s' : Store) (hs : StoreWF s) (op : BinOp) (b : Lit) (v : VecObj) (r : Res) (hv : VecWF v)
    (h : rbinVec s op b v = .ok (s', r)) : StoreWF s' := by
  unfold rbinVec at h
  have key : ∀ (op' : BinOp) (w : VecObj), VecWF w → ∀ x, binVec s op' w (.lit b) = .ok x → VResWF x :=
    fun op' w hw x hx => binVec_wf s hs op' w _ x hw hx
  split at h
  all_goals first
    | exact okRes_wf hs _ (key _ _ hv) h
    | skip
  · -- sub: `-self + other`
    apply okRes_wf hs _ _ h
    apply key
    cases v with
    | sv a => exact (neg_ok a hv).1
    | slv a => exact slv_neg_wf hv
  · -- truediv
    dsimp only at h
    repeat' split at h
    all_goals first
      | (cases h <;> done)
      | (obtain ⟨w, hw, e⟩ := except_map_ok h
         simp only [Prod.mk.injEq] at e
         rw [e.1]
         exact storeWF_alloc_vec hs (.sv w) (sv_rdivScalar_wf _ hv hw))
      | exact okObj_wf h (storeWF_alloc_sv hs _ (sv_ofList_wf _ none (by intro n hn; cases hn)))
      | exact okObj_wf h (storeWF_alloc_slv hs _ (slv_copy_wf hv))
      | exact okObj_wf h (storeWF_alloc_slv hs _ (slv_nil_wf _))
      | (simp only [Except.ok.injEq, Prod.mk.injEq] at h; rw [← h.1]; exact hs)

/-- every operation on a vector object keeps the invariant of the whole store -/
theorem stepVec_wf (s s' : Store) (a : Nat) (v : VecObj) (op : Op) (r : Res) (hs : StoreWF s)
    (hv : s.getVec a = some v) (hop : step.opTarget op = some a) (hsafe : OpSafe s op)
    (h : stepVec s a v op = .ok (s', r)) : StoreWF s' := by
  have hvw : VecWF v := getVec_wf hs hv
  unfold stepVec at h
  split at h
  · -- copyCtor
    cases v with
    | sv x => exact okObj_wf h (storeWF_alloc_sv hs _ (sv_copy_wf hvw))
    | slv x => exact okObj_wf h (storeWF_alloc_slv hs _ (slv_copy_wf hvw))
  · exact okRes_wf hs _ (fun w hw => binVec_wf s hs _ v _ w hvw hw) h
  · exact rbinVec_wf s s' hs _ _ v r hvw h
  · -- ibin
    obtain ⟨w, hw, e⟩ := except_map_ok h
    simp only [Prod.mk.injEq] at e
    rw [e.1]
    exact storeWF_set_vec hs a w (ibinVec_wf s hs _ v _ w hvw hw)
  · cases v with
    | sv x => exact okObj_wf h (storeWF_alloc_sv hs _ (neg_ok x hvw).1)
    | slv x => exact okObj_wf h (storeWF_alloc_sv hs _ (slv_neg_wf hvw))
  · cases v with
    | sv x => exact okObj_wf h (storeWF_alloc_sv hs _ (abs_ok x hvw).1)
    | slv x => exact okObj_wf h (storeWF_alloc_slv hs _ (slv_copy_wf hvw))
  · cases v with
    | sv x => cases h
    | slv x => exact okObj_wf h (storeWF_alloc_slv hs _ (slv_invert_wf x))
  · cases h
  · -- get
    dsimp only at h
    split at h <;> (simp only [Except.ok.injEq, Prod.mk.injEq] at h; rw [← h.1]; exact hs)
  · -- set
    rename_i a' idx val
    simp only [step.opTarget, Option.some.injEq] at hop
    subst hop
    split at h
    · cases h
    · split at h
      · cases h
      · rename_i i
        have hsafe' := hsafe.1 v hv i rfl
        split at h
        · cases h
        · rename_i x hx
          dsimp only at h
          cases v with
          | sv t =>
            obtain ⟨w, hw, e⟩ := except_map_ok h
            simp only [Prod.mk.injEq] at e
            rw [e.1]
            refine storeWF_set_vec hs a' (.sv w) (sv_setItem_wf hvw i x _ hsafe'.1 (fun ho => hsafe'.2 ho x hx) ?_ hw)
            intro b hb; subst hb; exact setVal_sv_wf hs hx
          | slv t =>
            obtain ⟨w, hw, e⟩ := except_map_ok h
            simp only [Prod.mk.injEq] at e
            rw [e.1]
            refine storeWF_set_vec hs a' (.slv w) (slv_setItem_wf hvw i x _ _ hsafe'.1 ?_ hw)
            intro hopen
            have hlen := hsafe'.2 hopen x hx
            refine ⟨?_, hlen⟩
            intro ks hks
            cases val with
            | lit l => simp at hks
            | ref j =>
              simp only at hks
              split at hks
              · rename_i o ho
                split at hks
                · cases hks
                · rename_i hne
                  simp only [Option.some.injEq] at hks; subst hks
                  have := getVec_size_of_setVal hs hx j rfl o ho hne
                  exact ⟨this.1, fun i hi => lt_of_lt_of_le (this.2 i hi) hlen⟩
              · cases hks
  · -- reduce
    split at h
    · cases h
    · dsimp only at h
      have hnum : ∀ (kd : Bool) (x : Rat) (s'' : Store) (r'' : Res),
          (if kd = true then okObj (s.alloc (.sv (SV.keep x))) else Except.ok (s, Res.num x)) = .ok (s'', r'') → StoreWF s'' := by
        intro kd x s'' r'' hh
        split at hh
        · exact okObj_wf hh (storeWF_alloc_sv hs _ (sv_keep_wf x))
        · simp only [Except.ok.injEq, Prod.mk.injEq] at hh; rw [← hh.1]; exact hs
      have hbool : ∀ (kd : Bool) (b : Bool) (s'' : Store) (r'' : Res),
          (if kd = true then okObj (s.alloc (.slv (SLV.keep b))) else Except.ok (s, numOfBool b)) = .ok (s'', r'') → StoreWF s'' := by
        intro kd b s'' r'' hh
        split at hh
        · exact okObj_wf hh (storeWF_alloc_slv hs _ (slv_keep_wf b))
        · simp only [Except.ok.injEq, Prod.mk.injEq] at hh; rw [← hh.1]; exact hs
      split at h
      all_goals first
        | exact hnum _ _ _ _ h
        | exact hbool _ _ _ _ h
        | (obtain ⟨m, _, hm⟩ := except_bind_ok h; exact hnum _ _ _ _ hm)
  · -- copy
    cases v with
    | sv x => exact okObj_wf h (storeWF_alloc_sv hs _ (sv_copy_wf hvw))
    | slv x => exact okObj_wf h (storeWF_alloc_slv hs _ (slv_copy_wf hvw))
  · -- toArray
    split at h
    · simp only [Except.ok.injEq, Prod.mk.injEq] at h; rw [← h.1]; exact hs
    · cases h
  · -- clear
    split at h
    · split at h
      · cases h
      · simp only [Except.ok.injEq, Prod.mk.injEq] at h; rw [← h.1]
        exact storeWF_set_vec hs a (.sv _) (sv_clear_wf _)
    · cases h
  · -- removeNegatives
    split at h
    · split at h
      · cases h
      · simp only [Except.ok.injEq, Prod.mk.injEq] at h; rw [← h.1]
        exact storeWF_set_vec hs a (.sv _) (sv_removeNegatives_wf hvw)
    · simp only [Except.ok.injEq, Prod.mk.injEq] at h; rw [← h.1]; exact hs
  · split at h <;> (simp only [Except.ok.injEq, Prod.mk.injEq] at h; rw [← h.1]; exact hs)
  · split at h <;> (simp only [Except.ok.injEq, Prod.mk.injEq] at h; rw [← h.1]; exact hs)
  · split at h <;> (simp only [Except.ok.injEq, Prod.mk.injEq] at h; rw [← h.1]; exact hs)
  · split at h
    · simp only [Except.ok.injEq, Prod.mk.injEq] at h; rw [← h.1]; exact hs
    · cases h
  · split at h <;> (simp only [Except.ok.injEq, Prod.mk.injEq] at h; rw [← h.1]; exact hs)
  · -- setflags
    split at h
    · simp only [Except.ok.injEq, Prod.mk.injEq] at h; rw [← h.1]
      exact storeWF_set_vec hs a (.sv _) hvw
    · cases h
  · -- setRO
    split at h
    · simp only [Except.ok.injEq, Prod.mk.injEq] at h; rw [← h.1]
      exact storeWF_set_vec hs a (.sv _) hvw
    · cases h
  · -- mixFrom
    rename_i a' others
    simp only [step.opTarget, Option.some.injEq] at hop
    subst hop
    split at h
    · rename_i x
      split at h
      · cases h
      · split at h
        · rename_i os hos
          simp only [Except.ok.injEq, Prod.mk.injEq] at h; rw [← h.1]
          refine storeWF_set_vec hs a' (.sv _) (sv_mixFrom_wf hvw os _ ?_)
          intro o ho
          obtain ⟨j, hj, hjo⟩ := option_mapM_mem _ _ _ hos o ho
          exact ⟨asSV_wf hs hjo, hsafe _ hv j (List.mem_filter.mp hj).1 o hjo⟩
        · cases h
    · cases h
  · -- sumOf
    split at h <;> (simp only [Except.ok.injEq, Prod.mk.injEq] at h; rw [← h.1]; exact hs)
  · -- copyLike
    rename_i a' b
    simp only [step.opTarget, Option.some.injEq] at hop
    subst hop
    split at h
    · rename_i t
      split at h
      · cases h
      · split at h
        · rename_i w hw
          simp only [Except.ok.injEq, Prod.mk.injEq] at h; rw [← h.1]
          have hww := getSV_wf hs hw
          have hle := hsafe _ w hv hw
          exact storeWF_set_vec hs a' (.sv _) (Dct.wf_mono hww hle)
        · cases h
    · cases h
  · -- sparseEqual
    dsimp only at h
    split at h
    · simp only [Except.ok.injEq, Prod.mk.injEq] at h; rw [← h.1]; exact hs
    · cases h
  · cases h

/-! ### SparseArray templates -/

theorem foldlM_inv {α σ ε : Type} (P : σ → Prop) (f : σ → α → Except ε σ) (l : List α)
    (hf : ∀ s a s', a ∈ l → P s → f s a = .ok s' → P s') :
    ∀ s s', P s → l.foldlM f s = .ok s' → P s' := by
  induction l with
  | nil => intro s s' hp h; simp only [List.foldlM_nil, pure, Except.pure, Except.ok.injEq] at h; subst h; exact hp
  | cons a rest ih =>
    intro s s' hp h
    rw [List.foldlM_cons] at h
    obtain ⟨s1, h1, h2⟩ := except_bind_ok h
    exact ih (fun s a s' ha => hf s a s' (List.mem_cons_of_mem _ ha)) s1 s' (hf s a s1 List.mem_cons_self hp h1) h2

theorem binSA_wf (s : Store) (hs : StoreWF s) (op : BinOp) (rows : List VecObj) (b : Operand) (r : VRes)
    (hrows : ∀ v ∈ rows, VecWF v) (h : binSA s op rows b = .ok r) : VResWF r := by
  unfold binSA at h
  dsimp only at h
  have hco : ∀ sb ob, ∀ v ∈ rows.map (fun r => coerce sb ob r true), VecWF v := by
    intro sb ob v hv
    obtain ⟨x, hx, e⟩ := List.mem_map.mp hv
    subst e; exact coerce_wf _ _ _ _ (hrows x hx)
  split at h
  · rename_i j
    split at h
    · split at h
      · rename_i ors hors
        have hco2 : ∀ sb ob, ∀ v ∈ ors.map (fun r => coerce sb ob r false), VecWF v := by
          intro sb ob v hv
          obtain ⟨x, hx, e⟩ := List.mem_map.mp hv
          subst e; exact coerce_wf _ _ _ _ (rowsVec_wf hs hors x hx)
        obtain ⟨l, hl, e⟩ := except_map_ok h; subst e
        intro v hv
        obtain ⟨x, hx, hfx⟩ := except_mapM_mem _ _ _ hl v hv
        have := pairRows_mem _ _ x hx
        exact vec_opSparse_wf op _ _ v (hco _ _ x.1 this.1) (hco2 _ _ x.2 this.2) hfx
      · cases h
    · split at h
      · rename_i ov hov
        obtain ⟨l, hl, e⟩ := except_map_ok h; subst e
        intro v hv
        obtain ⟨x, hx, hfx⟩ := except_mapM_mem _ _ _ hl v hv
        exact vec_opSparse_wf op _ _ v (hco _ _ x hx) (coerce_wf _ _ _ _ (getVec_wf hs hov)) hfx
      · cases h
  · rename_i l
    split at h
    · obtain ⟨l', hl, e⟩ := except_map_ok h; subst e
      intro v hv
      obtain ⟨x, hx, hfx⟩ := except_mapM_mem _ _ _ hl v hv
      exact vec_opScalar_wf op _ v _ _ (hrows x hx) hfx
    · obtain ⟨l', hl, e⟩ := except_map_ok h; subst e
      intro v hv
      obtain ⟨x, hx, hfx⟩ := except_mapM_mem _ _ _ hl v hv
      exact vec_opArray_wf op _ v _ _ (hrows x hx) hfx
    · obtain ⟨l', hl, e⟩ := except_map_ok h; subst e
      intro v hv
      obtain ⟨x, hx, hfx⟩ := except_mapM_mem _ _ _ hl v hv
      unfold zipTrunc at hx
      exact vec_opArray_wf op _ v _ _ (hrows x.1 (List.of_mem_zip hx).1) hfx
    · cases h

theorem updRow_wf {s s' : Store} (hs : StoreWF s) (rid : Nat) (f : VecObj → Except Err VecObj)
    (hf : ∀ r r', VecWF r → f r = .ok r' → VecWF r') (h : updRow s rid f = .ok s') : StoreWF s' := by
  unfold updRow at h
  split at h
  · rename_i r hr
    obtain ⟨r', hr', e⟩ := except_map_ok h
    subst e
    exact storeWF_set_vec hs rid r' (hf r r' (getVec_wf hs hr) hr')
  · cases h

/-- the in-place operators of a SparseArray keep the invariant of the whole store -/
theorem ibinSA_wf (s s' : Store) (hs : StoreWF s) (op : BinOp) (rowIds : List Nat) (b : Operand)
    (h : ibinSA s op rowIds b = .ok s') : StoreWF s' := by
  unfold ibinSA at h
  split at h
  · cases h
  · split at h
    · cases h
    · split at h
      · cases h
      · dsimp only at h
        have hconv : ∀ (c : Bool) (v : VecObj), VecWF v → VecWF (if c = true then VecObj.sv v.toSV else v) := by
          intro c v hv; split
          · exact vec_toSV_wf hv
          · exact hv
        split at h
        · rename_i j
          split at h
          · split at h
            · cases h
            · split at h
              · split at h
                · rename_i ov hov
                  have hovw := getVec_wf hs hov
                  exact foldlM_inv StoreWF _ rowIds (fun t rid t' _ ht htt =>
                    updRow_wf ht rid _ (fun r r' hr hrr => vec_iopSparse_wf op _ _ r' hr (hconv _ _ hovw) hrr) htt) s s' hs h
                · cases h
              · refine foldlM_inv StoreWF _ _ (fun t p t' _ ht htt => ?_) s s' hs h
                split at htt
                · rename_i ov hov
                  exact updRow_wf ht p.1 _ (fun r r' hr hrr => vec_iopSparse_wf op _ _ r' hr (hconv _ _ (getVec_wf ht hov)) hrr) htt
                · cases htt
          · split at h
            · cases h
            · split at h
              · rename_i ov hov
                have hovw := getVec_wf hs hov
                exact foldlM_inv StoreWF _ rowIds (fun t rid t' _ ht htt =>
                  updRow_wf ht rid _ (fun r r' hr hrr => vec_iopSparse_wf op _ _ r' hr (hconv _ _ hovw) hrr) htt) s s' hs h
              · cases h
        · rename_i l
          split at h
          · exact foldlM_inv StoreWF _ rowIds (fun t rid t' _ ht htt =>
              updRow_wf ht rid _ (fun r r' hr hrr => vec_iopScalar_wf op _ r' _ hr hrr) htt) s s' hs h
          · exact foldlM_inv StoreWF _ rowIds (fun t rid t' _ ht htt =>
              updRow_wf ht rid _ (fun r r' hr hrr => vec_iopArray_wf op _ r' _ hr hrr) htt) s s' hs h
          · exact foldlM_inv StoreWF _ _ (fun t p t' _ ht htt =>
              updRow_wf ht p.1 _ (fun r r' hr hrr => vec_iopArray_wf op _ r' _ hr hrr) htt) s s' hs h
          · cases h

/-! ### reductions of a SparseArray -/

def RResWF : RRes → Prop
  | .num _ => True
  | .vec v => VecWF v
  | .rows l => ∀ v ∈ l, VecWF v

macro "rres_close" : tactic =>
  `(tactic| first
    | trivial
    | exact singleton_wf (keepB_wf _)
    | exact singleton_wf (keepN_wf _)
    | exact singleton_wf (sv_tab_wf _ _)
    | exact singleton_wf (ofPred_wf _ _)
    | exact singleton_wf (unionKeys_wf _ _)
    | exact singleton_wf (slv_nil_wf _)
    | exact keepB_wf _
    | exact keepN_wf _
    | exact sv_tab_wf _ _
    | exact ofPred_wf _ _
    | exact unionKeys_wf _ _
    | exact slv_nil_wf _
    | exact map_keep_wf _ _ (fun _ => keepB_wf _)
    | exact map_keep_wf _ _ (fun _ => keepN_wf _)
    | exact map_keep_wf _ _ keepN_wf)

theorem reduceSA_wf (r : Red) (rows : List VecObj) (axis : Option Nat) (kd : Bool) (x : RRes)
    (h : reduceSA r rows axis kd = .ok x) : RResWF x := by
  unfold reduceSA at h
  dsimp only at h
  split at h
  all_goals first
    | (cases h <;> done)
    | (simp only [Except.ok.injEq] at h; subst h; (try split) <;> rres_close)
    | skip
  · -- all, axis 0
    simp only [Except.ok.injEq] at h; subst h
    split <;> (split <;> first | exact singleton_wf (slv_nil_wf _) | exact singleton_wf (ofPred_wf _ _) | exact slv_nil_wf _ | exact ofPred_wf _ _)
  · -- mean, no axis
    split at h
    · cases h
    · simp only [Except.ok.injEq] at h; subst h; split <;> rres_close
  · -- mean, axis 0
    split at h
    · cases h
    · rename_i hne
      have hlen : ((rows.length : Nat) : Rat) ≠ 0 := by
        have : rows.length ≠ 0 := by
          intro hc; apply hne; simp [List.length_eq_zero_iff.mp hc]
        exact_mod_cast this
      have hw : VecWF (.sv ⟨vectorSize rows, Dct.mapVals (fun x => x / (rows.length : Rat))
          (Dct.tabulate (vectorSize rows) fun i => List.foldl (fun x1 x2 => x1 + x2) 0 (List.map (fun x => x.get i) rows)), false⟩) :=
        Dct.wf_mapVals (Dct.wf_tabulate _ _) _ (fun y hy => div_ne_zero hy hlen)
      simp only [Except.ok.injEq] at h; subst h
      split
      · exact singleton_wf hw
      · exact hw
  · -- max, no axis
    split at h
    · cases h
    · split at h
      · cases h
      · simp only [Except.ok.injEq] at h; subst h; split <;> rres_close
  · -- min, no axis
    split at h
    · cases h
    · split at h
      · cases h
      · simp only [Except.ok.injEq] at h; subst h; split <;> rres_close
  · -- max, axis 1
    split at h
    · cases h
    · rename_i l hl
      simp only [Except.ok.injEq] at h; subst h
      split
      · exact map_keep_wf _ _ keepN_wf
      · exact sv_ofList_len_wf _ _ (except_mapM_length _ _ _ hl)
  · -- min, axis 1
    split at h
    · cases h
    · rename_i l hl
      simp only [Except.ok.injEq] at h; subst h
      split
      · exact map_keep_wf _ _ keepN_wf
      · exact sv_ofList_len_wf _ _ (except_mapM_length _ _ _ hl)

/-! ### `sa[...] = value` keeps the invariant -/

/-- one row assignment: invariant kept, sizes kept -/
theorem setRow_wf {t t' : Store} (ht : StoreWF t) (rid : Nat) (i : Idx) (x : SV.Val) (ks : Option (List Nat))
    (hsafe : ∀ r, t.getVec rid = some r → idxInRange r.size i ∧ x.len ≤ r.size ∧
      (∀ k, ks = some k → k.Nodup ∧ ∀ j ∈ k, j < r.size))
    (hb : ∀ b, x = .sv b → b.WF) (h : setRow t rid i x ks = .ok t') : StoreWF t' ∧ SameSizes t t' := by
  unfold setRow at h
  split at h
  · rename_i a ha
    obtain ⟨c, hc, e⟩ := except_map_ok h; subst e
    have hs := hsafe _ ha
    have hcw : c.WF := sv_setItem_wf (getVec_wf ht ha) i x false hs.1 (fun _ => hs.2.1) hb hc
    refine ⟨storeWF_set_vec ht rid (.sv c) hcw, ?_⟩
    intro j
    by_cases e : j = rid
    · subst e
      have := getVec_set_self (t := t) j (.sv c) (by rw [ha]; rfl)
      simp only [VecObj.toObj] at this
      rw [this, ha]
      simp [VecObj.size, (sv_setItem_size i x false hc).1]
    · rw [getVec_set_other rid j _ e]
  · rename_i a ha
    obtain ⟨c, hc, e⟩ := except_map_ok h; subst e
    have hs := hsafe _ ha
    have hcw : SLVWF c := slv_setItem_wf (getVec_wf ht ha) i x false ks hs.1 (fun _ => ⟨hs.2.2, hs.2.1⟩) hc
    refine ⟨storeWF_set_vec ht rid (.slv c) hcw, ?_⟩
    intro j
    by_cases e : j = rid
    · subst e
      have := getVec_set_self (t := t) j (.slv c) (by rw [ha]; rfl)
      simp only [VecObj.toObj] at this
      rw [this, ha]
      simp [VecObj.size, slv_setItem_size i x false ks hc]
    · rw [getVec_set_other rid j _ e]
  · cases h

/-- the invariant of the loops of `setSA`: store well formed, sizes as in the initial store -/
def SetInv (s t : Store) : Prop := StoreWF t ∧ SameSizes s t

theorem setRow_inv {s t t' : Store} (hinv : SetInv s t) (rid : Nat) (i : Idx) (w : SAVal)
    (hw : piecesWF w) (hok : RowOK s i w rid) (h : setRow t rid i w.rowVal.1 w.rowVal.2 = .ok t') : SetInv s t' := by
  have key := setRow_wf hinv.1 rid i w.rowVal.1 w.rowVal.2 (by
    intro r hr
    -- the row has the same size in `s`
    have hsz := hinv.2 rid
    rw [hr] at hsz
    cases hs : s.getVec rid with
    | none => rw [hs] at hsz; cases hsz
    | some r0 =>
      rw [hs] at hsz
      simp only [Option.map, Option.some.injEq] at hsz
      have := hok r0 hs
      have hf := rowVal_fits w r0.size hw this.2
      rw [hsz]
      exact ⟨this.1, hf.1, hf.2.2⟩) (rowVal_fits w _ hw (Nat.le_refl _)).2.1 h
  exact ⟨key.1, sameSizes_trans hinv.2 key.2⟩

theorem assignRows_inv {s t t' : Store} (hinv : SetInv s t) (rids : List Nat) (i : Idx) (v : SAVal)
    (hw : piecesWF v) (hok : ∀ rid ∈ rids, RowOK s i v rid) (h : assignRows t rids i v = .ok t') : SetInv s t' := by
  unfold assignRows at h
  exact foldlM_inv (SetInv s) _ rids (fun u rid u' hrid hu huu => setRow_inv hu rid i v hw (hok rid hrid) huu) t t' hinv h

theorem assignZip_inv {s t t' : Store} (hinv : SetInv s t) (rids : List Nat) (i : Idx) (v : SAVal)
    (hw : piecesWF v) (hok : ∀ rid ∈ rids, RowOK s i v rid) (h : assignZip t rids i v = .ok t') : SetInv s t' := by
  unfold assignZip at h
  refine foldlM_inv (SetInv s) _ _ (fun u k u' _ hu huu => ?_) t t' hinv h
  split at huu
  · rename_i rid w hrid hnth
    have hmem : rid ∈ rids := List.mem_of_getElem? hrid
    have hrow : RowOK s i w rid := by
      intro r hr
      have := hok rid hmem r hr
      exact ⟨this.1, (nth_fits v w k r.size hw this.2 hnth).2⟩
    exact setRow_inv hu rid i w (nth_fits v w k _ hw (Nat.le_refl _) hnth).1 hrow huu
  · cases huu

/-- **`sa[...] = value` keeps the invariant of the whole store** when the column index stays inside
the rows and no piece of the value is longer than a row (the same liberties as for vectors) -/
theorem setSA_wf (s s' : Store) (rowIds : List Nat) (i : Idx2) (val : Operand) (hs : StoreWF s)
    (hvalid : ∀ r ∈ rowIds, (s.getVec r).isSome)
    (hsafe : ∀ rid ∈ rowIds, ∀ r, s.getVec rid = some r →
      (∀ m n, i = .two m n → idxInRange r.size n) ∧ (∀ v, saVal s val = some v → v.maxLen ≤ r.size))
    (h : setSA s rowIds i val = .ok s') : StoreWF s' := by
  unfold setSA at h
  split at h
  · cases h
  · split at h
    · cases h
    · rename_i v hv
      have hw : piecesWF v := saVal_piecesWF hs hv
      have hinv : SetInv s s := ⟨hs, sameSizes_refl s⟩
      -- every row may be assigned as a whole, at the column index, and at any listed column
      have hopen : ∀ rid ∈ rowIds, RowOK s (.slice none none none) v rid :=
        fun rid hrid r hr => ⟨idxInRange_open _, (hsafe rid hrid r hr).2 v hv⟩
      have hcol : ∀ m n, i = .two m n → ∀ rid ∈ rowIds, RowOK s n v rid :=
        fun m n e rid hrid r hr => ⟨(hsafe rid hrid r hr).1 m n e, (hsafe rid hrid r hr).2 v hv⟩
      have hsub : ∀ (sel : List Nat), ∀ x ∈ sel.filterMap (rowIds[·]?), x ∈ rowIds := filterMap_get_sub rowIds
      have hone : ∀ (k rid : Nat), rowIds[k]? = some rid → ∀ x ∈ [rid], x ∈ rowIds := by
        intro k rid hk x hx; rw [List.mem_singleton.mp hx]; exact List.mem_of_getElem? hk
      dsimp only at h
      have fin : ∀ t, SetInv s t → StoreWF t := fun t ht => ht.1
      have hmem1 : ∀ (k rid : Nat), rowIds[k]? = some rid → rid ∈ rowIds := fun k rid hk => List.mem_of_getElem? hk
      repeat' (first | split at h | dsimp only at h)
      all_goals first
        | (cases h <;> done)
        | exact fin _ (assignRows_inv hinv _ _ v hw (fun rid hrid => hopen rid (hsub _ rid hrid)) h)
        | exact fin _ (assignZip_inv hinv _ _ v hw (fun rid hrid => hopen rid (hsub _ rid hrid)) h)
        | exact fin _ (assignRows_inv hinv _ _ v hw (fun rid hrid => hcol _ _ rfl rid (hsub _ rid hrid)) h)
        | exact fin _ (assignZip_inv hinv _ _ v hw (fun rid hrid => hcol _ _ rfl rid (hsub _ rid hrid)) h)
        | exact fin _ (assignRows_inv hinv _ _ v hw (fun rid hrid => by
            rw [List.mem_singleton.mp hrid]; exact hopen _ (hmem1 _ _ (by assumption))) h)
        | exact fin _ (assignRows_inv hinv _ _ v hw (fun rid hrid => by
            rw [List.mem_singleton.mp hrid]; exact hcol _ _ rfl _ (hmem1 _ _ (by assumption))) h)
        | skip
      · -- `sa[[rows], [cols]] = number`
        refine fin _ (foldlM_inv (SetInv s) _ _ (fun u p u' hp hu huu => ?_) s s' hinv h)
        have hz := List.of_mem_zip hp
        refine assignRows_inv hu [p.1] (.int p.2) v hw (fun rid hrid => ?_) huu
        rw [List.mem_singleton.mp hrid]
        exact rowOK_int_of_fancy (hcol _ _ rfl p.1 (hsub _ p.1 hz.1)) hz.2
      · -- `sa[[rows], [cols]] = [values]`
        refine fin _ (foldlM_inv (SetInv s) _ _ (fun u k u' _ hu huu => ?_) s s' hinv h)
        split at huu
        · rename_i rid j w hrid hj hnth
          have hmem : rid ∈ rowIds := hsub _ rid (List.mem_of_getElem? hrid)
          have hjm := List.mem_of_getElem? hj
          have hrow : RowOK s (.int j) w rid := by
            intro r hr
            have := rowOK_int_of_fancy (hcol _ _ rfl rid hmem) hjm r hr
            exact ⟨this.1, (nth_fits v w k r.size hw this.2 hnth).2⟩
          refine assignRows_inv hu [rid] (.int j) w (nth_fits v w k _ hw (Nat.le_refl _) hnth).1 (fun x hx => ?_) huu
          rw [List.mem_singleton.mp hx]; exact hrow
        · simp only [Except.ok.injEq] at huu; subst huu; exact hu

/-! ### operations whose target is a SparseArray -/

theorem getSA_share_sub (s : Store) (rowIds : List Nat) (i : Idx2) (ids : List Nat)
    (h : getSA s rowIds i = .ok (.share ids)) : ∀ r ∈ ids, r ∈ rowIds := by
  unfold getSA at h
  dsimp only at h
  repeat' split at h
  all_goals first
    | (cases h <;> done)
    | (simp only [Except.ok.injEq, SAGet.share.injEq] at h; subst h; exact filterMap_get_sub _ _)
    | (obtain ⟨sel, _, e⟩ := except_map_ok h
       simp only [SAGet.share.injEq] at e; subst e; exact filterMap_get_sub _ _)
    | (simp only [Except.ok.injEq] at h; cases h)

theorem stepSA_wf (s s' : Store) (a : Nat) (rowIds : List Nat) (rows : List VecObj) (op : Op) (r : Res)
    (hs : StoreWF s) (ha : s[a]? = some (.sa rowIds)) (hrows : s.rowsVec rowIds = some rows)
    (hop : step.opTarget op = some a) (hsafe : OpSafe s op)
    (h : stepSA s a rowIds rows op = .ok (s', r)) : StoreWF s' := by
  have hrw : ∀ v ∈ rows, VecWF v := rowsVec_wf hs hrows
  have hneg : ∀ v ∈ rows.map (fun r => match r with | .sv x => VecObj.sv x.neg | .slv x => VecObj.sv x.neg), VecWF v := by
    intro v hv
    obtain ⟨x, hx, e⟩ := List.mem_map.mp hv
    subst e
    cases x with
    | sv y => exact (neg_ok y (hrw _ hx)).1
    | slv y => exact slv_neg_wf (hrw _ hx)
  unfold stepSA at h
  split at h
  · exact okRes_wf hs _ (fun w hw => binSA_wf s hs _ rows _ w hrw hw) h
  · -- ibin
    obtain ⟨t, ht, e⟩ := except_map_ok h
    simp only [Prod.mk.injEq] at e
    rw [e.1]; exact ibinSA_wf s t hs _ rowIds _ ht
  · -- rbin
    split at h
    all_goals first
      | exact okRes_wf hs _ (fun w hw => binSA_wf s hs _ rows _ w hrw hw) h
      | skip
    · exact okRes_wf hs _ (fun w hw => binSA_wf s hs _ _ _ w hneg hw) h
    · split at h
      · dsimp only at h
        obtain ⟨l, hl, hk⟩ := except_bind_ok h
        refine okRes_wf hs _ ?_ hk
        intro w hw
        simp only [Except.ok.injEq] at hw; subst hw
        intro v hv
        obtain ⟨x, hx, hfx⟩ := except_mapM_mem _ _ _ hl v hv
        cases x with
        | sv y =>
          obtain ⟨c, hc, e⟩ := except_map_ok hfx
          subst e
          exact sv_rdivScalar_wf _ (hrw _ hx) hc
        | slv y => cases hfx
      · repeat' split at h
        all_goals first
          | (cases h <;> done)
          | (simp only [Except.ok.injEq, Prod.mk.injEq] at h; rw [← h.1]; exact hs)
  · -- neg
    exact okRes_wf hs _ (fun w hw => by simp only [Except.ok.injEq] at hw; subst hw; exact hneg) h
  · -- abs
    refine okRes_wf hs _ (fun w hw => ?_) h
    simp only [Except.ok.injEq] at hw; subst hw
    intro v hv
    obtain ⟨x, hx, e⟩ := List.mem_map.mp hv
    subst e
    cases x with
    | sv y => exact (abs_ok y (hrw _ hx)).1
    | slv y => exact slv_copy_wf (hrw _ hx)
  · -- invert
    split at h
    · refine okRes_wf hs _ (fun w hw => ?_) h
      simp only [Except.ok.injEq] at hw; subst hw
      intro v hv
      obtain ⟨x, hx, e⟩ := List.mem_map.mp hv
      subst e
      cases x with
      | sv y => exact hrw _ hx
      | slv y => exact slv_invert_wf y
    · cases h
  · -- get
    split at h
    · cases h
    · simp only [Except.ok.injEq, Prod.mk.injEq] at h; rw [← h.1]; exact hs
    · simp only [Except.ok.injEq, Prod.mk.injEq] at h; rw [← h.1]; exact hs
    · rename_i ids hget
      refine okObj_wf h (storeWF_alloc hs _ ?_)
      intro rid hrid
      exact getVec_append _ (sa_rows_valid hs ha rid (getSA_share_sub s rowIds _ ids hget rid hrid))
    · simp only [Except.ok.injEq, Prod.mk.injEq] at h; rw [← h.1]; exact hs
    · simp only [Except.ok.injEq, Prod.mk.injEq] at h; rw [← h.1]; exact hs
    · simp only [Except.ok.injEq, Prod.mk.injEq] at h; rw [← h.1]; exact hs
  · -- set: excluded by the precondition
    rename_i a' i v
    simp only [step.opTarget, Option.some.injEq] at hop
    subst hop
    obtain ⟨t, ht, e⟩ := except_map_ok h
    simp only [Prod.mk.injEq] at e
    rw [e.1]
    exact setSA_wf s t rowIds i v hs (sa_rows_valid hs ha) (hsafe.2 rowIds ha) ht
  · -- reduce
    obtain ⟨x, hx, e⟩ := except_map_ok h
    have hxw := reduceSA_wf _ _ _ _ x hx
    cases x with
    | num q => simp only [allocRRes, Prod.mk.injEq] at e; rw [e.1]; exact hs
    | vec v => simp only [allocRRes, Prod.mk.injEq] at e; rw [e.1]; exact storeWF_alloc_vec hs v hxw
    | rows l => simp only [allocRRes, Prod.mk.injEq] at e; rw [e.1]; exact allocRes_wf hs (.rows l) hxw
  · -- copy
    refine okRes_wf hs _ (fun w hw => ?_) h
    simp only [Except.ok.injEq] at hw; subst hw
    intro v hv
    obtain ⟨x, hx, e⟩ := List.mem_map.mp hv
    subst e
    cases x with
    | sv y => exact sv_copy_wf (hrw _ hx)
    | slv y => exact slv_copy_wf (hrw _ hx)
  · split at h
    · simp only [Except.ok.injEq, Prod.mk.injEq] at h; rw [← h.1]; exact hs
    · cases h
  · -- clear
    split at h
    · cases h
    · simp only [Except.ok.injEq, Prod.mk.injEq] at h; rw [← h.1]
      apply foldl_set_inv StoreWF _ rowIds _ s hs
      intro t rid ht
      split
      · exact storeWF_set_vec ht rid (.sv _) (sv_clear_wf _)
      · exact storeWF_set_vec ht rid (.slv _) (slv_nil_wf _)
      · exact ht
  · -- removeNegatives
    split at h
    · cases h
    · simp only [Except.ok.injEq, Prod.mk.injEq] at h; rw [← h.1]
      apply foldl_set_inv StoreWF _ rowIds _ s hs
      intro t rid ht
      split
      · rename_i v hv
        exact storeWF_set_vec ht rid (.sv _) (sv_removeNegatives_wf (getVec_wf ht hv))
      · exact ht
  · simp only [Except.ok.injEq, Prod.mk.injEq] at h; rw [← h.1]; exact hs
  · simp only [Except.ok.injEq, Prod.mk.injEq] at h; rw [← h.1]; exact hs
  · simp only [Except.ok.injEq, Prod.mk.injEq] at h; rw [← h.1]; exact hs
  · -- setflags
    split at h
    · simp only [Except.ok.injEq, Prod.mk.injEq] at h; rw [← h.1]
      apply foldl_set_inv StoreWF _ rowIds _ s hs
      intro t rid ht
      split
      · rename_i v hv
        have hvw : VecWF (.sv v) := getVec_wf ht hv
        exact storeWF_set_vec ht rid (.sv _) (show VecWF (.sv { v with readOnly := true }) from hvw)
      · exact ht
    · cases h
  · cases h

/-! ### every operation, every history -/

/-- **WF is preserved by every modelled operation**, `sa[...] = value` included (the only exclusions
are in `OpSafe`: the pinned "size is not strict" liberties) -/
theorem step_wf (s s' : Store) (op : Op) (r : Res) (hs : StoreWF s) (hsafe : OpSafe s op)
    (h : step s op = .ok (s', r)) : StoreWF s' := by
  unfold step at h
  split at h
  · -- new
    rename_i l
    split at h
    · split at h
      · exact okObj_wf h (storeWF_alloc_slv hs _ (slv_ofList_wf _))
      · exact okObj_wf h (storeWF_alloc_sv hs _ (sv_ofList_wf _ none (by intro n hn; cases hn)))
    · dsimp only at h
      refine okRes_wf hs _ (fun w hw => ?_) h
      simp only [Except.ok.injEq] at hw; subst hw
      intro v hv
      obtain ⟨x, _, e⟩ := List.mem_map.mp hv
      subst e
      split
      · exact slv_ofList_wf _
      · exact sv_ofList_wf _ none (by intro n hn; cases hn)
    · cases h
  · -- newSV
    split at h
    · exact okObj_wf h (storeWF_alloc_sv hs _ (sv_ofList_wf _ _ hsafe))
    · cases h
  · -- newDict
    exact okObj_wf h (storeWF_alloc_sv hs _ (newDict_wf _ _ hsafe [] (Dct.wf_nil _)))
  · exact okObj_wf h (storeWF_alloc_sv hs _ (Dct.wf_nil _))
  · -- newSA
    rename_i rows
    split at h
    · rename_i hall
      refine okObj_wf h (storeWF_alloc hs _ ?_)
      intro rid hrid
      exact getVec_append _ (by simpa using (List.all_eq_true.mp hall) rid hrid)
    · cases h
  · -- dispatch on the class of the target
    split at h
    · cases h
    · rename_i a hta
      split at h
      · rename_i v hv
        exact stepVec_wf s s' a (.sv v) op r hs (by unfold Store.getVec; rw [hv]) hta hsafe h
      · rename_i v hv
        exact stepVec_wf s s' a (.slv v) op r hs (by unfold Store.getVec; rw [hv]) hta hsafe h
      · rename_i rowIds hv
        split at h
        · rename_i rows hrows
          exact stepSA_wf s s' a rowIds rows op r hs hv hrows hta hsafe h
        · cases h
      · cases h

/-- running a history on the model: an operation that raises leaves the store as it was -/
def runOps : Store → List Op → Store
  | s, [] => s
  | s, op :: rest =>
    match step s op with
    | .ok (s', _) => runOps s' rest
    | .error _ => runOps s rest

/-- every operation of the history is safe in the state in which it is applied -/
def SafeHistory : Store → List Op → Prop
  | _, [] => True
  | s, op :: rest =>
    OpSafe s op ∧ SafeHistory (match step s op with | .ok (s', _) => s' | .error _ => s) rest

/-- **WF after any history**: induction over the operation list, no length bound -/
theorem wf_history (ops : List Op) : ∀ s, StoreWF s → SafeHistory s ops → StoreWF (runOps s ops) := by
  induction ops with
  | nil => intro s hs _; exact hs
  | cons op rest ih =>
    intro s hs hsafe
    unfold runOps
    unfold SafeHistory at hsafe
    cases hstep : step s op with
    | error e =>
      rw [hstep] at hsafe
      exact ih s hs hsafe.2
    | ok p =>
      obtain ⟨s', r⟩ := p
      rw [hstep] at hsafe
      exact ih s' (step_wf s s' op r hs hsafe.1 hstep) hsafe.2

theorem storeWF_empty : StoreWF [] := by
  intro i o h; simp at h

/-- from the empty store: after any safe history every object satisfies the representation invariant -/
theorem wf_history_from_empty (ops : List Op) (h : SafeHistory [] ops) : StoreWF (runOps [] ops) :=
  wf_history ops [] storeWF_empty h

/-! ### frame: who may change

In-place operators change only their target (a vector object) or the rows of their target (an
array); this includes the aliased forms `a op= a` and `sa op= sa[k]`, where the operand is read
before the target is written.  Operators that are not in place only allocate. -/

/-- `v op= b` on a vector object: every other object is untouched, nothing is allocated -/
theorem inplace_frame_vec (s s' : Store) (op : BinOp) (a : Nat) (b : Operand) (r : Res) (v : VecObj)
    (hv : s.getVec a = some v) (h : step s (.ibin op a b) = .ok (s', r)) :
    s'.length = s.length ∧ (∀ i, i ≠ a → s'[i]? = s[i]?) ∧ r = .obj a := by
  unfold step at h
  simp only [step.opTarget] at h
  unfold Store.getVec at hv
  split at hv
  · rename_i x hx
    rw [hx] at h
    simp only [stepVec] at h
    obtain ⟨w, _, e⟩ := except_map_ok h
    simp only [Prod.mk.injEq] at e
    rw [e.1, e.2]
    exact ⟨List.length_set, fun i hi => getElem?_set_ne _ hi, rfl⟩
  · rename_i x hx
    rw [hx] at h
    simp only [stepVec] at h
    obtain ⟨w, _, e⟩ := except_map_ok h
    simp only [Prod.mk.injEq] at e
    rw [e.1, e.2]
    exact ⟨List.length_set, fun i hi => getElem?_set_ne _ hi, rfl⟩
  · cases hv

theorem updRow_frame {s s' : Store} (rid : Nat) (f : VecObj → Except Err VecObj) (h : updRow s rid f = .ok s') :
    s'.length = s.length ∧ ∀ i, i ≠ rid → s'[i]? = s[i]? := by
  unfold updRow at h
  split at h
  · obtain ⟨r', _, e⟩ := except_map_ok h
    subst e
    exact ⟨List.length_set, fun i hi => getElem?_set_ne _ hi⟩
  · cases h

theorem ibinSA_frame (s s' : Store) (op : BinOp) (rowIds : List Nat) (b : Operand)
    (h : ibinSA s op rowIds b = .ok s') : SameOutside rowIds s s' := by
  unfold ibinSA at h
  have key : ∀ (g : Store → Nat → Except Err Store), (∀ t rid t', g t rid = .ok t' → t'.length = t.length ∧ ∀ i, i ≠ rid → t'[i]? = t[i]?) →
      ∀ (l : List Nat), (∀ x ∈ l, x ∈ rowIds) → ∀ t t', SameOutside rowIds s t → l.foldlM g t = .ok t' → SameOutside rowIds s t' := by
    intro g hg l hl t t' ht hfold
    refine foldlM_inv (fun u => SameOutside rowIds s u) g l (fun u rid u' hrid hu huu => ?_) t t' ht hfold
    have := hg u rid u' huu
    refine sameOutside_trans hu ⟨this.1, fun i hi => this.2 i ?_⟩
    intro e; subst e; exact hi (hl _ hrid)
  have key2 : ∀ {β : Type} (g : Store → Nat × β → Except Err Store),
      (∀ t p t', g t p = .ok t' → t'.length = t.length ∧ ∀ i, i ≠ p.1 → t'[i]? = t[i]?) →
      ∀ (l : List (Nat × β)), (∀ x ∈ l, x.1 ∈ rowIds) → ∀ t t', SameOutside rowIds s t → l.foldlM g t = .ok t' → SameOutside rowIds s t' := by
    intro β g hg l hl t t' ht hfold
    refine foldlM_inv (fun u => SameOutside rowIds s u) g l (fun u p u' hp hu huu => ?_) t t' ht hfold
    have := hg u p u' huu
    refine sameOutside_trans hu ⟨this.1, fun i hi => this.2 i ?_⟩
    intro e; subst e; exact hi (hl _ hp)
  have hz : ∀ {β : Type} (m : List β), ∀ x ∈ zipTrunc rowIds m, x.1 ∈ rowIds := by
    intro β m x hx; unfold zipTrunc at hx; exact (List.of_mem_zip hx).1
  repeat' (first | split at h | dsimp only at h)
  all_goals first
    | (cases h <;> done)
    | exact key _ (fun t rid t' htt => updRow_frame rid _ htt) rowIds (fun x hx => hx) s s' (sameOutside_refl _ _) h
    | exact key2 _ (fun t p t' htt => updRow_frame p.1 _ htt) _ (hz _) s s' (sameOutside_refl _ _) h
    | (refine key2 _ (fun t p t' htt => ?_) _ (hz _) s s' (sameOutside_refl _ _) h
       split at htt
       · exact updRow_frame p.1 _ htt
       · cases htt)

/-- `sa op= b`: only the row objects of `sa` may change -/
theorem inplace_frame_sa (s s' : Store) (op : BinOp) (a : Nat) (b : Operand) (r : Res) (rowIds : List Nat)
    (ha : s[a]? = some (.sa rowIds)) (h : step s (.ibin op a b) = .ok (s', r)) :
    SameOutside rowIds s s' ∧ r = .obj a := by
  unfold step at h
  simp only [step.opTarget, ha] at h
  split at h
  · simp only [stepSA] at h
    obtain ⟨t, ht, e⟩ := except_map_ok h
    simp only [Prod.mk.injEq] at e
    rw [e.1, e.2]
    exact ⟨ibinSA_frame s t op rowIds b ht, rfl⟩
  · cases h

/-- a binary operator only allocates its result: both operands (and every other object) are unchanged -/
theorem binary_op_allocates_only (s s' : Store) (op : BinOp) (a : Nat) (b : Operand) (r : Res)
    (h : step s (.bin op a b) = .ok (s', r)) : ∃ t, s' = s ++ t := by
  have key : ∀ (x : Except Err VRes), okRes s x = .ok (s', r) → ∃ t, s' = s ++ t := by
    intro x hx
    unfold okRes at hx
    obtain ⟨v, _, e⟩ := except_map_ok hx
    simp only [Prod.mk.injEq] at e
    rw [e.1]
    cases v with
    | vec w => exact ⟨[w.toObj], rfl⟩
    | rows l =>
      refine ⟨l.map VecObj.toObj ++ [Obj.sa (List.range' s.length l.length)], ?_⟩
      simp only [allocRes, allocRows_spec, Store.alloc, List.append_assoc]
  unfold step at h
  simp only [step.opTarget] at h
  repeat' split at h
  all_goals first
    | (cases h <;> done)
    | (simp only [stepVec] at h; exact key _ h)
    | (simp only [stepSA] at h; exact key _ h)

/-! ### writes to read-only arrays are rejected -/

/-- the operations that write into their target -/
def isWrite : Op → Bool
  | .ibin op _ _ => !op.isCmp && !op.isLogic
  | .set _ _ _ | .clear _ | .removeNegatives _ | .mixFrom _ _ | .copyLike _ _ => true
  | _ => false

/-- a read-only SparseVector rejects every write with the error `readOnly` (and, the step being an
error, nothing changes).  `mix_from`, `copy_like`, `remove_negatives` and the operators of a
SparseArray do so only after the repair of fixes_proposed/C09-5. -/
theorem readonly_rejects_vec (s : Store) (a : Nat) (v : SV) (op : Op) (hv : s[a]? = some (.sv v))
    (hro : v.readOnly = true) (hop : step.opTarget op = some a) (hw : isWrite op = true) :
    step s op = .error .readOnly := by
  cases op <;> simp only [isWrite, Bool.false_eq_true] at hw <;>
    simp only [step.opTarget, Option.some.injEq] at hop <;> subst hop <;>
    simp only [step, step.opTarget, hv, stepVec]
  · -- ibin
    simp only [Bool.and_eq_true, Bool.not_eq_true'] at hw
    simp only [ibinVec, hw.1, hw.2, VecObj.isBool, VecObj.readOnly, hro]
    rfl
  · simp only [VecObj.readOnly, hro, ↓reduceIte]
  · simp only [hro, ↓reduceIte]
  · simp only [hro, ↓reduceIte]
  · simp only [hro, ↓reduceIte]
  · simp only [hro, ↓reduceIte]

theorem setSA_readonly (s : Store) (rowIds : List Nat) (i : Idx2) (val : Operand)
    (h : (rowIds.any fun r => match s.getVec r with | some v => v.readOnly | none => false) = true) :
    setSA s rowIds i val = .error .readOnly := by
  unfold setSA
  split
  · rfl
  · rename_i hn; exact absurd h hn

/-- a SparseArray whose rows are read-only rejects every in-place operator, `sa[...] = value`,
`clear` and `remove_negatives` (after the repair of fixes_proposed/C09-5) -/
theorem readonly_rejects_sa (s : Store) (a : Nat) (rowIds : List Nat) (rows : List VecObj) (op : Op)
    (ha : s[a]? = some (.sa rowIds)) (hrows : s.rowsVec rowIds = some rows) (hro : rows.any (·.readOnly) = true)
    (hop : step.opTarget op = some a)
    (hw : (match op with | .ibin o _ _ => !o.isCmp | .set _ _ _ | .clear _ | .removeNegatives _ => true | _ => false) = true) :
    step s op = .error .readOnly := by
  cases op <;> simp only [Bool.false_eq_true] at hw <;>
    simp only [step.opTarget, Option.some.injEq] at hop <;> subst hop <;>
    simp only [step, step.opTarget, ha, hrows, stepSA]
  · simp only [Bool.not_eq_true'] at hw
    simp only [ibinSA, hw, hrows, hro, ↓reduceIte, Bool.false_eq_true]
    rfl
  · have : (rowIds.any fun r => match s.getVec r with | some v => v.readOnly | none => false) = true := by
      rw [List.any_eq_true] at hro ⊢
      obtain ⟨v, hv, hvr⟩ := hro
      obtain ⟨rid, hrid, hget⟩ := option_mapM_mem _ _ _ hrows v hv
      exact ⟨rid, hrid, by rw [hget]; exact hvr⟩
    rw [setSA_readonly s rowIds _ _ this]
    rfl
  · simp only [hro, ↓reduceIte]
  · simp only [hro, ↓reduceIte]

/-! ### what the precondition excludes: statements, counterexamples, partial theorems -/

/-- the full statement of the representation clause of C09: *every* operation keeps the invariant -/
def wf_every_op_statement : Prop :=
  ∀ (s s' : Store) (op : Op) (r : Res), StoreWF s → step s op = .ok (s', r) → StoreWF s'

/-- known finding `setitem-out-of-range-or-overlong-stored` (pinned by
`tests/test_sparse.py::test_sparse_vector_indexing`, "Size is not strict"): `sv[5] = 3.` on a vector
of size 3 stores the key 5 -/
theorem wf_every_op_counterexample : ¬ wf_every_op_statement := by
  intro h
  have hs : StoreWF [Obj.sv ⟨3, [(0, 1)], false⟩] := by
    intro i o hi
    match i with
    | 0 => simp at hi; subst hi; show Dct.WF 3 [(0, 1)]; decide
    | i + 1 => simp at hi
  have := h [Obj.sv ⟨3, [(0, 1)], false⟩] [Obj.sv ⟨3, [(5, 3), (0, 1)], false⟩]
    (.set 0 (.one (.int 5)) (.lit ⟨false, false, [], [3]⟩)) .none hs (by rfl)
  have h0 := this 0 _ rfl
  revert h0
  show ¬ Dct.WF 3 [(5, 3), (0, 1)]
  decide

/-- `x[:] = seq` with a longer sequence (known finding `setitem-length-mismatch-accepted`, pinned by
`test_sparse_vector_math`: `sv[:] = [0., 1]` on a size-4 vector is accepted) breaks the invariant too -/
theorem wf_overlong_assignment_counterexample :
    ∃ s s' r, StoreWF s ∧ step s (.set 0 (.one (.slice none none none)) (.lit ⟨false, false, [3], [1, 2, 3]⟩)) = .ok (s', r) ∧ ¬ StoreWF s' := by
  refine ⟨[Obj.sv ⟨2, [], false⟩], [Obj.sv ⟨2, Dct.ofList [1, 2, 3], false⟩], .none, ?_, by rfl, ?_⟩
  · intro i o hi
    match i with
    | 0 => simp at hi; subst hi; show Dct.WF 2 []; decide
    | i + 1 => simp at hi
  · intro h
    have h0 := h 0 _ rfl
    revert h0
    show ¬ Dct.WF 2 (Dct.ofList [1, 2, 3])
    decide

/-- the partial theorem is `step_wf`: the same statement under `OpSafe` -/
theorem wf_every_op_partial : ∀ (s s' : Store) (op : Op) (r : Res), StoreWF s → OpSafe s op →
    step s op = .ok (s', r) → StoreWF s' :=
  fun s s' op r hs hsafe h => step_wf s s' op r hs hsafe h

/-- `sa[...] = value` (formerly only a statement): the invariant is kept when the column index stays
inside the rows and no piece of the value is longer than a row -/
def sa_setitem_wf_statement : Prop :=
  ∀ (s s' : Store) (rowIds : List Nat) (i : Idx2) (val : Operand), StoreWF s →
    (∀ r ∈ rowIds, (s.getVec r).isSome) →
    (∀ rid ∈ rowIds, ∀ r, s.getVec rid = some r →
      (∀ m n, i = .two m n → idxInRange r.size n) ∧ (∀ v, saVal s val = some v → v.maxLen ≤ r.size)) →
    setSA s rowIds i val = .ok s' → StoreWF s'

theorem sa_setitem_wf : sa_setitem_wf_statement :=
  fun s s' rowIds i val hs hvalid hsafe h => setSA_wf s s' rowIds i val hs hvalid hsafe h

/-! ### non-vacuity: the hypotheses are satisfiable and the operations do something -/

/-- a well-formed store, a safe in-range assignment and an aliased in-place operation -/
example :
    let s : Store := [Obj.sv ⟨3, [(0, 1), (2, -2)], false⟩, Obj.sv ⟨3, [(1, 4)], false⟩]
    StoreWF s ∧ OpSafe s (.ibin .sub 0 (.ref 0)) ∧
    step s (.ibin .sub 0 (.ref 0)) = .ok ([Obj.sv ⟨3, [], false⟩, Obj.sv ⟨3, [(1, 4)], false⟩], .obj 0) ∧
    step s (.bin .add 0 (.ref 1)) = .ok (s ++ [Obj.sv ⟨3, [(1, 4), (0, 1), (2, -2)], false⟩], .obj 2) := by
  refine ⟨?_, trivial, by decide +kernel, by decide +kernel⟩
  intro i o hi
  match i with
  | 0 => simp at hi; subst hi; show Dct.WF 3 [(0, 1), (2, -2)]; decide
  | 1 => simp at hi; subst hi; show Dct.WF 3 _; decide
  | i + 2 => simp at hi

/-- a safe history from the empty store (construction, in-place update, comparison, reduction) -/
example : SafeHistory [] [.new ⟨false, false, [3], [1, 0, 2]⟩, .ibin .mul 0 (.lit ⟨false, false, [], [2]⟩),
    .bin .gt 0 (.lit ⟨false, false, [], [0]⟩), .reduce .sum 0 none true] := by
  simp [SafeHistory, OpSafe]

/-! ### the two halves of a driver answer agree: `step` (sparse model) against `npSide` (NumPy spec) -/

/-- For `v op w` with two float vectors (`+ − ×`): the object the sparse model allocates has exactly
the dense image that the NumPy reference computes for the same protocol line — the first and the
second field of the driver's answer describe the same array. -/
theorem step_bin_agrees_with_npSide (s s' : Store) (op : BinOp) (ar : Arith) (a b : Nat) (x y : SV) (r : Res)
    (hop : arithOf op = some ar) (hne : ar ≠ .truediv)
    (ha : s[a]? = some (.sv x)) (hb : s[b]? = some (.sv y)) (hx : x.WF) (hy : y.WF)
    (h : step s (.bin op a (.ref b)) = .ok (s', r)) :
    ∃ c : SV, r = .obj s.length ∧ s' = s ++ [Obj.sv c] ∧ c.WF ∧
      npSide s (.bin op a (.ref b)) = some (.ok (ND.vec c.toDense)) := by
  have hfn := arithOf_fn op ar hop
  have hlogic : op.isLogic = false := by cases op <;> simp [arithOf] at hop <;> rfl
  have hcmp : cmpOf op = none := by cases op <;> simp [arithOf] at hop <;> rfl
  -- the sparse side
  simp only [step, step.opTarget, ha, stepVec, binVec, subOverride, binVecCore, VecObj.isBool, hlogic, hb,
    VecObj.opSparse, VecObj.toSV, SV.opSparse, hop] at h
  unfold okRes at h
  obtain ⟨w, hw, e⟩ := except_map_ok h
  obtain ⟨v, hv, e2⟩ := except_map_ok hw
  obtain ⟨c, hc, e3⟩ := except_map_ok hv
  subst e2 e3
  simp only [allocRes, Store.alloc, VecObj.toObj, Prod.mk.injEq] at e
  have hhom := dense_hom_arith_sparse ar false x y c hx hy hc
  refine ⟨c.copy, e.2, e.1, sv_copy_wf hhom.1, ?_⟩
  -- the NumPy side
  have hty : typeOk op false false = true := by cases op <;> simp [arithOf] at hop <;> rfl
  have hdiv : (op == BinOp.truediv) = false := by
    cases op <;> simp [arithOf] at hop <;> first | rfl | (subst hop; exact absurd rfl hne)
  simp only [npSide, Store.toND, ha, hb, wfb_of_WF x hx, wfb_of_WF y hy, ↓reduceIte, Operand.toNDr, Option.map,
    npBin, ND.vec, hty, Bool.not_true, Bool.false_eq_true, Bool.and_false, maxShape, resBool, BinOp.isCmp]
  have hnp : np2 op.fn [x.toDense] [y.toDense] = .ok [c.toDense] := by
    unfold np2
    simp only [List.length_cons, List.length_nil, ↓reduceIte, List.zip_cons_cons, List.zip_nil_right,
      List.mapM_cons, List.mapM_nil, hfn, hhom.2]
    rfl
  rw [hnp]
  simp only [hdiv, Bool.false_eq_true, false_and, ↓reduceIte]
  cases op <;> first | (simp [arithOf] at hop; done) | rfl

end ThermoVerif.Props.C09
