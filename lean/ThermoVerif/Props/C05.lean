import ThermoVerif.Lemmas.Reaction
import ThermoVerif.Lemmas.ReactionParse
import ThermoVerif.Lemmas.ReactionCall
/-
C05 — Reactions conserve mass and atoms and convert exactly X of the reactant.

Statement (properties.jsonl): applying a reaction, a set of parallel or series reactions,
or a reaction system whose stoichiometry is atomically balanced to any stream or flow array
leaves the total mass and the flow of every chemical element unchanged, whether the reaction
is defined on a molar or a weight basis (both bases give the same result on a stream) and
whether or not phases are attached.  A single reaction consumes exactly conversion × feed of
its reactant and produces the other species in stoichiometric proportion; parallel reactions
all act on the feed composition and series reactions on the running composition.  Whenever
the call returns normally no chemical has a negative flow: conversions that would require one
raise an error instead.

The model is `ThermoVerif.Reaction` (Model/Reaction.lean), over `Rat`.  A row `a` stands for
one row of the formula matrix (atoms of one element per chemical), for the molecular weights,
or — tiled once per phase (`tile`) — for either of them against a flattened multi-phase
material; every conservation theorem is stated for an arbitrary such row.

This file holds the clause statements only.  The predicates they are stated over (`Balanced`, `Fits`,
`IsWtOf`, `MemberWt`, `KindWt`, `total`) and the helper lemmas live in Lemmas/ReactionCall.lean (same
namespace); list algebra in Lemmas/Reaction.lean; printer and parser lemmas in Lemmas/ReactionParse.lean.
-/
namespace ThermoVerif.Props.C05
open ThermoVerif.Reaction

/-! ## atoms -/

/-- A ν = 0 → A (react n) = A n, one row of A at a time. -/
theorem atoms_conserved_single (a : Vec) (rx : Rxn) (n : Vec)
    (hbal : dot a rx.nu = 0) (hfit : rx.nu.length = n.length) :
    dot a (rx.react n) = dot a n := by
  rw [dot_react a rx n hfit, hbal]; ring

theorem atoms_conserved_parallel (a : Vec) (rxs : List Rxn) (n : Vec)
    (hbal : Balanced a rxs) (hfit : Fits rxs n) :
    dot a (reactParallel rxs n) = dot a n := by
  unfold reactParallel
  rw [dot_applyExtents a _ rxs n hfit]
  have : ∀ (es : List Rat) (l : List Rxn), (∀ rx ∈ l, dot a rx.nu = 0) →
      (List.zipWith (fun e (rx : Rxn) => e * dot a rx.nu) es l).sum = 0 := by
    intro es
    induction es with
    | nil => intro l _; simp
    | cons e es ih =>
      intro l hl
      cases l with
      | nil => simp
      | cons rx l =>
        simp only [List.zipWith_cons_cons, List.sum_cons, hl rx (by simp), mul_zero, zero_add]
        exact ih l (fun rx' h' => hl rx' (by simp [h']))
  rw [this _ rxs hbal]; ring

theorem atoms_conserved_series (a : Vec) : ∀ (rxs : List Rxn) (n : Vec),
    Balanced a rxs → Fits rxs n → dot a (reactSeries rxs n) = dot a n := by
  intro rxs
  induction rxs with
  | nil => intro n _ _; rfl
  | cons rx rxs ih =>
    intro n hbal hfit
    have h1 : rx.nu.length = n.length := hfit rx (by simp)
    have hl := length_react rx n h1
    show dot a (reactSeries rxs (rx.react n)) = dot a n
    rw [ih (rx.react n) (fun r hr => hbal r (by simp [hr]))
        (fun r hr => by rw [hl]; exact hfit r (by simp [hr])),
      atoms_conserved_single a rx n (hbal rx (by simp)) h1]

theorem atoms_conserved_member (a : Vec) (m : Member) (n : Vec)
    (hbal : Balanced a m.rxns) (hfit : Fits m.rxns n) : dot a (m.react n) = dot a n := by
  cases m with
  | single rx => exact atoms_conserved_single a rx n (hbal rx (by simp [Member.rxns])) (hfit rx (by simp [Member.rxns]))
  | parallel rxs => exact atoms_conserved_parallel a rxs n hbal hfit
  | series rxs => exact atoms_conserved_series a rxs n hbal hfit

theorem atoms_conserved_system (a : Vec) : ∀ (ms : List Member) (n : Vec),
    (∀ m ∈ ms, Balanced a m.rxns) → (∀ m ∈ ms, Fits m.rxns n) →
    dot a (reactSystem ms n) = dot a n := by
  intro ms
  induction ms with
  | nil => intro n _ _; rfl
  | cons m ms ih =>
    intro n hbal hfit
    have hl := length_memberReact m n (hfit m (by simp))
    show dot a (reactSystem ms (m.react n)) = dot a n
    rw [ih (m.react n) (fun m' hm' => hbal m' (by simp [hm']))
        (fun m' hm' rx hrx => by rw [hl]; exact hfit m' (by simp [hm']) rx hrx),
      atoms_conserved_member a m n (hbal m (by simp)) (hfit m (by simp))]

/-- every kind of reaction object: a reaction, a parallel or series set, a system -/
theorem atoms_conserved (a : Vec) (k : Kind) (n : Vec)
    (hbal : Balanced a k.rxns) (hfit : Fits k.rxns n) : dot a (k.react n) = dot a n := by
  cases k with
  | member m => exact atoms_conserved_member a m n hbal hfit
  | system ms =>
    refine atoms_conserved_system a ms n ?_ ?_
    · intro m hm rx hrx; exact hbal rx (by simp only [Kind.rxns, List.mem_flatMap]; exact ⟨m, hm, hrx⟩)
    · intro m hm rx hrx; exact hfit rx (by simp only [Kind.rxns, List.mem_flatMap]; exact ⟨m, hm, hrx⟩)

/-- non-vacuity: 2 H2 + O2 → 2 H2O over (H2O, H2, O2), reactant H2, X = 1/2, is balanced in H
and in O, fits a 3-vector, and does change it. -/
example : ∃ rx : Rxn, Rxn.make [2, -2, -1] 1 (1/2) = .ok rx ∧
    dot [2, 2, 0] rx.nu = 0 ∧ dot [1, 0, 2] rx.nu = 0 ∧ rx.nu.length = 3 ∧
    rx.react [0, 4, 3] = [2, 2, 2] := by
  refine ⟨⟨[1, -1, -1/2], 1, 1/2⟩, ?_, ?_, ?_, ?_, ?_⟩ <;> decide +kernel

/-! ## mass -/

/-- Mass is conserved (corollary of atom conservation through `MW = mᵀA`): for every kind of
reaction object whose reactions are balanced in every element. -/
theorem mass_conserved (m : Vec) (A : List Vec) (k : Kind) (n : Vec)
    (hA : ∀ row ∈ A, row.length = n.length) (hbal : ∀ row ∈ A, Balanced row k.rxns)
    (hfit : Fits k.rxns n) :
    dot (mwOf m A n.length) (k.react n) = dot (mwOf m A n.length) n :=
  atoms_conserved _ k n (mw_balanced m A n.length k.rxns hA hbal) hfit

/-- With the molecular weights as they are (not assuming `MW = mᵀA`), the mass change of one
reaction is the extent times the mass imbalance of its stoichiometry, and that imbalance is the
one of the defect `MW − mᵀA` alone when the atoms balance. -/
theorem mass_change_single (mw : Vec) (rx : Rxn) (n : Vec) (hfit : rx.nu.length = n.length) :
    dot mw (rx.react n) - dot mw n = (n.getD rx.r 0 * rx.X) * dot mw rx.nu := by
  rw [dot_react mw rx n hfit]; ring

theorem mass_defect_single (m : Vec) (A : List Vec) (mw : Vec) (rx : Rxn) (n : Vec)
    (hfit : rx.nu.length = n.length) (hmw : mw.length = n.length)
    (hA : ∀ row ∈ A, row.length = n.length) (hbal : ∀ row ∈ A, dot row rx.nu = 0) :
    dot mw (rx.react n) - dot mw n
      = (n.getD rx.r 0 * rx.X) * dot (axpy (-1) (mwOf m A n.length) mw) rx.nu := by
  rw [mass_change_single mw rx n hfit,
    dot_axpy_left rx.nu (-1) _ mw (by rw [length_mwOf n.length m A hA, hmw])]
  have h0 : dot (mwOf m A n.length) rx.nu = 0 :=
    mw_balanced m A n.length [rx] hA (fun row hrow r hr => by
      simp only [List.mem_singleton] at hr; subst hr; exact hbal row hrow) rx (by simp)
  rw [h0]; ring

/-- non-vacuity: H = 1, O = 16 give MW (H2O, H2, O2) = (18, 2, 32) -/
example : mwOf [1, 16] [[2, 2, 0], [1, 0, 2]] 3 = [18, 2, 32] := by decide +kernel

/-! ## a single reaction consumes X of its reactant, the rest in stoichiometric proportion -/

/-- After `_rescale` the reactant's coefficient is −1 … -/
theorem make_reactant (raw : Vec) (r : Nat) (X : Rat) (rx : Rxn) (h : Rxn.make raw r X = .ok rx) :
    rx.nu.getD rx.r 0 = -1 := by
  obtain ⟨h1, h2, _⟩ := make_ok raw r X rx h
  rw [h2]; exact rescale_reactant raw r rx.nu h1

/-- … so the reaction consumes exactly `X · feed` of it:  (react n)_r = n_r (1 − X), -/
theorem consumes_X (raw : Vec) (r : Nat) (X : Rat) (rx : Rxn) (n : Vec)
    (h : Rxn.make raw r X = .ok rx) (hfit : raw.length = n.length) :
    (rx.react n).getD r 0 = n.getD r 0 * (1 - X) := by
  obtain ⟨h1, h2, h3⟩ := make_ok raw r X rx h
  have hl : rx.nu.length = n.length := by rw [rescale_length raw r rx.nu h1, hfit]
  have hr := make_reactant raw r X rx h
  rw [h2] at hr
  rw [getD_react rx n r hl, h2, h3, hr]; ring

/-- every other species changes by `extent · ν_i / (−ν_r)` with the coefficients as defined, -/
theorem stoichiometric_change (raw : Vec) (r : Nat) (X : Rat) (rx : Rxn) (n : Vec)
    (h : Rxn.make raw r X = .ok rx) (hfit : raw.length = n.length) (i : Nat) :
    (rx.react n).getD i 0 - n.getD i 0 = (n.getD r 0 * X) * (raw.getD i 0 / (-(raw.getD r 0))) := by
  obtain ⟨h1, h2, h3⟩ := make_ok raw r X rx h
  have hl : rx.nu.length = n.length := by rw [rescale_length raw r rx.nu h1, hfit]
  rw [getD_react rx n i hl, h2, h3, rescale_getD raw r rx.nu h1 i]; ring

/-- i.e. in stoichiometric proportion to the reactant's own change: Δ_i · ν_r = Δ_r · ν_i. -/
theorem stoichiometric_proportion (raw : Vec) (r : Nat) (X : Rat) (rx : Rxn) (n : Vec)
    (h : Rxn.make raw r X = .ok rx) (hfit : raw.length = n.length) (i : Nat) :
    ((rx.react n).getD i 0 - n.getD i 0) * raw.getD r 0
      = ((rx.react n).getD r 0 - n.getD r 0) * raw.getD i 0 := by
  have h0 : raw.getD r 0 ≠ 0 :=
    ((rescale_ok_iff raw r rx.nu).mp (make_ok raw r X rx h).1).1
  rw [stoichiometric_change raw r X rx n h hfit i, stoichiometric_change raw r X rx n h hfit r]
  field_simp

/-- the constructor fails exactly when the reactant does not take part -/
theorem make_error_iff (raw : Vec) (r : Nat) (X : Rat) :
    Rxn.make raw r X = .error .noReactant ↔ raw.getD r 0 = 0 := by
  rw [← rescale_error_iff raw r]
  unfold Rxn.make
  cases rescale raw r with
  | error e => cases e <;> simp [Except.map]
  | ok nu => simp [Except.map]

/-- non-vacuity: the product side can be chosen as "reactant" too (the signs flip) -/
example : Rxn.make [2, -2, -1] 0 (1/4) = .ok ⟨[-1, 1, 1/2], 0, 1/4⟩ := by decide +kernel

/-! ## parallel reactions act on the feed, series reactions on the running composition -/

/-- Every extent of a `ParallelReaction` is `X_k · feed[r_k]`, read from the feed `n`. -/
theorem parallel_uses_feed (rxs : List Rxn) (n : Vec) (hfit : Fits rxs n) (i : Nat) :
    (reactParallel rxs n).getD i 0
      = n.getD i 0 + (rxs.map fun rx => (rx.X * n.getD rx.r 0) * rx.nu.getD i 0).sum := by
  unfold reactParallel extents
  rw [getD_applyExtents i _ rxs n hfit, zipWith_map_self]

/-- A `SeriesReaction` applies each reaction to what the previous ones left: the extent of the second
of two reactions in series is `X₂` times the flow of its reactant *after* the first reaction,
`n[r₂] + e₁·ν₁[r₂]` — not the feed's `n[r₂]` as in `parallel_uses_feed`.  (The unfolding
`reactSeries (rx :: rxs) n = reactSeries rxs (rx.react n)` is definitional: Lemmas/Reaction.lean.) -/
theorem series_second_extent (r1 r2 : Rxn) (n : Vec) (h1 : r1.nu.length = n.length)
    (h2 : r2.nu.length = n.length) (i : Nat) :
    (reactSeries [r1, r2] n).getD i 0
      = n.getD i 0 + (n.getD r1.r 0 * r1.X) * r1.nu.getD i 0
        + ((n.getD r2.r 0 + (n.getD r1.r 0 * r1.X) * r1.nu.getD r2.r 0) * r2.X) * r2.nu.getD i 0 := by
  show (r2.react (r1.react n)).getD i 0 = _
  rw [getD_react r2 _ i (by rw [length_react r1 n h1]; exact h2), getD_react r1 n i h1, getD_react r1 n r2.r h1]

theorem series_append (rxs₁ rxs₂ : List Rxn) (n : Vec) :
    reactSeries (rxs₁ ++ rxs₂) n = reactSeries rxs₂ (reactSeries rxs₁ n) := by
  simp [reactSeries, List.foldl_append]

/-- A `ReactionSystem` of two members: the second member sees what the first one left (for two plain
reactions this is the series formula; the general unfolding is definitional, Lemmas/Reaction.lean). -/
theorem system_second_member (m1 m2 : Member) (n : Vec) :
    reactSystem [m1, m2] n = m2.react (m1.react n) ∧
      (∀ r1 r2 : Rxn, reactSystem [.single r1, .single r2] n = reactSeries [r1, r2] n) :=
  ⟨rfl, fun _ _ => rfl⟩

/-- the two differ: A → B twice with X = 1/2 on (A, B) = (4, 0) -/
example : reactParallel [⟨[-1, 1], 0, 1/2⟩, ⟨[-1, 1], 0, 1/2⟩] [4, 0] = [0, 4] ∧
    reactSeries [⟨[-1, 1], 0, 1/2⟩, ⟨[-1, 1], 0, 1/2⟩] [4, 0] = [1, 3] := by decide +kernel

/-! ## mol and wt basis act identically on a stream -/

/-- Reacting the mass flows with the weight-basis version is reacting the molar flows with the
molar version, for every kind of reaction object … -/
theorem basis_agree_mass (mw : Vec) (k kw : Kind) (h : KindWt mw k kw) (n : Vec) :
    kw.react (hmul n mw) = hmul (k.react n) mw := by
  cases h with
  | member h => exact member_wt mw _ _ h n
  | system h => exact system_wt mw _ _ h n

/-- … so routing a stream through its mass flows (`imass` → react → back to `imol`) gives
exactly what the molar version gives on the molar flows. -/
theorem basis_agree (mw : Vec) (k kw : Kind) (h : KindWt mw k kw) (n : Vec)
    (hfit : Fits k.rxns n) (hmw : mw.length = n.length) (hpos : ∀ x ∈ mw, x ≠ 0) :
    hdiv (kw.react (hmul n mw)) mw = k.react n := by
  rw [basis_agree_mass mw k kw h n]
  exact hdiv_hmul_cancel _ mw (by rw [length_kindReact k n hfit, hmw]) hpos

/-- non-vacuity: 2 H2O → 2 H2 + O2 on (H2O, H2, O2) with MW (18, 2, 32) -/
example : IsWtOf [18, 2, 32] ⟨[-1, 1, 1/2], 0, 1/2⟩ ⟨[-1, 1/9, 8/9], 0, 1/2⟩ := by
  refine ⟨?_, ?_, ?_⟩ <;> decide +kernel

/-! ## the feasibility step: no negative flow on a normal return, an error when one is required -/

/-- `InfeasibleRegion` is raised exactly when the negatives sum below `-tol` … -/
theorem raises_iff (tol : Rat) (v : Vec) :
    feasibility tol v = .error .infeasible ↔ negSum v < -tol := by
  unfold feasibility
  by_cases h : negSum v < -tol
  · rw [if_pos h]; exact ⟨fun _ => h, fun _ => rfl⟩
  · rw [if_neg h]; constructor
    · intro hh; cases hh
    · intro hh; exact absurd hh h

/-- … which for `tol ≥ 0` requires some flow to be negative: no error without need. -/
theorem raise_requires_negative (tol : Rat) (h0 : 0 ≤ tol) (v : Vec) (e : Err)
    (h : feasibility tol v = .error e) : ∃ x ∈ v, x < 0 := by
  by_contra hc
  have hv : ∀ x ∈ v, 0 ≤ x := fun x hx => not_lt.mp (fun hlt => hc ⟨x, hx, hlt⟩)
  unfold feasibility at h
  rw [negSum_eq_zero_of_nonneg v hv, if_neg (by linarith)] at h
  cases h

/-- Whenever the call returns normally, no flow is negative. -/
theorem normal_return_nonneg (tol : Rat) (v out : Vec) (h : feasibility tol v = .ok out) :
    ∀ x ∈ out, 0 ≤ x := by
  obtain ⟨_, rfl⟩ := (feasibility_ok_iff tol v out).mp h
  exact clamp_nonneg v

/-- A result without negative entries passes unchanged. -/
theorem feasible_unchanged (tol : Rat) (h0 : 0 ≤ tol) (v : Vec) (hv : ∀ x ∈ v, 0 ≤ x) :
    feasibility tol v = .ok v := by
  rw [feasibility_ok_iff, negSum_eq_zero_of_nonneg v hv, clamp_of_nonneg v hv]
  exact ⟨by linarith, rfl⟩

/-- When the clamp fires, conservation is off by exactly what was clamped: non-negative amounts
that total at most `tol` (1e-12 in the code) … -/
theorem clamp_exact (tol : Rat) (a v out : Vec) (h : feasibility tol v = .ok out) :
    dot a out = dot a v + dot a (clamped v) ∧ (∀ x ∈ clamped v, 0 ≤ x) ∧ (clamped v).sum ≤ tol := by
  obtain ⟨h1, rfl⟩ := (feasibility_ok_iff tol v out).mp h
  refine ⟨dot_clamp a v, clamped_nonneg v, ?_⟩
  rw [sum_clamped]; linarith [not_lt.mp h1]

/-- … so any row with entries bounded by `amax` (atoms per molecule, molecular weight) is
conserved through the feasibility step up to `amax · tol`. -/
theorem clamp_bound (tol amax : Rat) (h0 : 0 ≤ amax) (a v out : Vec)
    (ha : ∀ x ∈ a, |x| ≤ amax) (h : feasibility tol v = .ok out) :
    |dot a out - dot a v| ≤ amax * tol := by
  obtain ⟨h1, h2, h3⟩ := clamp_exact tol a v out h
  rw [h1, add_sub_cancel_left]
  calc |dot a (clamped v)| ≤ amax * (clamped v).sum := abs_dot_le amax h0 a _ ha h2
    _ ≤ amax * tol := mul_le_mul_of_nonneg_left h3 h0

/-- non-vacuity: the three regimes, with the code's threshold `feasTol` = the double 1e-12 -/
example : feasibility feasTol [1, -1 / 2 ^ 45, 3] = .ok [1, 0, 3] ∧
    feasibility feasTol [1, -1 / 2 ^ 39, 3] = .error .infeasible ∧
    feasibility feasTol [1, 0, 3] = .ok [1, 0, 3] ∧ 0 ≤ feasTol := by
  refine ⟨?_, ?_, ?_, ?_⟩ <;> decide +kernel

/-! ## the whole call on arrays and streams -/

/-- the reacting core: balanced rows are conserved up to the clamped amount, nothing is negative -/
theorem core_conserves (o : RObj) (tol amax : Rat) (h0 : 0 ≤ amax) (a flat out : Vec)
    (ha : ∀ x ∈ a, |x| ≤ amax) (hbal : Balanced a o.kind.rxns) (h : o.core tol flat = .ok out) :
    |dot a out - dot a flat| ≤ amax * tol ∧ (∀ x ∈ out, 0 ≤ x) := by
  obtain ⟨hfit, hf⟩ := core_ok o tol flat out h
  have := clamp_bound tol amax h0 a _ out ha hf
  rw [atoms_conserved a o.kind flat hbal hfit] at this
  exact ⟨this, normal_return_nonneg tol _ out hf⟩

/-- … and exactly, when the reaction leaves no negative entry (the clamp does not fire) -/
theorem core_conserves_exact (o : RObj) (tol : Rat) (a flat out : Vec)
    (hbal : Balanced a o.kind.rxns) (h : o.core tol flat = .ok out)
    (hnn : ∀ x ∈ o.kind.react flat, 0 ≤ x) : out = o.kind.react flat ∧ dot a out = dot a flat := by
  obtain ⟨hfit, hf⟩ := core_ok o tol flat out h
  obtain ⟨_, rfl⟩ := (feasibility_ok_iff _ _ _).mp hf
  rw [clamp_of_nonneg _ hnn]
  exact ⟨rfl, atoms_conserved a o.kind flat hbal hfit⟩

/-- Arrays (1-d: one row; 2-d: one row per phase) and streams of the object's own package on
a molar basis: every balanced row — each element, and the mass — is conserved over the sum of
the phases, up to the clamped amount `amax · tol`, and no flow is negative. -/
theorem call_conserves (o : RObj) (tol amax : Rat) (h0 : 0 ≤ amax) (a : Vec) (rows rows' : List Vec)
    (ha : ∀ x ∈ a, |x| ≤ amax) (hrect : ∀ r ∈ rows, r.length = a.length)
    (hbal : Balanced (tile rows.length a) o.kind.rxns)
    (hcall : (rows ≠ [] ∧ o.callArray tol rows = .ok rows') ∨
             (o.basis = .mol ∧ a.length = o.pkg.length ∧ o.callOwn tol rows = .ok rows')) :
    |total a rows' - total a rows| ≤ amax * tol ∧ (∀ r ∈ rows', ∀ x ∈ r, 0 ≤ x) := by
  have hflat : rows.flatten.length = rows.length * a.length := length_flatten_rect a.length rows hrect
  have key : ∃ out, o.core tol rows.flatten = .ok out ∧ rows' = chunk a.length rows.length out := by
    rcases hcall with ⟨hne, hc⟩ | ⟨hb, hn, hc⟩
    · unfold RObj.callArray at hc
      cases hcore : o.core tol rows.flatten with
      | error e => rw [hcore] at hc; cases hc
      | ok out =>
        rw [hcore] at hc
        refine ⟨out, rfl, ?_⟩
        cases rows with
        | nil => exact absurd rfl hne
        | cons r rs =>
          have : (List.headD (r :: rs) []).length = a.length := by simpa using hrect r (by simp)
          rw [this] at hc
          injection hc with hc; exact hc.symm
    · unfold RObj.callOwn at hc
      rw [hb] at hc
      cases hcore : o.core tol rows.flatten with
      | error e => rw [hcore] at hc; cases hc
      | ok out =>
        rw [hcore] at hc
        refine ⟨out, rfl, ?_⟩
        rw [← hn] at hc
        injection hc with hc; exact hc.symm
  obtain ⟨out, hcore, rfl⟩ := key
  have hlen : out.length = rows.length * a.length := by rw [length_core o tol _ out hcore, hflat]
  obtain ⟨h1, h2⟩ := core_conserves o tol amax h0 (tile rows.length a) rows.flatten out
    (fun x hx => ha x (mem_tile _ _ x hx)) hbal hcore
  refine ⟨?_, ?_⟩
  · rw [total_chunk a rows.length out hlen]
    have : total a rows = dot (tile rows.length a) rows.flatten := by
      unfold total; exact (dot_tile_flatten a rows hrect).symm
    rw [this]; exact h1
  · intro r hr x hx
    exact h2 x (mem_chunk a.length rows.length out r hr x hx)

/-- A stream of the object's own package on the weight basis returns exactly what the molar
version of the same object returns on the molar flows, whenever both return normally
(positive molecular weights).  [The two raise conditions are not the same: one sums negative
moles, the other negative masses against the same 1e-12; see `basis_raise_can_differ`.] -/
theorem basis_agree_call (o ow : RObj) (tol : Rat) (rows out outw : List Vec)
    (hb : o.basis = .mol) (hbw : ow.basis = .wt) (hpkg : ow.pkg = o.pkg) (hmw : ow.mw = o.mw)
    (hk : KindWt (tile rows.length o.mw) o.kind ow.kind)
    (hrect : ∀ r ∈ rows, r.length = o.pkg.length) (hmwlen : o.mw.length = o.pkg.length)
    (hpos : ∀ x ∈ o.mw, 0 < x)
    (h1 : o.callOwn tol rows = .ok out) (h2 : ow.callOwn tol rows = .ok outw) : outw = out := by
  have e1 : o.callOwn tol rows = (o.core tol rows.flatten).map (chunk o.pkg.length rows.length) := by
    unfold RObj.callOwn; rw [hb]
  have e2 : ow.callOwn tol rows
      = (ow.core tol (hmul rows.flatten (tile rows.length o.mw))).map
          (fun out => chunk o.pkg.length rows.length (hdiv out (tile rows.length o.mw))) := by
    unfold RObj.callOwn; rw [hbw, hpkg, hmw]
  rw [e1] at h1; rw [e2] at h2
  cases hc1 : o.core tol rows.flatten with
  | error e => rw [hc1] at h1; cases h1
  | ok f1 =>
    cases hc2 : ow.core tol (hmul rows.flatten (tile rows.length o.mw)) with
    | error e => rw [hc2] at h2; cases h2
    | ok f2 =>
      rw [hc1] at h1; rw [hc2] at h2
      injection h1 with h1; injection h2 with h2
      rw [← h1, ← h2]
      show chunk _ _ (hdiv f2 _) = chunk _ _ f1
      congr 1
      obtain ⟨hfit1, hf1⟩ := core_ok o tol _ f1 hc1
      obtain ⟨_, hf2⟩ := core_ok ow tol _ f2 hc2
      obtain ⟨_, rfl⟩ := (feasibility_ok_iff _ _ _).mp hf1
      obtain ⟨_, rfl⟩ := (feasibility_ok_iff _ _ _).mp hf2
      have hposT : ∀ x ∈ tile rows.length o.mw, 0 < x := fun x hx => hpos x (mem_tile _ _ x hx)
      rw [basis_agree_mass _ _ _ hk, clamp_hmul _ _ hposT]
      refine hdiv_hmul_cancel _ _ ?_ (fun x hx => (hposT x hx).ne')
      rw [length_clamp, length_kindReact _ _ hfit1, length_tile, hmwlen,
        length_flatten_rect o.pkg.length rows hrect]

/-- the raise conditions of the two bases differ (threshold on moles vs on mass): with
tolerance 1, one mole short of a chemical of molecular weight 2 passes on the molar basis
(clamped) and raises on the weight basis. -/
theorem basis_raise_can_differ :
    feasibility 1 [-1] = .ok [0] ∧ feasibility 1 (hmul [-1] [2]) = .error .infeasible := by
  constructor <;> decide +kernel

/-! ## streams held in another property package -/

/-- `reset_chemicals` changes no chemical's flow: by identity, before = after. -/
theorem remap_keeps_every_chemical (src dst : List Nat) (row out : Vec)
    (h : remapRow src dst row = .ok out) (u : Nat) : lift dst out u = lift src row u :=
  lift_remapRow src dst row out h u

/-- it raises exactly when a chemical with a non-zero flow is missing in the target package -/
theorem remap_raises_iff (src dst : List Nat) (row : Vec) :
    remapRow src dst row = .error .undefinedChemical ↔
      ∃ p ∈ List.zip src row, p.2 ≠ 0 ∧ p.1 ∉ dst := by
  unfold remapRow
  by_cases h : supported src dst row = true
  · rw [if_pos h]
    constructor
    · intro hh; cases hh
    · rintro ⟨p, hp, h1, h2⟩
      rcases (supported_iff src dst row).mp h p hp with h0 | hm
      · exact absurd h0 h1
      · exact absurd hm h2
  · rw [if_neg h]
    refine ⟨fun _ => ?_, fun _ => rfl⟩
    by_contra hc
    apply h
    rw [supported_iff]
    intro p hp
    by_contra hn
    rw [not_or] at hn
    exact hc ⟨p, hp, hn.1, hn.2⟩

theorem remap_roundtrip (src dst : List Nat) (row mid back : Vec) (hn : src.Nodup)
    (hl : row.length = src.length) (h1 : remapRow src dst row = .ok mid)
    (h2 : remapRow dst src mid = .ok back) : back = row :=
  remapRow_roundtrip src dst row mid back hn hl h1 h2

/-- every per-chemical weighting has the same total over the phases before and after the move -/
theorem total_remapRows (w : Nat → Rat) (src dst : List Nat) (hs : src.Nodup) (hd : dst.Nodup)
    (rows out : List Vec) (hrect : ∀ r ∈ rows, r.length = src.length)
    (h : remapRows src dst rows = .ok out) :
    total (dst.map w) out = total (src.map w) rows ∧ out.length = rows.length ∧
      ∀ r ∈ out, r.length = dst.length := by
  have hf := remapRows_ok src dst rows out h
  clear h
  induction hf with
  | nil => simp [total]
  | @cons r o rs os h1 _ ih =>
    obtain ⟨ih1, ih2, ih3⟩ := ih (fun r' hr' => hrect r' (by simp [hr']))
    have hlen : o.length = dst.length := by
      obtain ⟨_, rfl⟩ := (remapRow_ok_iff _ _ _ _).mp h1; simp
    unfold total at ih1 ⊢
    refine ⟨?_, by simp [ih2], ?_⟩
    · simp only [List.map_cons, List.sum_cons, ih1,
        dot_remapRow w dst hd src r o hs (hrect r (by simp)) h1]
    · intro r' hr'
      simp only [List.mem_cons] at hr'
      rcases hr' with rfl | hr'
      · exact hlen
      · exact ih3 r' hr'

/-- Streams of another package (molar basis): for every per-chemical weighting `w` that the
reactions balance — atoms of each element, molecular weight — the total over the stream's
phases is conserved up to the clamped amount, and no flow is negative. -/
theorem other_package_conserves (o : RObj) (tol amax : Rat) (h0 : 0 ≤ amax) (w : Nat → Rat)
    (ph pkg : List Nat) (rows rows' : List Vec)
    (hb : o.basis = .mol) (hne : (pkg == o.pkg) = false) (hp : pkg.Nodup) (hop : o.pkg.Nodup)
    (hw : ∀ u, |w u| ≤ amax) (hrect : ∀ r ∈ rows, r.length = pkg.length)
    (hbal : Balanced (tile rows.length (o.pkg.map w)) o.kind.rxns)
    (h : o.callStream tol ph pkg rows = .ok rows') :
    |total (pkg.map w) rows' - total (pkg.map w) rows| ≤ amax * tol := by
  obtain ⟨rows1, rows2, h1, h2, h3⟩ := callStream_other o tol ph pkg rows rows' hne h
  obtain ⟨t1, l1, r1⟩ := total_remapRows w pkg o.pkg hp hop rows rows1 hrect h1
  have hcons := call_conserves o tol amax h0 (o.pkg.map w) rows1 rows2
    (fun x hx => by obtain ⟨u, _, rfl⟩ := List.mem_map.mp hx; exact hw u)
    (fun r hr => by rw [r1 r hr]; simp) (by rw [l1]; exact hbal)
    (Or.inr ⟨hb, by simp, h2⟩)
  -- the rows coming back have the object's layout
  have hrect2 : ∀ r ∈ rows2, r.length = o.pkg.length := by
    have e1 : o.callOwn tol rows1 = (o.core tol rows1.flatten).map (chunk o.pkg.length rows1.length) := by
      unfold RObj.callOwn; rw [hb]
    rw [e1] at h2
    cases hc : o.core tol rows1.flatten with
    | error e => rw [hc] at h2; cases h2
    | ok out =>
      rw [hc] at h2; injection h2 with h2; subst h2
      refine chunk_rows_length o.pkg.length rows1.length out ?_
      rw [length_core o tol _ out hc, length_flatten_rect o.pkg.length rows1 r1]
  obtain ⟨t2, _, _⟩ := total_remapRows w o.pkg pkg hop hp rows2 rows' hrect2 h3
  rw [t2, ← t1]; exact hcons.1

/-- non-vacuity: packages (A, B, C) and (C, A): a row with no B moves, a row with B raises -/
example : remapRow [0, 1, 2] [2, 0] [5, 0, 7] = .ok [7, 5] ∧
    remapRow [0, 1, 2] [2, 0] [5, 1, 7] = .error .undefinedChemical ∧
    remapRow [2, 0] [0, 1, 2] [7, 5] = .ok [5, 0, 7] := by
  refine ⟨?_, ?_, ?_⟩ <;> decide +kernel

/-! ## reactions on a weight basis conserve atoms and mass as well -/

/-- the weight-basis version of a balanced reaction is balanced for the row *per unit mass*
(`a_j / MW_j`: atoms of the element per gram of chemical `j`) -/
theorem balanced_toWt (a mw : Vec) (rx rxw : Rxn) (h : IsWtOf mw rx rxw)
    (hmw : ∀ x ∈ mw, x ≠ 0) (hl : rx.nu.length = mw.length) (hbal : dot a rx.nu = 0) :
    dot (hdiv a mw) rxw.nu = 0 := by
  obtain ⟨hnu, _, _⟩ := isWtOf_nu mw rx rxw h
  rw [hnu, dot_map_div, dot_hdiv_hmul a rx.nu mw hmw hl, hbal]; simp

/-- A stream of the object's own package reacted on the weight basis (through its mass flows):
every row that the weight-basis stoichiometries balance per unit mass is conserved over the
phases up to `amax · tol` (`amax` bounds the row per unit mass; `tol` = 1e-12 kg/hr here), and no
flow is negative. -/
theorem call_conserves_wt (o : RObj) (tol amax : Rat) (h0 : 0 ≤ amax) (a : Vec) (rows rows' : List Vec)
    (hbw : o.basis = .wt) (hlen : a.length = o.pkg.length) (hmwlen : o.mw.length = o.pkg.length)
    (hpos : ∀ x ∈ o.mw, 0 < x) (ha : ∀ x ∈ hdiv a o.mw, |x| ≤ amax)
    (hrect : ∀ r ∈ rows, r.length = o.pkg.length)
    (hbal : Balanced (tile rows.length (hdiv a o.mw)) o.kind.rxns)
    (h : o.callOwn tol rows = .ok rows') :
    |total a rows' - total a rows| ≤ amax * tol ∧ (∀ r ∈ rows', ∀ x ∈ r, 0 ≤ x) := by
  have e2 : o.callOwn tol rows
      = (o.core tol (hmul rows.flatten (tile rows.length o.mw))).map
          (fun out => chunk o.pkg.length rows.length (hdiv out (tile rows.length o.mw))) := by
    unfold RObj.callOwn; rw [hbw]
  rw [e2] at h
  cases hc : o.core tol (hmul rows.flatten (tile rows.length o.mw)) with
  | error e => rw [hc] at h; cases h
  | ok out =>
    rw [hc] at h; injection h with h; subst h
    have hflat : rows.flatten.length = rows.length * o.pkg.length :=
      length_flatten_rect o.pkg.length rows hrect
    have hposT : ∀ x ∈ tile rows.length o.mw, 0 < x := fun x hx => hpos x (mem_tile _ _ x hx)
    have hmwT : (tile rows.length o.mw).length = rows.length * o.pkg.length := by
      rw [length_tile, hmwlen]
    have hin : (hmul rows.flatten (tile rows.length o.mw)).length = rows.length * o.pkg.length := by
      rw [length_hmul _ _ (by rw [hflat, hmwT]), hflat]
    have hout : out.length = rows.length * o.pkg.length := by rw [length_core o tol _ out hc, hin]
    obtain ⟨h1, h2⟩ := core_conserves o tol amax h0 (tile rows.length (hdiv a o.mw)) _ out
      (fun x hx => ha x (mem_tile _ _ x hx)) hbal hc
    have hA : a.length = o.mw.length := by rw [hlen, hmwlen]
    refine ⟨?_, ?_⟩
    · have t1 : total a (chunk o.pkg.length rows.length (hdiv out (tile rows.length o.mw)))
          = dot (tile rows.length (hdiv a o.mw)) out := by
        rw [← hlen, total_chunk a rows.length _ (by rw [length_hdiv _ _ (by rw [hout, hmwT]), hout, hlen]),
          dot_hdiv_right, tile_hdiv a o.mw hA]
      have t2 : total a rows
          = dot (tile rows.length (hdiv a o.mw)) (hmul rows.flatten (tile rows.length o.mw)) := by
        unfold total
        rw [← dot_tile_flatten a rows (fun r hr => by rw [hrect r hr, hlen]), tile_hdiv a o.mw hA,
          dot_hdiv_hmul _ _ _ (fun x hx => (hposT x hx).ne') (by rw [hflat, hmwT])]
      rw [t1, t2]; exact h1
    · intro r hr x hx
      have hx' := mem_chunk o.pkg.length rows.length _ r hr x hx
      exact hdiv_nonneg out _ h2 hposT x hx'

/-! ## `force_reaction`: no feasibility check, negligible negatives dropped -/

/-- Dropping the negligible negatives changes any row by exactly what was dropped:
non-negative amounts, each at most `eps · (Σ|v| + 1)` (`eps` = 1e-16 in the code). -/
theorem force_exact (eps : Rat) (h0 : 0 ≤ eps) (a v : Vec) :
    dot a (removeNegligible eps v) = dot a v + dot a (removedBy eps v) ∧
      ∀ r ∈ removedBy eps v, 0 ≤ r ∧ r ≤ eps * (absSum v + 1) :=
  ⟨dot_removeNegligible eps a v, removedBy_bound eps h0 v⟩

/-- Flows that are not negative are left exactly as the reaction made them (the clause the code
as found violates: it zeroes entry 0 instead of the negligible negative). -/
theorem force_keeps_nonneg (eps : Rat) (v : Vec) (i : Nat) (h : 0 ≤ v.getD i 0) :
    (removeNegligible eps v).getD i 0 = v.getD i 0 :=
  removeNegligible_keeps_nonneg eps v i h

/-- `force_reaction` conserves every balanced row up to the dropped negligible amounts:
`|a · out − a · feed| ≤ amax · N · eps · (Σ|reacted| + 1)`. -/
theorem force_conserves (o : RObj) (eps amax : Rat) (h0 : 0 ≤ eps) (ha0 : 0 ≤ amax) (a flat out : Vec)
    (ha : ∀ x ∈ a, |x| ≤ amax) (hbal : Balanced a o.kind.rxns) (h : o.coreForce eps flat = .ok out) :
    |dot a out - dot a flat|
      ≤ amax * (flat.length * (eps * (absSum (o.kind.react flat) + 1))) := by
  obtain ⟨hfit, rfl⟩ := coreForce_ok o eps flat out h
  obtain ⟨h1, h2⟩ := force_exact eps h0 a (o.kind.react flat)
  rw [h1, atoms_conserved a o.kind flat hbal hfit, add_sub_cancel_left]
  have hsum := sum_le_length_mul (eps * (absSum (o.kind.react flat) + 1)) (removedBy eps (o.kind.react flat))
    (fun r hr => (h2 r hr).2)
  rw [length_removedBy, length_kindReact o.kind flat hfit] at hsum
  calc |dot a (removedBy eps (o.kind.react flat))|
      ≤ amax * (removedBy eps (o.kind.react flat)).sum :=
        abs_dot_le amax ha0 a _ ha (fun r hr => (h2 r hr).1)
    _ ≤ amax * (flat.length * (eps * (absSum (o.kind.react flat) + 1))) :=
        mul_le_mul_of_nonneg_left hsum ha0

/-- … and exactly when nothing negligible is dropped, e.g. when the reacted material has no
negative entry at all -/
theorem force_conserves_exact (o : RObj) (eps : Rat) (a flat out : Vec)
    (hbal : Balanced a o.kind.rxns) (h : o.coreForce eps flat = .ok out)
    (hnn : ∀ x ∈ o.kind.react flat, 0 ≤ x) : out = o.kind.react flat ∧ dot a out = dot a flat := by
  obtain ⟨hfit, rfl⟩ := coreForce_ok o eps flat out h
  have : removeNegligible eps (o.kind.react flat) = o.kind.react flat := by
    unfold removeNegligible
    conv_rhs => rw [← List.map_id (o.kind.react flat)]
    apply List.map_congr_left
    intro x hx
    have : negligible eps (absSum (o.kind.react flat)) x = false := by
      unfold negligible; simp [not_lt.mpr (hnn x hx)]
    simp [this]
  rw [this]
  exact ⟨rfl, atoms_conserved a o.kind flat hbal hfit⟩

/-- non-vacuity: a negligible negative next to a real one — only the negligible one goes -/
example : removeNegligible negEps [5, 37/4, -1 / 2 ^ 60, -179/100] = [5, 37/4, 0, -179/100] ∧
    removedBy negEps [5, 37/4, -1 / 2 ^ 60, -179/100] = [0, 0, 1 / 2 ^ 60, 0] ∧ 0 ≤ negEps := by
  refine ⟨?_, ?_, ?_⟩ <;> decide +kernel

/-! ## streams of another package on the weight basis -/

/-- Streams of another package, weight basis, end to end (there, through the mass flows, react,
back): every per-chemical weighting `w` that the weight-basis stoichiometries balance per unit
mass (`w_j / MW_j`; for the weight-basis version of a balanced reaction this is `balanced_toWt`)
keeps its total over the stream's phases up to the clamped amount, and no flow is negative. -/
theorem other_package_conserves_wt (o : RObj) (tol amax : Rat) (h0 : 0 ≤ amax) (w : Nat → Rat)
    (ph pkg : List Nat) (rows rows' : List Vec)
    (hb : o.basis = .wt) (hne : (pkg == o.pkg) = false) (hp : pkg.Nodup) (hop : o.pkg.Nodup)
    (hmwlen : o.mw.length = o.pkg.length) (hpos : ∀ x ∈ o.mw, 0 < x)
    (hw : ∀ x ∈ hdiv (o.pkg.map w) o.mw, |x| ≤ amax)
    (hrect : ∀ r ∈ rows, r.length = pkg.length)
    (hbal : Balanced (tile rows.length (hdiv (o.pkg.map w) o.mw)) o.kind.rxns)
    (h : o.callStream tol ph pkg rows = .ok rows') :
    |total (pkg.map w) rows' - total (pkg.map w) rows| ≤ amax * tol ∧
      (∀ r ∈ rows', ∀ x ∈ r, 0 ≤ x) := by
  obtain ⟨rows1, rows2, h1, h2, h3⟩ := callStream_other o tol ph pkg rows rows' hne h
  obtain ⟨t1, l1, r1⟩ := total_remapRows w pkg o.pkg hp hop rows rows1 hrect h1
  obtain ⟨hc1, hc2⟩ := call_conserves_wt o tol amax h0 (o.pkg.map w) rows1 rows2 hb (by simp) hmwlen hpos hw
    r1 (by rw [l1]; exact hbal) h2
  have hrect2 := callOwn_rows_length o tol rows1 rows2 r1 hmwlen h2
  obtain ⟨t2, _, _⟩ := total_remapRows w o.pkg pkg hop hp rows2 rows' hrect2 h3
  refine ⟨by rw [t2, ← t1]; exact hc1, remapRows_nonneg o.pkg pkg rows2 rows' h3 hc2⟩

/-- … and on the molar basis no flow is negative either (the bound is `other_package_conserves`) -/
theorem other_package_nonneg (o : RObj) (tol : Rat) (ph pkg : List Nat) (rows rows' : List Vec)
    (hb : o.basis = .mol) (hne : (pkg == o.pkg) = false)
    (h : o.callStream tol ph pkg rows = .ok rows') : ∀ r ∈ rows', ∀ x ∈ r, 0 ≤ x := by
  obtain ⟨rows1, rows2, _, h2, h3⟩ := callStream_other o tol ph pkg rows rows' hne h
  refine remapRows_nonneg o.pkg pkg rows2 rows' h3 ?_
  have e1 : o.callOwn tol rows1 = (o.core tol rows1.flatten).map (chunk o.pkg.length rows1.length) := by
    unfold RObj.callOwn; rw [hb]
  rw [e1] at h2
  cases hc : o.core tol rows1.flatten with
  | error e => rw [hc] at h2; cases h2
  | ok out =>
    rw [hc] at h2; injection h2 with h2; subst h2
    obtain ⟨_, hf⟩ := core_ok o tol _ out hc
    intro r hr x hx
    exact normal_return_nonneg tol _ out hf x (mem_chunk _ _ out r hr x hx)

/-! ## the parsers: `parse (print ν) = ν`

`printReaction` / `printStoich` (Lemmas/ReactionParse.lean) write a stoichiometry in the grammar
`a A + b B -> c C`: identifier-like chemical names (letters and digits, starting with a letter other
than `e`), non-negative decimal coefficients `d / 10^k` written with `k` fractional digits (`k = 0`:
an integer; a coefficient of exactly 1 is omitted).  The parsers are the Lean models of
`_parse.str2dct` / `_xparse.str2dct` (`str2terms`) and `_parse.dct2arr` (`terms2vec`) that the driver
runs on the very strings handed to thermosteam. -/

/-- Python's `float(literal)` on a printed coefficient is the coefficient (exactly) -/
theorem parse_coefficient (c : Coef) : parseDecimal (coefChars c) = some c.val :=
  parseDecimal_coefChars c

/-- string → terms: parsing the printed reaction gives back exactly the printed terms, reactants
negated first, then products (distinct identifier-like names, both sides non-empty) -/
theorem parse_print_terms (L R : List PTerm) (hL : L ≠ []) (hR : R ≠ [])
    (hid : ∀ t ∈ L ++ R, IdentLike t.2) (hnd : ((L ++ R).map (·.2)).Nodup) :
    str2terms false (printReaction L R) = some (.ok (sideOut (-1) L ++ sideOut 1 R)) :=
  str2terms_printReaction L R hL hR hid hnd

/-- dict → vector: `parse_dict (toDict ν) = ok ν` for every vector over the package (names that
resolve to their own chemical) -/
theorem parse_dict_toDict (names : Names) (hres : Resolves names) (nu : Vec) (hlen : nu.length = names.length) :
    terms2vec names (toDict names nu) = .ok nu :=
  terms2vec_toDict names hres nu hlen

/-- string → vector, the full round trip: `parse (print ν) = ok ν` for every stoichiometric vector
with decimal coefficients that has at least one reactant and one product -/
theorem parse_print_roundtrip (names : Names) (hres : Resolves names)
    (hid : ∀ i, i < names.length → IdentLike (primary names i))
    (σ : DStoich) (hlen : σ.length = names.length)
    (hL : σ.side false ≠ []) (hR : σ.side true ≠ []) :
    parseReaction names (printStoich names σ) = some (.ok σ.vec) :=
  parse_print names hres hid σ hlen hL hR

/-- the phase-tagged grammar `a A,g + b B,l -> c C,s` (`_xparse.str2dct`), string → terms with phases -/
theorem parse_print_phased_terms (L R : List XTerm) (hL : L ≠ []) (hR : R ≠ [])
    (hid : ∀ t ∈ L ++ R, IdentLike t.2.1 ∧ (phaseCode t.2.2).isSome = true)
    (hnd : ((L ++ R).map (·.2.1)).Nodup) :
    str2terms true (String.ofList (xprintCharsNS L R)) = some (.ok (xsideOut (-1) L ++ xsideOut 1 R)) :=
  str2terms_xprint L R hL hR hid hnd

/-- Full statement for the phase-tagged grammar down to the 2-d array (`_xparse.dct2arr`, model
`terms2rows`): every printed term ends up in the row of its phase at the column of its chemical, all
other entries are zero.  Proved so far: the string → terms half (`parse_print_phased_terms`); the
terms → rows half is covered by the correspondence run only. -/
def parse_print_phased_statement : Prop :=
  ∀ (names : Names) (phases : List Nat) (L R : List XTerm), Resolves names → L ≠ [] → R ≠ [] →
    (∀ t ∈ L ++ R, IdentLike t.2.1 ∧ ∃ i, names.index t.2.1 = some i) →
    (∀ t ∈ L ++ R, ∃ code, phaseCode t.2.2 = some code ∧ code ∈ phases) → phases.Nodup →
    ((L ++ R).map (·.2.1)).Nodup → ((L ++ R).map fun t => names.index t.2.1).Nodup →
    ∃ rows, ((str2terms true (String.ofList (xprintCharsNS L R))).map
        fun r => r.bind (terms2rows names phases)) = some (.ok rows) ∧
      rows.length = phases.length ∧
      (∀ t ∈ L, ∀ i code p, names.index t.2.1 = some i → phaseCode t.2.2 = some code →
        phases.idxOf? code = some p → (rows.getD p []).getD i 0 = -t.1.val) ∧
      (∀ t ∈ R, ∀ i code p, names.index t.2.1 = some i → phaseCode t.2.2 = some code →
        phases.idxOf? code = some p → (rows.getD p []).getD i 0 = t.1.val)

/-- non-vacuity: a package (H2O | Water, H2, O2), the vector (+1.5, −2, −1): what is printed, and
that the hypotheses of the round trip hold for it -/
example : printReaction [(⟨2, 0⟩, "H2"), (⟨1, 0⟩, "O2")] [(⟨15, 1⟩, "H2O")] = "2 H2 + O2 -> 1.5 H2O" := by
  decide +kernel

example : IdentLike "H2O" ∧ IdentLike "H2" ∧ IdentLike "O2" :=
  ⟨⟨'H', ['2', 'O'], by decide, by decide, by decide, by decide⟩,
   ⟨'H', ['2'], by decide, by decide, by decide, by decide⟩,
   ⟨'O', ['2'], by decide, by decide, by decide, by decide⟩⟩

example : Resolves [["H2O", "Water"], ["H2"], ["O2"]] := by
  intro i hi
  have : i = 0 ∨ i = 1 ∨ i = 2 := by simp at hi; omega
  rcases this with rfl | rfl | rfl <;> decide +kernel

example : parseReaction [["H2O", "Water"], ["H2"], ["O2"]] "2 H2 + O2 -> 1.5 Water" = some (.ok [3/2, -2, -1]) := by
  decide +kernel

/-! ## a `ReactionSystem` re-checks its members' basis at every call -/

/-- The system keeps references to its member reactions; when one of them has been switched to
another basis since (`member.basis = 'wt'`), the call is refused (`RuntimeError`) instead of
mixing molar and weight stoichiometries — for `__call__` and for `force_reaction`, arrays and streams. -/
theorem mixed_basis_refused (o : RObj) (tol eps : Rat) (flat : Vec) (h : o.basesOk = false) :
    o.core tol flat = .error .basisMix ∧ o.coreForce eps flat = .error .basisMix := by
  unfold RObj.core RObj.coreForce
  simp [h]

/-- … so whenever a call returns, every member had the basis of the system (and all the
conservation theorems above, which assume one basis for the whole object, apply). -/
theorem return_implies_one_basis (o : RObj) (tol : Rat) (flat out : Vec) (h : o.core tol flat = .ok out) :
    ∀ b ∈ o.memberBases, b = o.basis := by
  unfold RObj.core at h
  split at h
  · rename_i hb
    intro b hbm
    have := (List.all_eq_true.mp hb) b hbm
    simpa using this
  · cases h

/-- non-vacuity: a by-mol system one of whose two members is by wt now -/
example : (RObj.mk (.system []) .mol [] [] [] [.mol, .wt]).core feasTol [] = .error .basisMix := by
  decide +kernel

/-! ## consumption at the level of the whole call -/

/-- The whole call (`__call__` on a stream of the object's own package, molar basis) of a single
reaction built from the coefficients `raw`: when the conversion is feasible (the clamp has nothing
to do) the reactant's flow — flattened over the phases — goes to `feed · (1 − X)` and every
other entry changes by `extent · ν_i / (−ν_r)`. -/
theorem call_consumes_X (raw : Vec) (r : Nat) (X : Rat) (rx : Rxn) (o : RObj) (tol : Rat)
    (rows rows' : List Vec) (hmk : Rxn.make raw r X = .ok rx) (hk : o.kind = .member (.single rx))
    (hb : o.basis = .mol) (hrect : ∀ row ∈ rows, row.length = o.pkg.length)
    (hcall : o.callOwn tol rows = .ok rows') (hnn : ∀ x ∈ rx.react rows.flatten, 0 ≤ x) :
    rows'.flatten.getD r 0 = rows.flatten.getD r 0 * (1 - X) ∧
      ∀ i, rows'.flatten.getD i 0 - rows.flatten.getD i 0
        = (rows.flatten.getD r 0 * X) * (raw.getD i 0 / (-(raw.getD r 0))) := by
  have hcore := callOwn_mol_flat o tol rows rows' hb hrect hcall
  obtain ⟨hfit, hf⟩ := core_ok o tol _ _ hcore
  have hreact : o.kind.react rows.flatten = rx.react rows.flatten := by rw [hk]; rfl
  rw [hreact] at hf
  obtain ⟨_, hout⟩ := (feasibility_ok_iff _ _ _).mp hf
  rw [clamp_of_nonneg _ hnn] at hout
  have hl : raw.length = rows.flatten.length := by
    have := hfit rx (by rw [hk]; simp [Kind.rxns, Member.rxns])
    rw [← rescale_length raw r rx.nu (make_ok raw r X rx hmk).1]; exact this
  rw [hout]
  exact ⟨consumes_X raw r X rx _ hmk hl, fun i => stoichiometric_change raw r X rx _ hmk hl i⟩

/-- … and on the weight basis (the stream is routed through its mass flows): the mass flows after the
call are the weight-basis reaction applied to the mass flows before — so every mass changes by
`extent · ν_i / (−ν_r)` with the weight coefficients — and the reactant's *molar* flow goes to
`feed · (1 − X)` all the same. -/
theorem call_consumes_X_wt (raw : Vec) (r : Nat) (X : Rat) (rx : Rxn) (o : RObj) (tol : Rat)
    (rows rows' : List Vec) (hmk : Rxn.make raw r X = .ok rx) (hk : o.kind = .member (.single rx))
    (hb : o.basis = .wt) (hrect : ∀ row ∈ rows, row.length = o.pkg.length)
    (hmwlen : o.mw.length = o.pkg.length) (hpos : ∀ x ∈ o.mw, 0 < x)
    (hcall : o.callOwn tol rows = .ok rows')
    (hnn : ∀ x ∈ rx.react (hmul rows.flatten (tile rows.length o.mw)), 0 ≤ x) :
    hmul rows'.flatten (tile rows.length o.mw) = rx.react (hmul rows.flatten (tile rows.length o.mw)) ∧
      rows'.flatten.getD r 0 = rows.flatten.getD r 0 * (1 - X) := by
  obtain ⟨out, hcore, hflat'⟩ := callOwn_wt_flat o tol rows rows' hb hrect hmwlen hcall
  obtain ⟨hfit, hf⟩ := core_ok o tol _ _ hcore
  have hreact : ∀ v, o.kind.react v = rx.react v := by intro v; rw [hk]; rfl
  rw [hreact] at hf
  obtain ⟨_, hout⟩ := (feasibility_ok_iff _ _ _).mp hf
  rw [clamp_of_nonneg _ hnn] at hout
  have hfl := length_flatten_rect o.pkg.length rows hrect
  have hmwT : (tile rows.length o.mw).length = rows.length * o.pkg.length := by rw [length_tile, hmwlen]
  have hml : (hmul rows.flatten (tile rows.length o.mw)).length = rows.length * o.pkg.length := by
    rw [length_hmul _ _ (by rw [hfl, hmwT]), hfl]
  have hnul : rx.nu.length = (hmul rows.flatten (tile rows.length o.mw)).length :=
    hfit rx (by rw [hk]; simp [Kind.rxns, Member.rxns])
  have hl : raw.length = (hmul rows.flatten (tile rows.length o.mw)).length := by
    rw [← rescale_length raw r rx.nu (make_ok raw r X rx hmk).1]; exact hnul
  have hposT : ∀ x ∈ tile rows.length o.mw, 0 < x := fun x hx => hpos x (mem_tile _ _ x hx)
  have hrl : (rx.react (hmul rows.flatten (tile rows.length o.mw))).length = (tile rows.length o.mw).length := by
    rw [length_react rx _ hnul, hml, hmwT]
  constructor
  · -- (out ⊘ MW) ⊙ MW = out
    rw [hflat', hout]
    have hcancel : ∀ (v w : Vec), v.length = w.length → (∀ x ∈ w, x ≠ 0) → hmul (hdiv v w) w = v := by
      intro v
      induction v with
      | nil => intro w _ _; simp
      | cons x xs ih =>
        intro w hlen hz
        cases w with
        | nil => simp at hlen
        | cons y ys =>
          simp only [List.length_cons, Nat.add_right_cancel_iff] at hlen
          have hy : y ≠ 0 := hz y (by simp)
          simp only [hdiv_cons, hmul_cons, ih ys hlen (fun t ht => hz t (by simp [ht]))]
          congr 1; field_simp
    exact hcancel _ _ hrl (fun x hx => (hposT x hx).ne')
  · rw [hflat', hout, getD_hdiv, consumes_X raw r X rx _ hmk hl, getD_hmul]
    have hr0 : raw.getD r 0 ≠ 0 := ((rescale_ok_iff raw r rx.nu).mp (make_ok raw r X rx hmk).1).1
    have hrlt : r < (tile rows.length o.mw).length := by
      rw [hmwT, ← hml, ← hl]; exact getD_lt_of_ne_zero raw r hr0
    have hmr : (tile rows.length o.mw).getD r 0 ≠ 0 := (hposT _ (getD_mem _ r hrlt)).ne'
    field_simp

/-- non-vacuity of the call-level statements: 2 H2 + O2 → 2 H2O (reactant H2, X = 1/2) on the stream
(H2O, H2, O2) = (0, 4, 3), molar basis, and its weight-basis version on the same stream -/
example : (RObj.mk (.member (.single ⟨[1, -1, -1/2], 1, 1/2⟩)) .mol [] [0, 1, 2] [18, 2, 32] []).callOwn
      feasTol [[0, 4, 3]] = .ok [[2, 2, 2]] ∧
    (RObj.mk (.member (.single ⟨[9, -1, -8], 1, 1/2⟩)) .wt [] [0, 1, 2] [18, 2, 32] []).callOwn
      feasTol [[0, 4, 3]] = .ok [[2, 2, 2]] := by
  constructor <;> decide +kernel

/-! ## `correct_atomic_balance` keeps the reaction on a per-reactant basis -/

/-- Whatever the solver returns for the coefficients that are not held constant (`x`, any constants):
after `correct_atomic_balance` the reactant's coefficient is −1 again, so the reaction still consumes
exactly `X · feed` of its reactant (`consumes_X`, `call_consumes_X` apply to the result), … -/
theorem rebalance_per_reactant (rx rx' : Rxn) (basis : Basis) (mw x : Vec)
    (h : rx.rebalance basis mw x = .ok rx') :
    rx'.nu.getD rx'.r 0 = -1 ∧ rx'.r = rx.r ∧ rx'.X = rx.X := by
  unfold Rxn.rebalance at h
  exact ⟨make_reactant _ _ _ _ h, (make_ok _ _ _ _ h).2.1, (make_ok _ _ _ _ h).2.2⟩

theorem rebalance_consumes_X (rx rx' : Rxn) (x n : Vec) (h : rx.rebalance .mol [] x = .ok rx')
    (hfit : x.length = n.length) : (rx'.react n).getD rx.r 0 = n.getD rx.r 0 * (1 - rx.X) := by
  unfold Rxn.rebalance at h
  exact consumes_X x rx.r rx.X rx' n h hfit

/-- … and a solution that balances a row (an element) stays balanced through the write-back and the
rescaling, on the molar basis and — per unit mass — on the weight basis. -/
theorem rebalance_balanced (a : Vec) (rx rx' : Rxn) (x : Vec) (h : rx.rebalance .mol [] x = .ok rx')
    (hb : dot a x = 0) : dot a rx'.nu = 0 := by
  unfold Rxn.rebalance at h
  exact rescale_balanced a x rx.r rx'.nu (make_ok _ _ _ _ h).1 hb

theorem rebalance_balanced_wt (a mw : Vec) (rx rx' : Rxn) (x : Vec) (h : rx.rebalance .wt mw x = .ok rx')
    (hmw : ∀ y ∈ mw, y ≠ 0) (hl : x.length = mw.length) (hb : dot a x = 0) :
    dot (hdiv a mw) rx'.nu = 0 := by
  unfold Rxn.rebalance at h
  refine rescale_balanced (hdiv a mw) (hmul x mw) rx.r rx'.nu (make_ok _ _ _ _ h).1 ?_
  rw [dot_hdiv_hmul a x mw hmw hl, hb]

/-- non-vacuity: CH4 + O2 → H2O + CO2 (reactant O2) balanced to x = (−1, −2, 2, 1) over
(CH4, O2, H2O, CO2): the result is per mole of O2 -/
example : (Rxn.mk [-1, -1, 1, 1] 1 (2/5)).rebalance .mol [] [-1, -2, 2, 1]
    = .ok ⟨[-1/2, -1, 1, 1/2], 1, 2/5⟩ := by decide +kernel



/-! ## `Reaction.reset_chemicals`: the same reaction over another property package -/

/-- After `reset_chemicals` the reactant is still the same chemical (the index is looked up again by
identity in the new package, in the same phase row), the conversion is unchanged, and every phase row of
the stoichiometry holds, chemical by chemical, the coefficients it held before. -/
theorem repackage_same_reaction (src dst : List Nat) (nrows : Nat) (rx rx' : Rxn)
    (h : rx.repackage src dst nrows = .ok rx') :
    dst.getD (rx'.r % dst.length) 0 = src.getD (rx.r % src.length) 0 ∧
      rx'.r / dst.length = rx.r / src.length ∧ rx'.X = rx.X ∧
      ∃ rows', rx'.nu = rows'.flatten ∧
        List.Forall₂ (fun row row' => ∀ u, lift dst row' u = lift src row u)
          (chunk src.length nrows rx.nu) rows' := by
  obtain ⟨rows', j, hrows, hj, hnu, hr, hX⟩ := repackage_ok src dst nrows rx rx' h
  obtain ⟨hjl, hjv⟩ := idxOf?_getD dst _ j hj
  have hpos : 0 < dst.length := by omega
  refine ⟨?_, ?_, hX, rows', hnu, ?_⟩
  · rw [hr, Nat.mul_add_mod_of_lt hjl]; exact hjv
  · rw [hr, Nat.add_comm, Nat.add_mul_div_right _ _ hpos, Nat.div_eq_of_lt hjl, Nat.zero_add]
  · have := remapRows_ok src dst _ rows' hrows
    exact this.imp (fun {row row'} hrow u => remap_keeps_every_chemical src dst row row' hrow u)

/-- non-vacuity: A → B (reactant A, second phase row) moved from package (A, B, C) to (C, A) fails for
want of B; to (B, C, A) it becomes column 2 of the second row -/
example : (Rxn.mk [0, 0, 0, -1, 1, 0] 3 (1/2)).repackage [0, 1, 2] [1, 2, 0] 2
      = .ok ⟨[0, 0, 0, 1, 0, -1], 5, 1/2⟩ ∧
    (Rxn.mk [0, 0, 0, -1, 1, 0] 3 (1/2)).repackage [0, 1, 2] [2, 0] 2 = .error .undefinedChemical := by
  constructor <;> decide +kernel

end ThermoVerif.Props.C05
