import ThermoVerif.Lemmas.C09Array3Aux
-- Only statements of the property live in this file.  Helper lemmas and the auxiliary vocabulary they need are in
-- Lemmas/C09Array3Aux.lean (same namespace); clauses without a theorem are listed at the end of Props/C09.lean.
/-
Property C09, 2-d clauses, third part: the remaining reductions (axis=0 any / all / mean,
axis=None max / min / mean, keepdims) and 2-d get / set.
-/
namespace ThermoVerif.Props.C09
open ThermoVerif.Sparse ThermoVerif.Dense

/-! ### (3) reductions: `axis=0` for any / all / mean -/

/-- **`sa.any(axis=0)`** of a rectangular float array -/
theorem dense_hom_sa_any_axis0 (rows : List SV) (hw : ∀ a ∈ rows, a.WF)
    (hrect : ∀ a ∈ rows, a.size = vectorSize (svRows rows)) :
    ∃ v, reduceSA .any (svRows rows) (some 0) false = .ok (.vec v) ∧ VecWF v ∧
      (transpose (denseRows rows)).mapM (redVec .any) = .ok v.toDense := by
  refine ⟨.slv ⟨vectorSize (svRows rows), unionKeys (vectorSize (svRows rows)) (svRows rows)⟩, ?_, unionKeys_wf _ _, ?_⟩
  · simp only [reduceSA, Bool.false_eq_true, ↓reduceIte]
  rw [transpose_dense rows hrect, mapM_map]
  simp only [redVec]
  rw [mapM_ok]
  congr 1
  show _ = SLV.toDense _
  unfold SLV.toDense
  apply List.map_congr_left
  intro j hj
  have hj' : j < vectorSize (svRows rows) := List.mem_range.mp hj
  congr 1
  rw [unionKeys_mem _ _ _ hj']
  simp only [svRows, List.any_map, Function.comp_def]
  apply any_congr_mem
  intro a ha
  rw [keys_contains_iff a (hw a ha)]

/-- **`sa.all(axis=0)`** of a rectangular, non-empty float array -/
theorem dense_hom_sa_all_axis0 (rows : List SV) (hne : rows ≠ []) (hw : ∀ a ∈ rows, a.WF)
    (hrect : ∀ a ∈ rows, a.size = vectorSize (svRows rows)) :
    ∃ v, reduceSA .all (svRows rows) (some 0) false = .ok (.vec v) ∧ VecWF v ∧
      (transpose (denseRows rows)).mapM (redVec .all) = .ok v.toDense := by
  refine ⟨.slv (SLV.ofPred (vectorSize (svRows rows)) (fun i => (svRows rows).all (fun r => r.keys.contains i))), ?_, ofPred_wf _ _, ?_⟩
  · cases rows with
    | nil => exact absurd rfl hne
    | cons a rows => simp only [reduceSA, svRows, List.map_cons, Bool.false_eq_true, ↓reduceIte]
  rw [transpose_dense rows hrect, mapM_map]
  simp only [redVec]
  rw [mapM_ok]
  congr 1
  show _ = SLV.toDense _
  rw [ofPred_toDense]
  unfold vecOf
  apply List.map_congr_left
  intro j _
  congr 1
  simp only [svRows, List.all_map, Function.comp_def]
  apply all_congr_mem
  intro a ha
  rw [keys_contains_iff a (hw a ha)]

/-- **`sa.mean(axis=0)`** of a rectangular, non-empty float array -/
theorem dense_hom_sa_mean_axis0 (rows : List SV) (hne : rows ≠ [])
    (hrect : ∀ a ∈ rows, a.size = vectorSize (svRows rows)) :
    ∃ v, reduceSA .mean (svRows rows) (some 0) false = .ok (.vec v) ∧ VecWF v ∧
      (transpose (denseRows rows)).mapM (redVec .mean) = .ok v.toDense := by
  have hlen0 : rows.length ≠ 0 := by intro h; exact hne (List.length_eq_zero_iff.mp h)
  have hlenq : ((rows.length : Nat) : Rat) ≠ 0 := by exact_mod_cast hlen0
  have hemp : (svRows rows).isEmpty = false := by cases rows <;> simp_all [svRows]
  refine ⟨.sv ⟨vectorSize (svRows rows), (Dct.tabulate (vectorSize (svRows rows))
      (fun i => ((svRows rows).map (·.get i)).foldl (· + ·) 0)).mapVals (· / ((svRows rows).length : Rat)), false⟩, ?_, ?_, ?_⟩
  · simp only [reduceSA, hemp, Bool.false_eq_true, ↓reduceIte]
  · exact Dct.wf_mapVals (Dct.wf_tabulate _ _) _ (fun y hy => div_ne_zero hy (by simpa [svRows] using hlenq))
  rw [transpose_dense rows hrect, mapM_map]
  have hcol : ∀ j, redVec .mean (rows.map (fun a => a.get j)) =
      .ok (vsum (rows.map (fun a => a.get j)) / (rows.length : Rat)) := by
    intro j; simp [redVec, hlen0]
  simp only [hcol]
  rw [mapM_ok]
  congr 1
  symm
  show SV.toDense _ = _
  apply SV.toDense_of_get _ _ _ rfl
  intro i hi
  rw [SV.get_def]; dsimp only
  rw [Dct.get_mapVals _ (by simp), Dct.get_tabulate]
  have hi' : i < vectorSize (svRows rows) := hi
  simp [hi', vsum, svRows, List.map_map, Function.comp_def, VecObj.get]
  simp [svRows] at hi'
  simp [hi']

/-! ### `axis=None` for max / min / mean -/

/-- **`sa.max()`** (non-empty array with non-empty rows): the maximum of the row maxima is the maximum
of all elements of the dense image -/
theorem dense_hom_sa_max_all (rows : List SV) (hne : rows ≠ []) (hw : ∀ a ∈ rows, a.WF ∧ a.size ≠ 0) :
    ∃ x, reduceSA .max (svRows rows) none false = .ok (.num x) ∧ redVec .max (flat (denseRows rows)) = .ok x := by
  obtain ⟨l, h1, h2⟩ := rows_max rows hw
  obtain ⟨s1, s2⟩ := mapM_redVec_max_spec _ _ h2
  have hlne : l ≠ [] := by
    intro e; subst e
    cases rows with
    | nil => exact hne rfl
    | cons a rows =>
      obtain ⟨m, hm, _⟩ := s2 a.toDense (by simp [denseRows])
      cases hm
  cases hx : vmax l with
  | none => exact absurd ((vmax_none_iff l).mp hx) hlne
  | some x =>
    obtain ⟨hx1, hx2⟩ := vmax_some l x hx
    refine ⟨x, by simp only [reduceSA, h1, hx, Bool.false_eq_true, ↓reduceIte], ?_⟩
    simp only [redVec]
    have : vmax (flat (denseRows rows)) = some x := by
      apply vmax_eq_of
      · obtain ⟨r, hr, hv⟩ := s1 x hx1
        exact (mem_flat _ _).mpr ⟨r, hr, (vmax_some r x hv).1⟩
      · intro y hy
        obtain ⟨r, hr, hyr⟩ := (mem_flat _ _).mp hy
        obtain ⟨m, hm, hv⟩ := s2 r hr
        exact le_trans ((vmax_some r m hv).2 y hyr) (hx2 m hm)
    rw [this]

/-- **`sa.min()`** (non-empty array with non-empty rows): the minimum of the row minima is the minimum
of all elements of the dense image -/
theorem dense_hom_sa_min_all (rows : List SV) (hne : rows ≠ []) (hw : ∀ a ∈ rows, a.WF ∧ a.size ≠ 0) :
    ∃ x, reduceSA .min (svRows rows) none false = .ok (.num x) ∧ redVec .min (flat (denseRows rows)) = .ok x := by
  obtain ⟨l, h1, h2⟩ := rows_min rows hw
  obtain ⟨s1, s2⟩ := mapM_redVec_min_spec _ _ h2
  have hlne : l ≠ [] := by
    intro e; subst e
    cases rows with
    | nil => exact hne rfl
    | cons a rows =>
      obtain ⟨m, hm, _⟩ := s2 a.toDense (by simp [denseRows])
      cases hm
  cases hx : vmin l with
  | none => exact absurd ((vmin_none_iff l).mp hx) hlne
  | some x =>
    obtain ⟨hx1, hx2⟩ := vmin_some l x hx
    refine ⟨x, by simp only [reduceSA, h1, hx, Bool.false_eq_true, ↓reduceIte], ?_⟩
    simp only [redVec]
    have : vmin (flat (denseRows rows)) = some x := by
      apply vmin_eq_of
      · obtain ⟨r, hr, hv⟩ := s1 x hx1
        exact (mem_flat _ _).mpr ⟨r, hr, (vmin_some r x hv).1⟩
      · intro y hy
        obtain ⟨r, hr, hyr⟩ := (mem_flat _ _).mp hy
        obtain ⟨m, hm, hv⟩ := s2 r hr
        exact le_trans (hx2 m hm) ((vmin_some r m hv).2 y hyr)
    rw [this]

/-- **`sa.mean()`** of a non-empty float array -/
theorem dense_hom_sa_mean_all (rows : List SV) (hw : ∀ a ∈ rows, a.WF)
    (htot : ((svRows rows).map (·.size)).foldl (· + ·) 0 ≠ 0) :
    ∃ x, reduceSA .mean (svRows rows) none false = .ok (.num x) ∧ redVec .mean (flat (denseRows rows)) = .ok x := by
  refine ⟨((svRows rows).map (·.sum)).foldl (· + ·) 0 / ((((svRows rows).map (·.size)).foldl (· + ·) 0 : Nat) : Rat), ?_, ?_⟩
  · simp only [reduceSA, htot, Bool.false_eq_true, ↓reduceIte]
  have hlen : (flat (denseRows rows)).length = ((svRows rows).map (·.size)).foldl (· + ·) 0 := by
    rw [length_flat]
    simp [denseRows, svRows, List.map_map, Function.comp_def, SV.toDense_length, VecObj.size]
  have hsum := (dense_hom_sa_sum_all rows hw).2
  simp only [redVec, Except.ok.injEq] at hsum
  simp only [redVec, hlen, htot, ↓reduceIte, Except.ok.injEq, hsum]
  simp only [svRows, List.map_map, Function.comp_def, VecObj.sum]
  rw [foldl_add_eq, zero_add]

/-! ### `keepdims=True` for `axis=0` and `axis=None`: the same value, wrapped in one row

Both sides wrap: the sparse code returns a one-row array around the vector (or around the one-element
vector holding the number), NumPy returns shape `(1, n)` (or `(1, 1)`).  So every
`keepdims=False` theorem above carries over. -/

def wrapVec : RRes → RRes
  | .vec v => .rows [v]
  | x => x

def wrapNum (r : Red) : RRes → RRes
  | .num x => .rows [match r with | .any | .all => keepB (x != 0) | _ => keepN x]
  | x => x

theorem reduceSA_keepdims_axis0 (r : Red) (rows : List VecObj) :
    reduceSA r rows (some 0) true = (reduceSA r rows (some 0) false).map wrapVec := by
  cases r <;> simp only [reduceSA, ↓reduceIte, Bool.false_eq_true, Except.map, wrapVec] <;>
    (try (split <;> rfl))

theorem reduceSA_keepdims_none (r : Red) (rows : List VecObj) :
    reduceSA r rows none true = (reduceSA r rows none false).map (wrapNum r) := by
  cases r <;> simp only [reduceSA, ↓reduceIte, Bool.false_eq_true, Except.map, wrapNum, keepB_b2r]
  all_goals (repeat' split)
  all_goals (try rfl)
  all_goals (try simp_all)
  all_goals (rename_i h1 h2; exact absurd h1.symm (h2 _))

/-- NumPy's side of the same fact, for a 2-d array -/
theorem npReduce_keepdims_axis0 (r : Red) (a : ND) (ha : a.shape = .m) :
    npReduce r a (some 0) true = (npReduce r a (some 0) false).map (fun nd => ND.mat [nd.row0] nd.isBool) := by
  unfold npReduce
  simp only [ha]
  cases (transpose a.data).mapM (redVec r) <;> rfl

theorem npReduce_keepdims_none (r : Red) (a : ND) (ha : a.shape = .m) :
    npReduce r a none true = (npReduce r a none false).map (fun nd => ND.mat [[nd.x0]] nd.isBool) := by
  unfold npReduce
  simp only [ha]
  cases redVec r (a.data.foldr (· ++ ·) []) <;> rfl

/-- dense image of the wrapped results -/
theorem wrapped_dense (v : VecObj) (x : Rat) (b : Bool) :
    [v].map VecObj.toDense = [v.toDense] ∧ [keepN x].map VecObj.toDense = [[x]] ∧ [keepB b].map VecObj.toDense = [[b2r b]] :=
  ⟨rfl, by simp [keepN_toDense], by simp [keepB_toDense]⟩

/-! ### (4) 2-d get against `npGetIdx` (float rows, indices inside the array) -/

/-- the array as NumPy sees it -/
def ndOf (rows : List SV) : ND := ND.mat (denseRows rows)

/-- **`sa[k]`**: the row object itself, whose dense image is NumPy's `a[k]` -/
theorem dense_hom_sa_get_row (s : Store) (rowIds : List Nat) (rows : List SV) (k : Nat)
    (hrows : s.rowsVec rowIds = some (svRows rows)) (hk : k < rows.length) :
    ∃ rid a, getSA s rowIds (.one (.int k)) = .ok (.row rid) ∧ s.getVec rid = some (.sv a) ∧
      npGetIdx (ndOf rows) (.one (.int k)) = .ok (ND.vec a.toDense) := by
  have hrl : rowIds.length = rows.length := by
    have := rowsVec_length hrows; simpa [svRows] using this.symm
  obtain ⟨rid, v, h1, h2, h3⟩ := rowsVec_getElem s rowIds _ hrows k (by omega)
  have hv : v = .sv rows[k] := by
    simp only [svRows, List.getElem?_map, List.getElem?_eq_getElem hk, Option.map_some, Option.some.injEq] at h2
    exact h2.symm
  subst hv
  refine ⟨rid, rows[k], ?_, h3, ?_⟩
  · simp only [getSA, hrows, h1]
  · simp only [npGetIdx, ndOf, ND.mat, Idx.npPositions, denseRows, List.length_map, hk, ↓reduceIte, Idx.isInt,
      List.getD_cons_zero]
    congr 2
    simp [List.getD_eq_getElem?_getD, List.getElem?_eq_getElem hk]

/-- **`sa[k, j]`**: the element -/
theorem dense_hom_sa_get_elem (s : Store) (rowIds : List Nat) (rows : List SV) (k j : Nat)
    (hrows : s.rowsVec rowIds = some (svRows rows)) (hk : k < rows.length)
    (hrect : ∀ a ∈ rows, j < a.size) :
    getSA s rowIds (.two (.int k) (.int j)) = .ok (.num (rows[k].get j)) ∧
    npGetIdx (ndOf rows) (.two (.int k) (.int j)) = .ok (ND.scalar (rows[k].get j)) := by
  have hrl : rowIds.length = rows.length := by
    have := rowsVec_length hrows; simpa [svRows] using this.symm
  obtain ⟨rid, v, h1, h2, h3⟩ := rowsVec_getElem s rowIds _ hrows k (by omega)
  constructor
  · simp only [getSA, hrows, h1, svRows, List.getElem?_map, List.getElem?_eq_getElem hk, Option.map_some,
      vecGetDense, SV.getItem]
  · have hj0 : j < (shapeOf (denseRows rows)).2 := by
      unfold shapeOf denseRows
      cases rows with
      | nil => simp at hk
      | cons a rows => simpa [SV.toDense_length] using hrect a List.mem_cons_self
    simp only [npGetIdx, ndOf, ND.mat, Idx.npPositions, denseRows, List.length_map, hk, ↓reduceIte, Idx.isInt,
      Idx.isAdvanced, Bool.false_and, Bool.false_eq_true, List.getD_cons_zero]
    unfold denseRows at hj0
    simp only [hj0, ↓reduceIte, List.getD_cons_zero, Bool.and_self]
    congr 2
    simp only [ND.scalar, List.getD_eq_getElem?_getD, List.getElem?_map, List.getElem?_eq_getElem hk, Option.map_some,
      Option.getD_some]
    have := toDense_getD rows[k] j (hrect _ (List.getElem_mem hk))
    simp only [List.getD_eq_getElem?_getD] at this
    rw [this]

/-- **`sa[:, j]`**: the column as a dense vector -/
theorem dense_hom_sa_get_col (s : Store) (rowIds : List Nat) (rows : List SV) (j : Nat)
    (hrows : s.rowsVec rowIds = some (svRows rows)) (hne : rows ≠ []) (hrect : ∀ a ∈ rows, j < a.size) :
    getSA s rowIds (.two (.slice none none none) (.int j)) = .ok (.vec (rows.map (fun a => a.get j))) ∧
    npGetIdx (ndOf rows) (.two (.slice none none none) (.int j)) = .ok (ND.vec (rows.map (fun a => a.get j))) := by
  have hj0 : j < (shapeOf (denseRows rows)).2 := by
    unfold shapeOf denseRows
    cases rows with
    | nil => exact absurd rfl hne
    | cons a rows => simpa [SV.toDense_length] using hrect a List.mem_cons_self
  constructor
  · simp only [getSA, hrows, Idx.isOpen, Bool.true_and, Bool.false_eq_true, ↓reduceIte]
    have hany : ((List.range (svRows rows).length).any fun x => decide (x ≥ (svRows rows).length)) = false := by
      rw [List.any_eq_false]; intro x hx; simpa using List.mem_range.mp hx
    simp only [hany, Bool.false_eq_true, ↓reduceIte, Except.ok.injEq, SAGet.vec.injEq]
    rw [filterMap_range_getElem?]
    simp [svRows, vecGetDense, SV.getItem]
  · simp only [npGetIdx, ndOf, ND.mat, Idx.npPositions, hj0, ↓reduceIte, Idx.isInt, Idx.isAdvanced,
      Bool.false_and, Bool.false_eq_true, List.getD_cons_zero, Bool.and_false]
    congr 2
    simp only [ND.vec, npSlice, pyRange, Option.getD_none, denseRows, List.length_map, Nat.min_self, Nat.zero_le,
      Nat.min_eq_left, one_ne_zero, ↓reduceIte, Nat.sub_zero, Nat.add_sub_cancel, Nat.div_one, Nat.mul_one, Nat.zero_add]
    apply List.ext_getElem
    · simp
    · intro i h1 h2
      have hi : i < rows.length := by simpa using h2
      simp only [List.getElem_map, List.getElem_range, List.getD_eq_getElem?_getD, List.getElem?_map,
        List.getElem?_eq_getElem hi, Option.map_some, Option.getD_some]
      have := toDense_getD rows[i] j (hrect _ (List.getElem_mem hi))
      simp only [List.getD_eq_getElem?_getD] at this
      simpa using this

/-- the conclusion shared by the row-selecting reads: a new array over *existing* row objects
(no copy), equal to NumPy's selection -/
def ShareAgrees (s : Store) (rows : List SV) (i : Idx2) (g : Except Err SAGet) : Prop :=
  ∃ ids rows', g = .ok (.share ids) ∧ s.rowsVec ids = some (svRows rows') ∧ (∀ c ∈ rows', c ∈ rows) ∧
    npGetIdx (ndOf rows) i = .ok (ndOf rows')

/-- **`sa[[i, j, …]]`** -/
theorem dense_hom_sa_get_fancy (s : Store) (rowIds : List Nat) (rows : List SV) (l : List Nat)
    (hrows : s.rowsVec rowIds = some (svRows rows)) (hl : ∀ k ∈ l, k < rows.length) :
    ShareAgrees s rows (.one (.fancy l)) (getSA s rowIds (.one (.fancy l))) := by
  obtain ⟨rows', h1, h2, h3⟩ := rowsVec_sel s rowIds rows hrows l hl
  refine ⟨_, rows', ?_, h1, h2, ?_⟩
  · have : (l.all fun x => decide (x < (svRows rows).length)) = true := by
      rw [List.all_eq_true]; intro x hx; simpa [svRows] using hl x hx
    simp only [getSA, hrows, rowSel, this, ↓reduceIte, Except.map]
  · rw [ndOf, npGetIdx_mat_one _ _ l (npPositions_fancy _ l (by simpa [denseRows] using hl))]
    simp only [Idx.isInt, Bool.false_eq_true, ↓reduceIte, ndOf, h3]

/-- **`sa[mask]`** with a boolean row mask of the right length -/
theorem dense_hom_sa_get_mask (s : Store) (rowIds : List Nat) (rows : List SV) (m : List Bool)
    (hrows : s.rowsVec rowIds = some (svRows rows)) (hm : m.length = rows.length) :
    ShareAgrees s rows (.one (.mask m)) (getSA s rowIds (.one (.mask m))) := by
  have hl : ∀ k ∈ maskIdx m, k < rows.length := fun k hk => hm ▸ maskIdx_lt m k hk
  obtain ⟨rows', h1, h2, h3⟩ := rowsVec_sel s rowIds rows hrows _ hl
  refine ⟨_, rows', ?_, h1, h2, ?_⟩
  · have : ((maskIdx m).all fun x => decide (x < (svRows rows).length)) = true := by
      rw [List.all_eq_true]; intro x hx; simpa [svRows] using hl x hx
    simp only [getSA, hrows, rowSel, this, ↓reduceIte, Except.map]
  · have : m.length = (denseRows rows).length := by simpa [denseRows] using hm
    simp only [npGetIdx, ndOf, ND.mat, Idx.npPositions, this, ↓reduceIte, Idx.isInt, h3, Bool.false_eq_true]

/-- **`sa[a:b:c]`** (a proper slice; `sa[:]` is the array itself) -/
theorem dense_hom_sa_get_slice (s : Store) (rowIds : List Nat) (rows : List SV) (a b c : Option Nat)
    (hrows : s.rowsVec rowIds = some (svRows rows)) (hopen : (Idx.slice a b c).isOpen = false) :
    ShareAgrees s rows (.one (.slice a b c)) (getSA s rowIds (.one (.slice a b c))) := by
  have hl : ∀ k ∈ npSlice rows.length a b c, k < rows.length := npSlice_lt _ a b c
  obtain ⟨rows', h1, h2, h3⟩ := rowsVec_sel s rowIds rows hrows _ hl
  refine ⟨_, rows', ?_, h1, h2, ?_⟩
  · simp only [getSA, hrows, hopen, Bool.false_eq_true, ↓reduceIte, svRows, List.length_map]
  · have hlen : (denseRows rows).length = rows.length := by simp [denseRows]
    simp only [npGetIdx, ndOf, ND.mat, Idx.npPositions, Idx.isInt, Bool.false_eq_true, ↓reduceIte, h3, hlen]

/-- **`sa[:]`** is the array itself and NumPy's `a[:]` has the same contents -/
theorem dense_hom_sa_get_all (s : Store) (rowIds : List Nat) (rows : List SV)
    (hrows : s.rowsVec rowIds = some (svRows rows)) :
    getSA s rowIds (.one (.slice none none none)) = .ok .self ∧
    npGetIdx (ndOf rows) (.one (.slice none none none)) = .ok (ndOf rows) := by
  constructor
  · simp only [getSA, hrows, Idx.isOpen, ↓reduceIte]
  · simp only [npGetIdx, ndOf, ND.mat, Idx.npPositions, Idx.isInt, Bool.false_eq_true, ↓reduceIte, npSlice, pyRange,
      Option.getD_none, Nat.min_self, Nat.zero_le, Nat.min_eq_left, one_ne_zero, Nat.sub_zero, Nat.add_sub_cancel,
      Nat.div_one, Nat.mul_one, Nat.zero_add]
    congr 2
    apply List.ext_getElem
    · simp
    · intro i h1 h2
      simp [List.getD_eq_getElem?_getD, List.getElem?_eq_getElem h2]

/-- **`sa[[i, …], j]`** and **`sa[[i, …], [j, …]]`** (paired): dense vectors of elements -/
theorem dense_hom_sa_get_fancy_int (s : Store) (rowIds : List Nat) (rows : List SV) (ms : List Nat) (j : Nat)
    (hrows : s.rowsVec rowIds = some (svRows rows)) (hms : ∀ k ∈ ms, k < rows.length) (hne : rows ≠ [])
    (hrect : ∀ a ∈ rows, j < a.size) :
    ∃ v, getSA s rowIds (.two (.fancy ms) (.int j)) = .ok (.vec v) ∧
      npGetIdx (ndOf rows) (.two (.fancy ms) (.int j)) = .ok (ND.vec v) := by
  have hj0 : j < (shapeOf (denseRows rows)).2 := by
    unfold shapeOf denseRows
    cases rows with
    | nil => exact absurd rfl hne
    | cons a rows => simpa [SV.toDense_length] using hrect a List.mem_cons_self
  have h1 : (ms.all fun x => decide (x < (svRows rows).length)) = true := by
    rw [List.all_eq_true]; intro x hx; simpa [svRows] using hms x hx
  refine ⟨ms.filterMap (fun k => ((svRows rows)[k]?).map (·.get j)), ?_, ?_⟩
  · simp only [getSA, hrows, h1, ↓reduceIte]
  · rw [ndOf, npGetIdx_mat_two _ _ _ ms [j] (npPositions_fancy _ ms (by simpa [denseRows] using hms))
      (by simp only [Idx.npPositions, hj0, ↓reduceIte])]
    simp only [Idx.isInt, Idx.isAdvanced, Bool.and_false, Bool.false_and, Bool.false_eq_true, ↓reduceIte,
      List.getD_cons_zero]
    congr 2
    rw [filterMap_getElem?_of_lt _ (svRows rows) (.sv (default : SV)) ms (by simpa [svRows] using hms)]
    apply List.map_congr_left
    intro k hk
    have hk' := hms k hk
    simp only [svRows, denseRows, List.getD_eq_getElem?_getD, List.getElem?_map, List.getElem?_eq_getElem hk',
      Option.map_some, Option.getD_some, VecObj.get]
    have := toDense_getD rows[k] j (hrect _ (List.getElem_mem hk'))
    simp only [List.getD_eq_getElem?_getD] at this
    exact this

/-- what remains correspondence-only for 2-d reads: `sa[k, cols]` / `sa[rows, a:b]` /
`sa[a:b, cols]` / paired fancy `(rows, cols)`, and every boolean-row array -/
def dense_hom_sa_get_rest_statement : Prop :=
  ∀ (s : Store) (rowIds : List Nat) (rows : List SV) (i : Idx2) (g : SAGet) (r : ND),
    s.rowsVec rowIds = some (svRows rows) → (∀ a ∈ rows, a.WF) →
    getSA s rowIds i = .ok g → npGetIdx (ndOf rows) i = .ok r →
    match g with
    | .num x => r = ND.scalar x
    | .vec v => r = ND.vec v
    | .mat A => r = ND.mat A
    | .row rid => ∃ a, s.getVec rid = some (.sv a) ∧ r = ND.vec a.toDense
    | .share ids => ∃ rows', s.rowsVec ids = some (svRows rows') ∧ r = ndOf rows'
    | .self => r = ndOf rows

/-! ### (4) 2-d set against `npSetIdx` -/

/-- **`sa[k, j] = x`** (scalar value): exactly row `k` changes, into the row NumPy computes -/
theorem dense_hom_sa_set_elem (s s' : Store) (rowIds : List Nat) (rows : List SV) (k j : Nat) (x : Rat)
    (val : Operand) (hrows : s.rowsVec rowIds = some (svRows rows)) (hwf : ∀ a ∈ rows, a.WF)
    (hk : k < rows.length) (hrect : ∀ a ∈ rows, j < a.size) (hv : saVal s val = some (.scalar x))
    (h : setSA s rowIds (.two (.int k) (.int j)) val = .ok s') :
    ∃ rid c, rowIds[k]? = some rid ∧ s' = s.set rid (.sv c) ∧ c.WF ∧
      npSetIdx (ndOf rows) (.two (.int k) (.int j)) (ND.scalar x) =
        .ok (ND.mat ((denseRows rows).set k c.toDense)) := by
  have hrl : rowIds.length = rows.length := by
    have := rowsVec_length hrows; simpa [svRows] using this.symm
  obtain ⟨rid, v, h1, h2, h3⟩ := rowsVec_getElem s rowIds _ hrows k (by omega)
  have hv' : v = .sv rows[k] := by
    simp only [svRows, List.getElem?_map, List.getElem?_eq_getElem hk, Option.map_some, Option.some.injEq] at h2
    exact h2.symm
  subst hv'
  unfold setSA at h
  split at h
  · cases h
  rw [hv] at h
  simp only [h1, assignRows, SAVal.rowVal, List.foldlM_cons, List.foldlM_nil, setRow, h3, bind, Except.bind,
    Except.map] at h
  split at h
  · cases h
  rename_i c hc
  cases hcc : rows[k].setItem (.int j) (.scalar x) false with
  | error e => rw [hcc] at hc; cases hc
  | ok c' =>
    rw [hcc] at hc
    simp only [Except.ok.injEq] at hc
    have hs' : s' = s.set rid (.sv c') := by
      simp only [pure, Except.pure, Except.ok.injEq] at h
      rw [← h, ← hc]
    have hmem : rows[k] ∈ rows := List.getElem_mem hk
    obtain ⟨cw, cd, _⟩ := dense_hom_setitem_int rows[k] c' j x (hwf _ hmem) (hrect _ hmem) hcc
    refine ⟨rid, c', h1, hs', cw, ?_⟩
    have hj0 : j < (shapeOf (denseRows rows)).2 := by
      unfold shapeOf denseRows
      cases rows with
      | nil => simp at hk
      | cons a rows => simpa [SV.toDense_length] using hrect a List.mem_cons_self
    have hk' : k < (denseRows rows).length := by simpa [denseRows] using hk
    simp only [npSetIdx, ndOf, ND.mat, ND.scalar, Idx.npPositions, hk', hj0, ↓reduceIte, Idx.isInt, Idx.isAdvanced,
      Bool.false_and, Bool.false_eq_true, List.getD_cons_zero, List.map_cons, List.map_nil, List.length_cons,
      List.length_nil, ND.x0, ND.row0, castTo, List.replicate, List.zip_cons_cons, List.zip_nil_right,
      List.foldl_cons, List.foldl_nil, setEl, Except.ok.injEq, ND.mk.injEq, true_and]
    rw [cd, setAt]
    congr 1
    simp [denseRows, List.getD_eq_getElem?_getD, List.getElem?_eq_getElem hk]

/-- what remains correspondence-only for 2-d writes: every other index form and every non-scalar value -/
def dense_hom_sa_set_rest_statement : Prop :=
  ∀ (s s' : Store) (rowIds : List Nat) (rows rows' : List SV) (i : Idx2) (val : Operand) (v : ND),
    rowIds.Nodup → s.rowsVec rowIds = some (svRows rows) → (∀ a ∈ rows, a.WF) →
    val.toNDr s false = some v → setSA s rowIds i val = .ok s' → s'.rowsVec rowIds = some (svRows rows') →
    (∃ r, npSetIdx (ndOf rows) i v = .ok r) →
    npSetIdx (ndOf rows) i v = .ok (ndOf rows')

/-! ### shape rejection does not look at the stored entries

An operand that holds no entry (built from zeros, or emptied by cancellation / `*= 0` / `clear()`) is
rejected exactly like any other operand of its length. -/

theorem shape_rejection_ignores_entries (op : Arith) (ip : Bool) (a b : SV) (da db : Dct) :
    SV.arithSparse op ip { a with dct := da } { b with dct := db } = .error .shape ↔
      SV.arithSparse op ip a b = .error .shape := by
  rw [err_iff_arith_sparse, err_iff_arith_sparse]

theorem shape_rejection_of_empty_operand (op : Arith) (ip : Bool) (a b : SV)
    (h : ¬ ShapeOK a.size b.size) :
    SV.arithSparse op ip { a with dct := [] } b = .error .shape ∧
    SV.arithSparse op ip a { b with dct := [] } = .error .shape ∧
    SV.arithSparse op ip { a with dct := [] } { b with dct := [] } = .error .shape := by
  refine ⟨?_, ?_, ?_⟩ <;> rw [err_iff_arith_sparse] <;> exact h

theorem cmp_shape_rejection_ignores_entries (op : Cmp) (a b : SV) (da db : Dct) (e : Err) :
    ({ a with dct := da } : SV).cmpSparse op { b with dct := db } = .error e ↔ a.cmpSparse op b = .error e := by
  rw [cmpSparse_error_iff, cmpSparse_error_iff]

/-! ## Non-vacuity -/

namespace Ex3
def rows : List SV := [⟨2, [(0, 1)], false⟩, ⟨2, [(0, 3), (1, -2)], false⟩]
def s : Store := [Obj.sv ⟨2, [(0, 1)], false⟩, Obj.sv ⟨2, [(1, -2)], false⟩, Obj.sa [0, 1]]
def srows : List SV := [⟨2, [(0, 1)], false⟩, ⟨2, [(1, -2)], false⟩]
end Ex3

/-- the column means of a 2×2 array: NumPy gives `[2, -1]` -/
example : (transpose (denseRows Ex3.rows)).mapM (redVec .mean) = .ok [2, -1] := by decide +kernel

/-- `sa[1, 1]` (`dense_hom_sa_get_elem` applies: the rows are in the store, the index is inside the array) -/
example : getSA Ex3.s [0, 1] (.two (.int 1) (.int 1)) = .ok (.num (Ex3.srows[1].get 1)) ∧
    npGetIdx (ndOf Ex3.srows) (.two (.int 1) (.int 1)) = .ok (ND.scalar (Ex3.srows[1].get 1)) :=
  dense_hom_sa_get_elem Ex3.s [0, 1] Ex3.srows 1 1 (by decide +kernel) (by decide) (by decide +kernel)

/-- `sa[0, 1] = 7` changes exactly row 0 and NumPy's array becomes `[[1, 7], [0, -2]]` -/
example : npSetIdx (ndOf Ex3.srows) (.two (.int 0) (.int 1)) (ND.scalar 7) = .ok (ND.mat [[1, 7], [0, -2]]) := by
  decide +kernel

/-- a length-3 operand without entries against a length-2 operand: rejected (`shape_rejection_of_empty_operand`) -/
example : SV.arithSparse .mul false ⟨3, [], false⟩ ⟨2, [(0, 1)], false⟩ = .error .shape :=
  (shape_rejection_of_empty_operand .mul false ⟨3, [(0, 5)], false⟩ ⟨2, [(0, 1)], false⟩ (by decide +kernel)).1

end ThermoVerif.Props.C09
