import ThermoVerif.Lemmas.C09Array2Aux
-- Only statements of the property live in this file.  Helper lemmas and the auxiliary vocabulary they need are in
-- Lemmas/C09Array2Aux.lean (same namespace); clauses without a theorem are listed at the end of Props/C09.lean.
/-
Property C09, 2-d clauses, second part: in-place operators of a SparseArray against `np2i`,
boolean-row arrays, the remaining reductions, 2-d get/set.
-/
namespace ThermoVerif.Props.C09
open ThermoVerif.Sparse ThermoVerif.Dense

/-! ### the row loop of the in-place templates -/

/-! ### (1) in-place 2-d operators against `np2i`

Guard: NumPy accepts the in-place shape (`InplaceOK` for every row) and the row objects of the target
are distinct (an array built by `sa[[0, 0]]` holds one object twice; NumPy has no counterpart). -/

/-- lifting of an in-place row kernel that keeps the row size to the 2-d reference `np2i` -/
theorem inplace_rows_hom_guard (f : Rat → Rat → Rat) (K : VecObj → Except Err VecObj) (y : Vec) (G : SV → Prop)
    (hK : ∀ a r, a.WF → G a → K (.sv a) = .ok r → ∃ c, r = .sv c ∧ c.WF ∧ c.size = a.size ∧ np1 f a.toDense y = .ok c.toDense) :
    ∀ (rows : List SV) (vs' : List VecObj), (∀ a ∈ rows, a.WF) → (∀ a ∈ rows, G a) → (svRows rows).mapM K = .ok vs' →
      ∃ rows', vs' = svRows rows' ∧ (∀ c ∈ rows', c.WF) ∧ rows'.map SV.size = rows.map SV.size ∧
        (denseRows rows).mapM (fun r => np1 f r y) = .ok (denseRows rows') := by
  intro rows
  induction rows with
  | nil =>
    intro vs' _ _ h
    simp [svRows, List.mapM_nil, pure, Except.pure] at h; subst h
    exact ⟨[], rfl, by simp, rfl, rfl⟩
  | cons a rows ih =>
    intro vs' hw hg h
    simp only [svRows, List.map_cons, List.mapM_cons] at h
    obtain ⟨r, hr, h'⟩ := except_bind_ok h
    obtain ⟨rs, hrs, h''⟩ := except_bind_ok h'
    simp only [pure, Except.pure, Except.ok.injEq] at h''; subst h''
    obtain ⟨c, e, hcw, hcs, hnp⟩ := hK a r (hw a List.mem_cons_self) (hg a List.mem_cons_self) hr
    subst e
    obtain ⟨rows', e', hw', hsz, hd⟩ := ih rs (fun x hx => hw x (List.mem_cons_of_mem _ hx)) (fun x hx => hg x (List.mem_cons_of_mem _ hx)) hrs
    subst e'
    refine ⟨c :: rows', rfl, ?_, by simp [hcs, hsz], ?_⟩
    · intro x hx
      rcases List.mem_cons.mp hx with e | e
      · subst e; exact hcw
      · exact hw' x e
    · simp only [denseRows, List.map_cons, List.mapM_cons] at hd ⊢
      rw [hnp, hd]; rfl

/-- what the theorems below conclude about `sa op= operand` -/
def InplaceAgrees (s s' : Store) (rowIds : List Nat) (rows : List SV) (f : Rat → Rat → Rat) (y : Vec) : Prop :=
  ∃ rows', s'.rowsVec rowIds = some (svRows rows') ∧ (∀ c ∈ rows', c.WF) ∧
    np2i f (denseRows rows) [y] = .ok (denseRows rows') ∧ (∀ j, j ∉ rowIds → s'[j]? = s[j]?)

/-- **`sa op= x`** (`+ − × ÷`, scalar operand) -/
theorem dense_hom_isa_scalar (s s' : Store) (op : BinOp) (ar : Arith) (hop : arithOf op = some ar)
    (rowIds : List Nat) (rows : List SV) (l : Lit) (x : Rat)
    (hnd : rowIds.Nodup) (hrows : s.rowsVec rowIds = some (svRows rows)) (hw : ∀ a ∈ rows, a.WF)
    (hred : l.reduce = .scalar x) (h : ibinSA s op rowIds (.lit l) = .ok s') :
    InplaceAgrees s s' rowIds rows op.fn [x] := by
  have hcmp : op.isCmp = false := by cases op <;> simp [arithOf] at hop <;> rfl
  simp only [ibinSA, hcmp, Bool.false_eq_true, ↓reduceIte, hrows, hred] at h
  split at h
  · cases h
  · obtain ⟨vs', hm, hr, hfr⟩ := foldlM_updRow_const _ rowIds s s' _ hnd hrows h
    obtain ⟨rows', e, hw', hsz, hd⟩ := inplace_rows_hom_guard op.fn _ [x] (fun _ => True)
      (fun a r ha _ hk => irow_hom_scalar op ar hop a x r ha hk) rows vs' hw (fun _ _ => trivial) hm
    subst e
    exact ⟨rows', hr, hw', np2i_single _ _ _ _ hsz hd, hfr⟩

/-- **`sa op= [..]`** (1-d literal of the row length or of length 1) -/
theorem dense_hom_isa_vector (s s' : Store) (op : BinOp) (ar : Arith) (hop : arithOf op = some ar)
    (rowIds : List Nat) (rows : List SV) (l : Lit) (v : Vec)
    (hnd : rowIds.Nodup) (hrows : s.rowsVec rowIds = some (svRows rows)) (hw : ∀ a ∈ rows, a.WF)
    (hok : ∀ a ∈ rows, InplaceOK a.size v.length)
    (hred : l.reduce = .vec v) (h : ibinSA s op rowIds (.lit l) = .ok s') :
    InplaceAgrees s s' rowIds rows op.fn v := by
  have hcmp : op.isCmp = false := by cases op <;> simp [arithOf] at hop <;> rfl
  simp only [ibinSA, hcmp, Bool.false_eq_true, ↓reduceIte, hrows, hred] at h
  split at h
  · cases h
  · obtain ⟨vs', hm, hr, hfr⟩ := foldlM_updRow_const _ rowIds s s' _ hnd hrows h
    -- the guard is per row: thread it through the WF predicate
    obtain ⟨rows', e, hw', hsz, hd⟩ := inplace_rows_hom_guard op.fn _ v (fun a => InplaceOK a.size v.length)
      (fun a r ha hg hk => irow_hom_array op ar hop a v r ha hg hk) rows vs' hw hok hm
    subst e
    exact ⟨rows', hr, hw', np2i_single _ _ _ _ hsz hd, hfr⟩

/-- **`sa op= sv`** (SparseVector operand of the row length or of length 1; it may be one of the rows of
`sa`: it is read before the loop) -/
theorem dense_hom_isa_sv (s s' : Store) (op : BinOp) (ar : Arith) (hop : arithOf op = some ar)
    (rowIds : List Nat) (rows : List SV) (j : Nat) (b : SV)
    (hnd : rowIds.Nodup) (hrows : s.rowsVec rowIds = some (svRows rows)) (hw : ∀ a ∈ rows, a.WF)
    (hj : s[j]? = some (.sv b)) (hb : b.WF) (hok : ∀ a ∈ rows, InplaceOK a.size b.size)
    (h : ibinSA s op rowIds (.ref j) = .ok s') :
    InplaceAgrees s s' rowIds rows op.fn b.toDense := by
  have hcmp : op.isCmp = false := by cases op <;> simp [arithOf] at hop <;> rfl
  have hgv : s.getVec j = some (.sv b) := by unfold Store.getVec; rw [hj]
  simp only [ibinSA, hcmp, Bool.false_eq_true, ↓reduceIte, hrows, hj, hgv, rowsBool_svRows, isBoolObj_sv s j b hj,
    Bool.not_false, Bool.and_false, Bool.false_and] at h
  split at h
  · cases h
  · obtain ⟨vs', hm, hr, hfr⟩ := foldlM_updRow_const _ rowIds s s' _ hnd hrows h
    obtain ⟨rows', e, hw', hsz, hd⟩ := inplace_rows_hom_guard op.fn _ b.toDense (fun a => InplaceOK a.size b.size)
      (fun a r ha hg hk => irow_hom_sparse op ar hop a b r ha hb hg hk) rows vs' hw hok hm
    subst e
    exact ⟨rows', hr, hw', np2i_single _ _ _ _ hsz hd, hfr⟩

/-- **`sa op= sb`** with a one-row float array `sb` (its row is read before the loop) -/
theorem dense_hom_isa_sa_onerow (s s' : Store) (op : BinOp) (ar : Arith) (hop : arithOf op = some ar)
    (rowIds : List Nat) (rows : List SV) (j o : Nat) (b : SV)
    (hnd : rowIds.Nodup) (hrows : s.rowsVec rowIds = some (svRows rows)) (hw : ∀ a ∈ rows, a.WF)
    (hj : s[j]? = some (.sa [o])) (ho : s[o]? = some (.sv b)) (hb : b.WF) (hok : ∀ a ∈ rows, InplaceOK a.size b.size)
    (h : ibinSA s op rowIds (.ref j) = .ok s') :
    InplaceAgrees s s' rowIds rows op.fn b.toDense := by
  have hcmp : op.isCmp = false := by cases op <;> simp [arithOf] at hop <;> rfl
  have hgv : s.getVec o = some (.sv b) := by unfold Store.getVec; rw [ho]
  have hob : s.isBoolObj j = false := by unfold Store.isBoolObj; rw [hj]; simp only [ho]
  simp only [ibinSA, hcmp, Bool.false_eq_true, ↓reduceIte, hrows, hj, hgv, rowsBool_svRows, hob,
    Bool.not_false, Bool.and_false, Bool.false_and] at h
  split at h
  · cases h
  · obtain ⟨vs', hm, hr, hfr⟩ := foldlM_updRow_const _ rowIds s s' _ hnd hrows h
    obtain ⟨rows', e, hw', hsz, hd⟩ := inplace_rows_hom_guard op.fn _ b.toDense (fun a => InplaceOK a.size b.size)
      (fun a r ha hg hk => irow_hom_sparse op ar hop a b r ha hb hg hk) rows vs' hw hok hm
    subst e
    exact ⟨rows', hr, hw', np2i_single _ _ _ _ hsz hd, hfr⟩

/-- lifting for the zipped loops: row `i` meets operand row `i` -/
theorem inplace_pairs_hom (f : Rat → Rat → Rat) {β : Type} (K : β → VecObj → Except Err VecObj) (Y : β → Vec)
    (G : β → SV → Prop)
    (hK : ∀ x a r, a.WF → G x a → K x (.sv a) = .ok r →
      ∃ c, r = .sv c ∧ c.WF ∧ c.size = a.size ∧ np1 f a.toDense (Y x) = .ok c.toDense) :
    ∀ (ps : List (Nat × β)) (rows : List SV) (vs' : List VecObj), ps.length = rows.length →
      (∀ a ∈ rows, a.WF) → (∀ q ∈ List.zip ps rows, G q.1.2 q.2) →
      (List.zip ps (svRows rows)).mapM (fun q => K q.1.2 q.2) = .ok vs' →
      ∃ rows', vs' = svRows rows' ∧ (∀ c ∈ rows', c.WF) ∧ rows'.map SV.size = rows.map SV.size ∧
        (List.zip (denseRows rows) (ps.map (fun p => Y p.2))).mapM (fun q => np1 f q.1 q.2) = .ok (denseRows rows') := by
  intro ps
  induction ps with
  | nil =>
    intro rows vs' hl _ _ h
    cases rows with
    | nil =>
      simp [svRows, List.mapM_nil, pure, Except.pure] at h; subst h
      exact ⟨[], rfl, by simp, rfl, rfl⟩
    | cons _ _ => simp at hl
  | cons p ps ih =>
    intro rows vs' hl hw hg h
    cases rows with
    | nil => simp at hl
    | cons a rows =>
      simp only [svRows, List.map_cons, List.zip_cons_cons, List.mapM_cons] at h
      obtain ⟨r, hr, h'⟩ := except_bind_ok h
      obtain ⟨rs, hrs, h''⟩ := except_bind_ok h'
      simp only [pure, Except.pure, Except.ok.injEq] at h''; subst h''
      obtain ⟨c, e, hcw, hcs, hnp⟩ := hK p.2 a r (hw a List.mem_cons_self) (hg (p, a) (by simp)) hr
      subst e
      obtain ⟨rows', e', hw', hsz, hd⟩ := ih rows rs (by simpa using hl)
        (fun x hx => hw x (List.mem_cons_of_mem _ hx))
        (fun q hq => hg q (by simp only [List.zip_cons_cons]; exact List.mem_cons_of_mem _ hq)) hrs
      subst e'
      refine ⟨c :: rows', rfl, ?_, by simp [hcs, hsz], ?_⟩
      · intro x hx
        rcases List.mem_cons.mp hx with e | e
        · subst e; exact hcw
        · exact hw' x e
      · simp only [denseRows, List.map_cons, List.zip_cons_cons, List.mapM_cons] at hd ⊢
        rw [hnp, hd]; rfl

/-- **`sa op= [[..],[..]]`** (2-d literal with the same number of rows, rows of the row length or length 1) -/
theorem dense_hom_isa_matrix (s s' : Store) (op : BinOp) (ar : Arith) (hop : arithOf op = some ar)
    (rowIds : List Nat) (rows : List SV) (l : Lit) (m : Mat)
    (hnd : rowIds.Nodup) (hrows : s.rowsVec rowIds = some (svRows rows)) (hw : ∀ a ∈ rows, a.WF)
    (hlen : rows.length = m.length) (hok : ∀ q ∈ List.zip rows m, InplaceOK q.1.size q.2.length)
    (hred : l.reduce = .mat m) (h : ibinSA s op rowIds (.lit l) = .ok s') :
    ∃ rows', s'.rowsVec rowIds = some (svRows rows') ∧ (∀ c ∈ rows', c.WF) ∧
      np2i op.fn (denseRows rows) m = .ok (denseRows rows') ∧ (∀ j, j ∉ rowIds → s'[j]? = s[j]?) := by
  have hcmp : op.isCmp = false := by cases op <;> simp [arithOf] at hop <;> rfl
  have hrl : rowIds.length = rows.length := by
    have := rowsVec_length hrows; simpa [svRows] using this.symm
  simp only [ibinSA, hcmp, Bool.false_eq_true, ↓reduceIte, hrows, hred] at h
  split at h
  · cases h
  · unfold zipTrunc at h
    have hfst : (List.zip rowIds m).map Prod.fst = rowIds := map_fst_zip _ _ (by omega)
    obtain ⟨vs', hm, hr, hfr⟩ := foldlM_updRow (fun (y : Vec) (r : VecObj) => r.iopArray op y) (List.zip rowIds m) s s'
      (svRows rows) (by rw [hfst]; exact hnd) (by rw [hfst]; exact hrows) h
    rw [hfst] at hr hfr
    obtain ⟨rows', e, hw', hsz, hd⟩ := inplace_pairs_hom op.fn (fun (y : Vec) (r : VecObj) => r.iopArray op y) id
      (fun y a => InplaceOK a.size y.length)
      (fun y a r ha hg hk => irow_hom_array op ar hop a y r ha hg hk)
      (List.zip rowIds m) rows vs' (by simp; omega) hw (by
        intro q hq
        -- q = ((rid, y), a) with (a, y) ∈ zip rows m
        exact hok _ (zip3_mem rowIds m rows q hq)) hm
    subst e
    refine ⟨rows', hr, hw', ?_, hfr⟩
    unfold np2i np2
    have hA : (denseRows rows).length = m.length := by simp [denseRows, hlen]
    rw [if_pos hA]
    have hsnd : (List.zip rowIds m).map (fun p => id p.2) = m := by
      simpa using map_snd_zip rowIds m (by omega)
    rw [hsnd] at hd
    rw [hd]
    simp [shapeOf_denseRows_eq rows rows' hsz]

/-! `sa op= sb` with a multi-row operand whose row objects are not rows of `sa` -/

/-- the dense image of a pre-read operand row -/
def preDense : Option VecObj → Vec
  | some v => v.toDense
  | none => []

/-- **`sa op= sb`**, both float arrays with the same number of rows, no row object in common -/
theorem dense_hom_isa_sa (s s' : Store) (op : BinOp) (ar : Arith) (hop : arithOf op = some ar)
    (rowIds orows : List Nat) (rows ors : List SV) (j : Nat)
    (hnd : rowIds.Nodup) (hrows : s.rowsVec rowIds = some (svRows rows)) (hw : ∀ a ∈ rows, a.WF)
    (hj : s[j]? = some (.sa orows)) (hors : s.rowsVec orows = some (svRows ors)) (hwo : ∀ b ∈ ors, b.WF)
    (hlen : rows.length = ors.length) (hmulti : ors.length ≠ 1)
    (hdisj : ∀ o ∈ orows, o ∉ rowIds)
    (hok : ∀ q ∈ List.zip rows ors, InplaceOK q.1.size q.2.size)
    (h : ibinSA s op rowIds (.ref j) = .ok s') :
    ∃ rows', s'.rowsVec rowIds = some (svRows rows') ∧ (∀ c ∈ rows', c.WF) ∧
      np2i op.fn (denseRows rows) (denseRows ors) = .ok (denseRows rows') ∧ (∀ k, k ∉ rowIds → s'[k]? = s[k]?) := by
  have hcmp : op.isCmp = false := by cases op <;> simp [arithOf] at hop <;> rfl
  have hrl : rowIds.length = rows.length := by
    have := rowsVec_length hrows; simpa [svRows] using this.symm
  have hol : orows.length = ors.length := by
    have := rowsVec_length hors; simpa [svRows] using this.symm
  have hob : s.isBoolObj j = false := by
    unfold Store.isBoolObj; rw [hj]
    cases orows with
    | nil => rfl
    | cons o orows =>
      simp only
      have := rowsVec_zip_getVec s _ _ hors
      cases ors with
      | nil => simp at hol
      | cons b ors =>
        simp only [svRows, List.map_cons, List.cons.injEq] at this
        have hg := this.1
        unfold Store.getVec at hg
        split at hg <;> simp_all
  simp only [ibinSA, hcmp, Bool.false_eq_true, ↓reduceIte, hrows, hj, rowsBool_svRows, hob,
    Bool.not_false, Bool.and_false, Bool.false_and] at h
  split at h
  · cases h
  · -- not the one-row branch
    split at h
    · simp at hol; exact absurd hol.symm hmulti
    · unfold zipTrunc at h
      have hre := foldlM_read_eq s rowIds op (fun v => v) (List.zip rowIds orows) s
        (fun p hp => ⟨(List.of_mem_zip hp).1, hdisj _ (List.of_mem_zip hp).2⟩) (fun _ _ => rfl)
      replace h := hre.symm.trans h
      -- pairs (row id, pre-read operand row)
      have h' : ((List.zip rowIds orows).map (fun p => (p.1, s.getVec p.2))).foldlM
          (fun t p => updRow t p.1 (stepPre op (fun v => v) p.2)) s = .ok s' := by
        rw [List.foldlM_map]
        simpa using h
      have hfst : ((List.zip rowIds orows).map (fun p => (p.1, s.getVec p.2))).map Prod.fst = rowIds := by
        rw [List.map_map]
        have : (Prod.fst ∘ fun (p : Nat × Nat) => (p.1, s.getVec p.2)) = Prod.fst := rfl
        rw [this]; exact map_fst_zip _ _ (by omega)
      have hsnd : ((List.zip rowIds orows).map (fun p => (p.1, s.getVec p.2))).map Prod.snd = (svRows ors).map some := by
        rw [List.map_map]
        have : (Prod.snd ∘ fun (p : Nat × Nat) => (p.1, s.getVec p.2)) = s.getVec ∘ Prod.snd := rfl
        rw [this, ← List.map_map, map_snd_zip _ _ (by omega)]
        exact rowsVec_zip_getVec s _ _ hors
      obtain ⟨vs', hm, hr, hfr⟩ := foldlM_updRow (stepPre op (fun v => v)) _ s s' (svRows rows)
        (by rw [hfst]; exact hnd) (by rw [hfst]; exact hrows) h'
      rw [hfst] at hr hfr
      have hsnd' : ((List.zip rowIds orows).map (fun p => (p.1, s.getVec p.2))).map Prod.snd = ors.map (fun b => some (VecObj.sv b)) := by
        rw [hsnd]; simp [svRows, List.map_map, Function.comp_def]
      have hguard := guard_zip _ ors rows hsnd'
      obtain ⟨rows', e, hw', hsz, hd⟩ := inplace_pairs_hom op.fn (stepPre op (fun v => v)) preDense
        (fun o a => ∃ b, o = some (.sv b) ∧ b.WF ∧ InplaceOK a.size b.size)
        (fun o a r ha hg hk => by
          obtain ⟨b, e, hbw, hio⟩ := hg
          subst e
          exact irow_hom_sparse op ar hop a b r ha hbw hio hk)
        _ rows vs' (by simp; omega) hw
        (fun q hq => by
          obtain ⟨b, h1, h2⟩ := hguard q hq
          exact ⟨b, h1, hwo b (List.of_mem_zip h2).2, hok _ h2⟩) hm
      subst e
      refine ⟨rows', hr, hw', ?_, hfr⟩
      have hY : ((List.zip rowIds orows).map (fun p => (p.1, s.getVec p.2))).map (fun p => preDense p.2) = denseRows ors := by
        have : (fun (p : Nat × Option VecObj) => preDense p.2) = preDense ∘ Prod.snd := rfl
        rw [this, ← List.map_map, hsnd]
        simp [svRows, denseRows, List.map_map, Function.comp_def, preDense, VecObj.toDense]
      rw [hY] at hd
      unfold np2i np2
      have hA : (denseRows rows).length = (denseRows ors).length := by simp [denseRows, hlen]
      rw [if_pos hA, hd]
      simp [shapeOf_denseRows_eq rows rows' hsz]

/-- `sa op= sa` (the array itself as operand: every row meets itself) is not covered by the theorems
above (`dense_hom_isa_sa` asks for disjoint row objects); it stays tied by correspondence
(grid cell `self`, corpus `ibin sub @2 @2`) -/
def dense_hom_isa_self_statement : Prop :=
  ∀ (s s' : Store) (op : BinOp) (ar : Arith) (rowIds : List Nat) (rows : List SV) (j : Nat),
    arithOf op = some ar → rowIds.Nodup → s.rowsVec rowIds = some (svRows rows) → (∀ a ∈ rows, a.WF) →
    s[j]? = some (.sa rowIds) → rows.length ≠ 1 → ibinSA s op rowIds (.ref j) = .ok s' →
    ∃ rows', s'.rowsVec rowIds = some (svRows rows') ∧
      np2i op.fn (denseRows rows) (denseRows rows) = .ok (denseRows rows')

/-! ### (2) boolean-row arrays: `& | ^`, `+` (or), `*` (and), `~`, `any` / `all` -/

/-- **boolean array ∘ logical vector** (`sab & slv`, `|`, `^`, `+`, `*`) -/
theorem dense_hom_sab_slv (s : Store) (op : BinOp) (l : LOp) (hl : LogicOp op l) (rows : List SLV) (j : Nat) (b : SLV)
    (cs : List VecObj) (hne : rows ≠ []) (hw : ∀ r ∈ rows, SLVWF r) (hb : SLVWF b) (hj : s[j]? = some (.slv b))
    (h : binSA s op (slvRows rows) (.ref j) = .ok (.rows cs)) :
    (∀ c ∈ cs, VecWF c) ∧ np2 op.fnBool (denseRowsB rows) [b.toDense] = .ok (cs.map VecObj.toDense) := by
  unfold binSA at h
  have hgv : s.getVec j = some (.slv b) := by unfold Store.getVec; rw [hj]
  simp only [hj, hgv, rowsBool_slvRows rows hne, VecObj.isBool, map_coerce_bool, coerce_bool] at h
  obtain ⟨cs', hcs, e⟩ := except_map_ok h
  simp only [VRes.rows.injEq] at e; subst e
  simp only [slvRows, mapM_map] at hcs
  have := gen_mapM_hom (fun a : SLV => SLVWF a) (fun a => (VecObj.slv a).opSparse op (.slv b))
    (fun a => np1 op.fnBool a.toDense b.toDense)
    (fun a r ha hk => rowb_hom_sparse op l hl a b r ha hb hk) rows _ hw hcs
  refine ⟨this.1, ?_⟩
  rw [np2_single]
  unfold denseRowsB
  rw [mapM_map]
  exact this.2

/-- **`~sab`** -/
theorem dense_hom_sab_invert (rows : List SLV) :
    (rows.map (fun a => (VecObj.slv a.invert))).map VecObj.toDense =
      (denseRowsB rows).map (fun r => r.map (fun x => b2r (x == 0))) ∧
    ∀ a ∈ rows, SLVWF a.invert := by
  refine ⟨?_, fun a _ => slv_invert_wf a⟩
  unfold denseRowsB
  rw [List.map_map, List.map_map]
  apply List.map_congr_left
  intro a _
  exact (dense_hom_invert a).2

/-- **`sab.any(axis=1)` / `sab.all(axis=1)`** of a boolean array -/
theorem dense_hom_sab_any_all_axis1 (rows : List SLV) (hw : ∀ a ∈ rows, SLVWF a) :
    (denseRowsB rows).mapM (redVec .any) = .ok (rows.map (fun a => b2r a.any)) ∧
    (denseRowsB rows).mapM (redVec .all) = .ok (rows.map (fun a => b2r a.allTrue)) ∧
    (∀ v, reduceSA .any (slvRows rows) (some 1) false = .ok (.vec v) → v.toDense = rows.map (fun a => b2r a.any)) ∧
    (∀ v, reduceSA .all (slvRows rows) (some 1) false = .ok (.vec v) → v.toDense = rows.map (fun a => b2r a.allTrue)) := by
  have hrows : ∀ (r : Red) (g : SLV → Rat), (∀ a ∈ rows, redVec r a.toDense = .ok (g a)) →
      (denseRowsB rows).mapM (redVec r) = .ok (rows.map g) := by
    intro r g hg
    unfold denseRowsB
    clear hw
    induction rows with
    | nil => rfl
    | cons a rows ih =>
      rw [List.map_cons, List.mapM_cons, hg a List.mem_cons_self, ih (fun x hx => hg x (List.mem_cons_of_mem _ hx))]
      rfl
  refine ⟨hrows .any _ (fun a ha => slv_dense_any a (hw a ha)), hrows .all _ (fun a ha => slv_dense_all a (hw a ha)), ?_, ?_⟩
  · intro v h
    simp only [reduceSA, Bool.false_eq_true, ↓reduceIte, Except.ok.injEq, RRes.vec.injEq] at h
    subst h
    show SLV.toDense _ = _
    rw [ofPred_toDense]
    apply List.ext_getElem
    · simp [vecOf_length, slvRows]
    · intro i h1 h2
      simp only [vecOf_length, slvRows, List.length_map] at h1
      simp [vecOf, slvRows, List.getElem?_eq_getElem h1, VecObj.anyB]
  · intro v h
    simp only [reduceSA, Bool.false_eq_true, ↓reduceIte, Except.ok.injEq, RRes.vec.injEq] at h
    subst h
    show SLV.toDense _ = _
    rw [ofPred_toDense]
    apply List.ext_getElem
    · simp [vecOf_length, slvRows]
    · intro i h1 h2
      simp only [vecOf_length, slvRows, List.length_map] at h1
      simp [vecOf, slvRows, List.getElem?_eq_getElem h1, VecObj.allB]

/-- **boolean array ∘ boolean array** (`sab & sbb`, `|`, `^`, `+`, `*`), one-row broadcasting included -/
theorem dense_hom_sab_sab (s : Store) (op : BinOp) (l : LOp) (hl : LogicOp op l) (rows ors : List SLV) (j : Nat)
    (orows : List Nat) (cs : List VecObj) (hne : rows ≠ []) (hno : ors ≠ [])
    (hw : ∀ r ∈ rows, SLVWF r) (hwo : ∀ r ∈ ors, SLVWF r)
    (hj : s[j]? = some (.sa orows)) (hors : s.rowsVec orows = some (slvRows ors))
    (hshape : rows.length = ors.length ∨ rows.length = 1 ∨ ors.length = 1)
    (h : binSA s op (slvRows rows) (.ref j) = .ok (.rows cs)) :
    (∀ c ∈ cs, VecWF c) ∧ np2 op.fnBool (denseRowsB rows) (denseRowsB ors) = .ok (cs.map VecObj.toDense) := by
  unfold binSA at h
  simp only [hj, hors, rowsBool_slvRows rows hne, rowsBool_slvRows ors hno, map_coerce_bool, pairRows_slv, mapM_map] at h
  obtain ⟨cs', hcs, e⟩ := except_map_ok h
  simp only [VRes.rows.injEq] at e; subst e
  have := gen_mapM_hom (fun p : SLV × SLV => SLVWF p.1 ∧ SLVWF p.2) (fun p => (VecObj.slv p.1).opSparse op (.slv p.2))
    (fun p => np1 op.fnBool p.1.toDense p.2.toDense)
    (fun p r hp hk => rowb_hom_sparse op l hl p.1 p.2 r hp.1 hp.2 hk) (pairSLV rows ors) _
    (fun p hp => ⟨hw _ (pairSLV_mem rows ors p hp).1, hwo _ (pairSLV_mem rows ors p hp).2⟩) hcs
  refine ⟨this.1, ?_⟩
  rw [np2_pairSLV op.fnBool rows ors hshape, mapM_map]
  exact this.2

/-! ## Non-vacuity -/

namespace Ex2
def s : Store := [Obj.sv ⟨2, [(0, 1)], false⟩, Obj.sv ⟨2, [(1, -2)], false⟩, Obj.sa [0, 1]]
def rows : List SV := [⟨2, [(0, 1)], false⟩, ⟨2, [(1, -2)], false⟩]
def s' : Store := [Obj.sv ⟨2, [(0, 3)], false⟩, Obj.sv ⟨2, [(1, -6)], false⟩, Obj.sa [0, 1]]
def sb : Store := [Obj.slv ⟨2, [0]⟩, Obj.slv ⟨2, [0, 1]⟩, Obj.sa [0, 1], Obj.slv ⟨2, [1]⟩]
def brows : List SLV := [⟨2, [0]⟩, ⟨2, [0, 1]⟩]
end Ex2

/-- `sa *= 3` on a 2×2 array held in a store: every hypothesis of `dense_hom_isa_scalar` holds -/
example : InplaceAgrees Ex2.s Ex2.s' [0, 1] Ex2.rows (BinOp.fn .mul) [3] :=
  dense_hom_isa_scalar Ex2.s Ex2.s' .mul .mul rfl [0, 1] Ex2.rows ⟨false, false, [], [3]⟩ 3
    (by decide) (by decide +kernel) (by decide +kernel) rfl (by decide +kernel)

/-- and NumPy's in-place result on the dense image is the dense image of the new rows -/
example : np2i (BinOp.fn .mul) (denseRows Ex2.rows) [[3]] = .ok [[3, 0], [0, -6]] := by decide +kernel

/-- a boolean 2×2 array `&` a logical vector: the operation succeeds and agrees with NumPy -/
example : binSA Ex2.sb .and (slvRows Ex2.brows) (.ref 3) = .ok (.rows [.slv ⟨2, []⟩, .slv ⟨2, [1]⟩]) ∧
    np2 (BinOp.fnBool .and) (denseRowsB Ex2.brows) [(⟨2, [1]⟩ : SLV).toDense] = .ok [[0, 0], [0, 1]] := by
  refine ⟨by decide +kernel, by decide +kernel⟩

/-- **aliasing**: `A -= A[0:1]` — the operand is a one-row array over row 0 of the target itself (object 3 = `sa [0]`).
`dense_hom_isa_sa_onerow` does not ask the operand row to be outside the target, so it applies: every row sees the ORIGINAL
row 0 (row 1 becomes `[3, -2] − [1, 0]`, although row 0 has been emptied by then), as NumPy evaluates `A[0:1]` first. -/
example : InplaceAgrees
    [Obj.sv ⟨2, [(0, 1)], false⟩, Obj.sv ⟨2, [(0, 3), (1, -2)], false⟩, Obj.sa [0, 1], Obj.sa [0]]
    [Obj.sv ⟨2, [], false⟩, Obj.sv ⟨2, [(0, 2), (1, -2)], false⟩, Obj.sa [0, 1], Obj.sa [0]]
    [0, 1] [⟨2, [(0, 1)], false⟩, ⟨2, [(0, 3), (1, -2)], false⟩] (BinOp.fn .sub) (⟨2, [(0, 1)], false⟩ : SV).toDense :=
  dense_hom_isa_sa_onerow _ _ .sub .sub rfl [0, 1] _ 3 0 ⟨2, [(0, 1)], false⟩
    (by decide) (by decide +kernel) (by decide +kernel) (by decide +kernel) (by decide +kernel) (by decide +kernel)
    (by intro a ha; simp only [List.mem_cons, List.not_mem_nil, or_false] at ha; rcases ha with rfl | rfl <;> exact Or.inl rfl)
    (by decide +kernel)

example : np2i (BinOp.fn .sub) [[1, 0], [3, -2]] [[1, 0]] = .ok [[0, 0], [2, -2]] := by decide +kernel
