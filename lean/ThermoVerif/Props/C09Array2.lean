import ThermoVerif.Props.C09Array
/-
Property C09, 2-d clauses, second part: in-place operators of a SparseArray against `np2i`,
boolean-row arrays, the remaining reductions, 2-d get/set.
-/
namespace ThermoVerif.Props.C09
open ThermoVerif.Sparse ThermoVerif.Dense

/-! ### the row loop of the in-place templates -/

theorem option_mapM_cons {α β : Type} (f : α → Option β) (a : α) (l : List α) :
    (a :: l).mapM f = (f a).bind (fun b => (l.mapM f).bind (fun bs => some (b :: bs))) := by
  rw [List.mapM_cons]
  cases f a <;> simp [bind, Option.bind]

theorem rowsVec_cons (s : Store) (rid : Nat) (rids : List Nat) :
    s.rowsVec (rid :: rids) = (s.getVec rid).bind (fun v => (s.rowsVec rids).bind (fun vs => some (v :: vs))) := by
  unfold Store.rowsVec; exact option_mapM_cons _ _ _

theorem rowsVec_congr (s t : Store) (rids : List Nat) (h : ∀ j ∈ rids, t[j]? = s[j]?) : t.rowsVec rids = s.rowsVec rids := by
  induction rids with
  | nil => rfl
  | cons r rids ih =>
    rw [rowsVec_cons, rowsVec_cons, ih (fun j hj => h j (List.mem_cons_of_mem _ hj))]
    have : t.getVec r = s.getVec r := by unfold Store.getVec; rw [h r List.mem_cons_self]
    rw [this]

/-- the loop `for (row, x) in pairs: row._i<op>_…(x)` on distinct row objects: every row is replaced by
the kernel's result on its old value, nothing else changes -/
theorem foldlM_updRow {β : Type} (K : β → VecObj → Except Err VecObj) :
    ∀ (ps : List (Nat × β)) (s s' : Store) (vs : List VecObj),
      (ps.map Prod.fst).Nodup → s.rowsVec (ps.map Prod.fst) = some vs →
      ps.foldlM (fun s p => updRow s p.1 (K p.2)) s = .ok s' →
      ∃ vs', (List.zip ps vs).mapM (fun q => K q.1.2 q.2) = .ok vs' ∧ s'.rowsVec (ps.map Prod.fst) = some vs' ∧
        (∀ j, j ∉ ps.map Prod.fst → s'[j]? = s[j]?) := by
  intro ps
  induction ps with
  | nil =>
    intro s s' vs _ hv h
    simp only [List.foldlM_nil, pure, Except.pure, Except.ok.injEq] at h; subst h
    exact ⟨[], rfl, rfl, fun _ _ => rfl⟩
  | cons p ps ih =>
    intro s s' vs hnd hv h
    simp only [List.map_cons, List.nodup_cons] at hnd
    rw [List.foldlM_cons] at h
    obtain ⟨s1, h1, h2⟩ := except_bind_ok h
    -- the first row
    simp only [List.map_cons] at hv
    rw [rowsVec_cons] at hv
    cases hg : s.getVec p.1 with
    | none => rw [hg] at hv; cases hv
    | some v =>
      rw [hg] at hv
      simp only [Option.bind] at hv
      cases hrest : s.rowsVec (ps.map Prod.fst) with
      | none => rw [hrest] at hv; cases hv
      | some vrest =>
        rw [hrest] at hv
        simp only [Option.some.injEq] at hv; subst hv
        unfold updRow at h1
        rw [hg] at h1
        obtain ⟨v', hv', e⟩ := except_map_ok h1; subst e
        have hfr1 : ∀ j, j ≠ p.1 → (s.set p.1 v'.toObj)[j]? = s[j]? := fun j hj => getElem?_set_ne _ hj
        have hrest1 : Store.rowsVec (s.set p.1 v'.toObj) (ps.map Prod.fst) = some vrest := by
          rw [rowsVec_congr s _ _ (fun j hj => hfr1 j (by intro e; subst e; exact hnd.1 hj)), hrest]
        obtain ⟨vs', hm, hr, hfr⟩ := ih _ s' vrest hnd.2 hrest1 h2
        refine ⟨v' :: vs', ?_, ?_, ?_⟩
        · simp only [List.zip_cons_cons, List.mapM_cons, hv', hm]; rfl
        · simp only [List.map_cons]
          rw [rowsVec_cons, hr]
          have : s'.getVec p.1 = some v' := by
            have h3 := hfr p.1 hnd.1
            apply getVec_toObj
            rw [h3, List.getElem?_set]
            have hi : p.1 < s.length := by
              unfold Store.getVec at hg
              by_contra hc
              have : s[p.1]? = none := List.getElem?_eq_none (by omega)
              simp [this] at hg
            simp [hi]
          rw [this]; rfl
        · intro j hj
          simp only [List.map_cons, List.mem_cons, not_or] at hj
          rw [hfr j hj.2, hfr1 j hj.1]

/-- the same for `for row in rows: row._i<op>_…(operand)` with one operand for all rows -/
theorem foldlM_updRow_const (K : VecObj → Except Err VecObj) (rids : List Nat) (s s' : Store) (vs : List VecObj)
    (hnd : rids.Nodup) (hv : s.rowsVec rids = some vs)
    (h : rids.foldlM (fun s rid => updRow s rid K) s = .ok s') :
    ∃ vs', vs.mapM K = .ok vs' ∧ s'.rowsVec rids = some vs' ∧ (∀ j, j ∉ rids → s'[j]? = s[j]?) := by
  have hmap : (rids.map (fun r => (r, ()))).map Prod.fst = rids := by simp [List.map_map, Function.comp_def]
  have h' : (rids.map (fun r => (r, ()))).foldlM (fun s p => updRow s p.1 ((fun _ => K) p.2)) s = .ok s' := by
    rw [List.foldlM_map]; exact h
  obtain ⟨vs', hm, hr, hfr⟩ := foldlM_updRow (fun (_ : Unit) => K) _ s s' vs (by rw [hmap]; exact hnd) (by rw [hmap]; exact hv) h'
  rw [hmap] at hr hfr
  refine ⟨vs', ?_, hr, hfr⟩
  have hlen : vs.length = rids.length := by
    unfold Store.rowsVec at hv
    clear h h' hm hr hfr hmap hnd
    induction rids generalizing vs with
    | nil => simp [List.mapM_nil, pure] at hv; subst hv; rfl
    | cons r rids ih =>
      rw [option_mapM_cons] at hv
      cases hg : s.getVec r with
      | none => rw [hg] at hv; cases hv
      | some v =>
        rw [hg] at hv
        cases hr : rids.mapM s.getVec with
        | none => rw [hr] at hv; cases hv
        | some vr =>
          rw [hr] at hv
          simp only [Option.bind, Option.some.injEq] at hv; subst hv
          simp [ih vr hr]
  -- zip with a list of units is a map
  have : (List.zip (rids.map (fun r => (r, ()))) vs).mapM (fun q => (fun (_ : Unit) => K) q.1.2 q.2) = vs.mapM K := by
    clear h h' hm hr hfr hmap hnd hv
    induction rids generalizing vs with
    | nil => cases vs <;> simp at hlen; rfl
    | cons r rids ih =>
      cases vs with
      | nil => simp at hlen
      | cons v vs =>
        simp only [List.map_cons, List.zip_cons_cons, List.mapM_cons]
        rw [ih vs (by simpa using hlen)]
  rw [← this]; exact hm

/-! ### (1) in-place 2-d operators against `np2i`

Guard: NumPy accepts the in-place shape (`InplaceOK` for every row) and the row objects of the target
are distinct (an array built by `sa[[0, 0]]` holds one object twice; NumPy has no counterpart). -/

theorem np1_inplace_length (f : Rat → Rat → Rat) (a b r : Vec) (hok : a.length = b.length ∨ b.length = 1)
    (h : np1 f a b = .ok r) : r.length = a.length := by
  unfold np1 at h
  by_cases h1 : a.length = b.length
  · rw [if_pos h1] at h; simp only [Except.ok.injEq] at h; subst h; simp [h1]
  · have h3 : b.length = 1 := hok.resolve_left h1
    have h2 : ¬ a.length = 1 := by omega
    rw [if_neg h1, if_neg h2, if_pos h3] at h
    simp only [Except.ok.injEq] at h; subst h; simp

theorem shapeOf_denseRows_eq (rows rows' : List SV) (h : rows'.map SV.size = rows.map SV.size) :
    shapeOf (denseRows rows') = shapeOf (denseRows rows) := by
  unfold shapeOf denseRows
  have hl : rows'.length = rows.length := by simpa using congrArg List.length h
  cases rows with
  | nil => cases rows' with
    | nil => rfl
    | cons _ _ => simp at hl
  | cons a rows => cases rows' with
    | nil => simp at hl
    | cons a' rows' =>
      simp only [List.map_cons, List.cons.injEq] at h
      have hl' : rows'.length = rows.length := by simpa using hl
      simp [SV.toDense_length, h.1, hl']

/-- lifting of an in-place row kernel that keeps the row size to the 2-d reference `np2i` -/
theorem inplace_rows_hom_guard (f : Rat → Rat → Rat) (K : VecObj → Except Err VecObj) (y : Vec) (G : SV → Prop)
    (hK : ∀ a r, a.WF → G a → K (.sv a) = .ok r → ∃ c, r = .sv c ∧ c.WF ∧ c.size = a.size ∧ np1 f a.toDense y = .ok c.toDense) :
    ∀ (rows : List SV) (vs' : List VecObj), (∀ a ∈ rows, a.WF) → (∀ a ∈ rows, G a) → (svRows rows).mapM K = .ok vs' →
      ∃ rows', vs' = svRows rows' ∧ (∀ c ∈ rows', c.WF) ∧ rows'.map SV.size = rows.map SV.size ∧
        (denseRows rows).mapM (fun r => np1 f r y) = .ok (denseRows rows') := by
  intro rows
  induction rows with
  | nil =>
    intro vs' _ _ h
    simp [svRows, List.mapM_nil, pure, Except.pure] at h; subst h
    exact ⟨[], rfl, by simp, rfl, rfl⟩
  | cons a rows ih =>
    intro vs' hw hg h
    simp only [svRows, List.map_cons, List.mapM_cons] at h
    obtain ⟨r, hr, h'⟩ := except_bind_ok h
    obtain ⟨rs, hrs, h''⟩ := except_bind_ok h'
    simp only [pure, Except.pure, Except.ok.injEq] at h''; subst h''
    obtain ⟨c, e, hcw, hcs, hnp⟩ := hK a r (hw a List.mem_cons_self) (hg a List.mem_cons_self) hr
    subst e
    obtain ⟨rows', e', hw', hsz, hd⟩ := ih rs (fun x hx => hw x (List.mem_cons_of_mem _ hx)) (fun x hx => hg x (List.mem_cons_of_mem _ hx)) hrs
    subst e'
    refine ⟨c :: rows', rfl, ?_, by simp [hcs, hsz], ?_⟩
    · intro x hx
      rcases List.mem_cons.mp hx with e | e
      · subst e; exact hcw
      · exact hw' x e
    · simp only [denseRows, List.map_cons, List.mapM_cons] at hd ⊢
      rw [hnp, hd]; rfl

theorem np2i_single (f : Rat → Rat → Rat) (rows rows' : List SV) (y : Vec)
    (hsz : rows'.map SV.size = rows.map SV.size)
    (hd : (denseRows rows).mapM (fun r => np1 f r y) = .ok (denseRows rows')) :
    np2i f (denseRows rows) [y] = .ok (denseRows rows') := by
  unfold np2i
  rw [np2_single, hd]
  simp [shapeOf_denseRows_eq rows rows' hsz]

/-- the in-place kernel of a float row with a float operand: NumPy's row, same size, still well formed -/
theorem irow_hom_sparse (op : BinOp) (ar : Arith) (hop : arithOf op = some ar) (a b : SV) (r : VecObj)
    (ha : a.WF) (hb : b.WF) (hok : InplaceOK a.size b.size) (h : (VecObj.sv a).iopSparse op (.sv b) = .ok r) :
    ∃ c, r = .sv c ∧ c.WF ∧ c.size = a.size ∧ np1 op.fn a.toDense b.toDense = .ok c.toDense := by
  simp only [VecObj.iopSparse, hop, VecObj.toSV] at h
  obtain ⟨c, hc, e⟩ := except_map_ok h
  obtain ⟨h1, h2⟩ := dense_hom_arith_sparse ar true a b c ha hb hc
  refine ⟨c, e, h1, ?_, by rw [arithOf_fn op ar hop]; exact h2⟩
  have := np1_inplace_length _ _ _ _ (by simpa [SV.toDense_length, InplaceOK] using hok) h2
  simpa [SV.toDense_length] using this

theorem irow_hom_array (op : BinOp) (ar : Arith) (hop : arithOf op = some ar) (a : SV) (l : Vec) (r : VecObj)
    (ha : a.WF) (hok : InplaceOK a.size l.length) (h : (VecObj.sv a).iopArray op l = .ok r) :
    ∃ c, r = .sv c ∧ c.WF ∧ c.size = a.size ∧ np1 op.fn a.toDense l = .ok c.toDense := by
  simp only [VecObj.iopArray, hop] at h
  obtain ⟨c, hc, e⟩ := except_map_ok h
  obtain ⟨h1, h2⟩ := dense_hom_arith_array ar a c l ha hc
  refine ⟨c, e, h1, ?_, by rw [arithOf_fn op ar hop]; exact h2⟩
  have := np1_inplace_length _ _ _ _ (by simpa [SV.toDense_length, InplaceOK] using hok) h2
  simpa [SV.toDense_length] using this

theorem irow_hom_scalar (op : BinOp) (ar : Arith) (hop : arithOf op = some ar) (a : SV) (x : Rat) (r : VecObj)
    (ha : a.WF) (h : (VecObj.sv a).iopScalar op x = .ok r) :
    ∃ c, r = .sv c ∧ c.WF ∧ c.size = a.size ∧ np1 op.fn a.toDense [x] = .ok c.toDense := by
  simp only [VecObj.iopScalar, hop] at h
  obtain ⟨c, hc, e⟩ := except_map_ok h
  obtain ⟨h1, h2⟩ := dense_hom_arith_scalar ar a c x ha hc
  refine ⟨c, e, h1, ?_, ?_⟩
  · have := congrArg List.length h2
    simpa [np1s, SV.toDense_length] using this
  · rw [np1_singleton, arithOf_fn op ar hop, h2]

/-- what the theorems below conclude about `sa op= operand` -/
def InplaceAgrees (s s' : Store) (rowIds : List Nat) (rows : List SV) (f : Rat → Rat → Rat) (y : Vec) : Prop :=
  ∃ rows', s'.rowsVec rowIds = some (svRows rows') ∧ (∀ c ∈ rows', c.WF) ∧
    np2i f (denseRows rows) [y] = .ok (denseRows rows') ∧ (∀ j, j ∉ rowIds → s'[j]? = s[j]?)

theorem readOnly_svRows (rows : List SV) : (svRows rows).any (·.readOnly) = rows.any (·.readOnly) := by
  simp [svRows, List.any_map, Function.comp_def, VecObj.readOnly]

/-- **`sa op= x`** (`+ − × ÷`, scalar operand) -/
theorem dense_hom_isa_scalar (s s' : Store) (op : BinOp) (ar : Arith) (hop : arithOf op = some ar)
    (rowIds : List Nat) (rows : List SV) (l : Lit) (x : Rat)
    (hnd : rowIds.Nodup) (hrows : s.rowsVec rowIds = some (svRows rows)) (hw : ∀ a ∈ rows, a.WF)
    (hred : l.reduce = .scalar x) (h : ibinSA s op rowIds (.lit l) = .ok s') :
    InplaceAgrees s s' rowIds rows op.fn [x] := by
  have hcmp : op.isCmp = false := by cases op <;> simp [arithOf] at hop <;> rfl
  simp only [ibinSA, hcmp, Bool.false_eq_true, ↓reduceIte, hrows, hred] at h
  split at h
  · cases h
  · obtain ⟨vs', hm, hr, hfr⟩ := foldlM_updRow_const _ rowIds s s' _ hnd hrows h
    obtain ⟨rows', e, hw', hsz, hd⟩ := inplace_rows_hom_guard op.fn _ [x] (fun _ => True)
      (fun a r ha _ hk => irow_hom_scalar op ar hop a x r ha hk) rows vs' hw (fun _ _ => trivial) hm
    subst e
    exact ⟨rows', hr, hw', np2i_single _ _ _ _ hsz hd, hfr⟩

/-- **`sa op= [..]`** (1-d literal of the row length or of length 1) -/
theorem dense_hom_isa_vector (s s' : Store) (op : BinOp) (ar : Arith) (hop : arithOf op = some ar)
    (rowIds : List Nat) (rows : List SV) (l : Lit) (v : Vec)
    (hnd : rowIds.Nodup) (hrows : s.rowsVec rowIds = some (svRows rows)) (hw : ∀ a ∈ rows, a.WF)
    (hok : ∀ a ∈ rows, InplaceOK a.size v.length)
    (hred : l.reduce = .vec v) (h : ibinSA s op rowIds (.lit l) = .ok s') :
    InplaceAgrees s s' rowIds rows op.fn v := by
  have hcmp : op.isCmp = false := by cases op <;> simp [arithOf] at hop <;> rfl
  simp only [ibinSA, hcmp, Bool.false_eq_true, ↓reduceIte, hrows, hred] at h
  split at h
  · cases h
  · obtain ⟨vs', hm, hr, hfr⟩ := foldlM_updRow_const _ rowIds s s' _ hnd hrows h
    -- the guard is per row: thread it through the WF predicate
    obtain ⟨rows', e, hw', hsz, hd⟩ := inplace_rows_hom_guard op.fn _ v (fun a => InplaceOK a.size v.length)
      (fun a r ha hg hk => irow_hom_array op ar hop a v r ha hg hk) rows vs' hw hok hm
    subst e
    exact ⟨rows', hr, hw', np2i_single _ _ _ _ hsz hd, hfr⟩

theorem isBoolObj_sv (s : Store) (j : Nat) (b : SV) (h : s[j]? = some (.sv b)) : s.isBoolObj j = false := by
  unfold Store.isBoolObj; rw [h]

/-- **`sa op= sv`** (SparseVector operand of the row length or of length 1; it may be one of the rows of
`sa`: it is read before the loop) -/
theorem dense_hom_isa_sv (s s' : Store) (op : BinOp) (ar : Arith) (hop : arithOf op = some ar)
    (rowIds : List Nat) (rows : List SV) (j : Nat) (b : SV)
    (hnd : rowIds.Nodup) (hrows : s.rowsVec rowIds = some (svRows rows)) (hw : ∀ a ∈ rows, a.WF)
    (hj : s[j]? = some (.sv b)) (hb : b.WF) (hok : ∀ a ∈ rows, InplaceOK a.size b.size)
    (h : ibinSA s op rowIds (.ref j) = .ok s') :
    InplaceAgrees s s' rowIds rows op.fn b.toDense := by
  have hcmp : op.isCmp = false := by cases op <;> simp [arithOf] at hop <;> rfl
  have hgv : s.getVec j = some (.sv b) := by unfold Store.getVec; rw [hj]
  simp only [ibinSA, hcmp, Bool.false_eq_true, ↓reduceIte, hrows, hj, hgv, rowsBool_svRows, isBoolObj_sv s j b hj,
    Bool.not_false, Bool.and_false, Bool.false_and] at h
  split at h
  · cases h
  · obtain ⟨vs', hm, hr, hfr⟩ := foldlM_updRow_const _ rowIds s s' _ hnd hrows h
    obtain ⟨rows', e, hw', hsz, hd⟩ := inplace_rows_hom_guard op.fn _ b.toDense (fun a => InplaceOK a.size b.size)
      (fun a r ha hg hk => irow_hom_sparse op ar hop a b r ha hb hg hk) rows vs' hw hok hm
    subst e
    exact ⟨rows', hr, hw', np2i_single _ _ _ _ hsz hd, hfr⟩

/-- **`sa op= sb`** with a one-row float array `sb` (its row is read before the loop) -/
theorem dense_hom_isa_sa_onerow (s s' : Store) (op : BinOp) (ar : Arith) (hop : arithOf op = some ar)
    (rowIds : List Nat) (rows : List SV) (j o : Nat) (b : SV)
    (hnd : rowIds.Nodup) (hrows : s.rowsVec rowIds = some (svRows rows)) (hw : ∀ a ∈ rows, a.WF)
    (hj : s[j]? = some (.sa [o])) (ho : s[o]? = some (.sv b)) (hb : b.WF) (hok : ∀ a ∈ rows, InplaceOK a.size b.size)
    (h : ibinSA s op rowIds (.ref j) = .ok s') :
    InplaceAgrees s s' rowIds rows op.fn b.toDense := by
  have hcmp : op.isCmp = false := by cases op <;> simp [arithOf] at hop <;> rfl
  have hgv : s.getVec o = some (.sv b) := by unfold Store.getVec; rw [ho]
  have hob : s.isBoolObj j = false := by unfold Store.isBoolObj; rw [hj]; simp only [ho]
  simp only [ibinSA, hcmp, Bool.false_eq_true, ↓reduceIte, hrows, hj, hgv, rowsBool_svRows, hob,
    Bool.not_false, Bool.and_false, Bool.false_and] at h
  split at h
  · cases h
  · obtain ⟨vs', hm, hr, hfr⟩ := foldlM_updRow_const _ rowIds s s' _ hnd hrows h
    obtain ⟨rows', e, hw', hsz, hd⟩ := inplace_rows_hom_guard op.fn _ b.toDense (fun a => InplaceOK a.size b.size)
      (fun a r ha hg hk => irow_hom_sparse op ar hop a b r ha hb hg hk) rows vs' hw hok hm
    subst e
    exact ⟨rows', hr, hw', np2i_single _ _ _ _ hsz hd, hfr⟩

/-- lifting for the zipped loops: row `i` meets operand row `i` -/
theorem inplace_pairs_hom (f : Rat → Rat → Rat) {β : Type} (K : β → VecObj → Except Err VecObj) (Y : β → Vec)
    (G : β → SV → Prop)
    (hK : ∀ x a r, a.WF → G x a → K x (.sv a) = .ok r →
      ∃ c, r = .sv c ∧ c.WF ∧ c.size = a.size ∧ np1 f a.toDense (Y x) = .ok c.toDense) :
    ∀ (ps : List (Nat × β)) (rows : List SV) (vs' : List VecObj), ps.length = rows.length →
      (∀ a ∈ rows, a.WF) → (∀ q ∈ List.zip ps rows, G q.1.2 q.2) →
      (List.zip ps (svRows rows)).mapM (fun q => K q.1.2 q.2) = .ok vs' →
      ∃ rows', vs' = svRows rows' ∧ (∀ c ∈ rows', c.WF) ∧ rows'.map SV.size = rows.map SV.size ∧
        (List.zip (denseRows rows) (ps.map (fun p => Y p.2))).mapM (fun q => np1 f q.1 q.2) = .ok (denseRows rows') := by
  intro ps
  induction ps with
  | nil =>
    intro rows vs' hl _ _ h
    cases rows with
    | nil =>
      simp [svRows, List.mapM_nil, pure, Except.pure] at h; subst h
      exact ⟨[], rfl, by simp, rfl, rfl⟩
    | cons _ _ => simp at hl
  | cons p ps ih =>
    intro rows vs' hl hw hg h
    cases rows with
    | nil => simp at hl
    | cons a rows =>
      simp only [svRows, List.map_cons, List.zip_cons_cons, List.mapM_cons] at h
      obtain ⟨r, hr, h'⟩ := except_bind_ok h
      obtain ⟨rs, hrs, h''⟩ := except_bind_ok h'
      simp only [pure, Except.pure, Except.ok.injEq] at h''; subst h''
      obtain ⟨c, e, hcw, hcs, hnp⟩ := hK p.2 a r (hw a List.mem_cons_self) (hg (p, a) (by simp)) hr
      subst e
      obtain ⟨rows', e', hw', hsz, hd⟩ := ih rows rs (by simpa using hl)
        (fun x hx => hw x (List.mem_cons_of_mem _ hx))
        (fun q hq => hg q (by simp only [List.zip_cons_cons]; exact List.mem_cons_of_mem _ hq)) hrs
      subst e'
      refine ⟨c :: rows', rfl, ?_, by simp [hcs, hsz], ?_⟩
      · intro x hx
        rcases List.mem_cons.mp hx with e | e
        · subst e; exact hcw
        · exact hw' x e
      · simp only [denseRows, List.map_cons, List.zip_cons_cons, List.mapM_cons] at hd ⊢
        rw [hnp, hd]; rfl

theorem rowsVec_length {s : Store} {rids : List Nat} {vs : List VecObj} (h : s.rowsVec rids = some vs) : vs.length = rids.length := by
  unfold Store.rowsVec at h
  induction rids generalizing vs with
  | nil => simp [List.mapM_nil, pure] at h; subst h; rfl
  | cons r rids ih =>
    rw [option_mapM_cons] at h
    cases hg : s.getVec r with
    | none => rw [hg] at h; cases h
    | some v =>
      rw [hg] at h
      cases hr : rids.mapM s.getVec with
      | none => rw [hr] at h; cases h
      | some vr =>
        rw [hr] at h
        simp only [Option.bind, Option.some.injEq] at h; subst h
        simp [ih hr]

theorem map_fst_zip {α β : Type} (l : List α) (m : List β) (h : l.length = m.length) : (List.zip l m).map Prod.fst = l := by
  induction l generalizing m with
  | nil => rfl
  | cons a l ih =>
    cases m with
    | nil => simp at h
    | cons b m => simp [ih m (by simpa using h)]

theorem map_snd_zip {α β : Type} (l : List α) (m : List β) (h : l.length = m.length) : (List.zip l m).map Prod.snd = m := by
  induction l generalizing m with
  | nil => cases m <;> simp at h ⊢
  | cons a l ih =>
    cases m with
    | nil => simp at h
    | cons b m => simp [ih m (by simpa using h)]

theorem zip3_mem {α β γ : Type} : ∀ (l : List α) (m : List β) (r : List γ) (q : (α × β) × γ),
    q ∈ List.zip (List.zip l m) r → (q.2, q.1.2) ∈ List.zip r m := by
  intro l
  induction l with
  | nil => intro m r q h; simp at h
  | cons a l ih =>
    intro m r q h
    cases m with
    | nil => simp at h
    | cons b m =>
      cases r with
      | nil => simp at h
      | cons c r =>
        simp only [List.zip_cons_cons, List.mem_cons] at h ⊢
        rcases h with e | e
        · subst e; exact Or.inl rfl
        · exact Or.inr (ih m r q e)

/-- **`sa op= [[..],[..]]`** (2-d literal with the same number of rows, rows of the row length or length 1) -/
theorem dense_hom_isa_matrix (s s' : Store) (op : BinOp) (ar : Arith) (hop : arithOf op = some ar)
    (rowIds : List Nat) (rows : List SV) (l : Lit) (m : Mat)
    (hnd : rowIds.Nodup) (hrows : s.rowsVec rowIds = some (svRows rows)) (hw : ∀ a ∈ rows, a.WF)
    (hlen : rows.length = m.length) (hok : ∀ q ∈ List.zip rows m, InplaceOK q.1.size q.2.length)
    (hred : l.reduce = .mat m) (h : ibinSA s op rowIds (.lit l) = .ok s') :
    ∃ rows', s'.rowsVec rowIds = some (svRows rows') ∧ (∀ c ∈ rows', c.WF) ∧
      np2i op.fn (denseRows rows) m = .ok (denseRows rows') ∧ (∀ j, j ∉ rowIds → s'[j]? = s[j]?) := by
  have hcmp : op.isCmp = false := by cases op <;> simp [arithOf] at hop <;> rfl
  have hrl : rowIds.length = rows.length := by
    have := rowsVec_length hrows; simpa [svRows] using this.symm
  simp only [ibinSA, hcmp, Bool.false_eq_true, ↓reduceIte, hrows, hred] at h
  split at h
  · cases h
  · unfold zipTrunc at h
    have hfst : (List.zip rowIds m).map Prod.fst = rowIds := map_fst_zip _ _ (by omega)
    obtain ⟨vs', hm, hr, hfr⟩ := foldlM_updRow (fun (y : Vec) (r : VecObj) => r.iopArray op y) (List.zip rowIds m) s s'
      (svRows rows) (by rw [hfst]; exact hnd) (by rw [hfst]; exact hrows) h
    rw [hfst] at hr hfr
    obtain ⟨rows', e, hw', hsz, hd⟩ := inplace_pairs_hom op.fn (fun (y : Vec) (r : VecObj) => r.iopArray op y) id
      (fun y a => InplaceOK a.size y.length)
      (fun y a r ha hg hk => irow_hom_array op ar hop a y r ha hg hk)
      (List.zip rowIds m) rows vs' (by simp; omega) hw (by
        intro q hq
        -- q = ((rid, y), a) with (a, y) ∈ zip rows m
        exact hok _ (zip3_mem rowIds m rows q hq)) hm
    subst e
    refine ⟨rows', hr, hw', ?_, hfr⟩
    unfold np2i np2
    have hA : (denseRows rows).length = m.length := by simp [denseRows, hlen]
    rw [if_pos hA]
    have hsnd : (List.zip rowIds m).map (fun p => id p.2) = m := by
      simpa using map_snd_zip rowIds m (by omega)
    rw [hsnd] at hd
    rw [hd]
    simp [shapeOf_denseRows_eq rows rows' hsz]

/-! `sa op= sb` with a multi-row operand whose row objects are not rows of `sa` -/

/-- the step of the zipped SparseArray loop, with the operand row given -/
def stepPre (op : BinOp) (conv : VecObj → VecObj) (o : Option VecObj) (r : VecObj) : Except Err VecObj :=
  match o with
  | some ov => r.iopSparse op (conv ov)
  | none => .error .type

theorem updRow_stepPre (t : Store) (rid : Nat) (op : BinOp) (conv : VecObj → VecObj) (o : Option VecObj) :
    (match o with
      | some ov => updRow t rid (fun r => r.iopSparse op (conv ov))
      | none => Except.error Err.type) = updRow t rid (stepPre op conv o) := by
  cases o with
  | some ov => rfl
  | none =>
    unfold updRow stepPre
    cases t.getVec rid <;> rfl

/-- reading the operand rows from the running store or from the initial one is the same when they are
not among the rows being written -/
theorem foldlM_read_eq (s : Store) (R : List Nat) (op : BinOp) (conv : VecObj → VecObj) :
    ∀ (ps : List (Nat × Nat)) (t : Store), (∀ p ∈ ps, p.1 ∈ R ∧ p.2 ∉ R) → (∀ j, j ∉ R → t[j]? = s[j]?) →
      ps.foldlM (fun t p => match t.getVec p.2 with
        | some ov => updRow t p.1 (fun r => r.iopSparse op (conv ov))
        | none => Except.error Err.type) t =
      ps.foldlM (fun t p => updRow t p.1 (stepPre op conv (s.getVec p.2))) t := by
  intro ps
  induction ps with
  | nil => intro t _ _; rfl
  | cons p ps ih =>
    intro t hp ht
    rw [List.foldlM_cons, List.foldlM_cons]
    have hg : t.getVec p.2 = s.getVec p.2 := by
      unfold Store.getVec; rw [ht p.2 (hp p List.mem_cons_self).2]
    rw [hg, updRow_stepPre]
    cases hu : updRow t p.1 (stepPre op conv (s.getVec p.2)) with
    | error e => rfl
    | ok t1 =>
      simp only [bind, Except.bind]
      apply ih t1 (fun q hq => hp q (List.mem_cons_of_mem _ hq))
      intro j hj
      have := (updRow_frame p.1 _ hu).2 j (by intro e; subst e; exact hj (hp p List.mem_cons_self).1)
      rw [this, ht j hj]

theorem rowsVec_zip_getVec (s : Store) : ∀ (orows : List Nat) (ors : List VecObj), s.rowsVec orows = some ors →
    orows.map s.getVec = ors.map some := by
  intro orows
  induction orows with
  | nil => intro ors h; simp [Store.rowsVec, List.mapM_nil, pure] at h; subst h; rfl
  | cons o orows ih =>
    intro ors h
    rw [rowsVec_cons] at h
    cases hg : s.getVec o with
    | none => rw [hg] at h; cases h
    | some v =>
      rw [hg] at h
      cases hr : s.rowsVec orows with
      | none => rw [hr] at h; cases h
      | some vr =>
        rw [hr] at h
        simp only [Option.bind, Option.some.injEq] at h; subst h
        simp [hg, ih vr hr]

theorem guard_zip : ∀ (ps : List (Nat × Option VecObj)) (ors rows : List SV),
    ps.map Prod.snd = ors.map (fun b => some (VecObj.sv b)) →
    ∀ q ∈ List.zip ps rows, ∃ b, q.1.2 = some (.sv b) ∧ (q.2, b) ∈ List.zip rows ors := by
  intro ps
  induction ps with
  | nil => intro ors rows _ q hq; simp at hq
  | cons p ps ih =>
    intro ors rows h q hq
    cases ors with
    | nil => simp at h
    | cons b ors =>
      cases rows with
      | nil => simp at hq
      | cons a rows =>
        simp only [List.map_cons, List.cons.injEq] at h
        simp only [List.zip_cons_cons, List.mem_cons] at hq ⊢
        rcases hq with e | e
        · subst e; exact ⟨b, h.1, Or.inl rfl⟩
        · obtain ⟨b', h1, h2⟩ := ih ors rows h.2 q e
          exact ⟨b', h1, Or.inr h2⟩

/-- the dense image of a pre-read operand row -/
def preDense : Option VecObj → Vec
  | some v => v.toDense
  | none => []

/-- **`sa op= sb`**, both float arrays with the same number of rows, no row object in common -/
theorem dense_hom_isa_sa (s s' : Store) (op : BinOp) (ar : Arith) (hop : arithOf op = some ar)
    (rowIds orows : List Nat) (rows ors : List SV) (j : Nat)
    (hnd : rowIds.Nodup) (hrows : s.rowsVec rowIds = some (svRows rows)) (hw : ∀ a ∈ rows, a.WF)
    (hj : s[j]? = some (.sa orows)) (hors : s.rowsVec orows = some (svRows ors)) (hwo : ∀ b ∈ ors, b.WF)
    (hlen : rows.length = ors.length) (hmulti : ors.length ≠ 1)
    (hdisj : ∀ o ∈ orows, o ∉ rowIds)
    (hok : ∀ q ∈ List.zip rows ors, InplaceOK q.1.size q.2.size)
    (h : ibinSA s op rowIds (.ref j) = .ok s') :
    ∃ rows', s'.rowsVec rowIds = some (svRows rows') ∧ (∀ c ∈ rows', c.WF) ∧
      np2i op.fn (denseRows rows) (denseRows ors) = .ok (denseRows rows') ∧ (∀ k, k ∉ rowIds → s'[k]? = s[k]?) := by
  have hcmp : op.isCmp = false := by cases op <;> simp [arithOf] at hop <;> rfl
  have hrl : rowIds.length = rows.length := by
    have := rowsVec_length hrows; simpa [svRows] using this.symm
  have hol : orows.length = ors.length := by
    have := rowsVec_length hors; simpa [svRows] using this.symm
  have hob : s.isBoolObj j = false := by
    unfold Store.isBoolObj; rw [hj]
    cases orows with
    | nil => rfl
    | cons o orows =>
      simp only
      have := rowsVec_zip_getVec s _ _ hors
      cases ors with
      | nil => simp at hol
      | cons b ors =>
        simp only [svRows, List.map_cons, List.cons.injEq] at this
        have hg := this.1
        unfold Store.getVec at hg
        split at hg <;> simp_all
  simp only [ibinSA, hcmp, Bool.false_eq_true, ↓reduceIte, hrows, hj, rowsBool_svRows, hob,
    Bool.not_false, Bool.and_false, Bool.false_and] at h
  split at h
  · cases h
  · -- not the one-row branch
    split at h
    · simp at hol; exact absurd hol.symm hmulti
    · unfold zipTrunc at h
      have hre := foldlM_read_eq s rowIds op (fun v => v) (List.zip rowIds orows) s
        (fun p hp => ⟨(List.of_mem_zip hp).1, hdisj _ (List.of_mem_zip hp).2⟩) (fun _ _ => rfl)
      replace h := hre.symm.trans h
      -- pairs (row id, pre-read operand row)
      have h' : ((List.zip rowIds orows).map (fun p => (p.1, s.getVec p.2))).foldlM
          (fun t p => updRow t p.1 (stepPre op (fun v => v) p.2)) s = .ok s' := by
        rw [List.foldlM_map]
        simpa using h
      have hfst : ((List.zip rowIds orows).map (fun p => (p.1, s.getVec p.2))).map Prod.fst = rowIds := by
        rw [List.map_map]
        have : (Prod.fst ∘ fun (p : Nat × Nat) => (p.1, s.getVec p.2)) = Prod.fst := rfl
        rw [this]; exact map_fst_zip _ _ (by omega)
      have hsnd : ((List.zip rowIds orows).map (fun p => (p.1, s.getVec p.2))).map Prod.snd = (svRows ors).map some := by
        rw [List.map_map]
        have : (Prod.snd ∘ fun (p : Nat × Nat) => (p.1, s.getVec p.2)) = s.getVec ∘ Prod.snd := rfl
        rw [this, ← List.map_map, map_snd_zip _ _ (by omega)]
        exact rowsVec_zip_getVec s _ _ hors
      obtain ⟨vs', hm, hr, hfr⟩ := foldlM_updRow (stepPre op (fun v => v)) _ s s' (svRows rows)
        (by rw [hfst]; exact hnd) (by rw [hfst]; exact hrows) h'
      rw [hfst] at hr hfr
      have hsnd' : ((List.zip rowIds orows).map (fun p => (p.1, s.getVec p.2))).map Prod.snd = ors.map (fun b => some (VecObj.sv b)) := by
        rw [hsnd]; simp [svRows, List.map_map, Function.comp_def]
      have hguard := guard_zip _ ors rows hsnd'
      obtain ⟨rows', e, hw', hsz, hd⟩ := inplace_pairs_hom op.fn (stepPre op (fun v => v)) preDense
        (fun o a => ∃ b, o = some (.sv b) ∧ b.WF ∧ InplaceOK a.size b.size)
        (fun o a r ha hg hk => by
          obtain ⟨b, e, hbw, hio⟩ := hg
          subst e
          exact irow_hom_sparse op ar hop a b r ha hbw hio hk)
        _ rows vs' (by simp; omega) hw
        (fun q hq => by
          obtain ⟨b, h1, h2⟩ := hguard q hq
          exact ⟨b, h1, hwo b (List.of_mem_zip h2).2, hok _ h2⟩) hm
      subst e
      refine ⟨rows', hr, hw', ?_, hfr⟩
      have hY : ((List.zip rowIds orows).map (fun p => (p.1, s.getVec p.2))).map (fun p => preDense p.2) = denseRows ors := by
        have : (fun (p : Nat × Option VecObj) => preDense p.2) = preDense ∘ Prod.snd := rfl
        rw [this, ← List.map_map, hsnd]
        simp [svRows, denseRows, List.map_map, Function.comp_def, preDense, VecObj.toDense]
      rw [hY] at hd
      unfold np2i np2
      have hA : (denseRows rows).length = (denseRows ors).length := by simp [denseRows, hlen]
      rw [if_pos hA, hd]
      simp [shapeOf_denseRows_eq rows rows' hsz]

/-- `sa op= sa` (the array itself as operand: every row meets itself) is not covered by the theorems
above (`dense_hom_isa_sa` asks for disjoint row objects); it stays tied by correspondence
(grid cell `self`, corpus `ibin sub @2 @2`) -/
def dense_hom_isa_self_statement : Prop :=
  ∀ (s s' : Store) (op : BinOp) (ar : Arith) (rowIds : List Nat) (rows : List SV) (j : Nat),
    arithOf op = some ar → rowIds.Nodup → s.rowsVec rowIds = some (svRows rows) → (∀ a ∈ rows, a.WF) →
    s[j]? = some (.sa rowIds) → rows.length ≠ 1 → ibinSA s op rowIds (.ref j) = .ok s' →
    ∃ rows', s'.rowsVec rowIds = some (svRows rows') ∧
      np2i op.fn (denseRows rows) (denseRows rows) = .ok (denseRows rows')

/-! ### (2) boolean-row arrays: `& | ^`, `+` (or), `*` (and), `~`, `any` / `all` -/

def slvRows (rows : List SLV) : List VecObj := rows.map VecObj.slv
def denseRowsB (rows : List SLV) : Mat := rows.map SLV.toDense

/-- the operators of a boolean array that NumPy defines on boolean arrays -/
def LogicOp (op : BinOp) (l : LOp) : Prop := lopOf op = some l ∧ l ≠ .truediv ∧ cmpOf op = none

theorem logic_fn (op : BinOp) (l : LOp) (h : LogicOp op l) : op.fnBool = (lopBin l).fnBool := by
  obtain ⟨h1, h2, _⟩ := h
  cases op <;> simp [lopOf] at h1 <;> subst h1 <;> first | rfl | exact absurd rfl h2

theorem rowb_hom_sparse (op : BinOp) (l : LOp) (hl : LogicOp op l) (a b : SLV) (r : VecObj)
    (ha : SLVWF a) (hb : SLVWF b) (h : (VecObj.slv a).opSparse op (.slv b) = .ok r) :
    VecWF r ∧ np1 op.fnBool a.toDense b.toDense = .ok r.toDense := by
  simp only [VecObj.opSparse, hl.2.2, hl.1] at h
  obtain ⟨c, hc, e⟩ := except_map_ok h; subst e
  have := dense_hom_logical_sparse l hl.2.1 a.copy b c (slv_copy_wf ha) hb hc
  rw [logic_fn op l hl]
  exact ⟨this.1, this.2⟩

theorem rowsBool_slvRows (rows : List SLV) (hne : rows ≠ []) : rowsBool (slvRows rows) = true := by
  cases rows with
  | nil => exact absurd rfl hne
  | cons a rows => rfl

theorem coerce_bool (v : VecObj) (me : Bool) : coerce true true v me = v := by
  unfold coerce; cases me <;> simp

theorem map_coerce_bool (l : List VecObj) (me : Bool) : l.map (fun r => coerce true true r me) = l := by
  induction l with
  | nil => rfl
  | cons a l ih => simp [coerce_bool, ih]

/-- **boolean array ∘ logical vector** (`sab & slv`, `|`, `^`, `+`, `*`) -/
theorem dense_hom_sab_slv (s : Store) (op : BinOp) (l : LOp) (hl : LogicOp op l) (rows : List SLV) (j : Nat) (b : SLV)
    (cs : List VecObj) (hne : rows ≠ []) (hw : ∀ r ∈ rows, SLVWF r) (hb : SLVWF b) (hj : s[j]? = some (.slv b))
    (h : binSA s op (slvRows rows) (.ref j) = .ok (.rows cs)) :
    (∀ c ∈ cs, VecWF c) ∧ np2 op.fnBool (denseRowsB rows) [b.toDense] = .ok (cs.map VecObj.toDense) := by
  unfold binSA at h
  have hgv : s.getVec j = some (.slv b) := by unfold Store.getVec; rw [hj]
  simp only [hj, hgv, rowsBool_slvRows rows hne, VecObj.isBool, map_coerce_bool, coerce_bool] at h
  obtain ⟨cs', hcs, e⟩ := except_map_ok h
  simp only [VRes.rows.injEq] at e; subst e
  simp only [slvRows, mapM_map] at hcs
  have := gen_mapM_hom (fun a : SLV => SLVWF a) (fun a => (VecObj.slv a).opSparse op (.slv b))
    (fun a => np1 op.fnBool a.toDense b.toDense)
    (fun a r ha hk => rowb_hom_sparse op l hl a b r ha hb hk) rows _ hw hcs
  refine ⟨this.1, ?_⟩
  rw [np2_single]
  unfold denseRowsB
  rw [mapM_map]
  exact this.2

/-- **`~sab`** -/
theorem dense_hom_sab_invert (rows : List SLV) :
    (rows.map (fun a => (VecObj.slv a.invert))).map VecObj.toDense =
      (denseRowsB rows).map (fun r => r.map (fun x => b2r (x == 0))) ∧
    ∀ a ∈ rows, SLVWF a.invert := by
  refine ⟨?_, fun a _ => slv_invert_wf a⟩
  unfold denseRowsB
  rw [List.map_map, List.map_map]
  apply List.map_congr_left
  intro a _
  exact (dense_hom_invert a).2

/-- `any` of a logical vector -/
theorem slv_dense_any (a : SLV) (ha : SLVWF a) : redVec .any a.toDense = .ok (b2r a.any) := by
  simp only [redVec, SLV.any]
  congr 2
  rw [slv_toDense_eq]
  unfold vecOf
  rw [Bool.eq_iff_iff]
  simp only [List.any_map, List.any_eq_true, List.mem_range, Function.comp, bne_iff_ne, Bool.not_eq_true',
    List.isEmpty_eq_false_iff]
  constructor
  · rintro ⟨i, _, hne⟩ he
    apply hne
    simp [SLV.mem, he, b2r]
  · intro hne
    match hd : a.set with
    | [] => exact absurd hd hne
    | k :: r =>
      have hk : k ∈ a.set := by rw [hd]; exact List.mem_cons_self
      refine ⟨k, ha.2 k hk, ?_⟩
      have : a.mem k = true := by simp only [SLV.mem, List.contains_eq_mem, decide_eq_true_eq]; exact hk
      rw [this]; decide

/-- `all` of a logical vector (`len(set) == size`) -/
theorem slv_dense_all (a : SLV) (ha : SLVWF a) : redVec .all a.toDense = .ok (b2r a.allTrue) := by
  simp only [redVec, SLV.allTrue]
  congr 2
  rw [slv_toDense_eq]
  unfold vecOf
  rw [Bool.eq_iff_iff]
  simp only [List.all_map, List.all_eq_true, List.mem_range, Function.comp, bne_iff_ne, beq_iff_eq]
  have hsub : ∀ x ∈ a.set, x ∈ List.range a.size := fun x hx => List.mem_range.mpr (ha.2 x hx)
  have hmem : ∀ i, b2r (a.mem i) ≠ 0 ↔ i ∈ a.set := by
    intro i
    unfold SLV.mem
    by_cases h : i ∈ a.set
    · simp [h, b2r]
    · simp [h, b2r]
  constructor
  · intro hall
    have h1 := nodup_subset_length_le _ _ ha.1 hsub
    have h2 : ∀ x ∈ List.range a.size, x ∈ a.set := fun x hx => (hmem x).mp (hall x (List.mem_range.mp hx))
    have h3 := nodup_subset_length_le _ _ List.nodup_range h2
    simp only [List.length_range] at h1 h3
    omega
  · intro hlen i hi
    rw [hmem]
    by_contra hni
    have hsub' : ∀ x ∈ a.set, x ∈ (List.range a.size).erase i := by
      intro x hx
      have hxi : x ≠ i := by intro e; subst e; exact hni hx
      exact (List.mem_erase_of_ne hxi).mpr (hsub x hx)
    have := nodup_subset_length_le _ _ ha.1 hsub'
    rw [List.length_erase_of_mem (List.mem_range.mpr hi)] at this
    simp only [List.length_range] at this
    omega

/-- **`sab.any(axis=1)` / `sab.all(axis=1)`** of a boolean array -/
theorem dense_hom_sab_any_all_axis1 (rows : List SLV) (hw : ∀ a ∈ rows, SLVWF a) :
    (denseRowsB rows).mapM (redVec .any) = .ok (rows.map (fun a => b2r a.any)) ∧
    (denseRowsB rows).mapM (redVec .all) = .ok (rows.map (fun a => b2r a.allTrue)) ∧
    (∀ v, reduceSA .any (slvRows rows) (some 1) false = .ok (.vec v) → v.toDense = rows.map (fun a => b2r a.any)) ∧
    (∀ v, reduceSA .all (slvRows rows) (some 1) false = .ok (.vec v) → v.toDense = rows.map (fun a => b2r a.allTrue)) := by
  have hrows : ∀ (r : Red) (g : SLV → Rat), (∀ a ∈ rows, redVec r a.toDense = .ok (g a)) →
      (denseRowsB rows).mapM (redVec r) = .ok (rows.map g) := by
    intro r g hg
    unfold denseRowsB
    clear hw
    induction rows with
    | nil => rfl
    | cons a rows ih =>
      rw [List.map_cons, List.mapM_cons, hg a List.mem_cons_self, ih (fun x hx => hg x (List.mem_cons_of_mem _ hx))]
      rfl
  refine ⟨hrows .any _ (fun a ha => slv_dense_any a (hw a ha)), hrows .all _ (fun a ha => slv_dense_all a (hw a ha)), ?_, ?_⟩
  · intro v h
    simp only [reduceSA, Bool.false_eq_true, ↓reduceIte, Except.ok.injEq, RRes.vec.injEq] at h
    subst h
    show SLV.toDense _ = _
    rw [ofPred_toDense]
    apply List.ext_getElem
    · simp [vecOf_length, slvRows]
    · intro i h1 h2
      simp only [vecOf_length, slvRows, List.length_map] at h1
      simp [vecOf, slvRows, List.getElem?_eq_getElem h1, VecObj.anyB]
  · intro v h
    simp only [reduceSA, Bool.false_eq_true, ↓reduceIte, Except.ok.injEq, RRes.vec.injEq] at h
    subst h
    show SLV.toDense _ = _
    rw [ofPred_toDense]
    apply List.ext_getElem
    · simp [vecOf_length, slvRows]
    · intro i h1 h2
      simp only [vecOf_length, slvRows, List.length_map] at h1
      simp [vecOf, slvRows, List.getElem?_eq_getElem h1, VecObj.allB]

def pairSLV (rs os : List SLV) : List (SLV × SLV) :=
  match rs, os with
  | [r], _ => os.map (fun o => (r, o))
  | _, [o] => rs.map (fun r => (r, o))
  | _, _ => rs.zip os

theorem pairRows_slv (rs os : List SLV) :
    pairRows (slvRows rs) (slvRows os) = (pairSLV rs os).map (fun p => (VecObj.slv p.1, VecObj.slv p.2)) := by
  rcases rs with _ | ⟨r, _ | ⟨r2, rt⟩⟩ <;> rcases os with _ | ⟨o, _ | ⟨o2, ot⟩⟩ <;>
    simp [pairRows, pairSLV, slvRows, zipTrunc, List.zip_map, List.map_map, Function.comp_def]

theorem np2_pairSLV (f : Rat → Rat → Rat) (rs os : List SLV)
    (hshape : rs.length = os.length ∨ rs.length = 1 ∨ os.length = 1) :
    np2 f (denseRowsB rs) (denseRowsB os) =
      ((pairSLV rs os).map (fun p => (p.1.toDense, p.2.toDense))).mapM (fun p => np1 f p.1 p.2) := by
  rcases rs with _ | ⟨r, _ | ⟨r2, rt⟩⟩ <;> rcases os with _ | ⟨o, _ | ⟨o2, ot⟩⟩ <;>
    simp [np2, pairSLV, denseRowsB, List.zip_map, mapM_map, List.map_map, Function.comp_def] at hshape ⊢
  intro hn; exact absurd hshape hn

theorem pairSLV_mem (rs os : List SLV) (p : SLV × SLV) (h : p ∈ pairSLV rs os) : p.1 ∈ rs ∧ p.2 ∈ os := by
  unfold pairSLV at h
  split at h
  · obtain ⟨o, ho, e⟩ := List.mem_map.mp h; subst e; exact ⟨List.mem_singleton.mpr rfl, ho⟩
  · obtain ⟨r, hr, e⟩ := List.mem_map.mp h; subst e; exact ⟨hr, List.mem_singleton.mpr rfl⟩
  · exact ⟨(List.of_mem_zip h).1, (List.of_mem_zip h).2⟩

/-- **boolean array ∘ boolean array** (`sab & sbb`, `|`, `^`, `+`, `*`), one-row broadcasting included -/
theorem dense_hom_sab_sab (s : Store) (op : BinOp) (l : LOp) (hl : LogicOp op l) (rows ors : List SLV) (j : Nat)
    (orows : List Nat) (cs : List VecObj) (hne : rows ≠ []) (hno : ors ≠ [])
    (hw : ∀ r ∈ rows, SLVWF r) (hwo : ∀ r ∈ ors, SLVWF r)
    (hj : s[j]? = some (.sa orows)) (hors : s.rowsVec orows = some (slvRows ors))
    (hshape : rows.length = ors.length ∨ rows.length = 1 ∨ ors.length = 1)
    (h : binSA s op (slvRows rows) (.ref j) = .ok (.rows cs)) :
    (∀ c ∈ cs, VecWF c) ∧ np2 op.fnBool (denseRowsB rows) (denseRowsB ors) = .ok (cs.map VecObj.toDense) := by
  unfold binSA at h
  simp only [hj, hors, rowsBool_slvRows rows hne, rowsBool_slvRows ors hno, map_coerce_bool, pairRows_slv, mapM_map] at h
  obtain ⟨cs', hcs, e⟩ := except_map_ok h
  simp only [VRes.rows.injEq] at e; subst e
  have := gen_mapM_hom (fun p : SLV × SLV => SLVWF p.1 ∧ SLVWF p.2) (fun p => (VecObj.slv p.1).opSparse op (.slv p.2))
    (fun p => np1 op.fnBool p.1.toDense p.2.toDense)
    (fun p r hp hk => rowb_hom_sparse op l hl p.1 p.2 r hp.1 hp.2 hk) (pairSLV rows ors) _
    (fun p hp => ⟨hw _ (pairSLV_mem rows ors p hp).1, hwo _ (pairSLV_mem rows ors p hp).2⟩) hcs
  refine ⟨this.1, ?_⟩
  rw [np2_pairSLV op.fnBool rows ors hshape, mapM_map]
  exact this.2

end ThermoVerif.Props.C09
