import ThermoVerif.Model.Network
import ThermoVerif.Lemmas.NetworkExec
/-
C18 — Flowsheet connections stay mutually consistent under every rewiring operation.

Statement (properties.jsonl): after any sequence of connection operations on
units and streams, used within their preconditions, a stream is listed among a
unit's inlets exactly when that unit is the stream's sink and among its outlets
exactly when it is the stream's source, no stream occupies two ports, and port
lists of fixed size keep their size with vacated ports filled by placeholders.

The model is `ThermoVerif.Network` (Model/Network.lean).  Preconditions are
monitored by the model itself (`World.pre`, sticky): a history counts only while
every primitive list operation was used as the property allows.
-/
namespace ThermoVerif.Props.C18
open ThermoVerif.Network

/-- The property on one side (inlets: `loc` = sink; outlets: `loc` = source).
Placeholders are the non-real ids; they carry no material by construction. -/
structure SideInv (real : Nat → Bool) (sd : Side) : Prop where
  /-- listed among the unit's ports exactly when docked at that unit -/
  listed_iff_docked : ∀ u s, real s = true → (s ∈ sd.lst u ↔ sd.loc s = some u)
  /-- no stream occupies two ports of a list -/
  no_two_ports : ∀ u s, real s = true → (sd.lst u).count s ≤ 1
  /-- fixed-size lists keep their size -/
  fixed_size : ∀ u, sd.fixed u = true → (sd.lst u).length = sd.size u

/-- The docking invariant of the whole flowsheet. -/
structure Inv (w : World) : Prop where
  ins : SideInv w.real w.ins
  outs : SideInv w.real w.outs

/-- Allocation discipline: ids at or above the counter are unused. -/
structure Scoped (w : World) : Prop where
  lst_lt : ∀ k u s, s ∈ (w.side k).lst u → s < w.nS
  loc_none : ∀ k s, w.nS ≤ s → (w.side k).loc s = none
  not_real : ∀ s, w.nS ≤ s → w.real s = false
  /-- units that do not exist yet have empty, variable-size port lists and nothing is docked at them -/
  lst_nil : ∀ k u, w.nU ≤ u → (w.side k).lst u = []
  fixed_false : ∀ k u, w.nU ≤ u → (w.side k).fixed u = false
  loc_lt : ∀ k s u, (w.side k).loc s = some u → u < w.nU

/-- What is maintained along a history: as long as every operation so far was
used within its preconditions, the invariant holds. -/
def Good (w : World) : Prop := w.pre = true → Inv w ∧ Scoped w

/-! ### Bridge to the per-side count formulation used in the lemma files -/

theorem sinv_of_sideInv {w : World} (k : Which) (hi : SideInv w.real (w.side k)) (hs : Scoped w) :
    SInv w.nU (w.get k) := by
  refine ⟨fun u s hr => ?_, fun u hf => ?_, ?_⟩
  · have hr' : w.real s = true := by simpa using hr
    have h1 := hi.listed_iff_docked u s hr'
    have h2 := hi.no_two_ports u s hr'
    simp only [get_sd]
    by_cases hl : (w.side k).loc s = some u
    · have := List.count_pos_iff.mpr (h1.mpr hl)
      rw [if_pos hl]; omega
    · rw [if_neg hl]
      exact List.count_eq_zero.mpr (fun hm => hl (h1.mp hm))
  · simp only [get_sd] at hf ⊢
    exact hi.fixed_size u hf
  · constructor
    · intro u s h; simpa using hs.lst_lt k u s (by simpa using h)
    · intro s h; simpa using hs.loc_none k s (by simpa using h)
    · intro s h; simpa using hs.not_real s (by simpa using h)
    · intro u h; simpa using hs.lst_nil k u h
    · intro u h; simpa using hs.fixed_false k u h
    · intro s u h; exact hs.loc_lt k s u (by simpa using h)

theorem sideInv_of_sinv {w : World} (k : Which) (h : SInv w.nU (w.get k)) :
    SideInv w.real (w.side k) := by
  refine ⟨fun u s hr => ?_, fun u s hr => ?_, fun u hf => ?_⟩
  · have := h.cnt u s (by simpa using hr)
    simp only [get_sd] at this
    rw [← List.count_pos_iff, this]
    split <;> simp [*]
  · have := h.cnt u s (by simpa using hr)
    simp only [get_sd] at this
    rw [this]; split <;> omega
  · have := h.fx u (by simpa using hf)
    simpa using this

theorem goodS_of {w : World} (h : Inv w ∧ Scoped w) : GoodS w :=
  ⟨sinv_of_sideInv .i h.1.ins h.2, sinv_of_sideInv .o h.1.outs h.2⟩

theorem of_goodS {w : World} (h : GoodS w) : Inv w ∧ Scoped w := by
  refine ⟨⟨sideInv_of_sinv .i h.1, sideInv_of_sinv .o h.2⟩, ?_⟩
  have side : ∀ k, SInv w.nU (w.get k) := fun k => by cases k; exact h.1; exact h.2
  constructor
  · intro k u s hm; simpa using (side k).sc.lst_lt u s (by simpa using hm)
  · intro k s hs; simpa using (side k).sc.loc_none s (by simpa using hs)
  · intro s hs; simpa using h.1.sc.not_real s (by simpa using hs)
  · intro k u hu; simpa using (side k).sc.lst_nil u hu
  · intro k u hu; simpa using (side k).sc.fixed_false u hu
  · intro k s u hl; exact (side k).sc.loc_lt s u (by simpa using hl)

theorem good_init : Good World.init := by
  intro _
  refine ⟨⟨?_, ?_⟩, ?_⟩
  · exact ⟨by simp [World.init, Side.init], by simp [World.init, Side.init],
      by simp [World.init, Side.init]⟩
  · exact ⟨by simp [World.init, Side.init], by simp [World.init, Side.init],
      by simp [World.init, Side.init]⟩
  · constructor
    · intro k u s; cases k <;> simp [World.init, Side.init, World.side]
    · intro k s; cases k <;> simp [World.init, Side.init, World.side]
    · intro s; simp [World.init]
    · intro k u; cases k <;> simp [World.init, Side.init, World.side]
    · intro k u; cases k <;> simp [World.init, Side.init, World.side]
    · intro k s u; cases k <;> simp [World.init, Side.init, World.side]

/-- The precondition monitor is sticky: it never turns back on. -/
theorem pre_sticky (w w' : World) (op : Op) (h : w.step op = .ok w') (hp : w'.pre = true) :
    w.pre = true := by
  have := (exec_wstep h).ext.pre hp
  simp only [Bool.and_eq_true] at this
  exact this.1.1

/-- One operation preserves the invariant (all 22 operation kinds). -/
theorem inv_step (w w' : World) (op : Op) (hg : Good w) (h : w.step op = .ok w') : Good w' := by
  intro hp
  have S := exec_wstep h
  have hp0 := S.ext.pre hp
  simp only [Bool.and_eq_true] at hp0
  obtain ⟨⟨hpw, hids⟩, hunits⟩ := hp0
  have hG := goodS_of (hg hpw)
  exact of_goodS (S.inv hp ⟨hG.1.of_eq rfl rfl rfl, hG.2.of_eq rfl rfl rfl⟩ ⟨hids, hunits⟩)

/-- Every history, of any length. -/
theorem inv_history (ops : List Op) (w : World) (hg : Good w) : Good (w.run ops) := by
  induction ops generalizing w with
  | nil => exact hg
  | cons op ops ih =>
    simp only [World.run]
    split
    · rename_i w' h; exact ih w' (inv_step w w' op hg h)
    · exact hg

/-- The property as stated: after any sequence of operations from the empty
flowsheet, all used within their preconditions, the docking invariant holds. -/
theorem C18_docking_invariant (ops : List Op) (h : (World.init.run ops).pre = true) :
    Inv (World.init.run ops) :=
  (inv_history ops World.init good_init h).1

/-- "No stream occupies two ports", across units: a consequence of `Inv`. -/
theorem one_unit_per_side (w : World) (hi : Inv w) (k : Which) (s u v : Nat)
    (hr : w.real s = true) (hu : s ∈ (w.side k).lst u) (hv : s ∈ (w.side k).lst v) : u = v := by
  have hs : SideInv w.real (w.side k) := by cases k; exact hi.ins; exact hi.outs
  have h1 := (hs.listed_iff_docked u s hr).mp hu
  have h2 := (hs.listed_iff_docked v s hr).mp hv
  rw [h1] at h2; exact Option.some.inj h2

/-- Non-vacuity: a concrete history exercising redocking across units, pop, slice
assignment and piping stays within the preconditions (so the theorem above applies to it). -/
example :
    (World.init.run
      [ .newUnit 2 true .missing 1 true .missing
      , .newUnit 1 false .missing 2 true .fresh
      , .newStream
      , .set .i 0 0 (some 6)
      , .set .i 1 0 (some 6)
      , .pop .i 1 0
      , .pipeUU 1 0 ]).pre = true := by
  rfl

end ThermoVerif.Props.C18
