import ThermoVerif.Model.Network
import ThermoVerif.Lemmas.NetworkBridge
/-
C18 — Flowsheet connections stay mutually consistent under every rewiring operation.

Statement (properties.jsonl): after any sequence of connection operations on
units and streams, used within their preconditions, a stream is listed among a
unit's inlets exactly when that unit is the stream's sink and among its outlets
exactly when it is the stream's source, no stream occupies two ports, and port
lists of fixed size keep their size with vacated ports filled by placeholders
that report no material.

The model is `ThermoVerif.Network` (Model/Network.lean).  Streams and placeholder
objects (`AbstractMissingStream`) are both objects with identity (ids); the
invariant below speaks about *every* object, so it covers the placeholders that
fill vacant ports as well: a placeholder that is carried from one unit to another
(unit-to-unit piping, `take_place_of`, `replace_with`, `insert` of a bare unit,
slice or item assignment of another unit's ports) is listed exactly where its
sink/source pointer says.  Preconditions are monitored by the model itself
(`World.pre`, sticky) and apply to streams and placeholders alike: a history
counts only while every primitive list operation was used as the property allows.
(The harness evaluates the same preconditions independently in Python on the real
objects and compares the two flags on every line.)

Scope notes.  A history ends at the first operation that raises (`World.run`); the
state a rejected call leaves behind is not part of any statement here.  "Placeholders
report no material" has no theorem: in the model a placeholder has no flow data at
all; the clause is decided on the real objects by the oracle.  The bridge between the
clauses below and the count formulation of the lemma files is
`Lemmas/NetworkBridge.lean` (`goodS_iff`, `goodS_init`).
-/
namespace ThermoVerif.Props.C18
open ThermoVerif.Network

/-- The property on one side (inlets: `loc` = sink; outlets: `loc` = source), for every object
`s` — stream or placeholder.  Placeholders carry no material by construction (they have no flow
data at all in the model). -/
structure SideInv (sd : Side) : Prop where
  /-- listed among the unit's ports exactly when docked at that unit -/
  listed_iff_docked : ∀ u s, (s ∈ sd.lst u ↔ sd.loc s = some u)
  /-- no object occupies two ports of a list -/
  no_two_ports : ∀ u s, (sd.lst u).count s ≤ 1
  /-- fixed-size lists keep their size -/
  fixed_size : ∀ u, sd.fixed u = true → (sd.lst u).length = sd.size u

/-- The docking invariant of the whole flowsheet. -/
structure Inv (w : World) : Prop where
  ins : SideInv w.ins
  outs : SideInv w.outs

/-- Allocation discipline: ids at or above the counter are unused. -/
structure Scoped (w : World) : Prop where
  lst_lt : ∀ k u s, s ∈ (w.side k).lst u → s < w.nS
  loc_none : ∀ k s, w.nS ≤ s → (w.side k).loc s = none
  not_real : ∀ s, w.nS ≤ s → w.real s = false
  /-- units that do not exist yet have empty, variable-size port lists and nothing is docked at them -/
  lst_nil : ∀ k u, w.nU ≤ u → (w.side k).lst u = []
  fixed_false : ∀ k u, w.nU ≤ u → (w.side k).fixed u = false
  loc_lt : ∀ k s u, (w.side k).loc s = some u → u < w.nU

/-- What is maintained along a history: as long as every operation so far was
used within its preconditions, the invariant holds. -/
def Good (w : World) : Prop := w.pre = true → Inv w ∧ Scoped w

/-! ### Bridge to the count formulation of the lemma files

`GoodS` (Lemmas/NetworkBridge.lean, `goodS_iff`) is exactly the conjunction of the clauses of
`SideInv` for both sides and of `Scoped`; the two conversions below only repackage fields. -/

private def toGoodS {w : World} (h : Inv w ∧ Scoped w) : GoodS w :=
  (goodS_iff w).mpr ⟨⟨h.1.ins.1, h.1.ins.2, h.1.ins.3⟩, ⟨h.1.outs.1, h.1.outs.2, h.1.outs.3⟩,
    ⟨h.2.1, h.2.2, h.2.3, h.2.4, h.2.5, h.2.6⟩⟩

private def ofGoodS {w : World} (h : GoodS w) : Inv w ∧ Scoped w :=
  have c := (goodS_iff w).mp h
  ⟨⟨⟨c.1.1, c.1.2.1, c.1.2.2⟩, ⟨c.2.1.1, c.2.1.2.1, c.2.1.2.2⟩⟩,
   ⟨c.2.2.1, c.2.2.2.1, c.2.2.2.2.1, c.2.2.2.2.2.1, c.2.2.2.2.2.2.1, c.2.2.2.2.2.2.2⟩⟩

/-- The empty flowsheet satisfies the invariant (base case of `inv_history`). -/
theorem good_init : Good World.init := fun _ => ofGoodS goodS_init

/-- The precondition monitor is sticky: it never turns back on. -/
theorem pre_sticky (w w' : World) (op : Op) (h : w.step op = .ok w') (hp : w'.pre = true) :
    w.pre = true := by
  have := (exec_wstep h).ext.pre hp
  simp only [Bool.and_eq_true] at this
  exact this.1.1

/-- One operation preserves the invariant (all 30 operation kinds), for streams and
placeholder objects alike. -/
theorem inv_step (w w' : World) (op : Op) (hg : Good w) (h : w.step op = .ok w') : Good w' := by
  intro hp
  have S := exec_wstep h
  have hp0 := S.ext.pre hp
  simp only [Bool.and_eq_true] at hp0
  obtain ⟨⟨hpw, hids⟩, hunits⟩ := hp0
  have hG := toGoodS (hg hpw)
  exact ofGoodS (S.inv hp ⟨hG.ins.of_eq rfl rfl, hG.outs.of_eq rfl rfl, hG.nreal⟩ ⟨hids, hunits⟩)

/-- Every history, of any length. -/
theorem inv_history (ops : List Op) (w : World) (hg : Good w) : Good (w.run ops) := by
  induction ops generalizing w with
  | nil => exact hg
  | cons op ops ih =>
    simp only [World.run]
    split
    · rename_i w' h; exact ih w' (inv_step w w' op hg h)
    · exact hg

/-- The property as stated: after any sequence of operations from the empty
flowsheet, all used within their preconditions, the docking invariant holds —
for every object, stream or placeholder. -/
theorem C18_docking_invariant (ops : List Op) (h : (World.init.run ops).pre = true) :
    Inv (World.init.run ops) :=
  (inv_history ops World.init good_init h).1

/-- "No stream occupies two ports", across units: a consequence of `Inv`; holds for
placeholder objects too. -/
theorem one_unit_per_side (w : World) (hi : Inv w) (k : Which) (s u v : Nat)
    (hu : s ∈ (w.side k).lst u) (hv : s ∈ (w.side k).lst v) : u = v := by
  have hs : SideInv (w.side k) := by cases k; exact hi.ins; exact hi.outs
  have h1 := (hs.listed_iff_docked u s).mp hu
  have h2 := (hs.listed_iff_docked v s).mp hv
  rw [h1] at h2; exact Option.some.inj h2

/-- The clause the earlier, stream-only formulation could not see: after any history within
the preconditions a *placeholder* object is listed among a unit's inlets exactly when that unit
is its sink, among its outlets exactly when it is its source, and never sits in two ports. -/
theorem C18_placeholders (ops : List Op) (h : (World.init.run ops).pre = true) (k : Which)
    (m : Nat) (_hm : (World.init.run ops).real m = false) (u : Nat) :
    (m ∈ ((World.init.run ops).side k).lst u ↔ ((World.init.run ops).side k).loc m = some u) ∧
      (((World.init.run ops).side k).lst u).count m ≤ 1 := by
  have hi := C18_docking_invariant ops h
  have hs : SideInv ((World.init.run ops).side k) := by cases k; exact hi.ins; exact hi.outs
  exact ⟨hs.listed_iff_docked u m, hs.no_two_ports u m⟩

/-- Objects that are not allocated (in particular the placeholders a later operation will
create) are not streams, are listed nowhere and docked nowhere. -/
theorem C18_scoped (ops : List Op) (h : (World.init.run ops).pre = true) :
    Scoped (World.init.run ops) :=
  (inv_history ops World.init good_init h).2

/-- An object never changes its kind: a placeholder stays a placeholder (it never starts to
report material), a stream stays a stream.  Holds for every operation, inside or outside the
preconditions. -/
theorem kind_stable (w w' : World) (op : Op) (h : w.step op = .ok w') (s : Nat) (hs : s < w.nS) :
    w'.real s = w.real s :=
  (exec_wstep h).ext.real_old s hs

theorem kind_stable_history (ops : List Op) (w : World) (s : Nat) (hs : s < w.nS) :
    (w.run ops).real s = w.real s := by
  induction ops generalizing w with
  | nil => rfl
  | cons op ops ih =>
    simp only [World.run]
    split
    · rename_i w' h
      have hn : w.nS ≤ w'.nS := (exec_wstep h).ext.nS
      rw [ih w' (Nat.lt_of_lt_of_le hs hn)]
      exact kind_stable w w' op h s hs
    · rfl

/-- "Vacated ports are filled by placeholders", for the operation every disconnection goes
through (`seq.remove(s)`; `disconnect_source/sink` and `_redock` call it): the port that `s`
occupied holds a brand-new object afterwards, that object is a placeholder (not a stream — and by
`kind_stable` it never becomes one), its pointer names the unit, `s` is undocked, and no other
port of the list changes. -/
theorem vacated_port_filled_by_placeholder (w w' : World) (k : Which) (u s : Nat)
    (hg : Good w) (hp : w.pre = true) (h : w.step (.remove k u s) = .ok w') :
    ∃ i, ((w.side k).lst u).idxOf? s = some i ∧
      (w'.side k).lst u = ((w.side k).lst u).set i w.nS ∧
      w'.real w.nS = false ∧ (w'.side k).loc w.nS = some u ∧ (w'.side k).loc s = none := by
  have hG := toGoodS (hg hp)
  simp only [World.step, World.exec, World.on] at h
  obtain ⟨r, hr, h⟩ := bind_ok.mp h
  cases h
  have hsc : Sc w.nU (({ w with pre := w.pre && (Op.remove k u s).ids.all (· < w.nS) &&
      (Op.remove k u s).units.all (· < w.nU) } : World).get k) := (hG.side k).sc.of_eq (by cases k <;> rfl)
      (by cases k <;> rfl)
  obtain ⟨i, h1, h2, _, h4, h5⟩ := remove_spec hsc hr
  have e1 : (({ w with pre := w.pre && (Op.remove k u s).ids.all (· < w.nS) &&
      (Op.remove k u s).units.all (· < w.nU) } : World).get k).sd = w.side k := by cases k <;> rfl
  have e2 : (({ w with pre := w.pre && (Op.remove k u s).ids.all (· < w.nS) &&
      (Op.remove k u s).units.all (· < w.nU) } : World).get k).next = w.nS := by cases k <;> rfl
  rw [e1] at h1 h2; rw [e2] at h2 h4
  refine ⟨i, h1, ?_, ?_, ?_, ?_⟩
  · rw [put_side_same]; exact h2
  · rw [put_real]; exact hG.nreal w.nS (Nat.le_refl _)
  · rw [put_side_same]; exact h4
  · rw [put_side_same]; exact h5

/-- No rewiring operation invents a stream: except for `AbstractStream()` and the unit
constructor (`op.creates`), every object an operation allocates is a placeholder.  Holds
inside and outside the preconditions. -/
theorem new_objects_are_placeholders (w w' : World) (op : Op) (hop : op.creates = false)
    (h : w.step op = .ok w') (hn : ∀ s, w.nS ≤ s → w.real s = false) (x : Nat) (hx : w.nS ≤ x) :
    w'.real x = false := by
  have := (exec_wstepR h hop).real
  rw [this]; exact hn x hx

/-- Whether a port list of an existing unit is of fixed size, and that size, never change — under
any operation, inside or outside the preconditions (only the constructor of a unit writes them, for
its own two lists).  This is what makes the clause `fixed_size` of the invariant mean "keeps its size". -/
theorem fixed_stable (w w' : World) (op : Op) (h : w.step op = .ok w') (k : Which) (u : Nat)
    (hu : u < w.nU) :
    (w'.side k).fixed u = (w.side k).fixed u ∧ (w'.side k).size u = (w.side k).size u :=
  (exec_wstep h).ext.fx_old k u hu

theorem fixed_stable_history (ops : List Op) (w : World) (k : Which) (u : Nat) (hu : u < w.nU) :
    ((w.run ops).side k).fixed u = (w.side k).fixed u ∧ ((w.run ops).side k).size u = (w.side k).size u := by
  induction ops generalizing w with
  | nil => exact ⟨rfl, rfl⟩
  | cons op ops ih =>
    simp only [World.run]
    split
    · rename_i w' h
      have hn : w.nU ≤ w'.nU := (exec_wstep h).ext.nU
      have h1 := ih w' (Nat.lt_of_lt_of_le hu hn)
      have h2 := fixed_stable w w' op h k u hu
      exact ⟨h1.1.trans h2.1, h1.2.trans h2.2⟩
    · exact ⟨rfl, rfl⟩

/-- What every operation other than the two that create streams guarantees about the port lists,
within the preconditions: (1) every fixed-size list has its declared size afterwards; (2) a fixed-size
list of an existing unit has exactly as many ports as before (its `fixed`/`size` cannot change:
`fixed_stable`); (3) every port of every list holds either an object that existed before the
operation (of unchanged kind) or a placeholder created by it — no operation invents a stream.
NOT claimed here: which old object may sit in which port; the exact occupant of a vacated port is
stated per operation for `remove` (the code path of `disconnect_*` and of a redock's donor port:
`vacated_port_filled_by_placeholder`), `seq[i] = None` (`set_none_fills_with_placeholder`) and
`empty` (`empty_fills_with_placeholders`); for `pop` on a fixed-size list, slice shrinking and
`unit.disconnect` there is no per-port theorem (they go through the same `replace`/`_set_streams`
code; decided by correspondence + oracle). -/
theorem vacated_ports_filled_by_placeholders (w w' : World) (op : Op) (hop : op.creates = false)
    (hg : Good w) (h : w.step op = .ok w') (hp : w'.pre = true) :
    (∀ k u, (w'.side k).fixed u = true → ((w'.side k).lst u).length = (w'.side k).size u) ∧
    (∀ k u, u < w.nU → (w.side k).fixed u = true →
      ((w'.side k).lst u).length = ((w.side k).lst u).length) ∧
    (∀ k u x, x ∈ (w'.side k).lst u →
      (x < w.nS ∧ w'.real x = w.real x) ∨ (w.nS ≤ x ∧ w'.real x = false)) := by
  have hI := (inv_step w w' op hg h hp).1
  have hI0 := (hg (pre_sticky w w' op h hp)).1
  have hS := (hg (pre_sticky w w' op h hp)).2
  have fs : ∀ (v : World), Inv v → ∀ k u, (v.side k).fixed u = true →
      ((v.side k).lst u).length = (v.side k).size u := by
    intro v hv k u hf
    cases k
    · exact hv.ins.fixed_size u hf
    · exact hv.outs.fixed_size u hf
  refine ⟨fs w' hI, fun k u hu hf => ?_, fun k u x _ => ?_⟩
  · have st := fixed_stable w w' op h k u hu
    rw [fs w' hI k u (by rw [st.1]; exact hf), st.2, fs w hI0 k u hf]
  · by_cases hx : x < w.nS
    · exact Or.inl ⟨hx, kind_stable w w' op h x hx⟩
    · exact Or.inr ⟨by omega, new_objects_are_placeholders w w' op hop h hS.not_real x (by omega)⟩

/-- `seq[i] = None` on an occupied port: afterwards port `i` holds a brand-new placeholder whose
pointer names the unit, the former occupant is undocked, no other port of the list changes. -/
theorem set_none_fills_with_placeholder (w w' : World) (k : Which) (u i : Nat)
    (hg : Good w) (hp : w.pre = true) (hi : i < ((w.side k).lst u).length)
    (h : w.step (.set k u i none) = .ok w') :
    (w'.side k).lst u = ((w.side k).lst u).set i w.nS ∧ w'.real w.nS = false ∧
      (w'.side k).loc w.nS = some u ∧ (w'.side k).loc (((w.side k).lst u)[i]) = none := by
  have hsc : Sc w.nU (({ w with pre := w.pre && (Op.set k u i none).ids.all (· < w.nS) &&
      (Op.set k u i none).units.all (· < w.nU) } : World).get k) :=
    ((toGoodS (hg hp)).side k).sc.of_eq (by cases k <;> rfl) (by cases k <;> rfl)
  simp only [World.step, World.exec, World.on] at h
  obtain ⟨r, hr, h⟩ := bind_ok.mp h
  cases h
  have e1 : (({ w with pre := w.pre && (Op.set k u i none).ids.all (· < w.nS) &&
      (Op.set k u i none).units.all (· < w.nU) } : World).get k).sd = w.side k := by cases k <;> rfl
  have e2 : (({ w with pre := w.pre && (Op.set k u i none).ids.all (· < w.nS) &&
      (Op.set k u i none).units.all (· < w.nU) } : World).get k).next = w.nS := by cases k <;> rfl
  obtain ⟨h1, _, h3, h4⟩ := setNone_spec hsc (by rw [e1]; exact hi) hr
  simp only [e1, e2] at h1 h3 h4
  refine ⟨by rw [put_side_same]; exact h1, ?_, by rw [put_side_same]; exact h3,
    by rw [put_side_same]; exact h4⟩
  rw [put_real]; exact (toGoodS (hg hp)).nreal w.nS (Nat.le_refl _)

/-- `seq.empty()` (and `seq.clear()` on a fixed-size list goes the same way): afterwards every port
of the list holds a brand-new placeholder. -/
theorem empty_fills_with_placeholders (w w' : World) (k : Which) (u : Nat)
    (hg : Good w) (hp : w.pre = true) (h : w.step (.empty k u) = .ok w') :
    ∀ x ∈ (w'.side k).lst u, w.nS ≤ x ∧ w'.real x = false := by
  simp only [World.step, World.exec, World.on] at h
  obtain ⟨r, hr, h⟩ := bind_ok.mp h
  cases hr; cases h
  intro x hx
  rw [put_side_same] at hx
  have e2 : (({ w with pre := w.pre && (Op.empty k u).ids.all (· < w.nS) &&
      (Op.empty k u).units.all (· < w.nU) } : World).get k).next = w.nS := by cases k <;> rfl
  have hge := refill_lst _ u _ x hx
  rw [e2] at hge
  exact ⟨hge, by rw [put_real]; exact (toGoodS (hg hp)).nreal x hge⟩

/-- Non-vacuity: a concrete history exercising redocking across units, pop, slice
assignment and piping stays within the preconditions (so the theorem above applies to it). -/
example :
    (World.init.run
      [ .newUnit 2 true .missing 1 true .missing
      , .newUnit 1 false .missing 2 true .fresh
      , .newStream
      , .set .i 0 0 (some 6)
      , .set .i 1 0 (some 6)
      , .pop .i 1 0
      , .pipeUU 1 0 ]).pre = true := by
  rfl

/-- The history of the seeded change C18-4, scenario 1: units `A`, `B`, `C` with two fixed inlets
and outlets; `A` has the vacant outlet port `A.outs[1]` (placeholder object `7`); `A - B` carries
that object into `B.ins[1]`, re-piping `A - C` moves it on to `C.ins[1]`. -/
def movesPlaceholder : List Op :=
  [ .newStream, .newStream, .newStream, .newStream
  , .newUnit 2 true (.given [.strm 0]) 2 true (.given [.strm 1])
  , .newUnit 2 true .missing 2 true (.given [.strm 2])
  , .newUnit 2 true .missing 2 true (.given [.strm 3])
  , .pipeUU 0 1
  , .pipeUU 0 2 ]

/-- Non-vacuity for placeholders: the history stays within the preconditions, … -/
example : (World.init.run movesPlaceholder).pre = true := by rfl

/-- … and it does move a placeholder object between units: object `7` is not a stream, it was in
`B.ins` after `A - B`, and after `A - C` it is the second inlet of `C`, its sink is `C`, its source
is still `A`, and `B`'s inlets were refilled with fresh placeholders (`16`, `17`). -/
example :
    (World.init.run movesPlaceholder).real 7 = false ∧
    (World.init.run (movesPlaceholder.take 8)).ins.lst 1 = [1, 7] ∧
    (World.init.run movesPlaceholder).ins.lst 2 = [1, 7] ∧
    (World.init.run movesPlaceholder).ins.loc 7 = some 2 ∧
    (World.init.run movesPlaceholder).outs.loc 7 = some 0 ∧
    (World.init.run movesPlaceholder).outs.lst 0 = [1, 7] ∧
    (World.init.run movesPlaceholder).ins.lst 1 = [16, 17] := by
  refine ⟨rfl, rfl, rfl, rfl, rfl, rfl, rfl⟩

/-- Non-vacuity for item assignment of a placeholder taken from another unit's list, popping it
and appending it elsewhere: all within the preconditions. -/
example :
    (World.init.run
      [ .newUnit 2 true .missing 1 true .missing      -- U0.i=[0,1] U0.o=[2]
      , .newUnit 1 false .missing 2 true .missing     -- U1.i=[3]   U1.o=[4,5]
      , .set .i 1 0 (some 0)                          -- `U1.ins[0] = U0.ins[0]`: object 0 moves
      , .pop .i 1 0                                   -- returns the placeholder, undocked
      , .append .i 1 0 ]).pre = true := by
  rfl

/-- The monitor does its job: assigning a placeholder to a second port of its own list
(`ins[0] = ins[1]`) is outside "a stream assigned to a port is not already in the same port list". -/
example :
    (World.init.run
      [ .newUnit 2 true .missing 1 true .missing
      , .set .i 0 0 (some 1) ]).pre = false := by
  rfl

end ThermoVerif.Props.C18
