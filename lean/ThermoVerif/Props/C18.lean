import ThermoVerif.Model.Network
/-
C18 — Flowsheet connections stay mutually consistent under every rewiring operation.

Statement (properties.jsonl): after any sequence of connection operations on
units and streams, used within their preconditions, a stream is listed among a
unit's inlets exactly when that unit is the stream's sink and among its outlets
exactly when it is the stream's source, no stream occupies two ports, and port
lists of fixed size keep their size with vacated ports filled by placeholders.

The model is `ThermoVerif.Network` (Model/Network.lean).  Preconditions are
monitored by the model itself (`World.pre`, sticky): a history counts only while
every primitive list operation was used as the property allows.
-/
namespace ThermoVerif.Props.C18
open ThermoVerif.Network

/-- The property on one side (inlets: `loc` = sink; outlets: `loc` = source).
Placeholders are the non-real ids; they carry no material by construction. -/
structure SideInv (real : Nat → Bool) (sd : Side) : Prop where
  /-- listed among the unit's ports exactly when docked at that unit -/
  listed_iff_docked : ∀ u s, real s = true → (s ∈ sd.lst u ↔ sd.loc s = some u)
  /-- no stream occupies two ports of a list -/
  no_two_ports : ∀ u s, real s = true → (sd.lst u).count s ≤ 1
  /-- fixed-size lists keep their size -/
  fixed_size : ∀ u, sd.fixed u = true → (sd.lst u).length = sd.size u

/-- The docking invariant of the whole flowsheet. -/
structure Inv (w : World) : Prop where
  ins : SideInv w.real w.ins
  outs : SideInv w.real w.outs

/-- Allocation discipline: ids at or above the counter are unused. -/
structure Scoped (w : World) : Prop where
  lst_lt : ∀ k u s, s ∈ (w.side k).lst u → s < w.nS
  loc_none : ∀ k s, w.nS ≤ s → (w.side k).loc s = none
  not_real : ∀ s, w.nS ≤ s → w.real s = false
  /-- units that do not exist yet have empty, variable-size port lists and nothing is docked at them -/
  lst_nil : ∀ k u, w.nU ≤ u → (w.side k).lst u = []
  fixed_false : ∀ k u, w.nU ≤ u → (w.side k).fixed u = false
  loc_lt : ∀ k s u, (w.side k).loc s = some u → u < w.nU

/-- What is maintained along a history: as long as every operation so far was
used within its preconditions, the invariant holds. -/
def Good (w : World) : Prop := w.pre = true → Inv w ∧ Scoped w

theorem good_init : Good World.init := by
  sorry

/-- The precondition monitor is sticky: it never turns back on. -/
theorem pre_sticky (w w' : World) (op : Op) (h : w.step op = .ok w') (hp : w'.pre = true) :
    w.pre = true := by
  sorry

/-- One operation preserves the invariant (all 22 operation kinds). -/
theorem inv_step (w w' : World) (op : Op) (hg : Good w) (h : w.step op = .ok w') : Good w' := by
  sorry

/-- Every history, of any length. -/
theorem inv_history (ops : List Op) (w : World) (hg : Good w) : Good (w.run ops) := by
  sorry

/-- The property as stated: after any sequence of operations from the empty
flowsheet, all used within their preconditions, the docking invariant holds. -/
theorem C18_docking_invariant (ops : List Op) (h : (World.init.run ops).pre = true) :
    Inv (World.init.run ops) := by
  sorry

/-- "No stream occupies two ports", across units: a consequence of `Inv`. -/
theorem one_unit_per_side (w : World) (hi : Inv w) (k : Which) (s u v : Nat)
    (hr : w.real s = true) (hu : s ∈ (w.side k).lst u) (hv : s ∈ (w.side k).lst v) : u = v := by
  sorry

/-- Non-vacuity: a concrete history exercising redocking across units, pop, slice
assignment and piping stays within the preconditions (so the theorem above applies to it). -/
example :
    (World.init.run
      [ .newUnit 2 true .missing 1 true .missing
      , .newUnit 1 false .missing 2 true .fresh
      , .newStream
      , .set .i 0 0 (some 6)
      , .set .i 1 0 (some 6)
      , .pop .i 1 0
      , .pipeUU 1 0 ]).pre = true := by
  sorry

end ThermoVerif.Props.C18
