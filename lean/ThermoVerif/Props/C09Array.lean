import ThermoVerif.Props.C09Store
/-
Property C09, 2-d clauses: the element-wise operators and the reductions of a SparseArray against
the 2-d NumPy reference `np2` / `npReduce` — the vector theorems lifted row by row, including the
broadcasting of a one-row side, of a 1-d operand and of a scalar.
-/
namespace ThermoVerif.Props.C09
open ThermoVerif.Sparse ThermoVerif.Dense

/-! ### one row against one operand row -/

/-- `+ − × ÷` and the six comparisons (everything a float array supports) -/
def ElemOp (op : BinOp) : Prop := (arithOf op).isSome ∨ (cmpOf op).isSome

theorem cmpOf_fn (op : BinOp) (c : Cmp) (h : cmpOf op = some c) : op.fn = c.toBin.fn := by
  cases op <;> simp [cmpOf] at h <;> subst h <;> rfl

theorem vec_toDense_copy (c : SV) : (VecObj.sv c.copy).toDense = c.toDense := rfl

/-- row kernel, sparse operand: NumPy's 1-d result on the dense images -/
theorem row_hom_sparse (op : BinOp) (a b : SV) (r : VecObj) (ha : a.WF) (hb : b.WF)
    (h : SV.opSparse op a b = .ok r) : VecWF r ∧ np1 op.fn a.toDense b.toDense = .ok r.toDense := by
  refine ⟨sv_opSparse_wf op a b r ha hb h, ?_⟩
  unfold SV.opSparse at h
  split at h
  · rename_i ar har
    obtain ⟨c, hc, e⟩ := except_map_ok h; subst e
    rw [arithOf_fn op ar har]
    exact (dense_hom_arith_sparse ar false a b c ha hb hc).2
  · rename_i _ _ c hcm _
    obtain ⟨v, hv, e⟩ := except_map_ok h; subst e
    rw [cmpOf_fn op c hcm]
    exact (cmpSparse_ok c a b v hv).2
  · cases h

theorem row_hom_array (op : BinOp) (a : SV) (l : Vec) (r : VecObj) (ha : a.WF)
    (h : SV.opArray op a l = .ok r) : VecWF r ∧ np1 op.fn a.toDense l = .ok r.toDense := by
  refine ⟨sv_opArray_wf op a l r ha h, ?_⟩
  unfold SV.opArray at h
  split at h
  · rename_i ar har
    obtain ⟨c, hc, e⟩ := except_map_ok h; subst e
    rw [arithOf_fn op ar har]
    exact (dense_hom_arith_array ar a c l ha hc).2
  · rename_i _ _ c hcm _
    obtain ⟨v, hv, e⟩ := except_map_ok h; subst e
    rw [cmpOf_fn op c hcm]
    exact (cmpArray_ok c a l v hv).2
  · cases h

/-- NumPy with a one-element operand is the scalar operation -/
theorem np1_singleton (f : Rat → Rat → Rat) (l : Vec) (x : Rat) : np1 f l [x] = .ok (np1s f l x) := by
  unfold np1 np1s
  by_cases h1 : l.length = 1
  · obtain ⟨y, rfl⟩ := List.length_eq_one_iff.mp h1
    simp
  · simp [h1]

theorem row_hom_scalar (op : BinOp) (a : SV) (x : Rat) (r : VecObj) (ha : a.WF)
    (h : SV.opScalar op a x = .ok r) : VecWF r ∧ np1 op.fn a.toDense [x] = .ok r.toDense := by
  refine ⟨sv_opScalar_wf op a x r ha h, ?_⟩
  rw [np1_singleton]
  unfold SV.opScalar at h
  split at h
  · rename_i ar har
    obtain ⟨c, hc, e⟩ := except_map_ok h; subst e
    rw [arithOf_fn op ar har, vec_toDense_copy, (dense_hom_arith_scalar ar a c x ha hc).2]
  · rename_i _ _ c hcm _
    simp only [Except.ok.injEq] at h; subst h
    rw [cmpOf_fn op c hcm]
    exact congrArg Except.ok (cmpScalar_ok c a x).2.symm
  · cases h

/-! ### lifting over the rows -/

/-- if every step of a `mapM` has a dense counterpart, the whole `mapM` has -/
theorem mapM_lift {α : Type} (K : α → Except Err VecObj) (D : α → Except NpErr Vec)
    (hKD : ∀ x r, K x = .ok r → D x = .ok r.toDense) :
    ∀ (l : List α) (cs : List VecObj), l.mapM K = .ok cs → l.mapM D = .ok (cs.map VecObj.toDense) := by
  intro l
  induction l with
  | nil => intro cs h; simp [List.mapM_nil, pure, Except.pure] at h; subst h; rfl
  | cons a l ih =>
    intro cs h
    rw [List.mapM_cons] at h ⊢
    cases hka : K a with
    | error e => rw [hka] at h; cases h
    | ok r =>
      rw [hka] at h
      cases hl : l.mapM K with
      | error e => rw [hl] at h; cases h
      | ok rs =>
        rw [hl] at h
        simp only [bind, Except.bind, pure, Except.pure, Except.ok.injEq] at h
        subst h
        rw [hKD a r hka, ih rs hl]
        rfl

theorem mapM_map {α β γ ε : Type} (g : α → β) (D : β → Except ε γ) (l : List α) :
    (l.map g).mapM D = l.mapM (fun x => D (g x)) := by
  induction l with
  | nil => rfl
  | cons a l ih => simp only [List.map_cons, List.mapM_cons, ih]

/-- the rows of a float array -/
def svRows (rows : List SV) : List VecObj := rows.map VecObj.sv
def denseRows (rows : List SV) : Mat := rows.map SV.toDense

theorem rowsBool_svRows (rows : List SV) : rowsBool (svRows rows) = false := by
  cases rows <;> rfl

theorem coerce_float (v : VecObj) (me : Bool) : coerce false false v me = v := by
  unfold coerce; cases me <;> simp

theorem map_coerce_float (l : List VecObj) (me : Bool) : l.map (fun r => coerce false false r me) = l := by
  induction l with
  | nil => rfl
  | cons a l ih => simp [coerce_float, ih]

/-- row-wise lifting: if the row kernel `K` agrees with the 1-d NumPy function `D` on every
well-formed row, the list of result rows agrees with `D` mapped over the dense rows -/
theorem sv_mapM_hom (K : SV → Except Err VecObj) (D : Vec → Except NpErr Vec)
    (hKD : ∀ a r, a.WF → K a = .ok r → VecWF r ∧ D a.toDense = .ok r.toDense) :
    ∀ (rs : List SV) (cs : List VecObj), (∀ r ∈ rs, r.WF) → rs.mapM K = .ok cs →
      (∀ c ∈ cs, VecWF c) ∧ (denseRows rs).mapM D = .ok (cs.map VecObj.toDense) := by
  intro rs
  induction rs with
  | nil => intro cs _ h; simp [List.mapM_nil, pure, Except.pure] at h; subst h; exact ⟨by simp, rfl⟩
  | cons a rs ih =>
    intro cs hwf h
    rw [List.mapM_cons] at h
    cases hka : K a with
    | error e => rw [hka] at h; cases h
    | ok r =>
      rw [hka] at h
      cases hl : rs.mapM K with
      | error e => rw [hl] at h; cases h
      | ok rs' =>
        rw [hl] at h
        simp only [bind, Except.bind, pure, Except.pure, Except.ok.injEq] at h
        subst h
        have h1 := hKD a r (hwf a List.mem_cons_self) hka
        have h2 := ih rs' (fun r hr => hwf r (List.mem_cons_of_mem _ hr)) hl
        refine ⟨?_, ?_⟩
        · intro c hc
          rcases List.mem_cons.mp hc with e | e
          · subst e; exact h1.1
          · exact h2.1 c e
        · unfold denseRows at h2 ⊢
          rw [List.map_cons, List.mapM_cons, h1.2, h2.2]
          rfl

/-- **dense_hom, array ∘ scalar** (`sa op x`): every row against the broadcast scalar, as `np2` does
for a (m, n) array and a 0-d operand -/
theorem dense_hom_sa_scalar (s : Store) (op : BinOp) (rows : List SV) (l : Lit) (x : Rat) (cs : List VecObj)
    (hw : ∀ r ∈ rows, r.WF) (hred : l.reduce = .scalar x)
    (h : binSA s op (svRows rows) (.lit l) = .ok (.rows cs)) :
    (∀ c ∈ cs, VecWF c) ∧ (denseRows rows).mapM (fun r => np1 op.fn r [x]) = .ok (cs.map VecObj.toDense) := by
  unfold binSA at h
  simp only [hred] at h
  obtain ⟨cs', hcs, e⟩ := except_map_ok h
  simp only [VRes.rows.injEq] at e; subst e
  unfold svRows at hcs
  rw [mapM_map] at hcs
  simp only [VecObj.opScalar] at hcs
  exact sv_mapM_hom _ _ (fun a r ha hk => row_hom_scalar op a x r ha hk) rows _ hw hcs

/-- **dense_hom, array ∘ 1-d operand** (`sa op [..]`, list or ndarray of the row length or of length 1) -/
theorem dense_hom_sa_vector (s : Store) (op : BinOp) (rows : List SV) (l : Lit) (v : Vec) (cs : List VecObj)
    (hw : ∀ r ∈ rows, r.WF) (hred : l.reduce = .vec v)
    (h : binSA s op (svRows rows) (.lit l) = .ok (.rows cs)) :
    (∀ c ∈ cs, VecWF c) ∧ (denseRows rows).mapM (fun r => np1 op.fn r v) = .ok (cs.map VecObj.toDense) := by
  unfold binSA at h
  simp only [hred] at h
  obtain ⟨cs', hcs, e⟩ := except_map_ok h
  simp only [VRes.rows.injEq] at e; subst e
  unfold svRows at hcs
  rw [mapM_map] at hcs
  simp only [VecObj.opArray] at hcs
  exact sv_mapM_hom _ _ (fun a r ha hk => row_hom_array op a v r ha hk) rows _ hw hcs

/-- **dense_hom, array ∘ SparseVector** (`sa op sv`) -/
theorem dense_hom_sa_sv (s : Store) (op : BinOp) (rows : List SV) (j : Nat) (b : SV) (cs : List VecObj)
    (hw : ∀ r ∈ rows, r.WF) (hb : b.WF) (hj : s[j]? = some (.sv b))
    (h : binSA s op (svRows rows) (.ref j) = .ok (.rows cs)) :
    (∀ c ∈ cs, VecWF c) ∧ (denseRows rows).mapM (fun r => np1 op.fn r b.toDense) = .ok (cs.map VecObj.toDense) := by
  unfold binSA at h
  have hgv : s.getVec j = some (.sv b) := by unfold Store.getVec; rw [hj]
  simp only [hj, hgv, rowsBool_svRows, VecObj.isBool, map_coerce_float, coerce_float] at h
  obtain ⟨cs', hcs, e⟩ := except_map_ok h
  simp only [VRes.rows.injEq] at e; subst e
  simp only [svRows, mapM_map, VecObj.opSparse, VecObj.toSV] at hcs
  exact sv_mapM_hom _ _ (fun a r ha hk => row_hom_sparse op a b r ha hb hk) rows _ hw hcs

/-- `np2` with a single operand row (a 1-d or 0-d operand, or a one-row array) is the row-wise map -/
theorem np2_single (f : Rat → Rat → Rat) (A : Mat) (b : Vec) :
    np2 f A [b] = A.mapM (fun r => np1 f r b) := by
  unfold np2
  by_cases h1 : A.length = 1
  · obtain ⟨a, rfl⟩ := List.length_eq_one_iff.mp h1
    simp
  · have h1' : ¬ A.length = [b].length := by simpa using h1
    rw [if_neg h1', if_neg h1]
    simp

/-- the same three theorems in terms of the 2-d reference `np2` -/
theorem dense_hom_sa_scalar_np2 (s : Store) (op : BinOp) (rows : List SV) (l : Lit) (x : Rat) (cs : List VecObj)
    (hw : ∀ r ∈ rows, r.WF) (hred : l.reduce = .scalar x)
    (h : binSA s op (svRows rows) (.lit l) = .ok (.rows cs)) :
    np2 op.fn (denseRows rows) [[x]] = .ok (cs.map VecObj.toDense) := by
  rw [np2_single]; exact (dense_hom_sa_scalar s op rows l x cs hw hred h).2

theorem dense_hom_sa_vector_np2 (s : Store) (op : BinOp) (rows : List SV) (l : Lit) (v : Vec) (cs : List VecObj)
    (hw : ∀ r ∈ rows, r.WF) (hred : l.reduce = .vec v)
    (h : binSA s op (svRows rows) (.lit l) = .ok (.rows cs)) :
    np2 op.fn (denseRows rows) [v] = .ok (cs.map VecObj.toDense) := by
  rw [np2_single]; exact (dense_hom_sa_vector s op rows l v cs hw hred h).2

theorem dense_hom_sa_sv_np2 (s : Store) (op : BinOp) (rows : List SV) (j : Nat) (b : SV) (cs : List VecObj)
    (hw : ∀ r ∈ rows, r.WF) (hb : b.WF) (hj : s[j]? = some (.sv b))
    (h : binSA s op (svRows rows) (.ref j) = .ok (.rows cs)) :
    np2 op.fn (denseRows rows) [b.toDense] = .ok (cs.map VecObj.toDense) := by
  rw [np2_single]; exact (dense_hom_sa_sv s op rows j b cs hw hb hj h).2

/-! ### array ∘ array, array ∘ 2-d literal -/

/-- which row meets which (on float rows): mirror of `pairRows` -/
def pairSV (rs os : List SV) : List (SV × SV) :=
  match rs, os with
  | [r], _ => os.map (fun o => (r, o))
  | _, [o] => rs.map (fun r => (r, o))
  | _, _ => rs.zip os

theorem pairRows_sv (rs os : List SV) :
    pairRows (svRows rs) (svRows os) = (pairSV rs os).map (fun p => (VecObj.sv p.1, VecObj.sv p.2)) := by
  rcases rs with _ | ⟨r, _ | ⟨r2, rt⟩⟩ <;> rcases os with _ | ⟨o, _ | ⟨o2, ot⟩⟩ <;>
    simp [pairRows, pairSV, svRows, zipTrunc, List.zip_map, List.map_map, Function.comp_def]

/-- for broadcastable row counts `np2` meets exactly the row pairs of `pairSV` -/
theorem np2_pairSV (f : Rat → Rat → Rat) (rs os : List SV)
    (hshape : rs.length = os.length ∨ rs.length = 1 ∨ os.length = 1) :
    np2 f (denseRows rs) (denseRows os) =
      ((pairSV rs os).map (fun p => (p.1.toDense, p.2.toDense))).mapM (fun p => np1 f p.1 p.2) := by
  rcases rs with _ | ⟨r, _ | ⟨r2, rt⟩⟩ <;> rcases os with _ | ⟨o, _ | ⟨o2, ot⟩⟩ <;>
    simp [np2, pairSV, denseRows, List.zip_map, mapM_map, List.map_map, Function.comp_def] at hshape ⊢
  intro hn; exact absurd hshape hn

theorem gen_mapM_hom {α : Type} (P : α → Prop) (K : α → Except Err VecObj) (D : α → Except NpErr Vec)
    (hKD : ∀ a r, P a → K a = .ok r → VecWF r ∧ D a = .ok r.toDense) :
    ∀ (l : List α) (cs : List VecObj), (∀ a ∈ l, P a) → l.mapM K = .ok cs →
      (∀ c ∈ cs, VecWF c) ∧ l.mapM D = .ok (cs.map VecObj.toDense) := by
  intro l
  induction l with
  | nil => intro cs _ h; simp [List.mapM_nil, pure, Except.pure] at h; subst h; exact ⟨by simp, rfl⟩
  | cons a l ih =>
    intro cs hp h
    rw [List.mapM_cons] at h
    cases hka : K a with
    | error e => rw [hka] at h; cases h
    | ok r =>
      rw [hka] at h
      cases hl : l.mapM K with
      | error e => rw [hl] at h; cases h
      | ok rs' =>
        rw [hl] at h
        simp only [bind, Except.bind, pure, Except.pure, Except.ok.injEq] at h
        subst h
        have h1 := hKD a r (hp a List.mem_cons_self) hka
        have h2 := ih rs' (fun x hx => hp x (List.mem_cons_of_mem _ hx)) hl
        refine ⟨?_, ?_⟩
        · intro c hc
          rcases List.mem_cons.mp hc with e | e
          · subst e; exact h1.1
          · exact h2.1 c e
        · rw [List.mapM_cons, h1.2, h2.2]; rfl

theorem pairSV_mem (rs os : List SV) (p : SV × SV) (h : p ∈ pairSV rs os) : p.1 ∈ rs ∧ p.2 ∈ os := by
  unfold pairSV at h
  split at h
  · obtain ⟨o, ho, e⟩ := List.mem_map.mp h; subst e; exact ⟨List.mem_singleton.mpr rfl, ho⟩
  · obtain ⟨r, hr, e⟩ := List.mem_map.mp h; subst e; exact ⟨hr, List.mem_singleton.mpr rfl⟩
  · exact ⟨(List.of_mem_zip h).1, (List.of_mem_zip h).2⟩

/-- **dense_hom, array ∘ array** (`sa op sb`, both float): NumPy's 2-d result, including the
broadcasting of a one-row side.  (Row counts that NumPy cannot broadcast are the known finding
`row-count-mismatch-truncated`: the code zips and truncates.) -/
theorem dense_hom_sa_sa (s : Store) (op : BinOp) (rows ors : List SV) (j : Nat) (orows : List Nat) (cs : List VecObj)
    (hw : ∀ r ∈ rows, r.WF) (hwo : ∀ r ∈ ors, r.WF)
    (hj : s[j]? = some (.sa orows)) (hors : s.rowsVec orows = some (svRows ors))
    (hshape : rows.length = ors.length ∨ rows.length = 1 ∨ ors.length = 1)
    (h : binSA s op (svRows rows) (.ref j) = .ok (.rows cs)) :
    (∀ c ∈ cs, VecWF c) ∧ np2 op.fn (denseRows rows) (denseRows ors) = .ok (cs.map VecObj.toDense) := by
  unfold binSA at h
  simp only [hj, hors, rowsBool_svRows, map_coerce_float, pairRows_sv, mapM_map, VecObj.opSparse, VecObj.toSV] at h
  obtain ⟨cs', hcs, e⟩ := except_map_ok h
  simp only [VRes.rows.injEq] at e; subst e
  have := gen_mapM_hom (fun p : SV × SV => p.1.WF ∧ p.2.WF) (fun p => SV.opSparse op p.1 p.2)
    (fun p => np1 op.fn p.1.toDense p.2.toDense)
    (fun p r hp hk => row_hom_sparse op p.1 p.2 r hp.1 hp.2 hk) (pairSV rows ors) _
    (fun p hp => ⟨hw _ (pairSV_mem rows ors p hp).1, hwo _ (pairSV_mem rows ors p hp).2⟩) hcs
  refine ⟨this.1, ?_⟩
  rw [np2_pairSV op.fn rows ors hshape, mapM_map]
  exact this.2

/-- **dense_hom, array ∘ 2-d literal** with the same number of rows (`sa op [[..],[..]]`) -/
theorem dense_hom_sa_matrix (s : Store) (op : BinOp) (rows : List SV) (l : Lit) (m : Mat) (cs : List VecObj)
    (hw : ∀ r ∈ rows, r.WF) (hred : l.reduce = .mat m) (hlen : rows.length = m.length)
    (h : binSA s op (svRows rows) (.lit l) = .ok (.rows cs)) :
    (∀ c ∈ cs, VecWF c) ∧ np2 op.fn (denseRows rows) m = .ok (cs.map VecObj.toDense) := by
  unfold binSA at h
  simp only [hred] at h
  obtain ⟨cs', hcs, e⟩ := except_map_ok h
  simp only [VRes.rows.injEq] at e; subst e
  have hz : zipTrunc (svRows rows) m = (rows.zip m).map (fun p => (VecObj.sv p.1, p.2)) := by
    unfold zipTrunc svRows
    rw [List.zip_map_left]
    apply List.map_congr_left
    intro p _; rfl
  rw [hz, mapM_map] at hcs
  simp only [VecObj.opArray] at hcs
  have := gen_mapM_hom (fun p : SV × Vec => p.1.WF) (fun p => SV.opArray op p.1 p.2)
    (fun p => np1 op.fn p.1.toDense p.2)
    (fun p r hp hk => row_hom_array op p.1 p.2 r hp hk) (rows.zip m) _
    (fun p hp => hw _ (List.of_mem_zip hp).1) hcs
  refine ⟨this.1, ?_⟩
  unfold np2 denseRows
  rw [if_pos (by simpa using hlen), List.zip_map_left, mapM_map]
  exact this.2

/-! ### reductions along the rows (`axis=1`) and over the whole array (`axis=None`) -/

theorem tab_toDense (n : Nat) (f : Nat → Rat) : VecObj.toDense (.sv ⟨n, Dct.tabulate n f, false⟩) = vecOf n f := by
  show SV.toDense _ = _
  apply SV.toDense_of_get _ _ _ rfl
  intro i hi
  rw [SV.get_def]; dsimp only
  rw [Dct.get_tabulate]; simp [hi]

theorem vecOf_getElem? {α : Type} (l : List α) (g : α → Rat) (d : Rat) :
    vecOf l.length (fun i => match l[i]? with | some r => g r | none => d) = l.map g := by
  apply List.ext_getElem
  · simp [vecOf_length]
  · intro i h1 h2
    simp only [vecOf_length] at h1
    simp [vecOf, List.getElem?_eq_getElem h1]

theorem keepN_toDense (x : Rat) : (keepN x).toDense = [x] := by
  show SV.toDense (SV.keep x) = _
  unfold SV.keep SV.toDense
  by_cases h : x = 0
  · subst h; simp [SV.get, Dct.get]
  · simp [h, SV.get, Dct.get]

theorem keepB_toDense (b : Bool) : (keepB b).toDense = [b2r b] := by
  show SLV.toDense (SLV.keep b) = _
  unfold SLV.keep SLV.toDense
  cases b <;> simp [SLV.mem, b2r]

theorem ofList_toDense (l : Vec) : VecObj.toDense (.sv ⟨l.length, Dct.ofList l, false⟩) = l := by
  show SV.toDense _ = _
  rw [vec_eq_vecOf l]
  simp only [vecOf_length]
  apply SV.toDense_of_get _ _ _ rfl
  intro i _
  rw [SV.get_def]; dsimp only
  rw [Dct.get_ofList, ← vec_eq_vecOf l]

/-- `vecOf n (fun i => match rows[i]? …) = rows.map …` by extensionality -/
macro "rows_ext" : tactic =>
  `(tactic| (apply List.ext_getElem
             · simp [vecOf_length, svRows]
             · intro i h1 h2
               simp only [vecOf_length, svRows, List.length_map] at h1
               simp [vecOf, svRows, List.getElem?_eq_getElem h1, VecObj.sum, VecObj.anyB, VecObj.allB]))

/-- reducing the rows one by one, on the dense side -/
theorem rows_redVec (r : Red) (g : SV → Rat) (rows : List SV)
    (hg : ∀ a ∈ rows, redVec r a.toDense = .ok (g a)) :
    (denseRows rows).mapM (redVec r) = .ok (rows.map g) := by
  unfold denseRows
  induction rows with
  | nil => rfl
  | cons a rows ih =>
    rw [List.map_cons, List.mapM_cons, hg a List.mem_cons_self, ih (fun x hx => hg x (List.mem_cons_of_mem _ hx))]
    rfl

/-- **`sa.sum(axis=1)`**, with and without `keepdims` -/
theorem dense_hom_sa_sum_axis1 (rows : List SV) (hw : ∀ r ∈ rows, r.WF) :
    (denseRows rows).mapM (redVec .sum) = .ok (rows.map SV.sum) ∧
    (∀ v, reduceSA .sum (svRows rows) (some 1) false = .ok (.vec v) → v.toDense = rows.map SV.sum) ∧
    (∀ l, reduceSA .sum (svRows rows) (some 1) true = .ok (.rows l) → l.map VecObj.toDense = (rows.map SV.sum).map ([·])) := by
  refine ⟨rows_redVec .sum SV.sum rows (fun a ha => dense_hom_sum a (hw a ha)), ?_, ?_⟩
  · intro v h
    simp only [reduceSA, Bool.false_eq_true, ↓reduceIte, Except.ok.injEq, RRes.vec.injEq] at h
    subst h
    rw [tab_toDense]
    rows_ext
  · intro l h
    simp only [reduceSA, ↓reduceIte, Except.ok.injEq, RRes.rows.injEq] at h
    subst h
    simp only [svRows, List.map_map, Function.comp_def, keepN_toDense]
    rfl

/-- **`sa.any(axis=1)` / `sa.all(axis=1)`** -/
theorem dense_hom_sa_any_axis1 (rows : List SV) (hw : ∀ r ∈ rows, r.WF) :
    (denseRows rows).mapM (redVec .any) = .ok (rows.map (fun a => b2r a.any)) ∧
    (∀ v, reduceSA .any (svRows rows) (some 1) false = .ok (.vec v) → v.toDense = rows.map (fun a => b2r a.any)) ∧
    (∀ l, reduceSA .any (svRows rows) (some 1) true = .ok (.rows l) →
      l.map VecObj.toDense = (rows.map (fun a => b2r a.any)).map ([·])) := by
  refine ⟨rows_redVec .any _ rows (fun a ha => dense_hom_any a (hw a ha)), ?_, ?_⟩
  · intro v h
    simp only [reduceSA, Bool.false_eq_true, ↓reduceIte, Except.ok.injEq, RRes.vec.injEq] at h
    subst h
    show SLV.toDense _ = _
    rw [ofPred_toDense]
    rows_ext
  · intro l h
    simp only [reduceSA, ↓reduceIte, Except.ok.injEq, RRes.rows.injEq] at h
    subst h
    simp only [svRows, List.map_map, Function.comp_def, keepB_toDense]
    rfl

theorem dense_hom_sa_all_axis1 (rows : List SV) (hw : ∀ r ∈ rows, r.WF) :
    (denseRows rows).mapM (redVec .all) = .ok (rows.map (fun a => b2r a.all)) ∧
    (∀ v, reduceSA .all (svRows rows) (some 1) false = .ok (.vec v) → v.toDense = rows.map (fun a => b2r a.all)) ∧
    (∀ l, reduceSA .all (svRows rows) (some 1) true = .ok (.rows l) →
      l.map VecObj.toDense = (rows.map (fun a => b2r a.all)).map ([·])) := by
  refine ⟨rows_redVec .all _ rows (fun a ha => dense_hom_all a (hw a ha)), ?_, ?_⟩
  · intro v h
    simp only [reduceSA, Bool.false_eq_true, ↓reduceIte, Except.ok.injEq, RRes.vec.injEq] at h
    subst h
    show SLV.toDense _ = _
    rw [ofPred_toDense]
    rows_ext
  · intro l h
    simp only [reduceSA, ↓reduceIte, Except.ok.injEq, RRes.rows.injEq] at h
    subst h
    simp only [svRows, List.map_map, Function.comp_def, keepB_toDense]
    rfl

theorem rows_max (rows : List SV) (hw : ∀ a ∈ rows, a.WF ∧ a.size ≠ 0) :
    ∃ l, (svRows rows).mapM VecObj.max = .ok l ∧ (denseRows rows).mapM (redVec .max) = .ok l := by
  induction rows with
  | nil => exact ⟨[], rfl, rfl⟩
  | cons a rows ih =>
    obtain ⟨l, h1, h2⟩ := ih (fun x hx => hw x (List.mem_cons_of_mem _ hx))
    obtain ⟨m, hm1, hm2⟩ := dense_hom_max a (hw a List.mem_cons_self).1 (hw a List.mem_cons_self).2
    refine ⟨m :: l, ?_, ?_⟩
    · simp only [svRows, List.map_cons, List.mapM_cons] at h1 ⊢
      rw [show VecObj.max (.sv a) = a.max from rfl, hm1, h1]; rfl
    · simp only [denseRows, List.map_cons, List.mapM_cons] at h2 ⊢
      rw [hm2, h2]; rfl

theorem rows_min (rows : List SV) (hw : ∀ a ∈ rows, a.WF ∧ a.size ≠ 0) :
    ∃ l, (svRows rows).mapM VecObj.min = .ok l ∧ (denseRows rows).mapM (redVec .min) = .ok l := by
  induction rows with
  | nil => exact ⟨[], rfl, rfl⟩
  | cons a rows ih =>
    obtain ⟨l, h1, h2⟩ := ih (fun x hx => hw x (List.mem_cons_of_mem _ hx))
    obtain ⟨m, hm1, hm2⟩ := dense_hom_min a (hw a List.mem_cons_self).1 (hw a List.mem_cons_self).2
    refine ⟨m :: l, ?_, ?_⟩
    · simp only [svRows, List.map_cons, List.mapM_cons] at h1 ⊢
      rw [show VecObj.min (.sv a) = a.min from rfl, hm1, h1]; rfl
    · simp only [denseRows, List.map_cons, List.mapM_cons] at h2 ⊢
      rw [hm2, h2]; rfl

/-- **`sa.max(axis=1)` / `sa.min(axis=1)`** (rows not empty), with and without `keepdims` -/
theorem dense_hom_sa_max_axis1 (rows : List SV) (hw : ∀ a ∈ rows, a.WF ∧ a.size ≠ 0) :
    ∃ l, (denseRows rows).mapM (redVec .max) = .ok l ∧
      (∀ v, reduceSA .max (svRows rows) (some 1) false = .ok (.vec v) → v.toDense = l) ∧
      (∀ c, reduceSA .max (svRows rows) (some 1) true = .ok (.rows c) → c.map VecObj.toDense = l.map ([·])) := by
  obtain ⟨l, h1, h2⟩ := rows_max rows hw
  have hlen : l.length = rows.length := by
    have := except_mapM_length _ _ _ h1; simpa [svRows] using this
  refine ⟨l, h2, ?_, ?_⟩
  · intro v h
    simp only [reduceSA, h1, Bool.false_eq_true, ↓reduceIte, Except.ok.injEq, RRes.vec.injEq] at h
    subst h
    have := ofList_toDense l
    rw [hlen] at this
    simpa [svRows] using this
  · intro c h
    simp only [reduceSA, h1, ↓reduceIte, Except.ok.injEq, RRes.rows.injEq] at h
    subst h
    simp [List.map_map, Function.comp_def, keepN_toDense]

theorem dense_hom_sa_min_axis1 (rows : List SV) (hw : ∀ a ∈ rows, a.WF ∧ a.size ≠ 0) :
    ∃ l, (denseRows rows).mapM (redVec .min) = .ok l ∧
      (∀ v, reduceSA .min (svRows rows) (some 1) false = .ok (.vec v) → v.toDense = l) ∧
      (∀ c, reduceSA .min (svRows rows) (some 1) true = .ok (.rows c) → c.map VecObj.toDense = l.map ([·])) := by
  obtain ⟨l, h1, h2⟩ := rows_min rows hw
  have hlen : l.length = rows.length := by
    have := except_mapM_length _ _ _ h1; simpa [svRows] using this
  refine ⟨l, h2, ?_, ?_⟩
  · intro v h
    simp only [reduceSA, h1, Bool.false_eq_true, ↓reduceIte, Except.ok.injEq, RRes.vec.injEq] at h
    subst h
    have := ofList_toDense l
    rw [hlen] at this
    simpa [svRows] using this
  · intro c h
    simp only [reduceSA, h1, ↓reduceIte, Except.ok.injEq, RRes.rows.injEq] at h
    subst h
    simp [List.map_map, Function.comp_def, keepN_toDense]

/-- the row mean of the array code (`x / size if x else 0`) is the vector's `mean` -/
theorem row_mean_eq (a : SV) : (if a.sum = 0 then 0 else a.sum / (a.size : Rat)) = a.mean := by
  unfold SV.mean
  by_cases he : a.dct.isEmpty = true
  · have : a.sum = 0 := by
      unfold SV.sum
      have : a.dct = [] := by simpa using he
      rw [this]; rfl
    simp [he, this]
  · by_cases hs : a.sum = 0
    · simp [he, hs]
    · simp [he, hs]

/-- **`sa.mean(axis=1)`** (rows not empty) -/
theorem dense_hom_sa_mean_axis1 (rows : List SV) (hw : ∀ a ∈ rows, a.WF ∧ a.size ≠ 0) :
    (denseRows rows).mapM (redVec .mean) = .ok (rows.map SV.mean) ∧
    (∀ v, reduceSA .mean (svRows rows) (some 1) false = .ok (.vec v) → v.toDense = rows.map SV.mean) ∧
    (∀ l, reduceSA .mean (svRows rows) (some 1) true = .ok (.rows l) → l.map VecObj.toDense = (rows.map SV.mean).map ([·])) := by
  refine ⟨rows_redVec .mean SV.mean rows (fun a ha => dense_hom_mean a (hw a ha).1 (hw a ha).2), ?_, ?_⟩
  · intro v h
    simp only [reduceSA, Bool.false_eq_true, ↓reduceIte, Except.ok.injEq, RRes.vec.injEq] at h
    subst h
    rw [tab_toDense]
    apply List.ext_getElem
    · simp [vecOf_length, svRows]
    · intro i h1 h2
      simp only [vecOf_length, svRows, List.length_map] at h1
      simp only [vecOf, svRows, List.getElem_map, List.getElem_range, List.getElem?_map,
        List.getElem?_eq_getElem h1, Option.map_some, VecObj.sum, VecObj.size]
      exact row_mean_eq _
  · intro l h
    simp only [reduceSA, ↓reduceIte, Except.ok.injEq, RRes.rows.injEq] at h
    subst h
    simp only [svRows, List.map_map, Function.comp_def, keepN_toDense, VecObj.sum, VecObj.size]
    apply List.map_congr_left
    intro a _
    exact congrArg (fun x => [x]) (row_mean_eq a)

/-! ### `axis=None` -/

def flat (A : Mat) : Vec := A.foldr (· ++ ·) []

theorem sum_flat (A : Mat) : (flat A).sum = (A.map List.sum).sum := by
  unfold flat
  induction A with
  | nil => rfl
  | cons r A ih => simp only [List.foldr_cons, List.sum_append, List.map_cons, List.sum_cons, ih]

theorem any_flat (A : Mat) (p : Rat → Bool) : (flat A).any p = A.any (fun r => r.any p) := by
  unfold flat
  induction A with
  | nil => rfl
  | cons r A ih => simp only [List.foldr_cons, List.any_append, List.any_cons, ih]

theorem all_flat (A : Mat) (p : Rat → Bool) : (flat A).all p = A.all (fun r => r.all p) := by
  unfold flat
  induction A with
  | nil => rfl
  | cons r A ih => simp only [List.foldr_cons, List.all_append, List.all_cons, ih]

/-- **`sa.sum()`**: the sum of the row sums is the sum over all elements of the dense image -/
theorem dense_hom_sa_sum_all (rows : List SV) (hw : ∀ a ∈ rows, a.WF) :
    reduceSA .sum (svRows rows) none false = .ok (.num ((rows.map SV.sum).sum)) ∧
    redVec .sum (flat (denseRows rows)) = .ok ((rows.map SV.sum).sum) := by
  constructor
  · simp only [reduceSA, Bool.false_eq_true, ↓reduceIte, svRows, List.map_map, Function.comp_def, VecObj.sum]
    rw [foldl_add_eq, zero_add]
  · simp only [redVec]
    rw [vsum_eq_sum, sum_flat]
    congr 2
    unfold denseRows
    rw [List.map_map]
    apply List.map_congr_left
    intro a ha
    have := dense_hom_sum a (hw a ha)
    simp only [redVec, Except.ok.injEq] at this
    simp only [Function.comp]
    rw [← vsum_eq_sum, this]

theorem any_congr_mem {α : Type} (l : List α) (p q : α → Bool) (h : ∀ a ∈ l, p a = q a) : l.any p = l.any q := by
  induction l with
  | nil => rfl
  | cons a l ih =>
    simp only [List.any_cons, h a List.mem_cons_self, ih (fun x hx => h x (List.mem_cons_of_mem _ hx))]

theorem all_congr_mem {α : Type} (l : List α) (p q : α → Bool) (h : ∀ a ∈ l, p a = q a) : l.all p = l.all q := by
  induction l with
  | nil => rfl
  | cons a l ih =>
    simp only [List.all_cons, h a List.mem_cons_self, ih (fun x hx => h x (List.mem_cons_of_mem _ hx))]

/-- **`sa.any()` / `sa.all()`** -/
theorem dense_hom_sa_any_all (rows : List SV) (hw : ∀ a ∈ rows, a.WF) :
    reduceSA .any (svRows rows) none false = .ok (.num (b2r (rows.any SV.any))) ∧
    redVec .any (flat (denseRows rows)) = .ok (b2r (rows.any SV.any)) ∧
    reduceSA .all (svRows rows) none false = .ok (.num (b2r (rows.all SV.all))) ∧
    redVec .all (flat (denseRows rows)) = .ok (b2r (rows.all SV.all)) := by
  have hany : ∀ a ∈ rows, a.toDense.any (· != 0) = a.any := by
    intro a ha
    have := dense_hom_any a (hw a ha)
    simp only [redVec, Except.ok.injEq] at this
    cases h1 : a.toDense.any (· != 0) <;> cases h2 : a.any <;> simp [h1, h2, b2r] at this ⊢
  have hall : ∀ a ∈ rows, a.toDense.all (· != 0) = a.all := by
    intro a ha
    have := dense_hom_all a (hw a ha)
    simp only [redVec, Except.ok.injEq] at this
    cases h1 : a.toDense.all (· != 0) <;> cases h2 : a.all <;> simp [h1, h2, b2r] at this ⊢
  refine ⟨?_, ?_, ?_, ?_⟩
  · simp [reduceSA, svRows, List.any_map, Function.comp_def, VecObj.anyB]
  · simp only [redVec, any_flat, denseRows, List.any_map, Function.comp_def]
    congr 2
    exact any_congr_mem rows _ _ hany
  · simp [reduceSA, svRows, List.all_map, Function.comp_def, VecObj.allB]
  · simp only [redVec, all_flat, denseRows, List.all_map, Function.comp_def]
    congr 2
    exact all_congr_mem rows _ _ hall

/-! ### `axis=0`: column-wise, through the transpose of the dense image -/

theorem mapM_ok {α β : Type} (f : α → β) (l : List α) :
    l.mapM (fun x => (Except.ok (f x) : Except NpErr β)) = .ok (l.map f) := by
  induction l with
  | nil => rfl
  | cons a l ih => rw [List.mapM_cons, ih]; rfl

/-- the columns of the dense image of a rectangular array -/
theorem transpose_dense (rows : List SV) (hrect : ∀ a ∈ rows, a.size = vectorSize (svRows rows)) :
    transpose (denseRows rows) =
      (List.range (vectorSize (svRows rows))).map (fun j => rows.map (fun a => a.get j)) := by
  unfold transpose
  have hlen : ((denseRows rows).getD 0 []).length = vectorSize (svRows rows) := by
    cases rows with
    | nil => rfl
    | cons a rows => simp [denseRows, vectorSize, svRows, SV.toDense_length, VecObj.size]
  rw [hlen]
  apply List.map_congr_left
  intro j hj
  have hj' := List.mem_range.mp hj
  unfold denseRows
  rw [List.map_map]
  apply List.map_congr_left
  intro a ha
  simp only [Function.comp]
  exact toDense_getD a j (by rw [hrect a ha]; exact hj')

/-- **`sa.sum(axis=0)`** of a rectangular float array -/
theorem dense_hom_sa_sum_axis0 (rows : List SV) (hrect : ∀ a ∈ rows, a.size = vectorSize (svRows rows)) :
    ∃ v, reduceSA .sum (svRows rows) (some 0) false = .ok (.vec v) ∧ VecWF v ∧
      (transpose (denseRows rows)).mapM (redVec .sum) = .ok v.toDense := by
  refine ⟨.sv ⟨vectorSize (svRows rows), Dct.tabulate (vectorSize (svRows rows))
      (fun i => ((svRows rows).map (·.get i)).foldl (· + ·) 0), false⟩, ?_, sv_tab_wf _ _, ?_⟩
  · simp only [reduceSA, Bool.false_eq_true, ↓reduceIte]
  rw [transpose_dense rows hrect, mapM_map, tab_toDense]
  simp only [redVec]
  rw [mapM_ok]
  congr 1
  unfold vecOf
  apply List.map_congr_left
  intro j _
  simp [vsum, svRows, List.map_map, Function.comp_def, VecObj.get]

/-- **`sa.max(axis=0)` / `sa.min(axis=0)`** of a rectangular, non-empty float array: the extremum of
every column *including the implicit zeros* (the model, like the repaired code, takes it over all rows) -/
theorem dense_hom_sa_max_axis0 (rows : List SV) (hne : rows ≠ []) (hrect : ∀ a ∈ rows, a.size = vectorSize (svRows rows)) :
    ∃ v, reduceSA .max (svRows rows) (some 0) false = .ok (.vec v) ∧ VecWF v ∧
      (transpose (denseRows rows)).mapM (redVec .max) = .ok v.toDense := by
  refine ⟨.sv ⟨vectorSize (svRows rows), Dct.tabulate (vectorSize (svRows rows))
      (fun i => (vmax ((svRows rows).map (·.get i))).getD 0), false⟩, ?_, sv_tab_wf _ _, ?_⟩
  · simp only [reduceSA, Bool.false_eq_true, ↓reduceIte]
  rw [transpose_dense rows hrect, mapM_map, tab_toDense]
  have hcol : ∀ j, redVec .max (rows.map (fun a => a.get j)) = .ok ((vmax (rows.map (fun a => a.get j))).getD 0) := by
    intro j
    simp only [redVec]
    cases h : vmax (rows.map (fun a => a.get j)) with
    | none =>
      have := (vmax_none_iff _).mp h
      simp at this; exact absurd this hne
    | some m => rfl
  simp only [hcol]
  rw [mapM_ok]
  congr 1
  unfold vecOf
  apply List.map_congr_left
  intro j _
  simp [svRows, List.map_map, Function.comp_def, VecObj.get]

theorem dense_hom_sa_min_axis0 (rows : List SV) (hne : rows ≠ []) (hrect : ∀ a ∈ rows, a.size = vectorSize (svRows rows)) :
    ∃ v, reduceSA .min (svRows rows) (some 0) false = .ok (.vec v) ∧ VecWF v ∧
      (transpose (denseRows rows)).mapM (redVec .min) = .ok v.toDense := by
  refine ⟨.sv ⟨vectorSize (svRows rows), Dct.tabulate (vectorSize (svRows rows))
      (fun i => (vmin ((svRows rows).map (·.get i))).getD 0), false⟩, ?_, sv_tab_wf _ _, ?_⟩
  · simp only [reduceSA, Bool.false_eq_true, ↓reduceIte]
  rw [transpose_dense rows hrect, mapM_map, tab_toDense]
  have hcol : ∀ j, redVec .min (rows.map (fun a => a.get j)) = .ok ((vmin (rows.map (fun a => a.get j))).getD 0) := by
    intro j
    simp only [redVec]
    cases h : vmin (rows.map (fun a => a.get j)) with
    | none =>
      have := (vmin_none_iff _).mp h
      simp at this; exact absurd this hne
    | some m => rfl
  simp only [hcol]
  rw [mapM_ok]
  congr 1
  unfold vecOf
  apply List.map_congr_left
  intro j _
  simp [svRows, List.map_map, Function.comp_def, VecObj.get]

/-! ### non-vacuity -/

/-- a 2×2 float array plus a one-row array (stored as objects 0 and 1–2): the hypotheses of
`dense_hom_sa_sa` hold and the operation returns two rows -/
example :
    let s : Store := [Obj.sv ⟨2, [(0, 5)], false⟩, Obj.sa [0]]
    let rows : List SV := [⟨2, [(0, 1)], false⟩, ⟨2, [(1, -2)], false⟩]
    s.rowsVec [0] = some (svRows [⟨2, [(0, 5)], false⟩]) ∧
    binSA s .add (svRows rows) (.ref 1) =
      .ok (.rows [.sv ⟨2, [(0, 6)], false⟩, .sv ⟨2, [(0, 5), (1, -2)], false⟩]) ∧
    np2 (BinOp.fn .add) (denseRows rows) (denseRows [⟨2, [(0, 5)], false⟩]) = .ok [[6, 0], [5, -2]] := by
  refine ⟨by decide +kernel, by decide +kernel, by decide +kernel⟩

end ThermoVerif.Props.C09
