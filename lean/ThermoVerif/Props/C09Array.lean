import ThermoVerif.Lemmas.C09ArrayAux
-- Only statements of the property live in this file.  Helper lemmas and the auxiliary vocabulary they need are in
-- Lemmas/C09ArrayAux.lean (same namespace); clauses without a theorem are listed at the end of Props/C09.lean.
/-
Property C09, 2-d clauses: the element-wise operators and the reductions of a SparseArray against
the 2-d NumPy reference `np2` / `npReduce` — the vector theorems lifted row by row, including the
broadcasting of a one-row side, of a 1-d operand and of a scalar.
-/
namespace ThermoVerif.Props.C09
open ThermoVerif.Sparse ThermoVerif.Dense

/-! ### one row against one operand row -/

/-- `+ − × ÷` and the six comparisons (everything a float array supports) -/
def ElemOp (op : BinOp) : Prop := (arithOf op).isSome ∨ (cmpOf op).isSome

/-! ### lifting over the rows -/

/-- **dense_hom, array ∘ scalar** (`sa op x`): every row against the broadcast scalar, as `np2` does
for a (m, n) array and a 0-d operand -/
theorem dense_hom_sa_scalar (s : Store) (op : BinOp) (rows : List SV) (l : Lit) (x : Rat) (cs : List VecObj)
    (hw : ∀ r ∈ rows, r.WF) (hred : l.reduce = .scalar x)
    (h : binSA s op (svRows rows) (.lit l) = .ok (.rows cs)) :
    (∀ c ∈ cs, VecWF c) ∧ (denseRows rows).mapM (fun r => np1 op.fn r [x]) = .ok (cs.map VecObj.toDense) := by
  unfold binSA at h
  simp only [hred] at h
  obtain ⟨cs', hcs, e⟩ := except_map_ok h
  simp only [VRes.rows.injEq] at e; subst e
  unfold svRows at hcs
  rw [mapM_map] at hcs
  simp only [VecObj.opScalar] at hcs
  exact sv_mapM_hom _ _ (fun a r ha hk => row_hom_scalar op a x r ha hk) rows _ hw hcs

/-- **dense_hom, array ∘ 1-d operand** (`sa op [..]`, list or ndarray of the row length or of length 1) -/
theorem dense_hom_sa_vector (s : Store) (op : BinOp) (rows : List SV) (l : Lit) (v : Vec) (cs : List VecObj)
    (hw : ∀ r ∈ rows, r.WF) (hred : l.reduce = .vec v)
    (h : binSA s op (svRows rows) (.lit l) = .ok (.rows cs)) :
    (∀ c ∈ cs, VecWF c) ∧ (denseRows rows).mapM (fun r => np1 op.fn r v) = .ok (cs.map VecObj.toDense) := by
  unfold binSA at h
  simp only [hred] at h
  obtain ⟨cs', hcs, e⟩ := except_map_ok h
  simp only [VRes.rows.injEq] at e; subst e
  unfold svRows at hcs
  rw [mapM_map] at hcs
  simp only [VecObj.opArray] at hcs
  exact sv_mapM_hom _ _ (fun a r ha hk => row_hom_array op a v r ha hk) rows _ hw hcs

/-- **dense_hom, array ∘ SparseVector** (`sa op sv`) -/
theorem dense_hom_sa_sv (s : Store) (op : BinOp) (rows : List SV) (j : Nat) (b : SV) (cs : List VecObj)
    (hw : ∀ r ∈ rows, r.WF) (hb : b.WF) (hj : s[j]? = some (.sv b))
    (h : binSA s op (svRows rows) (.ref j) = .ok (.rows cs)) :
    (∀ c ∈ cs, VecWF c) ∧ (denseRows rows).mapM (fun r => np1 op.fn r b.toDense) = .ok (cs.map VecObj.toDense) := by
  unfold binSA at h
  have hgv : s.getVec j = some (.sv b) := by unfold Store.getVec; rw [hj]
  simp only [hj, hgv, rowsBool_svRows, VecObj.isBool, map_coerce_float, coerce_float] at h
  obtain ⟨cs', hcs, e⟩ := except_map_ok h
  simp only [VRes.rows.injEq] at e; subst e
  simp only [svRows, mapM_map, VecObj.opSparse, VecObj.toSV] at hcs
  exact sv_mapM_hom _ _ (fun a r ha hk => row_hom_sparse op a b r ha hb hk) rows _ hw hcs

/-- the same three theorems in terms of the 2-d reference `np2` -/
theorem dense_hom_sa_scalar_np2 (s : Store) (op : BinOp) (rows : List SV) (l : Lit) (x : Rat) (cs : List VecObj)
    (hw : ∀ r ∈ rows, r.WF) (hred : l.reduce = .scalar x)
    (h : binSA s op (svRows rows) (.lit l) = .ok (.rows cs)) :
    np2 op.fn (denseRows rows) [[x]] = .ok (cs.map VecObj.toDense) := by
  rw [np2_single]; exact (dense_hom_sa_scalar s op rows l x cs hw hred h).2

theorem dense_hom_sa_vector_np2 (s : Store) (op : BinOp) (rows : List SV) (l : Lit) (v : Vec) (cs : List VecObj)
    (hw : ∀ r ∈ rows, r.WF) (hred : l.reduce = .vec v)
    (h : binSA s op (svRows rows) (.lit l) = .ok (.rows cs)) :
    np2 op.fn (denseRows rows) [v] = .ok (cs.map VecObj.toDense) := by
  rw [np2_single]; exact (dense_hom_sa_vector s op rows l v cs hw hred h).2

theorem dense_hom_sa_sv_np2 (s : Store) (op : BinOp) (rows : List SV) (j : Nat) (b : SV) (cs : List VecObj)
    (hw : ∀ r ∈ rows, r.WF) (hb : b.WF) (hj : s[j]? = some (.sv b))
    (h : binSA s op (svRows rows) (.ref j) = .ok (.rows cs)) :
    np2 op.fn (denseRows rows) [b.toDense] = .ok (cs.map VecObj.toDense) := by
  rw [np2_single]; exact (dense_hom_sa_sv s op rows j b cs hw hb hj h).2

/-! ### array ∘ array, array ∘ 2-d literal -/

/-- **dense_hom, array ∘ array** (`sa op sb`, both float): NumPy's 2-d result, including the
broadcasting of a one-row side.  (Row counts that NumPy cannot broadcast are the known finding
`row-count-mismatch-truncated`: the code zips and truncates.) -/
theorem dense_hom_sa_sa (s : Store) (op : BinOp) (rows ors : List SV) (j : Nat) (orows : List Nat) (cs : List VecObj)
    (hw : ∀ r ∈ rows, r.WF) (hwo : ∀ r ∈ ors, r.WF)
    (hj : s[j]? = some (.sa orows)) (hors : s.rowsVec orows = some (svRows ors))
    (hshape : rows.length = ors.length ∨ rows.length = 1 ∨ ors.length = 1)
    (h : binSA s op (svRows rows) (.ref j) = .ok (.rows cs)) :
    (∀ c ∈ cs, VecWF c) ∧ np2 op.fn (denseRows rows) (denseRows ors) = .ok (cs.map VecObj.toDense) := by
  unfold binSA at h
  simp only [hj, hors, rowsBool_svRows, map_coerce_float, pairRows_sv, mapM_map, VecObj.opSparse, VecObj.toSV] at h
  obtain ⟨cs', hcs, e⟩ := except_map_ok h
  simp only [VRes.rows.injEq] at e; subst e
  have := gen_mapM_hom (fun p : SV × SV => p.1.WF ∧ p.2.WF) (fun p => SV.opSparse op p.1 p.2)
    (fun p => np1 op.fn p.1.toDense p.2.toDense)
    (fun p r hp hk => row_hom_sparse op p.1 p.2 r hp.1 hp.2 hk) (pairSV rows ors) _
    (fun p hp => ⟨hw _ (pairSV_mem rows ors p hp).1, hwo _ (pairSV_mem rows ors p hp).2⟩) hcs
  refine ⟨this.1, ?_⟩
  rw [np2_pairSV op.fn rows ors hshape, mapM_map]
  exact this.2

/-- **dense_hom, array ∘ 2-d literal** with the same number of rows (`sa op [[..],[..]]`) -/
theorem dense_hom_sa_matrix (s : Store) (op : BinOp) (rows : List SV) (l : Lit) (m : Mat) (cs : List VecObj)
    (hw : ∀ r ∈ rows, r.WF) (hred : l.reduce = .mat m) (hlen : rows.length = m.length)
    (h : binSA s op (svRows rows) (.lit l) = .ok (.rows cs)) :
    (∀ c ∈ cs, VecWF c) ∧ np2 op.fn (denseRows rows) m = .ok (cs.map VecObj.toDense) := by
  unfold binSA at h
  simp only [hred] at h
  obtain ⟨cs', hcs, e⟩ := except_map_ok h
  simp only [VRes.rows.injEq] at e; subst e
  have hz : zipTrunc (svRows rows) m = (rows.zip m).map (fun p => (VecObj.sv p.1, p.2)) := by
    unfold zipTrunc svRows
    rw [List.zip_map_left]
    apply List.map_congr_left
    intro p _; rfl
  rw [hz, mapM_map] at hcs
  simp only [VecObj.opArray] at hcs
  have := gen_mapM_hom (fun p : SV × Vec => p.1.WF) (fun p => SV.opArray op p.1 p.2)
    (fun p => np1 op.fn p.1.toDense p.2)
    (fun p r hp hk => row_hom_array op p.1 p.2 r hp hk) (rows.zip m) _
    (fun p hp => hw _ (List.of_mem_zip hp).1) hcs
  refine ⟨this.1, ?_⟩
  unfold np2 denseRows
  rw [if_pos (by simpa using hlen), List.zip_map_left, mapM_map]
  exact this.2

/-! ### reductions along the rows (`axis=1`) and over the whole array (`axis=None`) -/

/-- `vecOf n (fun i => match rows[i]? …) = rows.map …` by extensionality -/
macro "rows_ext" : tactic =>
  `(tactic| (apply List.ext_getElem
             · simp [vecOf_length, svRows]
             · intro i h1 h2
               simp only [vecOf_length, svRows, List.length_map] at h1
               simp [vecOf, svRows, List.getElem?_eq_getElem h1, VecObj.sum, VecObj.anyB, VecObj.allB]))

/-- **`sa.sum(axis=1)`**, with and without `keepdims` -/
theorem dense_hom_sa_sum_axis1 (rows : List SV) (hw : ∀ r ∈ rows, r.WF) :
    (denseRows rows).mapM (redVec .sum) = .ok (rows.map SV.sum) ∧
    (∀ v, reduceSA .sum (svRows rows) (some 1) false = .ok (.vec v) → v.toDense = rows.map SV.sum) ∧
    (∀ l, reduceSA .sum (svRows rows) (some 1) true = .ok (.rows l) → l.map VecObj.toDense = (rows.map SV.sum).map ([·])) := by
  refine ⟨rows_redVec .sum SV.sum rows (fun a ha => dense_hom_sum a (hw a ha)), ?_, ?_⟩
  · intro v h
    simp only [reduceSA, Bool.false_eq_true, ↓reduceIte, Except.ok.injEq, RRes.vec.injEq] at h
    subst h
    rw [tab_toDense]
    rows_ext
  · intro l h
    simp only [reduceSA, ↓reduceIte, Except.ok.injEq, RRes.rows.injEq] at h
    subst h
    simp only [svRows, List.map_map, Function.comp_def, keepN_toDense]
    rfl

/-- **`sa.any(axis=1)` / `sa.all(axis=1)`** -/
theorem dense_hom_sa_any_axis1 (rows : List SV) (hw : ∀ r ∈ rows, r.WF) :
    (denseRows rows).mapM (redVec .any) = .ok (rows.map (fun a => b2r a.any)) ∧
    (∀ v, reduceSA .any (svRows rows) (some 1) false = .ok (.vec v) → v.toDense = rows.map (fun a => b2r a.any)) ∧
    (∀ l, reduceSA .any (svRows rows) (some 1) true = .ok (.rows l) →
      l.map VecObj.toDense = (rows.map (fun a => b2r a.any)).map ([·])) := by
  refine ⟨rows_redVec .any _ rows (fun a ha => dense_hom_any a (hw a ha)), ?_, ?_⟩
  · intro v h
    simp only [reduceSA, Bool.false_eq_true, ↓reduceIte, Except.ok.injEq, RRes.vec.injEq] at h
    subst h
    show SLV.toDense _ = _
    rw [ofPred_toDense]
    rows_ext
  · intro l h
    simp only [reduceSA, ↓reduceIte, Except.ok.injEq, RRes.rows.injEq] at h
    subst h
    simp only [svRows, List.map_map, Function.comp_def, keepB_toDense]
    rfl

theorem dense_hom_sa_all_axis1 (rows : List SV) (hw : ∀ r ∈ rows, r.WF) :
    (denseRows rows).mapM (redVec .all) = .ok (rows.map (fun a => b2r a.all)) ∧
    (∀ v, reduceSA .all (svRows rows) (some 1) false = .ok (.vec v) → v.toDense = rows.map (fun a => b2r a.all)) ∧
    (∀ l, reduceSA .all (svRows rows) (some 1) true = .ok (.rows l) →
      l.map VecObj.toDense = (rows.map (fun a => b2r a.all)).map ([·])) := by
  refine ⟨rows_redVec .all _ rows (fun a ha => dense_hom_all a (hw a ha)), ?_, ?_⟩
  · intro v h
    simp only [reduceSA, Bool.false_eq_true, ↓reduceIte, Except.ok.injEq, RRes.vec.injEq] at h
    subst h
    show SLV.toDense _ = _
    rw [ofPred_toDense]
    rows_ext
  · intro l h
    simp only [reduceSA, ↓reduceIte, Except.ok.injEq, RRes.rows.injEq] at h
    subst h
    simp only [svRows, List.map_map, Function.comp_def, keepB_toDense]
    rfl

/-- **`sa.max(axis=1)` / `sa.min(axis=1)`** (rows not empty), with and without `keepdims` -/
theorem dense_hom_sa_max_axis1 (rows : List SV) (hw : ∀ a ∈ rows, a.WF ∧ a.size ≠ 0) :
    ∃ l, (denseRows rows).mapM (redVec .max) = .ok l ∧
      (∀ v, reduceSA .max (svRows rows) (some 1) false = .ok (.vec v) → v.toDense = l) ∧
      (∀ c, reduceSA .max (svRows rows) (some 1) true = .ok (.rows c) → c.map VecObj.toDense = l.map ([·])) := by
  obtain ⟨l, h1, h2⟩ := rows_max rows hw
  have hlen : l.length = rows.length := by
    have := except_mapM_length _ _ _ h1; simpa [svRows] using this
  refine ⟨l, h2, ?_, ?_⟩
  · intro v h
    simp only [reduceSA, h1, Bool.false_eq_true, ↓reduceIte, Except.ok.injEq, RRes.vec.injEq] at h
    subst h
    have := ofList_toDense l
    rw [hlen] at this
    simpa [svRows] using this
  · intro c h
    simp only [reduceSA, h1, ↓reduceIte, Except.ok.injEq, RRes.rows.injEq] at h
    subst h
    simp [List.map_map, Function.comp_def, keepN_toDense]

theorem dense_hom_sa_min_axis1 (rows : List SV) (hw : ∀ a ∈ rows, a.WF ∧ a.size ≠ 0) :
    ∃ l, (denseRows rows).mapM (redVec .min) = .ok l ∧
      (∀ v, reduceSA .min (svRows rows) (some 1) false = .ok (.vec v) → v.toDense = l) ∧
      (∀ c, reduceSA .min (svRows rows) (some 1) true = .ok (.rows c) → c.map VecObj.toDense = l.map ([·])) := by
  obtain ⟨l, h1, h2⟩ := rows_min rows hw
  have hlen : l.length = rows.length := by
    have := except_mapM_length _ _ _ h1; simpa [svRows] using this
  refine ⟨l, h2, ?_, ?_⟩
  · intro v h
    simp only [reduceSA, h1, Bool.false_eq_true, ↓reduceIte, Except.ok.injEq, RRes.vec.injEq] at h
    subst h
    have := ofList_toDense l
    rw [hlen] at this
    simpa [svRows] using this
  · intro c h
    simp only [reduceSA, h1, ↓reduceIte, Except.ok.injEq, RRes.rows.injEq] at h
    subst h
    simp [List.map_map, Function.comp_def, keepN_toDense]

/-- **`sa.mean(axis=1)`** (rows not empty) -/
theorem dense_hom_sa_mean_axis1 (rows : List SV) (hw : ∀ a ∈ rows, a.WF ∧ a.size ≠ 0) :
    (denseRows rows).mapM (redVec .mean) = .ok (rows.map SV.mean) ∧
    (∀ v, reduceSA .mean (svRows rows) (some 1) false = .ok (.vec v) → v.toDense = rows.map SV.mean) ∧
    (∀ l, reduceSA .mean (svRows rows) (some 1) true = .ok (.rows l) → l.map VecObj.toDense = (rows.map SV.mean).map ([·])) := by
  refine ⟨rows_redVec .mean SV.mean rows (fun a ha => dense_hom_mean a (hw a ha).1 (hw a ha).2), ?_, ?_⟩
  · intro v h
    simp only [reduceSA, Bool.false_eq_true, ↓reduceIte, Except.ok.injEq, RRes.vec.injEq] at h
    subst h
    rw [tab_toDense]
    apply List.ext_getElem
    · simp [vecOf_length, svRows]
    · intro i h1 h2
      simp only [vecOf_length, svRows, List.length_map] at h1
      simp only [vecOf, svRows, List.getElem_map, List.getElem_range, List.getElem?_map,
        List.getElem?_eq_getElem h1, Option.map_some, VecObj.sum, VecObj.size]
      exact row_mean_eq _
  · intro l h
    simp only [reduceSA, ↓reduceIte, Except.ok.injEq, RRes.rows.injEq] at h
    subst h
    simp only [svRows, List.map_map, Function.comp_def, keepN_toDense, VecObj.sum, VecObj.size]
    apply List.map_congr_left
    intro a _
    exact congrArg (fun x => [x]) (row_mean_eq a)

/-! ### `axis=None` -/

/-- **`sa.sum()`**: the sum of the row sums is the sum over all elements of the dense image -/
theorem dense_hom_sa_sum_all (rows : List SV) (hw : ∀ a ∈ rows, a.WF) :
    reduceSA .sum (svRows rows) none false = .ok (.num ((rows.map SV.sum).sum)) ∧
    redVec .sum (flat (denseRows rows)) = .ok ((rows.map SV.sum).sum) := by
  constructor
  · simp only [reduceSA, Bool.false_eq_true, ↓reduceIte, svRows, List.map_map, Function.comp_def, VecObj.sum]
    rw [foldl_add_eq, zero_add]
  · simp only [redVec]
    rw [vsum_eq_sum, sum_flat]
    congr 2
    unfold denseRows
    rw [List.map_map]
    apply List.map_congr_left
    intro a ha
    have := dense_hom_sum a (hw a ha)
    simp only [redVec, Except.ok.injEq] at this
    simp only [Function.comp]
    rw [← vsum_eq_sum, this]

/-- **`sa.any()` / `sa.all()`** -/
theorem dense_hom_sa_any_all (rows : List SV) (hw : ∀ a ∈ rows, a.WF) :
    reduceSA .any (svRows rows) none false = .ok (.num (b2r (rows.any SV.any))) ∧
    redVec .any (flat (denseRows rows)) = .ok (b2r (rows.any SV.any)) ∧
    reduceSA .all (svRows rows) none false = .ok (.num (b2r (rows.all SV.all))) ∧
    redVec .all (flat (denseRows rows)) = .ok (b2r (rows.all SV.all)) := by
  have hany : ∀ a ∈ rows, a.toDense.any (· != 0) = a.any := by
    intro a ha
    have := dense_hom_any a (hw a ha)
    simp only [redVec, Except.ok.injEq] at this
    cases h1 : a.toDense.any (· != 0) <;> cases h2 : a.any <;> simp [h1, h2, b2r] at this ⊢
  have hall : ∀ a ∈ rows, a.toDense.all (· != 0) = a.all := by
    intro a ha
    have := dense_hom_all a (hw a ha)
    simp only [redVec, Except.ok.injEq] at this
    cases h1 : a.toDense.all (· != 0) <;> cases h2 : a.all <;> simp [h1, h2, b2r] at this ⊢
  refine ⟨?_, ?_, ?_, ?_⟩
  · simp [reduceSA, svRows, List.any_map, Function.comp_def, VecObj.anyB]
  · simp only [redVec, any_flat, denseRows, List.any_map, Function.comp_def]
    congr 2
    exact any_congr_mem rows _ _ hany
  · simp [reduceSA, svRows, List.all_map, Function.comp_def, VecObj.allB]
  · simp only [redVec, all_flat, denseRows, List.all_map, Function.comp_def]
    congr 2
    exact all_congr_mem rows _ _ hall

/-! ### `axis=0`: column-wise, through the transpose of the dense image -/

theorem mapM_ok {α β : Type} (f : α → β) (l : List α) :
    l.mapM (fun x => (Except.ok (f x) : Except NpErr β)) = .ok (l.map f) := by
  induction l with
  | nil => rfl
  | cons a l ih => rw [List.mapM_cons, ih]; rfl

/-- **`sa.sum(axis=0)`** of a rectangular float array -/
theorem dense_hom_sa_sum_axis0 (rows : List SV) (hrect : ∀ a ∈ rows, a.size = vectorSize (svRows rows)) :
    ∃ v, reduceSA .sum (svRows rows) (some 0) false = .ok (.vec v) ∧ VecWF v ∧
      (transpose (denseRows rows)).mapM (redVec .sum) = .ok v.toDense := by
  refine ⟨.sv ⟨vectorSize (svRows rows), Dct.tabulate (vectorSize (svRows rows))
      (fun i => ((svRows rows).map (·.get i)).foldl (· + ·) 0), false⟩, ?_, sv_tab_wf _ _, ?_⟩
  · simp only [reduceSA, Bool.false_eq_true, ↓reduceIte]
  rw [transpose_dense rows hrect, mapM_map, tab_toDense]
  simp only [redVec]
  rw [mapM_ok]
  congr 1
  unfold vecOf
  apply List.map_congr_left
  intro j _
  simp [vsum, svRows, List.map_map, Function.comp_def, VecObj.get]

/-- **`sa.max(axis=0)` / `sa.min(axis=0)`** of a rectangular, non-empty float array: the extremum of
every column *including the implicit zeros* (the model, like the repaired code, takes it over all rows) -/
theorem dense_hom_sa_max_axis0 (rows : List SV) (hne : rows ≠ []) (hrect : ∀ a ∈ rows, a.size = vectorSize (svRows rows)) :
    ∃ v, reduceSA .max (svRows rows) (some 0) false = .ok (.vec v) ∧ VecWF v ∧
      (transpose (denseRows rows)).mapM (redVec .max) = .ok v.toDense := by
  refine ⟨.sv ⟨vectorSize (svRows rows), Dct.tabulate (vectorSize (svRows rows))
      (fun i => (vmax ((svRows rows).map (·.get i))).getD 0), false⟩, ?_, sv_tab_wf _ _, ?_⟩
  · simp only [reduceSA, Bool.false_eq_true, ↓reduceIte]
  rw [transpose_dense rows hrect, mapM_map, tab_toDense]
  have hcol : ∀ j, redVec .max (rows.map (fun a => a.get j)) = .ok ((vmax (rows.map (fun a => a.get j))).getD 0) := by
    intro j
    simp only [redVec]
    cases h : vmax (rows.map (fun a => a.get j)) with
    | none =>
      have := (vmax_none_iff _).mp h
      simp at this; exact absurd this hne
    | some m => rfl
  simp only [hcol]
  rw [mapM_ok]
  congr 1
  unfold vecOf
  apply List.map_congr_left
  intro j _
  simp [svRows, List.map_map, Function.comp_def, VecObj.get]

theorem dense_hom_sa_min_axis0 (rows : List SV) (hne : rows ≠ []) (hrect : ∀ a ∈ rows, a.size = vectorSize (svRows rows)) :
    ∃ v, reduceSA .min (svRows rows) (some 0) false = .ok (.vec v) ∧ VecWF v ∧
      (transpose (denseRows rows)).mapM (redVec .min) = .ok v.toDense := by
  refine ⟨.sv ⟨vectorSize (svRows rows), Dct.tabulate (vectorSize (svRows rows))
      (fun i => (vmin ((svRows rows).map (·.get i))).getD 0), false⟩, ?_, sv_tab_wf _ _, ?_⟩
  · simp only [reduceSA, Bool.false_eq_true, ↓reduceIte]
  rw [transpose_dense rows hrect, mapM_map, tab_toDense]
  have hcol : ∀ j, redVec .min (rows.map (fun a => a.get j)) = .ok ((vmin (rows.map (fun a => a.get j))).getD 0) := by
    intro j
    simp only [redVec]
    cases h : vmin (rows.map (fun a => a.get j)) with
    | none =>
      have := (vmin_none_iff _).mp h
      simp at this; exact absurd this hne
    | some m => rfl
  simp only [hcol]
  rw [mapM_ok]
  congr 1
  unfold vecOf
  apply List.map_congr_left
  intro j _
  simp [svRows, List.map_map, Function.comp_def, VecObj.get]

/-! ### non-vacuity -/

/-- a 2×2 float array plus a one-row array (stored as objects 0 and 1–2): the hypotheses of
`dense_hom_sa_sa` hold and the operation returns two rows -/
example :
    let s : Store := [Obj.sv ⟨2, [(0, 5)], false⟩, Obj.sa [0]]
    let rows : List SV := [⟨2, [(0, 1)], false⟩, ⟨2, [(1, -2)], false⟩]
    s.rowsVec [0] = some (svRows [⟨2, [(0, 5)], false⟩]) ∧
    binSA s .add (svRows rows) (.ref 1) =
      .ok (.rows [.sv ⟨2, [(0, 6)], false⟩, .sv ⟨2, [(0, 5), (1, -2)], false⟩]) ∧
    np2 (BinOp.fn .add) (denseRows rows) (denseRows [⟨2, [(0, 5)], false⟩]) = .ok [[6, 0], [5, -2]] := by
  refine ⟨by decide +kernel, by decide +kernel, by decide +kernel⟩

end ThermoVerif.Props.C09
