import ThermoVerif.Model.PropCache
/-
C14 — Every derived stream property reflects the current state, never a stale one.

The memo is content-keyed: a stored value is reused only when the key recomputed
from the stream's current (phase(s), T, P, composition) equals the key stored with
the memo.  The property package is NOT part of the key: the code must reset the memo
whenever it changes.  The theorems say that, for every history of object creations
(on any package, including `copy(thermo=)`), proxies, phase views, state mutations,
package changes, cache resets and reads, a read returns the value computed at the
*current* key with the functions of the object's *current* package.  `calc`'s purity
in (key, package) — the value depends on nothing but phase(s), T, P, composition and
the package — is the hypothesis under which "computed at the current key and package"
means "equal to the value of a fresh stream in the same state"; the harness monitors
it on the real code, and compares the package the real object uses with the model's
on every read.
-/
namespace ThermoVerif.Props.C14
open ThermoVerif.PropCache

/-- Every object's dict exists, and no two objects hold the same dict. -/
structure WF (w : World) : Prop where
  dict_lt : ∀ (o : Nat) (x : Obj), w.objs[o]? = some x → x.dict < w.dicts.length
  unshared : ∀ (o₁ o₂ : Nat) (x₁ x₂ : Obj), w.objs[o₁]? = some x₁ → w.objs[o₂]? = some x₂ → x₁.dict = x₂.dict → o₁ = o₂

/-- The memo invariant: whatever an object's memo holds was computed at the key stored with it, with the
package the object uses now. -/
def Inv (w : World) : Prop :=
  ∀ (o : Nat) (x : Obj) (k : Nat), w.objs[o]? = some x → x.key = some k →
    ∀ n v, (n, v) ∈ w.dictOf x.dict → v = (k, x.pkg)

def Good (w : World) : Prop := WF w ∧ Inv w

theorem good_init : Good World.init := by
  refine ⟨⟨?_, ?_⟩, ?_⟩ <;> simp [World.init, Inv]

/-! ### helper facts -/

theorem lookup_mem {α β} [BEq α] [LawfulBEq α] {l : List (α × β)} {a : α} {b : β}
    (h : l.lookup a = some b) : (a, b) ∈ l := by
  induction l with
  | nil => simp at h
  | cons p t ih =>
    obtain ⟨a', b'⟩ := p
    simp only [List.lookup_cons] at h
    by_cases hab : a = a'
    · subst hab; simp at h; subst h; simp
    · have : (a == a') = false := by simpa using hab
      simp [this] at h
      exact List.mem_cons_of_mem _ (ih h)

theorem good_newObj (w : World) (p : Nat) (h : Good w) : Good (w.newObj p).1 := by
  obtain ⟨⟨hd, hu⟩, hi⟩ := h
  refine ⟨⟨?_, ?_⟩, ?_⟩
  · intro o x hx
    simp only [World.newObj, World.newDict, List.length_append, List.length_singleton] at hx ⊢
    grind
  · intro o₁ o₂ x₁ x₂ h₁ h₂ he
    simp only [World.newObj, World.newDict] at h₁ h₂
    grind
  · intro o x k hx hk n v hm
    simp only [World.newObj, World.newDict, World.dictOf] at hx hm
    unfold Inv World.dictOf at hi
    grind

theorem good_resetOne (w : World) (o : Nat) (h : Good w) : Good (w.resetOne o) := by
  obtain ⟨⟨hd, hu⟩, hi⟩ := h
  unfold World.resetOne World.obj?
  cases hx : w.objs[o]? with
  | none => exact ⟨⟨hd, hu⟩, hi⟩
  | some x =>
    simp only [World.newDict, World.setObj]
    refine ⟨⟨?_, ?_⟩, ?_⟩
    · intro o' x' hx'
      simp only [List.length_append, List.length_singleton] at hx' ⊢
      grind
    · intro o₁ o₂ x₁ x₂ h₁ h₂ he
      grind
    · intro o' x' k hx' hk n v hm
      simp only [World.dictOf] at hm
      unfold Inv World.dictOf at hi
      grind

theorem good_fold_resetOne (l : List Nat) (w : World) (h : Good w) :
    Good (l.foldl World.resetOne w) := by
  induction l generalizing w with
  | nil => exact h
  | cons a t ih => exact ih _ (good_resetOne w a h)

theorem good_reset (w : World) (o : Nat) (h : Good w) : Good (w.reset o) := by
  unfold World.reset
  cases w.obj? o with
  | none => exact h
  | some x => exact good_resetOne _ _ (good_fold_resetOne _ _ h)

theorem good_resetPkgOne (p : Nat) (w : World) (o : Nat) (h : Good w) : Good (World.resetPkgOne p w o) := by
  obtain ⟨⟨hd, hu⟩, hi⟩ := h
  unfold World.resetPkgOne World.obj?
  cases hx : w.objs[o]? with
  | none => exact ⟨⟨hd, hu⟩, hi⟩
  | some x =>
    simp only [World.newDict, World.setObj]
    refine ⟨⟨?_, ?_⟩, ?_⟩
    · intro o' x' hx'
      simp only [List.length_append, List.length_singleton] at hx' ⊢
      grind
    · intro o₁ o₂ x₁ x₂ h₁ h₂ he
      grind
    · intro o' x' k hx' hk n v hm
      simp only [World.dictOf] at hm
      unfold Inv World.dictOf at hi
      grind

theorem good_fold_resetPkgOne (p : Nat) (l : List Nat) (w : World) (h : Good w) :
    Good (l.foldl (World.resetPkgOne p) w) := by
  induction l generalizing w with
  | nil => exact h
  | cons a t ih => exact ih _ (good_resetPkgOne p w a h)

/-- changing only the `views` (or nothing) of an object keeps everything -/
theorem good_setViews (w : World) (o : Nat) (x : Obj) (vs : Nat) (hx : w.objs[o]? = some x)
    (h : Good w) : Good (w.setObj o { x with views := vs }) := by
  obtain ⟨⟨hd, hu⟩, hi⟩ := h
  simp only [World.setObj]
  refine ⟨⟨?_, ?_⟩, ?_⟩
  · intro o' x' hx'
    grind
  · intro o₁ o₂ x₁ x₂ h₁ h₂ he
    grind
  · intro o' x' k hx' hk n v hm
    simp only [World.dictOf] at hm
    unfold Inv World.dictOf at hi
    grind

/-- the `_streams` dicts play no part in the memo invariant -/
theorem good_vlists (w : World) (vl : List (List Nat)) (h : Good w) : Good { w with vlists := vl } := by
  obtain ⟨⟨hd, hu⟩, hi⟩ := h
  exact ⟨⟨hd, hu⟩, hi⟩

theorem good_view (w : World) (o : Nat) (h : Good w) : Good (w.view o).1 := by
  unfold World.view
  have h1 := good_newObj w (w.pkgOf o) h
  cases hx : (w.newObj (w.pkgOf o)).1.obj? o with
  | none => simpa [hx] using h1
  | some x =>
    simp only [hx]
    exact good_vlists _ _ h1

theorem good_proxy (w : World) (o : Nat) (h : Good w) : Good (w.proxy o).1 := good_newObj w _ h

theorem good_mut (w : World) (o : Nat) (m : Mut) (h : Good w) : Good (w.mut o m) := by
  cases m with
  | state => exact h
  | resets => exact good_reset w o h
  | collapse =>
    unfold World.mut
    cases hx : w.obj? o with
    | none => simpa using h
    | some x => exact good_vlists _ _ h
  | rebind =>
    unfold World.mut
    cases hx : w.obj? o with
    | none => simpa using h
    | some x => exact good_vlists _ _ (good_setViews _ _ _ _ hx h)
  | thermo p =>
    unfold World.mut
    cases hx : w.obj? o with
    | none => simpa using h
    | some x =>
      simp only
      split
      · exact h
      · exact good_resetPkgOne _ _ _ (good_fold_resetPkgOne _ _ _ h)

/-- Writing object `o`'s key and its (unshared) dict together keeps the invariant, provided the
new entries were all computed at the new key. -/
theorem good_write (w : World) (o : Nat) (x : Obj) (k : Nat) (e : List (String × (Nat × Nat)))
    (hx : w.objs[o]? = some x) (he : ∀ n v, (n, v) ∈ e → v = (k, x.pkg)) (h : Good w) :
    Good ((w.setObj o { x with key := some k }).setDict x.dict e) := by
  obtain ⟨⟨hd, hu⟩, hi⟩ := h
  have hdx := hd o x hx
  simp only [World.setObj, World.setDict]
  refine ⟨⟨?_, ?_⟩, ?_⟩
  · intro o' x' hx'
    simp only [List.length_set]
    grind
  · intro o₁ o₂ x₁ x₂ h₁ h₂ heq
    grind
  · intro o' x' k' hx' hk' n v hm
    simp only [World.dictOf] at hm
    unfold Inv World.dictOf at hi
    grind

theorem good_read (w : World) (o : Nat) (name : String) (k : Nat) (h : Good w) :
    Good (w.read o name k).1 := by
  unfold World.read World.obj?
  cases hx : w.objs[o]? with
  | none => exact h
  | some x =>
    simp only
    split
    · rename_i hk
      cases hl : (w.dictOf x.dict).lookup name with
      | some v => exact h
      | none =>
        apply good_write w o x k _ hx _ h
        intro n v hm
        rcases List.mem_cons.mp hm with hm | hm
        · cases hm; rfl
        · exact h.2 o x k hx hk n v hm
    · apply good_write w o x k _ hx _ h
      intro n v hm
      simp at hm; exact hm.2

theorem good_readFail (w : World) (o : Nat) (k : Nat) (h : Good w) : Good (w.readFail o k) := by
  unfold World.readFail World.obj?
  cases hx : w.objs[o]? with
  | none => exact h
  | some x =>
    simp only
    split
    · exact h
    · exact good_write w o x k [] hx (by simp) h

/-- One operation preserves the memo invariant. -/
theorem good_step (w : World) (op : Op) (h : Good w) : Good (w.step op) := by
  cases op with
  | new p => exact good_newObj w p h
  | proxy o => exact good_proxy w o h
  | view o => exact good_view w o h
  | mutate o m => exact good_mut w o m h
  | read o n k => exact good_read w o n k h
  | readFail o k => exact good_readFail w o k h

/-- Every history, of any length, from any good state. -/
theorem good_history (ops : List Op) (w : World) (h : Good w) : Good (w.run ops) := by
  unfold World.run
  induction ops generalizing w with
  | nil => exact h
  | cons op t ih => exact ih _ (good_step w op h)

/-- The value a read returns was computed at the key of the current state with the object's current package. -/
theorem read_fresh_of_inv (w : World) (h : Inv w) (o : Nat) (name : String) (k : Nat) :
    (w.read o name k).2.2 = (k, w.pkgOf o) := by
  unfold World.read World.pkgOf World.obj?
  cases hx : w.objs[o]? with
  | none => rfl
  | some x =>
    simp only
    split
    · rename_i hk
      cases hl : (w.dictOf x.dict).lookup name with
      | some v => exact h o x k hx hk name v (lookup_mem hl)
      | none => rfl
    · rfl

/-- **C14.** After any history of creations (on any package), proxies, views, mutations, package changes,
resets and reads, every read returns the value computed at the current state's key with the functions of the
object's current package — never a stale one. -/
theorem C14_read_fresh (ops : List Op) (o : Nat) (name : String) (k : Nat) :
    ((World.init.run ops).read o name k).2.2 = (k, (World.init.run ops).pkgOf o) :=
  read_fresh_of_inv _ (good_history ops _ good_init).2 o name k

/-- A hit really happens (the statement above is not vacuous because every read misses):
reading the same property twice in the same state hits the second time. -/
example :
    ((World.init.run [.new 0, .read 0 "H" 7]).read 0 "H" 7).2.1 = Outcome.hit := by decide

/-- …and after the state changed (new key id) the stale entry is not used. -/
example :
    ((World.init.run [.new 0, .read 0 "H" 7]).read 0 "H" 8).2 = (Outcome.miss, (8, 0)) := by decide

/-- …and after the package changed (same key id) it is not used either: the value is recomputed with the
new package's functions. -/
example :
    ((World.init.run [.new 0, .read 0 "H" 7, .mutate 0 (.thermo 3)]).read 0 "H" 7).2 = (Outcome.miss, (7, 3)) := by decide

/-- `_reset_thermo` with the package already in use keeps the memo (a hit). -/
example :
    ((World.init.run [.new 3, .read 0 "H" 7, .mutate 0 (.thermo 3)]).read 0 "H" 7).2 = (Outcome.hit, (7, 3)) := by decide

/-! ### The defect that was repaired: a proxy that shares the dict but copies the key -/

/-- `Stream.proxy()` as the code had it: same dict object, key copied by value. -/
def proxyShared (w : World) (o : Nat) : World :=
  match w.obj? o with
  | none => w
  | some x => { w with objs := w.objs ++ [{ key := x.key, dict := x.dict, views := x.views, pkg := x.pkg }] }

/-- With the shared-dict proxy the property fails: read `H` on the original in state 1, create a
proxy, read `H` through the proxy in state 2, return to state 1 and read `H` on the original — the
answer is the value computed in state 2. -/
theorem shared_proxy_counterexample :
    let w₀ := (World.init.run [.new 0, .read 0 "H" 1])
    let w₁ := proxyShared w₀ 0
    let w₂ := (w₁.read 1 "H" 2).1
    (w₂.read 0 "H" 1).2 = (Outcome.hit, (2, 0)) := by decide

/-! ### A second way to break it: a package change that keeps the memo -/

/-- `_reset_thermo` / `copy(thermo=)` without `reset_cache()` (the shape of seeded change C14-5). -/
def thermoKeepsMemo (w : World) (o : Nat) (p : Nat) : World :=
  match w.obj? o with
  | none => w
  | some x => w.setObj o { x with pkg := p }

/-- Then a read in an unchanged state returns the value computed with the OLD package's functions. -/
theorem package_change_without_reset_counterexample :
    let w₀ := (World.init.run [.new 0, .read 0 "H" 1])
    let w₁ := thermoKeepsMemo w₀ 0 3
    (w₁.read 0 "H" 1).2 = (Outcome.hit, (1, 0)) ∧ w₁.pkgOf 0 = 3 := by decide

end ThermoVerif.Props.C14
