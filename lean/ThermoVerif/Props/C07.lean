import ThermoVerif.Model.FreeEnergy
import Mathlib.MeasureTheory.Integral.IntervalIntegral.FundThmCalculus
import Mathlib.Analysis.SpecialFunctions.Log.Deriv
import Mathlib.Analysis.Convex.SpecificFunctions.Basic
import Mathlib.Tactic.Ring
import Mathlib.Tactic.Linarith
import Mathlib.Tactic.FieldSimp
/-
C07 — Pure-component and mixture enthalpy/entropy are thermodynamically consistent.

Statement (properties.jsonl): for every chemical and each of its three possible reference phases, enthalpy is
zero (H_ref) and entropy equals the absolute entropy at the reference state, their temperature derivatives in each
phase are Cn and Cn/T, gas entropy falls by R ln(P2/P1) with pressure, and the jumps between phases at the normal
boiling and melting points equal the heat of vaporisation and fusion (divided by the transition temperature for
entropy).  Mixture enthalpy and heat capacity are the mole-weighted sums of the pure values and are extensive, and
mixture entropy exceeds the mole-weighted sum by the ideal mixing term −R Σ nᵢ ln xᵢ, so that mixing streams at
equal temperature and pressure never lowers entropy.

What the theorems are about:
  * `ThermoVerif.FreeEnergy.<Functor>` — the 21 functor bodies of thermosteam/free_energy.py, TRANSLATED from the
    source at the start of every check run (Generated/FreeEnergy.lean);
  * `initEnergies`, `Energies.H/S`, `initSfus`, `idealMix`, `idealEntropy`, `mixtureS` — the hand model of
    `Chemical._init_energies`, the phase handles, `_init_data` and the ideal mixture models (Model/FreeEnergy.lean),
    tied to the code by the correspondence run.
Everything is instantiated at ℝ with ARBITRARY heat-capacity objects `Cs Cl Cg : HeatCap ℝ` subject only to the
laws `Lawful` (satisfied by the interval integrals of any continuous function, `lawful_ofCn`), arbitrary
`T_ref, P_ref, H_ref, S0, Tm, Tb, Hfus, Sfus, Hvap(Tb)`, `T`, `P`.

The mixing-entropy clauses are FALSE of the code as it is (DESIGN.md §8 #20, pinned by the IdealEntropyModel doctest):
they are kept as `def …_statement : Prop` with `…_counterexample` and `…_partial` theorems.  (§8 #21, the entropy of
fusion, was fixed in /repo by 7c3427a; the model mirrors the fixed code and `jump_Tm_S` is a theorem.)
-/
set_option linter.unusedTactic false
set_option linter.unreachableTactic false
set_option linter.unusedVariables false
set_option linter.unnecessarySeqFocus false

namespace ThermoVerif.Props.C07
open ThermoVerif.FreeEnergy

noncomputable section

/-- the environment of the functors over ℝ: `math.log`, the gas constant, Python truthiness of a number -/
def realEnv (R : ℝ) : Env ℝ := ⟨Real.log, R, fun x => decide (x = 0), fun a b => decide (a ≤ b)⟩

/-! ## The laws of a heat-capacity object -/

/-- `C.I a b` and `C.J a b` behave like `∫ₐᵇ cn` and `∫ₐᵇ cn/T`. These are the ONLY facts about the heat
capacities the theorems use. -/
structure Lawful (C : HeatCap ℝ) (cn : ℝ → ℝ) : Prop where
  I_self : ∀ a, C.I a a = 0
  I_add : ∀ a b c, C.I a b + C.I b c = C.I a c
  J_self : ∀ a, C.J a a = 0
  J_add : ∀ a b c, 0 < a → 0 < b → 0 < c → C.J a b + C.J b c = C.J a c
  I_deriv : ∀ a T, HasDerivAt (fun t => C.I a t) (cn T) T
  J_deriv : ∀ a T, 0 < a → 0 < T → HasDerivAt (fun t => C.J a t) (cn T / T) T

/-- the heat-capacity object of a continuous function `cn`, by interval integrals -/
def ofCn (cn : ℝ → ℝ) : HeatCap ℝ :=
  ⟨fun a b => ∫ x in a..b, cn x, fun a b => ∫ x in a..b, cn x / x⟩

private lemma continuousOn_div_id {cn : ℝ → ℝ} (h : Continuous cn) : ContinuousOn (fun x => cn x / x) (Set.Ioi 0) :=
  h.continuousOn.div continuousOn_id (fun x hx => ne_of_gt hx)

private lemma integrable_div_id {cn : ℝ → ℝ} (h : Continuous cn) {a b : ℝ} (ha : 0 < a) (hb : 0 < b) :
    IntervalIntegrable (fun x => cn x / x) MeasureTheory.volume a b := by
  apply ContinuousOn.intervalIntegrable
  apply (continuousOn_div_id h).mono
  intro x hx
  rcases Set.mem_uIcc.1 hx with ⟨h1, _⟩ | ⟨h1, _⟩
  · exact lt_of_lt_of_le ha h1
  · exact lt_of_lt_of_le hb h1

/-- The laws are satisfiable by every continuous heat-capacity function (so the theorems below hold for the
integrals of arbitrary continuous `Cn`). -/
theorem lawful_ofCn (cn : ℝ → ℝ) (h : Continuous cn) : Lawful (ofCn cn) cn where
  I_self a := by simp [ofCn]
  I_add a b c := by
    simp only [ofCn]
    exact intervalIntegral.integral_add_adjacent_intervals (h.intervalIntegrable a b) (h.intervalIntegrable b c)
  J_self a := by simp [ofCn]
  J_add a b c ha hb hc := by
    simp only [ofCn]
    exact intervalIntegral.integral_add_adjacent_intervals (integrable_div_id h ha hb) (integrable_div_id h hb hc)
  I_deriv a T := by
    simp only [ofCn]
    exact intervalIntegral.integral_hasDerivAt_right (h.intervalIntegrable a T)
      (h.stronglyMeasurableAtFilter _ _) h.continuousAt
  J_deriv a T ha hT := by
    simp only [ofCn]
    have hc : ContinuousOn (fun x => cn x / x) (Set.Ioi 0) := continuousOn_div_id h
    exact intervalIntegral.integral_hasDerivAt_right (integrable_div_id h ha hT)
      (hc.stronglyMeasurableAtFilter isOpen_Ioi T hT) (hc.continuousAt (isOpen_Ioi.mem_nhds hT))

/-- constant heat capacity `c`: `I a b = c (b − a)`, `J a b = c (ln b − ln a)` (closed form, no integrals) -/
def constCap (c : ℝ) : HeatCap ℝ := ⟨fun a b => c * (b - a), fun a b => c * (Real.log b - Real.log a)⟩

/-- non-vacuity of `Lawful`: a constant heat capacity satisfies the laws -/
theorem lawful_constCap (c : ℝ) : Lawful (constCap c) (fun _ => c) where
  I_self a := by simp [constCap]
  I_add a b c' := by simp only [constCap]; ring
  J_self a := by simp [constCap]
  J_add a b c' _ _ _ := by simp only [constCap]; ring
  I_deriv a T := by
    simp only [constCap]
    simpa using ((hasDerivAt_id T).sub_const a).const_mul c
  J_deriv a T _ hT := by
    simp only [constCap]
    have := ((Real.hasDerivAt_log (ne_of_gt hT)).sub_const (Real.log a)).const_mul c
    simpa [div_eq_mul_inv] using this

/-! ## A chemical with complete data -/

/-- the numbers `_init_energies` works with; all arbitrary -/
structure Data where
  Tref : ℝ
  Pref : ℝ
  Href : ℝ
  S0 : ℝ
  Tm : ℝ
  Tb : ℝ
  Hfus : ℝ
  Sfus : ℝ
  /-- `Hvap(Tb)` -/
  Hvap : ℝ

/-- a chemical with heat capacities for the three phases, Tm, Tb, Hvap(Tb), Hfus and an entropy of fusion, in
reference phase `r`, not phase-locked -/
def chemIn (r : Phase) (d : Data) : ChemIn ℝ :=
  { phaseRef := r, locked := none, hasS := true, hasL := true, hasG := true,
    Tm := some d.Tm, Tb := some d.Tb, Hfus := some d.Hfus, Sfus := some d.Sfus,
    HvapAtTb := some d.Hvap, S0 := some d.S0, T_ref := d.Tref, P_ref := d.Pref, H_ref := d.Href }

/-- `Tm`, `Tb`, `Hvap(Tb)` are truthy in Python (non-zero) and temperatures are positive -/
structure Data.Ok (d : Data) : Prop where
  Tref_pos : 0 < d.Tref
  Tm_pos : 0 < d.Tm
  Tb_pos : 0 < d.Tb
  Hvap_ne : d.Hvap ≠ 0

variable (R : ℝ) (Cs Cl Cg : HeatCap ℝ) (cs cl cg : ℝ → ℝ)

/-- what `_init_energies` builds for that chemical -/
def wired (r : Phase) (d : Data) : Energies ℝ := initEnergies (realEnv R) Cs Cl Cg (chemIn r d)

/-- the heat-capacity function of a phase -/
def cnOf : Phase → ℝ → ℝ
  | .s => cs | .l => cl | .g => cg

/-- closed form of `chemical.H(phase, T, P)`; first argument = reference phase -/
def Hval (d : Data) : Phase → Phase → ℝ → ℝ
  | .l, .l, T => d.Href + Cl.I d.Tref T
  | .l, .g, T => d.Href + Cl.I d.Tref d.Tb + d.Hvap + Cg.I d.Tb T
  | .l, .s, T => d.Href - Cl.I d.Tm d.Tref - d.Hfus + Cs.I d.Tm T
  | .g, .g, T => d.Href + Cg.I d.Tref T
  | .g, .l, T => d.Href - Cg.I d.Tb d.Tref - d.Hvap + Cl.I d.Tb T
  | .g, .s, T => d.Href - Cg.I d.Tb d.Tref - d.Hvap - Cl.I d.Tm d.Tb - d.Hfus + Cs.I d.Tm T
  | .s, .s, T => d.Href + Cs.I d.Tref T
  | .s, .l, T => d.Href + Cs.I d.Tref d.Tm + d.Hfus + Cl.I d.Tm T
  | .s, .g, T => d.Href + Cs.I d.Tref d.Tm + d.Hfus + Cl.I d.Tm d.Tb + d.Hvap + Cg.I d.Tb T

/-- closed form of `chemical.S(phase, T, P)` -/
def Sval (d : Data) : Phase → Phase → ℝ → ℝ → ℝ
  | .l, .l, T, _ => d.S0 + Cl.J d.Tref T
  | .l, .g, T, P => d.S0 + Cl.J d.Tref d.Tb + d.Hvap / d.Tb + Cg.J d.Tb T - R * Real.log (P / d.Pref)
  | .l, .s, T, _ => d.S0 - Cl.J d.Tm d.Tref - d.Sfus + Cs.J d.Tm T
  | .g, .g, T, P => d.S0 + Cg.J d.Tref T - R * Real.log (P / d.Pref)
  | .g, .l, T, _ => d.S0 - Cg.J d.Tb d.Tref - d.Hvap / d.Tb + Cl.J d.Tb T
  | .g, .s, T, _ => d.S0 - Cg.J d.Tb d.Tref - d.Hvap / d.Tb - Cl.J d.Tm d.Tb - d.Sfus + Cs.J d.Tm T
  | .s, .s, T, _ => d.S0 + Cs.J d.Tref T
  | .s, .l, T, _ => d.S0 + Cs.J d.Tref d.Tm + d.Sfus + Cl.J d.Tm T
  | .s, .g, T, P => d.S0 + Cs.J d.Tref d.Tm + d.Sfus + Cl.J d.Tm d.Tb + d.Hvap / d.Tb + Cg.J d.Tb T
                      - R * Real.log (P / d.Pref)

/-- In all 9 (reference phase, phase) combinations the wired functor evaluates (no `TypeError`) to the closed form:
translated functor bodies ∘ hand-modelled wiring. -/
theorem H_closed_form (d : Data) (ok : d.Ok) (r ph : Phase) (T P : ℝ) :
    (wired R Cs Cl Cg r d).H (realEnv R) ph T P = .ok (Hval Cs Cl Cg d r ph T) := by
  have h1 := ne_of_gt ok.Tm_pos
  have h2 := ne_of_gt ok.Tb_pos
  have h3 := ok.Hvap_ne
  cases r <;> cases ph <;>
    simp [wired, initEnergies, chemIn, truthy, realEnv, guardedInt, h1, h2, h3, Energies.H, Inst.eval, call,
      Inst.cnOf, Inst.valOf, Inst.arg, Fn.params, Builder.s, Builder.l, Builder.g, List.zip, lookupPar, Hval,
      Solid_Enthalpy_Ref_Solid, Solid_Enthalpy_Ref_Liquid, Solid_Enthalpy_Ref_Gas,
      Liquid_Enthalpy_Ref_Solid, Liquid_Enthalpy_Ref_Liquid, Liquid_Enthalpy_Ref_Gas,
      Gas_Enthalpy_Ref_Solid, Gas_Enthalpy_Ref_Liquid, Gas_Enthalpy_Ref_Gas] <;>
    ring

theorem S_closed_form (d : Data) (ok : d.Ok) (r ph : Phase) (T P : ℝ) :
    (wired R Cs Cl Cg r d).S (realEnv R) ph T P = .ok (Sval R Cs Cl Cg d r ph T P) := by
  have h1 := ne_of_gt ok.Tm_pos
  have h2 := ne_of_gt ok.Tb_pos
  have h3 := ok.Hvap_ne
  cases r <;> cases ph <;>
    simp [wired, initEnergies, chemIn, truthy, realEnv, guardedInt, h1, h2, h3, Energies.S, Inst.eval, call,
      Inst.cnOf, Inst.valOf, Inst.arg, Fn.params, Builder.s, Builder.l, Builder.g, List.zip, lookupPar, Sval,
      Solid_Entropy_Ref_Solid, Solid_Entropy_Ref_Liquid, Solid_Entropy_Ref_Gas,
      Liquid_Entropy_Ref_Solid, Liquid_Entropy_Ref_Liquid, Liquid_Entropy_Ref_Gas,
      Gas_Entropy_Ref_Solid, Gas_Entropy_Ref_Liquid, Gas_Entropy_Ref_Gas] <;>
    ring

/-! ## Reference state -/

/-- `H_ref_state`: in each of the 3 reference phases, `H(phase_ref, T_ref, P) = H_ref` (whatever P). -/
theorem H_ref_state (hs : Lawful Cs cs) (hl : Lawful Cl cl) (hg : Lawful Cg cg) (d : Data) (ok : d.Ok) (r : Phase) (P : ℝ) :
    (wired R Cs Cl Cg r d).H (realEnv R) r d.Tref P = .ok d.Href := by
  rw [H_closed_form R Cs Cl Cg d ok]
  cases r <;> simp [Hval, hs.I_self, hl.I_self, hg.I_self]

/-- `S_ref_state`: `S(phase_ref, T_ref, P_ref) = S0` in each of the 3 reference phases. -/
theorem S_ref_state (hs : Lawful Cs cs) (hl : Lawful Cl cl) (hg : Lawful Cg cg) (d : Data) (ok : d.Ok) (r : Phase) :
    (wired R Cs Cl Cg r d).S (realEnv R) r d.Tref d.Pref = .ok d.S0 := by
  rw [S_closed_form R Cs Cl Cg d ok]
  have hlog : Real.log (d.Pref / d.Pref) = 0 := by
    by_cases h : d.Pref = 0
    · simp [h]
    · simp [div_self h]
  cases r <;> simp [Sval, hs.J_self, hl.J_self, hg.J_self, hlog]

/-- The reference-state identities need nothing but a heat-capacity model for some phase: for EVERY input of
`_init_energies` of a chemical that is not phase-locked (missing Tm, Tb, Hvap, Hfus, Sfus allowed),
`H(phase_ref, T_ref, P) = H_ref`. -/
theorem H_ref_state_any (hs : Lawful Cs cs) (hl : Lawful Cl cl) (hg : Lawful Cg cg) (c : ChemIn ℝ)
    (hlock : c.locked = none) (hcn : (c.hasS || c.hasL || c.hasG) = true) (P : ℝ) :
    (initEnergies (realEnv R) Cs Cl Cg c).H (realEnv R) c.phaseRef c.T_ref P = .ok c.H_ref := by
  rcases c with ⟨r, lk, a, b, e, Tm, Tb, Hfus, Sfus, Hv, S0, Tref, Pref, Href⟩
  simp only at hlock hcn
  subst hlock
  cases r <;>
    simp [initEnergies, hcn, Energies.H, Inst.eval, call, Inst.cnOf, Inst.valOf, Inst.arg, Fn.params,
      Builder.s, Builder.l, Builder.g, List.zip, lookupPar, Solid_Enthalpy_Ref_Solid, Liquid_Enthalpy_Ref_Liquid,
      Gas_Enthalpy_Ref_Gas, hs.I_self, hl.I_self, hg.I_self]

/-- … and `S(phase_ref, T_ref, P_ref) = S0` whenever `S0` is a number. -/
theorem S_ref_state_any (hs : Lawful Cs cs) (hl : Lawful Cl cl) (hg : Lawful Cg cg) (c : ChemIn ℝ) (s0 : ℝ)
    (hlock : c.locked = none) (hcn : (c.hasS || c.hasL || c.hasG) = true) (hS0 : c.S0 = some s0) :
    (initEnergies (realEnv R) Cs Cl Cg c).S (realEnv R) c.phaseRef c.T_ref c.P_ref = .ok s0 := by
  rcases c with ⟨r, lk, a, b, e, Tm, Tb, Hfus, Sfus, Hv, S0, Tref, Pref, Href⟩
  simp only at hlock hcn hS0
  subst hlock hS0
  have hlog : Real.log (Pref / Pref) = 0 := by
    by_cases h : Pref = 0
    · simp [h]
    · simp [div_self h]
  cases r <;>
    simp [initEnergies, hcn, Energies.S, Inst.eval, call, Inst.cnOf, Inst.valOf, Inst.arg, Fn.params,
      Builder.s, Builder.l, Builder.g, List.zip, lookupPar, Solid_Entropy_Ref_Solid, Liquid_Entropy_Ref_Liquid,
      Gas_Entropy_Ref_Gas, hs.J_self, hl.J_self, hg.J_self, realEnv, hlog]

/-! ## Temperature derivatives -/

/-- `dH_dT = Cn_phase` in each of the 9 (reference phase, phase) combinations, at every `T`. -/
theorem dH_dT (hs : Lawful Cs cs) (hl : Lawful Cl cl) (hg : Lawful Cg cg) (d : Data) (r ph : Phase) (T : ℝ) :
    HasDerivAt (fun t => Hval Cs Cl Cg d r ph t) (cnOf cs cl cg ph T) T := by
  cases r <;> cases ph <;> simp only [Hval, cnOf] <;>
    first
      | exact (hs.I_deriv _ T).const_add _
      | exact (hl.I_deriv _ T).const_add _
      | exact (hg.I_deriv _ T).const_add _

/-- `dS_dT = Cn_phase / T` in each of the 9 combinations, at every `T > 0` and every `P`. -/
theorem dS_dT (hs : Lawful Cs cs) (hl : Lawful Cl cl) (hg : Lawful Cg cg) (d : Data) (ok : d.Ok) (r ph : Phase)
    (T P : ℝ) (hT : 0 < T) :
    HasDerivAt (fun t => Sval R Cs Cl Cg d r ph t P) (cnOf cs cl cg ph T / T) T := by
  have a1 := ok.Tref_pos
  have a2 := ok.Tm_pos
  have a3 := ok.Tb_pos
  cases r <;> cases ph <;> simp only [Sval, cnOf] <;>
    first
      | exact (hs.J_deriv _ T (by assumption) hT).const_add _
      | exact (hl.J_deriv _ T (by assumption) hT).const_add _
      | exact (hg.J_deriv _ T (by assumption) hT).const_add _
      | exact ((hg.J_deriv _ T (by assumption) hT).const_add _).sub_const _

/-- The derivative clauses about the code's own `H`: it never raises and is a differentiable function of `T` with
derivative `Cn_phase(T)`. -/
theorem H_differentiable (hs : Lawful Cs cs) (hl : Lawful Cl cl) (hg : Lawful Cg cg) (d : Data) (ok : d.Ok)
    (r ph : Phase) (P : ℝ) :
    ∃ f : ℝ → ℝ, (∀ T, (wired R Cs Cl Cg r d).H (realEnv R) ph T P = .ok (f T)) ∧
      ∀ T, HasDerivAt f (cnOf cs cl cg ph T) T :=
  ⟨fun t => Hval Cs Cl Cg d r ph t, fun T => H_closed_form R Cs Cl Cg d ok r ph T P,
   fun T => dH_dT Cs Cl Cg cs cl cg hs hl hg d r ph T⟩

theorem S_differentiable (hs : Lawful Cs cs) (hl : Lawful Cl cl) (hg : Lawful Cg cg) (d : Data) (ok : d.Ok)
    (r ph : Phase) (P : ℝ) :
    ∃ f : ℝ → ℝ, (∀ T, (wired R Cs Cl Cg r d).S (realEnv R) ph T P = .ok (f T)) ∧
      ∀ T, 0 < T → HasDerivAt f (cnOf cs cl cg ph T / T) T :=
  ⟨fun t => Sval R Cs Cl Cg d r ph t P, fun T => S_closed_form R Cs Cl Cg d ok r ph T P,
   fun T hT => dS_dT R Cs Cl Cg cs cl cg hs hl hg d ok r ph T P hT⟩

/-! ## Pressure -/

/-- `S_gas_pressure`: gas entropy falls by `R ln(P2/P1)`, for each reference phase. -/
theorem S_gas_pressure (d : Data) (r : Phase) (T P1 P2 : ℝ) (h1 : 0 < P1) (h2 : 0 < P2) (hr : 0 < d.Pref) :
    Sval R Cs Cl Cg d r .g T P2 - Sval R Cs Cl Cg d r .g T P1 = -R * Real.log (P2 / P1) := by
  have e1 : Real.log (P1 / d.Pref) = Real.log P1 - Real.log d.Pref := Real.log_div (ne_of_gt h1) (ne_of_gt hr)
  have e2 : Real.log (P2 / d.Pref) = Real.log P2 - Real.log d.Pref := Real.log_div (ne_of_gt h2) (ne_of_gt hr)
  have e3 : Real.log (P2 / P1) = Real.log P2 - Real.log P1 := Real.log_div (ne_of_gt h2) (ne_of_gt h1)
  cases r <;> simp only [Sval, e1, e2, e3] <;> ring

/-- enthalpy (all phases) and the entropy of the condensed phases do not depend on pressure -/
theorem pressure_independent (d : Data) (r ph : Phase) (T P1 P2 : ℝ) (hph : ph ≠ .g) :
    Sval R Cs Cl Cg d r ph T P2 = Sval R Cs Cl Cg d r ph T P1 := by
  cases r <;> cases ph <;> simp_all [Sval]

/-! ## Phase transitions -/

/-- `jump_Tb` (enthalpy): `H_g(Tb) − H_l(Tb) = Hvap(Tb)` for each reference phase. -/
theorem jump_Tb_H (hl : Lawful Cl cl) (hg : Lawful Cg cg) (d : Data) (r : Phase) :
    Hval Cs Cl Cg d r .g d.Tb - Hval Cs Cl Cg d r .l d.Tb = d.Hvap := by
  have e := hg.I_add d.Tref d.Tb d.Tref
  have e0 := hg.I_self d.Tref
  cases r <;> simp only [Hval, hl.I_self, hg.I_self] <;> linarith

/-- `jump_Tb` (entropy): at the reference pressure `S_g(Tb) − S_l(Tb) = Hvap(Tb) / Tb`. -/
theorem jump_Tb_S (hl : Lawful Cl cl) (hg : Lawful Cg cg) (d : Data) (ok : d.Ok) (r : Phase) :
    Sval R Cs Cl Cg d r .g d.Tb d.Pref - Sval R Cs Cl Cg d r .l d.Tb d.Pref = d.Hvap / d.Tb := by
  have e := hg.J_add d.Tref d.Tb d.Tref ok.Tref_pos ok.Tb_pos ok.Tref_pos
  have e0 := hg.J_self d.Tref
  have hlog : Real.log (d.Pref / d.Pref) = 0 := by
    by_cases h : d.Pref = 0
    · simp [h]
    · simp [div_self h]
  cases r <;> simp only [Sval, hl.J_self, hg.J_self, hlog] <;> linarith

/-- `jump_Tm` (enthalpy): `H_l(Tm) − H_s(Tm) = Hfus` for each reference phase. -/
theorem jump_Tm_H (hs : Lawful Cs cs) (hl : Lawful Cl cl) (d : Data) (r : Phase) :
    Hval Cs Cl Cg d r .l d.Tm - Hval Cs Cl Cg d r .s d.Tm = d.Hfus := by
  have e := hl.I_add d.Tref d.Tm d.Tref
  have e0 := hl.I_self d.Tref
  have e1 := hl.I_add d.Tb d.Tm d.Tb
  have e2 := hl.I_self d.Tb
  cases r <;> simp only [Hval, hs.I_self, hl.I_self] <;> linarith

/-- `jump_Tm` (entropy) in terms of the stored entropy of fusion, whatever it is (it can be set independently through
the `Sfus` setter): `S_l(Tm) − S_s(Tm) = Sfus`.  `jump_Tm_S` below is the clause of the property. -/
theorem jump_Tm_S_partial (hs : Lawful Cs cs) (hl : Lawful Cl cl) (d : Data) (ok : d.Ok) (r : Phase) (P : ℝ) :
    Sval R Cs Cl Cg d r .l d.Tm P - Sval R Cs Cl Cg d r .s d.Tm P = d.Sfus := by
  have e := hl.J_add d.Tref d.Tm d.Tref ok.Tref_pos ok.Tm_pos ok.Tref_pos
  have e0 := hl.J_self d.Tref
  have e1 := hl.J_add d.Tb d.Tm d.Tb ok.Tb_pos ok.Tm_pos ok.Tb_pos
  have e2 := hl.J_self d.Tb
  cases r <;> simp only [Sval, hs.J_self, hl.J_self] <;> linarith

/-! ## The entropy of fusion (DESIGN.md §8 #21, fixed in /repo by 7c3427a)

`_init_data` used to compute `Sfus` from the CONSTRUCTOR arguments, so every database chemical had `Sfus = None` and
the entropy functors on the other side of the melting point raised `TypeError`.  Since the fix it is computed from
the stored `Hfus` and `Tm`; the model (`initSfus`) mirrors the fixed code and the clause is a theorem. -/

/-- the chemical as `_init_data` + `_init_energies` build it: the entropy of fusion is derived from the stored
`Hfus` and `Tm` -/
def chemInData (r : Phase) (d : Data) : ChemIn ℝ :=
  { chemIn r d with Sfus := initSfus (realEnv R) (some d.Hfus) (some d.Tm) }

/-- `_init_data` stores `Hfus / Tm` whenever `Tm` is truthy and `Hfus` is a number … -/
theorem Sfus_init (h t : ℝ) (ht : t ≠ 0) : initSfus (realEnv R) (some h) (some t) = some (h / t) := by
  simp [initSfus, truthy, realEnv, ht]

/-- … and `None` exactly when `Tm` is missing/zero or `Hfus` is missing. -/
theorem Sfus_init_none (h t : Option ℝ) :
    initSfus (realEnv R) h t = none ↔ (t = none ∨ t = some 0 ∨ h = none) := by
  cases h <;> cases t <;> simp [initSfus, truthy, realEnv]

/-- `jump_Tm` (entropy), full clause: for a chemical as the (fixed) code builds it, in each of the 3 reference phases,
the entropy functors of the liquid and the solid evaluate at the melting point (no `TypeError`) and
`S_l(Tm) − S_s(Tm) = Hfus / Tm`. -/
theorem jump_Tm_S (hs : Lawful Cs cs) (hl : Lawful Cl cl) (d : Data) (ok : d.Ok) (r : Phase) (P : ℝ) :
    ∃ sl ss, (initEnergies (realEnv R) Cs Cl Cg (chemInData R r d)).S (realEnv R) .l d.Tm P = .ok sl ∧
             (initEnergies (realEnv R) Cs Cl Cg (chemInData R r d)).S (realEnv R) .s d.Tm P = .ok ss ∧
             sl - ss = d.Hfus / d.Tm := by
  let d' : Data := { d with Sfus := d.Hfus / d.Tm }
  have ok' : d'.Ok := ⟨ok.Tref_pos, ok.Tm_pos, ok.Tb_pos, ok.Hvap_ne⟩
  have e : chemInData R r d = chemIn r d' := by
    simp only [chemInData, Sfus_init R d.Hfus d.Tm (ne_of_gt ok.Tm_pos)]
    rfl
  refine ⟨Sval R Cs Cl Cg d' r .l d'.Tm P, Sval R Cs Cl Cg d' r .s d'.Tm P, ?_, ?_, ?_⟩
  · rw [e]; exact S_closed_form R Cs Cl Cg d' ok' r .l d.Tm P
  · rw [e]; exact S_closed_form R Cs Cl Cg d' ok' r .s d.Tm P
  · exact jump_Tm_S_partial R Cs Cl Cg cs cl hs hl d' ok' r P

/-- The `Tm` / `Hfus` setters keep the clause (fix C07-5): when the stored entropy of fusion is the derived one
(`Hfus / Tm` of the values before the edit), after the edit it is `Hfus' / Tm'` — so `jump_Tm_S` applies to the edited
chemical as well; a value set independently through the `Sfus` setter is left alone. -/
theorem Sfus_follows_setters (h t h' t' : ℝ) (ht : t ≠ 0) (ht' : t' ≠ 0) :
    sfusAfterEdit (realEnv R) (initSfus (realEnv R) (some h) (some t)) (some h) (some t) (some h') (some t') = some (h' / t') ∧
    (∀ s : ℝ, s ≠ h / t →
      sfusAfterEdit (realEnv R) (some s) (some h) (some t) (some h') (some t') = some s) := by
  constructor
  · simp [sfusAfterEdit, initSfus, truthy, realEnv, ht, ht']
  · intro s hs
    have : s - h / t ≠ 0 := sub_ne_zero.2 hs
    simp [sfusAfterEdit, truthy, realEnv, ht, this]

/-- the error branch ("raises iff"): a chemical WITHOUT an entropy of fusion (e.g. `Chemical.blank(…)` built without
`Sfus`; before the fix: every database chemical) raises `TypeError` in exactly the entropy functors that cross the
melting point from the reference phase, at every `T, P`. -/
theorem solid_entropy_raises_without_Sfus (d : Data) (ok : d.Ok) (T P : ℝ) :
    (initEnergies (realEnv R) Cs Cl Cg { chemIn .l d with Sfus := none }).S (realEnv R) .s T P = .error .typeError ∧
    (initEnergies (realEnv R) Cs Cl Cg { chemIn .g d with Sfus := none }).S (realEnv R) .s T P = .error .typeError ∧
    (initEnergies (realEnv R) Cs Cl Cg { chemIn .s d with Sfus := none }).S (realEnv R) .l T P = .error .typeError ∧
    (initEnergies (realEnv R) Cs Cl Cg { chemIn .s d with Sfus := none }).S (realEnv R) .g T P = .error .typeError := by
  have h1 := ne_of_gt ok.Tm_pos
  have h2 := ne_of_gt ok.Tb_pos
  have h3 := ok.Hvap_ne
  refine ⟨?_, ?_, ?_, ?_⟩ <;>
    simp [initEnergies, chemIn, truthy, realEnv, guardedInt, h1, h2, h3, Energies.S, Inst.eval,
      call, Inst.cnOf, Inst.valOf, Inst.arg, Fn.params, Builder.s, Builder.l, Builder.g, List.zip, lookupPar]

/-- the data of liquid-reference "water" with constant heat capacities (used by the non-vacuity examples) -/
def witnessData : Data :=
  { Tref := 298.15, Pref := 101325, Href := 0, S0 := 70, Tm := 273.15, Tb := 373.15, Hfus := 6010, Sfus := 6010 / 273.15, Hvap := 40650 }

theorem witnessData_ok : witnessData.Ok := by
  constructor <;> norm_num [witnessData]

/-- `_set_phase_ref` without an explicit phase: the reference phase is the phase at `T_ref`
(solid up to and including `Tm`, gas from `Tb` on, liquid in between). -/
theorem defaultPhaseRef_spec (Tref Tm Tb : ℝ) (hm : Tm ≠ 0) (hb : Tb ≠ 0) :
    defaultPhaseRef (realEnv R) Tref (some Tm) (some Tb) =
      (if Tref ≤ Tm then Phase.s else if Tb ≤ Tref then Phase.g else Phase.l) := by
  simp only [defaultPhaseRef, truthy, realEnv, hm, hb, decide_false, Bool.not_false, if_true]
  by_cases h1 : Tref ≤ Tm <;> by_cases h2 : Tb ≤ Tref <;> simp [h1, h2]

/-! ## Phase-locked chemicals

`lock_phase` replaces `Cn` by the single-phase model and sets `phase_ref = locked_state = phase`;
`_init_energies` then builds `Enthalpy` and `Entropy` / `EntropyGas` whatever Tm, Tb, Hvap, Hfus, Sfus are. -/

/-- the heat-capacity object of a phase -/
def capOf : Phase → HeatCap ℝ
  | .s => Cs | .l => Cl | .g => Cg

theorem locked_H_closed_form (c : ChemIn ℝ) (p ph : Phase) (hlock : c.locked = some p)
    (hcn : (match p with | .s => c.hasS | .l => c.hasL | .g => c.hasG) = true) (T P : ℝ) :
    (initEnergies (realEnv R) Cs Cl Cg c).H (realEnv R) ph T P = .ok (c.H_ref + (capOf Cs Cl Cg p).I c.T_ref T) := by
  rcases c with ⟨r, lk, a, b, e, Tm, Tb, Hfus, Sfus, Hv, S0, Tref, Pref, Href⟩
  simp only at hlock hcn
  subst hlock
  cases p <;> simp only at hcn <;> subst hcn <;>
    simp [initEnergies, Energies.H, Inst.eval, call, Inst.cnOf, Inst.valOf, Inst.arg, Fn.params, List.zip, lookupPar,
      Enthalpy, capOf]

theorem locked_S_closed_form (c : ChemIn ℝ) (p ph : Phase) (s0 : ℝ) (hlock : c.locked = some p) (href : c.phaseRef = p)
    (hcn : (match p with | .s => c.hasS | .l => c.hasL | .g => c.hasG) = true) (hS0 : c.S0 = some s0) (T P : ℝ) :
    (initEnergies (realEnv R) Cs Cl Cg c).S (realEnv R) ph T P =
      .ok (s0 + (capOf Cs Cl Cg p).J c.T_ref T - (if p = .g then R * Real.log (P / c.P_ref) else 0)) := by
  rcases c with ⟨r, lk, a, b, e, Tm, Tb, Hfus, Sfus, Hv, S0, Tref, Pref, Href⟩
  simp only at hlock hcn href hS0
  subst hlock href hS0
  cases r <;> simp only at hcn <;> subst hcn <;>
    simp [initEnergies, Energies.S, Inst.eval, call, Inst.cnOf, Inst.valOf, Inst.arg, Fn.params, List.zip, lookupPar,
      Entropy, EntropyGas, capOf, realEnv]

/-- reference state, derivative and pressure term of a phase-locked chemical -/
theorem locked_consistent (hs : Lawful Cs cs) (hl : Lawful Cl cl) (hg : Lawful Cg cg) (p : Phase) (Tref Pref Href s0 : ℝ)
    (hTref : 0 < Tref) :
    let h := fun T => Href + (capOf Cs Cl Cg p).I Tref T
    let s := fun T P => s0 + (capOf Cs Cl Cg p).J Tref T - (if p = .g then R * Real.log (P / Pref) else 0)
    h Tref = Href ∧ s Tref Pref = s0 ∧
    (∀ T, HasDerivAt h (cnOf cs cl cg p T) T) ∧
    (∀ T P, 0 < T → HasDerivAt (fun t => s t P) (cnOf cs cl cg p T / T) T) ∧
    (∀ T P1 P2, 0 < P1 → 0 < P2 → 0 < Pref → p = .g → s T P2 - s T P1 = -R * Real.log (P2 / P1)) := by
  have hlog : Real.log (Pref / Pref) = 0 := by
    by_cases h : Pref = 0
    · simp [h]
    · simp [div_self h]
  have hL : Lawful (capOf Cs Cl Cg p) (cnOf cs cl cg p) := by cases p <;> assumption
  refine ⟨by simp [hL.I_self], by simp [hL.J_self, hlog], ?_, ?_, ?_⟩
  · intro T; exact (hL.I_deriv _ T).const_add _
  · intro T P hT; exact ((hL.J_deriv _ T hTref hT).const_add _).sub_const _
  · intro T P1 P2 h1 h2 hr hp
    have e1 : Real.log (P1 / Pref) = Real.log P1 - Real.log Pref := Real.log_div (ne_of_gt h1) (ne_of_gt hr)
    have e2 : Real.log (P2 / Pref) = Real.log P2 - Real.log Pref := Real.log_div (ne_of_gt h2) (ne_of_gt hr)
    have e3 : Real.log (P2 / P1) = Real.log P2 - Real.log P1 := Real.log_div (ne_of_gt h2) (ne_of_gt h1)
    simp only [hp, if_true, e1, e2, e3]; ring

/-! ## Mixtures

A composition is a list of per-chemical records, so that amounts and pure-component values have the same length
by construction: `(nᵢ, vᵢ)` or `(nᵢ, mᵢ, vᵢ)` for two streams.  `vᵢ = models[i](phase, T, P)` is the
pure-component value (arbitrary). -/

private lemma foldl_add (l : List ℝ) (a : ℝ) : l.foldl (· + ·) a = a + l.sum := by
  induction l generalizing a with
  | nil => simp
  | cons x xs ih => simp [List.foldl_cons, ih, add_assoc]

private lemma sumList_eq (l : List ℝ) : sumList l = l.sum := by
  simp [sumList, foldl_add]

private lemma sum_filter_nonzero (f : ℝ × ℝ → ℝ) (hf : ∀ b, f (0, b) = 0) (l : List (ℝ × ℝ)) :
    ((l.filter fun p => !(realEnv R).isZero p.1).map f).sum = (l.map f).sum := by
  induction l with
  | nil => simp
  | cons p ps ih =>
    rcases p with ⟨a, b⟩
    have ih' : ((ps.filter fun p => !decide (p.1 = 0)).map f).sum = (ps.map f).sum := by simpa [realEnv] using ih
    by_cases h : a = 0
    · subst h
      simp [realEnv, hf, ih']
    · simp [realEnv, h, ih']

private lemma molTotal_eq (n : List ℝ) : molTotal (realEnv R) n = n.sum := by
  simp only [molTotal, sumList_eq]
  induction n with
  | nil => simp
  | cons a as ih =>
    have ih' : (as.filter fun n => !decide (n = 0)).sum = as.sum := by simpa [realEnv] using ih
    by_cases h : a = 0
    · subst h
      simp [realEnv, ih']
    · simp [realEnv, h, ih']

private lemma list_sum_nonpos (l : List ℝ) (h : ∀ x ∈ l, x ≤ 0) : l.sum ≤ 0 := by
  induction l with
  | nil => simp
  | cons x xs ih =>
    have h1 := h x (by simp)
    have h2 := ih (fun y hy => h y (by simp [hy]))
    simp only [List.sum_cons]; linarith

private lemma zip_map_map {ι : Type} (l : List ι) (f g : ι → ℝ) :
    (l.map f).zip (l.map g) = l.map fun x => (f x, g x) := by
  induction l with
  | nil => rfl
  | cons x xs ih => simp [ih]

/-- `IdealTPMixtureModel` / `IdealTMixtureModel` return the mole-weighted sum of the pure values (zero amounts,
which the sparse vector does not store, contribute nothing). -/
theorem mix_eq_weighted_sum {ι : Type} (l : List ι) (n v : ι → ℝ) :
    idealMix (realEnv R) (l.map n) (l.map v) = (l.map fun x => n x * v x).sum := by
  simp only [idealMix, nonzero, sumList_eq, zip_map_map]
  rw [sum_filter_nonzero R (fun p => p.1 * p.2) (by simp)]
  simp [List.map_map, Function.comp_def]

/-- `H_mix_linear`: mixture enthalpy is the mole-weighted sum of the pure enthalpies `hᵢ = H_i(phase, T, P)`. -/
theorem H_mix_linear (l : List (ℝ × ℝ)) :
    idealMix (realEnv R) (l.map (·.1)) (l.map (·.2)) = (l.map fun p => p.1 * p.2).sum :=
  mix_eq_weighted_sum R l _ _

/-- … hence additive in the amounts (two streams `n`, `m` of the same chemicals at the same phase, T, P) … -/
theorem H_mix_additive (l : List (ℝ × ℝ × ℝ)) :
    idealMix (realEnv R) (l.map fun t => t.1 + t.2.1) (l.map (·.2.2)) =
      idealMix (realEnv R) (l.map (·.1)) (l.map (·.2.2)) + idealMix (realEnv R) (l.map (·.2.1)) (l.map (·.2.2)) := by
  simp only [mix_eq_weighted_sum, add_mul, List.sum_map_add]

/-- `H_mix_extensive`: scaling the amounts by `k` scales the mixture enthalpy by `k`. -/
theorem H_mix_extensive (k : ℝ) (l : List (ℝ × ℝ)) :
    idealMix (realEnv R) (l.map fun p => k * p.1) (l.map (·.2)) = k * idealMix (realEnv R) (l.map (·.1)) (l.map (·.2)) := by
  simp only [mix_eq_weighted_sum, mul_assoc, List.sum_map_mul_left]

/-- `Cn_mix_linear`: `IdealTMixtureModel` is the same sum over `Cn_i(phase, T)`: mole-weighted, additive, extensive. -/
theorem Cn_mix_linear (k : ℝ) (l : List (ℝ × ℝ × ℝ)) :
    idealMix (realEnv R) (l.map (·.1)) (l.map (·.2.2)) = (l.map fun t => t.1 * t.2.2).sum ∧
    idealMix (realEnv R) (l.map fun t => t.1 + t.2.1) (l.map (·.2.2)) =
      idealMix (realEnv R) (l.map (·.1)) (l.map (·.2.2)) + idealMix (realEnv R) (l.map (·.2.1)) (l.map (·.2.2)) ∧
    idealMix (realEnv R) (l.map fun t => k * t.1) (l.map (·.2.2)) = k * idealMix (realEnv R) (l.map (·.1)) (l.map (·.2.2)) := by
  refine ⟨mix_eq_weighted_sum R l _ _, H_mix_additive R l, ?_⟩
  simp only [mix_eq_weighted_sum, mul_assoc, List.sum_map_mul_left]

/-- multi-phase `xH`, `xS`, `xCn` are the sums of the single-phase values -/
theorem xSum_eq (l : List ℝ) : xSum l = l.sum := sumList_eq l

/-- `Σ nᵢ ln(nᵢ / N)`, `N = Σ nᵢ`: the term `IdealEntropyModel` ADDS (the ideal mixing entropy is `−R` times it) -/
def mixTerm (n : List ℝ) : ℝ := (n.map fun a => a * Real.log (a / n.sum)).sum

/-- `S_mix_ideal_partial` — what the code computes (DESIGN.md §8 #20): `Mixture.S` returns the mole-weighted sum
of the pure entropies PLUS `Σ nᵢ ln xᵢ` (wrong sign, no `R`); an empty stream has entropy 0. -/
theorem S_mix_ideal_partial (l : List (ℝ × ℝ)) :
    mixtureS (realEnv R) (l.map (·.1)) (l.map (·.2)) = (l.map fun p => p.1 * p.2).sum + mixTerm (l.map (·.1)) := by
  unfold mixtureS
  split_ifs with hempty
  · -- every amount is zero
    have hz : ∀ p ∈ l, p.1 = 0 := by
      intro p hp
      by_contra hne
      have : p.1 ∈ (l.map (·.1)).filter fun n => !(realEnv R).isZero n := by
        simp only [List.mem_filter, List.mem_map]
        exact ⟨⟨p, hp, rfl⟩, by simp [realEnv, hne]⟩
      rw [List.isEmpty_iff.1 hempty] at this
      exact List.not_mem_nil this
    have h1 : (l.map fun p => p.1 * p.2).sum = 0 := by
      apply List.sum_eq_zero; intro x hx
      obtain ⟨p, hp, rfl⟩ := List.mem_map.1 hx
      simp [hz p hp]
    have h2 : mixTerm (l.map (·.1)) = 0 := by
      unfold mixTerm
      apply List.sum_eq_zero; intro x hx
      obtain ⟨a, ha, rfl⟩ := List.mem_map.1 hx
      obtain ⟨p, hp, rfl⟩ := List.mem_map.1 ha
      simp [hz p hp]
    rw [h1, h2]; norm_num
  · simp only [idealEntropy, nonzero, sumList_eq, zip_map_map, molTotal_eq]
    rw [sum_filter_nonzero R (fun p => p.1 * p.2 + p.1 * (realEnv R).log (p.1 / (l.map (·.1)).sum)) (by simp)]
    simp only [List.map_map, Function.comp_def, List.sum_map_add, mixTerm, realEnv]

/-- the added term is never positive … -/
theorem mixTerm_nonpos (n : List ℝ) (hn : ∀ a ∈ n, 0 ≤ a) : mixTerm n ≤ 0 := by
  unfold mixTerm
  apply list_sum_nonpos
  intro x hx
  obtain ⟨a, ha, rfl⟩ := List.mem_map.1 hx
  have h0 := hn a ha
  have hle : a ≤ n.sum := List.single_le_sum hn a ha
  rcases eq_or_lt_of_le h0 with h | h
  · simp [← h]
  · have hN : 0 < n.sum := lt_of_lt_of_le h hle
    have : Real.log (a / n.sum) ≤ 0 :=
      Real.log_nonpos (div_nonneg h0 hN.le) ((div_le_one hN).2 hle)
    exact mul_nonpos_of_nonneg_of_nonpos h0 this

/-- … so the ideal mixing entropy `−R Σ nᵢ ln xᵢ` is never negative (the inequality of the property). -/
theorem ideal_mixing_term_nonneg (hR : 0 ≤ R) (n : List ℝ) (hn : ∀ a ∈ n, 0 ≤ a) : 0 ≤ -R * mixTerm n := by
  have := mixTerm_nonpos n hn
  nlinarith

/-- `S_mix_ideal` — the full clause: mixture entropy exceeds the mole-weighted sum by `−R Σ nᵢ ln xᵢ ≥ 0`. -/
def S_mix_ideal_statement : Prop :=
  ∀ (R : ℝ), 0 < R → ∀ l : List (ℝ × ℝ), (∀ p ∈ l, 0 ≤ p.1) →
    mixtureS (realEnv R) (l.map (·.1)) (l.map (·.2)) - (l.map fun p => p.1 * p.2).sum = -R * mixTerm (l.map (·.1)) ∧
    0 ≤ mixtureS (realEnv R) (l.map (·.1)) (l.map (·.2)) - (l.map fun p => p.1 * p.2).sum

private lemma log_half_neg : Real.log (1 / 2) < 0 := Real.log_neg (by norm_num) (by norm_num)

private lemma mixTerm_one_one : mixTerm [1, 1] = 2 * Real.log (1 / 2) := by
  simp only [mixTerm, List.map_cons, List.map_nil, List.sum_cons, List.sum_nil]
  norm_num
  ring

/-- `S_mix_ideal_counterexample`: an equimolar binary mixture (1 mol + 1 mol, any pure entropies — here 0): the
code's excess over the mole-weighted sum is `2 ln ½ < 0`. -/
theorem S_mix_ideal_counterexample : ¬ S_mix_ideal_statement := by
  intro h
  have h2 := (h 1 one_pos [(1, 0), (1, 0)] (by simp)).2
  rw [S_mix_ideal_partial] at h2
  have e : mixTerm (List.map (fun x : ℝ × ℝ => x.1) [(1, 0), (1, 0)]) = 2 * Real.log (1 / 2) := by
    simpa using mixTerm_one_one
  rw [e] at h2
  have := log_half_neg
  linarith

/-- `mixing_never_lowers_S` — the full clause: two streams of the same chemicals at equal phase, T, P (so equal
pure-component entropies `sᵢ`): the entropy of the mixed stream is at least the sum of the two. -/
def mixing_never_lowers_S_statement : Prop :=
  ∀ (R : ℝ), 0 < R → ∀ l : List (ℝ × ℝ × ℝ), (∀ t ∈ l, 0 ≤ t.1 ∧ 0 ≤ t.2.1) →
    mixtureS (realEnv R) (l.map (·.1)) (l.map (·.2.2)) + mixtureS (realEnv R) (l.map (·.2.1)) (l.map (·.2.2)) ≤
      mixtureS (realEnv R) (l.map fun t => t.1 + t.2.1) (l.map (·.2.2))

/-- `mixing_never_lowers_S_counterexample`: 1 mol of pure A mixed with 1 mol of pure B (pure entropies 0):
the code's entropy drops by `2 ln 2`. -/
theorem mixing_never_lowers_S_counterexample : ¬ mixing_never_lowers_S_statement := by
  intro h
  have h2 := h 1 one_pos [(1, 0, 0), (0, 1, 0)] (by simp)
  have e1 := S_mix_ideal_partial 1 [((1 : ℝ), (0 : ℝ)), (0, 0)]
  have e2 := S_mix_ideal_partial 1 [((0 : ℝ), (0 : ℝ)), (1, 0)]
  have e3 := S_mix_ideal_partial 1 [((1 : ℝ) + 0, (0 : ℝ)), (0 + 1, 0)]
  simp only [List.map_cons, List.map_nil] at h2 e1 e2 e3
  rw [e1, e2, e3] at h2
  have t1 : mixTerm [(1 : ℝ), 0] = 0 := by simp [mixTerm]
  have t2 : mixTerm [(0 : ℝ), 1] = 0 := by simp [mixTerm]
  have t3 : mixTerm [(1 : ℝ) + 0, 0 + 1] = 2 * Real.log (1 / 2) := by
    simpa using mixTerm_one_one
  rw [t1, t2, t3] at h2
  have := log_half_neg
  norm_num at h2
  linarith

/-! ### `include_excess_energies`

With the flag set `Mixture.H` adds `_H_excess(phase, mol, T, P)`, an `IdealTPMixtureModel` over the chemicals'
excess-enthalpy handles; the per-chemical excess values `exᵢ` (equation of state) are arbitrary parameters.
A composition record is `(nᵢ, hᵢ, exᵢ)` or `(nᵢ, mᵢ, hᵢ, exᵢ)`. -/

/-- `H_mix_linear` under the flag: the mixture enthalpy is the mole-weighted sum of `hᵢ` (flag off) or of
`hᵢ + exᵢ` (flag on). -/
theorem Hx_mix_linear (incl : Bool) (l : List (ℝ × ℝ × ℝ)) :
    mixtureHx (realEnv R) incl (l.map (·.1)) (l.map (·.2.1)) (l.map (·.2.2)) =
      (l.map fun t => t.1 * (t.2.1 + if incl then t.2.2 else 0)).sum := by
  cases incl <;> simp [mixtureHx, mix_eq_weighted_sum, mul_add, List.sum_map_add]

/-- additive in the amounts, with or without the excess terms -/
theorem Hx_mix_additive (incl : Bool) (l : List (ℝ × ℝ × ℝ × ℝ)) :
    mixtureHx (realEnv R) incl (l.map fun t => t.1 + t.2.1) (l.map (·.2.2.1)) (l.map (·.2.2.2)) =
      mixtureHx (realEnv R) incl (l.map (·.1)) (l.map (·.2.2.1)) (l.map (·.2.2.2)) +
      mixtureHx (realEnv R) incl (l.map (·.2.1)) (l.map (·.2.2.1)) (l.map (·.2.2.2)) := by
  cases incl <;> simp only [mixtureHx, mix_eq_weighted_sum, add_mul, List.sum_map_add, if_true, if_false,
    Bool.false_eq_true] <;> ring

/-- extensive, with or without the excess terms -/
theorem Hx_mix_extensive (incl : Bool) (k : ℝ) (l : List (ℝ × ℝ × ℝ)) :
    mixtureHx (realEnv R) incl (l.map fun t => k * t.1) (l.map (·.2.1)) (l.map (·.2.2)) =
      k * mixtureHx (realEnv R) incl (l.map (·.1)) (l.map (·.2.1)) (l.map (·.2.2)) := by
  cases incl <;> simp only [mixtureHx, mix_eq_weighted_sum, mul_assoc, List.sum_map_mul_left, if_true, if_false,
    Bool.false_eq_true] <;> ring

/-- with the flag off nothing changes: `Mixture.H` is the ideal model -/
theorem Hx_flag_off (mol vals ex : List ℝ) : mixtureHx (realEnv R) false mol vals ex = idealMix (realEnv R) mol vals := by
  simp [mixtureHx]

/-- `Mixture.S` under the flag (what the code computes): the entropy model's value (with the mixing term as it is,
§8 #20) plus, when the flag is set, the mole-weighted excess entropies; an empty stream has entropy 0 either way. -/
theorem Sx_mix_partial (incl : Bool) (l : List (ℝ × ℝ × ℝ)) :
    mixtureSx (realEnv R) incl (l.map (·.1)) (l.map (·.2.1)) (l.map (·.2.2)) =
      mixtureS (realEnv R) (l.map (·.1)) (l.map (·.2.1)) +
        (if incl then (l.map fun t => t.1 * t.2.2).sum else 0) := by
  unfold mixtureSx mixtureS
  split_ifs with hempty hincl
  · -- empty: the excess sum is zero as well
    have hz : ∀ t ∈ l, t.1 = 0 := by
      intro t ht
      by_contra hne
      have : t.1 ∈ (l.map (·.1)).filter fun n => !(realEnv R).isZero n := by
        simp only [List.mem_filter, List.mem_map]
        exact ⟨⟨t, ht, rfl⟩, by simp [realEnv, hne]⟩
      rw [List.isEmpty_iff.1 hempty] at this
      exact List.not_mem_nil this
    have h1 : (l.map fun t => t.1 * t.2.2).sum = 0 := by
      apply List.sum_eq_zero; intro x hx
      obtain ⟨t, ht, rfl⟩ := List.mem_map.1 hx
      simp [hz t ht]
    rw [h1]; norm_num
  · norm_num
  · rw [mix_eq_weighted_sum]
  · norm_num

/-- The alias labels: `'L'` (second liquid phase) is the liquid and `'S'` the solid, so every theorem about
`Energies.H/S`, `idealMix` … at phase `.l` / `.s` is the statement for `chemical.H('L', T, P)` / `('S', …)`; no other
label resolves. -/
theorem phase_labels :
    phaseOfLabel "L" = some Phase.l ∧ phaseOfLabel "S" = some Phase.s ∧
    phaseOfLabel "l" = some Phase.l ∧ phaseOfLabel "s" = some Phase.s ∧ phaseOfLabel "g" = some Phase.g ∧
    phaseOfLabel "G" = none := by
  decide

/-! ### `force_gas_critical_phase` -/

/-- With the class switch off (the default) the phase asked for is the phase evaluated, so every theorem above is
about `chemical.H/S` as called; with it on, a call above the critical temperature evaluates the GAS functor whatever
phase was asked for, and a call at or below `Tc` is unchanged. -/
theorem force_gas_critical_phase_spec (w : Energies ℝ) (Tc T P : ℝ) (ph : Phase) :
    w.Hforce (realEnv R) false Tc ph T P = w.H (realEnv R) ph T P ∧
    w.Sforce (realEnv R) false Tc ph T P = w.S (realEnv R) ph T P ∧
    (Tc < T → w.Hforce (realEnv R) true Tc ph T P = w.H (realEnv R) .g T P ∧
              w.Sforce (realEnv R) true Tc ph T P = w.S (realEnv R) .g T P) ∧
    (T ≤ Tc → w.Hforce (realEnv R) true Tc ph T P = w.H (realEnv R) ph T P ∧
              w.Sforce (realEnv R) true Tc ph T P = w.S (realEnv R) ph T P) := by
  refine ⟨by simp [Energies.Hforce, effPhase], by simp [Energies.Sforce, effPhase], ?_, ?_⟩
  · intro h
    have : ¬ T ≤ Tc := not_le.2 h
    simp [Energies.Hforce, Energies.Sforce, effPhase, realEnv, this]
  · intro h
    simp [Energies.Hforce, Energies.Sforce, effPhase, realEnv, h]

/-! ### The log-sum inequality: what mixing does to `Σ nᵢ ln xᵢ` -/

private lemma logsum_pos (a b N M : ℝ) (ha : 0 < a) (hb : 0 < b) (hN : 0 < N) (hM : 0 < M) :
    (a + b) * Real.log ((a + b) / (N + M)) ≤ a * Real.log (a / N) + b * Real.log (b / M) := by
  have hab : 0 < a + b := by linarith
  have hw : a / (a + b) + b / (a + b) = 1 := by field_simp
  have hc : (a / (a + b)) * Real.log (N / a) + (b / (a + b)) * Real.log (M / b) ≤
      Real.log ((a / (a + b)) * (N / a) + (b / (a + b)) * (M / b)) := by
    have := strictConcaveOn_log_Ioi.concaveOn.2 (Set.mem_Ioi.2 (div_pos hN ha)) (Set.mem_Ioi.2 (div_pos hM hb))
      (show (0 : ℝ) ≤ a / (a + b) by positivity) (show (0 : ℝ) ≤ b / (a + b) by positivity) hw
    simpa only [smul_eq_mul] using this
  have e : a / (a + b) * (N / a) + b / (a + b) * (M / b) = (N + M) / (a + b) := by field_simp
  rw [e] at hc
  have l1 : Real.log (N / a) = -Real.log (a / N) := by rw [← Real.log_inv, inv_div]
  have l2 : Real.log (M / b) = -Real.log (b / M) := by rw [← Real.log_inv, inv_div]
  have l3 : Real.log ((N + M) / (a + b)) = -Real.log ((a + b) / (N + M)) := by rw [← Real.log_inv, inv_div]
  rw [l1, l2, l3] at hc
  have h := mul_le_mul_of_nonneg_left hc hab.le
  have e2 : (a + b) * (a / (a + b) * -Real.log (a / N) + b / (a + b) * -Real.log (b / M)) =
      -(a * Real.log (a / N)) - b * Real.log (b / M) := by
    field_simp
    ring
  rw [e2] at h
  linarith

private lemma logsum_term (a b N M : ℝ) (ha : 0 ≤ a) (hb : 0 ≤ b) (hN : 0 ≤ N) (hM : 0 ≤ M)
    (haN : 0 < a → 0 < N) (hbM : 0 < b → 0 < M) :
    (a + b) * Real.log ((a + b) / (N + M)) ≤ a * Real.log (a / N) + b * Real.log (b / M) := by
  rcases eq_or_lt_of_le ha with h0 | hapos
  · subst h0
    rcases eq_or_lt_of_le hb with h0 | hbpos
    · subst h0; simp
    · have hMpos := hbM hbpos
      have : Real.log (b / (N + M)) ≤ Real.log (b / M) :=
        Real.log_le_log (by positivity) (div_le_div_of_nonneg_left hb hMpos (by linarith))
      simpa using mul_le_mul_of_nonneg_left this hb
  · have hNpos := haN hapos
    rcases eq_or_lt_of_le hb with h0 | hbpos
    · subst h0
      have : Real.log (a / (N + M)) ≤ Real.log (a / N) :=
        Real.log_le_log (by positivity) (div_le_div_of_nonneg_left ha hNpos (by linarith))
      simpa using mul_le_mul_of_nonneg_left this ha
    · exact logsum_pos a b N M hapos hbpos hNpos (hbM hbpos)

private lemma logsum_list (N M : ℝ) (hN : 0 ≤ N) (hM : 0 ≤ M) (l : List (ℝ × ℝ))
    (h : ∀ t ∈ l, 0 ≤ t.1 ∧ 0 ≤ t.2 ∧ (0 < t.1 → 0 < N) ∧ (0 < t.2 → 0 < M)) :
    (l.map fun t => (t.1 + t.2) * Real.log ((t.1 + t.2) / (N + M))).sum ≤
      (l.map fun t => t.1 * Real.log (t.1 / N)).sum + (l.map fun t => t.2 * Real.log (t.2 / M)).sum := by
  induction l with
  | nil => simp
  | cons t ts ih =>
    obtain ⟨h1, h2, h3, h4⟩ := h t (by simp)
    have := ih (fun u hu => h u (by simp [hu]))
    have := logsum_term t.1 t.2 N M h1 h2 hN hM h3 h4
    simp only [List.map_cons, List.sum_cons]
    linarith

/-- Mixing two streams can only LOWER `Σ nᵢ ln xᵢ` (log-sum inequality). -/
theorem mixTerm_mix_le (l : List (ℝ × ℝ)) (h : ∀ t ∈ l, 0 ≤ t.1 ∧ 0 ≤ t.2) :
    mixTerm (l.map fun t => t.1 + t.2) ≤ mixTerm (l.map (·.1)) + mixTerm (l.map (·.2)) := by
  have hn : ∀ a ∈ l.map (·.1), (0 : ℝ) ≤ a := by
    intro a ha; obtain ⟨t, ht, rfl⟩ := List.mem_map.1 ha; exact (h t ht).1
  have hm : ∀ a ∈ l.map (·.2), (0 : ℝ) ≤ a := by
    intro a ha; obtain ⟨t, ht, rfl⟩ := List.mem_map.1 ha; exact (h t ht).2
  have key := logsum_list (l.map (·.1)).sum (l.map (·.2)).sum (List.sum_nonneg hn) (List.sum_nonneg hm) l (by
    intro t ht
    refine ⟨(h t ht).1, (h t ht).2, fun hp => ?_, fun hp => ?_⟩
    · exact lt_of_lt_of_le hp (List.single_le_sum hn _ (List.mem_map.2 ⟨t, ht, rfl⟩))
    · exact lt_of_lt_of_le hp (List.single_le_sum hm _ (List.mem_map.2 ⟨t, ht, rfl⟩)))
  simpa only [mixTerm, List.map_map, Function.comp_def, List.sum_map_add] using key

/-- `mixing_never_lowers_S_partial` — what the code does instead: with the sign it has, mixing two streams at equal
phase, T, P never RAISES the entropy `Mixture.S` reports (equality iff nothing changes composition-wise). -/
theorem mixing_never_lowers_S_partial (l : List (ℝ × ℝ × ℝ)) (h : ∀ t ∈ l, 0 ≤ t.1 ∧ 0 ≤ t.2.1) :
    mixtureS (realEnv R) (l.map fun t => t.1 + t.2.1) (l.map (·.2.2)) ≤
      mixtureS (realEnv R) (l.map (·.1)) (l.map (·.2.2)) + mixtureS (realEnv R) (l.map (·.2.1)) (l.map (·.2.2)) := by
  have e1 := S_mix_ideal_partial R (l.map fun t => (t.1, t.2.2))
  have e2 := S_mix_ideal_partial R (l.map fun t => (t.2.1, t.2.2))
  have e3 := S_mix_ideal_partial R (l.map fun t => (t.1 + t.2.1, t.2.2))
  simp only [List.map_map, Function.comp_def] at e1 e2 e3
  rw [e1, e2, e3]
  have k := mixTerm_mix_le (l.map fun t => (t.1, t.2.1)) (by
    intro t ht; obtain ⟨u, hu, rfl⟩ := List.mem_map.1 ht; exact h u hu)
  simp only [List.map_map, Function.comp_def] at k
  have e : (l.map fun t => (t.1 + t.2.1) * t.2.2).sum =
      (l.map fun t => t.1 * t.2.2).sum + (l.map fun t => t.2.1 * t.2.2).sum := by
    simp only [add_mul, List.sum_map_add]
  rw [e]; linarith

/-- The entropy model with the mixing term of the property (the proposed patch of `IdealEntropyModel`):
`Σ nᵢ sᵢ − R Σ nᵢ ln xᵢ`. -/
def mixtureSFixed (l : List (ℝ × ℝ)) : ℝ := (l.map fun p => p.1 * p.2).sum - R * mixTerm (l.map (·.1))

/-- Both clauses are satisfiable — by the patched model: the excess is `−R Σ nᵢ ln xᵢ ≥ 0` and mixing at equal
phase, T, P never lowers entropy (so the `…_statement`s are not vacuous demands). -/
theorem fixed_model_satisfies (hR : 0 ≤ R) :
    (∀ l : List (ℝ × ℝ), (∀ p ∈ l, 0 ≤ p.1) →
      mixtureSFixed R l - (l.map fun p => p.1 * p.2).sum = -R * mixTerm (l.map (·.1)) ∧
      0 ≤ mixtureSFixed R l - (l.map fun p => p.1 * p.2).sum) ∧
    (∀ l : List (ℝ × ℝ × ℝ), (∀ t ∈ l, 0 ≤ t.1 ∧ 0 ≤ t.2.1) →
      mixtureSFixed R (l.map fun t => (t.1, t.2.2)) + mixtureSFixed R (l.map fun t => (t.2.1, t.2.2)) ≤
        mixtureSFixed R (l.map fun t => (t.1 + t.2.1, t.2.2))) := by
  constructor
  · intro l hl
    have hn : ∀ a ∈ l.map (·.1), (0 : ℝ) ≤ a := by
      intro a ha; obtain ⟨t, ht, rfl⟩ := List.mem_map.1 ha; exact hl t ht
    have := ideal_mixing_term_nonneg R hR _ hn
    constructor
    · simp only [mixtureSFixed]; ring
    · simp only [mixtureSFixed]; linarith
  · intro l h
    have k := mixTerm_mix_le (l.map fun t => (t.1, t.2.1)) (by
      intro t ht; obtain ⟨u, hu, rfl⟩ := List.mem_map.1 ht; exact h u hu)
    simp only [List.map_map, Function.comp_def] at k
    have e : (l.map fun t => (t.1 + t.2.1) * t.2.2).sum =
        (l.map fun t => t.1 * t.2.2).sum + (l.map fun t => t.2.1 * t.2.2).sum := by
      simp only [add_mul, List.sum_map_add]
    simp only [mixtureSFixed, List.map_map, Function.comp_def]
    rw [e]
    nlinarith

/-! ## Non-vacuity: a concrete chemical meets every hypothesis, and the functors really evaluate -/

/-- "water" with constant heat capacities 30 / 75 / 34 J/mol/K satisfies all hypotheses; its gas enthalpy at the
boiling point, liquid reference, evaluates through the translated functor and the modelled wiring to
`75·(373.15 − 298.15) + 40650`. -/
example :
    (wired 8.3144598 (constCap 30) (constCap 75) (constCap 34) .l witnessData).H (realEnv 8.3144598) .g 373.15 101325
      = .ok (75 * (373.15 - 298.15) + 40650) := by
  rw [H_closed_form _ _ _ _ witnessData witnessData_ok]
  simp only [Hval, constCap, witnessData]
  norm_num

/-- the reference-state, jump and derivative theorems apply to it (hypotheses are jointly satisfiable) -/
example :
    (wired 8.3144598 (constCap 30) (constCap 75) (constCap 34) .g witnessData).S (realEnv 8.3144598) .g 298.15 101325
      = .ok 70 ∧
    Hval (constCap 30) (constCap 75) (constCap 34) witnessData .s .g 373.15
      - Hval (constCap 30) (constCap 75) (constCap 34) witnessData .s .l 373.15 = 40650 ∧
    HasDerivAt (fun t => Sval 8.3144598 (constCap 30) (constCap 75) (constCap 34) witnessData .g .s t 101325) (30 / 250) 250 :=
  ⟨S_ref_state _ _ _ _ _ _ _ (lawful_constCap 30) (lawful_constCap 75) (lawful_constCap 34) witnessData witnessData_ok .g,
   jump_Tb_H _ _ _ _ _ (lawful_constCap 75) (lawful_constCap 34) witnessData .s,
   dS_dT _ _ _ _ _ _ _ (lawful_constCap 30) (lawful_constCap 75) (lawful_constCap 34) witnessData witnessData_ok .g .s 250 101325
     (by norm_num)⟩

/-- a non-constant heat capacity (`cn T = 30 + T/10`, by interval integrals) is lawful too -/
example : Lawful (ofCn fun T => 30 + T / 10) (fun T => 30 + T / 10) :=
  lawful_ofCn _ (by fun_prop)

/-- the mixture statements are about non-trivial inputs: the doctest composition (0.2, 0.8) -/
example : mixTerm [0.2, 0.8] < 0 := by
  have h1 : Real.log (0.2 / (0.2 + (0.8 + 0))) < 0 := Real.log_neg (by norm_num) (by norm_num)
  have h2 : Real.log (0.8 / (0.2 + (0.8 + 0))) < 0 := Real.log_neg (by norm_num) (by norm_num)
  simp only [mixTerm, List.map_cons, List.map_nil, List.sum_cons, List.sum_nil]
  nlinarith

end

end ThermoVerif.Props.C07
